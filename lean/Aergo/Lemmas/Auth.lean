/-
Helper lemmas for C04 (model layer `Auth`). Core Lean only.
-/
import Aergo.Model.Auth
import Aergo.Lemmas.Enc

namespace Aergo.Auth
open Aergo.Enc Aergo.Gen.Enc

/-! ### Shape of the two digest inputs (over the regenerated field lists) -/

/-- The signing digest input, field by field (unfolds the regenerated `txSignSpec`). -/
theorem signInput_eq (t : Tx) :
    signInput t = le 8 t.nonce ++ (t.account ++ (t.recipient ++ (t.amount ++ (t.payload ++
      (le 8 t.gasLimit ++ (t.gasPrice ++ (le 4 t.type ++ t.chainIdHash))))))) := by
  simp [signInput, encode, txSignSpec, encField, Tx.toRec, width]

/-- The identifier's digest input = the signing digest input followed by the signature bytes. -/
theorem hashInput_eq (t : Tx) : hashInput t = signInput t ++ t.sign := by
  simp [hashInput, signInput, encode, txHashSpec, txSignSpec, encField, Tx.toRec, width]

theorem le_length (w n : Nat) : (le w n).length = w := by
  induction w generalizing n with
  | zero => rfl
  | succ w ih => simp [le, ih]

theorem le_inj (w a b : Nat) (ha : a < 2 ^ (8 * w)) (hb : b < 2 ^ (8 * w)) (h : le w a = le w b) : a = b := by
  induction w generalizing a b with
  | zero => simp at ha hb; omega
  | succ w ih =>
    simp only [le, List.cons.injEq] at h
    obtain ⟨h0, h1⟩ := h
    have hq : a / 256 = b / 256 := by
      apply ih _ _ _ _ h1
      · have : 2 ^ (8 * (w + 1)) = 256 * 2 ^ (8 * w) := by
          rw [show 8 * (w + 1) = 8 + 8 * w by omega, Nat.pow_add]
        rw [this] at ha
        exact Nat.div_lt_of_lt_mul ha
      · have : 2 ^ (8 * (w + 1)) = 256 * 2 ^ (8 * w) := by
          rw [show 8 * (w + 1) = 8 + 8 * w by omega, Nat.pow_add]
        rw [this] at hb
        exact Nat.div_lt_of_lt_mul hb
    have hm : a % 256 = b % 256 := by
      have := congrArg UInt8.toNat h0
      simpa [UInt8.toNat_ofNat'] using this
    omega

/-- Two transactions with the same identifier input carry the same nonce (uint64 range). -/
theorem nonce_of_hashInput {t t' : Tx} (h : hashInput t = hashInput t')
    (hn : t.nonce < 2 ^ 64) (hn' : t'.nonce < 2 ^ 64) : t.nonce = t'.nonce := by
  rw [hashInput_eq, hashInput_eq, signInput_eq, signInput_eq] at h
  simp only [List.append_assoc] at h
  have := List.append_inj_left h (by simp [le_length])
  exact le_inj 8 _ _ (by simpa using hn) (by simpa using hn') this

/-- … and, when both sender fields are 33-byte addresses, the same sender field. -/
theorem account_of_hashInput {t t' : Tx} (h : hashInput t = hashInput t')
    (ha : t.account.length = 33) (ha' : t'.account.length = 33) : t.account = t'.account := by
  rw [hashInput_eq, hashInput_eq, signInput_eq, signInput_eq] at h
  simp only [List.append_assoc] at h
  have h2 := List.append_inj_right h (by simp [le_length])
  exact List.append_inj_left h2 (by rw [ha, ha'])

/-- Equal identifier inputs and signatures of equal length: the same signing digest input and signature. -/
theorem sign_of_hashInput {t t' : Tx} (h : hashInput t = hashInput t')
    (hl : t.sign.length = t'.sign.length) : signInput t = signInput t' ∧ t.sign = t'.sign := by
  rw [hashInput_eq, hashInput_eq] at h
  have hlen : (signInput t).length = (signInput t').length := by
    have := congrArg List.length h
    simp only [List.length_append] at this
    omega
  exact ⟨List.append_inj_left h hlen, List.append_inj_right h hlen⟩

/-! ### `executeTx`, one step -/

section
variable (H : Bytes → Bytes) (Verify : Bytes → Bytes → Bytes → Bool)

/-- Everything a successful `executeTx` establishes. -/
theorem executeTx_ok {env : Env} {body : Body} {cid : Bytes} {W W' : World} {verified : Bytes} {t : Tx}
    {e : LogEntry} (h : executeTx H env body cid W verified t = .ok (W', e)) :
    e.account = getAddress W.led.names t.account ∧ e.tx = t ∧
    (verified = [] ∨ verified = e.account) ∧
    validate H env.maxAER cid env.isPublic t = none ∧
    validateSender env (W.nonce e.account) (W.led.bal e.account) t = none ∧
    W'.nonce = upd W.nonce e.account t.nonce := by
  unfold executeTx at h
  simp only [] at h
  split at h
  · cases h
  · rename_i hv
    split at h
    · cases h
    · rename_i hval
      split at h
      · cases h
      · rename_i hs
        have hver : verified = [] ∨ verified = getAddress W.led.names t.account := by
          simp only [Bool.and_eq_true, Bool.not_eq_true', decide_eq_true_eq, not_and] at hv
          by_cases hem : verified = []
          · exact Or.inl hem
          · right
            have : verified.isEmpty = false := by
              cases verified with
              | nil => exact absurd rfl hem
              | cons _ _ => rfl
            have := hv this
            simpa using this
        split at h
        · cases h
        · simp only [Except.ok.injEq, Prod.mk.injEq] at h
          obtain ⟨h1, h2⟩ := h
          subst h1 h2
          exact ⟨rfl, rfl, hver, hval, hs, rfl⟩
        · simp only [Except.ok.injEq, Prod.mk.injEq] at h
          obtain ⟨h1, h2⟩ := h
          subst h1 h2
          exact ⟨rfl, rfl, hver, hval, hs, rfl⟩

/-! ### Traces: the nonce bookkeeping of a sequence of executed transactions -/

/-- One executed transaction as far as nonces are concerned: its nonce is (uint64) the account's nonce plus
one, and afterwards the account's nonce is the transaction's; nothing else changes. -/
def Step (n : Bytes → Nat) (e : LogEntry) (n' : Bytes → Nat) : Prop :=
  e.tx.nonce = wrap64 (n e.account + 1) ∧ n' = upd n e.account e.tx.nonce

/-- A log is a trace from nonce map `n` to nonce map `n'`. -/
inductive Trace : (Bytes → Nat) → List LogEntry → (Bytes → Nat) → Prop
  | nil (n) : Trace n [] n
  | cons {n n1 n2 e es} : Step n e n1 → Trace n1 es n2 → Trace n (e :: es) n2

theorem Trace.append {n n1 n2 : Bytes → Nat} {l1 l2 : List LogEntry} (h1 : Trace n l1 n1) (h2 : Trace n1 l2 n2) :
    Trace n (l1 ++ l2) n2 := by
  induction h1 with
  | nil => exact h2
  | cons hs _ ih => exact Trace.cons hs (ih h2)

end

/-- `ValidateWithSenderState` accepts only the exact successor nonce (uint64 arithmetic). -/
theorem validateSender_none {env : Env} {n b : Nat} {t : Tx} (h : validateSender env n b t = none) :
    t.nonce = wrap64 (n + 1) := by
  unfold validateSender at h
  split at h
  · cases h
  · rename_i hlow
    simp only [] at h
    split at h
    · cases h
    · split at h
      · cases h
      · rename_i hhigh
        omega

/-- … and tolerating only "too high" (the pool's orphans) still excludes every nonce at or below the state's. -/
theorem validateSender_high_or_none {env : Env} {n b : Nat} {t : Tx}
    (h : validateSender env n b t = none ∨ validateSender env n b t = some .nonceHigh) :
    wrap64 (n + 1) ≤ t.nonce := by
  unfold validateSender at h
  split at h
  · rcases h with h | h <;> cases h
  · omega

section
variable (H : Bytes → Bytes) (Verify : Bytes → Bytes → Bytes → Bool)

theorem step_of_executeTx {env : Env} {body : Body} {cid : Bytes} {W W' : World} {verified : Bytes} {t : Tx}
    {e : LogEntry} (h : executeTx H env body cid W verified t = .ok (W', e)) : Step W.nonce e W'.nonce := by
  obtain ⟨_, htx, _, _, hs, hn⟩ := executeTx_ok H h
  refine ⟨?_, ?_⟩
  · rw [htx]; exact validateSender_none hs
  · rw [hn, htx]

/-- What `execTxs` establishes for every transaction of the list. -/
theorem execTxs_ok {env : Env} {body : Body} {cid : Bytes} :
    ∀ {txs : List Tx} {W W' : World} {log : List LogEntry},
      execTxs H env body cid W txs = .ok (W', log) →
      Trace W.nonce log W'.nonce ∧ log.map (·.tx) = txs ∧
      (∀ e ∈ log, validate H env.maxAER cid env.isPublic e.tx = none ∧ ∃ ns, e.account = getAddress ns e.tx.account) := by
  intro txs
  induction txs with
  | nil =>
    intro W W' log h
    simp only [execTxs, Except.ok.injEq, Prod.mk.injEq] at h
    obtain ⟨h1, h2⟩ := h
    subst h1 h2
    exact ⟨Trace.nil _, rfl, by simp⟩
  | cons t ts ih =>
    intro W W' log h
    simp only [execTxs] at h
    split at h
    · cases h
    · rename_i W1 e he
      split at h
      · cases h
      · rename_i W2 es hes
        simp only [Except.ok.injEq, Prod.mk.injEq] at h
        obtain ⟨h1, h2⟩ := h
        subst h1 h2
        obtain ⟨htr, hmap, hval⟩ := ih hes
        obtain ⟨hacc, htx, _, hv, _, _⟩ := executeTx_ok H he
        refine ⟨Trace.cons (step_of_executeTx H he) htr, ?_, ?_⟩
        · simp [htx, hmap]
        · intro e' he'
          rcases List.mem_cons.mp he' with rfl | hmem
          · rw [htx]; exact ⟨hv, W.led.names, hacc⟩
          · exact hval e' hmem

/-- What a valid branch establishes: its log is a nonce trace, and every executed transaction passed
`Validate` for the chain-id hash of the block it sits in and consumed the nonce of the account its sender
field resolved to at that point. -/
theorem runBranch_ok {env : Env} {body : Body} {cidOf : Nat → Bytes} {useMempool : Bool} {hitOf : Nat → Tx → Bool} :
    ∀ {blocks : List (List Tx)} {i : Nat} {W W' : World} {log : List LogEntry},
      runBranch H Verify env body cidOf useMempool hitOf i W blocks = some (W', log) →
      Trace W.nonce log W'.nonce ∧
      (∀ e ∈ log, (∃ j, validate H env.maxAER (cidOf j) env.isPublic e.tx = none) ∧ ∃ ns, e.account = getAddress ns e.tx.account) := by
  intro blocks
  induction blocks with
  | nil =>
    intro i W W' log h
    simp only [runBranch, Option.some.injEq, Prod.mk.injEq] at h
    obtain ⟨h1, h2⟩ := h
    subst h1 h2
    exact ⟨Trace.nil _, by simp⟩
  | cons b bs ih =>
    intro i W W' log h
    simp only [runBranch] at h
    split at h
    · cases h
    · rename_i W1 log1 hb
      split at h
      · cases h
      · rename_i W2 log2 hrest
        simp only [Option.some.injEq, Prod.mk.injEq] at h
        obtain ⟨h1, h2⟩ := h
        subst h1 h2
        obtain ⟨htr2, hval2⟩ := ih hrest
        unfold execBlock at hb
        split at hb
        · cases hb
        · rename_i W1' log1' hex
          split at hb
          · simp only [Except.ok.injEq, Prod.mk.injEq] at hb
            obtain ⟨hw, hl⟩ := hb
            subst hw hl
            obtain ⟨htr1, _, hval1⟩ := execTxs_ok H hex
            refine ⟨Trace.append htr1 htr2, ?_⟩
            intro e he
            rcases List.mem_append.mp he with h1 | h2
            · exact ⟨⟨i, (hval1 e h1).1⟩, (hval1 e h1).2⟩
            · exact hval2 e h2
          · cases hb

/-- What an accepted block establishes. -/
theorem execBlock_ok {env : Env} {body : Body} {cid : Bytes} {useMempool : Bool} {hit : Tx → Bool}
    {W W' : World} {txs : List Tx} {log : List LogEntry}
    (h : execBlock H Verify env body cid useMempool hit W txs = .ok (W', log)) :
    Trace W.nonce log W'.nonce ∧ log.map (·.tx) = txs ∧
    (∀ e ∈ log, validate H env.maxAER cid env.isPublic e.tx = none) ∧
    txs.all (blockSigOk H Verify W.led.names useMempool hit) = true := by
  unfold execBlock at h
  split at h
  · cases h
  · rename_i W1 log1 hex
    split at h
    · rename_i hall
      simp only [Except.ok.injEq, Prod.mk.injEq] at h
      obtain ⟨hw, hl⟩ := h
      subst hw hl
      obtain ⟨htr, hmap, hval⟩ := execTxs_ok H hex
      exact ⟨htr, hmap, fun e he => (hval e he).1, hall⟩
    · cases h

/-- A block with its header is accepted only if the header check passes and the block executes under the hash of
the chain id the header carries. -/
theorem execHBlockWith_ok {accept : (Nat → Nat) → HdrCid → Nat → HdrCid → Bool}
    {env : Env} {body : Body} {hc : HdrCid → Bytes} {cfgVer : Nat → Nat} {useMempool : Bool}
    {hit : Tx → Bool} {best : HdrCid} {height : Nat} {W : World} {hdr : HdrCid} {txs : List Tx} {r : World × List LogEntry}
    (h : execHBlockWith H Verify accept env body hc cfgVer useMempool hit best height W hdr txs = .ok r) :
    accept cfgVer best height hdr = true ∧ execBlock H Verify env body (hc hdr) useMempool hit W txs = .ok r := by
  unfold execHBlockWith at h
  split at h
  · rename_i ha
    split at h
    · rename_i r' hb
      simp only [Except.ok.injEq] at h
      subst h
      exact ⟨ha, hb⟩
    · cases h
  · cases h

theorem acceptHeader_iff {cfgVer : Nat → Nat} {best h : HdrCid} {height : Nat} :
    acceptHeader cfgVer best height h = true ↔ h.rest = best.rest ∧ h.version = cfgVer height := by
  unfold acceptHeader validChildOf
  simp only [Bool.and_eq_true, beq_iff_eq]
  constructor
  · rintro ⟨h1, h2⟩; exact ⟨h1.symm, h2⟩
  · rintro ⟨h1, h2⟩; exact ⟨h1.symm, h2⟩

/-- What an accepted chain of blocks (`runChainWith accept`) establishes: it is a valid branch in the sense of `runBranch`
(so every branch theorem applies) with `cidOf j` = hash of the chain id block `j`'s header carries; and every executed
transaction sits in the block it is logged for, passed `Validate` for that block's header chain-id hash, and that block's
header passed `accept` against a predecessor carrying the same chain (`rest`) as the starting block. -/
theorem runChainWith_ok {accept : (Nat → Nat) → HdrCid → Nat → HdrCid → Bool}
    (hacc : ∀ cv b n h, accept cv b n h = true → h.rest = b.rest)
    {env : Env} {body : Body} {hc : HdrCid → Bytes} {cfgVer : Nat → Nat} {hdrOf : Nat → HdrCid}
    {useMempool : Bool} {hitOf : Nat → Tx → Bool} :
    ∀ {blocks : List (List Tx)} {i : Nat} {best : HdrCid} {W W' : World} {hlog : List (Nat × LogEntry)},
      runChainWith H Verify accept env body hc cfgVer hdrOf useMempool hitOf i best W blocks = some (W', hlog) →
      runBranch H Verify env body (fun j => hc (hdrOf j)) useMempool hitOf i W blocks = some (W', hlog.map (·.2)) ∧
      ∀ p ∈ hlog, i ≤ p.1 ∧ p.1 < i + blocks.length ∧
        (∃ b, blocks[p.1 - i]? = some b ∧ p.2.tx ∈ b) ∧
        validate H env.maxAER (hc (hdrOf p.1)) env.isPublic p.2.tx = none ∧
        (∃ prev, prev.rest = best.rest ∧ accept cfgVer prev p.1 (hdrOf p.1) = true) := by
  intro blocks
  induction blocks with
  | nil =>
    intro i best W W' hlog h
    simp only [runChainWith, Option.some.injEq, Prod.mk.injEq] at h
    obtain ⟨h1, h2⟩ := h
    subst h1 h2
    exact ⟨by simp [runBranch], by simp⟩
  | cons b bs ih =>
    intro i best W W' hlog h
    simp only [runChainWith] at h
    split at h
    · cases h
    · rename_i W1 log1 hb
      split at h
      · cases h
      · rename_i W2 log2 hrest
        simp only [Option.some.injEq, Prod.mk.injEq] at h
        obtain ⟨h1, h2⟩ := h
        subst h1 h2
        obtain ⟨ha, hex⟩ := execHBlockWith_ok H Verify hb
        obtain ⟨hbr, hfacts⟩ := ih hrest
        obtain ⟨_, hmap, hval, _⟩ := execBlock_ok H Verify hex
        refine ⟨?_, ?_⟩
        · simp only [runBranch, hex, hbr, List.map_append, List.map_map]
          have hid : ∀ l : List LogEntry, List.map ((fun x : Nat × LogEntry => x.snd) ∘ fun e => (i, e)) l = l := by
            intro l
            induction l with
            | nil => rfl
            | cons x xs ihx => simp [ihx]
          rw [hid]
        · intro p hp
          rcases List.mem_append.mp hp with h1 | h2
          · obtain ⟨e, he, rfl⟩ := List.mem_map.mp h1
            refine ⟨Nat.le_refl _, by simp, ⟨b, by simp, ?_⟩, hval e he, ⟨best, rfl, ha⟩⟩
            rw [← hmap]
            exact List.mem_map.mpr ⟨e, he, rfl⟩
          · obtain ⟨hlo, hhi, ⟨b', hb', hin⟩, hv, ⟨prev, hprev, hap⟩⟩ := hfacts p h2
            refine ⟨by omega, by simp only [List.length_cons]; omega, ⟨b', ?_, hin⟩, hv, ⟨prev, ?_, hap⟩⟩
            · have : p.1 - i = (p.1 - (i + 1)) + 1 := by omega
              rw [this, List.getElem?_cons_succ]
              exact hb'
            · rw [hprev]; exact hacc _ _ _ _ ha

/-! ### The pool as the trust anchor of the block-level short-cut and of the node's own blocks -/

/-- What the pool's gate (`MemPool.verifyTx` + `put`) established for an entry when it came in: `Validate` for the
chain-id hash the pool accepted then, `Verify` true on (the sender's key — for a name sender the address the name
resolved to then —, the digest of exactly the entry's fields, its signature), and it is filed under that address. -/
def Gated (env : Env) (e : PEntry) : Prop :=
  ∃ (cid : Bytes) (ns : Names), validate H env.maxAER cid env.isPublic e.tx = none ∧
    Verify (poolKey ns e.tx) (H (signInput e.tx)) e.tx.sign = true ∧
    e.acc = listAccount (if e.tx.named then poolKey ns e.tx else []) e.tx

/-- Every way the contents of a node's pool can come about: it starts empty; a transaction comes in through
`TxVerifier.Receive` (submitted over RPC, received from a peer, returned by a reorganisation) or from the dump file at
start-up (`loadTxs`), each time against whatever state and accepted chain-id hash the pool has at that moment;
entries leave (block arrival, eviction, removal, reset after a hard fork). -/
inductive PoolReach (env : Env) (extra : World → Bytes → Tx → Option Nat) : List PEntry → Prop
  | empty : PoolReach env extra []
  | offer {P : List PEntry} (W : World) (acceptCid : Bytes) (t : Tx) (acc : Bytes) :
      PoolReach env extra P → poolAdmit H Verify env acceptCid W (inPool P) extra t = .ok acc →
      PoolReach env extra (P ++ [⟨t, acc⟩])
  | load {P : List PEntry} (W : World) (acceptCid : Bytes) (t : Tx) (acc : Bytes) :
      PoolReach env extra P → poolLoad H Verify env acceptCid W (inPool P) extra t = .ok acc →
      PoolReach env extra (P ++ [⟨t, acc⟩])
  | drop {P : List PEntry} (keep : PEntry → Bool) : PoolReach env extra P → PoolReach env extra (P.filter keep)

/-- What the block factory's gathering establishes for every transaction it put into the block. -/
theorem gatherTxs_ok {env : Env} {body : Body} {cid : Bytes} :
    ∀ {cands : List PEntry} {W : World},
      Trace W.nonce (gatherTxs H env body cid W cands).2 (gatherTxs H env body cid W cands).1.nonce ∧
      ∀ e ∈ (gatherTxs H env body cid W cands).2, ∃ p ∈ cands, p.tx = e.tx ∧
        validate H env.maxAER cid env.isPublic e.tx = none ∧
        (verifiedOf p = [] ∨ verifiedOf p = e.account) ∧ ∃ ns, e.account = getAddress ns e.tx.account := by
  intro cands
  induction cands with
  | nil => intro W; exact ⟨Trace.nil _, by simp [gatherTxs]⟩
  | cons p ps ih =>
    intro W
    simp only [gatherTxs]
    split
    · obtain ⟨htr, hall⟩ := @ih W
      refine ⟨htr, ?_⟩
      intro e he
      obtain ⟨q, hq, rest⟩ := hall e he
      exact ⟨q, List.mem_cons_of_mem _ hq, rest⟩
    · rename_i W1 e1 hx
      obtain ⟨htr, hall⟩ := @ih W1
      obtain ⟨hacc, htx, hver, hv, _, _⟩ := executeTx_ok H hx
      refine ⟨Trace.cons (step_of_executeTx H hx) htr, ?_⟩
      intro e he
      rcases List.mem_cons.mp he with rfl | hm
      · exact ⟨p, List.mem_cons_self, htx.symm, by rw [htx]; exact hv, hver, ⟨W.led.names, by rw [htx]; exact hacc⟩⟩
      · obtain ⟨q, hq, rest⟩ := hall e hm
        exact ⟨q, List.mem_cons_of_mem _ hq, rest⟩

/-- What a node's main chain — any mix of received and own blocks — establishes: its log is a nonce trace, and every
executed transaction passed `Validate` for the hash of THIS chain's id in the version configured for some block
number of the chain. -/
theorem runNode_ok {env : Env} {body : Body} {hc : HdrCid → Bytes} {cfgVer : Nat → Nat} :
    ∀ {steps : List NodeStep} {i : Nat} {best : HdrCid} {W W' : World} {log : List LogEntry},
      runNode H Verify env body hc cfgVer i best W steps = some (W', log) →
      Trace W.nonce log W'.nonce ∧
      ∀ e ∈ log, ∃ j, i ≤ j ∧ j < i + steps.length ∧
        validate H env.maxAER (hc ⟨cfgVer j, best.rest⟩) env.isPublic e.tx = none := by
  intro steps
  induction steps with
  | nil =>
    intro i best W W' log h
    simp only [runNode, Option.some.injEq, Prod.mk.injEq] at h
    obtain ⟨h1, h2⟩ := h
    subst h1 h2
    exact ⟨Trace.nil _, by simp⟩
  | cons st r ih =>
    intro i best W W' log h
    cases st with
    | recv hdr txs useMempool hit =>
      simp only [runNode] at h
      split at h
      · cases h
      · rename_i W1 log1 hb
        split at h
        · cases h
        · rename_i W2 log2 hrest
          simp only [Option.some.injEq, Prod.mk.injEq] at h
          obtain ⟨h1, h2⟩ := h
          subst h1 h2
          obtain ⟨ha, hex⟩ := execHBlockWith_ok H Verify hb
          obtain ⟨hrest', hver⟩ := acceptHeader_iff.mp ha
          have hh : hdr = ⟨cfgVer i, best.rest⟩ := by
            cases hdr with
            | mk v rr => simp only at hrest' hver; rw [hrest', hver]
          obtain ⟨htr1, _, hval1, _⟩ := execBlock_ok H Verify hex
          obtain ⟨htr2, hval2⟩ := ih hrest
          refine ⟨Trace.append htr1 htr2, ?_⟩
          intro e he
          rcases List.mem_append.mp he with h1 | h2
          · exact ⟨i, Nat.le_refl _, by simp, by rw [← hh]; exact hval1 e h1⟩
          · obtain ⟨j, hlo, hhi, hv⟩ := hval2 e h2
            refine ⟨j, by omega, by simp only [List.length_cons]; omega, ?_⟩
            rw [hrest'] at hv
            exact hv
    | own cands =>
      simp only [runNode] at h
      split at h
      · cases h
      · rename_i W2 log2 hrest
        simp only [Option.some.injEq, Prod.mk.injEq] at h
        obtain ⟨h1, h2⟩ := h
        subst h1 h2
        obtain ⟨htr2, hval2⟩ := ih hrest
        obtain ⟨htr1, hval1⟩ := gatherTxs_ok H (env := env) (body := body) (cid := hc ⟨cfgVer i, best.rest⟩) (cands := cands) (W := W)
        refine ⟨Trace.append htr1 htr2, ?_⟩
        intro e he
        rcases List.mem_append.mp he with h1 | h2
        · obtain ⟨_, _, _, hv, _⟩ := hval1 e h1
          exact ⟨i, Nat.le_refl _, by simp, hv⟩
        · obtain ⟨j, hlo, hhi, hv⟩ := hval2 e h2
          exact ⟨j, by omega, by simp only [List.length_cons]; omega, hv⟩

end

/-! ### Per-account nonce sequences of a trace -/

/-- The nonces account `a` consumed, in execution order. -/
def noncesOf (a : Bytes) (log : List LogEntry) : List Nat :=
  (log.filter (fun e => e.account = a)).map (·.tx.nonce)

theorem upd_same {β : Type} (f : Bytes → β) (k : Bytes) (v : β) : upd f k v k = v := by simp [upd]
theorem upd_other {β : Type} (f : Bytes → β) (k x : Bytes) (v : β) (h : x ≠ k) : upd f k v x = f x := by simp [upd, h]

/-- Along a trace that stays below 2^64, the nonces an account consumed are n+1, n+2, …, and the account's
nonce afterwards is n plus their number. -/
theorem trace_seq {n n' : Bytes → Nat} {log : List LogEntry} (h : Trace n log n') (a : Bytes)
    (hb : n a + log.length < 2 ^ 64) :
    noncesOf a log = List.range' (n a + 1) (noncesOf a log).length ∧ n' a = n a + (noncesOf a log).length := by
  induction h with
  | nil => simp [noncesOf]
  | @cons n n1 n2 e es hs _ ih =>
    obtain ⟨he, hn1⟩ := hs
    by_cases hea : e.account = a
    · have hn1a : n1 a = n a + 1 := by
        rw [hn1, ← hea, upd_same, he, wrap64]
        apply Nat.mod_eq_of_lt
        rw [hea]; simp only [List.length_cons] at hb; omega
      have := ih (by rw [hn1a]; simp only [List.length_cons] at hb; omega)
      obtain ⟨ih1, ih2⟩ := this
      have hno : noncesOf a (e :: es) = e.tx.nonce :: noncesOf a es := by simp [noncesOf, hea]
      have hen : e.tx.nonce = n a + 1 := by
        rw [he, wrap64, hea]; apply Nat.mod_eq_of_lt; simp only [List.length_cons] at hb; omega
      constructor
      · rw [hno, List.length_cons, List.range'_succ, hen]
        congr 1
        rw [hn1a] at ih1
        exact ih1
      · rw [ih2, hn1a, hno, List.length_cons]; omega
    · have hn1a : n1 a = n a := by rw [hn1, upd_other _ _ _ _ (Ne.symm hea)]
      have := ih (by rw [hn1a]; simp only [List.length_cons] at hb; omega)
      obtain ⟨ih1, ih2⟩ := this
      have hno : noncesOf a (e :: es) = noncesOf a es := by simp [noncesOf, hea]
      rw [hno]
      rw [hn1a] at ih1 ih2
      exact ⟨ih1, ih2⟩

/-- In a trace below 2^64 an account never consumes the same nonce twice. -/
theorem trace_no_repeat {n n' : Bytes → Nat} {log : List LogEntry} (h : Trace n log n')
    (hb : ∀ a, n a + log.length < 2 ^ 64) (i j : Nat) (hij : i < j) (hj : j < log.length)
    (hacc : (log[i]'(by omega)).account = (log[j]'hj).account) :
    (log[i]'(by omega)).tx.nonce ≠ (log[j]'hj).tx.nonce := by
  induction h generalizing i j with
  | nil => simp at hj
  | @cons n n1 n2 e es hs htr ih =>
    obtain ⟨he, hn1⟩ := hs
    cases j with
    | zero => omega
    | succ j =>
      simp only [List.length_cons] at hj
      have hj' : j < es.length := by omega
      have hb1 : ∀ a, n1 a + es.length < 2 ^ 64 := by
        intro a
        have := hb a
        simp only [List.length_cons] at this
        by_cases hea : a = e.account
        · subst hea
          rw [hn1, upd_same, he, wrap64]
          have : (n e.account + 1) % 2 ^ 64 ≤ n e.account + 1 := Nat.mod_le _ _
          omega
        · rw [hn1, upd_other _ _ _ _ hea]; omega
      cases i with
      | succ i =>
        simp only [List.getElem_cons_succ] at hacc ⊢
        exact ih hb1 i j (by omega) hj' hacc
      | zero =>
        simp only [List.getElem_cons_zero, List.getElem_cons_succ] at hacc ⊢
        -- e consumed nonce n a + 1; everything account a consumes later is ≥ n a + 2
        have hba := hb e.account
        simp only [List.length_cons] at hba
        have hen : e.tx.nonce = n e.account + 1 := by
          rw [he, wrap64]; apply Nat.mod_eq_of_lt; omega
        have hn1a : n1 e.account = n e.account + 1 := by rw [hn1, upd_same, hen]
        obtain ⟨hseq, _⟩ := trace_seq htr e.account (by rw [hn1a]; omega)
        have hmem : (es[j]'hj').tx.nonce ∈ noncesOf e.account es := by
          simp only [noncesOf, List.mem_map, List.mem_filter, decide_eq_true_eq]
          exact ⟨es[j], ⟨List.getElem_mem hj', hacc.symm⟩, rfl⟩
        rw [hseq, List.mem_range'] at hmem
        obtain ⟨k, _, hk⟩ := hmem
        rw [hk, hn1a, hen]; omega

end Aergo.Auth
