/-
Helper definitions and lemmas for the `BlockId` layer (C18 part 3): the receiver invariant and the
commutation of the receiver with identifier-preserving alterations. Core Lean only.
-/
import Aergo.Model.BlockId

namespace Aergo.BlockId

/-- receiver invariant: what has been stored so far carries exactly the requested identifiers, in order -/
def GotOK (maxBlock : Nat) (requested : List Bytes) (got : List Block) : Prop :=
  got.map (·.hash) = requested.take got.length ∧ got.length ≤ requested.length ∧ ∀ b ∈ got, b.size ≤ maxBlock

/-- the loop of `handleInWaiting` keeps the invariant -/
theorem addBlocks_inv (maxBlock : Nat) (requested : List Bytes) (bs got got' : List Block)
    (hinv : GotOK maxBlock requested got) (h : addBlocks maxBlock requested got bs = .ok got') :
    GotOK maxBlock requested got' := by
  induction bs generalizing got with
  | nil => simp [addBlocks] at h; subst h; exact hinv
  | cons b bs ih =>
    unfold addBlocks at h
    split at h
    · simp at h
    · rename_i hreq hget
      split at h
      · simp at h
      · rename_i hh
        split at h
        · simp at h
        · rename_i hsz
          apply ih (got ++ [b]) _ h
          obtain ⟨h1, h2, h3⟩ := hinv
          have hlt : got.length < requested.length := by
            rcases List.getElem?_eq_some_iff.mp hget with ⟨hl, _⟩; exact hl
          have hget' : requested[got.length] = hreq := by
            rcases List.getElem?_eq_some_iff.mp hget with ⟨hl, he⟩; exact he
          have hhash : hreq = b.hash := by simpa using hh
          refine ⟨?_, by simp; omega, ?_⟩
          · simp only [List.map_append, List.map_cons, List.map_nil, List.length_append, List.length_singleton]
            rw [← List.take_append_getElem hlt, h1, hget', hhash]
          · intro x hx
            simp at hx
            rcases hx with hx | rfl
            · exact h3 x hx
            · exact Nat.le_of_not_gt hsz


/-- a fresh receiver satisfies the invariant -/
theorem gotOK_init (maxBlock : Nat) (requested : List Bytes) : GotOK maxBlock requested [] := by
  simp [GotOK]

/-- The receiver's state stays consistent with the request through any response. -/
theorem step_inv (maxBlock : Nat) (r : Recv) (resp : Resp) (hinv : GotOK maxBlock r.requested r.got) :
    GotOK maxBlock (step maxBlock r resp).1.requested (step maxBlock r resp).1.got := by
  unfold step
  split
  · exact hinv
  · exact hinv
  · split
    · exact hinv
    · split
      · exact hinv
      · split
        · exact hinv
        · rename_i got hadd
          have := addBlocks_inv maxBlock r.requested _ _ _ hinv hadd
          simp only
          split
          · exact this
          · split <;> exact this

/-- the request never changes -/
theorem step_requested (maxBlock : Nat) (r : Recv) (resp : Resp) :
    (step maxBlock r resp).1.requested = r.requested := by
  unfold step cancel
  split <;> try rfl
  split <;> try rfl
  split <;> try rfl
  split <;> try rfl
  simp only
  split <;> try rfl
  split <;> rfl

/-- Whatever a single response makes the receiver deliver carries exactly the requested identifiers. -/
theorem step_deliver (maxBlock : Nat) (r : Recv) (resp : Resp) (bs : List Block)
    (hinv : GotOK maxBlock r.requested r.got) (h : (step maxBlock r resp).2 = .deliver bs) :
    bs.map (·.hash) = r.requested ∧ ∀ b ∈ bs, b.size ≤ maxBlock := by
  unfold step cancel at h
  split at h
  · simp at h
  · simp at h
  · split at h
    · simp at h
    · split at h
      · simp at h
      · split at h
        · simp at h
        · rename_i got hadd
          obtain ⟨h1, h2, h3⟩ := addBlocks_inv maxBlock r.requested _ _ _ hinv hadd
          simp only at h
          split at h
          · simp at h
          · split at h
            · simp at h
            · rename_i hlen
              simp only [Out.deliver.injEq] at h
              subst h
              have : got.length = r.requested.length := by omega
              rw [this, List.take_length] at h1
              exact ⟨h1, h3⟩


/-- a relay's alteration that keeps the announced identifier and the size -/
def KeepsId (f : Block → Block) : Prop := ∀ b, (f b).hash = b.hash ∧ (f b).size = b.size

def mapResp (f : Block → Block) (x : Resp) : Resp := { x with blocks := x.blocks.map f }
def mapRecv (f : Block → Block) (r : Recv) : Recv := { r with got := r.got.map f }
def mapOut (f : Block → Block) : Out → Out
  | .deliver bs => .deliver (bs.map f)
  | o => o

/-- the loop commutes with an identifier-preserving alteration -/
theorem addBlocks_map (f : Block → Block) (hf : KeepsId f) (maxBlock : Nat) (requested : List Bytes)
    (bs got : List Block) :
    addBlocks maxBlock requested (got.map f) (bs.map f) =
      (addBlocks maxBlock requested got bs).map (List.map f) := by
  induction bs generalizing got with
  | nil => simp [addBlocks, Except.map]
  | cons b bs ih =>
    simp only [List.map_cons, addBlocks, List.length_map]
    cases hreq : requested[got.length]? with
    | none => simp [Except.map]
    | some h =>
      simp only [(hf b).1, (hf b).2]
      by_cases h1 : (h != b.hash) = true
      · simp [h1, Except.map]
      · simp only [h1]
        by_cases h2 : b.size > maxBlock
        · simp [h2, Except.map]
        · simp only [h2]
          have := ih (got ++ [b])
          simp only [List.map_append, List.map_cons, List.map_nil] at this
          simpa using this

/-- one response commutes with an identifier-preserving alteration -/
theorem step_map (f : Block → Block) (hf : KeepsId f) (maxBlock : Nat) (r : Recv) (x : Resp) :
    step maxBlock (mapRecv f r) (mapResp f x) =
      (mapRecv f (step maxBlock r x).1, mapOut f (step maxBlock r x).2) := by
  unfold step
  cases hst : r.st <;> simp only [mapRecv, mapResp, hst]
  · -- waiting
    by_cases h1 : x.statusOK = true
    · by_cases h2 : x.isBlockResp = true
      · by_cases h3 : x.blocks.isEmpty = true
        · simp [h1, h2, cancel, mapOut, List.isEmpty_iff.mp h3]
        · have h3' : (x.blocks.map f).isEmpty = false := by
            simpa [List.isEmpty_iff] using h3
          simp only [h1, h2, h3, h3', addBlocks_map f hf]
          cases hadd : addBlocks maxBlock r.requested r.got x.blocks with
          | error e => simp [Except.map, cancel, mapOut]
          | ok got =>
            simp only [Except.map, Bool.not_true, Bool.false_eq_true, if_false, Bool.or_false, List.length_map]
            by_cases h4 : x.hasNext = true
            · simp [h4, mapOut]
            · simp only [h4]
              by_cases h5 : got.length < r.requested.length
              · simp [h5, cancel, mapOut]
              · simp [h5, mapOut]
      · simp [h1, h2, cancel, mapOut]
    · simp [h1, cancel, mapOut]
  · simp [mapOut]
  · simp [mapOut]

end Aergo.BlockId
