/-
Helper lemmas for the `Buffer` layer (C12): association lists in canonical form, the
representation invariant of `stateBuffer`, and what each operation does to the log.
-/
import Aergo.Model.Buffer

namespace Aergo.Buffer

/-! ### AMap -/
namespace AMap
variable {β : Type}

theorem get_set (m : AMap β) (k k' : Nat) (v : β) :
    (m.set k v).get k' = if k = k' then some v else m.get k' := by
  induction m with
  | nil => simp [set, get]
  | cons p t ih =>
    obtain ⟨a, b⟩ := p
    simp only [set]
    split
    · simp [get]
    · split
      · subst_vars; simp only [get]; split <;> simp_all
      · simp only [get, ih]
        split <;> split <;> simp_all <;> omega

theorem get_erase (m : AMap β) (k k' : Nat) :
    (m.erase k).get k' = if k = k' then none else m.get k' := by
  induction m with
  | nil => simp [erase, get]
  | cons p t ih =>
    obtain ⟨a, b⟩ := p
    simp only [erase, List.filter] at ih ⊢
    by_cases h : a = k
    · subst h; simp only [ne_eq, not_true_eq_false, decide_false, ih, get]
      split <;> simp_all
    · simp only [ne_eq, h, not_false_eq_true, decide_true, get, ih]
      split <;> split <;> simp_all

/-- below the first key nothing is found -/
theorem get_lt_head {a : Nat} {b : β} {t : AMap β} (h : WF ((a, b) :: t)) {k : Nat} (hk : k < a) :
    get ((a, b) :: t) k = none := by
  induction t generalizing a b with
  | nil => simp [get]; omega
  | cons q t ih =>
    obtain ⟨c, d⟩ := q
    simp only [WF, List.pairwise_cons] at h
    have hac : a < c := h.1 (c, d) (by simp)
    have := ih (a := c) (b := d) (by simpa [WF] using h.2) (by omega)
    simp only [get] at this ⊢
    rw [if_neg (by omega)]
    exact this

theorem WF_tail {p : Nat × β} {t : AMap β} (h : WF (p :: t)) : WF t := by
  simp only [WF, List.pairwise_cons] at h; exact h.2

/-- A canonical map is determined by its lookups. -/
theorem ext {m₁ m₂ : AMap β} (h₁ : WF m₁) (h₂ : WF m₂) (h : ∀ k, m₁.get k = m₂.get k) : m₁ = m₂ := by
  induction m₁ generalizing m₂ with
  | nil =>
    cases m₂ with
    | nil => rfl
    | cons q t => have := h q.1; simp [get] at this
  | cons p t ih =>
    obtain ⟨a, b⟩ := p
    cases m₂ with
    | nil => have := h a; simp [get] at this
    | cons q t₂ =>
      obtain ⟨c, d⟩ := q
      have hac : a = c := by
        rcases Nat.lt_trichotomy a c with hlt | heq | hgt
        · have h1 := h a
          rw [get_lt_head h₂ hlt] at h1
          simp [get] at h1
        · exact heq
        · have h1 := h c
          rw [get_lt_head h₁ hgt] at h1
          simp [get] at h1
      subst hac
      have hbd : b = d := by have := h a; simpa [get] using this
      subst hbd
      congr 1
      apply ih (WF_tail h₁) (WF_tail h₂)
      intro k
      by_cases hk : a = k
      · subst hk
        have e1 : get t a = none := by
          cases t with
          | nil => rfl
          | cons r t' =>
            obtain ⟨x, y⟩ := r
            apply get_lt_head (WF_tail h₁)
            simp only [WF, List.pairwise_cons] at h₁
            exact h₁.1 (x, y) (by simp)
        have e2 : get t₂ a = none := by
          cases t₂ with
          | nil => rfl
          | cons r t' =>
            obtain ⟨x, y⟩ := r
            apply get_lt_head (WF_tail h₂)
            simp only [WF, List.pairwise_cons] at h₂
            exact h₂.1 (x, y) (by simp)
        rw [e1, e2]
      · have := h k
        simpa [get, hk] using this

theorem mem_of_get {m : AMap β} {k : Nat} {v : β} (h : m.get k = some v) : (k, v) ∈ m := by
  induction m with
  | nil => simp [get] at h
  | cons p t ih =>
    obtain ⟨a, b⟩ := p
    simp only [get] at h
    split at h
    · simp_all
    · simp [ih h]

theorem get_of_mem {m : AMap β} (hw : WF m) {k : Nat} {v : β} (h : (k, v) ∈ m) : m.get k = some v := by
  induction m with
  | nil => simp at h
  | cons p t ih =>
    obtain ⟨a, b⟩ := p
    simp only [List.mem_cons] at h
    rcases h with h | h
    · cases h; simp [get]
    · simp only [WF, List.pairwise_cons] at hw
      have : a < k := hw.1 (k, v) h
      simp only [get]
      rw [if_neg (by omega)]
      exact ih hw.2 h

theorem WF_erase {m : AMap β} (h : WF m) (k : Nat) : WF (m.erase k) :=
  List.Pairwise.filter _ h

theorem mem_set {m : AMap β} {k : Nat} {v : β} {q : Nat × β} (h : q ∈ m.set k v) : q = (k, v) ∨ q ∈ m := by
  induction m with
  | nil => simp [set] at h; exact Or.inl h
  | cons p t ih =>
    obtain ⟨a, b⟩ := p
    simp only [set] at h
    split at h
    · simp only [List.mem_cons] at h ⊢; exact h
    · split at h
      · simp only [List.mem_cons] at h ⊢
        rcases h with h | h
        · exact Or.inl h
        · exact Or.inr (Or.inr h)
      · simp only [List.mem_cons] at h ⊢
        rcases h with h | h
        · exact Or.inr (Or.inl h)
        · rcases ih h with h | h
          · exact Or.inl h
          · exact Or.inr (Or.inr h)

theorem WF_set {m : AMap β} (h : WF m) (k : Nat) (v : β) : WF (m.set k v) := by
  induction m with
  | nil => simp [set, WF]
  | cons p t ih =>
    obtain ⟨a, b⟩ := p
    simp only [WF, List.pairwise_cons] at h
    simp only [set]
    split
    · rename_i hlt
      simp only [WF, List.pairwise_cons, List.mem_cons]
      refine ⟨?_, h.1, h.2⟩
      rintro q (rfl | hq)
      · exact hlt
      · have := h.1 q hq; omega
    · split
      · subst_vars
        simp only [WF, List.pairwise_cons]
        exact ⟨h.1, h.2⟩
      · simp only [WF, List.pairwise_cons]
        refine ⟨?_, ih h.2⟩
        intro q hq
        rcases mem_set hq with rfl | hq
        · simp only; omega
        · exact h.1 q hq

end AMap

/-! ### the index stacks determined by a log -/
section Log
variable {α : Type}

theorem idxOf_lt {k : Nat} {rs : List (Nat × α)} {i : Nat} (h : i ∈ idxOf k rs) : i < rs.length := by
  induction rs with
  | nil => simp [idxOf] at h
  | cons e t ih =>
    simp only [idxOf] at h
    split at h
    · simp only [List.mem_cons] at h
      rcases h with rfl | h
      · simp
      · have := ih h; simp; omega
    · have := ih h; simp; omega

theorem stackOf_snoc (es : List (Nat × α)) (k : Nat) (v : α) (k' : Nat) :
    stackOf (es ++ [(k, v)]) k' =
      if k = k' then some (es.length :: idxOf k es.reverse) else stackOf es k' := by
  simp only [stackOf, List.reverse_append, List.reverse_cons, List.reverse_nil, List.nil_append,
    List.cons_append, idxOf, List.length_reverse]
  by_cases h : k = k'
  · subst h; simp
  · simp [h]

theorem stackOf_nil (k : Nat) : stackOf ([] : List (Nat × α)) k = none := by
  simp [stackOf, idxOf]

/-- the stack of a key, as a plain list (empty when the key has no entry) -/
theorem stackOf_getD (es : List (Nat × α)) (k : Nat) :
    (stackOf es k).getD [] = idxOf k es.reverse := by
  simp only [stackOf]
  split <;> simp_all

theorem stackOf_ne_nil (es : List (Nat × α)) (k : Nat) : stackOf es k ≠ some [] := by
  simp only [stackOf]
  split <;> simp_all

/-- the top of the stack addresses the latest write -/
theorem top_is_last (rs : List (Nat × α)) (k i : Nat) (rest : List Nat)
    (h : idxOf k rs = i :: rest) :
    rs.reverse[i]? = rs.find? (fun e => e.1 = k) := by
  induction rs generalizing i rest with
  | nil => simp [idxOf] at h
  | cons e t ih =>
    simp only [idxOf] at h
    split at h
    · rename_i hk
      simp only [List.cons.injEq] at h
      obtain ⟨rfl, _⟩ := h
      simp [List.find?, hk]
    · rename_i hk
      have hlt : i < t.length := idxOf_lt (k := k) (rs := t) (by rw [h]; simp)
      have := ih i rest h
      simp only [List.reverse_cons, List.find?, hk, decide_false]
      rw [List.getElem?_append_left (by simpa using hlt)]
      exact this

theorem idxOf_nil_iff (rs : List (Nat × α)) (k : Nat) :
    idxOf k rs = [] ↔ rs.find? (fun e => e.1 = k) = none := by
  induction rs with
  | nil => simp [idxOf]
  | cons e t ih =>
    simp only [idxOf, List.find?]
    by_cases hk : e.1 = k <;> simp [hk, ih]

end Log

/-! ### stateBuffer operations and the invariant -/
namespace Buf
variable {α : Type}

theorem Inv_empty : (Buf.empty : Buf α).Inv :=
  ⟨rfl, by simp [empty, AMap.WF], fun k => by simp [empty, AMap.get, stackOf_nil]⟩

theorem Inv_put {b : Buf α} (h : b.Inv) (k : Nat) (v : α) : (b.put k v).Inv := by
  refine ⟨?_, ?_, ?_⟩
  · simp [put, h.len]
  · exact AMap.WF_set h.wf _ _
  · intro k'
    simp only [put, AMap.get_set, stackOf_snoc, h.len]
    split
    · rw [h.rep k, stackOf_getD]
    · exact h.rep k'

@[simp] theorem put_entries (b : Buf α) (k : Nat) (v : α) : (b.put k v).entries = b.entries ++ [(k, v)] := rfl
@[simp] theorem put_nextIdx (b : Buf α) (k : Nat) (v : α) : (b.put k v).nextIdx = b.nextIdx + 1 := rfl

/-- one step of the rollback loop undoes one `put` on the index -/
theorem popKey_spec {idx : AMap (List Nat)} {es : List (Nat × α)} {e : Nat × α}
    (hw : idx.WF) (hr : ∀ k, idx.get k = stackOf (es ++ [e]) k) :
    (popKey idx e.1).WF ∧ ∀ k, (popKey idx e.1).get k = stackOf es k := by
  obtain ⟨ke, ve⟩ := e
  have hke := hr ke
  rw [stackOf_snoc] at hke
  simp only [if_true] at hke
  simp only [popKey, hke, List.tail_cons]
  split
  · rename_i hnil
    refine ⟨AMap.WF_erase hw _, ?_⟩
    intro k
    rw [AMap.get_erase]
    split
    · subst_vars
      simp [stackOf, hnil]
    · rename_i hne
      rw [hr k, stackOf_snoc, if_neg hne]
  · rename_i hnn
    refine ⟨AMap.WF_set hw _ _, ?_⟩
    intro k
    rw [AMap.get_set]
    split
    · subst_vars
      simp only [stackOf]
      rw [if_neg (fun h0 => hnn h0)]
    · rename_i hne
      rw [hr k, stackOf_snoc, if_neg hne]

theorem unwind_spec (es : List (Nat × α)) (n d : Nat) (idx : AMap (List Nat))
    (hlen : n + d ≤ es.length) (hw : idx.WF) (hr : ∀ k, idx.get k = stackOf (es.take (n + d)) k) :
    ∃ idx', unwind es n d idx = some idx' ∧ idx'.WF ∧ ∀ k, idx'.get k = stackOf (es.take n) k := by
  induction d generalizing idx with
  | zero => exact ⟨idx, rfl, hw, by simpa using hr⟩
  | succ d ih =>
    have hlt : n + d < es.length := by omega
    simp only [unwind, List.getElem?_eq_getElem hlt]
    have htake : es.take (n + (d + 1)) = es.take (n + d) ++ [es[n + d]] := by
      rw [← Nat.add_assoc, List.take_succ_eq_append_getElem hlt]
    rw [htake] at hr
    obtain ⟨hw', hr'⟩ := popKey_spec hw hr
    exact ih _ (by omega) hw' hr'

/-- `rollback n` truncates the log to its first `n` entries and keeps the invariant. -/
theorem rollback_spec {b : Buf α} (h : b.Inv) {n : Nat} (hn : n ≤ b.nextIdx) :
    ∃ b', b.rollback n = some b' ∧ b'.entries = b.entries.take n ∧ b'.nextIdx = n ∧ b'.Inv := by
  have hlen := h.len
  obtain ⟨idx', hu, hw', hr'⟩ := unwind_spec b.entries n (b.nextIdx - n) b.indexes
    (by omega) h.wf (by
      intro k
      have : n + (b.nextIdx - n) = b.entries.length := by omega
      rw [this, List.take_length]; exact h.rep k)
  refine ⟨⟨b.entries.take n, idx', n⟩, ?_, rfl, rfl, ?_⟩
  · simp [rollback, hn, hu]
  · exact ⟨by simp; omega, hw', hr'⟩

/-- Under the invariant a buffer is a function of its log. -/
theorem Inv_ext {b b' : Buf α} (h : b.Inv) (h' : b'.Inv) (he : b.entries = b'.entries) : b = b' := by
  obtain ⟨es, idx, nx⟩ := b
  obtain ⟨es', idx', nx'⟩ := b'
  simp only at he
  subst he
  have h1 := h.len; have h2 := h'.len
  simp only at h1 h2
  have : idx = idx' := AMap.ext h.wf h'.wf (fun k => by rw [h.rep k, h'.rep k])
  subst this
  simp [h1, h2]

theorem get_spec {b : Buf α} (h : b.Inv) (k : Nat) :
    b.get k = match lastWrite b.entries k with
      | none => .absent
      | some v => .found v := by
  simp only [get, h.rep k, stackOf, lastWrite]
  generalize hs : idxOf k b.entries.reverse = s
  cases s with
  | nil =>
    rw [(idxOf_nil_iff _ _).1 hs]; rfl
  | cons i rest =>
    have := top_is_last _ _ _ _ hs
    simp only [List.reverse_reverse] at this
    rw [if_neg (by simp)]
    simp only [this]
    cases hf : List.find? (fun e => decide (e.1 = k)) b.entries.reverse with
    | none => rw [← idxOf_nil_iff, hs] at hf; simp at hf
    | some e => rfl

theorem has_spec {b : Buf α} (h : b.Inv) (k : Nat) :
    b.has k = (lastWrite b.entries k).isSome := by
  simp only [has, h.rep k, stackOf, lastWrite, Option.isSome_map]
  generalize hs : idxOf k b.entries.reverse = s
  cases s with
  | nil => rw [(idxOf_nil_iff _ _).1 hs]; rfl
  | cons i rest =>
    cases hf : List.find? (fun e => decide (e.1 = k)) b.entries.reverse with
    | none => rw [← idxOf_nil_iff, hs] at hf; simp at hf
    | some e => rfl

theorem lastWrite_none_iff (es : List (Nat × α)) (k : Nat) :
    lastWrite es k = none ↔ stackOf es k = none := by
  simp only [lastWrite, stackOf, Option.map_eq_none_iff, ← idxOf_nil_iff]
  split <;> simp_all

/-- the entry addressed by the top of `k`'s stack is `k`'s latest write -/
theorem top_entry {es : List (Nat × α)} {k i : Nat} {rest : List Nat}
    (h : stackOf es k = some (i :: rest)) :
    ∃ v, es[i]? = some (k, v) ∧ lastWrite es k = some v := by
  simp only [stackOf] at h
  split at h
  · simp at h
  · simp only [Option.some.injEq] at h
    have := top_is_last _ _ _ _ h
    simp only [List.reverse_reverse] at this
    cases hf : List.find? (fun e => decide (e.1 = k)) es.reverse with
    | none => rw [← idxOf_nil_iff, h] at hf; simp at hf
    | some e =>
      have hk := List.find?_some hf
      simp only [decide_eq_true_eq] at hk
      refine ⟨e.2, ?_, ?_⟩
      · rw [this, hf, ← hk]
      · simp [lastWrite, hf]

theorem exportFrom_spec (es : List (Nat × α)) (t : AMap (List Nat))
    (ht : ∀ p ∈ t, stackOf es p.1 = some p.2) :
    ∃ l, exportFrom es t = some l ∧ l.map (·.1) = t.map (·.1) ∧ ∀ e ∈ l, lastWrite es e.1 = some e.2 := by
  induction t with
  | nil => exact ⟨[], rfl, rfl, by simp⟩
  | cons p t ih =>
    obtain ⟨k, stk⟩ := p
    obtain ⟨l, hl, hk, hv⟩ := ih (fun p hp => ht p (List.mem_cons_of_mem _ hp))
    have hp := ht (k, stk) (by simp)
    simp only at hp
    cases stk with
    | nil => exact absurd hp (stackOf_ne_nil es k)
    | cons i rest =>
      obtain ⟨v, hi, hlw⟩ := top_entry hp
      refine ⟨(k, v) :: l, ?_, ?_, ?_⟩
      · simp [exportFrom, hi, hl]
      · simp [hk]
      · intro e he
        simp only [List.mem_cons] at he
        rcases he with rfl | he
        · exact hlw
        · exact hv e he

/-- `export`: one entry per key that has a surviving write, carrying the latest surviving value,
ascending by key. -/
theorem export_spec {b : Buf α} (h : b.Inv) :
    ∃ l, b.exportAll = some l ∧ l.Pairwise (fun x y => x.1 < y.1) ∧
      ∀ k v, (k, v) ∈ l ↔ lastWrite b.entries k = some v := by
  have hmem : ∀ p ∈ b.indexes, stackOf b.entries p.1 = some p.2 := by
    intro p hp
    rw [← h.rep p.1]
    exact AMap.get_of_mem h.wf hp
  obtain ⟨l, hl, hk, hv⟩ := exportFrom_spec b.entries b.indexes hmem
  refine ⟨l, hl, ?_, ?_⟩
  · have hw := h.wf
    simp only [AMap.WF] at hw
    have h1 : (l.map (·.1)).Pairwise (· < ·) := by
      rw [hk]; exact (List.pairwise_map).2 hw
    exact (List.pairwise_map).1 h1
  · intro k v
    constructor
    · intro hm; exact hv (k, v) hm
    · intro hlw
      have hs : stackOf b.entries k ≠ none := by
        intro hn; rw [← lastWrite_none_iff] at hn; rw [hn] at hlw; cases hlw
      cases hg : b.indexes.get k with
      | none => rw [h.rep k] at hg; exact absurd hg hs
      | some stk =>
        have hin : k ∈ l.map (·.1) := by
          rw [hk]; exact List.mem_map.2 ⟨(k, stk), AMap.mem_of_get hg, rfl⟩
        obtain ⟨e, he, hek⟩ := List.mem_map.1 hin
        have := hv e he
        obtain ⟨ek, ev⟩ := e
        simp only at hek this
        subst hek
        rw [hlw] at this
        cases this
        exact he

/-- what a successful `rollback` did -/
theorem rollback_some {b b' : Buf α} (h : b.Inv) {n : Nat} (hr : b.rollback n = some b') :
    n ≤ b.nextIdx ∧ b'.entries = b.entries.take n ∧ b'.nextIdx = n ∧ b'.Inv := by
  have hn : n ≤ b.nextIdx := by
    by_cases hn : n ≤ b.nextIdx
    · exact hn
    · simp [rollback, hn] at hr
  obtain ⟨b'', h1, h2, h3, h4⟩ := rollback_spec h hn
  rw [h1] at hr
  cases hr
  exact ⟨hn, h2, h3, h4⟩

/-- Invariant of a history above `floor = length of the base log`: the base log stays a prefix. -/
theorem run_prefix (base : List (Nat × α)) (ops : List (Op α)) :
    ∀ (cur b' : Buf α), cur.Inv → cur.entries.take base.length = base → base.length ≤ cur.nextIdx →
      run base.length cur ops = some b' →
      b'.Inv ∧ b'.entries.take base.length = base ∧ base.length ≤ b'.nextIdx := by
  induction ops with
  | nil =>
    intro cur b' hi hp hl hr
    simp only [run, Option.some.injEq] at hr
    subst hr; exact ⟨hi, hp, hl⟩
  | cons o t ih =>
    intro cur b' hi hp hl hr
    cases o with
    | put k v =>
      simp only [run] at hr
      refine ih _ _ (Inv_put hi k v) ?_ ?_ hr
      · rw [put_entries, List.take_append_of_le_length (by rw [← hi.len]; exact hl)]; exact hp
      · rw [put_nextIdx]; omega
    | rollback m =>
      simp only [run] at hr
      split at hr
      · rename_i hfl
        split at hr
        · rename_i b1 hb1
          obtain ⟨_, he, hn, hi1⟩ := rollback_some hi hb1
          refine ih _ _ hi1 ?_ ?_ hr
          · rw [he, List.take_take, Nat.min_eq_left hfl]; exact hp
          · rw [hn]; exact hfl
        · cases hr
      · cases hr

/-- Reverting to a snapshot restores the buffer itself, whatever happened in between. -/
theorem run_rollback {b b' : Buf α} (h : b.Inv) (ops : List (Op α))
    (hr : run b.snapshot b ops = some b') : b'.rollback b.snapshot = some b := by
  have hlen := h.len
  simp only [snapshot] at hr ⊢
  rw [hlen] at hr ⊢
  obtain ⟨hi', hp, hl⟩ := run_prefix b.entries ops b b' h (List.take_length) (by omega) hr
  obtain ⟨b'', h1, h2, _, h4⟩ := rollback_spec hi' hl
  rw [h1]
  congr 1
  exact Inv_ext h4 h (by rw [h2, hp])

/-- live snapshot stack: ascending revisions, none above the current one -/
def StackOK (st : List Nat) (cur : Buf α) : Prop :=
  st.Pairwise (· ≤ ·) ∧ ∀ m ∈ st, m ≤ cur.nextIdx

theorem StackOK_put {st : List Nat} {cur : Buf α} (h : StackOK st cur) (k : Nat) (v : α) :
    StackOK st (cur.put k v) :=
  ⟨h.1, fun m hm => by have := h.2 m hm; rw [put_nextIdx]; omega⟩

theorem StackOK_snap {st : List Nat} {cur : Buf α} (h : StackOK st cur) :
    StackOK (st ++ [cur.snapshot]) cur := by
  refine ⟨?_, ?_⟩
  · rw [List.pairwise_append]
    refine ⟨h.1, by simp, ?_⟩
    intro a ha c hc
    simp only [List.mem_singleton] at hc
    subst hc
    exact h.2 a ha
  · intro m hm
    simp only [List.mem_append, List.mem_singleton] at hm
    rcases hm with hm | rfl
    · exact h.2 m hm
    · simp [snapshot]

/-- Reverting to any live snapshot is defined, and the snapshots taken before it stay live. -/
theorem StackOK_rollbackTo {st : List Nat} {cur : Buf α} (hi : cur.Inv) (h : StackOK st cur)
    {j m : Nat} (hj : st[j]? = some m) :
    ∃ b', cur.rollback m = some b' ∧ b'.Inv ∧ b'.entries = cur.entries.take m ∧
      StackOK (st.take (j + 1)) b' := by
  have hm : m ∈ st := List.mem_of_getElem? hj
  obtain ⟨b', h1, h2, h3, h4⟩ := rollback_spec hi (h.2 m hm)
  refine ⟨b', h1, h4, h2, ?_, ?_⟩
  · exact List.Pairwise.sublist (List.take_sublist _ _) h.1
  · intro a ha
    rw [h3]
    obtain ⟨i, hi1, hi2⟩ := List.getElem_of_mem ha
    rw [List.length_take] at hi1
    rw [List.getElem_take] at hi2
    have hjl : j < st.length := by
      rcases Nat.lt_or_ge j st.length with hlt | hge
      · exact hlt
      · rw [List.getElem?_eq_none hge] at hj; cases hj
    have hjm : st[j] = m := by
      rw [List.getElem?_eq_getElem hjl] at hj; exact Option.some.inj hj
    rcases Nat.lt_or_ge i j with hlt | hge
    · have := List.pairwise_iff_getElem.1 h.1 i j (by omega) hjl hlt
      rw [← hi2, ← hjm]; exact this
    · have : i = j := by omega
      subst this
      rw [← hi2, hjm]; exact Nat.le_refl _

theorem runN_prefix (base : List (Nat × α)) (ops : List (NOp α)) :
    ∀ (cur : Buf α) (st : List Nat) (r : Buf α × List Nat), cur.Inv → StackOK st cur →
      (∀ m ∈ st, base.length ≤ m) → st ≠ [] →
      cur.entries.take base.length = base →
      runN (cur, st) ops = some r →
      r.1.Inv ∧ StackOK r.2 r.1 ∧ (∀ m ∈ r.2, base.length ≤ m) ∧ r.2 ≠ [] ∧
        r.1.entries.take base.length = base ∧ r.2.head? = st.head? := by
  induction ops with
  | nil =>
    intro cur st r hi hs hf hne hp hr
    simp only [runN, Option.some.injEq] at hr
    subst hr; exact ⟨hi, hs, hf, hne, hp, rfl⟩
  | cons o t ih =>
    intro cur st r hi hs hf hne hp hr
    have hbl : base.length ≤ cur.nextIdx := by
      cases st with
      | nil => exact absurd rfl hne
      | cons a st' =>
        have h1 := hf a (by simp)
        have h2 := hs.2 a (by simp)
        omega
    cases o with
    | put k v =>
      simp only [runN] at hr
      refine ih _ _ _ (Inv_put hi k v) (StackOK_put hs k v) hf hne ?_ hr
      rw [put_entries, List.take_append_of_le_length (by rw [← hi.len]; exact hbl)]; exact hp
    | snap =>
      simp only [runN] at hr
      obtain ⟨a1, a2, a3, a4, a5, a6⟩ := ih _ _ _ hi (StackOK_snap hs) (by
          intro m hm
          simp only [List.mem_append, List.mem_singleton] at hm
          rcases hm with hm | rfl
          · exact hf m hm
          · exact hbl) (by simp) hp hr
      refine ⟨a1, a2, a3, a4, a5, ?_⟩
      rw [a6]
      cases st with
      | nil => exact absurd rfl hne
      | cons a st' => rfl
    | rollbackTo j =>
      simp only [runN] at hr
      split at hr
      · cases hr
      · rename_i m hjm
        obtain ⟨b1, hb1, hi1, he1, hs1⟩ := StackOK_rollbackTo hi hs hjm
        rw [hb1] at hr
        simp only at hr
        have hmem : m ∈ st := List.mem_of_getElem? hjm
        obtain ⟨a1, a2, a3, a4, a5, a6⟩ := ih _ _ _ hi1 hs1
          (fun x hx => hf x (List.mem_of_mem_take hx))
          (by cases st with
              | nil => exact absurd rfl hne
              | cons a st' => simp)
          (by rw [he1, List.take_take, Nat.min_eq_left (hf m hmem)]; exact hp) hr
        refine ⟨a1, a2, a3, a4, a5, ?_⟩
        rw [a6]
        cases st with
        | nil => exact absurd rfl hne
        | cons a st' => simp

end Buf

end Aergo.Buffer
