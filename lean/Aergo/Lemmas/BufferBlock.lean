/-
Helper lemmas for the `Buffer` layer (C12), block level: `storageCache.Snapshot/Rollback`,
`BlockState.Snapshot/Rollback` and histories of a block's working state.
-/
import Aergo.Lemmas.Buffer

namespace Aergo.Buffer

namespace AMap
variable {β : Type}

theorem get_cons (a : Nat) (b : β) (t : AMap β) (k : Nat) :
    get ((a, b) :: t) k = if a = k then some b else get t k := rfl

theorem get_none_of_lt {t : AMap β} {a : Nat} (h : ∀ p ∈ t, a < p.1) : get t a = none := by
  induction t with
  | nil => rfl
  | cons p t ih =>
    obtain ⟨c, d⟩ := p
    have := h (c, d) (by simp)
    simp only at this
    rw [get_cons, if_neg (by omega)]
    exact ih (fun p hp => h p (List.mem_cons_of_mem _ hp))

theorem head_lt {a : Nat} {b : β} {t : AMap β} (h : WF ((a, b) :: t)) : ∀ p ∈ t, a < p.1 := by
  simp only [WF, List.pairwise_cons] at h
  exact h.1

theorem get_map_snd {γ : Type} (f : β → γ) (m : AMap β) (k : Nat) :
    get (m.map (fun p => (p.1, f p.2))) k = (get m k).map f := by
  induction m with
  | nil => rfl
  | cons p t ih =>
    obtain ⟨a, b⟩ := p
    simp only [List.map_cons, get_cons, ih]
    split <;> rfl

end AMap

/-! ### storageCache -/

theorem cacheSnapshot_get (c : AMap Storage) (k : Nat) :
    (cacheSnapshot c).get k = (c.get k).map (fun st => st.buf.nextIdx) := by
  simp only [cacheSnapshot, Buf.snapshot]
  exact AMap.get_map_snd (fun st : Storage => st.buf.nextIdx) c k

theorem cacheRollback_keys {snap : AMap Nat} {t t' : AMap Storage}
    (h : cacheRollback snap t = some t') : ∀ p ∈ t', ∃ q ∈ t, q.1 = p.1 := by
  induction t generalizing t' with
  | nil =>
    simp only [cacheRollback, Option.some.injEq] at h
    subst h; intro p hp; cases hp
  | cons q t ih =>
    obtain ⟨c, st⟩ := q
    simp only [cacheRollback] at h
    split at h
    · split at h
      · rename_i b t1 _ ht1
        simp only [Option.some.injEq] at h
        subst h
        intro p hp
        simp only [List.mem_cons] at hp
        rcases hp with rfl | hp
        · exact ⟨(c, st), by simp, rfl⟩
        · obtain ⟨q, hq, e⟩ := ih ht1 p hp
          exact ⟨q, List.mem_cons_of_mem _ hq, e⟩
      · cases h
    · intro p hp
      obtain ⟨q, hq, e⟩ := ih h p hp
      exact ⟨q, List.mem_cons_of_mem _ hq, e⟩

/-- What a successful `storageCache.Rollback` produced. -/
theorem cacheRollback_some {snap : AMap Nat} {t t' : AMap Storage}
    (h : cacheRollback snap t = some t') (hw : AMap.WF t) :
    AMap.WF t' ∧
    (∀ c st', t'.get c = some st' → ∃ st r b, t.get c = some st ∧ snap.get c = some r ∧
        st.buf.rollback r = some b ∧ st' = { st with buf := b }) ∧
    (∀ c st r, t.get c = some st → snap.get c = some r →
        ∃ b, st.buf.rollback r = some b ∧ t'.get c = some { st with buf := b }) := by
  induction t generalizing t' with
  | nil =>
    simp only [cacheRollback, Option.some.injEq] at h
    subst h
    exact ⟨hw, by intro c st' hc; simp [AMap.get] at hc, by intro c st r hc; simp [AMap.get] at hc⟩
  | cons q t ih =>
    obtain ⟨c0, st0⟩ := q
    have hlt := AMap.head_lt hw
    have hw' := AMap.WF_tail hw
    simp only [cacheRollback] at h
    split at h
    · rename_i r0 hr0
      split at h
      · rename_i b0 t1 hb0 ht1
        simp only [Option.some.injEq] at h
        subst h
        obtain ⟨w1, a1, b1⟩ := ih ht1 hw'
        have hk := cacheRollback_keys ht1
        refine ⟨?_, ?_, ?_⟩
        · simp only [AMap.WF, List.pairwise_cons]
          refine ⟨?_, w1⟩
          intro p hp
          obtain ⟨q, hq, e⟩ := hk p hp
          have := hlt q hq
          show c0 < p.1
          omega
        · intro c st' hc
          rw [AMap.get_cons] at hc
          split at hc
          · rename_i hcc
            subst hcc
            simp only [Option.some.injEq] at hc
            exact ⟨st0, r0, b0, by simp [AMap.get_cons], hr0, hb0, hc.symm⟩
          · rename_i hcc
            obtain ⟨st, r, b, e1, e2, e3, e4⟩ := a1 c st' hc
            exact ⟨st, r, b, by rw [AMap.get_cons, if_neg hcc]; exact e1, e2, e3, e4⟩
        · intro c st r hc hs
          rw [AMap.get_cons] at hc
          split at hc
          · rename_i hcc
            subst hcc
            simp only [Option.some.injEq] at hc
            subst hc
            rw [hr0] at hs
            simp only [Option.some.injEq] at hs
            subst hs
            exact ⟨b0, hb0, by simp [AMap.get_cons]⟩
          · rename_i hcc
            obtain ⟨b, e1, e2⟩ := b1 c st r hc hs
            exact ⟨b, e1, by rw [AMap.get_cons, if_neg hcc]; exact e2⟩
      · cases h
    · rename_i hr0
      obtain ⟨w1, a1, b1⟩ := ih h hw'
      refine ⟨w1, ?_, ?_⟩
      · intro c st' hc
        obtain ⟨st, r, b, e1, e2, e3, e4⟩ := a1 c st' hc
        have hcc : c0 ≠ c := by
          intro e; subst e; rw [hr0] at e2; cases e2
        exact ⟨st, r, b, by rw [AMap.get_cons, if_neg hcc]; exact e1, e2, e3, e4⟩
      · intro c st r hc hs
        have hcc : c0 ≠ c := by
          intro e; subst e; rw [hr0] at hs; cases hs
        rw [AMap.get_cons, if_neg hcc] at hc
        exact b1 c st r hc hs

/-- `storageCache.Rollback` is defined when every revision it is handed is a live revision. -/
theorem cacheRollback_defined {snap : AMap Nat} {t : AMap Storage}
    (hi : ∀ p ∈ t, p.2.buf.Inv)
    (hr : ∀ p ∈ t, ∀ r, snap.get p.1 = some r → r ≤ p.2.buf.nextIdx) :
    ∃ t', cacheRollback snap t = some t' := by
  induction t with
  | nil => exact ⟨[], rfl⟩
  | cons q t ih =>
    obtain ⟨c0, st0⟩ := q
    obtain ⟨t1, ht1⟩ := ih (fun p hp => hi p (List.mem_cons_of_mem _ hp))
      (fun p hp => hr p (List.mem_cons_of_mem _ hp))
    simp only [cacheRollback]
    cases hs : snap.get c0 with
    | none => exact ⟨t1, ht1⟩
    | some r =>
      have hle := hr (c0, st0) (by simp) r hs
      obtain ⟨b, hb, _⟩ := Buf.rollback_spec (hi (c0, st0) (by simp)) hle
      exact ⟨(c0, { st0 with buf := b }) :: t1, by simp [hb, ht1]⟩

/-! ### StateDB invariant -/
namespace SDB

theorem Inv_new (content : AMap AVal) : (SDB.new content).Inv :=
  ⟨Buf.Inv_empty, by simp [SDB.new, AMap.WF], by intro p hp; simp [SDB.new] at hp⟩

theorem Inv_putState {s : SDB} (h : s.Inv) (a : Nat) (v : AVal) : (s.putState a v).Inv :=
  ⟨Buf.Inv_put h.buf a v, h.wf, h.sto⟩

theorem Inv_setCache {s : SDB} (h : s.Inv) (c : Nat) (st : Storage) (hst : st.buf.Inv) :
    ({ s with cache := s.cache.set c st } : SDB).Inv := by
  refine ⟨h.buf, AMap.WF_set h.wf _ _, ?_⟩
  intro p hp
  rcases AMap.mem_set hp with rfl | hp
  · exact hst
  · exact h.sto p hp

theorem sto_get {s : SDB} (h : s.Inv) {c : Nat} {st : Storage} (hc : s.cache.get c = some st) :
    st.buf.Inv := h.sto (c, st) (AMap.mem_of_get hc)

end SDB

theorem Storage.writes_Inv (st : Storage) (ws : List (Nat × SVal)) (h : st.buf.Inv) :
    (st.writes ws).buf.Inv := by
  induction ws generalizing st with
  | nil => exact h
  | cons w t ih =>
    simp only [Storage.writes, List.foldl_cons]
    exact ih _ (Buf.Inv_put h _ _)


/-! ### histories above a block snapshot -/

/-- `s` extends `s0`: everything `s0` holds is still there, underneath what was added since. -/
structure Ext (s0 s : SDB) : Prop where
  inv : s.Inv
  trie : s.trie = s0.trie
  pre : s.buf.entries.take s0.buf.entries.length = s0.buf.entries
  len : s0.buf.entries.length ≤ s.buf.nextIdx
  sto : ∀ c st0, s0.cache.get c = some st0 → ∃ st, s.cache.get c = some st ∧ st.trie = st0.trie ∧
    st.dirty = st0.dirty ∧ st.buf.entries.take st0.buf.entries.length = st0.buf.entries ∧
    st0.buf.entries.length ≤ st.buf.nextIdx

theorem Ext_refl {s0 : SDB} (h : s0.Inv) : Ext s0 s0 :=
  ⟨h, rfl, List.take_length, by rw [h.buf.len]; exact Nat.le_refl _,
   fun c st0 hc => ⟨st0, hc, rfl, rfl, List.take_length, by
     rw [(SDB.sto_get h hc).len]; exact Nat.le_refl _⟩⟩

theorem Ext_put {s0 s : SDB} (h : Ext s0 s) (a : Nat) (v : AVal) : Ext s0 (s.putState a v) := by
  refine ⟨SDB.Inv_putState h.inv a v, h.trie, ?_, ?_, h.sto⟩
  · simp only [SDB.putState, Buf.put_entries]
    rw [List.take_append_of_le_length (by rw [← h.inv.buf.len]; exact h.len)]
    exact h.pre
  · simp only [SDB.putState, Buf.put_nextIdx]
    have := h.len; omega

/-- a write through a handle on a staged storage -/
theorem Ext_write {s0 s : SDB} (h : Ext s0 s) {c : Nat} {st : Storage} (hc : s.cache.get c = some st)
    (k : Nat) (v : SVal) :
    Ext s0 { s with cache := s.cache.set c { st with buf := st.buf.put k v } } := by
  have hst := SDB.sto_get h.inv hc
  refine ⟨SDB.Inv_setCache h.inv c _ (Buf.Inv_put hst k v), h.trie, h.pre, h.len, ?_⟩
  intro c' st0 hc'
  obtain ⟨st1, e1, e2, e3, e4, e5⟩ := h.sto c' st0 hc'
  simp only [AMap.get_set]
  by_cases hcc : c = c'
  · subst hcc
    rw [hc] at e1
    simp only [Option.some.injEq] at e1
    subst e1
    refine ⟨{ st with buf := st.buf.put k v }, by rw [if_pos rfl], e2, e3, ?_, ?_⟩
    · simp only [Buf.put_entries]
      rw [List.take_append_of_le_length (by rw [← hst.len]; exact e5)]
      exact e4
    · simp only [Buf.put_nextIdx]; omega
  · exact ⟨st1, by rw [if_neg hcc]; exact e1, e2, e3, e4, e5⟩

theorem Ext_stageNew {s0 s : SDB} (h : Ext s0 s) {c : Nat} (hc : s.cache.get c = none)
    (st : Storage) (hst : st.buf.Inv) : Ext s0 (s.stage c st) := by
  refine ⟨SDB.Inv_setCache h.inv c st hst, h.trie, h.pre, h.len, ?_⟩
  intro c' st0 hc'
  obtain ⟨st1, e1, e2, e3, e4, e5⟩ := h.sto c' st0 hc'
  have hcc : c ≠ c' := by
    intro e; subst e; rw [hc] at e1; cases e1
  exact ⟨st1, by simp only [SDB.stage, AMap.get_set, if_neg hcc]; exact e1, e2, e3, e4, e5⟩

/-- a contract-level rollback through a handle on a staged storage, not below what `s0` holds of it -/
theorem Ext_storageRollback {s0 s s' : SDB} (h : Ext s0 s) (h0 : s0.Inv) {c r : Nat}
    (hok : ∀ st0, s0.cache.get c = some st0 → st0.buf.nextIdx ≤ r)
    (hr : s.storageRollback c r = some s') : Ext s0 s' := by
  simp only [SDB.storageRollback] at hr
  split at hr
  · rename_i st hc
    split at hr
    · rename_i b hb
      simp only [Option.some.injEq] at hr
      subst hr
      have hst := SDB.sto_get h.inv hc
      obtain ⟨_, be, bn, bi⟩ := Buf.rollback_some hst hb
      refine ⟨SDB.Inv_setCache h.inv c _ bi, h.trie, h.pre, h.len, ?_⟩
      intro c' st0 hc'
      obtain ⟨st1, e1, e2, e3, e4, e5⟩ := h.sto c' st0 hc'
      simp only [AMap.get_set]
      by_cases hcc : c = c'
      · subst hcc
        rw [hc] at e1
        simp only [Option.some.injEq] at e1
        subst e1
        have hle := hok st0 hc'
        have hl0 := (SDB.sto_get h0 hc').len
        refine ⟨{ st with buf := b }, by rw [if_pos rfl], e2, e3, ?_, ?_⟩
        · show b.entries.take st0.buf.entries.length = st0.buf.entries
          rw [be, List.take_take, Nat.min_eq_left (by omega)]
          exact e4
        · show st0.buf.entries.length ≤ b.nextIdx
          omega
      · exact ⟨st1, by rw [if_neg hcc]; exact e1, e2, e3, e4, e5⟩
    · cases hr
  · cases hr

theorem revOK_spec {s0 : SDB} {c r : Nat} (h : revOK s0.blockSnapshot.storage c r = true) :
    ∀ st0, s0.cache.get c = some st0 → st0.buf.nextIdx ≤ r := by
  intro st0 hc
  simp only [revOK, SDB.blockSnapshot, cacheSnapshot_get, hc, Option.map_some] at h
  simpa using h

theorem covers_spec {base sn : BlockSnap} (h : base.covers sn = true) :
    base.state ≤ sn.state ∧
    ∀ c r0, base.storage.get c = some r0 → ∃ r, sn.storage.get c = some r ∧ r0 ≤ r := by
  simp only [BlockSnap.covers, Bool.and_eq_true, decide_eq_true_eq, List.all_eq_true] at h
  refine ⟨h.1, ?_⟩
  intro c r0 hc
  have := h.2 (c, r0) (AMap.mem_of_get hc)
  simp only at this
  split at this
  · rename_i r hr
    exact ⟨r, hr, by simpa using this⟩
  · cases this

theorem blockRollback_some {s s' : SDB} {sn : BlockSnap} (h : s.blockRollback sn = some s') :
    ∃ c b, cacheRollback sn.storage s.cache = some c ∧ s.buf.rollback sn.state = some b ∧
      s' = { s with cache := c, buf := b } := by
  simp only [SDB.blockRollback] at h
  split at h
  · rename_i c b hc hb
    simp only [Option.some.injEq] at h
    exact ⟨c, b, hc, hb, h.symm⟩
  · cases h

theorem Ext_rollback {s0 s s' : SDB} (h : Ext s0 s) (h0 : s0.Inv) {sn : BlockSnap}
    (hcov : s0.blockSnapshot.covers sn = true) (hr : s.blockRollback sn = some s') : Ext s0 s' := by
  obtain ⟨cache', b', hc, hb, rfl⟩ := blockRollback_some hr
  obtain ⟨hst, hcs⟩ := covers_spec hcov
  simp only [SDB.blockSnapshot, Buf.snapshot] at hst hcs
  obtain ⟨_, hbe, hbn, hbi⟩ := Buf.rollback_some h.inv.buf hb
  obtain ⟨w', ca, cb⟩ := cacheRollback_some hc h.inv.wf
  have hlen0 := h0.buf.len
  refine ⟨⟨hbi, w', ?_⟩, h.trie, ?_, ?_, ?_⟩
  · intro p hp
    have hg := AMap.get_of_mem w' (k := p.1) (v := p.2) hp
    obtain ⟨st, r, b, e1, _, e3, e4⟩ := ca p.1 p.2 hg
    obtain ⟨_, _, _, hi⟩ := Buf.rollback_some (SDB.sto_get h.inv e1) e3
    rw [e4]; exact hi
  · show b'.entries.take s0.buf.entries.length = s0.buf.entries
    rw [hbe, List.take_take, Nat.min_eq_left (by omega)]
    exact h.pre
  · show s0.buf.entries.length ≤ b'.nextIdx
    omega
  · intro c st0 hc0
    obtain ⟨st1, e1, e2, e3, e4, e5⟩ := h.sto c st0 hc0
    have hs0 : (cacheSnapshot s0.cache).get c = some st0.buf.nextIdx := by
      rw [cacheSnapshot_get, hc0]; rfl
    obtain ⟨r, hr1, hr2⟩ := hcs c _ hs0
    obtain ⟨b, hb1, hb2⟩ := cb c st1 r e1 hr1
    obtain ⟨_, be, bn, _⟩ := Buf.rollback_some (SDB.sto_get h.inv e1) hb1
    have hl0 := (SDB.sto_get h0 hc0).len
    refine ⟨_, hb2, e2, e3, ?_, ?_⟩
    · show b.entries.take st0.buf.entries.length = st0.buf.entries
      rw [be, List.take_take, Nat.min_eq_left (by omega)]
      exact e4
    · show st0.buf.entries.length ≤ b.nextIdx
      omega

/-- Rolling back to the snapshot of `s0` from any state that extends `s0` yields `s0` itself. -/
theorem Ext_restore {s0 s : SDB} (h : Ext s0 s) (h0 : s0.Inv) :
    s.blockRollback s0.blockSnapshot = some s0 := by
  have hlen0 := h0.buf.len
  -- defined
  obtain ⟨cache', hc⟩ := cacheRollback_defined (snap := cacheSnapshot s0.cache) h.inv.sto (by
    intro p hp r hr
    rw [cacheSnapshot_get] at hr
    cases hg : s0.cache.get p.1 with
    | none => rw [hg] at hr; cases hr
    | some st0 =>
      rw [hg] at hr
      simp only [Option.map_some, Option.some.injEq] at hr
      obtain ⟨st1, e1, _, _, _, e5⟩ := h.sto p.1 st0 hg
      have := AMap.get_of_mem h.inv.wf (k := p.1) (v := p.2) hp
      rw [this] at e1
      simp only [Option.some.injEq] at e1
      subst e1
      rw [← hr, (SDB.sto_get h0 hg).len]; exact e5)
  obtain ⟨b', hb, hbe, _, hbi⟩ := Buf.rollback_spec h.inv.buf (n := s0.buf.nextIdx) (by
    have := h.len; omega)
  obtain ⟨w', ca, cb⟩ := cacheRollback_some hc h.inv.wf
  have hbuf : b' = s0.buf := Buf.Inv_ext hbi h0.buf (by rw [hbe, hlen0]; exact h.pre)
  have hcache : cache' = s0.cache := by
    apply AMap.ext w' h0.wf
    intro c
    cases hg : s0.cache.get c with
    | none =>
      cases hg' : cache'.get c with
      | none => rfl
      | some st' =>
        obtain ⟨_, r, _, _, e2, _, _⟩ := ca c st' hg'
        rw [cacheSnapshot_get, hg] at e2
        cases e2
    | some st0 =>
      obtain ⟨st1, e1, e2, e3, e4, _⟩ := h.sto c st0 hg
      have hs0 : (cacheSnapshot s0.cache).get c = some st0.buf.nextIdx := by
        rw [cacheSnapshot_get, hg]; rfl
      obtain ⟨b, hb1, hb2⟩ := cb c st1 _ e1 hs0
      obtain ⟨_, be, _, bi⟩ := Buf.rollback_some (SDB.sto_get h.inv e1) hb1
      have hl0 := (SDB.sto_get h0 hg).len
      have : b = st0.buf := Buf.Inv_ext bi (SDB.sto_get h0 hg) (by rw [be, hl0]; exact e4)
      rw [hb2, this]
      obtain ⟨b1, t1, d1⟩ := st1
      obtain ⟨b0, t0, d0⟩ := st0
      simp only at e2 e3
      subst e2 e3
      rfl
  simp only [SDB.blockRollback, SDB.blockSnapshot, Buf.snapshot, hc, hb, hbuf, hcache]
  obtain ⟨b1, c1, t1⟩ := s
  obtain ⟨b0, c0, t0⟩ := s0
  have := h.trie
  simp only at this
  subst this
  rfl

theorem run_Ext {s0 : SDB} (h0 : s0.Inv) (ops : List SDB.Op) :
    ∀ s s', Ext s0 s → SDB.run s0.blockSnapshot s ops = some s' → Ext s0 s' := by
  induction ops with
  | nil =>
    intro s s' h hr
    simp only [SDB.run, Option.some.injEq] at hr
    subst hr; exact h
  | cons o t ih =>
    intro s s' h hr
    cases o with
    | putState a v =>
      simp only [SDB.run] at hr
      exact ih _ _ (Ext_put h a v) hr
    | setData c k v =>
      simp only [SDB.run] at hr
      split at hr
      · rename_i st hc
        exact ih _ _ (Ext_write h hc k (some v)) hr
      · cases hr
    | deleteData c k =>
      simp only [SDB.run] at hr
      split at hr
      · rename_i st hc
        exact ih _ _ (Ext_write h hc k none) hr
      · cases hr
    | stageNew c content ws =>
      simp only [SDB.run] at hr
      split at hr
      · rename_i hc
        exact ih _ _ (Ext_stageNew h hc _ (Storage.writes_Inv _ ws Buf.Inv_empty)) hr
      · cases hr
    | storageRollback c r =>
      simp only [SDB.run] at hr
      split at hr
      · rename_i hok
        split at hr
        · rename_i s1 hs1
          exact ih _ _ (Ext_storageRollback h h0 (revOK_spec hok) hs1) hr
        · cases hr
      · cases hr
    | rollback sn =>
      simp only [SDB.run] at hr
      split at hr
      · rename_i hcov
        split at hr
        · rename_i s1 hs1
          exact ih _ _ (Ext_rollback h h0 hcov hs1) hr
        · cases hr
      · cases hr

/-- A snapshot taken anywhere above `s0` covers `s0` (so it is an admissible rollback target). -/
theorem Ext_covers {s0 s : SDB} (h : Ext s0 s) (h0 : s0.Inv) :
    s0.blockSnapshot.covers s.blockSnapshot = true := by
  simp only [BlockSnap.covers, SDB.blockSnapshot, Buf.snapshot, Bool.and_eq_true, List.all_eq_true]
  refine ⟨by have := h.len; have := h0.buf.len; exact decide_eq_true (by omega), ?_⟩
  intro p hp
  have hg := AMap.get_of_mem (by
    simp only [cacheSnapshot, AMap.WF]
    exact (List.pairwise_map).2 h0.wf) (k := p.1) (v := p.2) hp
  rw [cacheSnapshot_get] at hg
  cases hc : s0.cache.get p.1 with
  | none => rw [hc] at hg; cases hg
  | some st0 =>
    rw [hc] at hg
    simp only [Option.map_some, Option.some.injEq] at hg
    obtain ⟨st1, e1, _, _, _, e5⟩ := h.sto p.1 st0 hc
    rw [cacheSnapshot_get, e1]
    simp only [Option.map_some, decide_eq_true_eq]
    rw [← hg, (SDB.sto_get h0 hc).len]
    exact e5

end Aergo.Buffer
