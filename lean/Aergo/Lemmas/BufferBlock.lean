/-
Helper lemmas for the `Buffer` layer (C12), block level: `storageCache.Snapshot/Rollback`,
`BlockState.Snapshot/Rollback` and histories of a block's working state.
-/
import Aergo.Lemmas.Buffer

namespace Aergo.Buffer

namespace AMap
variable {β : Type}

theorem get_cons (a : Nat) (b : β) (t : AMap β) (k : Nat) :
    get ((a, b) :: t) k = if a = k then some b else get t k := rfl

theorem get_none_of_lt {t : AMap β} {a : Nat} (h : ∀ p ∈ t, a < p.1) : get t a = none := by
  induction t with
  | nil => rfl
  | cons p t ih =>
    obtain ⟨c, d⟩ := p
    have := h (c, d) (by simp)
    simp only at this
    rw [get_cons, if_neg (by omega)]
    exact ih (fun p hp => h p (List.mem_cons_of_mem _ hp))

theorem head_lt {a : Nat} {b : β} {t : AMap β} (h : WF ((a, b) :: t)) : ∀ p ∈ t, a < p.1 := by
  simp only [WF, List.pairwise_cons] at h
  exact h.1

theorem get_map_snd {γ : Type} (f : β → γ) (m : AMap β) (k : Nat) :
    get (m.map (fun p => (p.1, f p.2))) k = (get m k).map f := by
  induction m with
  | nil => rfl
  | cons p t ih =>
    obtain ⟨a, b⟩ := p
    simp only [List.map_cons, get_cons, ih]
    split <;> rfl

end AMap

/-! ### storageCache -/

theorem cacheSnapshot_get (c : AMap Storage) (k : Nat) :
    (cacheSnapshot c).get k = (c.get k).map (fun st => st.buf.nextIdx) := by
  simp only [cacheSnapshot, Buf.snapshot]
  exact AMap.get_map_snd (fun st : Storage => st.buf.nextIdx) c k

theorem cacheRollback_keys {snap : AMap Nat} {t t' : AMap Storage}
    (h : cacheRollback snap t = some t') : ∀ p ∈ t', ∃ q ∈ t, q.1 = p.1 := by
  induction t generalizing t' with
  | nil =>
    simp only [cacheRollback, Option.some.injEq] at h
    subst h; intro p hp; cases hp
  | cons q t ih =>
    obtain ⟨c, st⟩ := q
    simp only [cacheRollback] at h
    split at h
    · split at h
      · rename_i b t1 _ ht1
        simp only [Option.some.injEq] at h
        subst h
        intro p hp
        simp only [List.mem_cons] at hp
        rcases hp with rfl | hp
        · exact ⟨(c, st), by simp, rfl⟩
        · obtain ⟨q, hq, e⟩ := ih ht1 p hp
          exact ⟨q, List.mem_cons_of_mem _ hq, e⟩
      · cases h
    · intro p hp
      obtain ⟨q, hq, e⟩ := ih h p hp
      exact ⟨q, List.mem_cons_of_mem _ hq, e⟩

/-- What a successful `storageCache.Rollback` produced. -/
theorem cacheRollback_some {snap : AMap Nat} {t t' : AMap Storage}
    (h : cacheRollback snap t = some t') (hw : AMap.WF t) :
    AMap.WF t' ∧
    (∀ c st', t'.get c = some st' → ∃ st r b, t.get c = some st ∧ snap.get c = some r ∧
        st.buf.rollback r = some b ∧ st' = { st with buf := b }) ∧
    (∀ c st r, t.get c = some st → snap.get c = some r →
        ∃ b, st.buf.rollback r = some b ∧ t'.get c = some { st with buf := b }) := by
  induction t generalizing t' with
  | nil =>
    simp only [cacheRollback, Option.some.injEq] at h
    subst h
    exact ⟨hw, by intro c st' hc; simp [AMap.get] at hc, by intro c st r hc; simp [AMap.get] at hc⟩
  | cons q t ih =>
    obtain ⟨c0, st0⟩ := q
    have hlt := AMap.head_lt hw
    have hw' := AMap.WF_tail hw
    simp only [cacheRollback] at h
    split at h
    · rename_i r0 hr0
      split at h
      · rename_i b0 t1 hb0 ht1
        simp only [Option.some.injEq] at h
        subst h
        obtain ⟨w1, a1, b1⟩ := ih ht1 hw'
        have hk := cacheRollback_keys ht1
        refine ⟨?_, ?_, ?_⟩
        · simp only [AMap.WF, List.pairwise_cons]
          refine ⟨?_, w1⟩
          intro p hp
          obtain ⟨q, hq, e⟩ := hk p hp
          have := hlt q hq
          simp only at this ⊢
          omega
        · intro c st' hc
          rw [AMap.get_cons] at hc
          split at hc
          · rename_i hcc
            subst hcc
            simp only [Option.some.injEq] at hc
            exact ⟨st0, r0, b0, by simp [AMap.get_cons], hr0, hb0, hc.symm⟩
          · rename_i hcc
            obtain ⟨st, r, b, e1, e2, e3, e4⟩ := a1 c st' hc
            exact ⟨st, r, b, by rw [AMap.get_cons, if_neg hcc]; exact e1, e2, e3, e4⟩
        · intro c st r hc hs
          rw [AMap.get_cons] at hc
          split at hc
          · rename_i hcc
            subst hcc
            simp only [Option.some.injEq] at hc
            subst hc
            rw [hr0] at hs
            simp only [Option.some.injEq] at hs
            subst hs
            exact ⟨b0, hb0, by simp [AMap.get_cons]⟩
          · rename_i hcc
            obtain ⟨b, e1, e2⟩ := b1 c st r hc hs
            exact ⟨b, e1, by rw [AMap.get_cons, if_neg hcc]; exact e2⟩
      · cases h
    · rename_i hr0
      obtain ⟨w1, a1, b1⟩ := ih h hw'
      refine ⟨w1, ?_, ?_⟩
      · intro c st' hc
        obtain ⟨st, r, b, e1, e2, e3, e4⟩ := a1 c st' hc
        have hcc : c0 ≠ c := by
          intro e; subst e; rw [hr0] at e2; cases e2
        exact ⟨st, r, b, by rw [AMap.get_cons, if_neg hcc]; exact e1, e2, e3, e4⟩
      · intro c st r hc hs
        have hcc : c0 ≠ c := by
          intro e; subst e; rw [hr0] at hs; cases hs
        rw [AMap.get_cons, if_neg hcc] at hc
        exact b1 c st r hc hs

/-- `storageCache.Rollback` is defined when every revision it is handed is a live revision. -/
theorem cacheRollback_defined {snap : AMap Nat} {t : AMap Storage}
    (hi : ∀ p ∈ t, p.2.buf.Inv)
    (hr : ∀ p ∈ t, ∀ r, snap.get p.1 = some r → r ≤ p.2.buf.nextIdx) :
    ∃ t', cacheRollback snap t = some t' := by
  induction t with
  | nil => exact ⟨[], rfl⟩
  | cons q t ih =>
    obtain ⟨c0, st0⟩ := q
    obtain ⟨t1, ht1⟩ := ih (fun p hp => hi p (List.mem_cons_of_mem _ hp))
      (fun p hp => hr p (List.mem_cons_of_mem _ hp))
    simp only [cacheRollback]
    cases hs : snap.get c0 with
    | none => exact ⟨t1, ht1⟩
    | some r =>
      have hle := hr (c0, st0) (by simp) r hs
      obtain ⟨b, hb, _⟩ := Buf.rollback_spec (hi (c0, st0) (by simp)) hle
      exact ⟨(c0, { st0 with buf := b }) :: t1, by simp [hb, ht1]⟩

/-! ### StateDB invariant -/
namespace SDB

theorem Inv_new (content : AMap AVal) : (SDB.new content).Inv :=
  ⟨Buf.Inv_empty, by simp [SDB.new, AMap.WF], by intro p hp; simp [SDB.new] at hp⟩

theorem Inv_putState {s : SDB} (h : s.Inv) (a : Nat) (v : AVal) : (s.putState a v).Inv :=
  ⟨Buf.Inv_put h.buf a v, h.wf, h.sto⟩

theorem Inv_setCache {s : SDB} (h : s.Inv) (c : Nat) (st : Storage) (hst : st.buf.Inv) :
    ({ s with cache := s.cache.set c st } : SDB).Inv := by
  refine ⟨h.buf, AMap.WF_set h.wf _ _, ?_⟩
  intro p hp
  rcases AMap.mem_set hp with rfl | hp
  · exact hst
  · exact h.sto p hp

theorem sto_get {s : SDB} (h : s.Inv) {c : Nat} {st : Storage} (hc : s.cache.get c = some st) :
    st.buf.Inv := h.sto (c, st) (AMap.mem_of_get hc)

end SDB

theorem Storage.writes_Inv (st : Storage) (ws : List (Nat × SVal)) (h : st.buf.Inv) :
    (st.writes ws).buf.Inv := by
  induction ws generalizing st with
  | nil => exact h
  | cons w t ih =>
    simp only [Storage.writes, List.foldl_cons]
    exact ih _ (Buf.Inv_put h _ _)

end Aergo.Buffer
