/-
Helper lemmas for the `Buffer` layer (C12): histories with nested block snapshots (`runB`) against
the list of surviving operations (`survivors`, `runPlain`).
-/
import Aergo.Lemmas.BufferReads

namespace Aergo.Buffer

/-! ### `runPlain` -/

theorem runPlain_append (s : SDB) (l1 l2 : List SDB.Op) :
    runPlain s (l1 ++ l2) = (runPlain s l1).bind (fun s' => runPlain s' l2) := by
  induction l1 generalizing s with
  | nil => simp [runPlain]
  | cons o t ih =>
    simp only [List.cons_append, runPlain]
    cases s.apply o with
    | none => simp
    | some s' => simpa using ih s'

theorem runPlain_snoc {s0 s s' : SDB} {live : List SDB.Op} {o : SDB.Op}
    (h : runPlain s0 live = some s) (ho : s.apply o = some s') :
    runPlain s0 (live ++ [o]) = some s' := by
  rw [runPlain_append, h]
  simp [runPlain, ho]

/-! ### one mutation: invariant and extension -/

theorem apply_Inv {s s' : SDB} (h : s.Inv) {o : SDB.Op} (hadm : BOp.admissible none o = true)
    (ha : s.apply o = some s') : s'.Inv := by
  cases o with
  | putState a v =>
    simp only [SDB.apply, Option.some.injEq] at ha
    subst ha; exact SDB.Inv_putState h a v
  | setData c k v =>
    simp only [SDB.apply] at ha
    split at ha
    · rename_i st hc
      simp only [Option.some.injEq] at ha
      subst ha
      exact SDB.Inv_setCache h c _ (Buf.Inv_put (SDB.sto_get h hc) k (some v))
    · cases ha
  | deleteData c k =>
    simp only [SDB.apply] at ha
    split at ha
    · rename_i st hc
      simp only [Option.some.injEq] at ha
      subst ha
      exact SDB.Inv_setCache h c _ (Buf.Inv_put (SDB.sto_get h hc) k none)
    · cases ha
  | stageNew c content ws =>
    simp only [SDB.apply] at ha
    split at ha
    · simp only [Option.some.injEq] at ha
      subst ha
      exact SDB.Inv_setCache h c _ (Storage.writes_Inv _ ws Buf.Inv_empty)
    · cases ha
  | storageRollback c r =>
    simp only [SDB.apply, SDB.storageRollback] at ha
    split at ha
    · rename_i st hc
      split at ha
      · rename_i b hb
        simp only [Option.some.injEq] at ha
        subst ha
        obtain ⟨_, _, _, bi⟩ := Buf.rollback_some (SDB.sto_get h hc) hb
        exact SDB.Inv_setCache h c _ bi
      · cases ha
    · cases ha
  | rollback sn => simp [BOp.admissible] at hadm

/-- What a mutation needs in order to keep `g` underneath: nothing for writes and staging; a
contract-level rollback must not go below the revision `g` holds of that storage. -/
def KeepsBelow (g : SDB) : SDB.Op → Prop
  | .rollback _ => False
  | .storageRollback c r => ∀ st0, g.cache.get c = some st0 → st0.buf.nextIdx ≤ r
  | _ => True

theorem apply_Ext {g s s' : SDB} (hE : Ext g s) (hg : g.Inv) {o : SDB.Op} (hk : KeepsBelow g o)
    (ha : s.apply o = some s') : Ext g s' := by
  cases o with
  | putState a v =>
    simp only [SDB.apply, Option.some.injEq] at ha
    subst ha; exact Ext_put hE a v
  | setData c k v =>
    simp only [SDB.apply] at ha
    split at ha
    · rename_i st hc
      simp only [Option.some.injEq] at ha
      subst ha
      exact Ext_write hE hc k (some v)
    · cases ha
  | deleteData c k =>
    simp only [SDB.apply] at ha
    split at ha
    · rename_i st hc
      simp only [Option.some.injEq] at ha
      subst ha
      exact Ext_write hE hc k none
    · cases ha
  | stageNew c content ws =>
    simp only [SDB.apply] at ha
    split at ha
    · rename_i hc
      simp only [Option.some.injEq] at ha
      subst ha
      exact Ext_stageNew hE hc _ (Storage.writes_Inv _ ws Buf.Inv_empty)
    · cases ha
  | storageRollback c r =>
    simp only [SDB.apply] at ha
    exact Ext_storageRollback hE hg hk ha
  | rollback sn => exact absurd hk (by simp [KeepsBelow])

/-! ### the ghost stack: the state and the length of the surviving list at every live snapshot -/

structure Frame where
  st : SDB
  mark : Nat

structure Good (s0 s : SDB) (live : List SDB.Op) (F : List Frame) : Prop where
  inv : s.Inv
  cur : runPlain s0 live = some s
  fr : ∀ f ∈ F, f.st.Inv ∧ Ext f.st s ∧ f.mark ≤ live.length ∧
    runPlain s0 (live.take f.mark) = some f.st
  pw : F.Pairwise (fun f1 f2 => Ext f1.st f2.st ∧ f1.mark ≤ f2.mark)

theorem Good_init {s0 : SDB} (h0 : s0.Inv) : Good s0 s0 [] [] :=
  ⟨h0, rfl, (by intro f hf; cases hf), List.Pairwise.nil⟩

/-- every frame is the last one or lies below it -/
theorem below_last {F : List Frame} {R : Frame → Frame → Prop} (hp : F.Pairwise R) {top : Frame}
    (ht : F.getLast? = some top) : ∀ f ∈ F, f = top ∨ R f top := by
  intro f hf
  have hne : F ≠ [] := by intro e; subst e; simp at ht
  have hl : F.getLast hne = top := by
    rw [List.getLast?_eq_some_getLast hne] at ht
    exact Option.some.inj ht
  have hsplit := List.dropLast_concat_getLast hne
  rw [hl] at hsplit
  rw [← hsplit] at hf hp
  rw [List.pairwise_append] at hp
  simp only [List.mem_append, List.mem_singleton] at hf
  rcases hf with hf | hf
  · exact Or.inr (hp.2.2 f hf top (by simp))
  · exact Or.inl hf

/-- every frame up to index `j` is the `j`-th one or lies below it -/
theorem below_index {F : List Frame} {R : Frame → Frame → Prop} (hp : F.Pairwise R) {j : Nat}
    {f : Frame} (hj : F[j]? = some f) : ∀ f' ∈ F.take (j + 1), f' = f ∨ R f' f := by
  intro f' hf'
  have hlt : j < F.length := by
    rcases Nat.lt_or_ge j F.length with h | h
    · exact h
    · rw [List.getElem?_eq_none h] at hj; cases hj
  have hget : F[j] = f := by
    rw [List.getElem?_eq_getElem hlt] at hj
    exact Option.some.inj hj
  rw [List.take_add_one, hj] at hf'
  simp only [Option.toList_some, List.mem_append, List.mem_singleton] at hf'
  rcases hf' with h1 | h1
  · right
    have hsplit : F = F.take j ++ F.drop j := (List.take_append_drop j F).symm
    rw [hsplit, List.pairwise_append] at hp
    refine hp.2.2 f' h1 f ?_
    rw [List.drop_eq_getElem_cons hlt, hget]
    simp
  · exact Or.inl h1

theorem Good_op {s0 s s' : SDB} {live : List SDB.Op} {F : List Frame} (hG : Good s0 s live F)
    {o : SDB.Op}
    (hadm : BOp.admissible ((F.map fun f => f.st.blockSnapshot).getLast?) o = true)
    (ha : s.apply o = some s') : Good s0 s' (live ++ [o]) F := by
  have hnone : BOp.admissible none o = true := by
    cases o <;> simp_all [BOp.admissible]
  have hkeep : ∀ f ∈ F, KeepsBelow f.st o := by
    intro f hf
    cases o with
    | rollback sn => simp [BOp.admissible] at hnone
    | storageRollback c r =>
      -- the innermost live snapshot bounds the revision; the others lie below it
      cases hl : F.getLast? with
      | none =>
        have : F = [] := by simpa using hl
        subst this; cases hf
      | some top =>
        have htop : revOK top.st.blockSnapshot.storage c r = true := by
          simpa [BOp.admissible, List.getLast?_map, hl] using hadm
        have hb := revOK_spec htop
        intro st0 hc0
        rcases below_last hG.pw hl f hf with rfl | ⟨hE, _⟩
        · exact hb st0 hc0
        · obtain ⟨st1, e1, _, _, _, e5⟩ := hE.sto c st0 hc0
          have := hb st1 e1
          have hl0 := (SDB.sto_get (hG.fr f hf).1 hc0).len
          omega
    | putState a v => trivial
    | setData c k v => trivial
    | deleteData c k => trivial
    | stageNew c content ws => trivial
  refine ⟨apply_Inv hG.inv hnone ha, runPlain_snoc hG.cur ha, ?_, hG.pw⟩
  intro f hf
  obtain ⟨fi, fe, fm, fr⟩ := hG.fr f hf
  refine ⟨fi, apply_Ext fe fi (hkeep f hf) ha, by simp only [List.length_append, List.length_singleton]; omega, ?_⟩
  rw [List.take_append_of_le_length fm]
  exact fr

theorem Good_snap {s0 s : SDB} {live : List SDB.Op} {F : List Frame} (hG : Good s0 s live F) :
    Good s0 s live (F ++ [⟨s, live.length⟩]) := by
  refine ⟨hG.inv, hG.cur, ?_, ?_⟩
  · intro f hf
    simp only [List.mem_append, List.mem_singleton] at hf
    rcases hf with hf | rfl
    · exact hG.fr f hf
    · exact ⟨hG.inv, Ext_refl hG.inv, Nat.le_refl _, by rw [List.take_length]; exact hG.cur⟩
  · rw [List.pairwise_append]
    refine ⟨hG.pw, by simp, ?_⟩
    intro f hf g hg
    simp only [List.mem_singleton] at hg
    subst hg
    obtain ⟨_, fe, fm, _⟩ := hG.fr f hf
    exact ⟨fe, fm⟩

theorem Good_keep {s0 s : SDB} {live : List SDB.Op} {F : List Frame} (hG : Good s0 s live F)
    (n : Nat) : Good s0 s live (F.take n) :=
  ⟨hG.inv, hG.cur, fun f hf => hG.fr f (List.mem_of_mem_take hf),
    List.Pairwise.sublist (List.take_sublist _ _) hG.pw⟩

theorem Good_rollbackTo {s0 s : SDB} {live : List SDB.Op} {F : List Frame} (hG : Good s0 s live F)
    {j : Nat} {f : Frame} (hj : F[j]? = some f) :
    s.blockRollback f.st.blockSnapshot = some f.st ∧
      Good s0 f.st (live.take f.mark) (F.take (j + 1)) := by
  have hf : f ∈ F := List.mem_of_getElem? hj
  obtain ⟨fi, fe, fm, fr⟩ := hG.fr f hf
  refine ⟨Ext_restore fe fi, fi, fr, ?_, List.Pairwise.sublist (List.take_sublist _ _) hG.pw⟩
  intro f' hf'
  have hf'F : f' ∈ F := List.mem_of_mem_take hf'
  obtain ⟨fi', _, fm', fr'⟩ := hG.fr f' hf'F
  have hb := below_index hG.pw hj f' hf'
  have hle : f'.mark ≤ f.mark := by
    rcases hb with rfl | ⟨_, h⟩
    · exact Nat.le_refl _
    · exact h
  have hext : Ext f'.st f.st := by
    rcases hb with rfl | ⟨h, _⟩
    · exact Ext_refl fi
    · exact h
  refine ⟨fi', hext, by rw [List.length_take]; omega, ?_⟩
  rw [List.take_take, Nat.min_eq_left hle]
  exact fr'

/-- The model run of a history and the list of surviving operations go together. -/
theorem runB_Good (s0 : SDB) : ∀ (h : List BOp) (s : SDB) (live : List SDB.Op) (F : List Frame)
    (r : SDB × List BlockSnap), Good s0 s live F →
    runB (s, F.map fun f => f.st.blockSnapshot) h = some r →
    ∃ F', r.2 = (F'.map fun f => f.st.blockSnapshot) ∧
      Good s0 r.1 (survivorsAux (live, F.map (·.mark)) h).1 F' ∧
      (survivorsAux (live, F.map (·.mark)) h).2 = F'.map (·.mark) := by
  intro h
  induction h with
  | nil =>
    intro s live F r hG hr
    simp only [runB, Option.some.injEq] at hr
    subst hr
    exact ⟨F, rfl, hG, rfl⟩
  | cons o t ih =>
    intro s live F r hG hr
    cases o with
    | op o =>
      simp only [runB] at hr
      split at hr
      · rename_i hadm
        split at hr
        · rename_i s' ha
          simpa only [survivorsAux] using ih s' (live ++ [o]) F r (Good_op hG hadm ha) hr
        · cases hr
      · cases hr
    | snap =>
      simp only [runB] at hr
      have hm : (F.map fun f => f.st.blockSnapshot) ++ [s.blockSnapshot] =
          ((F ++ [(⟨s, live.length⟩ : Frame)]).map fun f => f.st.blockSnapshot) := by simp
      rw [hm] at hr
      have := ih s live (F ++ [(⟨s, live.length⟩ : Frame)]) r (Good_snap hG) hr
      simpa only [survivorsAux, List.map_append, List.map_cons, List.map_nil] using this
    | rollbackTo j =>
      simp only [runB] at hr
      split at hr
      · cases hr
      · rename_i b hb
        rw [List.getElem?_map] at hb
        cases hfj : F[j]? with
        | none => rw [hfj] at hb; cases hb
        | some f =>
          rw [hfj] at hb
          simp only [Option.map_some, Option.some.injEq] at hb
          subst hb
          obtain ⟨hrb, hG'⟩ := Good_rollbackTo hG hfj
          rw [hrb] at hr
          simp only [← List.map_take] at hr
          have := ih f.st (live.take f.mark) (F.take (j + 1)) r hG' hr
          have hmark : (F.map (·.mark))[j]? = some f.mark := by
            rw [List.getElem?_map, hfj]; rfl
          simpa only [survivorsAux, hmark, ← List.map_take] using this
    | keep n =>
      simp only [runB, ← List.map_take] at hr
      have := ih s live (F.take n) r (Good_keep hG n) hr
      simpa only [survivorsAux, ← List.map_take] using this

end Aergo.Buffer
