/-
Helper lemmas for the `Buffer` layer (C12): what reads return, and what `update` writes into a trie.
-/
import Aergo.Lemmas.BufferBlock

namespace Aergo.Buffer

theorem lastWrite_snoc {α : Type} (es : List (Nat × α)) (k : Nat) (v : α) (k' : Nat) :
    lastWrite (es ++ [(k, v)]) k' = if k = k' then some v else lastWrite es k' := by
  simp only [lastWrite, List.reverse_append, List.reverse_cons, List.reverse_nil, List.nil_append,
    List.cons_append, List.find?]
  by_cases h : k = k' <;> simp [h]

theorem lastWrite_nil {α : Type} (k : Nat) : lastWrite ([] : List (Nat × α)) k = none := rfl

namespace Storage

theorem getData_spec {st : Storage} (h : st.buf.Inv) (k : Nat) :
    st.getData k = .found (st.view k) := by
  simp only [getData, view, Buf.get_spec h k]
  cases lastWrite st.buf.entries k <;> rfl

theorem view_setData (st : Storage) (k v k' : Nat) :
    (st.setData k v).view k' = if k = k' then some v else st.view k' := by
  simp only [view, setData, Buf.put_entries, lastWrite_snoc]
  by_cases h : k = k' <;> simp [h]

theorem view_deleteData (st : Storage) (k k' : Nat) :
    (st.deleteData k).view k' = if k = k' then none else st.view k' := by
  simp only [view, deleteData, Buf.put_entries, lastWrite_snoc]
  by_cases h : k = k' <;> simp [h]

theorem view_new (content : AMap Nat) (k : Nat) : (Storage.new content).view k = content.get k := rfl

end Storage

/-- `Trie.Update` with a batch that has one entry per key: each batch key reads as the batch says,
every other key is untouched. -/
theorem applyBatch_get (batch : List (Nat × SVal)) (hb : batch.Pairwise (fun x y => x.1 < y.1))
    (t : AMap Nat) (k : Nat) :
    (applyBatch t batch).get k =
      match batch.find? (fun e => e.1 = k) with
      | some e => e.2
      | none => t.get k := by
  induction batch generalizing t with
  | nil => rfl
  | cons e r ih =>
    obtain ⟨k0, w⟩ := e
    simp only [List.pairwise_cons] at hb
    have hnone : k0 = k → r.find? (fun e => e.1 = k) = none := by
      intro e
      subst e
      rw [List.find?_eq_none]
      intro x hx
      have := hb.1 x hx
      simp only [decide_eq_true_eq]
      omega
    cases w with
    | some v =>
      simp only [applyBatch, List.find?]
      rw [ih hb.2]
      by_cases hk : k0 = k
      · simp [hk, hnone hk, AMap.get_set]
      · simp only [hk, decide_false, AMap.get_set, if_false]
    | none =>
      simp only [applyBatch, List.find?]
      rw [ih hb.2]
      by_cases hk : k0 = k
      · simp [hk, hnone hk, AMap.get_erase]
      · simp only [hk, decide_false, AMap.get_erase, if_false]

theorem find_of_export {α : Type} {l : List (Nat × α)}
    {es : List (Nat × α)} (hm : ∀ k v, (k, v) ∈ l ↔ lastWrite es k = some v) (k : Nat) :
    (l.find? (fun e => e.1 = k)).map (·.2) = lastWrite es k := by
  cases hf : l.find? (fun e => decide (e.1 = k)) with
  | none =>
    cases hl : lastWrite es k with
    | none => rfl
    | some v =>
      have := (hm k v).2 hl
      rw [List.find?_eq_none] at hf
      have := hf (k, v) this
      simp at this
  | some e =>
    have h1 := List.find?_some hf
    have h2 := List.mem_of_find?_eq_some hf
    simp only [decide_eq_true_eq] at h1
    obtain ⟨ek, ev⟩ := e
    simp only at h1
    subst h1
    simp only [Option.map_some]
    exact ((hm ek ev).1 h2).symm

namespace Storage

/-- `bufferedStorage.update` moves exactly the visible values into the trie: afterwards the trie
alone reads what buffer-then-trie read before; the buffer is untouched. -/
theorem update_spec {st : Storage} (h : st.buf.Inv) :
    ∃ st', st.update = some st' ∧ st'.buf = st.buf ∧ ∀ k, st'.trie.get k = st.view k := by
  obtain ⟨l, hl, hs, hm⟩ := Buf.export_spec h
  refine ⟨{ st with trie := applyBatch st.trie l,
                     dirty := st.dirty || decide (applyBatch st.trie l ≠ st.trie) },
    by simp only [update, hl], rfl, ?_⟩
  intro k
  show (applyBatch st.trie l).get k = st.view k
  rw [applyBatch_get l hs]
  have := find_of_export hm k
  simp only [view, ← this]
  cases l.find? (fun e => decide (e.1 = k)) <;> rfl

/-- `bufferedStorage.stage` (Commit) empties the buffer. -/
theorem stage_spec {st : Storage} (h : st.buf.Inv) :
    ∃ st', st.stage = some st' ∧ st'.buf = Buf.empty ∧ st'.trie = st.trie ∧ st'.dirty = st.dirty := by
  obtain ⟨b, hb, he, _, hi⟩ := Buf.rollback_spec h (n := 0) (Nat.zero_le _)
  have : b = Buf.empty := Buf.Inv_ext hi Buf.Inv_empty (by rw [he]; rfl)
  exact ⟨{ st with buf := b }, by simp only [stage, Buf.reset, hb], this, rfl, rfl⟩

end Storage

namespace SDB

theorem getState_spec {s : SDB} (h : s.buf.Inv) (a : Nat) :
    s.getState a = .found (s.view a) := by
  simp only [getState, view, Buf.get_spec h a]
  cases lastWrite s.buf.entries a <;> rfl

theorem view_putState (s : SDB) (a : Nat) (v : AVal) (a' : Nat) :
    (s.putState a v).view a' = if a = a' then some v else s.view a' := by
  simp only [view, putState, Buf.put_entries, lastWrite_snoc]
  by_cases h : a = a' <;> simp [h]

end SDB

end Aergo.Buffer
