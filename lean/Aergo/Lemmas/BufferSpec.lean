/-
Helper lemmas for the `Buffer` layer (C12): the model (undo log, index stacks, revisions) against the
specification `Spec` (plain maps; a snapshot is a copy).
-/
import Aergo.Lemmas.BufferHist

namespace Aergo.Buffer

/-! ### generic: a sorted list and its prefixes -/

theorem pw_below_index {α : Type} {L : List α} {R : α → α → Prop} (hp : L.Pairwise R) {j : Nat}
    {x : α} (hj : L[j]? = some x) : ∀ y ∈ L.take (j + 1), y = x ∨ R y x := by
  intro y hy
  have hlt : j < L.length := by
    rcases Nat.lt_or_ge j L.length with h | h
    · exact h
    · rw [List.getElem?_eq_none h] at hj; cases hj
  have hget : L[j] = x := by
    rw [List.getElem?_eq_getElem hlt] at hj
    exact Option.some.inj hj
  rw [List.take_add_one, hj] at hy
  simp only [Option.toList_some, List.mem_append, List.mem_singleton] at hy
  rcases hy with h1 | h1
  · right
    have hsplit : L = L.take j ++ L.drop j := (List.take_append_drop j L).symm
    rw [hsplit, List.pairwise_append] at hp
    refine hp.2.2 y h1 x ?_
    rw [List.drop_eq_getElem_cons hlt, hget]
    simp
  · exact Or.inl h1

/-! ### the specification: snapshots as copies = the surviving operations -/

namespace Spec

theorem runPlain_snoc (σ : Spec) (l : List SDB.Op) (o : SDB.Op) :
    runPlain σ (l ++ [o]) = (runPlain σ l).apply o := by
  simp [runPlain, List.foldl_append]

/-- the stack of copies, as a function of the surviving list and the marks -/
def stackOf (σ0 : Spec) (live : List SDB.Op) (marks : List Nat) : List Spec :=
  marks.map fun m => runPlain σ0 (live.take m)

theorem stackOf_congr (σ0 : Spec) (live live' : List SDB.Op) (marks : List Nat)
    (h : ∀ m ∈ marks, live'.take m = live.take m) : stackOf σ0 live' marks = stackOf σ0 live marks := by
  simp only [stackOf]
  apply List.map_congr_left
  intro m hm
  rw [h m hm]

theorem run_survivorsAux (σ0 : Spec) : ∀ (h : List BOp) (live : List SDB.Op) (marks : List Nat),
    marks.Pairwise (· ≤ ·) → (∀ m ∈ marks, m ≤ live.length) →
    run (runPlain σ0 live, stackOf σ0 live marks) h =
      (runPlain σ0 (survivorsAux (live, marks) h).1,
        stackOf σ0 (survivorsAux (live, marks) h).1 (survivorsAux (live, marks) h).2) := by
  intro h
  induction h with
  | nil => intro live marks _ _; rfl
  | cons o t ih =>
    intro live marks hs hb
    cases o with
    | op o =>
      simp only [run, survivorsAux]
      rw [← runPlain_snoc, ← stackOf_congr σ0 live (live ++ [o]) marks (by
        intro m hm; exact List.take_append_of_le_length (hb m hm))]
      exact ih (live ++ [o]) marks hs (by
        intro m hm; have := hb m hm; simp only [List.length_append, List.length_singleton]; omega)
    | snap =>
      simp only [run, survivorsAux]
      have : stackOf σ0 live marks ++ [runPlain σ0 live] = stackOf σ0 live (marks ++ [live.length]) := by
        simp [stackOf, List.take_length]
      rw [this]
      refine ih live (marks ++ [live.length]) ?_ ?_
      · rw [List.pairwise_append]
        refine ⟨hs, by simp, ?_⟩
        intro a ha b hb'
        simp only [List.mem_singleton] at hb'
        subst hb'
        exact hb a ha
      · intro m hm
        simp only [List.mem_append, List.mem_singleton] at hm
        rcases hm with hm | rfl
        · exact hb m hm
        · exact Nat.le_refl _
    | rollbackTo j =>
      simp only [run, survivorsAux]
      have hget : (stackOf σ0 live marks)[j]? = (marks[j]?).map fun m => runPlain σ0 (live.take m) := by
        simp [stackOf, List.getElem?_map]
      rw [hget]
      cases hm : marks[j]? with
      | none => simpa using ih live marks hs hb
      | some m =>
        simp only [Option.map_some]
        have hmem : m ∈ marks := List.mem_of_getElem? hm
        have hle := hb m hmem
        have hbelow := pw_below_index hs hm
        have hst : (stackOf σ0 live marks).take (j + 1) = stackOf σ0 (live.take m) (marks.take (j + 1)) := by
          simp only [stackOf, ← List.map_take]
          apply List.map_congr_left
          intro m' hm'
          have : m' ≤ m := by
            rcases hbelow m' hm' with rfl | h
            · exact Nat.le_refl _
            · exact h
          rw [List.take_take, Nat.min_eq_left this]
        rw [hst]
        refine ih (live.take m) (marks.take (j + 1)) (List.Pairwise.sublist (List.take_sublist _ _) hs) ?_
        intro m' hm'
        rw [List.length_take]
        have : m' ≤ m := by
          rcases hbelow m' hm' with rfl | h
          · exact Nat.le_refl _
          · exact h
        omega
    | keep n =>
      simp only [run, survivorsAux]
      have : (stackOf σ0 live marks).take n = stackOf σ0 live (marks.take n) := by
        simp only [stackOf, ← List.map_take]
      rw [this]
      exact ih live (marks.take n) (List.Pairwise.sublist (List.take_sublist _ _) hs)
        (fun m hm => hb m (List.mem_of_mem_take hm))

/-- Snapshots as copies and "only the surviving operations" are the same specification. -/
theorem run_survivors (σ0 : Spec) (h : List BOp) :
    (run (σ0, []) h).1 = runPlain σ0 (survivors h) := by
  have := run_survivorsAux σ0 h [] [] List.Pairwise.nil (by intro m hm; cases hm)
  simp only [stackOf, List.map_nil, runPlain, List.foldl_nil] at this
  rw [this]
  rfl

end Spec

/-! ### one mutation keeps model and specification together -/

theorem view_put (st : Storage) (k : Nat) (w : SVal) (k' : Nat) :
    ({ st with buf := st.buf.put k w } : Storage).view k' = if k = k' then w else st.view k' := by
  simp only [Storage.view, Buf.put_entries, lastWrite_snoc]
  by_cases h : k = k' <;> simp [h]

theorem view_writes (st : Storage) (m : AMap Nat) (ws : List (Nat × SVal))
    (h : ∀ k, st.view k = m.get k) : ∀ k, (st.writes ws).view k = (applyWrites m ws).get k := by
  induction ws generalizing st m with
  | nil => exact h
  | cons w t ih =>
    obtain ⟨k0, v0⟩ := w
    simp only [Storage.writes, List.foldl_cons]
    cases v0 with
    | some v =>
      simp only [applyWrites]
      apply ih
      intro k
      rw [view_put, AMap.get_set, h k]
    | none =>
      simp only [applyWrites]
      apply ih
      intro k
      rw [view_put, AMap.get_erase, h k]

theorem StorAbs_set {cache : AMap Storage} {staged : AMap (AMap Nat)}
    (h : ∀ c, StorAbs (cache.get c) (staged.get c)) (c0 : Nat) (st : Storage) (m : AMap Nat)
    (hv : ∀ k, st.view k = m.get k) :
    ∀ c, StorAbs ((cache.set c0 st).get c) ((staged.set c0 m).get c) := by
  intro c
  rw [AMap.get_set, AMap.get_set]
  by_cases hc : c0 = c
  · simp only [hc, if_true]; exact hv
  · simp only [hc, if_false]; exact h c

/-- the mutations the specification speaks about -/
def SpecOp : SDB.Op → Bool
  | .storageRollback _ _ => false
  | .rollback _ => false
  | _ => true

theorem Abs_apply {s s' : SDB} {σ : Spec} (h : Abs s σ) {o : SDB.Op} (ho : SpecOp o = true)
    (ha : s.apply o = some s') : Abs s' (σ.apply o) := by
  obtain ⟨hA, hS⟩ := h
  cases o with
  | putState a v =>
    simp only [SDB.apply, Option.some.injEq] at ha
    subst ha
    refine ⟨?_, hS⟩
    intro a'
    simp only [Spec.apply]
    rw [SDB.view_putState, AMap.get_set, hA a']
  | setData c k v =>
    simp only [SDB.apply] at ha
    split at ha
    · rename_i st hc
      simp only [Option.some.injEq] at ha
      subst ha
      have hc' := hS c
      rw [hc] at hc'
      cases hm : σ.staged.get c with
      | none => rw [hm] at hc'; exact absurd hc' (by simp [StorAbs])
      | some m =>
        rw [hm] at hc'
        simp only [Spec.apply, hm]
        refine ⟨hA, StorAbs_set hS c _ _ ?_⟩
        intro k'
        rw [Storage.view_setData, AMap.get_set, hc' k']
    · cases ha
  | deleteData c k =>
    simp only [SDB.apply] at ha
    split at ha
    · rename_i st hc
      simp only [Option.some.injEq] at ha
      subst ha
      have hc' := hS c
      rw [hc] at hc'
      cases hm : σ.staged.get c with
      | none => rw [hm] at hc'; exact absurd hc' (by simp [StorAbs])
      | some m =>
        rw [hm] at hc'
        simp only [Spec.apply, hm]
        refine ⟨hA, StorAbs_set hS c _ _ ?_⟩
        intro k'
        rw [Storage.view_deleteData, AMap.get_erase, hc' k']
    · cases ha
  | stageNew c content ws =>
    simp only [SDB.apply] at ha
    split at ha
    · simp only [Option.some.injEq] at ha
      subst ha
      simp only [Spec.apply, SDB.stage]
      exact ⟨hA, StorAbs_set hS c _ _ (view_writes _ _ ws (fun k => Storage.view_new content k))⟩
    · cases ha
  | storageRollback c r => simp [SpecOp] at ho
  | rollback sn => simp [SpecOp] at ho

theorem Abs_runPlain : ∀ (ops : List SDB.Op) (s s' : SDB) (σ : Spec), Abs s σ →
    (∀ o ∈ ops, SpecOp o = true) → runPlain s ops = some s' → Abs s' (Spec.runPlain σ ops) := by
  intro ops
  induction ops with
  | nil =>
    intro s s' σ h _ hr
    simp only [runPlain, Option.some.injEq] at hr
    subst hr; exact h
  | cons o t ih =>
    intro s s' σ h ho hr
    simp only [runPlain] at hr
    split at hr
    · rename_i s1 ha
      simp only [Spec.runPlain, List.foldl_cons]
      exact ih s1 s' (σ.apply o) (Abs_apply h (ho o (by simp)) ha)
        (fun o' ho' => ho o' (List.mem_cons_of_mem _ ho')) hr
    · cases hr

/-- every surviving operation occurs in the history -/
theorem survivorsAux_mem : ∀ (h : List BOp) (live : List SDB.Op) (marks : List Nat) (o : SDB.Op),
    o ∈ (survivorsAux (live, marks) h).1 → o ∈ live ∨ BOp.op o ∈ h := by
  intro h
  induction h with
  | nil => intro live marks o ho; exact Or.inl ho
  | cons x t ih =>
    intro live marks o ho
    cases x with
    | op o' =>
      simp only [survivorsAux] at ho
      rcases ih _ _ o ho with h1 | h1
      · simp only [List.mem_append, List.mem_singleton] at h1
        rcases h1 with h1 | rfl
        · exact Or.inl h1
        · exact Or.inr (by simp)
      · exact Or.inr (List.mem_cons_of_mem _ h1)
    | snap =>
      simp only [survivorsAux] at ho
      rcases ih _ _ o ho with h1 | h1
      · exact Or.inl h1
      · exact Or.inr (List.mem_cons_of_mem _ h1)
    | rollbackTo j =>
      simp only [survivorsAux] at ho
      split at ho
      · rcases ih _ _ o ho with h1 | h1
        · exact Or.inl (List.mem_of_mem_take h1)
        · exact Or.inr (List.mem_cons_of_mem _ h1)
      · rcases ih _ _ o ho with h1 | h1
        · exact Or.inl h1
        · exact Or.inr (List.mem_cons_of_mem _ h1)
    | keep n =>
      simp only [survivorsAux] at ho
      rcases ih _ _ o ho with h1 | h1
      · exact Or.inl h1
      · exact Or.inr (List.mem_cons_of_mem _ h1)

end Aergo.Buffer
