/-
Helper lemmas for the `Buffer` layer (C12): blocks with raw store writes (`SetCode`/`SetRawKV`)
interleaved; what a commit persists.
-/
import Aergo.Lemmas.BufferSpec

namespace Aergo.Buffer

/-- the mutations among a list of surviving block operations -/
def POp.ops : List POp → List SDB.Op
  | [] => []
  | .db (.op o) :: t => o :: POp.ops t
  | _ :: t => POp.ops t

theorem POp.ops_append (a b : List POp) : POp.ops (a ++ b) = POp.ops a ++ POp.ops b := by
  induction a with
  | nil => rfl
  | cons x t ih =>
    cases x with
    | db o => cases o <;> simp [POp.ops, ih]
    | raw x => simp [POp.ops, ih]

theorem POp.ops_take (l : List POp) (m : Nat) :
    POp.ops (l.take m) = (POp.ops l).take (POp.ops (l.take m)).length := by
  have h : POp.ops l = POp.ops (l.take m) ++ POp.ops (l.drop m) := by
    rw [← POp.ops_append, List.take_append_drop]
  rw [h, List.take_left']
  rfl

/-- `marksP` counts positions in the list with raw writes; the corresponding mark without them -/
def POp.markOf (l : List POp) (m : Nat) : Nat := (POp.ops (l.take m)).length

theorem survivorsP_proj : ∀ (h : List POp) (liveP : List POp) (marksP : List Nat),
    marksP.Pairwise (· ≤ ·) → (∀ m ∈ marksP, m ≤ liveP.length) →
    POp.ops (survivorsPAux (liveP, marksP) h).1 =
      (survivorsAux (POp.ops liveP, marksP.map (POp.markOf liveP)) (POp.dbOps h)).1 := by
  intro h
  induction h with
  | nil => intro liveP marksP _ _; rfl
  | cons x t ih =>
    intro liveP marksP hs hb
    have hcongr : ∀ (y : POp), marksP.map (POp.markOf (liveP ++ [y])) = marksP.map (POp.markOf liveP) := by
      intro y
      apply List.map_congr_left
      intro m hm
      simp only [POp.markOf]
      rw [List.take_append_of_le_length (hb m hm)]
    have hb' : ∀ (y : POp), ∀ m ∈ marksP, m ≤ (liveP ++ [y]).length := by
      intro y m hm
      have := hb m hm
      simp only [List.length_append, List.length_singleton]; omega
    cases x with
    | raw x =>
      simp only [survivorsPAux, POp.dbOps]
      rw [ih (liveP ++ [.raw x]) marksP hs (hb' _), hcongr, POp.ops_append]
      simp [POp.ops]
    | db o =>
      cases o with
      | op o =>
        simp only [survivorsPAux, POp.dbOps, survivorsAux]
        rw [ih (liveP ++ [.db (.op o)]) marksP hs (hb' _), hcongr, POp.ops_append]
        simp [POp.ops]
      | snap =>
        simp only [survivorsPAux, POp.dbOps, survivorsAux]
        rw [ih liveP (marksP ++ [liveP.length]) (by
            rw [List.pairwise_append]
            refine ⟨hs, by simp, ?_⟩
            intro a ha b hb''
            simp only [List.mem_singleton] at hb''
            subst hb''
            exact hb a ha) (by
            intro m hm
            simp only [List.mem_append, List.mem_singleton] at hm
            rcases hm with hm | rfl
            · exact hb m hm
            · exact Nat.le_refl _)]
        simp [POp.markOf, List.take_length]
      | rollbackTo j =>
        simp only [survivorsPAux, POp.dbOps, survivorsAux, List.getElem?_map]
        cases hm : marksP[j]? with
        | none => simpa using ih liveP marksP hs hb
        | some m =>
          simp only [Option.map_some]
          have hmem : m ∈ marksP := List.mem_of_getElem? hm
          have hbelow := pw_below_index hs hm
          have hle : ∀ m' ∈ marksP.take (j + 1), m' ≤ m := by
            intro m' hm'
            rcases hbelow m' hm' with rfl | h
            · exact Nat.le_refl _
            · exact h
          rw [ih (liveP.take m) (marksP.take (j + 1)) (List.Pairwise.sublist (List.take_sublist _ _) hs) (by
            intro m' hm'
            rw [List.length_take]
            have := hle m' hm'
            have := hb m hmem
            omega)]
          have h1 : POp.ops (liveP.take m) = (POp.ops liveP).take (POp.markOf liveP m) := POp.ops_take liveP m
          have h2 : (marksP.take (j + 1)).map (POp.markOf (liveP.take m)) =
              (marksP.map (POp.markOf liveP)).take (j + 1) := by
            rw [← List.map_take]
            apply List.map_congr_left
            intro m' hm'
            simp only [POp.markOf]
            rw [List.take_take, Nat.min_eq_left (hle m' hm')]
          rw [h1, h2]
      | keep n =>
        simp only [survivorsPAux, POp.dbOps, survivorsAux]
        rw [ih liveP (marksP.take n) (List.Pairwise.sublist (List.take_sublist _ _) hs)
          (fun m hm => hb m (List.mem_of_mem_take hm)), List.map_take]

theorem POp.dbOps_of_survivors : ∀ (l : List POp),
    (∀ x ∈ l, (∃ o, x = .db (.op o)) ∨ ∃ t, x = .raw t) →
    POp.dbOps l = (POp.ops l).map BOp.op := by
  intro l
  induction l with
  | nil => intro _; rfl
  | cons x t ih =>
    intro hx
    have ht := ih (fun y hy => hx y (List.mem_cons_of_mem _ hy))
    rcases hx x (by simp) with ⟨o, rfl⟩ | ⟨r, rfl⟩
    · simp [POp.dbOps, POp.ops, ht]
    · simp [POp.dbOps, POp.ops, ht]

/-- the surviving list holds only mutations and raw writes, each of which occurs in the history -/
theorem survivorsPAux_mem : ∀ (h : List POp) (liveP : List POp) (marksP : List Nat) (x : POp),
    x ∈ (survivorsPAux (liveP, marksP) h).1 →
    x ∈ liveP ∨ (x ∈ h ∧ ((∃ o, x = .db (.op o)) ∨ ∃ t, x = .raw t)) := by
  intro h
  induction h with
  | nil => intro liveP marksP x hx; exact Or.inl hx
  | cons y t ih =>
    intro liveP marksP x hx
    have lift : (x ∈ t ∧ ((∃ o, x = POp.db (.op o)) ∨ ∃ r, x = POp.raw r)) →
        x ∈ liveP ∨ (x ∈ y :: t ∧ ((∃ o, x = POp.db (.op o)) ∨ ∃ r, x = POp.raw r)) :=
      fun h1 => Or.inr ⟨List.mem_cons_of_mem _ h1.1, h1.2⟩
    cases y with
    | raw r =>
      simp only [survivorsPAux] at hx
      rcases ih _ _ x hx with h1 | h1
      · simp only [List.mem_append, List.mem_singleton] at h1
        rcases h1 with h1 | rfl
        · exact Or.inl h1
        · exact Or.inr ⟨by simp, Or.inr ⟨r, rfl⟩⟩
      · exact lift h1
    | db o =>
      cases o with
      | op o =>
        simp only [survivorsPAux] at hx
        rcases ih _ _ x hx with h1 | h1
        · simp only [List.mem_append, List.mem_singleton] at h1
          rcases h1 with h1 | rfl
          · exact Or.inl h1
          · exact Or.inr ⟨by simp, Or.inl ⟨o, rfl⟩⟩
        · exact lift h1
      | snap =>
        simp only [survivorsPAux] at hx
        rcases ih _ _ x hx with h1 | h1
        · exact Or.inl h1
        · exact lift h1
      | rollbackTo j =>
        simp only [survivorsPAux] at hx
        split at hx
        · rcases ih _ _ x hx with h1 | h1
          · exact Or.inl (List.mem_of_mem_take h1)
          · exact lift h1
        · rcases ih _ _ x hx with h1 | h1
          · exact Or.inl h1
          · exact lift h1
      | keep n =>
        simp only [survivorsPAux] at hx
        rcases ih _ _ x hx with h1 | h1
        · exact Or.inl h1
        · exact lift h1

theorem POp.mem_raws {l : List POp} {t : Nat} : t ∈ POp.raws l ↔ POp.raw t ∈ l := by
  induction l with
  | nil => simp [POp.raws]
  | cons x r ih =>
    cases x with
    | db o => simp [POp.raws, ih]
    | raw y => simp [POp.raws, ih]

/-- every operation that `runB` executed passed the admissibility test -/
theorem runB_admissible : ∀ (h : List BOp) (st r : SDB × List BlockSnap), runB st h = some r →
    ∀ o, BOp.op o ∈ h → BOp.admissible none o = true := by
  intro h
  induction h with
  | nil => intro st r _ o ho; cases ho
  | cons x t ih =>
    intro st r hr o ho
    obtain ⟨s, sn⟩ := st
    cases x with
    | op o' =>
      simp only [runB] at hr
      split at hr
      · rename_i hadm
        split at hr
        · simp only [List.mem_cons, BOp.op.injEq] at ho
          rcases ho with rfl | ho
          · cases o <;> simp_all [BOp.admissible]
          · exact ih _ r hr o ho
        · cases hr
      · cases hr
    | snap =>
      simp only [runB] at hr
      simp only [List.mem_cons, reduceCtorEq, false_or] at ho
      exact ih _ r hr o ho
    | rollbackTo j =>
      simp only [runB] at hr
      simp only [List.mem_cons, reduceCtorEq, false_or] at ho
      split at hr
      · cases hr
      · split at hr
        · exact ih _ r hr o ho
        · cases hr
    | keep n =>
      simp only [runB] at hr
      simp only [List.mem_cons, reduceCtorEq, false_or] at ho
      exact ih _ r hr o ho

/-- a history of mutations only, no snapshot live: `runB` is `runPlain` -/
theorem runB_ops : ∀ (l : List SDB.Op) (s : SDB), (∀ o ∈ l, BOp.admissible none o = true) →
    runB (s, []) (l.map BOp.op) = (runPlain s l).map fun s' => (s', []) := by
  intro l
  induction l with
  | nil => intro s _; rfl
  | cons o t ih =>
    intro s ho
    simp only [List.map_cons, runB, List.getLast?_nil, ho o (by simp), if_true, runPlain]
    cases s.apply o with
    | none => rfl
    | some s' => exact ih s' (fun o' ho' => ho o' (List.mem_cons_of_mem _ ho'))

theorem Storage.hasKey_spec {st : Storage} (h : st.buf.Inv) (k : Nat) :
    st.hasKey k = ((lastWrite st.buf.entries k).isSome || (st.trie.get k).isSome) := by
  simp only [Storage.hasKey, Buf.has_spec h k]

end Aergo.Buffer
