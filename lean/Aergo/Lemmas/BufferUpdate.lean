/-
Helper lemmas for the `Buffer` layer (C12): `StateDB.update` (storage roots into the account
records, account buffer into the account trie).
-/
import Aergo.Lemmas.BufferStore

namespace Aergo.Buffer

theorem Storage.update_flushed {st : Storage} (h : st.buf.Inv) : st.update = some st.flushed := by
  obtain ⟨st', hs, _⟩ := Storage.update_spec h
  simp [Storage.flushed, hs]

theorem Storage.flushed_spec {st : Storage} (h : st.buf.Inv) :
    st.flushed.buf = st.buf ∧ ∀ k, st.flushed.trie.get k = st.view k := by
  obtain ⟨st', hs, hb, hv⟩ := Storage.update_spec h
  have : st.flushed = st' := by simp [Storage.flushed, hs]
  rw [this]; exact ⟨hb, hv⟩

theorem find_none_of_lt {l : List (Nat × Storage)} {c : Nat} (h : ∀ p ∈ l, c < p.1) :
    l.find? (fun p => p.1 = c) = none := by
  rw [List.find?_eq_none]
  intro p hp
  have := h p hp
  simp only [decide_eq_true_eq]
  omega

theorem updateStorageLoop_spec : ∀ (l : List (Nat × Storage)) (s1 : SDB) (done : AMap Storage),
    s1.buf.Inv → l.Pairwise (fun a b => a.1 < b.1) → (∀ p ∈ l, p.2.buf.Inv) →
    ∃ s2, SDB.updateStorageLoop l s1 done =
        some (s2, done ++ l.map fun p => (p.1, p.2.flushed)) ∧
      s2.buf.Inv ∧ s2.trie = s1.trie ∧
      ∀ a, s2.view a = match l.find? (fun p => p.1 = a) with
        | some p => recAfter (s1.view a) p.2
        | none => s1.view a := by
  intro l
  induction l with
  | nil =>
    intro s1 done hi _ _
    exact ⟨s1, by simp [SDB.updateStorageLoop], hi, rfl, fun a => rfl⟩
  | cons q t ih =>
    intro s1 done hi hp hs
    obtain ⟨c, st⟩ := q
    have hst : st.buf.Inv := hs (c, st) (by simp)
    simp only [List.pairwise_cons] at hp
    have hlt : ∀ p ∈ t, c < p.1 := fun p hp' => hp.1 p hp'
    have hs' : ∀ p ∈ t, p.2.buf.Inv := fun p hp' => hs p (List.mem_cons_of_mem _ hp')
    simp only [SDB.updateStorageLoop, Storage.update_flushed hst]
    by_cases hd : st.flushed.dirty = true
    · have step : ∀ v : AVal, some v = recAfter (s1.view c) st →
          ∃ s2, SDB.updateStorageLoop t (s1.putState c v) (done ++ [(c, st.flushed)]) =
              some (s2, done ++ ((c, st) :: t).map fun p => (p.1, p.2.flushed)) ∧
            s2.buf.Inv ∧ s2.trie = s1.trie ∧
            ∀ a, s2.view a = match ((c, st) :: t).find? (fun p => p.1 = a) with
              | some p => recAfter (s1.view a) p.2
              | none => s1.view a := by
        intro v hv
        obtain ⟨s2, e1, e2, e3, e4⟩ := ih (s1.putState c v) (done ++ [(c, st.flushed)])
          (Buf.Inv_put hi c v) hp.2 hs'
        refine ⟨s2, ?_, e2, e3, ?_⟩
        · rw [e1]; simp
        · intro a
          rw [e4 a]
          by_cases hca : c = a
          · subst hca
            rw [find_none_of_lt hlt]
            simp only [List.find?, decide_true, SDB.view_putState, if_true]
            exact hv
          · simp only [List.find?, hca, decide_false, SDB.view_putState, if_false]
      simp only [hd, if_true, SDB.getState_spec hi c]
      cases hvw : s1.view c with
      | none => exact step _ (by simp [recAfter, hd, hvw, emptyRec])
      | some v0 => exact step _ (by simp [recAfter, hd, hvw])
    · have hd' : st.flushed.dirty = false := by simpa using hd
      simp only [hd', Bool.false_eq_true, if_false]
      obtain ⟨s2, e1, e2, e3, e4⟩ := ih s1 (done ++ [(c, st.flushed)]) hi hp.2 hs'
      refine ⟨s2, ?_, e2, e3, ?_⟩
      · rw [e1]; simp
      · intro a
        rw [e4 a]
        by_cases hca : c = a
        · subst hca
          rw [find_none_of_lt hlt]
          simp [List.find?, recAfter, hd']
        · simp only [List.find?, hca, decide_false]

/-- folding `set` over a batch with distinct ascending keys -/
theorem foldl_set_get {β : Type} (batch : List (Nat × β)) (hb : batch.Pairwise (fun x y => x.1 < y.1))
    (t : AMap β) (k : Nat) :
    (batch.foldl (fun t e => t.set e.1 e.2) t).get k =
      match batch.find? (fun e => e.1 = k) with
      | some e => some e.2
      | none => t.get k := by
  induction batch generalizing t with
  | nil => rfl
  | cons e r ih =>
    obtain ⟨k0, w⟩ := e
    simp only [List.pairwise_cons] at hb
    simp only [List.foldl_cons, List.find?]
    rw [ih hb.2]
    by_cases hk : k0 = k
    · subst hk
      have : r.find? (fun e => e.1 = k0) = none := by
        rw [List.find?_eq_none]
        intro x hx
        have := hb.1 x hx
        simp only [decide_eq_true_eq]
        omega
      simp [this, AMap.get_set]
    · simp only [hk, decide_false, AMap.get_set, if_false]

theorem find_cache {m : AMap Storage} (hw : AMap.WF m) (a : Nat) :
    (m.find? (fun p => p.1 = a)) = (m.get a).map fun st => (a, st) := by
  induction m with
  | nil => rfl
  | cons p t ih =>
    obtain ⟨c, st⟩ := p
    simp only [List.find?, AMap.get_cons]
    by_cases hca : c = a
    · subst hca; simp
    · simp only [hca, decide_false, if_false]
      exact ih (AMap.WF_tail hw)

/-- `StateDB.update`, specified. -/
theorem SDB.update_spec {s : SDB} (h : s.Inv) :
    ∃ s', s.update = some s' ∧
      (∀ c, s'.cache.get c = (s.cache.get c).map Storage.flushed) ∧
      (∀ a, s'.view a = match s.cache.get a with
        | some st => recAfter (s.view a) st
        | none => s.view a) ∧
      (∀ a, s'.trie.get a = s'.view a) := by
  obtain ⟨s2, e1, e2, e3, e4⟩ := updateStorageLoop_spec s.cache s [] h.buf h.wf h.sto
  obtain ⟨batch, hb1, hb2, hb3⟩ := Buf.export_spec e2
  have hview : ∀ a, (batch.foldl (fun t e => t.set e.1 e.2) s2.trie).get a = s2.view a := by
    intro a
    rw [foldl_set_get batch hb2]
    have := find_of_export hb3 a
    simp only [SDB.view, ← this]
    cases batch.find? (fun e => decide (e.1 = a)) <;> rfl
  obtain ⟨s', hu, hbuf, hcache, htrie⟩ : ∃ s', s.update = some s' ∧ s'.buf = s2.buf ∧
      s'.cache = (s.cache.map fun p => (p.1, p.2.flushed)) ∧
      s'.trie = batch.foldl (fun t e => t.set e.1 e.2) s2.trie :=
    ⟨{ buf := s2.buf, cache := [] ++ s.cache.map (fun p => (p.1, p.2.flushed)),
       trie := batch.foldl (fun t e => t.set e.1 e.2) s2.trie },
      by simp only [SDB.update, e1, hb1], rfl, by simp, rfl⟩
  have hv : ∀ a, s'.view a = s2.view a := by
    intro a
    simp only [SDB.view, hbuf, htrie]
    cases hl : lastWrite s2.buf.entries a with
    | some v => rfl
    | none =>
      have := hview a
      simp only [SDB.view, hl] at this
      exact this
  refine ⟨s', hu, ?_, ?_, ?_⟩
  · intro c
    rw [hcache]
    exact AMap.get_map_snd Storage.flushed s.cache c
  · intro a
    rw [hv a, e4 a, find_cache h.wf a]
    cases s.cache.get a <;> rfl
  · intro a
    rw [hv a, htrie]
    exact hview a

end Aergo.Buffer
