import Aergo.Model.Chain

/-! Specification vocabulary, invariant and helper lemmas for the `Chain` layer (C05, C07). Core only. -/

namespace Aergo.Chain

@[simp] theorem upd_same {β : Type} (f : Nat → β) (k : Nat) (v : β) : upd f k v k = v := by simp [upd]

theorem upd_other {β : Type} (f : Nat → β) {k x : Nat} (v : β) (h : x ≠ k) : upd f k v x = f x := by simp [upd, h]

theorem upd_apply {β : Type} (f : Nat → β) (k x : Nat) (v : β) : upd f k v x = if x = k then v else f x := rfl

/-! ### tx index of one block -/

theorem addTxsFrom_not_mem (id : Nat) (l : List Nat) (k : Nat) (f : Nat → Option (Nat × Nat)) (t : Nat) (h : t ∉ l) :
    addTxsFrom id l k f t = f t := by
  induction l generalizing k f with
  | nil => rfl
  | cons a l ih =>
    simp only [List.mem_cons, not_or] at h
    simp only [addTxsFrom]
    rw [ih _ _ h.2, upd_other _ _ h.1]

theorem addTxsFrom_nodup (id : Nat) (l : List Nat) (k : Nat) (f : Nat → Option (Nat × Nat)) (hn : l.Nodup)
    (i : Nat) (hi : i < l.length) : addTxsFrom id l k f l[i] = some (id, k + i) := by
  induction l generalizing k f i with
  | nil => simp at hi
  | cons a l ih =>
    simp only [List.nodup_cons] at hn
    simp only [addTxsFrom]
    cases i with
    | zero => simp only [List.getElem_cons_zero]; rw [addTxsFrom_not_mem _ _ _ _ _ hn.1]; simp
    | succ j =>
      simp only [List.getElem_cons_succ]
      have := ih (k + 1) (upd f a (some (id, k))) hn.2 j (by simpa using hi)
      rw [this]; congr 2; omega

/-- Every entry after `addTxsFrom` is either the old one or points into the list at a position holding the key. -/
theorem addTxsFrom_cases (id : Nat) (l : List Nat) (k : Nat) (f : Nat → Option (Nat × Nat)) (t : Nat) :
    addTxsFrom id l k f t = f t ∨ ∃ i, ∃ h : i < l.length, l[i] = t ∧ addTxsFrom id l k f t = some (id, k + i) := by
  induction l generalizing k f with
  | nil => left; rfl
  | cons a l ih =>
    simp only [addTxsFrom]
    rcases ih (k + 1) (upd f a (some (id, k))) with h | ⟨i, hi, h1, h2⟩
    · by_cases hta : t = a
      · right; refine ⟨0, by simp, by simp [hta], ?_⟩
        rw [h, hta]; simp
      · left; rw [h, upd_other _ _ hta]
    · right; refine ⟨i + 1, by simpa using hi, by simpa using h1, ?_⟩
      rw [h2]; congr 2; omega


/-! ### vocabulary -/

/-- What the theorems assume about the abstract execution: a ghost function `txsOf` gives the transaction hashes a
state root has already executed; a block executes only if it is duplicate-free and none of its transactions was
executed before (what the nonce rule gives, C04), and the result remembers them. -/
structure ExecLaw (exec : Nat → Block → Option Nat) (txsOf : Nat → List Nat) : Prop where
  fresh : ∀ r b r', exec r b = some r' → ∀ t ∈ b.txs, t ∉ txsOf r
  nodup : ∀ r b r', exec r b = some r' → b.txs.Nodup
  grows : ∀ r b r', exec r b = some r' → ∀ t, (t ∈ txsOf r ∨ t ∈ b.txs) → t ∈ txsOf r'

/-- The identifier of a block is honest with respect to `U` ("the block with this identifier"): what a
collision-free digest of the content gives. A forged copy carrying another block's identifier is not. -/
def UKeyed (U : Nat → Option Block) : Prop := ∀ i b, U i = some b → b.id = i

/-- `b` is the main-chain block at its height. -/
def onMain (N : Node) (b : Block) : Prop := N.byNo b.no = some b.id ∧ N.blocks b.id = some b

/-- The chain-database invariant (DESIGN §4 C05): clauses (1)–(6) plus what the induction needs. -/
structure Inv (exec : Nat → Block → Option Nat) (txsOf : Nat → List Nat) (U : Nat → Option Block) (g : Block)
    (N : Node) : Prop where
  /-- stored blocks are the blocks their identifiers name -/
  inU : ∀ i b, N.blocks i = some b → U i = some b
  poolU : ∀ e ∈ N.orphans, U e.2.id = some e.2 ∧ e.2.parent = e.1
  /-- (1) the cached best block is the main-chain block at the latest height … -/
  best_main : onMain N N.best
  best_no : N.best.no = N.latest
  /-- (1)+(2) … every height up to it holds a stored block of that height whose parent is the block one below, -/
  chain : ∀ h, h ≤ N.latest → ∃ b, onMain N b ∧ b.no = h ∧ (0 < h → N.byNo (h - 1) = some b.parent)
  /-- (2) nothing above, -/
  above : ∀ h, N.latest < h → N.byNo h = none
  /-- (1) and height 0 is genesis. -/
  gen : onMain N g ∧ g.no = 0
  /-- the main chain has been executed block by block (state = execution of the branch) -/
  executed : ∀ b p, onMain N b → onMain N p → p.no + 1 = b.no → exec p.claimed b = some b.claimed
  ghost : ∀ b b', onMain N b → onMain N b' → b'.no ≤ b.no → 0 < b'.no → ∀ t ∈ b'.txs, t ∈ txsOf b.claimed
  /-- (3) every transaction of a main-chain block is indexed at its block and position, -/
  txfound : ∀ b, onMain N b → 0 < b.no → ∀ i (h : i < b.txs.length), N.txIdx b.txs[i] = some (b.id, i)
  /-- (3) and every index entry points at a stored block holding that transaction at that position. -/
  txsound : ∀ t bid i, N.txIdx t = some (bid, i) → ∃ b, N.blocks bid = some b ∧ ∃ h : i < b.txs.length, b.txs[i] = t
  /-- (4) receipts exist for every main-chain block with transactions -/
  rcpt : ∀ b, onMain N b → 0 < b.no → b.txs ≠ [] → N.rcpt b.id b.no = true
  /-- (5) the state root is the best block's root -/
  root : N.sdbRoot = N.best.claimed
  /-- (6) no reorganisation marker -/
  marker : N.marker = none
  /-- (1) the persisted latest pointer is the cached one -/
  lkey : N.latestKey = N.latest

section
variable {exec : Nat → Block → Option Nat} {txsOf : Nat → List Nat} {U : Nat → Option Block} {g : Block}

theorem Inv.keyed (hU : UKeyed U) {N : Node} (h : Inv exec txsOf U g N) {i : Nat} {b : Block} (hb : N.blocks i = some b) :
    b.id = i := hU _ _ (h.inU _ _ hb)

theorem onMain_no_le {N : Node} (h : Inv exec txsOf U g N) {b : Block} (hb : onMain N b) : b.no ≤ N.latest := by
  refine Nat.le_of_not_lt fun hlt => ?_
  have := h.above _ hlt
  rw [hb.1] at this; cases this

/-- Two main-chain blocks of the same height are the same block. -/
theorem onMain_inj {N : Node} {b c : Block} (hb : onMain N b) (hc : onMain N c) (hn : b.no = c.no) : b = c := by
  have h1 := hb.1; rw [hn, hc.1] at h1
  have hid : c.id = b.id := by injection h1
  have h2 := hc.2; rw [hid, hb.2] at h2
  injection h2

/-- Frame rule: a step that only adds block records (all honest), changes the pools, adds receipts, sends messages,
keeps everything else, preserves the invariant. -/
theorem Inv.frame {N N' : Node} (h : Inv exec txsOf U g N)
    (hb : ∀ i b, N.blocks i = some b → N'.blocks i = some b)
    (hbU : ∀ i b, N'.blocks i = some b → U i = some b)
    (hpool : ∀ e ∈ N'.orphans, U e.2.id = some e.2 ∧ e.2.parent = e.1)
    (hbyNo : N'.byNo = N.byNo) (hlatest : N'.latest = N.latest) (hbest : N'.best = N.best)
    (htx : N'.txIdx = N.txIdx) (hr : ∀ i n, N.rcpt i n = true → N'.rcpt i n = true)
    (hroot : N'.sdbRoot = N.sdbRoot) (hmarker : N'.marker = N.marker)
    (hlk : N'.latestKey = N.latestKey := by rfl) : Inv exec txsOf U g N' := by
  have up : ∀ x, onMain N x → onMain N' x := fun x hx => ⟨by rw [hbyNo]; exact hx.1, hb _ _ hx.2⟩
  have down : ∀ x, onMain N' x → onMain N x := by
    intro x hx
    have h1 : N.byNo x.no = some x.id := by rw [← hbyNo]; exact hx.1
    have hle : x.no ≤ N.latest := by
      refine Nat.le_of_not_lt fun hlt => ?_
      have := h.above _ hlt; rw [h1] at this; cases this
    obtain ⟨c, hc, hcn, _⟩ := h.chain _ hle
    have hcid : c.id = x.id := by have := hc.1; rw [hcn, h1] at this; injection this with this; exact this.symm
    have := hb _ _ hc.2; rw [hcid, hx.2] at this; injection this with this
    rw [this]; exact hc
  refine ⟨hbU, hpool, ?_, ?_, ?_, ?_, ?_, ?_, ?_, ?_, ?_, ?_, ?_, ?_, by rw [hlk, hlatest]; exact h.lkey⟩
  · rw [hbest]; exact up _ h.best_main
  · rw [hbest, hlatest]; exact h.best_no
  · intro k hk
    rw [hlatest] at hk
    obtain ⟨c, hc, hcn, hp⟩ := h.chain _ hk
    exact ⟨c, up _ hc, hcn, by rw [hbyNo]; exact hp⟩
  · intro k hk; rw [hbyNo]; rw [hlatest] at hk; exact h.above _ hk
  · exact ⟨up _ h.gen.1, h.gen.2⟩
  · intro b p hb' hp hn; exact h.executed b p (down _ hb') (down _ hp) hn
  · intro b b' hb' hb'' hle hpos; exact h.ghost b b' (down _ hb') (down _ hb'') hle hpos
  · intro b hb' hpos i hi; rw [htx]; exact h.txfound b (down _ hb') hpos i hi
  · intro t bid i ht; rw [htx] at ht
    obtain ⟨b, hb1, hb2⟩ := h.txsound t bid i ht
    exact ⟨b, hb _ _ hb1, hb2⟩
  · intro b hb' hpos hne; exact hr _ _ (h.rcpt b (down _ hb') hpos hne)
  · rw [hroot, hbest]; exact h.root
  · rw [hmarker]; exact h.marker

/-- `failNote` only sends a message. -/
theorem failNote_out (N : Node) (b : Block) :
    failNote N b = N ∨ failNote N b = { N with out := N.out ++ [Msg.upd N.best.id] } := by
  unfold failNote; split
  · right; rfl
  · left; rfl

theorem failNote_fields (N : Node) (b : Block) :
    (failNote N b).blocks = N.blocks ∧ (failNote N b).byNo = N.byNo ∧ (failNote N b).latest = N.latest ∧
    (failNote N b).best = N.best ∧ (failNote N b).txIdx = N.txIdx ∧ (failNote N b).rcpt = N.rcpt ∧
    (failNote N b).marker = N.marker ∧ (failNote N b).sdbRoot = N.sdbRoot ∧ (failNote N b).orphans = N.orphans ∧
    (failNote N b).latestKey = N.latestKey ∧ (failNote N b).lib = N.lib ∧ (failNote N b).bad = N.bad ∧
    (failNote N b).badCap = N.badCap ∧ (failNote N b).orphanCap = N.orphanCap := by
  rcases failNote_out N b with h | h <;> rw [h] <;> simp

/-- The invariant on a fresh node (genesis block only, any pool capacities). -/
theorem Inv.init (hg0 : g.no = 0) (hgU : U g.id = some g) (oc bc : Nat) :
    Inv exec txsOf U g (genesis g oc bc) := by
  have hbl : ∀ i b, (genesis g oc bc).blocks i = some b → i = g.id ∧ b = g := by
    intro i b hb
    simp only [genesis, upd_apply] at hb
    split at hb
    · next hi => injection hb with hb; exact ⟨hi, hb.symm⟩
    · cases hb
  have hby : ∀ k i, (genesis g oc bc).byNo k = some i → k = 0 := by
    intro k i hk
    simp only [genesis, upd_apply] at hk
    split at hk
    · assumption
    · cases hk
  have hgm : onMain (genesis g oc bc) g := ⟨by simp [genesis, hg0], by simp [genesis]⟩
  have only : ∀ x, onMain (genesis g oc bc) x → x = g := fun x hx => (hbl _ _ hx.2).2
  refine ⟨?_, ?_, hgm, hg0, ?_, ?_, ⟨hgm, hg0⟩, ?_, ?_, ?_, ?_, ?_, rfl, rfl, rfl⟩
  · intro i b hb; obtain ⟨rfl, rfl⟩ := hbl i b hb; exact hgU
  · intro e he; cases he
  · intro k hk
    have : k = 0 := by simpa [genesis] using hk
    subst this
    exact ⟨g, hgm, hg0, fun h => absurd h (Nat.lt_irrefl 0)⟩
  · intro k hk
    simp only [genesis] at hk ⊢
    exact upd_other _ _ (by omega)
  · intro b p hb hp hn; rw [only b hb, only p hp] at hn; omega
  · intro b b' _ hb' _ hpos; rw [only b' hb', hg0] at hpos; omega
  · intro b hb hpos; rw [only b hb, hg0] at hpos; omega
  · intro t bid i ht; simp [genesis] at ht
  · intro b hb hpos; rw [only b hb, hg0] at hpos; omega

/-- Steps that leave the chain DB, the state root and the orphan pool alone. -/
theorem Inv.same {N N' : Node} (h : Inv exec txsOf U g N) (e1 : N'.blocks = N.blocks) (e2 : N'.byNo = N.byNo)
    (e3 : N'.latest = N.latest) (e4 : N'.best = N.best) (e5 : N'.txIdx = N.txIdx) (e6 : N'.rcpt = N.rcpt)
    (e7 : N'.marker = N.marker) (e8 : N'.sdbRoot = N.sdbRoot) (e9 : N'.orphans = N.orphans)
    (e10 : N'.latestKey = N.latestKey := by rfl) : Inv exec txsOf U g N' :=
  Inv.frame h (fun i b hb => by rw [e1]; exact hb) (fun i b hb => by rw [e1] at hb; exact h.inU _ _ hb)
    (by rw [e9]; exact h.poolU) e2 e3 e4 e5 (fun i n hr => by rw [e6]; exact hr) e8 e7 e10

theorem Inv.failNote {N : Node} (h : Inv exec txsOf U g N) (b : Block) : Inv exec txsOf U g (Aergo.Chain.failNote N b) := by
  obtain ⟨a1, a2, a3, a4, a5, a6, a7, a8, a9, a10, _⟩ := failNote_fields N b
  exact Inv.same h a1 a2 a3 a4 a5 a6 a7 a8 a9 a10

/-- Connecting an executed child of the best block (`chainProcessor.execute`: `executeBlock` + `connectToChain`). -/
theorem Inv.connect (hE : ExecLaw exec txsOf) {N N' : Node} (h : Inv exec txsOf U g N) {b : Block}
    (hbU : U b.id = some b) (hpar : N.byNo N.latest = some b.parent) (hno : b.no = N.latest + 1)
    (hex : exec N.sdbRoot b = some b.claimed)
    (e_blocks : N'.blocks = upd N.blocks b.id (some b)) (e_byNo : N'.byNo = upd N.byNo b.no (some b.id))
    (e_latest : N'.latest = b.no) (e_best : N'.best = b) (e_tx : N'.txIdx = addTxs N.txIdx b)
    (r1 : ∀ i n, N.rcpt i n = true → N'.rcpt i n = true) (r2 : b.txs ≠ [] → N'.rcpt b.id b.no = true)
    (e_root : N'.sdbRoot = b.claimed) (e_marker : N'.marker = N.marker) (e_orph : N'.orphans = N.orphans)
    (e_lk : N'.latestKey = b.no := by rfl) :
    Inv exec txsOf U g N' := by
  have mono : ∀ i c, N.blocks i = some c → N'.blocks i = some c := by
    intro i c hc
    rw [e_blocks, upd_apply]
    split
    · next hi => subst hi; have := h.inU _ _ hc; rw [hbU] at this; exact this.symm ▸ rfl
    · exact hc
  have hbst : N'.blocks b.id = some b := by rw [e_blocks]; simp
  have hbyb : N'.byNo b.no = some b.id := by rw [e_byNo]; simp
  have byOld : ∀ k, k ≠ b.no → N'.byNo k = N.byNo k := fun k hk => by rw [e_byNo, upd_other _ _ hk]
  have up : ∀ x, onMain N x → onMain N' x := by
    intro x hx
    have := onMain_no_le h hx
    exact ⟨by rw [byOld _ (by omega)]; exact hx.1, mono _ _ hx.2⟩
  have down : ∀ x, onMain N' x → x = b ∨ onMain N x := by
    intro x hx
    by_cases hxn : x.no = b.no
    · left
      have h1 := hx.1; rw [hxn, hbyb] at h1
      have hid : b.id = x.id := by injection h1
      have h2 := hx.2; rw [← hid, hbst] at h2; injection h2 with h2; exact h2.symm
    · right
      have h1 : N.byNo x.no = some x.id := by rw [← byOld _ hxn]; exact hx.1
      have hle : x.no ≤ N.latest := by
        refine Nat.le_of_not_lt fun hlt => ?_
        have := h.above _ hlt; rw [h1] at this; cases this
      obtain ⟨c, hc, hcn, _⟩ := h.chain _ hle
      have hcid : c.id = x.id := by have := hc.1; rw [hcn, h1] at this; injection this with this; exact this.symm
      have := mono _ _ hc.2; rw [hcid, hx.2] at this; injection this with this
      rw [this]; exact hc
  have hbm : onMain N' b := ⟨hbyb, hbst⟩
  have hbest : N.byNo N.best.no = some N.best.id := h.best_main.1
  have hroot : N.sdbRoot = N.best.claimed := h.root
  have oldNo : ∀ x, onMain N x → x.no < b.no := fun x hx => by have := onMain_no_le h hx; omega
  refine ⟨?_, ?_, ?_, ?_, ?_, ?_, ?_, ?_, ?_, ?_, ?_, ?_, ?_, ?_, by rw [e_lk, e_latest]⟩
  · intro i c hc
    rw [e_blocks, upd_apply] at hc
    split at hc
    · next hi => subst hi; injection hc with hc; subst hc; exact hbU
    · exact h.inU _ _ hc
  · rw [e_orph]; exact h.poolU
  · rw [e_best]; exact hbm
  · rw [e_best, e_latest]
  · intro k hk
    rw [e_latest] at hk
    by_cases hkb : k = b.no
    · subst hkb
      refine ⟨b, hbm, rfl, fun _ => ?_⟩
      rw [byOld _ (by omega)]
      have : b.no - 1 = N.latest := by omega
      rw [this]; exact hpar
    · obtain ⟨c, hc, hcn, hp⟩ := h.chain k (by omega)
      exact ⟨c, up _ hc, hcn, fun hpos => by rw [byOld _ (by omega)]; exact hp hpos⟩
  · intro k hk; rw [e_latest] at hk; rw [byOld _ (by omega)]; exact h.above _ (by omega)
  · exact ⟨up _ h.gen.1, h.gen.2⟩
  · intro c p hc hp hn
    rcases down _ hc with rfl | hc'
    · rcases down _ hp with rfl | hp'
      · omega
      · have : p = N.best := onMain_inj hp' h.best_main (by rw [h.best_no]; omega)
        subst this; rw [← hroot]; exact hex
    · rcases down _ hp with rfl | hp'
      · have := oldNo _ hc'; omega
      · exact h.executed c p hc' hp' hn
  · intro c c' hc hc' hle hpos t ht
    rcases down _ hc with rfl | hcm
    · rcases down _ hc' with rfl | hcm'
      · exact hE.grows _ _ _ hex t (Or.inr ht)
      · refine hE.grows _ _ _ hex t (Or.inl ?_)
        rw [hroot]
        exact h.ghost _ _ h.best_main hcm' (by rw [h.best_no]; exact onMain_no_le h hcm') hpos t ht
    · rcases down _ hc' with rfl | hcm'
      · have := oldNo _ hcm; omega
      · exact h.ghost c c' hcm hcm' hle hpos t ht
  · intro c hc hpos i hi
    rw [e_tx]
    rcases down _ hc with rfl | hcm
    · have := addTxsFrom_nodup c.id c.txs 0 N.txIdx (hE.nodup _ _ _ hex) i hi
      simpa [addTxs] using this
    · have hin : c.txs[i] ∈ txsOf N.sdbRoot := by
        rw [hroot]
        exact h.ghost _ _ h.best_main hcm (by rw [h.best_no]; exact onMain_no_le h hcm) hpos _ (List.getElem_mem hi)
      have hnot : c.txs[i] ∉ b.txs := fun hmem => hE.fresh _ _ _ hex _ hmem hin
      simp only [addTxs]; rw [addTxsFrom_not_mem _ _ _ _ _ hnot]
      exact h.txfound c hcm hpos i hi
  · intro t bid i ht
    rw [e_tx] at ht
    simp only [addTxs] at ht
    rcases addTxsFrom_cases b.id b.txs 0 N.txIdx t with heq | ⟨j, hj, hjt, heq⟩
    · rw [heq] at ht
      obtain ⟨c, hc1, hc2⟩ := h.txsound t bid i ht
      exact ⟨c, mono _ _ hc1, hc2⟩
    · rw [heq] at ht; injection ht with ht; injection ht with h1 h2
      subst h1; refine ⟨b, hbst, ?_⟩
      have : j = i := by omega
      subst this; exact ⟨hj, hjt⟩
  · intro c hc hpos hne
    rcases down _ hc with rfl | hcm
    · exact r2 hne
    · exact r1 _ _ (h.rcpt c hcm hpos hne)
  · rw [e_root, e_best]
  · rw [e_marker]; exact h.marker

/-- What a successful `executeBlock` is. -/
theorem executeBlock_some {N N1 : Node} {b : Block} (he : executeBlock exec N b = some N1) :
    exec N.sdbRoot b = some b.claimed ∧ b.consOk = true ∧
    N1 = { N with sdbRoot := b.claimed,
                  rcpt := if b.txs.isEmpty then N.rcpt else fun i n => if i = b.id ∧ n = b.no then true else N.rcpt i n,
                  out := N.out ++ [Msg.del b.id, Msg.upd b.id] } := by
  unfold executeBlock at he
  split at he
  · cases he
  · next hc =>
    split at he
    · cases he
    · next r hr =>
      split at he
      · cases he
      · next hne =>
        have hrc : r = b.claimed := by simpa using hne
        subst hrc
        injection he with he
        exact ⟨hr, by simpa using hc, he.symm⟩

theorem executeBlock_rcpt_mono {N N1 : Node} {b : Block} (he : executeBlock exec N b = some N1) (i n : Nat)
    (h : N.rcpt i n = true) : N1.rcpt i n = true := by
  obtain ⟨_, _, rfl⟩ := executeBlock_some he
  simp only
  split
  · exact h
  · simp only; split <;> simp_all

theorem executeBlock_rcpt_self {N N1 : Node} {b : Block} (he : executeBlock exec N b = some N1) (hne : b.txs ≠ []) :
    N1.rcpt b.id b.no = true := by
  obtain ⟨_, _, rfl⟩ := executeBlock_some he
  have : b.txs.isEmpty = false := by simpa using hne
  simp [this]

theorem Inv.execute (hE : ExecLaw exec txsOf) {N N' : Node} (h : Inv exec txsOf U g N) {b : Block}
    (hbU : U b.id = some b) (hpar : N.byNo N.latest = some b.parent) (hno : b.no = N.latest + 1)
    (he : Aergo.Chain.execute exec N b = some N') : Inv exec txsOf U g N' := by
  unfold Aergo.Chain.execute at he
  split at he
  · cases he
  · next N1 h1 =>
    injection he with he
    obtain ⟨hex, _, hN1⟩ := executeBlock_some h1
    have r1 := executeBlock_rcpt_mono h1
    have r2 := executeBlock_rcpt_self h1
    subst he
    refine Inv.connect hE h hbU hpar hno hex ?_ ?_ ?_ ?_ ?_ r1 r2 ?_ ?_ ?_ <;> simp [Aergo.Chain.connect, hN1]

theorem Inv.storeSide {N : Node} (h : Inv exec txsOf U g N) {b : Block} (hbU : U b.id = some b) :
    Inv exec txsOf U g (Aergo.Chain.storeSide N b) := by
  refine Inv.frame h ?_ ?_ h.poolU rfl rfl rfl rfl (fun _ _ h => h) rfl rfl
  · intro i c hc
    simp only [Aergo.Chain.storeSide, upd_apply]
    split
    · next hi => subst hi; have := h.inU _ _ hc; rw [hbU] at this; exact this.symm ▸ rfl
    · exact hc
  · intro i c hc
    simp only [Aergo.Chain.storeSide, upd_apply] at hc
    split at hc
    · next hi => subst hi; injection hc with hc; subst hc; exact hbU
    · exact h.inU _ _ hc

theorem find_mem {α : Type} {p : α → Bool} {l : List α} {a : α} (h : l.find? p = some a) : a ∈ l ∧ p a = true :=
  ⟨List.mem_of_find?_eq_some h, List.find?_some h⟩

/-- The `run` loop of the chain processor preserves the invariant (any fuel). -/
theorem Inv.runLoop (hE : ExecLaw exec txsOf) (main : Bool) (fuel : Nat) :
    ∀ (N : Node) (blk : Block) (last : Option Block), Inv exec txsOf U g N → U blk.id = some blk →
      (main = true → N.byNo N.latest = some blk.parent ∧ blk.no = N.latest + 1) →
      Inv exec txsOf U g (runLoop exec main fuel N blk last).2.1 := by
  induction fuel with
  | zero => intro N blk last h _ _; exact h
  | succ fuel ih =>
    intro N blk last h hbU hm
    simp only [Aergo.Chain.runLoop]
    split
    · exact Inv.failNote h blk
    · next N1 hap =>
      have h1 : Inv exec txsOf U g N1 := by
        unfold Aergo.Chain.apply at hap
        split at hap
        · next hmain => exact Inv.execute hE h hbU (hm hmain).1 (hm hmain).2 hap
        · injection hap with hap; subst hap; exact Inv.storeSide h hbU
      split
      · exact h1
      · next p o hf =>
        obtain ⟨hmem, hkey⟩ := find_mem hf
        have hp := h1.poolU _ hmem
        split
        · exact h1
        · next hno =>
          have hno' : blk.no + 1 = o.no := by simpa using hno
          have hkey' : p = blk.id := by simpa using hkey
          have hop : o.parent = blk.id := by have := hp.2; simp only at this; rw [this]; exact hkey'
          apply ih
          · refine Inv.frame h1 (fun _ _ h => h) h1.inU ?_ rfl rfl rfl rfl (fun _ _ h => h) rfl rfl
            intro e he
            exact h1.poolU e (List.mem_filter.mp he).1
          · exact hp.1
          · intro hmain
            subst hmain
            -- after `execute`, the tip is `blk`
            unfold Aergo.Chain.apply at hap
            simp only [if_true] at hap
            unfold Aergo.Chain.execute at hap
            split at hap
            · cases hap
            · next N0 _ =>
              injection hap with hap; subst hap
              refine ⟨?_, hno'.symm⟩
              show upd N0.byNo blk.no (some blk.id) blk.no = some o.parent
              rw [upd_same, hop]

/-! ### reorganisation: what `gather` finds -/

/-- `l` is a parent-linked chain of consecutive heights starting right above `p` (lowest first). -/
def Asc (p : Block) : List Block → Prop
  | [] => True
  | x :: l => x.parent = p.id ∧ x.no = p.no + 1 ∧ Asc x l

/-- What `gather` returns, in terms of the node it ran on. -/
structure GatherSpec (N : Node) (top : Block) (gt : Gather) : Prop where
  start_main : onMain N gt.brStart
  start_lt : gt.brStart.no < N.latest
  new_ne : gt.newB ≠ []
  new_top : gt.newB.head? = some top
  new_asc : Asc gt.brStart gt.newB.reverse
  new_stored : ∀ x ∈ gt.newB, N.blocks x.id = some x ∧ ¬ onMain N x
  old_set : ∀ x, x ∈ gt.oldB ↔ (onMain N x ∧ gt.brStart.no < x.no)

theorem blockByNo_main {N : Node} (h : Inv exec txsOf U g N) {k : Nat} {m : Block}
    (hk : k ≤ N.latest) (hm : blockByNo N k = some m) : onMain N m ∧ m.no = k := by
  obtain ⟨c, hc, hcn, _⟩ := h.chain k hk
  unfold blockByNo at hm
  rw [← hcn, hc.1] at hm
  simp only [Option.bind] at hm
  rw [hc.2] at hm; injection hm with hm; subst hm
  exact ⟨hc, hcn⟩

theorem gatherLoop_spec (hU : UKeyed U) {N : Node} (h : Inv exec txsOf U g N) (top : Block) {gt : Gather} :
    ∀ (fuel : Nat) (br : Block) (old new : List Block),
      N.blocks br.id = some br → Asc br new.reverse →
      (∀ x ∈ new, N.blocks x.id = some x ∧ ¬ onMain N x) →
      (new = [] → br = top) → (new ≠ [] → new.head? = some top) →
      (∀ x, x ∈ old ↔ (onMain N x ∧ br.no < x.no)) →
      gatherLoop N fuel br old new = some gt → GatherSpec N top gt := by
  intro fuel
  induction fuel with
  | zero => intro br old new _ _ _ _ _ _ hg; simp [gatherLoop] at hg
  | succ fuel ih =>
    intro br old new hbr hasc hnew htop1 htop2 hold hg
    -- the common "walk down" step
    have down : ∀ old', (br.no ≠ 0 → ∀ x, x ∈ old' ↔ (onMain N x ∧ br.no - 1 < x.no)) → ¬ onMain N br →
        (if br.no = 0 then none
         else match N.blocks br.parent with
           | none => none
           | some p => if br.no - 1 ≠ p.no then none else gatherLoop N fuel p old' (new ++ [br])) = some gt →
        GatherSpec N top gt := by
      intro old' hold' hnm hd
      split at hd
      · cases hd
      · next hno =>
        split at hd
        · cases hd
        · next p hp =>
          split at hd
          · cases hd
          · next hpn =>
            have hpn' : br.no - 1 = p.no := by simpa using hpn
            have hpid : p.id = br.parent := Inv.keyed hU h hp
            refine ih p old' (new ++ [br]) (by rw [hpid]; exact hp) ?_ ?_ ?_ ?_ ?_ hd
            · simp only [List.reverse_append, List.reverse_cons, List.reverse_nil, List.nil_append, List.singleton_append]
              exact ⟨hpid.symm, by omega, hasc⟩
            · intro x hx
              rcases List.mem_append.mp hx with hx | hx
              · exact hnew x hx
              · simp only [List.mem_singleton] at hx; subst hx; exact ⟨hbr, hnm⟩
            · intro hcontra; simp at hcontra
            · intro _
              cases new with
              | nil => simp [htop1 rfl]
              | cons a l => simpa using htop2 (by simp)
            · intro x; rw [hold' hno x, hpn']
    simp only [gatherLoop] at hg
    split at hg
    · next hle =>
      split at hg
      · cases hg
      · next m hm =>
        obtain ⟨hmm, hmn⟩ := blockByNo_main h hle hm
        split at hg
        · next hid =>
          -- fork point found
          have hbm : br = m := by
            have := hmm.2; rw [← hid, hbr] at this; injection this
          subst hbm
          split at hg
          · cases hg
          · next hne =>
            split at hg
            · cases hg
            · next hemp =>
              injection hg with hg; subst hg
              have hnn : new ≠ [] := by intro hc; subst hc; simp at hemp
              have : br.no < N.latest := by omega
              refine ⟨hmm, this, hnn, htop2 hnn, hasc, hnew, hold⟩
        · next hid =>
          have hnm : ¬ onMain N br := fun hb => hid (by rw [onMain_inj hb hmm hmn.symm])
          refine down (old ++ [m]) ?_ hnm hg
          intro hno0 x
          simp only [List.mem_append, List.mem_singleton, hold x]
          constructor
          · rintro (⟨hx, hlt⟩ | rfl)
            · exact ⟨hx, by omega⟩
            · exact ⟨hmm, by omega⟩
          · rintro ⟨hx, hlt⟩
            by_cases hxn : x.no = br.no
            · right; exact onMain_inj hx hmm (by rw [hxn, hmn])
            · left; exact ⟨hx, by omega⟩
    · next hgt =>
      have hnm : ¬ onMain N br := fun hb => hgt (onMain_no_le h hb)
      refine down old ?_ hnm hg
      intro _ x; rw [hold x]
      constructor
      · rintro ⟨hx, hlt⟩; exact ⟨hx, by omega⟩
      · rintro ⟨hx, _⟩; have := onMain_no_le h hx; omega

/-! ### roll-forward -/

/-- The blocks of `l` execute one after the other, each on its predecessor's claimed root, starting on `p`'s. -/
def ExecAsc (exec : Nat → Block → Option Nat) (p : Block) : List Block → Prop
  | [] => True
  | x :: l => exec p.claimed x = some x.claimed ∧ ExecAsc exec x l

/-- Roll-forward touches only the state root, the receipts (adds) and the messages. -/
theorem rollforward_frame : ∀ (l : List Block) (N N2 : Node) (ok : Bool), rollforward exec N l = (ok, N2) →
    N2.blocks = N.blocks ∧ N2.byNo = N.byNo ∧ N2.latest = N.latest ∧ N2.best = N.best ∧ N2.txIdx = N.txIdx ∧
    N2.marker = N.marker ∧ N2.orphans = N.orphans ∧ N2.lib = N.lib ∧ (∀ i n, N.rcpt i n = true → N2.rcpt i n = true) := by
  intro l
  induction l with
  | nil => intro N N2 ok hr; simp only [rollforward] at hr; injection hr with _ h2; subst h2; simp
  | cons x l ih =>
    intro N N2 ok hr
    simp only [rollforward] at hr
    split at hr
    · injection hr with _ h2; subst h2
      obtain ⟨a1, a2, a3, a4, a5, a6, a7, _, a9, _, a11, _⟩ := failNote_fields N x
      exact ⟨a1, a2, a3, a4, a5, a7, a9, a11, fun i n hin => by rw [a6]; exact hin⟩
    · next N1 h1 =>
      obtain ⟨_, _, hN1⟩ := executeBlock_some h1
      have hm := executeBlock_rcpt_mono h1
      obtain ⟨a, b, c, d, e, f, g', l', r⟩ := ih N1 N2 ok hr
      subst hN1
      exact ⟨a, b, c, d, e, f, g', l', fun i n hin => r i n (hm i n hin)⟩

theorem rollforward_lkey : ∀ (l : List Block) (N N2 : Node) (ok : Bool), rollforward exec N l = (ok, N2) →
    N2.latestKey = N.latestKey := by
  intro l
  induction l with
  | nil => intro N N2 ok hr; simp only [rollforward] at hr; injection hr with _ h2; subst h2; rfl
  | cons x l ih =>
    intro N N2 ok hr
    simp only [rollforward] at hr
    split at hr
    · injection hr with _ h2; subst h2
      exact (failNote_fields N x).2.2.2.2.2.2.2.2.2.1
    · next N1 h1 =>
      obtain ⟨_, _, hN1⟩ := executeBlock_some h1
      rw [ih N1 N2 ok hr, hN1]

theorem rollforward_ok : ∀ (l : List Block) (N N2 : Node) (p : Block), N.sdbRoot = p.claimed →
    rollforward exec N l = (true, N2) →
    ExecAsc exec p l ∧ N2.sdbRoot = (l.getLastD p).claimed ∧ ∀ x ∈ l, x.txs ≠ [] → N2.rcpt x.id x.no = true := by
  intro l
  induction l with
  | nil => intro N N2 p hp hr; simp only [rollforward] at hr; injection hr with _ h2; subst h2; simp [ExecAsc, hp]
  | cons x l ih =>
    intro N N2 p hp hr
    simp only [rollforward] at hr
    split at hr
    · cases hr
    · next N1 h1 =>
      obtain ⟨hex, _, hN1⟩ := executeBlock_some h1
      have hself := executeBlock_rcpt_self h1
      have hroot1 : N1.sdbRoot = x.claimed := by rw [hN1]
      obtain ⟨ha, hb, hc⟩ := ih N1 N2 x hroot1 hr
      obtain ⟨_, _, _, _, _, _, _, _, hmono⟩ := rollforward_frame l N1 N2 true hr
      refine ⟨⟨by rw [← hp]; exact hex, ha⟩, ?_, ?_⟩
      · rw [hb]; cases l <;> simp [List.getLastD]
      · intro y hy hne
        rcases List.mem_cons.mp hy with rfl | hy
        · exact hmono _ _ (hself hne)
        · exact hc y hy hne

/-- A roll-forward over an executable chain succeeds. -/
theorem rollforward_complete : ∀ (l : List Block) (N : Node) (p : Block), N.sdbRoot = p.claimed →
    ExecAsc exec p l → (∀ x ∈ l, x.consOk = true) → ∃ N2, rollforward exec N l = (true, N2) := by
  intro l
  induction l with
  | nil => intro N p _ _ _; exact ⟨N, rfl⟩
  | cons x l ih =>
    intro N p hp ha hc
    have hx := hc x (by simp)
    simp only [rollforward, executeBlock, hx, hp, ha.1]
    simp only [Bool.not_true, Bool.false_eq_true, if_false, ne_eq, not_true_eq_false]
    exact ih _ x rfl ha.2 (fun y hy => hc y (by simp [hy]))

/-! ### list folds used by `swapChain` -/

theorem pairwise_mem_cases {α : Type} {R : α → α → Prop} {l : List α} (hp : l.Pairwise R) {a b : α}
    (ha : a ∈ l) (hb : b ∈ l) : a = b ∨ R a b ∨ R b a := by
  induction l with
  | nil => cases ha
  | cons x l ih =>
    rw [List.pairwise_cons] at hp
    rcases List.mem_cons.mp ha with rfl | ha' <;> rcases List.mem_cons.mp hb with rfl | hb'
    · left; rfl
    · right; left; exact hp.1 _ hb'
    · right; right; exact hp.1 _ ha'
    · exact ih hp.2 ha' hb'

theorem foldl_byNo (l : List Block) : ∀ (f : Nat → Option Nat), l.Pairwise (fun a b => a.no < b.no) →
    (∀ x ∈ l, (l.foldl (fun f b => upd f b.no (some b.id)) f) x.no = some x.id) ∧
    (∀ k, (∀ x ∈ l, x.no ≠ k) → (l.foldl (fun f b => upd f b.no (some b.id)) f) k = f k) := by
  induction l with
  | nil => intro f _; exact ⟨fun x hx => (by cases hx), fun k _ => rfl⟩
  | cons x l ih =>
    intro f hp
    rw [List.pairwise_cons] at hp
    obtain ⟨i1, i2⟩ := ih (upd f x.no (some x.id)) hp.2
    simp only [List.foldl_cons]
    refine ⟨?_, ?_⟩
    · intro y hy
      rcases List.mem_cons.mp hy with rfl | hy
      · rw [i2 _ (fun z hz => by have := hp.1 z hz; omega)]; simp
      · exact i1 y hy
    · intro k hk
      rw [i2 k (fun z hz => hk z (by simp [hz]))]
      exact upd_other _ _ (fun hc => hk x (by simp) hc.symm)

theorem foldl_addTxs_not_mem (l : List Block) : ∀ (f : Nat → Option (Nat × Nat)) (t : Nat),
    (∀ x ∈ l, t ∉ x.txs) → l.foldl addTxs f t = f t := by
  induction l with
  | nil => intro f t _; rfl
  | cons x l ih =>
    intro f t ht
    simp only [List.foldl_cons]
    rw [ih _ _ (fun y hy => ht y (by simp [hy]))]
    exact addTxsFrom_not_mem _ _ _ _ _ (ht x (by simp))

theorem foldl_addTxs_found (l : List Block) : ∀ (f : Nat → Option (Nat × Nat)),
    (∀ x ∈ l, x.txs.Nodup) → l.Pairwise (fun a b => ∀ t ∈ a.txs, t ∉ b.txs) →
    ∀ x ∈ l, ∀ i (h : i < x.txs.length), l.foldl addTxs f x.txs[i] = some (x.id, i) := by
  induction l with
  | nil => intro f _ _ x hx; cases hx
  | cons y l ih =>
    intro f hn hp x hx i hi
    rw [List.pairwise_cons] at hp
    simp only [List.foldl_cons]
    rcases List.mem_cons.mp hx with rfl | hx'
    · rw [foldl_addTxs_not_mem l _ _ (fun z hz => hp.1 z hz _ (List.getElem_mem hi))]
      have := addTxsFrom_nodup x.id x.txs 0 f (hn x (by simp)) i hi
      simpa [addTxs] using this
    · exact ih _ (fun z hz => hn z (by simp [hz])) hp.2 x hx' i hi

theorem foldl_addTxs_cases (l : List Block) : ∀ (f : Nat → Option (Nat × Nat)) (t : Nat),
    l.foldl addTxs f t = f t ∨
    ∃ x ∈ l, ∃ i, ∃ h : i < x.txs.length, x.txs[i] = t ∧ l.foldl addTxs f t = some (x.id, i) := by
  induction l with
  | nil => intro f t; left; rfl
  | cons y l ih =>
    intro f t
    simp only [List.foldl_cons]
    rcases ih (addTxs f y) t with h | ⟨x, hx, i, hi, h1, h2⟩
    · rcases addTxsFrom_cases y.id y.txs 0 f t with h' | ⟨i, hi, h1, h2⟩
      · left; rw [h]; exact h'
      · right; refine ⟨y, by simp, i, hi, h1, ?_⟩
        rw [h]; simpa [addTxs] using h2
    · right; exact ⟨x, by simp [hx], i, hi, h1, h2⟩

theorem foldl_del (l : List Nat) : ∀ (f : Nat → Option (Nat × Nat)) (t : Nat),
    l.foldl (fun f t => upd f t none) f t = if t ∈ l then none else f t := by
  induction l with
  | nil => intro f t; simp
  | cons a l ih =>
    intro f t
    simp only [List.foldl_cons, ih, List.mem_cons]
    by_cases hl : t ∈ l
    · simp [hl]
    · by_cases ha : t = a
      · subst ha; simp [hl]
      · simp [hl, ha, upd_other _ _ ha]

theorem foldl_rcpt_keep (l : List Block) : ∀ (r : Nat → Nat → Bool) (i n : Nat),
    (∀ b ∈ l, ¬ (i = b.id ∧ n = b.no)) →
    l.foldl (fun r b => fun i n => if i = b.id ∧ n = b.no then false else r i n) r i n = r i n := by
  induction l with
  | nil => intro r i n _; rfl
  | cons a l ih =>
    intro r i n hk
    simp only [List.foldl_cons]
    rw [ih _ _ _ (fun b hb => hk b (by simp [hb]))]
    simp [hk a (by simp)]

theorem mem_insertSorted (x t : Nat) (l : List Nat) : t ∈ insertSorted x l ↔ t = x ∨ t ∈ l := by
  induction l with
  | nil => simp [insertSorted]
  | cons y ys ih =>
    simp only [insertSorted]
    split
    · simp
    · split
      · next hxy => subst hxy; simp
      · simp only [List.mem_cons, ih]
        constructor
        · rintro (h | h | h) <;> simp [h]
        · rintro (h | h | h) <;> simp [h]

theorem mem_sortDedup (t : Nat) (l : List Nat) : t ∈ sortDedup l ↔ t ∈ l := by
  induction l with
  | nil => simp [sortDedup]
  | cons a l ih =>
    have : sortDedup (a :: l) = insertSorted a (sortDedup l) := rfl
    rw [this, mem_insertSorted, ih]; simp

/-! ### facts about an executed ascending chain -/

/-- Positional relation between two blocks of an executed chain (`a` before `b`). -/
def Before (txsOf : Nat → List Nat) (a b : Block) : Prop :=
  a.no < b.no ∧ (∀ t ∈ a.txs, t ∉ b.txs) ∧ (∀ t ∈ a.txs, t ∈ txsOf b.claimed)

theorem execAsc_facts (hE : ExecLaw exec txsOf) : ∀ (l : List Block) (p : Block), Asc p l → ExecAsc exec p l →
    (∀ x ∈ l, x.txs.Nodup ∧ (∀ t ∈ x.txs, t ∉ txsOf p.claimed) ∧ (∀ t ∈ x.txs, t ∈ txsOf x.claimed) ∧
      (∀ t ∈ txsOf p.claimed, t ∈ txsOf x.claimed) ∧ p.no < x.no) ∧
    l.Pairwise (Before txsOf) := by
  intro l
  induction l with
  | nil => intro p _ _; exact ⟨fun x hx => (by cases hx), List.Pairwise.nil⟩
  | cons x l ih =>
    intro p ha he
    obtain ⟨hpar, hno, ha'⟩ := ha
    obtain ⟨hex, he'⟩ := he
    obtain ⟨f1, f2⟩ := ih x ha' he'
    have gx : ∀ t, (t ∈ txsOf p.claimed ∨ t ∈ x.txs) → t ∈ txsOf x.claimed := hE.grows _ _ _ hex
    refine ⟨?_, ?_⟩
    · intro y hy
      rcases List.mem_cons.mp hy with rfl | hy
      · exact ⟨hE.nodup _ _ _ hex, hE.fresh _ _ _ hex, fun t ht => gx t (Or.inr ht), fun t ht => gx t (Or.inl ht), by omega⟩
      · obtain ⟨a1, a2, a3, a4, a5⟩ := f1 y hy
        exact ⟨a1, fun t ht hc => a2 t ht (gx t (Or.inl hc)), a3, fun t ht => a4 t (gx t (Or.inl ht)), by omega⟩
    · rw [List.pairwise_cons]
      refine ⟨?_, f2⟩
      intro y hy
      obtain ⟨_, a2, _, a4, a5⟩ := f1 y hy
      exact ⟨a5, fun t ht hc => a2 t hc (gx t (Or.inr ht)), fun t ht => a4 t (gx t (Or.inr ht))⟩

theorem asc_len : ∀ (l : List Block) (p : Block), Asc p l →
    (∀ x ∈ l, x.no ≤ p.no + l.length) ∧ (l.getLastD p).no = p.no + l.length := by
  intro l
  induction l with
  | nil => intro p _; exact ⟨fun x hx => (by cases hx), by simp⟩
  | cons x l ih =>
    intro p ha
    obtain ⟨_, hno, ha'⟩ := ha
    obtain ⟨i1, i2⟩ := ih x ha'
    refine ⟨?_, ?_⟩
    · intro y hy
      rcases List.mem_cons.mp hy with rfl | hy
      · simp; omega
      · have := i1 y hy; simp; omega
    · have : (x :: l).getLastD p = l.getLastD x := by cases l <;> simp [List.getLastD]
      rw [this, i2]; simp; omega

/-- Every height covered by the chain holds a block of the chain whose parent is the block one below. -/
theorem asc_cover : ∀ (l : List Block) (p : Block), Asc p l → ∀ h, p.no < h → h ≤ p.no + l.length →
    ∃ x ∈ l, x.no = h ∧ ∃ y, (y = p ∨ y ∈ l) ∧ y.no + 1 = h ∧ x.parent = y.id := by
  intro l
  induction l with
  | nil => intro p _ h h1 h2; simp at h2; omega
  | cons x l ih =>
    intro p ha h h1 h2
    obtain ⟨hpar, hno, ha'⟩ := ha
    by_cases hx : h = x.no
    · exact ⟨x, by simp, hx.symm, p, Or.inl rfl, by omega, hpar⟩
    · obtain ⟨z, hz, hzn, y, hy, hyn, hzy⟩ := ih x ha' h (by omega) (by simp at h2; omega)
      refine ⟨z, by simp [hz], hzn, y, ?_, hyn, hzy⟩
      rcases hy with rfl | hy
      · right; simp
      · right; simp [hy]

/-! ### the swap -/

/-- After a successful roll-forward, `swapChain` re-establishes the invariant on the new branch. The node `N3` is
described by its fields relative to the node `N` the reorganisation started from. -/
theorem Inv.swap (hE : ExecLaw exec txsOf) {N N3 : Node} (h : Inv exec txsOf U g N) {top : Block} {gt : Gather}
    (gs : GatherSpec N top gt) (hgt : N.latest < top.no) (hea : ExecAsc exec gt.brStart gt.newB.reverse)
    {rem : List Nat} {R2 : Nat → Nat → Bool}
    (e_blocks : N3.blocks = N.blocks)
    (e_byNo : N3.byNo = gt.newB.reverse.foldl (fun f b => upd f b.no (some b.id)) N.byNo)
    (e_latest : N3.latest = top.no) (e_best : N3.best = top)
    (e_tx : N3.txIdx = rem.foldl (fun f t => upd f t none) (gt.newB.reverse.foldl addTxs N.txIdx))
    (hrem : ∀ t, t ∈ rem ↔ (t ∈ gt.oldB.flatMap (·.txs) ∧ ¬ ∃ x ∈ gt.newB.reverse, t ∈ x.txs))
    (e_rcpt : N3.rcpt = gt.oldB.foldl (fun r b => fun i n => if i = b.id ∧ n = b.no then false else r i n) R2)
    (hR2 : ∀ i n, N.rcpt i n = true → R2 i n = true)
    (hR2new : ∀ x ∈ gt.newB.reverse, x.txs ≠ [] → R2 x.id x.no = true)
    (e_root : N3.sdbRoot = top.claimed) (e_marker : N3.marker = none) (e_orph : N3.orphans = N.orphans)
    (e_lk : N3.latestKey = top.no := by rfl) :
    Inv exec txsOf U g N3 := by
  -- notation
  have hSm := gs.start_main
  have hSlt := gs.start_lt
  have hnne := gs.new_ne
  have hnt := gs.new_top
  have hAsc := gs.new_asc
  have hstored := gs.new_stored
  have oldMem := gs.old_set
  clear gs
  obtain ⟨S, newB, oldB⟩ := gt
  simp only at *
  generalize hasc : newB.reverse = asc at *
  have hst : ∀ x ∈ asc, N.blocks x.id = some x ∧ ¬ onMain N x := fun x hx =>
    hstored x (by rw [← hasc] at hx; exact List.mem_reverse.mp hx)
  have hlast : asc.getLastD S = top := by
    have := hnt
    cases newB with
    | nil => exact absurd rfl hnne
    | cons a l =>
      simp only [List.head?_cons, Option.some.injEq] at this
      subst this; rw [← hasc]; simp
  obtain ⟨hlen1, hlen2⟩ := asc_len asc S hAsc
  rw [hlast] at hlen2
  obtain ⟨facts, pw⟩ := execAsc_facts hE asc S hAsc hea
  have pwno : asc.Pairwise (fun a b => a.no < b.no) := pw.imp (fun hab => hab.1)
  have pwdj : asc.Pairwise (fun a b => ∀ t ∈ a.txs, t ∉ b.txs) := pw.imp (fun hab => hab.2.1)
  have hne : asc ≠ [] := by rw [← hasc]; simpa using hnne
  have htopmem : top ∈ asc := by
    rw [← hasc]; apply List.mem_reverse.mpr
    cases newB with
    | nil => exact absurd rfl hnne
    | cons a l => simp only [List.head?_cons, Option.some.injEq] at hnt; subst hnt; simp
  obtain ⟨by1, by2⟩ := foldl_byNo asc N.byNo pwno
  rw [← e_byNo] at by1 by2
  have hslt : ∀ x ∈ asc, S.no < x.no := fun x hx => (facts x hx).2.2.2.2
  have newMain : ∀ x ∈ asc, onMain N3 x := fun x hx => ⟨by1 x hx, by rw [e_blocks]; exact (hst x hx).1⟩
  have byLow : ∀ k, k ≤ S.no → N3.byNo k = N.byNo k := fun k hk =>
    by2 k (fun x hx hc => by have := hslt x hx; omega)
  have byHigh : ∀ k, top.no < k → N3.byNo k = N.byNo k := fun k hk =>
    by2 k (fun x hx hc => by have := hlen1 x hx; omega)
  have upOld : ∀ x, onMain N x → x.no ≤ S.no → onMain N3 x := fun x hx hle =>
    ⟨by rw [byLow _ hle]; exact hx.1, by rw [e_blocks]; exact hx.2⟩
  have down : ∀ x, onMain N3 x → (onMain N x ∧ x.no ≤ S.no) ∨ x ∈ asc := by
    intro x hx
    by_cases hex : ∃ y ∈ asc, y.no = x.no
    · right
      obtain ⟨y, hy, hyn⟩ := hex
      have h1 := by1 y hy; rw [hyn, hx.1] at h1
      have hid : x.id = y.id := by injection h1
      have h2 := hx.2; rw [e_blocks, hid, (hst y hy).1] at h2
      injection h2 with h2; rw [← h2]; exact hy
    · left
      have hno : ∀ y ∈ asc, y.no ≠ x.no := fun y hy hc => hex ⟨y, hy, hc⟩
      have h1 : N.byNo x.no = some x.id := by rw [← by2 _ hno]; exact hx.1
      have hxm : onMain N x := ⟨h1, by rw [← e_blocks]; exact hx.2⟩
      refine ⟨hxm, Nat.le_of_not_lt fun hlt => ?_⟩
      have := onMain_no_le h hxm
      obtain ⟨z, hz, hzn, _⟩ := asc_cover asc S hAsc x.no hlt (by omega)
      exact hno z hz hzn
  -- a transaction of a kept main-chain block is in no new block and in no old block
  have keptTx : ∀ b, onMain N b → b.no ≤ S.no → 0 < b.no → ∀ t ∈ b.txs,
      (∀ x ∈ asc, t ∉ x.txs) ∧ t ∉ oldB.flatMap (·.txs) := by
    intro b hb hle hpos t ht
    have htS : t ∈ txsOf S.claimed := h.ghost S b hSm hb hle hpos t ht
    refine ⟨fun x hx hc => (facts x hx).2.1 t hc htS, ?_⟩
    intro hc
    obtain ⟨o, ho, hto⟩ := List.mem_flatMap.mp hc
    obtain ⟨hom, hos⟩ := (oldMem o).mp ho
    have hole := onMain_no_le h hom
    obtain ⟨c, hc1, hc2, hc3⟩ := h.chain o.no hole
    have : c = o := onMain_inj hc1 hom hc2
    subst this
    obtain ⟨q, hq, hqn, _⟩ := h.chain (c.no - 1) (by omega)
    have hexq := h.executed c q hom hq (by omega)
    have : t ∈ txsOf q.claimed := h.ghost q b hq hb (by omega) hpos t ht
    exact hE.fresh _ _ _ hexq t hto this
  refine ⟨?_, ?_, ?_, ?_, ?_, ?_, ?_, ?_, ?_, ?_, ?_, ?_, ?_, ?_, by rw [e_lk, e_latest]⟩
  · rw [e_blocks]; exact h.inU
  · rw [e_orph]; exact h.poolU
  · rw [e_best]; exact newMain top htopmem
  · rw [e_best, e_latest]
  · intro k hk
    rw [e_latest] at hk
    by_cases hks : k ≤ S.no
    · obtain ⟨c, hc, hcn, hp⟩ := h.chain k (by omega)
      exact ⟨c, upOld c hc (by omega), hcn, fun hpos => by rw [byLow _ (by omega)]; exact hp hpos⟩
    · obtain ⟨x, hx, hxn, y, hy, hyn, hxy⟩ := asc_cover asc S hAsc k (by omega) (by omega)
      refine ⟨x, newMain x hx, hxn, fun _ => ?_⟩
      have hk1 : k - 1 = y.no := by omega
      rw [hk1, hxy]
      rcases hy with rfl | hy
      · rw [byLow _ (Nat.le_refl _)]; exact hSm.1
      · exact by1 y hy
  · intro k hk; rw [e_latest] at hk; rw [byHigh k hk]; exact h.above k (by omega)
  · exact ⟨upOld g h.gen.1 (by rw [h.gen.2]; omega), h.gen.2⟩
  · -- executed
    intro b p hb hp hn
    rcases down b hb with ⟨hbm, hbs⟩ | hbn
    · rcases down p hp with ⟨hpm, _⟩ | hpn
      · exact h.executed b p hbm hpm hn
      · have := hslt p hpn; omega
    · -- b is new: its predecessor in the chain
      obtain ⟨x, hx, hxn, y, hy, hyn, hxy⟩ := asc_cover asc S hAsc b.no (hslt b hbn) (hlen1 b hbn)
      have hxb : x = b := by
        rcases pairwise_mem_cases pwno hx hbn with e | e | e
        · exact e
        · omega
        · omega
      subst hxb
      have hyp : y = p := by
        have hym : onMain N3 y := by
          rcases hy with rfl | hy
          · exact upOld y hSm (Nat.le_refl _)
          · exact newMain y hy
        exact onMain_inj hym hp (by omega)
      subst hyp
      -- ExecAsc gives the execution of x on y
      clear hb hp
      have key : ∀ (l : List Block) (q : Block), ExecAsc exec q l → ∀ x ∈ l, ∀ y, (y = q ∨ y ∈ l) → x.parent = y.id →
          Asc q l → y.no + 1 = x.no → exec y.claimed x = some x.claimed := by
        intro l
        induction l with
        | nil => intro q _ x hx; cases hx
        | cons a l ih =>
          intro q he x hx y hy hpar ha hno
          obtain ⟨hpa, hna, ha'⟩ := ha
          obtain ⟨f1, _⟩ := asc_len l a ha'
          rcases List.mem_cons.mp hx with rfl | hx'
          · rcases hy with rfl | hy
            · exact he.1
            · rcases List.mem_cons.mp hy with rfl | hy'
              · omega
              · have hf := (execAsc_facts hE l x ha' he.2).1 y hy'
                omega
          · have hxa : a.no < x.no := (execAsc_facts hE l a ha' he.2).1 x hx' |>.2.2.2.2
            rcases hy with rfl | hy
            · omega
            · rcases List.mem_cons.mp hy with rfl | hy'
              · exact ih y he.2 x hx' y (Or.inl rfl) hpar ha' hno
              · exact ih a he.2 x hx' y (Or.inr hy') hpar ha' hno
      exact key asc S hea x hx y hy hxy hAsc hyn
  · -- ghost
    intro b b' hb hb' hle hpos t ht
    rcases down b hb with ⟨hbm, hbs⟩ | hbn
    · rcases down b' hb' with ⟨hbm', _⟩ | hbn'
      · exact h.ghost b b' hbm hbm' hle hpos t ht
      · have := hslt b' hbn'; omega
    · rcases down b' hb' with ⟨hbm', hbs'⟩ | hbn'
      · exact (facts b hbn).2.2.2.1 t (h.ghost S b' hSm hbm' hbs' hpos t ht)
      · rcases pairwise_mem_cases pw hbn' hbn with e | e | e
        · subst e; exact (facts b' hbn').2.2.1 t ht
        · exact e.2.2 t ht
        · have := e.1; omega
  · -- txfound
    intro b hb hpos i hi
    rw [e_tx, foldl_del]
    rcases down b hb with ⟨hbm, hbs⟩ | hbn
    · obtain ⟨k1, k2⟩ := keptTx b hbm hbs hpos _ (List.getElem_mem hi)
      have : b.txs[i] ∉ rem := fun hc => k2 ((hrem _).mp hc).1
      rw [if_neg this, foldl_addTxs_not_mem asc _ _ k1]
      exact h.txfound b hbm hpos i hi
    · have : b.txs[i] ∉ rem := fun hc => ((hrem _).mp hc).2 ⟨b, hbn, List.getElem_mem hi⟩
      rw [if_neg this]
      exact foldl_addTxs_found asc _ (fun x hx => (facts x hx).1) pwdj b hbn i hi
  · -- txsound
    intro t bid i ht
    rw [e_tx, foldl_del] at ht
    split at ht
    · cases ht
    · rcases foldl_addTxs_cases asc N.txIdx t with heq | ⟨x, hx, j, hj, hjt, heq⟩
      · rw [heq] at ht
        obtain ⟨c, hc1, hc2⟩ := h.txsound t bid i ht
        exact ⟨c, by rw [e_blocks]; exact hc1, hc2⟩
      · rw [heq] at ht; injection ht with ht; injection ht with h1 h2
        subst h1; subst h2
        exact ⟨x, by rw [e_blocks]; exact (hst x hx).1, hj, hjt⟩
  · -- receipts
    intro b hb hpos hne'
    rw [e_rcpt]
    have notOld : ∀ o ∈ oldB, ¬ (b.id = o.id ∧ b.no = o.no) := by
      intro o ho hc
      obtain ⟨hom, hos⟩ := (oldMem o).mp ho
      have hbo : N.blocks b.id = some b := by rw [← e_blocks]; exact hb.2
      have : b = o := by
        have := hom.2; rw [← hc.1, hbo] at this; injection this
      subst this
      rcases down b hb with ⟨_, hbs⟩ | hbn
      · omega
      · exact (hst b hbn).2 hom
    rw [foldl_rcpt_keep oldB R2 b.id b.no notOld]
    rcases down b hb with ⟨hbm, _⟩ | hbn
    · exact hR2 _ _ (h.rcpt b hbm hpos hne')
    · exact hR2new b hbn hne'
  · rw [e_root, e_best]
  · exact e_marker

theorem gather_spec (hU : UKeyed U) {N : Node} (h : Inv exec txsOf U g N) {top : Block} {gt : Gather}
    (hst : N.blocks top.id = some top) (hgt : N.latest < top.no) (hg : gather N top = some gt) : GatherSpec N top gt := by
  refine gatherLoop_spec hU h top (top.no + 1) top [] [] hst trivial (fun x hx => (by cases hx)) (fun _ => rfl)
    (fun hc => absurd rfl hc) ?_ hg
  intro x
  constructor
  · intro hx; cases hx
  · rintro ⟨hx, hlt⟩; have := onMain_no_le h hx; omega

/-- `reorg` preserves the invariant whatever its outcome (done, vetoed by the consensus, failed). -/
theorem Inv.reorg (hE : ExecLaw exec txsOf) (hU : UKeyed U) {N : Node} (h : Inv exec txsOf U g N) {top : Block}
    (hst : N.blocks top.id = some top) (hgt : N.latest < top.no) : Inv exec txsOf U g (Aergo.Chain.reorg exec N top).2 := by
  unfold Aergo.Chain.reorg
  split
  · exact h
  · next gt hg =>
    have gs := gather_spec hU h hst hgt hg
    split
    · exact h
    · dsimp only
      split
      · next N2 hrf =>
        obtain ⟨f1, f2, f3, f4, f5, f6, f7, f8, f9⟩ := rollforward_frame _ _ _ _ hrf
        exact Inv.frame h (by intro i b hb; show N2.blocks i = some b; rw [f1]; exact hb)
          (by intro i b hb; have hb' : N2.blocks i = some b := hb; rw [f1] at hb'; exact h.inU _ _ hb')
          (by show ∀ e ∈ N2.orphans, _; rw [f7]; exact h.poolU) f2 f3 f4 f5 f9 h.root.symm f6
          (by have := rollforward_lkey _ _ _ _ hrf; exact this)
      · next N2 hrf =>
        obtain ⟨f1, f2, f3, f4, f5, f6, f7, f8, f9⟩ := rollforward_frame _ _ _ _ hrf
        obtain ⟨hea, hroot2, hrc2⟩ := rollforward_ok _ _ _ gt.brStart rfl hrf
        have hlast : (gt.newB.reverse.getLastD gt.brStart) = top := by
          have hnt := gs.new_top
          have hnne := gs.new_ne
          cases hnb : gt.newB with
          | nil => exact absurd hnb hnne
          | cons a l => rw [hnb] at hnt; simp only [List.head?_cons, Option.some.injEq] at hnt; subst hnt; simp
        rw [hlast] at hroot2
        have hnge : ¬ (N2.latest ≥ top.no) := by rw [f3]; show ¬ (N.latest ≥ top.no); omega
        unfold swapChain
        simp only [if_neg hnge]
        refine Inv.swap hE h gs hgt hea f1 (by show _ = _; rw [f2]) rfl rfl
          (by show _ = _; rw [f5]) ?_ rfl f9 hrc2 hroot2 rfl f7
        intro t
        rw [mem_sortDedup, List.mem_filter]
        simp only [Bool.not_eq_true', List.any_eq_false, List.contains_eq_mem, decide_eq_true_eq, not_exists, not_and]

theorem Inv.cacheBad {N : Node} (h : Inv exec txsOf U g N) (b : Block) : Inv exec txsOf U g (Aergo.Chain.cacheBad N b) :=
  Inv.same h rfl rfl rfl rfl rfl rfl rfl rfl rfl

theorem Inv.touchBad {N : Node} (h : Inv exec txsOf U g N) (id : Nat) : Inv exec txsOf U g (Aergo.Chain.touchBad N id).2 := by
  unfold Aergo.Chain.touchBad
  split
  · exact h
  · exact Inv.same h rfl rfl rfl rfl rfl rfl rfl rfl rfl

theorem Inv.addOrphan {N N1 : Node} (h : Inv exec txsOf U g N) {b : Block} (hbU : U b.id = some b)
    (ha : Aergo.Chain.addOrphan N b = some N1) : Inv exec txsOf U g N1 := by
  unfold Aergo.Chain.addOrphan at ha
  split at ha
  · injection ha with ha; subst ha; exact h
  · split at ha
    · split at ha
      · cases ha
      · next e rest hrest =>
        injection ha with ha; subst ha
        refine Inv.frame h (fun _ _ hb => hb) h.inU ?_ rfl rfl rfl rfl (fun _ _ hr => hr) rfl rfl
        intro x hx
        rcases List.mem_append.mp hx with hx | hx
        · exact h.poolU x (by rw [hrest]; exact List.mem_cons_of_mem _ hx)
        · simp only [List.mem_singleton] at hx; subst hx; exact ⟨hbU, rfl⟩
    · injection ha with ha; subst ha
      refine Inv.frame h (fun _ _ hb => hb) h.inU ?_ rfl rfl rfl rfl (fun _ _ hr => hr) rfl rfl
      intro x hx
      rcases List.mem_append.mp hx with hx | hx
      · exact h.poolU x hx
      · simp only [List.mem_singleton] at hx; subst hx; exact ⟨hbU, rfl⟩

/-- On a side branch the loop's `lastBlock` is stored. -/
theorem runLoop_last (fuel : Nat) :
    ∀ (N : Node) (blk : Block) (last : Option Block), Inv exec txsOf U g N → U blk.id = some blk →
      (∀ l, last = some l → N.blocks l.id = some l) →
      ∀ l, (runLoop exec false fuel N blk last).2.2 = some l → (runLoop exec false fuel N blk last).2.1.blocks l.id = some l := by
  induction fuel with
  | zero => intro N blk last _ _ hl l hr; exact hl l hr
  | succ fuel ih =>
    intro N blk last h hbU hl l
    simp only [runLoop, Aergo.Chain.apply, Bool.false_eq_true, if_false]
    have hs : (Aergo.Chain.storeSide N blk).blocks blk.id = some blk := by simp [Aergo.Chain.storeSide]
    have h1 := Inv.storeSide h hbU
    split
    · intro hr; simp only at hr; injection hr with hr; subst hr; exact hs
    · next p o hf =>
      obtain ⟨hmem, _⟩ := find_mem hf
      split
      · intro hr; simp only at hr; injection hr with hr; subst hr; exact hs
      · refine ih _ o (some blk) ?_ (h1.poolU _ hmem).1 ?_ l
        · exact Inv.frame h1 (fun _ _ hb => hb) h1.inU (fun e he => h1.poolU e (List.mem_filter.mp he).1) rfl rfl rfl rfl
            (fun _ _ hr => hr) rfl rfl
        · intro l' hl'; injection hl' with hl'; subst hl'; exact hs

/-- **Every arrival preserves the invariant** (valid, invalid, duplicate, orphan, fork, reorganisation), provided the
block's identifier is honest. -/
theorem Inv.addBlock (hE : ExecLaw exec txsOf) (hU : UKeyed U) {N : Node} (h : Inv exec txsOf U g N) {b : Block}
    (hbU : U b.id = some b) : Inv exec txsOf U g (Aergo.Chain.addBlock exec N b).2 := by
  unfold Aergo.Chain.addBlock
  have h0 : Inv exec txsOf U g { N with out := [] } := Inv.same h rfl rfl rfl rfl rfl rfl rfl rfl rfl
  have ht := Inv.touchBad h0 b.id
  generalize Aergo.Chain.touchBad { N with out := [] } b.id = tb at ht
  obtain ⟨hit, M⟩ := tb
  simp only at ht ⊢
  split
  · exact ht
  · split
    · exact ht
    · split
      · exact ht
      · split
        · exact Inv.cacheBad ht b
        · split
          · -- orphan
            split
            · exact ht
            · next N1 ha => exact Inv.same (Inv.addOrphan ht hbU ha) rfl rfl rfl rfl rfl rfl rfl rfl rfl
          · next prev hprev =>
            split
            · exact Inv.cacheBad ht b
            · next hno =>
              have hno' : prev.no + 1 = b.no := by simpa using hno
              split
              · exact Inv.cacheBad ht b
              · next main hmain =>
                have hpre : main = true → M.byNo M.latest = some b.parent ∧ b.no = M.latest + 1 := by
                  intro hm; subst hm
                  unfold isMainChain at hmain
                  split at hmain
                  · cases hmain
                  · split at hmain
                    · cases hmain
                    · next hh hby =>
                      injection hmain with hmain
                      have hpar : b.parent = hh := by simpa using hmain
                      subst hpar
                      refine ⟨hby, ?_⟩
                      have hb1 := ht.best_main.1
                      rw [ht.best_no, hby] at hb1
                      have hid : b.parent = M.best.id := by injection hb1
                      have hb2 := ht.best_main.2
                      rw [← hid, hprev] at hb2
                      injection hb2 with hb2; subst hb2
                      rw [← ht.best_no]; omega
                have hrl := Inv.runLoop (U := U) (g := g) hE main (M.orphans.length + 1) M b none ht hbU hpre
                have hlast : main = false → ∀ l, (Aergo.Chain.runLoop exec main (M.orphans.length + 1) M b none).2.2 = some l →
                    (Aergo.Chain.runLoop exec main (M.orphans.length + 1) M b none).2.1.blocks l.id = some l := by
                  intro hm; subst hm
                  exact runLoop_last (exec := exec) (txsOf := txsOf) (U := U) (g := g) (M.orphans.length + 1) M b none ht hbU
                    (fun l hl => by cases hl)
                generalize Aergo.Chain.runLoop exec main (M.orphans.length + 1) M b none = rl at hrl hlast
                obtain ⟨ok, N1, last⟩ := rl
                simp only at hrl
                cases ok with
                | false => exact Inv.cacheBad hrl b
                | true =>
                  simp only
                  split
                  · exact hrl
                  · next hmf =>
                    have hmf' : main = false := by simpa using hmf
                    subst hmf'
                    split
                    · exact hrl
                    · next l =>
                      have hl := hlast rfl l rfl
                      split
                      · next hlt =>
                        have hr := Inv.reorg hE hU hrl hl hlt
                        generalize Aergo.Chain.reorg exec N1 l = rr at hr
                        obtain ⟨res, N2⟩ := rr
                        simp only at hr
                        cases res <;> simp only
                        · exact hr
                        · exact hr
                        · exact Inv.cacheBad hr b
                      · exact hrl

/-- `isMainChain` answering "yes" for a block numbered right after its stored parent: the parent is the tip. -/
theorem isMainChain_true {M : Node} (ht : Inv exec txsOf U g M) {b prev : Block} (hprev : M.blocks b.parent = some prev)
    (hno' : prev.no + 1 = b.no) (hmain : isMainChain M b = some true) :
    M.byNo M.latest = some b.parent ∧ b.no = M.latest + 1 := by
  unfold isMainChain at hmain
  split at hmain
  · cases hmain
  · split at hmain
    · cases hmain
    · next hh hby =>
      injection hmain with hmain
      have hpar : b.parent = hh := by simpa using hmain
      subst hpar
      refine ⟨hby, ?_⟩
      have hb1 := ht.best_main.1
      rw [ht.best_no, hby] at hb1
      have hid : b.parent = M.best.id := by injection hb1
      have hb2 := ht.best_main.2
      rw [← hid, hprev] at hb2
      injection hb2 with hb2; subst hb2
      rw [← ht.best_no]; omega

/-- Connecting a block right after `executeBlock` (without the p2p notice: the own-block path). -/
theorem Inv.executeConnect (hE : ExecLaw exec txsOf) {N N1 : Node} (h : Inv exec txsOf U g N) {b : Block}
    (hbU : U b.id = some b) (hpar : N.byNo N.latest = some b.parent) (hno : b.no = N.latest + 1)
    (h1 : executeBlock exec N b = some N1) : Inv exec txsOf U g (Aergo.Chain.connect N1 b) := by
  obtain ⟨hex, _, hN1⟩ := executeBlock_some h1
  have r1 := executeBlock_rcpt_mono h1
  have r2 := executeBlock_rcpt_self h1
  refine Inv.connect hE h hbU hpar hno hex ?_ ?_ ?_ ?_ ?_ r1 r2 ?_ ?_ ?_ <;> simp [Aergo.Chain.connect, hN1]

/-- **Every block of the node's own block factory preserves the invariant** (connected, refused as stale, refused by
the consensus or by the post-validation, duplicate). -/
theorem Inv.addOwn (hE : ExecLaw exec txsOf) (hU : UKeyed U) {N : Node} (h : Inv exec txsOf U g N) {b : Block}
    (hbU : U b.id = some b) : Inv exec txsOf U g (Aergo.Chain.addOwn exec N b).2 := by
  unfold Aergo.Chain.addOwn
  have h0 : Inv exec txsOf U g { N with out := [] } := Inv.same h rfl rfl rfl rfl rfl rfl rfl rfl rfl
  have ht := Inv.touchBad h0 b.id
  generalize Aergo.Chain.touchBad { N with out := [] } b.id = tb at ht
  obtain ⟨hit, M⟩ := tb
  simp only at ht ⊢
  split
  · exact ht
  · split
    · exact ht
    · split
      · exact ht
      · split
        · exact ht
        · split
          · exact Inv.cacheBad ht b
          · split
            · exact ht
            · next prev hprev =>
              split
              · exact Inv.cacheBad ht b
              · next hno =>
                have hno' : prev.no + 1 = b.no := by simpa using hno
                split
                · exact Inv.cacheBad ht b
                · next main hmain =>
                  have hN1 : Inv exec txsOf U g { M with out := M.out ++ [Msg.notify b.id] } :=
                    Inv.same ht rfl rfl rfl rfl rfl rfl rfl rfl rfl
                  cases main with
                  | true =>
                    simp only [if_true]
                    obtain ⟨hpar, hnum⟩ := isMainChain_true ht hprev hno' hmain
                    split
                    · exact Inv.cacheBad (Inv.failNote hN1 b) b
                    · next N2 h2 => exact Inv.executeConnect hE hN1 hbU hpar hnum h2
                  | false =>
                    simp only [Bool.false_eq_true, if_false]
                    have hs := Inv.storeSide hN1 hbU
                    have hst : (Aergo.Chain.storeSide { M with out := M.out ++ [Msg.notify b.id] } b).blocks b.id = some b := by
                      simp [Aergo.Chain.storeSide]
                    split
                    · next hlt =>
                      have hr := Inv.reorg hE hU hs hst hlt
                      generalize Aergo.Chain.reorg exec (Aergo.Chain.storeSide { M with out := M.out ++ [Msg.notify b.id] } b) b = rr at hr
                      obtain ⟨res, N3⟩ := rr
                      simp only at hr
                      cases res <;> simp only
                      · exact hr
                      · exact hr
                      · exact Inv.cacheBad hr b
                    · exact hs

/-! ### fork choice (C07) -/

/-- The tip either stayed or moved strictly higher. -/
def Grew (N N' : Node) : Prop := (N'.best = N.best ∧ N'.latest = N.latest) ∨ N.latest < N'.latest

theorem Grew.rfl' (N : Node) : Grew N N := Or.inl ⟨rfl, rfl⟩

theorem Grew.trans {A B C : Node} (h1 : Grew A B) (h2 : Grew B C) : Grew A C := by
  rcases h1 with ⟨a, b⟩ | a <;> rcases h2 with ⟨c, d⟩ | c
  · exact Or.inl ⟨by rw [c, a], by rw [d, b]⟩
  · exact Or.inr (by omega)
  · exact Or.inr (by omega)
  · exact Or.inr (by omega)

theorem execute_tip {N N' : Node} {b : Block} (he : Aergo.Chain.execute exec N b = some N') :
    N'.best = b ∧ N'.latest = b.no := by
  unfold Aergo.Chain.execute at he
  split at he
  · cases he
  · injection he with he; subst he; exact ⟨rfl, rfl⟩

theorem runLoop_grew (hE : ExecLaw exec txsOf) (main : Bool) (fuel : Nat) :
    ∀ (N : Node) (blk : Block) (last : Option Block), Inv exec txsOf U g N → U blk.id = some blk →
      (main = true → N.byNo N.latest = some blk.parent ∧ blk.no = N.latest + 1) →
      Grew N (Aergo.Chain.runLoop exec main fuel N blk last).2.1 := by
  induction fuel with
  | zero => intro N blk last _ _ _; exact Grew.rfl' N
  | succ fuel ih =>
    intro N blk last h hbU hm
    simp only [Aergo.Chain.runLoop]
    split
    · exact Or.inl ⟨(failNote_fields N blk).2.2.2.1, (failNote_fields N blk).2.2.1⟩
    · next N1 hap =>
      have h1 : Inv exec txsOf U g N1 ∧ Grew N N1 ∧ (main = true → N1.byNo N1.latest = some blk.id ∧ N1.latest = blk.no) := by
        unfold Aergo.Chain.apply at hap
        split at hap
        · next hmain =>
          obtain ⟨t1, t2⟩ := execute_tip hap
          refine ⟨Inv.execute hE h hbU (hm hmain).1 (hm hmain).2 hap, Or.inr (by rw [t2, (hm hmain).2]; omega), fun _ => ?_⟩
          have hI := Inv.execute hE h hbU (hm hmain).1 (hm hmain).2 hap
          have := hI.best_main.1
          rw [hI.best_no, t1] at this
          exact ⟨this, t2⟩
        · next hmain =>
          injection hap with hap; subst hap
          exact ⟨Inv.storeSide h hbU, Or.inl ⟨rfl, rfl⟩, fun hc => absurd hc hmain⟩
      obtain ⟨hI1, hG1, hT1⟩ := h1
      split
      · exact hG1
      · next p o hf =>
        obtain ⟨hmem, hkey⟩ := find_mem hf
        have hp := hI1.poolU _ hmem
        split
        · exact hG1
        · next hno =>
          have hno' : blk.no + 1 = o.no := by simpa using hno
          have hkey' : p = blk.id := by simpa using hkey
          have hop : o.parent = blk.id := by have := hp.2; simp only at this; rw [this]; exact hkey'
          refine hG1.trans (Grew.trans (B := { N1 with orphans := N1.orphans.filter (fun e => e.1 != blk.id) }) (Or.inl ⟨rfl, rfl⟩) ?_)
          apply ih
          · exact Inv.frame hI1 (fun _ _ h => h) hI1.inU (fun e he => hI1.poolU e (List.mem_filter.mp he).1) rfl rfl rfl rfl
              (fun _ _ h => h) rfl rfl
          · exact hp.1
          · intro hmain
            obtain ⟨a, b⟩ := hT1 hmain
            exact ⟨by show N1.byNo N1.latest = some o.parent; rw [a, hop], by show o.no = N1.latest + 1; omega⟩

/-- The transactions sent back to the pool among a list of messages. -/
def putsOf (out : List Msg) : List Nat := out.filterMap (fun m => match m with | .put t => some t | _ => none)

theorem putsOf_append (a b : List Msg) : putsOf (a ++ b) = putsOf a ++ putsOf b := by simp [putsOf]

theorem putsOf_map_put (l : List Nat) : putsOf (l.map Msg.put) = l := by
  induction l with
  | nil => rfl
  | cons a l ih => simp only [List.map_cons, putsOf, List.filterMap_cons] at ih ⊢; rw [ih]

theorem rollforward_puts : ∀ (l : List Block) (N N2 : Node) (ok : Bool), rollforward exec N l = (ok, N2) →
    putsOf N2.out = putsOf N.out := by
  intro l
  induction l with
  | nil => intro N N2 ok hr; simp only [rollforward] at hr; injection hr with _ h2; subst h2; rfl
  | cons x l ih =>
    intro N N2 ok hr
    simp only [rollforward] at hr
    split at hr
    · injection hr with _ h2; subst h2
      rcases failNote_out N x with hf | hf <;> rw [hf] <;> simp [putsOf]
    · next N1 h1 =>
      obtain ⟨_, _, hN1⟩ := executeBlock_some h1
      rw [ih N1 N2 ok hr, hN1]
      simp [putsOf]

/-- What a reorganisation that is carried out is. -/
theorem reorg_done (hU : UKeyed U) {N N' : Node} (h : Inv exec txsOf U g N) {top : Block}
    (hst : N.blocks top.id = some top) (hgt : N.latest < top.no) (hr : Aergo.Chain.reorg exec N top = (.done, N')) :
    ∃ gt, gather N top = some gt ∧ GatherSpec N top gt ∧ N.lib ≤ gt.brStart.no ∧
      ExecAsc exec gt.brStart gt.newB.reverse ∧ (∀ x ∈ gt.newB, x.consOk = true) ∧
      N'.best = top ∧ N'.latest = top.no ∧ N'.sdbRoot = top.claimed ∧
      putsOf N'.out = putsOf N.out ++
        sortDedup ((gt.oldB.flatMap (·.txs)).filter (fun t => !(gt.newB.reverse.any (fun b => b.txs.contains t)))) := by
  unfold Aergo.Chain.reorg at hr
  split at hr
  · cases hr
  · next gt hg =>
    have gs := gather_spec hU h hst hgt hg
    split at hr
    · cases hr
    · next hlib =>
      dsimp only at hr
      split at hr
      · cases hr
      · next N2 hrf =>
        obtain ⟨f1, f2, f3, f4, f5, f6, f7, f8, f9⟩ := rollforward_frame _ _ _ _ hrf
        obtain ⟨hea, hroot2, _⟩ := rollforward_ok _ _ _ gt.brStart rfl hrf
        have hputs := rollforward_puts _ _ _ _ hrf
        have hcons : ∀ (l : List Block) (M M2 : Node), rollforward exec M l = (true, M2) → ∀ x ∈ l, x.consOk = true := by
          intro l
          induction l with
          | nil => intro _ _ _ x hx; cases hx
          | cons a l ih =>
            intro M M2 hm x hx
            simp only [rollforward] at hm
            split at hm
            · cases hm
            · next M1 hM1 =>
              obtain ⟨_, hc, _⟩ := executeBlock_some hM1
              rcases List.mem_cons.mp hx with rfl | hx'
              · exact hc
              · exact ih M1 M2 hm x hx'
        have hlast : (gt.newB.reverse.getLastD gt.brStart) = top := by
          have hnt := gs.new_top
          have hnne := gs.new_ne
          cases hnb : gt.newB with
          | nil => exact absurd hnb hnne
          | cons a l => rw [hnb] at hnt; simp only [List.head?_cons, Option.some.injEq] at hnt; subst hnt; simp
        rw [hlast] at hroot2
        have hnge : ¬ (N2.latest ≥ top.no) := by rw [f3]; show ¬ (N.latest ≥ top.no); omega
        unfold swapChain at hr
        simp only [if_neg hnge] at hr
        injection hr with _ hr; subst hr
        refine ⟨gt, hg, gs, by omega, hea, fun x hx => hcons _ _ _ hrf x (List.mem_reverse.mpr hx), rfl, rfl, hroot2, ?_⟩
        have hp0 : putsOf [Msg.upd gt.brStart.id] = [] := rfl
        simp only [putsOf_append, hputs, putsOf_map_put, hp0, List.append_nil]

/-- A reorganisation that is not carried out (no branch root, vetoed below the last irreversible block, an invalid
block on the new branch) leaves the tip, the height index, the tx index and the state root where they were and
offers nothing to the pool. -/
theorem reorg_not_done {N N' : Node} (h : Inv exec txsOf U g N) {top : Block} {res : ReorgRes}
    (hgt : N.latest < top.no) (hr : Aergo.Chain.reorg exec N top = (res, N')) (hres : res ≠ .done) :
    N'.best = N.best ∧ N'.latest = N.latest ∧ N'.byNo = N.byNo ∧ N'.txIdx = N.txIdx ∧ N'.sdbRoot = N.sdbRoot ∧
    putsOf N'.out = putsOf N.out := by
  unfold Aergo.Chain.reorg at hr
  split at hr
  · injection hr with _ hr; subst hr; exact ⟨rfl, rfl, rfl, rfl, rfl, rfl⟩
  · next gt hg =>
    split at hr
    · injection hr with _ hr; subst hr; exact ⟨rfl, rfl, rfl, rfl, rfl, rfl⟩
    · dsimp only at hr
      split at hr
      · next N2 hrf =>
        obtain ⟨f1, f2, f3, f4, f5, f6, f7, f8, f9⟩ := rollforward_frame _ _ _ _ hrf
        have hputs := rollforward_puts _ _ _ _ hrf
        injection hr with _ hr; subst hr
        refine ⟨f4, f3, f2, f5, h.root.symm, ?_⟩
        have hp0 : putsOf [Msg.upd gt.brStart.id] = [] := rfl
        have hp1 : putsOf [Msg.upd N.best.id, Msg.del N.best.id] = [] := rfl
        simp only [putsOf_append, hputs, hp0, hp1, List.append_nil]
      · next N2 hrf =>
        obtain ⟨f1, f2, f3, f4, f5, f6, f7, f8, f9⟩ := rollforward_frame _ _ _ _ hrf
        have hnge : ¬ (N2.latest ≥ top.no) := by rw [f3]; show ¬ (N.latest ≥ top.no); omega
        unfold swapChain at hr
        simp only [if_neg hnge] at hr
        injection hr with hr1 _
        exact absurd hr1.symm hres

/-- **Completeness of the switch**: when the branch root is found, it is not below the last irreversible block, and the
new branch executes block by block (and the consensus accepts its blocks), the reorganisation is carried out. -/
theorem reorg_complete {N : Node} {top : Block} {gt : Gather} (hg : gather N top = some gt) (hlib : N.lib ≤ gt.brStart.no)
    (hgt : N.latest < top.no) (hea : ExecAsc exec gt.brStart gt.newB.reverse) (hc : ∀ x ∈ gt.newB, x.consOk = true) :
    (Aergo.Chain.reorg exec N top).1 = .done := by
  unfold Aergo.Chain.reorg
  rw [hg]
  simp only
  have : ¬ (gt.brStart.no < N.lib) := by omega
  rw [if_neg this]
  obtain ⟨N2, hN2⟩ := rollforward_complete (exec := exec) gt.newB.reverse
    { N with sdbRoot := gt.brStart.claimed, out := N.out ++ [Msg.upd gt.brStart.id] } gt.brStart rfl hea
    (fun x hx => hc x (List.mem_reverse.mp hx))
  rw [hN2]
  obtain ⟨_, _, f3, _⟩ := rollforward_frame _ _ _ _ hN2
  have hnge : ¬ (N2.latest ≥ top.no) := by rw [f3]; show ¬ (N.latest ≥ top.no); omega
  simp only [swapChain, if_neg hnge]

theorem reorg_grew {N : Node} (top : Block) : Grew N (Aergo.Chain.reorg exec N top).2 := by
  unfold Aergo.Chain.reorg
  split
  · exact Grew.rfl' N
  · split
    · exact Grew.rfl' N
    · dsimp only
      split
      · next N2 hrf =>
        obtain ⟨_, _, f3, f4, _⟩ := rollforward_frame _ _ _ _ hrf
        exact Or.inl ⟨f4, f3⟩
      · next N2 hrf =>
        obtain ⟨_, _, f3, f4, _⟩ := rollforward_frame _ _ _ _ hrf
        by_cases hc : N2.latest ≥ top.no
        · simp only [swapChain, if_pos hc]
          exact Or.inl ⟨f4, f3⟩
        · simp only [swapChain, if_neg hc]
          exact Or.inr (by show N.latest < top.no; have : N2.latest = N.latest := f3; omega)

/-- **The tip is never displaced by anything that is not strictly higher**: after any arrival the best block is the
same block as before, or the best height grew. -/
theorem addBlock_grew (hE : ExecLaw exec txsOf) {N : Node} (h : Inv exec txsOf U g N) {b : Block}
    (hbU : U b.id = some b) : Grew N (Aergo.Chain.addBlock exec N b).2 := by
  unfold Aergo.Chain.addBlock
  have h0 : Inv exec txsOf U g { N with out := [] } := Inv.same h rfl rfl rfl rfl rfl rfl rfl rfl rfl
  have ht := Inv.touchBad h0 b.id
  have hg0 : Grew N (Aergo.Chain.touchBad { N with out := [] } b.id).2 := by
    unfold Aergo.Chain.touchBad
    split <;> exact Or.inl ⟨rfl, rfl⟩
  generalize Aergo.Chain.touchBad { N with out := [] } b.id = tb at ht hg0
  obtain ⟨hit, M⟩ := tb
  simp only at ht hg0 ⊢
  have cb : ∀ X : Node, Grew M X → Grew N (Aergo.Chain.cacheBad X b) := fun X hX =>
    hg0.trans (hX.trans (Or.inl ⟨rfl, rfl⟩))
  split
  · exact hg0
  · split
    · exact hg0
    · split
      · exact hg0
      · split
        · exact cb M (Grew.rfl' M)
        · split
          · split
            · exact hg0
            · next N1 ha =>
              refine hg0.trans (Or.inl ?_)
              unfold Aergo.Chain.addOrphan at ha
              split at ha
              · injection ha with ha; subst ha; exact ⟨rfl, rfl⟩
              · split at ha
                · split at ha
                  · cases ha
                  · injection ha with ha; subst ha; exact ⟨rfl, rfl⟩
                · injection ha with ha; subst ha; exact ⟨rfl, rfl⟩
          · next prev hprev =>
            split
            · exact cb M (Grew.rfl' M)
            · next hno =>
              have hno' : prev.no + 1 = b.no := by simpa using hno
              split
              · exact cb M (Grew.rfl' M)
              · next main hmain =>
                have hpre : main = true → M.byNo M.latest = some b.parent ∧ b.no = M.latest + 1 := by
                  intro hm; subst hm
                  unfold isMainChain at hmain
                  split at hmain
                  · cases hmain
                  · split at hmain
                    · cases hmain
                    · next hh hby =>
                      injection hmain with hmain
                      have hpar : b.parent = hh := by simpa using hmain
                      subst hpar
                      refine ⟨hby, ?_⟩
                      have hb1 := ht.best_main.1
                      rw [ht.best_no, hby] at hb1
                      have hid : b.parent = M.best.id := by injection hb1
                      have hb2 := ht.best_main.2
                      rw [← hid, hprev] at hb2
                      injection hb2 with hb2; subst hb2
                      rw [← ht.best_no]; omega
                have hrl := runLoop_grew (U := U) (g := g) hE main (M.orphans.length + 1) M b none ht hbU hpre
                generalize Aergo.Chain.runLoop exec main (M.orphans.length + 1) M b none = rl at hrl
                obtain ⟨ok, N1, last⟩ := rl
                simp only at hrl
                cases ok with
                | false => exact cb N1 hrl
                | true =>
                  simp only
                  split
                  · exact hg0.trans hrl
                  · split
                    · exact hg0.trans hrl
                    · next l =>
                      split
                      · have hr := reorg_grew (exec := exec) (N := N1) l
                        generalize Aergo.Chain.reorg exec N1 l = rr at hr
                        obtain ⟨res, N2⟩ := rr
                        simp only at hr
                        cases res <;> simp only
                        · exact hg0.trans (hrl.trans hr)
                        · exact hg0.trans (hrl.trans hr)
                        · exact cb N2 (hrl.trans hr)
                      · exact hg0.trans hrl

/-- The same for a block of the node's own block factory. -/
theorem addOwn_grew (hE : ExecLaw exec txsOf) {N : Node} (h : Inv exec txsOf U g N) {b : Block}
    (hbU : U b.id = some b) : Grew N (Aergo.Chain.addOwn exec N b).2 := by
  unfold Aergo.Chain.addOwn
  have h0 : Inv exec txsOf U g { N with out := [] } := Inv.same h rfl rfl rfl rfl rfl rfl rfl rfl rfl
  have ht := Inv.touchBad h0 b.id
  have hg0 : Grew N (Aergo.Chain.touchBad { N with out := [] } b.id).2 := by
    unfold Aergo.Chain.touchBad
    split <;> exact Or.inl ⟨rfl, rfl⟩
  generalize Aergo.Chain.touchBad { N with out := [] } b.id = tb at ht hg0
  obtain ⟨hit, M⟩ := tb
  simp only at ht hg0 ⊢
  have cb : ∀ X : Node, Grew M X → Grew N (Aergo.Chain.cacheBad X b) := fun X hX =>
    hg0.trans (hX.trans (Or.inl ⟨rfl, rfl⟩))
  split
  · exact hg0
  · split
    · exact hg0
    · split
      · exact hg0
      · split
        · exact hg0
        · split
          · exact cb M (Grew.rfl' M)
          · split
            · exact hg0
            · next prev hprev =>
              split
              · exact cb M (Grew.rfl' M)
              · next hno =>
                have hno' : prev.no + 1 = b.no := by simpa using hno
                split
                · exact cb M (Grew.rfl' M)
                · next main hmain =>
                  cases main with
                  | true =>
                    simp only [if_true]
                    obtain ⟨hpar, hnum⟩ := isMainChain_true ht hprev hno' hmain
                    split
                    · refine cb _ (Or.inl ?_)
                      exact ⟨(failNote_fields _ b).2.2.2.1, (failNote_fields _ b).2.2.1⟩
                    · next N2 h2 =>
                      obtain ⟨_, _, hN2⟩ := executeBlock_some h2
                      refine hg0.trans (Or.inr ?_)
                      show M.latest < b.no
                      omega
                  | false =>
                    simp only [Bool.false_eq_true, if_false]
                    have hgs : Grew M (Aergo.Chain.storeSide { M with out := M.out ++ [Msg.notify b.id] } b) := Or.inl ⟨rfl, rfl⟩
                    split
                    · have hr := reorg_grew (exec := exec) (N := Aergo.Chain.storeSide { M with out := M.out ++ [Msg.notify b.id] } b) b
                      generalize Aergo.Chain.reorg exec (Aergo.Chain.storeSide { M with out := M.out ++ [Msg.notify b.id] } b) b = rr at hr
                      obtain ⟨res, N3⟩ := rr
                      simp only at hr
                      cases res <;> simp only
                      · exact hg0.trans (hgs.trans hr)
                      · exact hg0.trans (hgs.trans hr)
                      · exact cb N3 (hgs.trans hr)
                    · exact hg0.trans hgs

/-! ### `gather` finds every stored branch that leaves the main chain below the tip -/

/-- `d` (highest first) is a parent-linked chain of consecutive heights ending right above `S`. -/
def DescTo (S : Block) : List Block → Prop
  | [] => False
  | [x] => x.parent = S.id ∧ x.no = S.no + 1
  | x :: y :: r => x.parent = y.id ∧ x.no = y.no + 1 ∧ DescTo S (y :: r)

theorem descTo_snoc (S x : Block) (hx : x.parent = S.id ∧ x.no = S.no + 1) :
    ∀ d : List Block, (d ≠ [] → DescTo x d) → DescTo S (d ++ [x]) := by
  intro d
  induction d with
  | nil => intro _; exact hx
  | cons a d ih =>
    intro hd
    have had := hd (by simp)
    cases d with
    | nil => exact ⟨had.1, had.2, hx⟩
    | cons b r => exact ⟨had.1, had.2.1, ih (fun _ => had.2.2)⟩

theorem asc_reverse_descTo : ∀ (l : List Block) (S : Block), Asc S l → l ≠ [] → DescTo S l.reverse := by
  intro l
  induction l with
  | nil => intro S _ h; exact absurd rfl h
  | cons x l ih =>
    intro S ha _
    obtain ⟨hp, hn, ha'⟩ := ha
    rw [List.reverse_cons]
    exact descTo_snoc S x ⟨hp, hn⟩ l.reverse (fun hne => ih x ha' (by intro hc; subst hc; exact hne rfl))

theorem gatherLoop_total {N : Node} (h : Inv exec txsOf U g N) {S : Block} (hS : onMain N S)
    (hSlt : S.no < N.latest) :
    ∀ (d : List Block), DescTo S d → (∀ x ∈ d, N.blocks x.id = some x ∧ ¬ onMain N x) →
    ∀ (fuel : Nat) (old new : List Block) (br : Block), d.head? = some br → d.length + 1 ≤ fuel →
      ∃ old', gatherLoop N fuel br old new = some ⟨S, new ++ d, old'⟩ := by
  have byNo_main : ∀ k, k ≤ N.latest → ∃ c, onMain N c ∧ c.no = k ∧ blockByNo N k = some c := by
    intro k hk
    obtain ⟨c, hc, hcn, _⟩ := h.chain k hk
    exact ⟨c, hc, hcn, by unfold blockByNo; rw [← hcn, hc.1]; exact hc.2⟩
  -- the last step: at the branch root
  have atRoot : ∀ (fuel : Nat) (old new : List Block), old ≠ [] → new ≠ [] →
      gatherLoop N (fuel + 1) S old new = some ⟨S, new, old⟩ := by
    intro fuel old new ho hn
    obtain ⟨c, hc, hcn, hbn⟩ := byNo_main S.no (by omega)
    have : c = S := onMain_inj hc hS hcn
    subst this
    simp only [gatherLoop]
    rw [if_pos (by omega : c.no ≤ N.latest), hbn]
    simp only [if_true]
    rw [if_neg (by omega : ¬ N.latest = c.no)]
    have : (new.isEmpty || old.isEmpty) = false := by
      cases new <;> cases old <;> simp_all
    simp [this]
  -- one step down from a block that is not on the main chain
  have stepDown : ∀ (fuel : Nat) (old new : List Block) (x p : Block), N.blocks x.id = some x → ¬ onMain N x →
      N.blocks x.parent = some p → x.no = p.no + 1 →
      ∃ old', (old' ≠ [] ∨ N.latest < x.no) ∧ (x.no ≤ N.latest → old' ≠ []) ∧
        gatherLoop N (fuel + 1) x old new = gatherLoop N fuel p old' (new ++ [x]) := by
    intro fuel old new x p hx hnm hp hno
    simp only [gatherLoop]
    have hx0 : ¬ (x.no = 0) := by omega
    have hpn : ¬ (x.no - 1 ≠ p.no) := by omega
    by_cases hle : x.no ≤ N.latest
    · obtain ⟨c, hc, hcn, hbn⟩ := byNo_main x.no hle
      have hid : ¬ (x.id = c.id) := by
        intro hid
        have := hc.2; rw [← hid, hx] at this; injection this with this
        subst this; exact hnm hc
      refine ⟨old ++ [c], Or.inl (by simp), fun _ => by simp, ?_⟩
      rw [if_pos hle, hbn]
      simp only [if_neg hid, if_neg hx0, hp, if_neg hpn]
    · refine ⟨old, Or.inr (by omega), fun hc => absurd hc hle, ?_⟩
      rw [if_neg hle]
      simp only [if_neg hx0, hp, if_neg hpn]
  intro d
  induction d with
  | nil => intro hd; exact absurd hd (by simp [DescTo])
  | cons x d ih =>
    intro hd hst fuel old new br hbr hfuel
    simp only [List.head?_cons, Option.some.injEq] at hbr
    subst hbr
    obtain ⟨hxs, hxm⟩ := hst x (by simp)
    cases d with
    | nil =>
      obtain ⟨hp, hn⟩ := hd
      cases fuel with
      | zero => simp at hfuel
      | succ fuel =>
        obtain ⟨old', _, ho2, heq⟩ := stepDown fuel old new x S hxs hxm (by rw [hp]; exact hS.2) hn
        cases fuel with
        | zero => simp at hfuel
        | succ fuel =>
          refine ⟨old', ?_⟩
          rw [heq, atRoot fuel old' (new ++ [x]) (ho2 (by omega)) (by simp)]
    | cons y r =>
      obtain ⟨hp, hn, hd'⟩ := hd
      obtain ⟨hys, hym⟩ := hst y (by simp)
      cases fuel with
      | zero => simp at hfuel
      | succ fuel =>
        obtain ⟨old', _, _, heq⟩ := stepDown fuel old new x y hxs hxm (by rw [hp]; exact hys) hn
        obtain ⟨old'', hres⟩ := ih hd' (fun z hz => hst z (by simp [hz])) fuel old' (new ++ [x]) y rfl
          (by simp at hfuel ⊢; omega)
        refine ⟨old'', ?_⟩
        rw [heq, hres]
        simp

/-- **Whenever a strictly higher branch that leaves the main chain at or above the last irreversible block is fully
stored and executes block by block, a reorganisation to its top is carried out**: the best block becomes that top, the
state root is the root reached by executing the branch from the fork point, and the invariant holds again. -/
theorem reorg_switches (hE : ExecLaw exec txsOf) (hU : UKeyed U) {N : Node} (h : Inv exec txsOf U g N) {S top : Block}
    {l : List Block} (hS : onMain N S) (hSlt : S.no < N.latest) (hlib : N.lib ≤ S.no)
    (hasc : Asc S l) (hne : l ≠ []) (htop : l.getLastD S = top)
    (hst : ∀ x ∈ l, N.blocks x.id = some x ∧ ¬ onMain N x) (hgt : N.latest < top.no)
    (hea : ExecAsc exec S l) (hc : ∀ x ∈ l, x.consOk = true) :
    ∃ N', Aergo.Chain.reorg exec N top = (.done, N') ∧ N'.best = top ∧ N'.sdbRoot = top.claimed ∧
      N'.latest = top.no ∧ Inv exec txsOf U g N' := by
  have hd := asc_reverse_descTo l S hasc hne
  have hhead : l.reverse.head? = some top := by
    rw [← htop]
    cases hl : l.reverse with
    | nil => simp at hl; exact absurd hl hne
    | cons a r =>
      have : l = (a :: r).reverse := by rw [← hl]; simp
      subst this; simp
  have hlen : l.reverse.length + 1 ≤ top.no + 1 := by
    have := (asc_len l S hasc).2; rw [htop] at this; simp; omega
  obtain ⟨old', hg⟩ := gatherLoop_total h hS hSlt l.reverse hd
    (fun x hx => hst x (List.mem_reverse.mp hx)) (top.no + 1) [] [] top hhead hlen
  have hg' : gather N top = some ⟨S, l.reverse, old'⟩ := by simpa [gather] using hg
  have htopst : N.blocks top.id = some top := by
    have : top ∈ l.reverse := by
      cases hl : l.reverse with
      | nil => rw [hl] at hhead; cases hhead
      | cons a r => rw [hl] at hhead; simp only [List.head?_cons, Option.some.injEq] at hhead; subst hhead; simp
    exact (hst top (List.mem_reverse.mp this)).1
  have hdone := reorg_complete (exec := exec) hg' (by simpa using hlib) hgt (by simpa using hea)
    (fun x hx => hc x (List.mem_reverse.mp hx))
  have hI := Inv.reorg hE hU h htopst hgt
  generalize hr : Aergo.Chain.reorg exec N top = rr at hdone hI
  obtain ⟨res, N'⟩ := rr
  simp only at hdone hI
  subst hdone
  obtain ⟨gt, _, _, _, _, _, b1, b2, b3, _⟩ := reorg_done hU h htopst hgt hr
  exact ⟨N', rfl, b1, b3, b2, hI⟩

end

end Aergo.Chain
