import Aergo.Lemmas.Chain

/-! Fork choice at the level of arrivals and of histories (C07): which arrival triggers a reorganisation, with which top.
Core only. -/

namespace Aergo.Chain

section
variable {exec : Nat → Block → Option Nat} {txsOf : Nat → List Nat} {U : Nat → Option Block} {g : Block}

/-- **What one arrival connects out of the orphan pool** (specification, in terms of the pool alone: one slot per missing
parent). `Parked orph b chain`: `chain` is the sequence of parked blocks reached from `b` by following "the block parked
under the identifier of the last one", each numbered right after its predecessor, until no block is parked under the
last one; a slot is consumed when it is followed. -/
inductive Parked : List (Nat × Block) → Block → List Block → Prop
  | done {orph : List (Nat × Block)} {b : Block} :
      orph.find? (fun e => e.1 == b.id) = none → Parked orph b []
  | step {orph : List (Nat × Block)} {b o : Block} {p : Nat} {rest : List Block} :
      orph.find? (fun e => e.1 == b.id) = some (p, o) → b.no + 1 = o.no →
      Parked (orph.filter (fun e => e.1 != b.id)) o rest → Parked orph b (o :: rest)

theorem filter_length_lt {α : Type} (p : α → Bool) : ∀ (l : List α) (a : α), a ∈ l → p a = false →
    (l.filter p).length < l.length := by
  intro l
  induction l with
  | nil => intro a ha; cases ha
  | cons x l ih =>
    intro a ha hp
    simp only [List.filter_cons]
    rcases List.mem_cons.mp ha with rfl | ha
    · rw [hp]
      have := List.length_filter_le p l
      simp only [Bool.false_eq_true, if_false, List.length_cons]; omega
    · have := ih a ha hp
      split <;> simp only [List.length_cons] <;> omega

/-- Every followed slot is consumed: the chain is no longer than the pool (so the fuel of the run loop suffices). -/
theorem parked_length {orph : List (Nat × Block)} {b : Block} {chain : List Block} (h : Parked orph b chain) :
    chain.length ≤ orph.length := by
  induction h with
  | done _ => simp
  | @step orph b o p rest hf _ _ ih =>
    obtain ⟨hmem, hkey⟩ := find_mem hf
    have := filter_length_lt (fun e : Nat × Block => e.1 != b.id) orph (p, o) hmem (by simpa using hkey)
    simp only [List.length_cons]; omega

theorem storeSide_mono {N : Node} (h : Inv exec txsOf U g N) {b : Block} (hbU : U b.id = some b) :
    ∀ i x, N.blocks i = some x → (storeSide N b).blocks i = some x := by
  intro i x hx
  simp only [storeSide, upd_apply]
  split
  · next hi => subst hi; have := h.inU _ _ hx; rw [hbU] at this; exact this.symm ▸ rfl
  · exact hx

/-- **The run loop on a side branch, against the specification `Parked`**: it stores the arriving block and exactly the
parked chain under it, touches nothing else of the chain DB, and leaves `cp.lastBlock` at the end of that chain. -/
theorem runLoop_side (hU : UKeyed U) : ∀ (chain : List Block) (fuel : Nat) (N : Node) (b : Block) (last : Option Block),
    Inv exec txsOf U g N → U b.id = some b → Parked N.orphans b chain → chain.length < fuel →
    ∃ N', runLoop exec false fuel N b last = (true, N', some ((b :: chain).getLastD b)) ∧
      (∀ i x, N.blocks i = some x → N'.blocks i = some x) ∧ (∀ x ∈ b :: chain, N'.blocks x.id = some x) ∧
      N'.byNo = N.byNo ∧ N'.latest = N.latest ∧ N'.best = N.best ∧ N'.sdbRoot = N.sdbRoot ∧ N'.lib = N.lib ∧
      (∀ e ∈ N'.orphans, e ∈ N.orphans) ∧ (∀ x ∈ chain, ∃ e ∈ N.orphans, e.2 = x) ∧
      Inv exec txsOf U g N' ∧
      (∀ i x, N'.blocks i = some x → N.blocks i = some x ∨ x ∈ b :: chain) ∧
      (∀ e ∈ N'.orphans, ∀ x ∈ b :: chain, e.1 ≠ x.id) ∧ N'.bad = N.bad ∧ N'.out = N.out := by
  intro chain
  induction chain with
  | nil =>
    intro fuel N b last h hbU hp hlen
    cases fuel with
    | zero => simp at hlen
    | succ fuel =>
      cases hp with
      | done hf =>
        refine ⟨storeSide N b, ?_, storeSide_mono h hbU, ?_, rfl, rfl, rfl, rfl, rfl, fun e he => he, ?_, Inv.storeSide h hbU,
          ?_, ?_, rfl, rfl⟩
        · simp only [runLoop, Aergo.Chain.apply, Bool.false_eq_true, if_false]
          have : (storeSide N b).orphans = N.orphans := rfl
          rw [this, hf]
          simp
        · intro x hx
          simp only [List.mem_singleton] at hx; subst hx
          simp [storeSide]
        · intro x hx; cases hx
        · intro i x hx
          simp only [storeSide, upd_apply] at hx
          split at hx
          · injection hx with hx; right; simp [hx]
          · left; exact hx
        · intro e he x hx
          simp only [List.mem_singleton] at hx; subst hx
          intro hk
          have he' : e ∈ N.orphans := he
          have := List.find?_eq_none.mp hf e he'
          simp [hk] at this
  | cons o rest ih =>
    intro fuel N b last h hbU hp hlen
    cases fuel with
    | zero => simp at hlen
    | succ fuel =>
      cases hp with
      | @step _ _ _ p _ hf hno hrest =>
        obtain ⟨hmem, hkey⟩ := find_mem hf
        have h1 := Inv.storeSide h hbU
        have hoU := (h.poolU _ hmem).1
        simp only at hoU
        have h2 : Inv exec txsOf U g { storeSide N b with orphans := N.orphans.filter (fun e => e.1 != b.id) } :=
          Inv.frame h1 (fun _ _ hb => hb) h1.inU (fun e he => h1.poolU e (List.mem_filter.mp he).1) rfl rfl rfl rfl
            (fun _ _ hr => hr) rfl rfl
        obtain ⟨N', hrun, m1, m2, e1, e2, e3, e4, e5, e6, e7, hI, a1, a2, a3, a4⟩ :=
          ih fuel { storeSide N b with orphans := N.orphans.filter (fun e => e.1 != b.id) } o (some b) h2 hoU hrest
            (by simp only [List.length_cons] at hlen; omega)
        refine ⟨N', ?_, fun i x hx => m1 i x (storeSide_mono h hbU i x hx), ?_, e1, e2, e3, e4, e5, ?_, ?_, hI, ?_, ?_, a3, a4⟩
        · simp only [runLoop, Aergo.Chain.apply, Bool.false_eq_true, if_false]
          have : (storeSide N b).orphans = N.orphans := rfl
          rw [this, hf]
          simp only [hno, ne_eq, not_true_eq_false, if_false]
          rw [hrun]
          simp [List.getLastD]
        · intro x hx
          rcases List.mem_cons.mp hx with rfl | hx
          · exact m1 _ _ (by simp [storeSide])
          · exact m2 x hx
        · intro e he
          exact (List.mem_filter.mp (e6 e he)).1
        · intro x hx
          rcases List.mem_cons.mp hx with rfl | hx
          · exact ⟨(p, x), hmem, rfl⟩
          · obtain ⟨e, he, hex⟩ := e7 x hx
            exact ⟨e, (List.mem_filter.mp he).1, hex⟩
        · intro i x hx
          rcases a1 i x hx with hx | hx
          · simp only [storeSide, upd_apply] at hx
            split at hx
            · injection hx with hx; right; simp [hx]
            · left; exact hx
          · right; simp [List.mem_cons.mp hx]
        · intro e he x hx
          rcases List.mem_cons.mp hx with rfl | hx
          · have := (List.mem_filter.mp (e6 e he)).2
            simpa using this
          · exact a2 e he x hx

/-- Looking a block up in the errored-blocks cache changes nothing but the cache's recency order. -/
theorem touchBad_fields (N : Node) (id : Nat) :
    (touchBad N id).2.blocks = N.blocks ∧ (touchBad N id).2.byNo = N.byNo ∧ (touchBad N id).2.latest = N.latest ∧
    (touchBad N id).2.best = N.best ∧ (touchBad N id).2.sdbRoot = N.sdbRoot ∧ (touchBad N id).2.lib = N.lib ∧
    (touchBad N id).2.orphans = N.orphans ∧ (touchBad N id).2.orphanCap = N.orphanCap := by
  unfold touchBad; split <;> simp

theorem touchBad_hit {N : Node} {id : Nat} {x : Block} (h : (touchBad N id).1 = some x) : (id, x) ∈ N.bad := by
  unfold touchBad at h
  split at h
  · cases h
  · next e he =>
    obtain ⟨hmem, hk⟩ := find_mem he
    simp only at h
    injection h with h
    have : e = (id, x) := by
      have : e.1 = id := by simpa using hk
      rw [← this, ← h]
    rw [← this]; exact hmem

/-- **Which arrival triggers a reorganisation, and to which block** (arrival-level form of the first sentence of C07).
`S` is a main-chain block below the tip and not below the last irreversible height. `pre ++ b :: chain` is a parent-linked
chain of consecutive heights starting right above `S`: `pre` is already stored (off the main chain), `b` is the arriving
block (honest identifier, not stored yet, not known as errored with this content, right fork version and block
signature) and `chain` is what
is parked under it in the orphan pool (`Parked`). None of these blocks is the main-chain block at its height, the chain
executes block by block starting on `S`'s state root with the consensus accepting every block, and its last block `top`
is strictly higher than the best block. Then this arrival — and no later one is needed — makes `top` the best block:
the answer is `ok`, the state root is `top`'s, the database is consistent. -/
theorem addBlock_switches (hE : ExecLaw exec txsOf) (hU : UKeyed U) {N : Node} (h : Inv exec txsOf U g N)
    {S b top : Block} {pre chain : List Block}
    (hS : onMain N S) (hSlt : S.no < N.latest) (hlib : N.lib ≤ S.no)
    (hasc : Asc S (pre ++ b :: chain))
    (hpre : ∀ x ∈ pre, N.blocks x.id = some x)
    (hbU : U b.id = some b) (hnew : N.blocks b.id = none) (hnb : (b.id, b) ∉ N.bad) (hver : b.verBad = false) (hsig : b.sigBad = false)
    (hpark : Parked N.orphans b chain)
    (hoff : ∀ x ∈ pre ++ b :: chain, N.byNo x.no ≠ some x.id)
    (htop : (b :: chain).getLastD b = top) (hgt : N.latest < top.no)
    (hea : ExecAsc exec S (pre ++ b :: chain)) (hc : ∀ x ∈ pre ++ b :: chain, x.consOk = true) :
    (addBlock exec N b).1 = .ok ∧ (addBlock exec N b).2.best = top ∧ (addBlock exec N b).2.sdbRoot = top.claimed ∧
    (addBlock exec N b).2.latest = top.no ∧ Inv exec txsOf U g (addBlock exec N b).2 := by
  -- the parent of `b`: the last block of `S :: pre`
  have hparent : ∃ prev, N.blocks b.parent = some prev ∧ prev.no + 1 = b.no ∧ (prev = S ∨ prev ∈ pre) := by
    have key : ∀ (pre : List Block) (S : Block), Asc S (pre ++ b :: chain) →
        ∃ prev, (prev = S ∨ prev ∈ pre) ∧ b.parent = prev.id ∧ b.no = prev.no + 1 := by
      intro pre
      induction pre with
      | nil => intro S ha; exact ⟨S, Or.inl rfl, ha.1, ha.2.1⟩
      | cons x pre ih =>
        intro S ha
        obtain ⟨prev, hp, h1, h2⟩ := ih x ha.2.2
        refine ⟨prev, Or.inr ?_, h1, h2⟩
        rcases hp with rfl | hp
        · simp
        · simp [hp]
    obtain ⟨prev, hp, h1, h2⟩ := key pre S hasc
    refine ⟨prev, ?_, by omega, hp⟩
    rw [h1]
    rcases hp with rfl | hp
    · exact hS.2
    · exact hpre prev hp
  obtain ⟨prev, hprev, hpno, hpwhere⟩ := hparent
  unfold Aergo.Chain.addBlock
  have h0 : Inv exec txsOf U g { N with out := [] } := Inv.same h rfl rfl rfl rfl rfl rfl rfl rfl rfl
  have ht := Inv.touchBad h0 b.id
  have hhit : (touchBad { N with out := [] } b.id).1 ≠ some b := fun hx =>
    hnb (touchBad_hit (N := { N with out := [] }) hx)
  obtain ⟨t1, t2, t3, t4, t5, t6, t7, _⟩ := touchBad_fields { N with out := [] } b.id
  generalize Aergo.Chain.touchBad { N with out := [] } b.id = tb at ht hhit t1 t2 t3 t4 t5 t6 t7
  obtain ⟨hit, M⟩ := tb
  simp only at ht hhit t1 t2 t3 t4 t5 t6 t7 ⊢
  have e1 : M.blocks = N.blocks := t1
  have e2 : M.byNo = N.byNo := t2
  have e3 : M.latest = N.latest := t3
  have e7 : M.orphans = N.orphans := t7
  rw [if_neg hhit]
  have hns : ¬ (M.blocks b.id).isSome = true := by rw [e1, hnew]; simp
  rw [if_neg hns]
  simp only [hver, hsig, Bool.false_eq_true, if_false]
  rw [e1, hprev]
  simp only
  rw [if_neg (by omega : ¬ (prev.no + 1 ≠ b.no))]
  -- `b` does not extend the tip
  have hmc : isMainChain M b = some false := by
    unfold isMainChain
    by_cases hcond : b.no > 0 ∧ b.no ≠ M.latest + 1
    · rw [if_pos hcond]
    · rw [if_neg hcond]
      have hbm := ht.best_main
      have hbyl : M.byNo M.latest = some M.best.id := by rw [← ht.best_no]; exact hbm.1
      rw [hbyl]
      simp only [Option.some.injEq, decide_eq_false_iff_not]
      intro hpar
      -- then `prev` is the best block
      have : prev = M.best := by
        have h2 := hbm.2
        rw [← hpar, e1, hprev] at h2
        injection h2
      have hpl : prev.no = N.latest := by rw [this, ht.best_no, e3]
      rcases hpwhere with rfl | hp
      · omega
      · have hoffp := hoff prev (by simp [hp])
        apply hoffp
        rw [this, ← e2]; exact hbm.1
  rw [hmc]
  simp only
  -- the run loop stores `b` and the parked chain
  have hpark' : Parked M.orphans b chain := by rw [e7]; exact hpark
  have hfuel : chain.length < M.orphans.length + 1 := by have := parked_length hpark'; omega
  obtain ⟨N1, hrun, m1, m2, r1, r2, r3, r4, r5, _, r7, hI1, _⟩ := runLoop_side (exec := exec) hU chain (M.orphans.length + 1) M b none ht hbU hpark' hfuel
  rw [hrun]
  simp only [Bool.false_eq_true, if_false, htop]
  have hlt1 : N1.latest < top.no := by rw [r2, e3]; exact hgt
  rw [if_pos hlt1]
  -- the branch is stored in `N1`, off its main chain
  have hoff1 : ∀ x ∈ pre ++ b :: chain, N1.blocks x.id = some x ∧ ¬ onMain N1 x := by
    intro x hx
    refine ⟨?_, fun hm => hoff x hx (by rw [← e2, ← r1]; exact hm.1)⟩
    rcases List.mem_append.mp hx with hx | hx
    · exact m1 _ _ (by rw [e1]; exact hpre x hx)
    · exact m2 x hx
  have hS1 : onMain N1 S := ⟨by rw [r1, e2]; exact hS.1, m1 _ _ (by rw [e1]; exact hS.2)⟩
  have hlast : (pre ++ b :: chain).getLastD S = top := by
    rw [← htop]
    have : ∀ (pre : List Block) (S : Block), (pre ++ b :: chain).getLastD S = (b :: chain).getLastD b := by
      intro pre
      induction pre with
      | nil => intro S; simp [List.getLastD]
      | cons x pre ih => intro S; have := ih x; simp only [List.cons_append, List.getLastD_cons] at this ⊢; exact this
    exact this pre S
  obtain ⟨N2, hr, b1, b2, b3, hI2⟩ := reorg_switches hE hU hI1 hS1 (by rw [r2, e3]; exact hSlt) (by rw [r5, t6]; exact hlib)
    hasc (by simp) hlast hoff1 hlt1 hea hc
  rw [hr]
  exact ⟨rfl, b1, b2, b3, hI2⟩

/-- **… and when the end of the parked chain is not strictly higher than the best block, nothing is displaced**: the
arriving block and the chain parked under it are stored on their side branch, the best block, the height index, the state
root stay what they were (same hypotheses on the arriving block; no validity needed). -/
theorem addBlock_side_kept (hU : UKeyed U) {N : Node} (h : Inv exec txsOf U g N)
    {b prev top : Block} {chain : List Block}
    (hprev : N.blocks b.parent = some prev) (hpno : prev.no + 1 = b.no) (hnotbest : b.parent ≠ N.best.id ∨ b.no ≠ N.latest + 1)
    (hbU : U b.id = some b) (hnew : N.blocks b.id = none) (hnb : (b.id, b) ∉ N.bad) (hver : b.verBad = false) (hsig : b.sigBad = false)
    (hpark : Parked N.orphans b chain)
    (htop : (b :: chain).getLastD b = top) (hle : top.no ≤ N.latest) :
    (addBlock exec N b).1 = .ok ∧ (addBlock exec N b).2.best = N.best ∧ (addBlock exec N b).2.latest = N.latest ∧
    (addBlock exec N b).2.byNo = N.byNo ∧ (addBlock exec N b).2.sdbRoot = N.sdbRoot ∧
    (∀ x ∈ b :: chain, (addBlock exec N b).2.blocks x.id = some x) := by
  unfold Aergo.Chain.addBlock
  have h0 : Inv exec txsOf U g { N with out := [] } := Inv.same h rfl rfl rfl rfl rfl rfl rfl rfl rfl
  have ht := Inv.touchBad h0 b.id
  have hhit : (touchBad { N with out := [] } b.id).1 ≠ some b := fun hx =>
    hnb (touchBad_hit (N := { N with out := [] }) hx)
  obtain ⟨t1, t2, t3, t4, t5, t6, t7, _⟩ := touchBad_fields { N with out := [] } b.id
  generalize Aergo.Chain.touchBad { N with out := [] } b.id = tb at ht hhit t1 t2 t3 t4 t5 t6 t7
  obtain ⟨hit, M⟩ := tb
  simp only at ht hhit t1 t2 t3 t4 t5 t6 t7 ⊢
  have e1 : M.blocks = N.blocks := t1
  have e3 : M.latest = N.latest := t3
  have e7 : M.orphans = N.orphans := t7
  rw [if_neg hhit]
  have hns : ¬ (M.blocks b.id).isSome = true := by rw [e1, hnew]; simp
  rw [if_neg hns]
  simp only [hver, hsig, Bool.false_eq_true, if_false]
  rw [e1, hprev]
  simp only
  rw [if_neg (by omega : ¬ (prev.no + 1 ≠ b.no))]
  have hmc : isMainChain M b = some false := by
    unfold isMainChain
    by_cases hcond : b.no > 0 ∧ b.no ≠ M.latest + 1
    · rw [if_pos hcond]
    · rw [if_neg hcond]
      have hbm := ht.best_main
      have hbyl : M.byNo M.latest = some M.best.id := by rw [← ht.best_no]; exact hbm.1
      rw [hbyl]
      simp only [Option.some.injEq, decide_eq_false_iff_not]
      intro hpar
      rcases hnotbest with hnb' | hnb'
      · exact hnb' (by rw [hpar, t4])
      · apply hcond; rw [e3]; exact ⟨by omega, hnb'⟩
  rw [hmc]
  simp only
  have hpark' : Parked M.orphans b chain := by rw [e7]; exact hpark
  have hfuel : chain.length < M.orphans.length + 1 := by have := parked_length hpark'; omega
  obtain ⟨N1, hrun, m1, m2, r1, r2, r3, r4, r5, _, r7, hI1, _⟩ := runLoop_side (exec := exec) hU chain (M.orphans.length + 1) M b none ht hbU hpark' hfuel
  rw [hrun]
  simp only [Bool.false_eq_true, if_false, htop]
  have hlt1 : ¬ N1.latest < top.no := by rw [r2, e3]; omega
  rw [if_neg hlt1]
  exact ⟨rfl, by rw [r3, t4], by rw [r2, e3], by rw [r1, t2], by rw [r4, t5], m2⟩

end

end Aergo.Chain
