import Aergo.Lemmas.ChainFork

/-! Fork choice over histories (C07): after any history of arrivals of valid blocks the best block is as high as every
stored block, and every stored block lies on a fully stored, valid branch. Core only. -/

namespace Aergo.Chain

section
variable {exec : Nat → Block → Option Nat} {txsOf : Nat → List Nat} {U : Nat → Option Block} {g : Block}

/-- `b` is a valid block of the universe `U`: its identifier is honest, its fork version is the configured one, the
consensus accepts its signature and the block, and it is numbered right after its parent (the block of `U` its parent hash names) and executes on
its parent's state root, reaching the root it claims. -/
structure ValidIn (exec : Nat → Block → Option Nat) (U : Nat → Option Block) (b : Block) : Prop where
  honest : U b.id = some b
  ver : b.verBad = false
  sig : b.sigBad = false
  cons : b.consOk = true
  par : ∃ p, U b.parent = some p ∧ p.no + 1 = b.no ∧ exec p.claimed b = some b.claimed

/-- The invariant of histories of valid arrivals. -/
structure Good (exec : Nat → Block → Option Nat) (txsOf : Nat → List Nat) (U : Nat → Option Block) (g : Block)
    (N : Node) : Prop where
  inv : Inv exec txsOf U g N
  /-- every stored block but genesis is valid, and its parent is stored -/
  stored : ∀ i x, N.blocks i = some x → x = g ∨ (ValidIn exec U x ∧ ∃ p, N.blocks x.parent = some p)
  /-- a slot of the orphan pool is keyed by a parent that is missing -/
  slots : ∀ e ∈ N.orphans, N.blocks e.1 = none
  poolv : ∀ e ∈ N.orphans, ValidIn exec U e.2
  /-- **no stored block is higher than the best block** -/
  le : ∀ i x, N.blocks i = some x → x.no ≤ N.latest
  nobad : N.bad = []
  lib0 : N.lib = 0

theorem Good.same {N N' : Node} (h : Good exec txsOf U g N) (e1 : N'.blocks = N.blocks) (e2 : N'.byNo = N.byNo)
    (e3 : N'.latest = N.latest) (e4 : N'.best = N.best) (e5 : N'.txIdx = N.txIdx) (e6 : N'.rcpt = N.rcpt)
    (e7 : N'.marker = N.marker) (e8 : N'.sdbRoot = N.sdbRoot) (e9 : N'.orphans = N.orphans)
    (e10 : N'.latestKey = N.latestKey) (e11 : N'.bad = N.bad) (e12 : N'.lib = N.lib) : Good exec txsOf U g N' :=
  ⟨Inv.same h.inv e1 e2 e3 e4 e5 e6 e7 e8 e9 e10, by rw [e1]; exact h.stored, by rw [e9, e1]; exact h.slots,
   by rw [e9]; exact h.poolv, by rw [e1, e3]; exact h.le, by rw [e11]; exact h.nobad, by rw [e12]; exact h.lib0⟩

/-- The parent of a valid block, when stored, is the block the validity speaks about. -/
theorem ValidIn.parent_stored {N : Node} (h : Inv exec txsOf U g N) {b prev : Block} (hv : ValidIn exec U b)
    (hprev : N.blocks b.parent = some prev) : prev.no + 1 = b.no ∧ exec prev.claimed b = some b.claimed := by
  obtain ⟨p, hp, h1, h2⟩ := hv.par
  have := h.inU _ _ hprev
  rw [hp] at this; injection this with this; subst this
  exact ⟨h1, h2⟩

theorem genesis_not_valid (hg0 : g.no = 0) : ¬ ValidIn exec U g := by
  intro hv
  obtain ⟨p, _, h1, _⟩ := hv.par
  omega

/-- A block that is not stored is not the main-chain block at its height. -/
theorem off_main_of_not_stored {N : Node} (h : Inv exec txsOf U g N) {x : Block} (hx : N.blocks x.id = none) :
    N.byNo x.no ≠ some x.id := by
  intro hby
  have hle : x.no ≤ N.latest := by
    refine Nat.le_of_not_lt fun hlt => ?_
    have := h.above _ hlt; rw [hby] at this; cases this
  obtain ⟨c, hc, hcn, _⟩ := h.chain _ hle
  have h1 := hc.1; rw [hcn, hby] at h1
  have hid : x.id = c.id := by injection h1
  have := hc.2; rw [← hid, hx] at this; cases this

/-! ### chains -/

theorem asc_append : ∀ (l r : List Block) (S : Block), Asc S l → Asc (l.getLastD S) r → Asc S (l ++ r) := by
  intro l
  induction l with
  | nil => intro r S _ hr; exact hr
  | cons x l ih =>
    intro r S hl hr
    refine ⟨hl.1, hl.2.1, ih r x hl.2.2 ?_⟩
    rw [List.getLastD_cons] at hr; exact hr

theorem execAsc_append : ∀ (l r : List Block) (S : Block), ExecAsc exec S l → ExecAsc exec (l.getLastD S) r →
    ExecAsc exec S (l ++ r) := by
  intro l
  induction l with
  | nil => intro r S _ hr; exact hr
  | cons x l ih =>
    intro r S hl hr
    refine ⟨hl.1, ih r x hl.2 ?_⟩
    rw [List.getLastD_cons] at hr; exact hr

theorem getLastD_append_cons (l : List Block) (S b : Block) (r : List Block) :
    (l ++ b :: r).getLastD S = (b :: r).getLastD b := by
  induction l generalizing S with
  | nil => rfl
  | cons x l ih => rw [List.cons_append, List.getLastD_cons]; exact ih x

theorem asc_snoc (l : List Block) (S x : Block) (hl : Asc S l) (h1 : x.parent = (l.getLastD S).id)
    (h2 : x.no = (l.getLastD S).no + 1) : Asc S (l ++ [x]) :=
  asc_append l [x] S hl ⟨h1, h2, trivial⟩

/-- Every stored block hangs on the main chain by a stored, valid, off-main branch. -/
theorem branch_down (hU : UKeyed U) {N : Node} (hG : Good exec txsOf U g N) :
    ∀ (n : Nat) (x : Block), x.no ≤ n → N.blocks x.id = some x →
      ∃ S pre, onMain N S ∧ Asc S pre ∧ pre.getLastD S = x ∧ (∀ y ∈ pre, N.blocks y.id = some y ∧ ¬ onMain N y) ∧
        ExecAsc exec S pre ∧ (∀ y ∈ pre, y.consOk = true) := by
  intro n
  induction n with
  | zero =>
    intro x hx hst
    by_cases hm : onMain N x
    · refine ⟨x, [], hm, ?_, rfl, ?_, ?_, ?_⟩
      · simp [Asc]
      · intro y hy; cases hy
      · simp [ExecAsc]
      · intro y hy; cases hy
    · rcases hG.stored _ _ hst with rfl | ⟨hv, _⟩
      · exact absurd hG.inv.gen.1 hm
      · obtain ⟨p, _, h1, _⟩ := hv.par; omega
  | succ n ih =>
    intro x hx hst
    by_cases hm : onMain N x
    · refine ⟨x, [], hm, ?_, rfl, ?_, ?_, ?_⟩
      · simp [Asc]
      · intro y hy; cases hy
      · simp [ExecAsc]
      · intro y hy; cases hy
    · rcases hG.stored _ _ hst with rfl | ⟨hv, p, hp⟩
      · exact absurd hG.inv.gen.1 hm
      · obtain ⟨hpn, hpe⟩ := hv.parent_stored hG.inv hp
        have hpid : p.id = x.parent := Inv.keyed hU hG.inv hp
        obtain ⟨S, pre, hS, hasc, hlast, hst', hea, hc⟩ := ih p (by omega) (by rw [hpid]; exact hp)
        refine ⟨S, pre ++ [x], hS, asc_snoc pre S x hasc (by rw [hlast, hpid]) (by rw [hlast]; omega), ?_, ?_, ?_, ?_⟩
        · exact getLastD_append_cons pre S x []
        · intro y hy
          rcases List.mem_append.mp hy with hy | hy
          · exact hst' y hy
          · simp only [List.mem_singleton] at hy; subst hy; exact ⟨hst, hm⟩
        · exact execAsc_append pre [x] S hea ⟨by rw [hlast]; exact hpe, trivial⟩
        · intro y hy
          rcases List.mem_append.mp hy with hy | hy
          · exact hc y hy
          · simp only [List.mem_singleton] at hy; subst hy; exact hv.cons

/-! ### the orphan pool of a node that has only seen valid blocks -/

/-- A pool of valid blocks keyed by their parents: the chain parked under any honest block exists (the numbers fit). -/
theorem parked_exists : ∀ (n : Nat) (orph : List (Nat × Block)) (b : Block), orph.length ≤ n →
    (∀ e ∈ orph, ValidIn exec U e.2 ∧ e.2.parent = e.1) → U b.id = some b → ∃ chain, Parked orph b chain := by
  intro n
  induction n with
  | zero =>
    intro orph b hlen _ _
    have : orph = [] := List.eq_nil_of_length_eq_zero (by omega)
    subst this
    exact ⟨[], Parked.done rfl⟩
  | succ n ih =>
    intro orph b hlen hpool hbU
    cases hf : orph.find? (fun e => e.1 == b.id) with
    | none => exact ⟨[], Parked.done hf⟩
    | some e =>
      obtain ⟨p, o⟩ := e
      obtain ⟨hmem, hkey⟩ := find_mem hf
      have hkey' : p = b.id := by simpa using hkey
      obtain ⟨hv, hpar⟩ := hpool _ hmem
      simp only at hv hpar
      obtain ⟨q, hq, hqn, _⟩ := hv.par
      have hqb : q = b := by
        rw [hpar, hkey', hbU] at hq; injection hq with hq; exact hq.symm
      subst hqb
      have hlt := filter_length_lt (fun e : Nat × Block => e.1 != q.id) orph (p, o) hmem (by simpa using hkey)
      obtain ⟨rest, hrest⟩ := ih (orph.filter (fun e => e.1 != q.id)) o (by omega)
        (fun e he => hpool e (List.mem_filter.mp he).1) hv.honest
      exact ⟨o :: rest, Parked.step hf hqn hrest⟩

/-- What the parked chain of a pool of valid blocks looks like. -/
theorem parked_facts {orph : List (Nat × Block)} {b : Block} {chain : List Block} (hp : Parked orph b chain)
    (hpool : ∀ e ∈ orph, ValidIn exec U e.2 ∧ e.2.parent = e.1) (hbU : U b.id = some b) :
    Asc b chain ∧ ExecAsc exec b chain ∧ (∀ x ∈ chain, ValidIn exec U x) ∧
    (∀ x ∈ b :: chain, x.no ≤ ((b :: chain).getLastD b).no) := by
  induction hp with
  | done _ =>
    refine ⟨?_, ?_, ?_, ?_⟩
    · simp [Asc]
    · simp [ExecAsc]
    · intro x hx; cases hx
    · intro x hx
      simp only [List.mem_singleton] at hx; subst hx
      simp
  | @step orph b o p rest hf hno _ ih =>
    obtain ⟨hmem, hkey⟩ := find_mem hf
    have hkey' : p = b.id := by simpa using hkey
    obtain ⟨hv, hpar⟩ := hpool _ hmem
    simp only at hv hpar
    obtain ⟨q, hq, _, hqe⟩ := hv.par
    have hqb : q = b := by
      rw [hpar, hkey', hbU] at hq; injection hq with hq; exact hq.symm
    subst hqb
    obtain ⟨a1, a2, a3, a4⟩ := ih (fun e he => hpool e (List.mem_filter.mp he).1) hv.honest
    refine ⟨⟨by rw [hpar, hkey'], by omega, a1⟩, ⟨hqe, a2⟩, ?_, ?_⟩
    · intro x hx
      rcases List.mem_cons.mp hx with rfl | hx
      · exact hv
      · exact a3 x hx
    · intro x hx
      simp only [List.getLastD_cons] at a4 ⊢
      rcases List.mem_cons.mp hx with rfl | hx
      · have := a4 o (by simp); omega
      · exact a4 x hx

/-! ### the pieces of `addBlock` on a good node -/

theorem rollforward_bad : ∀ (l : List Block) (N N2 : Node) (ok : Bool), rollforward exec N l = (ok, N2) →
    N2.bad = N.bad := by
  intro l
  induction l with
  | nil => intro N N2 ok hr; simp only [rollforward] at hr; injection hr with _ h2; subst h2; rfl
  | cons x l ih =>
    intro N N2 ok hr
    simp only [rollforward] at hr
    split at hr
    · injection hr with _ h2; subst h2
      exact (failNote_fields N x).2.2.2.2.2.2.2.2.2.2.2.1
    · next N1 h1 =>
      obtain ⟨_, _, hN1⟩ := executeBlock_some h1
      rw [ih N1 N2 ok hr, hN1]

theorem swapChain_fields (N : Node) (gt : Gather) (top : Block) :
    (swapChain N gt top).2.blocks = N.blocks ∧ (swapChain N gt top).2.orphans = N.orphans ∧
    (swapChain N gt top).2.bad = N.bad ∧ (swapChain N gt top).2.lib = N.lib := by
  unfold swapChain
  dsimp only
  split <;> exact ⟨rfl, rfl, rfl, rfl⟩

/-- A reorganisation, whatever its outcome, leaves the block records, the orphan pool, the errored-blocks cache and the
last irreversible height alone. -/
theorem reorg_fields (N : Node) (top : Block) :
    (reorg exec N top).2.blocks = N.blocks ∧ (reorg exec N top).2.orphans = N.orphans ∧
    (reorg exec N top).2.bad = N.bad ∧ (reorg exec N top).2.lib = N.lib := by
  unfold reorg
  split
  · exact ⟨rfl, rfl, rfl, rfl⟩
  · split
    · exact ⟨rfl, rfl, rfl, rfl⟩
    · dsimp only
      split
      · next N2 hrf =>
        obtain ⟨f1, _, _, _, _, _, f7, f8, _⟩ := rollforward_frame _ _ _ _ hrf
        have fb := rollforward_bad _ _ _ _ hrf
        exact ⟨f1, f7, fb, f8⟩
      · next N2 hrf =>
        obtain ⟨f1, _, _, _, _, _, f7, f8, _⟩ := rollforward_frame _ _ _ _ hrf
        have fb := rollforward_bad _ _ _ _ hrf
        obtain ⟨s1, s2, s3, s4⟩ := swapChain_fields N2 (by assumption) top
        split
        · next N3 h3 =>
          rw [h3] at s1 s2 s3 s4
          exact ⟨s1.trans f1, s2.trans f7, s3.trans fb, s4.trans f8⟩
        · next N3 h3 =>
          rw [h3] at s1 s2 s3 s4
          exact ⟨s1.trans f1, s2.trans f7, s3.trans fb, s4.trans f8⟩

/-- On a good node the blocks of the orphan pool are not stored (their parents are missing). -/
theorem Good.pool_not_stored {N : Node} (hG : Good exec txsOf U g N) {e : Nat × Block}
    (he : e ∈ N.orphans) : N.blocks e.2.id = none := by
  cases hst : N.blocks e.2.id with
  | none => rfl
  | some z =>
    exfalso
    have hz : z = e.2 := by
      have := hG.inv.inU _ _ hst
      rw [(hG.poolv e he).honest] at this; injection this with this; exact this.symm
    subst hz
    have hpar := (hG.inv.poolU e he).2
    rcases hG.stored _ _ hst with hg | ⟨_, p, hp⟩
    · exact genesis_not_valid (exec := exec) (U := U) hG.inv.gen.2 (hg ▸ hG.poolv e he)
    · rw [hpar, hG.slots e he] at hp; cases hp

theorem execute_fields {N N1 : Node} {b : Block} (he : Aergo.Chain.execute exec N b = some N1) :
    N1.blocks = upd N.blocks b.id (some b) ∧ N1.orphans = N.orphans ∧ N1.bad = N.bad ∧ N1.lib = N.lib ∧
    N1.latest = b.no ∧ N1.byNo = upd N.byNo b.no (some b.id) := by
  unfold Aergo.Chain.execute at he
  split at he
  · cases he
  · next N0 h0 =>
    obtain ⟨_, _, hN0⟩ := executeBlock_some h0
    injection he with he; subst he; subst hN0
    exact ⟨rfl, rfl, rfl, rfl, rfl, rfl⟩

/-- A valid child of the tip executes. -/
theorem execute_valid {N : Node} (h : Inv exec txsOf U g N) {b : Block} (hv : ValidIn exec U b)
    (hpar : N.byNo N.latest = some b.parent) : ∃ N1, Aergo.Chain.execute exec N b = some N1 := by
  have hb1 := h.best_main.1
  rw [h.best_no, hpar] at hb1
  have hid : b.parent = N.best.id := by injection hb1
  have hst : N.blocks b.parent = some N.best := by rw [hid]; exact h.best_main.2
  obtain ⟨_, hex⟩ := hv.parent_stored h hst
  unfold Aergo.Chain.execute executeBlock
  simp [hv.cons, h.root, hex]

/-- **The run loop on the main chain, on a good node**: a valid child of the tip and everything parked under it is
executed and connected; nothing fails. -/
theorem Good.runLoop_main (hE : ExecLaw exec txsOf) : ∀ (fuel : Nat) (N : Node) (blk : Block)
    (last : Option Block), Good exec txsOf U g N → ValidIn exec U blk → N.byNo N.latest = some blk.parent →
    blk.no = N.latest + 1 →
    (runLoop exec true fuel N blk last).1 = true ∧ Good exec txsOf U g (runLoop exec true fuel N blk last).2.1 := by
  intro fuel
  induction fuel with
  | zero => intro N blk last hG _ _ _; exact ⟨rfl, hG⟩
  | succ fuel ih =>
    intro N blk last hG hv hpar hno
    obtain ⟨N1, hex⟩ := execute_valid hG.inv hv hpar
    obtain ⟨f1, f2, f3, f4, f5, f6⟩ := execute_fields hex
    have hI1 := Inv.execute hE hG.inv hv.honest hpar hno hex
    have mono : ∀ i x, N.blocks i = some x → N1.blocks i = some x := by
      intro i x hx
      rw [f1, upd_apply]
      split
      · next hi => subst hi; have := hG.inv.inU _ _ hx; rw [hv.honest] at this; exact this.symm ▸ rfl
      · exact hx
    -- the parent of `blk` is the old tip, which is stored
    have hbst : ∃ p, N.blocks blk.parent = some p := by
      have hb1 := hG.inv.best_main.1
      rw [hG.inv.best_no, hpar] at hb1
      have hid : blk.parent = N.best.id := by injection hb1
      exact ⟨N.best, by rw [hid]; exact hG.inv.best_main.2⟩
    have stored1 : ∀ i x, N1.blocks i = some x → x = g ∨ (ValidIn exec U x ∧ ∃ p, N1.blocks x.parent = some p) := by
      intro i x hx
      rw [f1, upd_apply] at hx
      split at hx
      · injection hx with hx; subst hx
        obtain ⟨p, hp⟩ := hbst
        exact Or.inr ⟨hv, p, mono _ _ hp⟩
      · rcases hG.stored i x hx with hg | ⟨hvx, p, hp⟩
        · exact Or.inl hg
        · exact Or.inr ⟨hvx, p, mono _ _ hp⟩
    have le1 : ∀ i x, N1.blocks i = some x → x.no ≤ N1.latest := by
      intro i x hx
      rw [f1, upd_apply] at hx
      rw [f5]
      split at hx
      · injection hx with hx; subst hx; exact Nat.le_refl _
      · have := hG.le i x hx; omega
    -- good as soon as the slot keyed by `blk.id` is gone
    have good1 : ∀ (orph : List (Nat × Block)), (∀ e ∈ orph, e ∈ N.orphans ∧ e.1 ≠ blk.id) →
        Good exec txsOf U g { N1 with orphans := orph } := by
      intro orph ho
      refine ⟨Inv.frame hI1 (fun _ _ hb => hb) hI1.inU (fun e he => by rw [← f2] at ho; exact hI1.poolU e (ho e he).1)
        rfl rfl rfl rfl (fun _ _ hr => hr) rfl rfl, stored1, ?_, fun e he => hG.poolv e (ho e he).1, le1,
        by show N1.bad = []; rw [f3]; exact hG.nobad, by show N1.lib = 0; rw [f4]; exact hG.lib0⟩
      intro e he
      show N1.blocks e.1 = none
      rw [f1, upd_other _ _ (ho e he).2]
      exact hG.slots e (ho e he).1
    simp only [runLoop, Aergo.Chain.apply, if_true, hex]
    rw [f2]
    split
    · next hf =>
      refine ⟨rfl, ?_⟩
      have := good1 N.orphans (fun e he => ⟨he, fun hk => by
        have := List.find?_eq_none.mp hf e he; simp [hk] at this⟩)
      have heq : { N1 with orphans := N.orphans } = N1 := by rw [← f2]
      rw [heq] at this; exact this
    · next p o hf =>
      obtain ⟨hmem, hkey⟩ := find_mem hf
      have hkey' : p = blk.id := by simpa using hkey
      have hov := hG.poolv _ hmem
      have hopar := (hG.inv.poolU _ hmem).2
      simp only at hov hopar
      obtain ⟨q, hq, hqn, _⟩ := hov.par
      have hqb : q = blk := by
        rw [hopar, hkey', hv.honest] at hq; injection hq with hq; exact hq.symm
      subst hqb
      rw [if_neg (by omega)]
      have hg2 := good1 (N.orphans.filter (fun e => e.1 != q.id)) (fun e he => by
        obtain ⟨h1, h2⟩ := List.mem_filter.mp he
        exact ⟨h1, by simpa using h2⟩)
      exact ih _ o last hg2 hov (by
        show N1.byNo N1.latest = some o.parent
        rw [f6, f5, upd_same, hopar, hkey']) (by show o.no = N1.latest + 1; rw [f5]; omega)

theorem asc_parent_mem : ∀ (chain : List Block) (b : Block), Asc b chain → ∀ x ∈ chain, ∃ y ∈ b :: chain, x.parent = y.id := by
  intro chain
  induction chain with
  | nil => intro b _ x hx; cases hx
  | cons o rest ih =>
    intro b ha x hx
    rcases List.mem_cons.mp hx with rfl | hx
    · exact ⟨b, by simp, ha.1⟩
    · obtain ⟨y, hy, hxy⟩ := ih o ha.2.2 x hx
      exact ⟨y, List.mem_cons_of_mem _ hy, hxy⟩

theorem asc_head_no : ∀ (l : List Block) (S : Block), Asc S l → ∀ y, l.head? = some y → y.no = S.no + 1 := by
  intro l S ha y hy
  cases l with
  | nil => cases hy
  | cons a r => simp only [List.head?_cons, Option.some.injEq] at hy; subst hy; exact ha.2.1

/-- **Every arrival of a valid block keeps the node good**: in particular no stored block is ever higher than the best
block afterwards — the arrival that makes a branch longer than the main chain (directly or through the chain parked
under it) switches to it. -/
theorem Good.addBlock (hE : ExecLaw exec txsOf) (hU : UKeyed U) {N : Node} (hG : Good exec txsOf U g N) {b : Block}
    (hv : ValidIn exec U b) : Good exec txsOf U g (Aergo.Chain.addBlock exec N b).2 := by
  unfold Aergo.Chain.addBlock
  have htb : touchBad { N with out := [] } b.id = (none, { N with out := [] }) := by
    unfold touchBad
    have : ({ N with out := [] } : Node).bad = [] := hG.nobad
    rw [this]; rfl
  rw [htb]
  have hM : Good exec txsOf U g { N with out := [] } := Good.same hG rfl rfl rfl rfl rfl rfl rfl rfl rfl rfl rfl rfl
  generalize ({ N with out := [] } : Node) = M at hM
  simp only [reduceCtorEq, if_false]
  split
  · exact hM
  · next hns =>
    have hnew : M.blocks b.id = none := by
      cases hb : M.blocks b.id with
      | none => rfl
      | some z => rw [hb] at hns; simp at hns
    simp only [hv.ver, hv.sig, Bool.false_eq_true, if_false]
    split
    · -- parked
      next hnopar =>
      split
      · exact hM
      · next N1 ha =>
        have hI1 := Inv.addOrphan hM.inv hv.honest ha
        have hfields : N1.blocks = M.blocks ∧ N1.latest = M.latest ∧ N1.bad = M.bad ∧ N1.lib = M.lib ∧
            (∀ e ∈ N1.orphans, e ∈ M.orphans ∨ e = (b.parent, b)) := by
          unfold Aergo.Chain.addOrphan at ha
          split at ha
          · injection ha with ha; subst ha; exact ⟨rfl, rfl, rfl, rfl, fun e he => Or.inl he⟩
          · split at ha
            · split at ha
              · cases ha
              · next e rest hrest =>
                injection ha with ha; subst ha
                refine ⟨rfl, rfl, rfl, rfl, fun x hx => ?_⟩
                rcases List.mem_append.mp hx with hx | hx
                · left; rw [hrest]; exact List.mem_cons_of_mem _ hx
                · right; simpa using hx
            · injection ha with ha; subst ha
              refine ⟨rfl, rfl, rfl, rfl, fun x hx => ?_⟩
              rcases List.mem_append.mp hx with hx | hx
              · left; exact hx
              · right; simpa using hx
        obtain ⟨f1, f2, f3, f4, f5⟩ := hfields
        have hG1 : Good exec txsOf U g N1 := by
          refine ⟨hI1, by rw [f1]; exact hM.stored, ?_, ?_, by rw [f1, f2]; exact hM.le, by rw [f3]; exact hM.nobad,
            by rw [f4]; exact hM.lib0⟩
          · intro e he
            rw [f1]
            rcases f5 e he with he | rfl
            · exact hM.slots e he
            · exact hnopar
          · intro e he
            rcases f5 e he with he | rfl
            · exact hM.poolv e he
            · exact hv
        exact Good.same hG1 rfl rfl rfl rfl rfl rfl rfl rfl rfl rfl rfl rfl
    · next prev hprev =>
      obtain ⟨hpno, hpex⟩ := hv.parent_stored hM.inv hprev
      rw [if_neg (by omega : ¬ (prev.no + 1 ≠ b.no))]
      have hprevid : prev.id = b.parent := Inv.keyed hU hM.inv hprev
      split
      · -- `isMainChain` cannot fail: the tip is indexed
        next hmc =>
        exfalso
        unfold isMainChain at hmc
        split at hmc
        · cases hmc
        · have hb1 := hM.inv.best_main.1
          rw [hM.inv.best_no] at hb1
          rw [hb1] at hmc; cases hmc
      · next main hmain =>
        cases main with
        | true =>
          obtain ⟨hpar, hnum⟩ := isMainChain_true hM.inv hprev hpno hmain
          obtain ⟨hok, hgood⟩ := Good.runLoop_main (U := U) (g := g) hE (M.orphans.length + 1) M b none hM hv hpar hnum
          generalize Aergo.Chain.runLoop exec true (M.orphans.length + 1) M b none = rl at hok hgood
          obtain ⟨ok, N1, last⟩ := rl
          simp only at hok hgood
          subst hok
          simp only [if_true]
          exact hgood
        | false =>
          -- the side branch: `b` and the chain parked under it are stored
          have hpoolM : ∀ e ∈ M.orphans, ValidIn exec U e.2 ∧ e.2.parent = e.1 := fun e he =>
            ⟨hM.poolv e he, (hM.inv.poolU e he).2⟩
          obtain ⟨chain, hpark⟩ := parked_exists (exec := exec) (U := U) M.orphans.length M.orphans b (Nat.le_refl _) hpoolM hv.honest
          obtain ⟨pa, pe, pv, pn⟩ := parked_facts hpark hpoolM hv.honest
          have hfuel : chain.length < M.orphans.length + 1 := by have := parked_length hpark; omega
          obtain ⟨N1, hrun, m1, m2, r1, r2, r3, r4, r5, e6, e7, hI1, a1, a2, a3, _⟩ :=
            runLoop_side (exec := exec) hU chain (M.orphans.length + 1) M b none hM.inv hv.honest hpark hfuel
          rw [hrun]
          simp only [Bool.false_eq_true, if_false]
          -- none of the new blocks was stored before
          have hnotst : ∀ x ∈ b :: chain, M.blocks x.id = none := by
            intro x hx
            rcases List.mem_cons.mp hx with rfl | hx
            · exact hnew
            · obtain ⟨e, he, hex⟩ := e7 x hx
              rw [← hex]; exact Good.pool_not_stored hM he
          have hvnew : ∀ x ∈ b :: chain, ValidIn exec U x := by
            intro x hx
            rcases List.mem_cons.mp hx with rfl | hx
            · exact hv
            · exact pv x hx
          -- everything a good node needs except "no stored block is higher than the best block"
          have base : ∀ N2 : Node, N2.blocks = N1.blocks → N2.orphans = N1.orphans → N2.bad = N1.bad → N2.lib = N1.lib →
              Inv exec txsOf U g N2 → (∀ i x, N2.blocks i = some x → x.no ≤ N2.latest) → Good exec txsOf U g N2 := by
            intro N2 q1 q2 q3 q4 hI2 hle2
            refine ⟨hI2, ?_, ?_, ?_, hle2, by rw [q3, a3]; exact hM.nobad, by rw [q4, r5]; exact hM.lib0⟩
            · intro i x hx
              rw [q1] at hx ⊢
              rcases a1 i x hx with hx | hx
              · rcases hM.stored i x hx with hg | ⟨hvx, p, hp⟩
                · exact Or.inl hg
                · exact Or.inr ⟨hvx, p, m1 _ _ hp⟩
              · refine Or.inr ⟨hvnew x hx, ?_⟩
                rcases List.mem_cons.mp hx with rfl | hx
                · exact ⟨prev, m1 _ _ hprev⟩
                · obtain ⟨y, hy, hxy⟩ := asc_parent_mem chain b pa x hx
                  exact ⟨y, by rw [hxy]; exact m2 y hy⟩
            · intro e he
              rw [q2] at he; rw [q1]
              cases hst : N1.blocks e.1 with
              | none => rfl
              | some x =>
                exfalso
                rcases a1 _ _ hst with hx | hx
                · rw [hM.slots e (e6 e he)] at hx; cases hx
                · exact a2 e he x hx (Inv.keyed hU hI1 hst).symm
            · intro e he
              rw [q2] at he
              exact hM.poolv e (e6 e he)
          have hle1 : ∀ top : Block, (b :: chain).getLastD b = top → top.no ≤ N1.latest →
              ∀ i x, N1.blocks i = some x → x.no ≤ N1.latest := by
            intro top htop hle i x hx
            rcases a1 i x hx with hx | hx
            · rw [r2]; exact hM.le i x hx
            · have := pn x hx; rw [htop] at this; omega
          split
          · next hlt =>
            -- the end of the chain is higher than the best block: the reorganisation is carried out
            obtain ⟨S, pre, hS, hasc, hlastp, hstp, heap, hcp⟩ := branch_down hU hM prev.no prev (Nat.le_refl _)
              (by rw [hprevid]; exact hprev)
            have hSle := onMain_no_le hM.inv hS
            have hSlt : S.no < M.latest := by
              refine Nat.lt_of_le_of_ne hSle fun heq => ?_
              have hSb : S = M.best := onMain_inj hS hM.inv.best_main (by rw [heq, hM.inv.best_no])
              cases hpre : pre with
              | nil =>
                rw [hpre] at hlastp
                have hps : prev = S := hlastp.symm
                -- then `b` extends the tip: `isMainChain` says yes
                have : isMainChain M b = some true := by
                  unfold isMainChain
                  have hno : ¬ (b.no > 0 ∧ b.no ≠ M.latest + 1) := by
                    rw [hps] at hpno; omega
                  rw [if_neg hno]
                  have hb1 := hM.inv.best_main.1
                  rw [hM.inv.best_no] at hb1
                  rw [hb1]
                  simp only [Option.some.injEq, decide_eq_true_eq]
                  rw [← hprevid, hps, hSb]
                rw [this] at hmain; cases hmain
              | cons y rest =>
                rw [hpre] at hasc hstp
                have hyn : y.no = S.no + 1 := hasc.2.1
                have := hM.le _ _ (hstp y (by simp)).1
                omega
            have hasc2 : Asc S (pre ++ b :: chain) :=
              asc_append pre (b :: chain) S hasc ⟨by rw [hlastp, hprevid], by rw [hlastp]; omega, pa⟩
            have hea2 : ExecAsc exec S (pre ++ b :: chain) :=
              execAsc_append pre (b :: chain) S heap ⟨by rw [hlastp]; exact hpex, pe⟩
            have hst2 : ∀ x ∈ pre ++ b :: chain, N1.blocks x.id = some x ∧ ¬ onMain N1 x := by
              intro x hx
              rcases List.mem_append.mp hx with hx | hx
              · refine ⟨m1 _ _ (hstp x hx).1, fun hm => (hstp x hx).2 ⟨by rw [← r1]; exact hm.1, (hstp x hx).1⟩⟩
              · refine ⟨m2 x hx, fun hm => off_main_of_not_stored hM.inv (hnotst x hx) (by rw [← r1]; exact hm.1)⟩
            have hc2 : ∀ x ∈ pre ++ b :: chain, x.consOk = true := by
              intro x hx
              rcases List.mem_append.mp hx with hx | hx
              · exact hcp x hx
              · exact (hvnew x hx).cons
            obtain ⟨N2, hr, b1, b2, b3, hI2⟩ := reorg_switches hE hU hI1
              (S := S) (top := (b :: chain).getLastD b) (l := pre ++ b :: chain)
              ⟨by rw [r1]; exact hS.1, m1 _ _ hS.2⟩ (by rw [r2]; exact hSlt) (by rw [r5, hM.lib0]; exact Nat.zero_le _)
              hasc2 (by simp) (getLastD_append_cons pre S b chain) hst2 hlt hea2 hc2
            obtain ⟨g1, g2, g3, g4⟩ := reorg_fields (exec := exec) N1 ((b :: chain).getLastD b)
            rw [hr] at g1 g2 g3 g4 ⊢
            simp only at g1 g2 g3 g4 ⊢
            refine base N2 g1 g2 g3 g4 hI2 ?_
            intro i x hx
            rw [g1] at hx
            rw [b3]
            rcases a1 i x hx with hx | hx
            · have := hM.le i x hx; rw [r2] at hlt; omega
            · exact pn x hx
          · next hnlt =>
            exact base N1 rfl rfl rfl rfl hI1 (hle1 _ rfl (by omega))

/-- A fresh node is good. -/
theorem Good.init {oc bc : Nat} (hg0 : g.no = 0) (hI : Inv exec txsOf U g (genesis g oc bc)) :
    Good exec txsOf U g (genesis g oc bc) := by
  refine ⟨hI, ?_, (fun e he => by cases he), (fun e he => by cases he), ?_, rfl, rfl⟩
  · intro i x hx
    simp only [genesis, upd_apply] at hx
    split at hx
    · injection hx with hx; exact Or.inl hx.symm
    · cases hx
  · intro i x hx
    simp only [genesis, upd_apply] at hx
    split at hx
    · injection hx with hx; rw [← hx]; show g.no ≤ 0; omega
    · cases hx

end

end Aergo.Chain
