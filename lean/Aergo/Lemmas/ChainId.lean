/-
Helper lemmas for the `ChainId` layer (used by Props/C19). Core only.
-/
import Aergo.Lemmas.Receipt
import Aergo.Model.ChainId
namespace Aergo.ChainId
open Aergo.Enc Aergo.Receipt

theorem i32_u32 (v : Int) (h1 : -2147483648 ≤ v) (h2 : v < 2147483648) : i32OfU32 (u32OfI32 v) = v := by
  unfold i32OfU32 u32OfI32
  split <;> omega

theorem u32OfI32_lt (v : Int) : u32OfI32 v < 2 ^ (8 * 4) := by
  unfold u32OfI32
  have : (2:Nat) ^ (8 * 4) = 4294967296 := by decide
  omega

theorem cut_spec (d x y : Bytes) (h : cut d = some (x, y)) : d = x ++ 47 :: y ∧ (47 : UInt8) ∉ x := by
  induction d generalizing x with
  | nil => simp [cut] at h
  | cons b rest ih =>
    simp only [cut] at h
    split at h
    · simp only [Option.some.injEq, Prod.mk.injEq] at h
      obtain ⟨rfl, rfl⟩ := h
      simp [*]
    · rename_i hb
      match hc : cut rest with
      | none => rw [hc] at h; cases h
      | some (a, c) =>
        rw [hc] at h
        simp only [Option.some.injEq, Prod.mk.injEq] at h
        obtain ⟨rfl, rfl⟩ := h
        obtain ⟨h1, h2⟩ := ih a hc
        refine ⟨by rw [h1]; rfl, ?_⟩
        simp only [List.mem_cons, not_or]
        exact ⟨fun e => hb e.symm, h2⟩

theorem cut_append (a b : Bytes) (h : (47 : UInt8) ∉ a) : cut (a ++ 47 :: b) = some (a, b) := by
  induction a with
  | nil => simp [cut]
  | cons x a ih =>
    simp only [List.mem_cons, not_or] at h
    have hx : x ≠ 47 := fun e => h.1 e.symm
    simp [cut, hx, ih h.2]

theorem split_unique (x y m c : Bytes) (hx : (47 : UInt8) ∉ x) (hy : (47 : UInt8) ∉ y)
    (h : x ++ 47 :: y = m ++ 47 :: c) : x = m ∧ y = c := by
  induction x generalizing m with
  | nil =>
    cases m with
    | nil => simpa using h
    | cons b m' =>
      simp only [List.nil_append, List.cons_append, List.cons.injEq] at h
      exact absurd (by rw [h.2]; simp) hy
  | cons a x ih =>
    cases m with
    | nil =>
      simp only [List.cons_append, List.nil_append, List.cons.injEq] at h
      exact absurd (by simp [h.1]) hx
    | cons b m' =>
      simp only [List.cons_append, List.cons.injEq] at h
      simp only [List.mem_cons, not_or] at hx
      obtain ⟨h1, h2⟩ := ih m' hx.2 h.2
      exact ⟨by rw [h.1, h1], h2⟩

theorem boolByte_ne (b : Bool) : ((boolByte b).toNat != 0) = b := by cases b <;> rfl

theorem read_bytes_prefix (c : ChainID) :
    read (bytes c) = (do
      let (magic, cons) ← cut (c.magic ++ 47 :: c.consensus)
      if cons.contains 47 then none
      else pure { version := i32OfU32 (u32OfI32 c.version), publicNet := c.publicNet, mainNet := c.mainNet,
                  magic := magic, consensus := cons }) := by
  unfold read bytes
  rw [readLE_append 4 _ _ (u32OfI32_lt c.version)]
  simp only [Option.bind_eq_bind, Option.bind_some, readLE_one, boolByte_ne]

theorem read_bytes (c : ChainID) (hw : c.wf = true) : read (bytes c) = some c := by
  simp only [ChainID.wf, Bool.and_eq_true, decide_eq_true_eq, Bool.not_eq_true', List.contains_eq_mem,
    decide_eq_false_iff_not] at hw
  obtain ⟨⟨⟨h1, h2⟩, hm⟩, hc⟩ := hw
  rw [read_bytes_prefix, cut_append _ _ hm]
  simp [hc, i32_u32 _ h1 h2]

theorem read_bytes_exact (c c' : ChainID) (h1 : -2147483648 ≤ c.version) (h2 : c.version < 2147483648)
    (h : read (bytes c) = some c') : c' = c := by
  rw [read_bytes_prefix] at h
  match hc : cut (c.magic ++ 47 :: c.consensus) with
  | none => rw [hc] at h; cases h
  | some (x, y) =>
    rw [hc] at h
    simp only [Option.bind_eq_bind, Option.bind_some] at h
    split at h
    · cases h
    · rename_i hy
      simp only [Option.pure_def, Option.some.injEq] at h
      obtain ⟨e, hx⟩ := cut_spec _ _ _ hc
      have hy' : (47 : UInt8) ∉ y := by simpa using hy
      obtain ⟨rfl, rfl⟩ := split_unique x y _ _ hx hy' e.symm
      rw [← h, i32_u32 _ h1 h2]


theorem makeChainId_eq (cid : Bytes) (v : Int) (h : 4 ≤ cid.length) :
    makeChainId cid v = some (le 4 (u32OfI32 v) ++ cid.drop 4) := by
  unfold makeChainId
  rw [if_neg (by omega)]
  split
  · rename_i e
    rw [← e, List.take_append_drop]
  · rfl

theorem makeChainId_panics (cid : Bytes) (v : Int) (h : cid.length < 4) : makeChainId cid v = none := by
  simp [makeChainId, h]

theorem decodeVersion_make (cid out : Bytes) (v : Int) (h1 : -2147483648 ≤ v) (h2 : v < 2147483648)
    (h : makeChainId cid v = some out) : decodeVersion out = v := by
  by_cases hl : cid.length < 4
  · rw [makeChainId_panics cid v hl] at h; cases h
  · rw [makeChainId_eq cid v (by omega)] at h
    simp only [Option.some.injEq] at h
    subst h
    have hlen : (le 4 (u32OfI32 v)).length = 4 := le_length' 4 _
    unfold decodeVersion
    rw [if_neg (by simp [hlen])]
    rw [List.take_left' hlen, fromLE_le 4 _ (u32OfI32_lt v), i32_u32 v h1 h2]

theorem eq_make (cid out : Bytes) (v : Int) (h : makeChainId cid v = some out) :
    eqWithoutVersion out cid = true := by
  by_cases hl : cid.length < 4
  · rw [makeChainId_panics cid v hl] at h; cases h
  · rw [makeChainId_eq cid v (by omega)] at h
    simp only [Option.some.injEq] at h
    subst h
    have hlen : (le 4 (u32OfI32 v)).length = 4 := le_length' 4 _
    unfold eqWithoutVersion
    have : ¬ ((le 4 (u32OfI32 v) ++ List.drop 4 cid).length < 4) := by simp [hlen]
    simp only [this, hl, decide_false, Bool.or_self, Bool.false_eq_true, if_false]
    rw [List.drop_left' hlen]; simp

theorem bytes_drop4 (c : ChainID) :
    (bytes c).drop 4 = boolByte c.publicNet :: boolByte c.mainNet :: (c.magic ++ (47 :: c.consensus)) := by
  unfold bytes
  rw [List.drop_left' (le_length' 4 _)]

theorem bytes_length (c : ChainID) : 4 ≤ (bytes c).length := by
  unfold bytes; simp [le_length' 4]

theorem make_bytes (c : ChainID) (v : Int) :
    makeChainId (bytes c) v = some (bytes { c with version := v }) := by
  rw [makeChainId_eq _ _ (bytes_length c), bytes_drop4]; rfl

theorem eq_bytes_iff (c c' : ChainID) (hw : c.wf = true) (hw' : c'.wf = true) :
    eqWithoutVersion (bytes c) (bytes c') = true ↔ c' = { c with version := c'.version } := by
  unfold eqWithoutVersion
  have l1 := bytes_length c
  have l2 := bytes_length c'
  rw [if_neg (by simp; omega), bytes_drop4, bytes_drop4]
  simp only [ChainID.wf, Bool.and_eq_true, decide_eq_true_eq, Bool.not_eq_true', List.contains_eq_mem,
    decide_eq_false_iff_not] at hw hw'
  constructor
  · intro h
    simp only [beq_iff_eq, List.cons.injEq] at h
    obtain ⟨hp, hm, hrest⟩ := h
    obtain ⟨e1, e2⟩ := split_unique _ _ _ _ hw.1.2 hw.2 hrest
    have hp' : c.publicNet = c'.publicNet := by
      revert hp; cases c.publicNet <;> cases c'.publicNet <;> simp [boolByte]
    have hm' : c.mainNet = c'.mainNet := by
      revert hm; cases c.mainNet <;> cases c'.mainNet <;> simp [boolByte]
    cases c; cases c'; simp_all
  · intro h
    rw [h]; simp
end Aergo.ChainId
