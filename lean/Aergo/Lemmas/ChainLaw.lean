import Aergo.Lemmas.Chain

/-! The hypotheses of the C05/C07 theorems, decided on the table of a concrete run (`Model/Chain.lean: idsKeyed`,
`lawOk`): soundness of the checks the model driver performs on every session (op `law`). Core only. -/

namespace Aergo.Chain

theorem nodupB_nodup : ∀ l : List Nat, nodupB l = true → l.Nodup := by
  intro l
  induction l with
  | nil => intro _; exact List.nodup_nil
  | cons x xs ih =>
    intro h
    simp only [nodupB, Bool.and_eq_true, Bool.not_eq_true', List.contains_eq_mem, decide_eq_false_iff_not] at h
    exact List.nodup_cons.mpr ⟨h.1, ih h.2⟩

/-- **Soundness of the `ExecLaw` check**: when `lawOkWith tbl m` holds, the execution function of the run — the table
restricted to the blocks of the run — satisfies `ExecLaw` with the ghost function `look m`. -/
theorem lawOkWith_sound (tbl : List Block) (m : List (Nat × List Nat)) (h : lawOkWith tbl m = true) :
    ExecLaw (execOn tbl) (look m) := by
  have key : ∀ r b r', execOn tbl r b = some r' →
      nodupB b.txs = true ∧ (∀ t ∈ b.txs, t ∉ look m r) ∧ (∀ t ∈ look m r, t ∈ look m r') ∧ (∀ t ∈ b.txs, t ∈ look m r') := by
    intro r b r' he
    unfold execOn at he
    split at he
    · next hc =>
      unfold tableExec at he
      split at he
      · next hr =>
        have hmem : b ∈ tbl := by simpa using hc
        have hb := List.all_eq_true.mp h b hmem
        rw [he] at hb
        simp only [Bool.and_eq_true, List.all_eq_true, Bool.not_eq_true', List.contains_eq_mem, decide_eq_false_iff_not,
          decide_eq_true_eq] at hb
        subst hr
        exact ⟨hb.1.1.1, hb.1.1.2, hb.1.2, hb.2⟩
      · cases he
    · cases he
  refine ⟨?_, ?_, ?_⟩
  · intro r b r' he t ht; exact (key r b r' he).2.1 t ht
  · intro r b r' he; exact nodupB_nodup _ (key r b r' he).1
  · intro r b r' he t ht
    rcases ht with ht | ht
    · exact (key r b r' he).2.2.1 t ht
    · exact (key r b r' he).2.2.2 t ht

/-- The check the driver runs: with the ghost function it computes itself. -/
theorem lawOk_sound (tbl : List Block) (h : lawOk tbl = true) : ExecLaw (execOn tbl) (look (lawGhost tbl)) :=
  lawOkWith_sound tbl _ h

/-- "The block with this identifier" of a run: the first block of the list carrying it. -/
def tableU (l : List Block) (i : Nat) : Option Block := l.find? (fun b => b.id == i)

theorem tableU_keyed (l : List Block) : UKeyed (tableU l) := by
  intro i b hb
  have := List.find?_some hb
  simpa using this

/-- **Soundness of the identifier check**: when `idsKeyed l` holds every block of the list is the block its identifier
names (`U b.id = some b` for `U = tableU l`): the honesty hypothesis of the theorems holds for the run. -/
theorem idsKeyed_sound (l : List Block) (h : idsKeyed l = true) : ∀ b ∈ l, tableU l b.id = some b := by
  intro b hb
  unfold tableU
  cases hf : l.find? (fun x => x.id == b.id) with
  | none =>
    have := List.find?_eq_none.mp hf b hb
    simp at this
  | some c =>
    have hc := List.mem_of_find?_eq_some hf
    have hid : c.id = b.id := by simpa using List.find?_some hf
    have := List.all_eq_true.mp (List.all_eq_true.mp h c hc) b hb
    simp only [Bool.or_eq_true, bne_iff_ne, ne_eq, beq_iff_eq] at this
    rcases this with h1 | h1
    · exact absurd hid h1
    · rw [h1]

end Aergo.Chain
