import Aergo.Lemmas.ChainLaw
import Aergo.Lemmas.ChainHistory

/-! The model's run depends on the execution function only through the blocks that arrived: two execution functions that
agree on the blocks of a history give the same run. In particular the table the driver runs (`tableExec`) and the table
restricted to the blocks of the session (`execOn tbl`, about which `lawOk_sound` speaks) give the same run. Core only. -/

namespace Aergo.Chain

section
variable {e1 e2 : Nat → Block → Option Nat} {T : Block → Prop}

/-- Every block the node holds (stored or parked) is one of `T`. -/
structure Known (T : Block → Prop) (N : Node) : Prop where
  blocks : ∀ i x, N.blocks i = some x → T x
  pool : ∀ e ∈ N.orphans, T e.2

theorem Known.same {N N' : Node} (h : Known T N) (e1' : N'.blocks = N.blocks) (e2' : N'.orphans = N.orphans) : Known T N' :=
  ⟨by rw [e1']; exact h.blocks, by rw [e2']; exact h.pool⟩

theorem executeBlock_congr (hag : ∀ r b, T b → e1 r b = e2 r b) (N : Node) {b : Block} (hb : T b) :
    executeBlock e1 N b = executeBlock e2 N b := by
  unfold executeBlock; rw [hag _ _ hb]

theorem executeBlock_known {N N1 : Node} {b : Block} (h : Known T N) (he : executeBlock e1 N b = some N1) : Known T N1 := by
  obtain ⟨_, _, hN1⟩ := executeBlock_some he
  subst hN1; exact Known.same h rfl rfl

theorem failNote_known {N : Node} (h : Known T N) (b : Block) : Known T (failNote N b) := by
  obtain ⟨a1, _, _, _, _, _, _, _, a9, _⟩ := failNote_fields N b
  exact Known.same h a1 a9

theorem connect_known {N : Node} (h : Known T N) {b : Block} (hb : T b) : Known T (connect N b) := by
  refine ⟨?_, h.pool⟩
  intro i x hx
  simp only [connect, upd_apply] at hx
  split at hx
  · injection hx with hx; subst hx; exact hb
  · exact h.blocks i x hx

theorem storeSide_known {N : Node} (h : Known T N) {b : Block} (hb : T b) : Known T (storeSide N b) := by
  refine ⟨?_, h.pool⟩
  intro i x hx
  simp only [storeSide, upd_apply] at hx
  split at hx
  · injection hx with hx; subst hx; exact hb
  · exact h.blocks i x hx

theorem apply_congr (hag : ∀ r b, T b → e1 r b = e2 r b) (main : Bool) (N : Node) {b : Block} (hb : T b) :
    Aergo.Chain.apply e1 main N b = Aergo.Chain.apply e2 main N b := by
  unfold Aergo.Chain.apply execute
  rw [executeBlock_congr hag N hb]

theorem apply_known {main : Bool} {N N1 : Node} {b : Block} (h : Known T N) (hb : T b)
    (ha : Aergo.Chain.apply e1 main N b = some N1) : Known T N1 := by
  unfold Aergo.Chain.apply at ha
  split at ha
  · unfold execute at ha
    split at ha
    · cases ha
    · next N0 h0 =>
      injection ha with ha; subst ha
      exact Known.same (connect_known (executeBlock_known h h0) hb) rfl rfl
  · injection ha with ha; subst ha; exact storeSide_known h hb

theorem runLoop_congr (hag : ∀ r b, T b → e1 r b = e2 r b) (main : Bool) : ∀ (fuel : Nat) (N : Node) (blk : Block)
    (last : Option Block), Known T N → T blk → (∀ l, last = some l → T l) →
    runLoop e1 main fuel N blk last = runLoop e2 main fuel N blk last ∧ Known T (runLoop e1 main fuel N blk last).2.1 ∧
    (∀ l, (runLoop e1 main fuel N blk last).2.2 = some l → T l) := by
  intro fuel
  induction fuel with
  | zero => intro N blk last h _ hl; exact ⟨rfl, h, hl⟩
  | succ fuel ih =>
    intro N blk last h hb hl
    simp only [runLoop]
    rw [← apply_congr hag main N hb]
    split
    · exact ⟨rfl, failNote_known h blk, hl⟩
    · next N1 ha =>
      have h1 := apply_known h hb ha
      have hl1 : ∀ l, (if main = true then last else some blk) = some l → T l := by
        intro l hl'
        split at hl'
        · exact hl l hl'
        · injection hl' with hl'; subst hl'; exact hb
      split
      · exact ⟨rfl, h1, hl1⟩
      · next p o hf =>
        obtain ⟨hmem, _⟩ := find_mem hf
        split
        · exact ⟨rfl, h1, hl1⟩
        · exact ih _ o _ ⟨h1.blocks, fun e he => h1.pool e (List.mem_filter.mp he).1⟩ (h1.pool _ hmem) hl1

theorem rollforward_congr (hag : ∀ r b, T b → e1 r b = e2 r b) : ∀ (l : List Block) (N : Node), (∀ x ∈ l, T x) →
    rollforward e1 N l = rollforward e2 N l := by
  intro l
  induction l with
  | nil => intro N _; rfl
  | cons x l ih =>
    intro N hl
    simp only [rollforward]
    rw [← executeBlock_congr hag N (hl x (by simp))]
    split
    · rfl
    · exact ih _ (fun y hy => hl y (by simp [hy]))

theorem gatherLoop_known {N : Node} (h : Known T N) : ∀ (fuel : Nat) (br : Block) (old new : List Block) (gt : Gather),
    T br → (∀ x ∈ new, T x) → gatherLoop N fuel br old new = some gt → ∀ x ∈ gt.newB, T x := by
  intro fuel
  induction fuel with
  | zero => intro br old new gt _ _ hg; simp [gatherLoop] at hg
  | succ fuel ih =>
    intro br old new gt hbr hnew hg
    have down : ∀ old', (if br.no = 0 then none else
        match N.blocks br.parent with
        | none => none
        | some p => if br.no - 1 ≠ p.no then none else gatherLoop N fuel p old' (new ++ [br])) = some gt →
        ∀ x ∈ gt.newB, T x := by
      intro old' hd
      split at hd
      · cases hd
      · split at hd
        · cases hd
        · next p hp =>
          split at hd
          · cases hd
          · exact ih p old' (new ++ [br]) gt (h.blocks _ _ hp) (fun x hx => by
              rcases List.mem_append.mp hx with hx | hx
              · exact hnew x hx
              · simp only [List.mem_singleton] at hx; subst hx; exact hbr) hd
    simp only [gatherLoop] at hg
    split at hg
    · split at hg
      · cases hg
      · split at hg
        · split at hg
          · cases hg
          · split at hg
            · cases hg
            · injection hg with hg; subst hg; exact hnew
        · exact down _ hg
    · exact down _ hg

theorem reorg_congr (hag : ∀ r b, T b → e1 r b = e2 r b) {N : Node} (h : Known T N) {top : Block} (ht : T top) :
    reorg e1 N top = reorg e2 N top := by
  unfold reorg
  split
  · rfl
  · next gt hg =>
    have hnew : ∀ x ∈ gt.newB.reverse, T x := fun x hx =>
      gatherLoop_known h _ top [] [] gt ht (fun x hx => by cases hx) hg x (List.mem_reverse.mp hx)
    split
    · rfl
    · dsimp only
      rw [rollforward_congr hag _ _ hnew]

theorem reorg_known {N : Node} (h : Known T N) (top : Block) : Known T (reorg e1 N top).2 := by
  unfold reorg
  split
  · exact h
  · split
    · exact h
    · dsimp only
      split
      · next N2 hrf =>
        obtain ⟨f1, _, _, _, _, _, f7, _, _⟩ := rollforward_frame _ _ _ _ hrf
        exact Known.same h f1 f7
      · next N2 hrf =>
        obtain ⟨f1, _, _, _, _, _, f7, _, _⟩ := rollforward_frame _ _ _ _ hrf
        obtain ⟨s1, s2, _, _⟩ := swapChain_fields N2 (by assumption) top
        split
        · next N3 h3 => rw [h3] at s1 s2; exact Known.same h (s1.trans f1) (s2.trans f7)
        · next N3 h3 => rw [h3] at s1 s2; exact Known.same h (s1.trans f1) (s2.trans f7)

theorem touchBad_known {N : Node} (h : Known T N) (id : Nat) : Known T (touchBad N id).2 := by
  unfold touchBad; split
  · exact h
  · exact Known.same h rfl rfl

theorem addOrphan_known {N N1 : Node} (h : Known T N) {b : Block} (hb : T b) (ha : addOrphan N b = some N1) : Known T N1 := by
  unfold addOrphan at ha
  split at ha
  · injection ha with ha; subst ha; exact h
  · split at ha
    · split at ha
      · cases ha
      · next e rest hrest =>
        injection ha with ha; subst ha
        refine ⟨h.blocks, ?_⟩
        intro x hx
        rcases List.mem_append.mp hx with hx | hx
        · exact h.pool x (by rw [hrest]; exact List.mem_cons_of_mem _ hx)
        · simp only [List.mem_singleton] at hx; subst hx; exact hb
    · injection ha with ha; subst ha
      refine ⟨h.blocks, ?_⟩
      intro x hx
      rcases List.mem_append.mp hx with hx | hx
      · exact h.pool x hx
      · simp only [List.mem_singleton] at hx; subst hx; exact hb

/-- **One arrival from the network does not depend on the execution of blocks that never arrived.** -/
theorem addBlock_congr (hag : ∀ r b, T b → e1 r b = e2 r b) {N : Node} (h : Known T N) {b : Block} (hb : T b) :
    addBlock e1 N b = addBlock e2 N b ∧ Known T (addBlock e1 N b).2 := by
  unfold addBlock
  have ht := touchBad_known (T := T) (N := { N with out := [] }) (Known.same h rfl rfl) b.id
  generalize touchBad { N with out := [] } b.id = tb at ht
  obtain ⟨hit, M⟩ := tb
  simp only at ht ⊢
  split
  · exact ⟨rfl, ht⟩
  · split
    · exact ⟨rfl, ht⟩
    · split
      · exact ⟨rfl, ht⟩
      · split
        · exact ⟨rfl, Known.same ht rfl rfl⟩
        · split
          · split
            · exact ⟨rfl, ht⟩
            · next N1 ha => exact ⟨rfl, Known.same (addOrphan_known ht hb ha) rfl rfl⟩
          · split
            · exact ⟨rfl, Known.same ht rfl rfl⟩
            · split
              · exact ⟨rfl, Known.same ht rfl rfl⟩
              · next main _ =>
                obtain ⟨hc, hk, hl⟩ := runLoop_congr hag main (M.orphans.length + 1) M b none ht hb (fun l hl => by cases hl)
                rw [← hc]
                generalize runLoop e1 main (M.orphans.length + 1) M b none = rl at hk hl
                obtain ⟨ok, N1, last⟩ := rl
                simp only at hk hl ⊢
                cases ok with
                | false => exact ⟨rfl, Known.same hk rfl rfl⟩
                | true =>
                  simp only
                  split
                  · exact ⟨rfl, hk⟩
                  · split
                    · exact ⟨rfl, hk⟩
                    · next l =>
                      split
                      · have hr := reorg_congr hag hk (hl l rfl)
                        have hkr := reorg_known (e1 := e1) hk l
                        rw [← hr]
                        generalize reorg e1 N1 l = rr at hkr
                        obtain ⟨res, N2⟩ := rr
                        simp only at hkr
                        cases res
                        · exact ⟨rfl, hkr⟩
                        · exact ⟨rfl, hkr⟩
                        · exact ⟨rfl, Known.same hkr rfl rfl⟩
                      · exact ⟨rfl, hk⟩

/-- The same for a block of the node's own block factory. -/
theorem addOwn_congr (hag : ∀ r b, T b → e1 r b = e2 r b) {N : Node} (h : Known T N) {b : Block} (hb : T b) :
    addOwn e1 N b = addOwn e2 N b ∧ Known T (addOwn e1 N b).2 := by
  unfold addOwn
  have ht := touchBad_known (T := T) (N := { N with out := [] }) (Known.same h rfl rfl) b.id
  generalize touchBad { N with out := [] } b.id = tb at ht
  obtain ⟨hit, M⟩ := tb
  simp only at ht ⊢
  split
  · exact ⟨rfl, ht⟩
  · split
    · exact ⟨rfl, ht⟩
    · split
      · exact ⟨rfl, ht⟩
      · split
        · exact ⟨rfl, ht⟩
        · split
          · exact ⟨rfl, Known.same ht rfl rfl⟩
          · split
            · exact ⟨rfl, ht⟩
            · split
              · exact ⟨rfl, Known.same ht rfl rfl⟩
              · split
                · exact ⟨rfl, Known.same ht rfl rfl⟩
                · next main _ =>
                  have hN1 : Known T { M with out := M.out ++ [Msg.notify b.id] } := Known.same ht rfl rfl
                  cases main with
                  | true =>
                    simp only [if_true]
                    rw [← executeBlock_congr hag _ hb]
                    split
                    · exact ⟨rfl, Known.same (failNote_known hN1 b) rfl rfl⟩
                    · next N2 h2 => exact ⟨rfl, connect_known (executeBlock_known hN1 h2) hb⟩
                  | false =>
                    simp only [Bool.false_eq_true, if_false]
                    have hs := storeSide_known hN1 hb
                    split
                    · have hr := reorg_congr hag hs hb
                      have hkr := reorg_known (e1 := e1) hs b
                      rw [← hr]
                      generalize reorg e1 (storeSide { M with out := M.out ++ [Msg.notify b.id] } b) b = rr at hkr
                      obtain ⟨res, N3⟩ := rr
                      simp only at hkr
                      cases res
                      · exact ⟨rfl, hkr⟩
                      · exact ⟨rfl, hkr⟩
                      · exact ⟨rfl, Known.same hkr rfl rfl⟩
                    · exact ⟨rfl, hs⟩

theorem arrive_congr (hag : ∀ r b, T b → e1 r b = e2 r b) {N : Node} (h : Known T N) (a : Arrival)
    (ha : ∀ b, a.block? = some b → T b) : arrive e1 N a = arrive e2 N a ∧ Known T (arrive e1 N a) := by
  cases a with
  | net b =>
    obtain ⟨c, k⟩ := addBlock_congr hag h (ha b rfl)
    exact ⟨by simp only [arrive]; rw [c], k⟩
  | own b =>
    obtain ⟨c, k⟩ := addOwn_congr hag h (ha b rfl)
    exact ⟨by simp only [arrive]; rw [c], k⟩
  | lib n => exact ⟨rfl, Known.same h rfl rfl⟩

/-- **The run of a history depends on the execution function only through the blocks of the history** (and genesis). -/
theorem runHistory_congr (hag : ∀ r b, T b → e1 r b = e2 r b) (g : Block) (hg : T g) (oc bc : Nat) (hist : List Arrival)
    (hh : ∀ a ∈ hist, ∀ b, a.block? = some b → T b) : runHistory e1 g oc bc hist = runHistory e2 g oc bc hist := by
  have key : ∀ (hist : List Arrival) (N : Node), Known T N → (∀ a ∈ hist, ∀ b, a.block? = some b → T b) →
      hist.foldl (arrive e1) N = hist.foldl (arrive e2) N := by
    intro hist
    induction hist with
    | nil => intro N _ _; rfl
    | cons a hist ih =>
      intro N h hh
      obtain ⟨c, k⟩ := arrive_congr hag h a (hh a (by simp))
      simp only [List.foldl_cons]
      rw [← c]
      exact ih _ k (fun x hx => hh x (by simp [hx]))
  refine key hist _ ⟨?_, fun e he => by cases he⟩ hh
  intro i x hx
  simp only [genesis, upd_apply] at hx
  split at hx
  · injection hx with hx; subst hx; exact hg
  · cases hx

end

/-- What the driver runs (`tableExec`) is the run with the table restricted to the blocks of the session (`execOn tbl`). -/
theorem runHistory_table (g : Block) (oc bc : Nat) (hist : List Arrival) :
    runHistory tableExec g oc bc hist = runHistory (execOn (g :: hist.filterMap Arrival.block?)) g oc bc hist := by
  refine runHistory_congr (T := fun b => b ∈ g :: hist.filterMap Arrival.block?) ?_ g (by simp) oc bc hist ?_
  · intro r b hb
    unfold execOn
    have : (g :: hist.filterMap Arrival.block?).contains b = true := by simpa using hb
    rw [if_pos this]
  · intro a ha b hb
    exact List.mem_cons_of_mem _ (List.mem_filterMap.mpr ⟨a, ha, hb⟩)

end Aergo.Chain
