import Aergo.Model.Crash

/-!
Helper lemmas and specification vocabulary for C06 (crash recovery) over `Aergo.Model.Crash`.

* `writes ws k` — the last write to key `k` in an op list; `applyOps_apply` reads a store after a batch.
* `Asc`, `DescFrom` — parent-linked chains (ascending from genesis / descending from a tip to a fork point).
* `Inv D chain` — the durable part of the C05 invariant: `chain` (genesis … best) is the main chain of `D`.
-/

namespace Aergo.Crash

/-! ### Blind writes: the last write wins -/

/-- The last write to `k` in `ws` (`none`: `k` untouched, `some none`: deleted, `some (some v)`: set). -/
def writes : List W → Key → Option (Option Val)
  | [], _ => none
  | w :: ws, k =>
    match writes ws k with
    | some v => some v
    | none => if w.key = k then some w.val else none

theorem writes_cons (w : W) (ws : List W) (k : Key) :
    writes (w :: ws) k = match writes ws k with
                         | some v => some v
                         | none => if w.key = k then some w.val else none := rfl

theorem applyOps_cons (w : W) (ws : List W) (D : Store) : applyOps (w :: ws) D = applyOps ws (w.apply D) := rfl

theorem applyOps_apply (ws : List W) (D : Store) (k : Key) :
    applyOps ws D k = (writes ws k).getD (D k) := by
  induction ws generalizing D with
  | nil => rfl
  | cons w ws ih =>
    rw [applyOps_cons, ih, writes_cons]
    cases h : writes ws k with
    | some v => simp
    | none =>
      by_cases hk : w.key = k
      · simp [hk, W.apply]
      · have : ¬ k = w.key := fun e => hk e.symm
        simp [hk, this, W.apply]

theorem writes_append (a b : List W) (k : Key) :
    writes (a ++ b) k = match writes b k with
                        | some v => some v
                        | none => writes a k := by
  induction a with
  | nil => simp [writes]; cases writes b k <;> rfl
  | cons w a ih =>
    rw [List.cons_append, writes_cons, writes_cons, ih]
    cases writes b k <;> rfl

theorem writes_eq_none {ws : List W} {k : Key} (h : ∀ w ∈ ws, w.key ≠ k) : writes ws k = none := by
  induction ws with
  | nil => rfl
  | cons w ws ih =>
    have h1 := ih (fun x hx => h x (List.mem_cons_of_mem _ hx))
    have h2 := h w (List.mem_cons_self ..)
    simp [writes_cons, h1, h2]

theorem writes_eq_some {ws : List W} {k : Key} {v : Option Val}
    (hex : ∃ w ∈ ws, w.key = k) (hall : ∀ w ∈ ws, w.key = k → w.val = v) : writes ws k = some v := by
  induction ws with
  | nil => obtain ⟨w, hw, _⟩ := hex; cases hw
  | cons w ws ih =>
    rw [writes_cons]
    by_cases hws : ∃ x ∈ ws, x.key = k
    · rw [ih hws (fun x hx => hall x (List.mem_cons_of_mem _ hx))]
    · have hn : writes ws k = none := writes_eq_none (fun x hx hk => hws ⟨x, hx, hk⟩)
      rw [hn]
      obtain ⟨x, hx, hk⟩ := hex
      rcases List.mem_cons.mp hx with rfl | hx
      · simp [hk, hall x (List.mem_cons_self ..) hk]
      · exact absurd ⟨x, hx, hk⟩ hws

theorem writes_some_mem {ws : List W} {k : Key} {v : Option Val} (h : writes ws k = some v) :
    ∃ w ∈ ws, w.key = k ∧ w.val = v := by
  induction ws with
  | nil => cases h
  | cons w ws ih =>
    rw [writes_cons] at h
    cases hw : writes ws k with
    | some v' =>
      rw [hw] at h
      cases h
      obtain ⟨x, hx, hk, hv⟩ := ih hw
      exact ⟨x, List.mem_cons_of_mem _ hx, hk, hv⟩
    | none =>
      rw [hw] at h
      by_cases hk : w.key = k
      · simp [hk] at h
        exact ⟨w, List.mem_cons_self .., hk, h⟩
      · simp [hk] at h

def allOps (us : List Unit) : List W := us.flatMap (·.ops)

theorem applyOps_append (a b : List W) (D : Store) : applyOps (a ++ b) D = applyOps b (applyOps a D) := by
  simp [applyOps, List.foldl_append]

theorem applyUnits_eq (us : List Unit) (D : Store) : applyUnits us D = applyOps (allOps us) D := by
  induction us generalizing D with
  | nil => rfl
  | cons u us ih =>
    show applyUnits us (applyOps u.ops D) = _
    rw [ih]
    simp [allOps, applyOps_append]

theorem applyUnits_append (a b : List Unit) (D : Store) : applyUnits (a ++ b) D = applyUnits b (applyUnits a D) := by
  simp [applyUnits, List.foldl_append]

theorem applyUnits_apply (us : List Unit) (D : Store) (k : Key) :
    applyUnits us D k = (writes (allOps us) k).getD (D k) := by
  rw [applyUnits_eq, applyOps_apply]

/-- **Absorption.** Replaying a batch of blind writes over any store that, key by key, holds either the
value before the batch or the value after it, gives exactly the store after the batch. -/
theorem applyOps_absorb (ws : List W) (D E : Store)
    (h : ∀ k, E k = D k ∨ E k = applyOps ws D k) : applyOps ws E = applyOps ws D := by
  funext k
  rw [applyOps_apply, applyOps_apply]
  cases hw : writes ws k with
  | some v => rfl
  | none =>
    have := h k
    rw [applyOps_apply, hw] at this
    simpa using this

theorem get_untouched {ws : List W} {k : Key} (D : Store) (h : ∀ w ∈ ws, w.key ≠ k) : applyOps ws D k = D k := by
  rw [applyOps_apply, writes_eq_none h]; rfl

theorem get_written {ws : List W} {k : Key} {v : Option Val} (D : Store)
    (hex : ∃ w ∈ ws, w.key = k) (hall : ∀ w ∈ ws, w.key = k → w.val = v) : applyOps ws D k = v := by
  rw [applyOps_apply, writes_eq_some hex hall]; rfl

theorem allOps_append (a b : List Unit) : allOps (a ++ b) = allOps a ++ allOps b := by
  simp [allOps]

theorem mem_allOps_take {us : List Unit} {k : Nat} {w : W} (h : w ∈ allOps (us.take k)) : w ∈ allOps us := by
  simp only [allOps, List.mem_flatMap] at h ⊢
  obtain ⟨u, hu, hw⟩ := h
  exact ⟨u, List.mem_of_mem_take hu, hw⟩

theorem crash_eq (us : List Unit) (k : Nat) (D : Store) : crash us k D = applyOps (allOps (us.take k)) D := by
  rw [crash, applyUnits_eq]

/-! ### Chains -/

/-- Ascending parent-linked chain with consecutive numbers. -/
def Asc : List Block → Prop
  | [] => True
  | [_] => True
  | a :: b :: rest => b.parent = a.id ∧ b.no = a.no + 1 ∧ Asc (b :: rest)

/-- Descending parent-linked chain whose lowest block is the child of `start`. -/
def DescFrom (start : Block) : List Block → Prop
  | [] => True
  | [b] => b.parent = start.id ∧ b.no = start.no + 1
  | b :: c :: rest => b.parent = c.id ∧ b.no = c.no + 1 ∧ DescFrom start (c :: rest)

theorem Asc.snoc {l : List Block} {c b : Block} (h : Asc l) (hl : l.getLast? = some c)
    (hp : b.parent = c.id) (hn : b.no = c.no + 1) : Asc (l ++ [b]) := by
  induction l with
  | nil => simp at hl
  | cons a l ih =>
    cases l with
    | nil =>
      simp at hl; subst hl
      exact ⟨hp, hn, trivial⟩
    | cons a2 l =>
      obtain ⟨h1, h2, h3⟩ := h
      refine ⟨h1, h2, ?_⟩
      apply ih h3
      simpa using hl

theorem Asc.of_snoc {l : List Block} {b : Block} (h : Asc (l ++ [b])) : Asc l := by
  induction l with
  | nil => trivial
  | cons a l ih =>
    cases l with
    | nil => trivial
    | cons a2 l =>
      obtain ⟨h1, h2, h3⟩ := h
      exact ⟨h1, h2, ih h3⟩

theorem Asc.last_link {l : List Block} {c b : Block} (h : Asc (l ++ [b])) (hl : l.getLast? = some c) :
    b.parent = c.id ∧ b.no = c.no + 1 := by
  induction l with
  | nil => simp at hl
  | cons a l ih =>
    cases l with
    | nil =>
      simp at hl; subst hl
      exact ⟨h.1, h.2.1⟩
    | cons a2 l =>
      obtain ⟨_, _, h3⟩ := h
      apply ih h3
      simpa using hl

/-! ### The chain-database invariant on a durable store -/

/-- `chain` (genesis first, `best` last) is the main chain recorded in `D`: the C05 invariant clauses that
speak about durable data, plus "the state of the best block is complete". -/
structure Inv (D : Store) (chain : List Block) (best : Block) : Prop where
  last : chain.getLast? = some best
  gen : ∀ g, chain.head? = some g → g.no = 0
  asc : Asc chain
  latest : getLatest D = some best.no
  idx : ∀ b ∈ chain, getByNo D b.no = some b.id
  blk : ∀ b ∈ chain, getBlock D b.id = some b
  above : ∀ h, best.no < h → D (.byNo h) = none
  txs : ∀ b ∈ chain, ∀ i t, b.txs[i]? = some t → getTx D t = some (b.id, i)
  txsOnly : ∀ t i j, getTx D t = some (i, j) → ∃ b ∈ chain, b.id = i ∧ b.txs[j]? = some t
  rcpt : ∀ b ∈ chain, b.txs ≠ [] → hasRcpt D b.id b.no = true
  state : hasStMark D best.root = true
  marker : getMarker D = none

theorem Inv.best_mem {D : Store} {chain : List Block} {best : Block} (h : Inv D chain best) : best ∈ chain :=
  List.mem_of_getLast? h.last

/-- A coherent store without a marker restarts to itself: nothing is written, the best block is loaded,
the state DB is opened at its root. -/
theorem restart_of_inv {D : Store} {chain : List Block} {best : Block} (h : Inv D chain best) :
    restart D = .ok (⟨D, best, best.root, []⟩, [], []) := by
  have hb : blockByNo D best.no = some best := by
    simp [blockByNo, h.idx best h.best_mem, h.blk best h.best_mem]
  simp [restart, initChainDB, h.latest, hb, h.marker, recover]

/-- Two stores that agree on everything the invariant reads (records of other blocks, receipts and state
data may have been added). -/
structure SameView (D E : Store) (chain : List Block) (best : Block) : Prop where
  latest : E .latest = D .latest
  byNo : ∀ n, E (.byNo n) = D (.byNo n)
  blk : ∀ b ∈ chain, E (.block b.id) = D (.block b.id)
  tx : ∀ t, E (.tx t) = D (.tx t)
  rcpt : ∀ b ∈ chain, hasRcpt D b.id b.no = true → hasRcpt E b.id b.no = true
  state : hasStMark D best.root = true → hasStMark E best.root = true
  marker : E .marker = D .marker

theorem Inv.of_sameView {D E : Store} {chain : List Block} {best : Block}
    (h : Inv D chain best) (v : SameView D E chain best) : Inv E chain best := by
  have e1 : getLatest E = getLatest D := by simp [getLatest, v.latest]
  have e2 : ∀ n, getByNo E n = getByNo D n := fun n => by simp [getByNo, v.byNo]
  have e3 : ∀ b ∈ chain, getBlock E b.id = getBlock D b.id := fun b hb => by simp [getBlock, v.blk b hb]
  have e4 : ∀ t, getTx E t = getTx D t := fun t => by simp [getTx, v.tx]
  have e5 : getMarker E = getMarker D := by simp [getMarker, v.marker]
  exact {
    last := h.last, gen := h.gen, asc := h.asc
    latest := e1 ▸ h.latest
    idx := fun b hb => (e2 b.no) ▸ h.idx b hb
    blk := fun b hb => (e3 b hb) ▸ h.blk b hb
    above := fun n hn => (v.byNo n) ▸ h.above n hn
    txs := fun b hb i t ht => (e4 t) ▸ h.txs b hb i t ht
    txsOnly := fun t i j ht => h.txsOnly t i j ((e4 t) ▸ ht)
    rcpt := fun b hb hne => v.rcpt b hb (h.rcpt b hb hne)
    state := v.state h.state
    marker := e5 ▸ h.marker }

/-- Writes that cannot disturb the invariant: new state data, state markers, receipts. -/
def Harmless : W → Prop
  | .set (.stData _) _ => True
  | .set (.stMark _) _ => True
  | .set (.rcpt _ _) _ => True
  | _ => False

theorem sameView_of_harmless {ws : List W} (D : Store) (chain : List Block) (best : Block)
    (h : ∀ w ∈ ws, Harmless w) : SameView D (applyOps ws D) chain best := by
  have key : ∀ k, (∀ w ∈ ws, Harmless w → w.key ≠ k) → applyOps ws D k = D k :=
    fun k hk => get_untouched D (fun w hw => hk w hw (h w hw))
  have grow : ∀ k, (D k).isSome = true → (applyOps ws D k).isSome = true := by
    intro k hk
    rw [applyOps_apply]
    cases hw : writes ws k with
    | none => simpa using hk
    | some v =>
      obtain ⟨w, hw1, _, hw3⟩ := writes_some_mem hw
      have := h w hw1
      cases w with
      | del k' => exact absurd this (by simp [Harmless])
      | set k' v' => simp [W.val] at hw3; subst hw3; rfl
  refine ⟨?_, ?_, ?_, ?_, ?_, ?_, ?_⟩
  · apply key; intro w _ hh; cases w with
    | set k v => cases k <;> simp_all [Harmless, W.key]
    | del k => simp [Harmless] at hh
  · intro n; apply key; intro w _ hh; cases w with
    | set k v => cases k <;> simp_all [Harmless, W.key]
    | del k => simp [Harmless] at hh
  · intro b _; apply key; intro w _ hh; cases w with
    | set k v => cases k <;> simp_all [Harmless, W.key]
    | del k => simp [Harmless] at hh
  · intro t; apply key; intro w _ hh; cases w with
    | set k v => cases k <;> simp_all [Harmless, W.key]
    | del k => simp [Harmless] at hh
  · intro b _ hb; exact grow _ hb
  · intro hb; exact grow _ hb
  · apply key; intro w _ hh; cases w with
    | set k v => cases k <;> simp_all [Harmless, W.key]
    | del k => simp [Harmless] at hh

theorem nodup_index_unique {l : List Nat} {i j t : Nat} (h : l.Nodup) (a : l[i]? = some t) (b : l[j]? = some t) : i = j := by
  have hi : i < l.length := by
    rcases Nat.lt_or_ge i l.length with h | h
    · exact h
    · simp [List.getElem?_eq_none h] at a
  exact (List.getElem?_inj hi h).mp (a.trans b.symm)

theorem mem_txIdxFrom {id : Nat} {ts : List Nat} {i : Nat} {w : W} :
    w ∈ txIdxFrom id ts i ↔ ∃ j t, ts[j]? = some t ∧ w = .set (.tx t) (.txIdx id (i + j)) := by
  induction ts generalizing i with
  | nil => simp [txIdxFrom]
  | cons a ts ih =>
    simp only [txIdxFrom, List.mem_cons, ih]
    constructor
    · rintro (rfl | ⟨j, t, hj, rfl⟩)
      · exact ⟨0, a, by simp, by simp⟩
      · exact ⟨j + 1, t, by simpa using hj, by simp [Nat.add_assoc, Nat.add_comm 1 j]⟩
    · rintro ⟨j, t, hj, rfl⟩
      cases j with
      | zero => simp at hj; subst hj; left; simp
      | succ j => right; exact ⟨j, t, by simpa using hj, by simp [Nat.add_assoc, Nat.add_comm 1 j]⟩

theorem mem_txIdxOps {b : Block} {w : W} :
    w ∈ txIdxOps b ↔ ∃ j t, b.txs[j]? = some t ∧ w = .set (.tx t) (.txIdx b.id j) := by
  simp [txIdxOps, mem_txIdxFrom]

theorem harmless_execUnits (b : Block) : ∀ w ∈ allOps (execUnits b), Harmless w := by
  intro w hw
  simp only [allOps, execUnits, stateUnit, rcptUnits, List.flatMap_cons, List.mem_append] at hw
  rcases hw with hw | hw
  · split at hw <;> simp at hw
    · subst hw; trivial
    · rcases hw with rfl | rfl <;> trivial
  · split at hw <;> simp at hw
    subst hw; trivial

/-- Numbers on a chain never exceed the tip's: a block of the chain at a height above `best` would be in
the height index, which is empty there. -/
theorem Inv.no_le {D : Store} {chain : List Block} {best : Block} (h : Inv D chain best) {c : Block}
    (hc : c ∈ chain) : c.no ≤ best.no := by
  rcases Nat.lt_or_ge best.no c.no with hlt | hge
  · have := h.above c.no hlt
    have h2 := h.idx c hc
    simp [getByNo, this] at h2
  · exact hge

theorem Inv.chain_ne {D : Store} {chain : List Block} {best : Block} (h : Inv D chain best) : chain ≠ [] := by
  intro e; have := h.last; simp [e] at this

/-- The tip transaction (`connectToChain` + `addTxsOfBlock`) applied to a coherent store that already holds
the block's complete state and receipts makes the extended chain coherent. -/
theorem inv_connectUnit {D : Store} {chain : List Block} {best b : Block} (h : Inv D chain best)
    (hp : b.parent = best.id) (hn : b.no = best.no + 1) (hid : ∀ c ∈ chain, c.id ≠ b.id)
    (hnd : b.txs.Nodup) (hfresh : ∀ t ∈ b.txs, getTx D t = none)
    (hst : hasStMark D b.root = true) (hrc : b.txs ≠ [] → hasRcpt D b.id b.no = true) :
    Inv (applyOps (connectUnit b).ops D) (chain ++ [b]) b := by
  let F := applyOps (connectUnit b).ops D
  have mem : ∀ w, w ∈ (connectUnit b).ops ↔
      (w = .set (.block b.id) (.blk b) ∨ w = .set .latest (.num b.no) ∨ w = .set (.byNo b.no) (.id b.id) ∨
       w = .set .cons (.id b.id)) ∨ ∃ j t, b.txs[j]? = some t ∧ w = .set (.tx t) (.txIdx b.id j) := by
    intro w; simp [connectUnit, mem_txIdxOps, or_assoc]
  have untouched : ∀ k, (k ≠ .block b.id) → k ≠ .latest → k ≠ .byNo b.no → k ≠ .cons → (∀ t ∈ b.txs, k ≠ .tx t) → F k = D k := by
    intro k h1 h2 h3 h4 h5
    apply get_untouched
    intro w hw
    rcases (mem w).mp hw with (rfl | rfl | rfl | rfl) | ⟨j, t, hj, rfl⟩
    · exact fun e => h1 e.symm
    · exact fun e => h2 e.symm
    · exact fun e => h3 e.symm
    · exact fun e => h4 e.symm
    · exact fun e => h5 t (List.mem_of_getElem? hj) e.symm
  have fLatest : F .latest = some (.num b.no) := by
    apply get_written
    · exact ⟨_, (mem _).mpr (Or.inl (Or.inr (Or.inl rfl))), rfl⟩
    · intro w hw hk
      rcases (mem w).mp hw with (rfl | rfl | rfl | rfl) | ⟨j, t, hj, rfl⟩ <;> simp_all [W.key, W.val]
  have fByNo : F (.byNo b.no) = some (.id b.id) := by
    apply get_written
    · exact ⟨_, (mem _).mpr (Or.inl (Or.inr (Or.inr (Or.inl rfl)))), rfl⟩
    · intro w hw hk
      rcases (mem w).mp hw with (rfl | rfl | rfl | rfl) | ⟨j, t, hj, rfl⟩ <;> simp_all [W.key, W.val]
  have fBlk : F (.block b.id) = some (.blk b) := by
    apply get_written
    · exact ⟨_, (mem _).mpr (Or.inl (Or.inl rfl)), rfl⟩
    · intro w hw hk
      rcases (mem w).mp hw with (rfl | rfl | rfl | rfl) | ⟨j, t, hj, rfl⟩ <;> simp_all [W.key, W.val]
  have fTx : ∀ j t, b.txs[j]? = some t → F (.tx t) = some (.txIdx b.id j) := by
    intro j t hj
    apply get_written
    · exact ⟨_, (mem _).mpr (Or.inr ⟨j, t, hj, rfl⟩), rfl⟩
    · intro w hw hk
      rcases (mem w).mp hw with (rfl | rfl | rfl | rfl) | ⟨j', t', hj', rfl⟩
      · simp [W.key] at hk
      · simp [W.key] at hk
      · simp [W.key] at hk
      · simp [W.key] at hk
      · simp [W.key] at hk; subst hk
        simp [W.val, nodup_index_unique hnd hj' hj]
  have otherNo : ∀ n, n ≠ b.no → F (.byNo n) = D (.byNo n) := fun n hne =>
    untouched _ (by simp) (by simp) (by simpa using hne) (by simp) (by simp)
  have otherBlk : ∀ i, i ≠ b.id → F (.block i) = D (.block i) := fun i hne =>
    untouched _ (by simpa using hne) (by simp) (by simp) (by simp) (by simp)
  have otherTx : ∀ t, t ∉ b.txs → F (.tx t) = D (.tx t) := fun t hne =>
    untouched _ (by simp) (by simp) (by simp) (by simp) (by intro t' ht' e; cases e; exact hne ht')
  have hbest := h.best_mem
  have notTx : ∀ c ∈ chain, ∀ (i t : Nat), c.txs[i]? = some t → t ∉ b.txs := by
    intro c hc i t ht hmem
    have := h.txs c hc i t ht
    rw [hfresh t hmem] at this; cases this
  refine {
    last := by simp
    gen := ?_, asc := h.asc.snoc h.last hp hn
    latest := by simp [getLatest, show applyOps (connectUnit b).ops D .latest = _ from fLatest]
    idx := ?_, blk := ?_, above := ?_, txs := ?_, txsOnly := ?_, rcpt := ?_
    state := ?_, marker := ?_ }
  · intro g hg
    apply h.gen g
    cases hc : chain with
    | nil => exact absurd hc h.chain_ne
    | cons a l => simpa [hc] using hg
  · intro c hc
    rcases List.mem_append.mp hc with hc | hc
    · have hne : c.no ≠ b.no := by have := h.no_le hc; omega
      show getByNo F c.no = _
      simp only [getByNo, otherNo c.no hne]
      exact h.idx c hc
    · simp at hc; subst hc
      show getByNo F c.no = _
      simp [getByNo, fByNo]
  · intro c hc
    rcases List.mem_append.mp hc with hc | hc
    · show getBlock F c.id = _
      simp only [getBlock, otherBlk c.id (hid c hc)]
      exact h.blk c hc
    · simp at hc; subst hc
      show getBlock F c.id = _
      simp [getBlock, fBlk]
  · intro n hlt
    show F (.byNo n) = _
    have hne : n ≠ b.no := by omega
    rw [otherNo n hne]
    exact h.above n (by omega)
  · intro c hc i t ht
    rcases List.mem_append.mp hc with hc | hc
    · show getTx F t = _
      simp only [getTx, otherTx t (notTx c hc i t ht)]
      exact h.txs c hc i t ht
    · simp at hc; subst hc
      show getTx F t = _
      simp [getTx, fTx i t ht]
  · intro t i j ht
    by_cases hm : t ∈ b.txs
    · obtain ⟨j', hj'⟩ := List.mem_iff_getElem?.mp hm
      have : getTx F t = some (b.id, j') := by simp [getTx, fTx j' t hj']
      rw [this] at ht
      cases ht
      exact ⟨b, by simp, rfl, hj'⟩
    · have : getTx F t = getTx D t := by simp only [getTx, otherTx t hm]
      rw [this] at ht
      obtain ⟨c, hc, h1, h2⟩ := h.txsOnly t i j ht
      exact ⟨c, List.mem_append_left _ hc, h1, h2⟩
  · intro c hc hne
    have same : ∀ i n, F (.rcpt i n) = D (.rcpt i n) := fun i n =>
      untouched _ (by simp) (by simp) (by simp) (by simp) (by simp)
    show hasRcpt F c.id c.no = true
    simp only [hasRcpt, same]
    rcases List.mem_append.mp hc with hc | hc
    · exact h.rcpt c hc hne
    · simp at hc; subst hc; exact hrc hne
  · have same : F (.stMark b.root) = D (.stMark b.root) :=
      untouched _ (by simp) (by simp) (by simp) (by simp) (by simp)
    show hasStMark F b.root = true
    simp only [hasStMark, same]; exact hst
  · have same : F .marker = D .marker :=
      untouched _ (by simp) (by simp) (by simp) (by simp) (by simp)
    show getMarker F = none
    simp only [getMarker, same]; exact h.marker

/-! ### Descending branches -/

theorem Asc.prefix {pre : List Block} : ∀ {l : List Block}, Asc (pre ++ l.reverse) → Asc pre
  | [], h => by simpa using h
  | b :: rest, h => by
    have : pre ++ (b :: rest).reverse = (pre ++ rest.reverse) ++ [b] := by simp
    rw [this] at h
    exact Asc.prefix h.of_snoc

theorem getLast?_append_reverse {pre l : List Block} {s : Block} (hs : pre.getLast? = some s) :
    (pre ++ l.reverse).getLast? = some (l.headD s) := by
  cases l with
  | nil => simpa using hs
  | cons a l => simp [List.getLast?_append, List.getLast?_reverse]

theorem descFrom_of_asc {pre : List Block} {start : Block} (hs : pre.getLast? = some start) :
    ∀ {l : List Block}, Asc (pre ++ l.reverse) → DescFrom start l
  | [], _ => trivial
  | [b], h => by
    have : pre ++ [b].reverse = pre ++ [b] := by simp
    rw [this] at h
    exact h.last_link hs
  | b :: c :: rest, h => by
    have e : pre ++ (b :: c :: rest).reverse = (pre ++ (c :: rest).reverse) ++ [b] := by simp
    rw [e] at h
    have hl : (pre ++ (c :: rest).reverse).getLast? = some c := by
      rw [getLast?_append_reverse hs]; rfl
    obtain ⟨h1, h2⟩ := h.last_link hl
    exact ⟨h1, h2, descFrom_of_asc hs h.of_snoc⟩

theorem asc_of_descFrom {pre : List Block} {start : Block} (hp : Asc pre) (hs : pre.getLast? = some start) :
    ∀ {l : List Block}, DescFrom start l → Asc (pre ++ l.reverse)
  | [], _ => by simpa using hp
  | [b], h => by
    have : pre ++ [b].reverse = pre ++ [b] := by simp
    rw [this]
    exact hp.snoc hs h.1 h.2
  | b :: c :: rest, h => by
    have e : pre ++ (b :: c :: rest).reverse = (pre ++ (c :: rest).reverse) ++ [b] := by simp
    rw [e]
    have hl : (pre ++ (c :: rest).reverse).getLast? = some c := by
      rw [getLast?_append_reverse hs]; rfl
    exact (asc_of_descFrom hp hs h.2.2).snoc hl h.1 h.2.1

theorem DescFrom.tail {start b : Block} {l : List Block} (h : DescFrom start (b :: l)) : DescFrom start l := by
  cases l with
  | nil => trivial
  | cons c r => exact h.2.2

/-- Numbers on a descending branch: the head is `length` above the fork point. -/
theorem DescFrom.head_no {start : Block} : ∀ {l : List Block} {b : Block}, DescFrom start (b :: l) → b.no = start.no + (l.length + 1)
  | [], b, h => by simpa using h.2
  | c :: r, b, h => by
    have := DescFrom.head_no h.2.2
    have := h.2.1
    simp only [List.length_cons]; omega

theorem DescFrom.no_bounds {start : Block} : ∀ {l : List Block} {c : Block}, DescFrom start l → c ∈ l →
    start.no < c.no ∧ c.no ≤ start.no + l.length
  | b :: r, c, h, hc => by
    rcases List.mem_cons.mp hc with rfl | hc
    · have := h.head_no; simp only [List.length_cons]; omega
    · have := DescFrom.no_bounds h.tail hc
      simp only [List.length_cons]; omega

theorem DescFrom.no_inj {start : Block} : ∀ {l : List Block} {b c : Block}, DescFrom start l → b ∈ l → c ∈ l → b.no = c.no → b = c
  | x :: r, b, c, h, hb, hc, e => by
    have hx := h.head_no
    rcases List.mem_cons.mp hb with hb1 | hb1
    · rcases List.mem_cons.mp hc with hc1 | hc1
      · rw [hb1, hc1]
      · have := (DescFrom.no_bounds h.tail hc1).2; subst hb1; omega
    · rcases List.mem_cons.mp hc with hc1 | hc1
      · have := (DescFrom.no_bounds h.tail hb1).2; subst hc1; omega
      · exact DescFrom.no_inj h.tail hb1 hc1 e

theorem Asc.no_le_last : ∀ {l : List Block} {s c : Block}, Asc l → l.getLast? = some s → c ∈ l → c.no ≤ s.no
  | [a], s, c, _, hs, hc => by
    simp at hs hc; subst hs; subst hc; exact Nat.le_refl _
  | a :: b :: r, s, c, h, hs, hc => by
    have hs' : (b :: r).getLast? = some s := by simpa using hs
    rcases List.mem_cons.mp hc with rfl | hc'
    · have := Asc.no_le_last h.2.2 hs' (List.mem_cons_self ..)
      have := h.2.1; omega
    · exact Asc.no_le_last h.2.2 hs' hc'

theorem walkTo_desc {D : Store} {start : Block} (hstart : getBlock D start.id = some start) :
    ∀ {l : List Block}, DescFrom start l → (∀ b ∈ l, getBlock D b.id = some b) →
      ∀ fuel, l.length ≤ fuel → walkTo D start.no fuel (l.headD start) = some l
  | [], _, _, fuel, _ => by
    cases fuel <;> simp [walkTo]
  | [b], h, hs, fuel, hf => by
    cases fuel with
    | zero => simp at hf
    | succ f =>
      have hb : b.no > start.no := by have := h.2; omega
      have hp : getBlock D b.parent = some start := by rw [h.1]; exact hstart
      have h0 : walkTo D start.no f start = some [] := by cases f <;> simp [walkTo]
      simp [walkTo, hb, hp, h0]
  | b :: c :: r, h, hs, fuel, hf => by
    cases fuel with
    | zero => simp at hf
    | succ f =>
      have hb : b.no > start.no := (DescFrom.no_bounds h (List.mem_cons_self ..)).1
      have hp : getBlock D b.parent = some c := by rw [h.1]; exact hs c (by simp)
      have ih := walkTo_desc hstart h.2.2 (fun x hx => hs x (List.mem_cons_of_mem _ hx)) f (by simpa using hf)
      simp only [List.headD_cons] at ih
      simp [walkTo, hb, hp, ih]

theorem oldMappingOps_desc {D : Store} {start : Block} (hstart : getBlock D start.id = some start) :
    ∀ {l : List Block}, DescFrom start l → (∀ b ∈ l, getBlock D b.id = some b) →
      ∀ fuel, l.length ≤ fuel →
        oldMappingOps D start.no fuel (l.headD start) = .ok (l.map (fun b => .set (.byNo b.no) (.id b.id)))
  | [], _, _, fuel, _ => by
    cases fuel <;> simp [oldMappingOps]
  | [b], h, hs, fuel, hf => by
    cases fuel with
    | zero => simp at hf
    | succ f =>
      have hb : b.no > start.no := by have := h.2; omega
      have hp : getBlock D b.parent = some start := by rw [h.1]; exact hstart
      have h0 : oldMappingOps D start.no f start = .ok [] := by cases f <;> simp [oldMappingOps]
      simp [oldMappingOps, hp, h0, h.2]
  | b :: c :: r, h, hs, fuel, hf => by
    cases fuel with
    | zero => simp at hf
    | succ f =>
      have hb : b.no > start.no := (DescFrom.no_bounds h (List.mem_cons_self ..)).1
      have hp : getBlock D b.parent = some c := by rw [h.1]; exact hs c (by simp)
      have ih := oldMappingOps_desc hstart h.2.2 (fun x hx => hs x (List.mem_cons_of_mem _ hx)) f (by simpa using hf)
      simp only [List.headD_cons] at ih
      have hb' : start.no < c.no + 1 := by have := h.2.1; omega
      simp [oldMappingOps, hp, ih, h.2.1, hb']

theorem mem_downFrom {hi lo n : Nat} : n ∈ downFrom hi lo ↔ lo < n ∧ n ≤ hi := by
  simp only [downFrom, List.mem_map, List.mem_range]
  constructor
  · rintro ⟨i, hi', rfl⟩; omega
  · rintro ⟨h1, h2⟩; exact ⟨hi - n, by omega, by omega⟩

/-! ### The swap phase of a reorganisation -/

/-- The units of `swapChain` between the marker write and the marker deletion. -/
def midUnits (old new : List Block) (top : Block) : List Unit :=
  [⟨.C, .tx, old.flatMap (fun b => [.del (.rcpt b.id b.no), .del (.iops b.no)])⟩] ++
  new.reverse.map (fun b => ⟨.C, .tx, txIdxOps b⟩) ++
  [⟨.C, .bulk, (oldOnlyTxs old new).map (fun t => .del (.tx t))⟩] ++ [mappingUnit new top]

def markerSetUnit (m : Marker) : Unit := ⟨.C, .tx, [.set .marker (.mk m)]⟩
def markerDelUnit : Unit := ⟨.C, .tx, [.del .marker]⟩

theorem swapUnits_eq (m : Marker) (old new : List Block) (top : Block) :
    swapUnits m old new top false = markerSetUnit m :: (midUnits old new top ++ [markerDelUnit]) := by
  simp [swapUnits, midUnits, markerSetUnit, markerDelUnit]

def midOps (old new : List Block) (top : Block) : List W := allOps (midUnits old new top)

theorem mem_insertAsc {a x : Nat} {l : List Nat} : a ∈ insertAsc x l ↔ a = x ∨ a ∈ l := by
  induction l with
  | nil => simp [insertAsc]
  | cons y ys ih =>
    unfold insertAsc
    split
    · simp
    · simp only [List.mem_cons, ih]
      constructor
      · rintro (h | h | h)
        · exact Or.inr (Or.inl h)
        · exact Or.inl h
        · exact Or.inr (Or.inr h)
      · rintro (h | h | h)
        · exact Or.inr (Or.inl h)
        · exact Or.inl h
        · exact Or.inr (Or.inr h)

theorem mem_sortAsc {a : Nat} {l : List Nat} : a ∈ sortAsc l ↔ a ∈ l := by
  induction l with
  | nil => simp [sortAsc]
  | cons y ys ih =>
    have : sortAsc (y :: ys) = insertAsc y (sortAsc ys) := rfl
    rw [this, mem_insertAsc, ih]; simp

theorem mem_oldOnlyTxs {old new : List Block} {t : Nat} :
    t ∈ oldOnlyTxs old new ↔ (∃ o ∈ old, t ∈ o.txs) ∧ ∀ b ∈ new, t ∉ b.txs := by
  simp [oldOnlyTxs, mem_sortAsc, List.mem_filter, List.mem_flatMap]

theorem mem_midOps {old new : List Block} {top : Block} {w : W} :
    w ∈ midOps old new top ↔
      (∃ b ∈ old, w = .del (.rcpt b.id b.no) ∨ w = .del (.iops b.no)) ∨
      (∃ b ∈ new, ∃ j t, b.txs[j]? = some t ∧ w = .set (.tx t) (.txIdx b.id j)) ∨
      (∃ t, ((∃ o ∈ old, t ∈ o.txs) ∧ ∀ b ∈ new, t ∉ b.txs) ∧ w = .del (.tx t)) ∨
      (∃ b ∈ new, w = .set (.byNo b.no) (.id b.id)) ∨ w = .set .latest (.num top.no) ∨ w = .set .cons (.id top.id) := by
  simp only [midOps, midUnits, mappingUnit, allOps, List.flatMap_append, List.flatMap_cons, List.flatMap_nil,
    List.append_nil, List.mem_append, List.mem_flatMap, List.mem_map, List.mem_reverse, List.flatMap_map,
    mem_txIdxOps, mem_oldOnlyTxs, List.mem_cons, List.not_mem_nil, or_false]
  constructor
  · rintro (((⟨b, hb, h⟩ | ⟨b, hb, j, t, hj, rfl⟩) | ⟨t, ht, rfl⟩) | (⟨b, hb, rfl⟩ | rfl | rfl))
    · exact Or.inl ⟨b, hb, h⟩
    · exact Or.inr (Or.inl ⟨b, hb, j, t, hj, rfl⟩)
    · exact Or.inr (Or.inr (Or.inl ⟨t, ht, rfl⟩))
    · exact Or.inr (Or.inr (Or.inr (Or.inl ⟨b, hb, rfl⟩)))
    · exact Or.inr (Or.inr (Or.inr (Or.inr (Or.inl rfl))))
    · exact Or.inr (Or.inr (Or.inr (Or.inr (Or.inr rfl))))
  · rintro (⟨b, hb, h⟩ | ⟨b, hb, j, t, hj, rfl⟩ | ⟨t, ht, rfl⟩ | ⟨b, hb, rfl⟩ | rfl | rfl)
    · exact Or.inl (Or.inl (Or.inl ⟨b, hb, h⟩))
    · exact Or.inl (Or.inl (Or.inr ⟨b, hb, j, t, hj, rfl⟩))
    · exact Or.inl (Or.inr ⟨t, ht, rfl⟩)
    · exact Or.inr (Or.inl ⟨b, hb, rfl⟩)
    · exact Or.inr (Or.inr (Or.inl rfl))
    · exact Or.inr (Or.inr (Or.inr rfl))

/-- The situation in which `swapChain` starts (and in which a recovery finds the blocks): `pre ++ old.reverse`
is the coherent main chain of `D0`, `new` is a stored longer branch off `start` = last of `pre` whose
blocks have all been executed (state marker, receipts). `old`/`new` descend from the tips. -/
structure Ready (D0 : Store) (pre old new : List Block) (start best top : Block) : Prop where
  inv : Inv D0 (pre ++ old.reverse) best
  preLast : pre.getLast? = some start
  oldHead : old.head? = some best
  newHead : new.head? = some top
  newDesc : DescFrom start new
  newStored : ∀ b ∈ new, getBlock D0 b.id = some b
  longer : old.length < new.length
  newIds : ∀ b ∈ new, ∀ c ∈ pre ++ old.reverse, b.id ≠ c.id
  txUnique : ∀ b ∈ pre ++ new.reverse, ∀ c ∈ pre ++ new.reverse, ∀ (i j t : Nat),
    b.txs[i]? = some t → c.txs[j]? = some t → b.id = c.id ∧ i = j
  newState : ∀ b ∈ new, hasStMark D0 b.root = true
  newRcpt : ∀ b ∈ new, b.txs ≠ [] → hasRcpt D0 b.id b.no = true

namespace Ready
variable {D0 : Store} {pre old new : List Block} {start best top : Block}

theorem oldDesc (R : Ready D0 pre old new start best top) : DescFrom start old :=
  descFrom_of_asc R.preLast R.inv.asc

theorem start_mem (R : Ready D0 pre old new start best top) : start ∈ pre := List.mem_of_getLast? R.preLast

theorem start_stored (R : Ready D0 pre old new start best top) : getBlock D0 start.id = some start :=
  R.inv.blk start (List.mem_append_left _ R.start_mem)

theorem old_eq (R : Ready D0 pre old new start best top) : ∃ r, old = best :: r := by
  cases h : old with
  | nil => have := R.oldHead; simp [h] at this
  | cons a r => have := R.oldHead; simp [h] at this; exact ⟨r, by rw [this]⟩

theorem new_eq (R : Ready D0 pre old new start best top) : ∃ r, new = top :: r := by
  cases h : new with
  | nil => have := R.newHead; simp [h] at this
  | cons a r => have := R.newHead; simp [h] at this; exact ⟨r, by rw [this]⟩

theorem best_no (R : Ready D0 pre old new start best top) : best.no = start.no + old.length := by
  obtain ⟨r, hr⟩ := R.old_eq
  have := R.oldDesc; rw [hr] at this
  rw [hr]; simpa using this.head_no

theorem top_no (R : Ready D0 pre old new start best top) : top.no = start.no + new.length := by
  obtain ⟨r, hr⟩ := R.new_eq
  have := R.newDesc; rw [hr] at this
  rw [hr]; simpa using this.head_no

theorem best_mem_old (R : Ready D0 pre old new start best top) : best ∈ old := by
  obtain ⟨r, hr⟩ := R.old_eq; simp [hr]

theorem top_mem_new (R : Ready D0 pre old new start best top) : top ∈ new := by
  obtain ⟨r, hr⟩ := R.new_eq; simp [hr]

theorem pre_no_le (R : Ready D0 pre old new start best top) {c : Block} (hc : c ∈ pre) : c.no ≤ start.no :=
  Asc.no_le_last R.inv.asc.prefix R.preLast hc

theorem old_stored (R : Ready D0 pre old new start best top) {o : Block} (ho : o ∈ old) : getBlock D0 o.id = some o :=
  R.inv.blk o (List.mem_append_right _ (List.mem_reverse.mpr ho))

theorem pre_old_id_ne (R : Ready D0 pre old new start best top) {c o : Block} (hc : c ∈ pre) (ho : o ∈ old) : c.id ≠ o.id := by
  intro e
  have h1 := R.inv.blk c (List.mem_append_left _ hc)
  have h2 := R.old_stored ho
  rw [e, h2] at h1
  cases h1
  have := R.pre_no_le hc
  have := (R.oldDesc.no_bounds ho).1
  omega

/-- Block records, state data, state markers and the marker key are not touched by the swap writes. -/
theorem mid_untouched (R : Ready D0 pre old new start best top) (E : Store) {k : Key}
    (h1 : ∀ i n, k ≠ .rcpt i n) (h2 : ∀ n, k ≠ .iops n) (h3 : ∀ t, k ≠ .tx t) (h4 : ∀ n, k ≠ .byNo n)
    (h5 : k ≠ .latest) (h6 : k ≠ .cons) : applyOps (midOps old new top) E k = E k := by
  apply get_untouched
  intro w hw
  rcases mem_midOps.mp hw with ⟨b, _, rfl | rfl⟩ | ⟨b, _, j, t, _, rfl⟩ | ⟨t, _, rfl⟩ | ⟨b, _, rfl⟩ | rfl | rfl
  · exact fun e => h1 _ _ e.symm
  · exact fun e => h2 _ e.symm
  · exact fun e => h3 _ e.symm
  · exact fun e => h3 _ e.symm
  · exact fun e => h4 _ e.symm
  · exact fun e => h5 e.symm
  · exact fun e => h6 e.symm

theorem mid_block (R : Ready D0 pre old new start best top) (E : Store) (i : Nat) :
    applyOps (midOps old new top) E (.block i) = E (.block i) :=
  R.mid_untouched E (by simp) (by simp) (by simp) (by simp) (by simp) (by simp)

theorem mid_stMark (R : Ready D0 pre old new start best top) (E : Store) (r : Nat) :
    applyOps (midOps old new top) E (.stMark r) = E (.stMark r) :=
  R.mid_untouched E (by simp) (by simp) (by simp) (by simp) (by simp) (by simp)

theorem mid_marker (R : Ready D0 pre old new start best top) (E : Store) :
    applyOps (midOps old new top) E .marker = E .marker :=
  R.mid_untouched E (by simp) (by simp) (by simp) (by simp) (by simp) (by simp)

theorem mid_latest (R : Ready D0 pre old new start best top) (E : Store) :
    applyOps (midOps old new top) E .latest = some (.num top.no) := by
  apply get_written
  · exact ⟨_, mem_midOps.mpr (Or.inr (Or.inr (Or.inr (Or.inr (Or.inl rfl))))), rfl⟩
  · intro w hw hk
    rcases mem_midOps.mp hw with ⟨b, _, rfl | rfl⟩ | ⟨b, _, j, t, _, rfl⟩ | ⟨t, _, rfl⟩ | ⟨b, _, rfl⟩ | rfl | rfl <;>
      simp_all [W.key, W.val]

theorem mid_byNo_new (R : Ready D0 pre old new start best top) (E : Store) {b : Block} (hb : b ∈ new) :
    applyOps (midOps old new top) E (.byNo b.no) = some (.id b.id) := by
  apply get_written
  · exact ⟨_, mem_midOps.mpr (Or.inr (Or.inr (Or.inr (Or.inl ⟨b, hb, rfl⟩)))), rfl⟩
  · intro w hw hk
    rcases mem_midOps.mp hw with ⟨c, _, rfl | rfl⟩ | ⟨c, _, j, t, _, rfl⟩ | ⟨t, _, rfl⟩ | ⟨c, hc, rfl⟩ | rfl | rfl
    · simp [W.key] at hk
    · simp [W.key] at hk
    · simp [W.key] at hk
    · simp [W.key] at hk
    · simp [W.key] at hk
      rw [R.newDesc.no_inj hc hb hk]; rfl
    · simp [W.key] at hk
    · simp [W.key] at hk

theorem mid_byNo_other (R : Ready D0 pre old new start best top) (E : Store) {n : Nat} (h : ∀ b ∈ new, b.no ≠ n) :
    applyOps (midOps old new top) E (.byNo n) = E (.byNo n) := by
  apply get_untouched
  intro w hw
  rcases mem_midOps.mp hw with ⟨c, _, rfl | rfl⟩ | ⟨c, _, j, t, _, rfl⟩ | ⟨t, _, rfl⟩ | ⟨c, hc, rfl⟩ | rfl | rfl <;>
    simp [W.key]
  exact h c hc

theorem mid_tx_new (R : Ready D0 pre old new start best top) (E : Store) {b : Block} (hb : b ∈ new) {j t : Nat}
    (hj : b.txs[j]? = some t) : applyOps (midOps old new top) E (.tx t) = some (.txIdx b.id j) := by
  apply get_written
  · exact ⟨_, mem_midOps.mpr (Or.inr (Or.inl ⟨b, hb, j, t, hj, rfl⟩)), rfl⟩
  · intro w hw hk
    rcases mem_midOps.mp hw with ⟨c, _, rfl | rfl⟩ | ⟨c, hc, j', t', hj', rfl⟩ | ⟨t', ⟨_, hn⟩, rfl⟩ | ⟨c, hc, rfl⟩ | rfl | rfl
    · simp [W.key] at hk
    · simp [W.key] at hk
    · simp [W.key] at hk; subst hk
      have := R.txUnique c (List.mem_append_right _ (List.mem_reverse.mpr hc)) b
        (List.mem_append_right _ (List.mem_reverse.mpr hb)) j' j t' hj' hj
      simp [W.val, this.1, this.2]
    · simp [W.key] at hk; subst hk
      exact absurd (List.mem_of_getElem? hj) (hn b hb)
    · simp [W.key] at hk
    · simp [W.key] at hk
    · simp [W.key] at hk

theorem mid_tx_del (R : Ready D0 pre old new start best top) (E : Store) {t : Nat}
    (ho : ∃ o ∈ old, t ∈ o.txs) (hn : ∀ b ∈ new, t ∉ b.txs) : applyOps (midOps old new top) E (.tx t) = none := by
  apply get_written
  · exact ⟨_, mem_midOps.mpr (Or.inr (Or.inr (Or.inl ⟨t, ⟨ho, hn⟩, rfl⟩))), rfl⟩
  · intro w hw hk
    rcases mem_midOps.mp hw with ⟨c, _, rfl | rfl⟩ | ⟨c, hc, j', t', hj', rfl⟩ | ⟨t', _, rfl⟩ | ⟨c, hc, rfl⟩ | rfl | rfl
    · simp [W.key] at hk
    · simp [W.key] at hk
    · simp [W.key] at hk; subst hk
      exact absurd (List.mem_of_getElem? hj') (hn c hc)
    · rfl
    · simp [W.key] at hk
    · simp [W.key] at hk
    · simp [W.key] at hk

theorem mid_tx_other (R : Ready D0 pre old new start best top) (E : Store) {t : Nat}
    (ho : ∀ o ∈ old, t ∉ o.txs) (hn : ∀ b ∈ new, t ∉ b.txs) : applyOps (midOps old new top) E (.tx t) = E (.tx t) := by
  apply get_untouched
  intro w hw
  rcases mem_midOps.mp hw with ⟨c, _, rfl | rfl⟩ | ⟨c, hc, j', t', hj', rfl⟩ | ⟨t', ⟨⟨o, ho', ht'⟩, _⟩, rfl⟩ | ⟨c, hc, rfl⟩ | rfl | rfl <;>
    simp [W.key]
  · rintro rfl; exact hn c hc (List.mem_of_getElem? hj')
  · rintro rfl; exact ho o ho' ht'

theorem mid_rcpt_other (R : Ready D0 pre old new start best top) (E : Store) {i n : Nat}
    (h : ∀ o ∈ old, o.id ≠ i) : applyOps (midOps old new top) E (.rcpt i n) = E (.rcpt i n) := by
  apply get_untouched
  intro w hw
  rcases mem_midOps.mp hw with ⟨c, hc, rfl | rfl⟩ | ⟨c, hc, j', t', hj', rfl⟩ | ⟨t', _, rfl⟩ | ⟨c, hc, rfl⟩ | rfl | rfl <;>
    simp [W.key]
  intro e; exact absurd e (h c hc)

end Ready

/-- The store at the end of the swap: the swap writes, then the marker deletion. -/
def finalStore (D0 : Store) (old new : List Block) (top : Block) : Store :=
  applyOps (midOps old new top ++ [.del .marker]) D0

theorem finalStore_marker (D0 : Store) (old new : List Block) (top : Block) : finalStore D0 old new top .marker = none := by
  simp [finalStore, applyOps_append, applyOps, W.apply, W.key, W.val]

theorem finalStore_other (D0 : Store) (old new : List Block) (top : Block) {k : Key} (h : k ≠ .marker) :
    finalStore D0 old new top k = applyOps (midOps old new top) D0 k := by
  simp [finalStore, applyOps_append, applyOps, W.apply, W.key, h]

namespace Ready
variable {D0 : Store} {pre old new : List Block} {start best top : Block}

/-- **The swapped store is coherent**: after the swap writes and the marker deletion, `pre ++ new.reverse`
is the main chain, with every index of the C05 invariant in place. -/
theorem inv_final (R : Ready D0 pre old new start best top) :
    Inv (finalStore D0 old new top) (pre ++ new.reverse) top := by
  let F := finalStore D0 old new top
  have fo : ∀ k, k ≠ .marker → F k = applyOps (midOps old new top) D0 k := fun k hk => finalStore_other D0 old new top hk
  have hAscPre : Asc pre := R.inv.asc.prefix
  have newNoGt : ∀ b ∈ new, start.no < b.no := fun b hb => (R.newDesc.no_bounds hb).1
  have newNoLe : ∀ b ∈ new, b.no ≤ top.no := fun b hb => by
    have := (R.newDesc.no_bounds hb).2; have := R.top_no; omega
  have bestLt : best.no < top.no := by have := R.best_no; have := R.top_no; have := R.longer; omega
  -- transactions of `pre` blocks are neither in the new branch nor in the old one
  have preTxNotNew : ∀ c ∈ pre, ∀ (i t : Nat), c.txs[i]? = some t → ∀ b ∈ new, t ∉ b.txs := by
    intro c hc i t ht b hb hmem
    obtain ⟨j, hj⟩ := List.mem_iff_getElem?.mp hmem
    have := (R.txUnique c (List.mem_append_left _ hc) b (List.mem_append_right _ (List.mem_reverse.mpr hb)) i j t ht hj).1
    exact R.newIds b hb c (List.mem_append_left _ hc) this.symm
  have preTxNotOld : ∀ c ∈ pre, ∀ (i t : Nat), c.txs[i]? = some t → ∀ o ∈ old, t ∉ o.txs := by
    intro c hc i t ht o ho hmem
    obtain ⟨j, hj⟩ := List.mem_iff_getElem?.mp hmem
    have h1 := R.inv.txs c (List.mem_append_left _ hc) i t ht
    have h2 := R.inv.txs o (List.mem_append_right _ (List.mem_reverse.mpr ho)) j t hj
    rw [h1] at h2
    have : c.id = o.id := by injection h2 with h2; injection h2
    exact R.pre_old_id_ne hc ho this
  refine {
    last := by rw [getLast?_append_reverse R.preLast]; obtain ⟨r, hr⟩ := R.new_eq; simp [hr]
    gen := ?_, asc := asc_of_descFrom hAscPre R.preLast R.newDesc
    latest := by
      show getLatest F = _
      simp [getLatest, fo .latest (by simp), R.mid_latest D0]
    idx := ?_, blk := ?_, above := ?_, txs := ?_, txsOnly := ?_, rcpt := ?_
    state := ?_, marker := ?_ }
  · intro g hg
    apply R.inv.gen g
    cases hp : pre with
    | nil => have := R.preLast; simp [hp] at this
    | cons a l => simpa [hp] using hg
  · intro c hc
    show getByNo F c.no = _
    rcases List.mem_append.mp hc with hc | hc
    · have hne : ∀ b ∈ new, b.no ≠ c.no := fun b hb => by have := newNoGt b hb; have := R.pre_no_le hc; omega
      simp only [getByNo, fo _ (show Key.byNo c.no ≠ .marker by simp), R.mid_byNo_other D0 hne]
      exact R.inv.idx c (List.mem_append_left _ hc)
    · have hc' := List.mem_reverse.mp hc
      simp [getByNo, fo _ (show Key.byNo c.no ≠ .marker by simp), R.mid_byNo_new D0 hc']
  · intro c hc
    show getBlock F c.id = _
    simp only [getBlock, fo _ (show Key.block c.id ≠ .marker by simp), R.mid_block D0]
    rcases List.mem_append.mp hc with hc | hc
    · exact R.inv.blk c (List.mem_append_left _ hc)
    · exact R.newStored c (List.mem_reverse.mp hc)
  · intro n hn
    show F (.byNo n) = _
    have hne : ∀ b ∈ new, b.no ≠ n := fun b hb => by have := newNoLe b hb; omega
    rw [fo _ (show Key.byNo n ≠ .marker by simp), R.mid_byNo_other D0 hne]
    exact R.inv.above n (by omega)
  · intro c hc i t ht
    show getTx F t = _
    rcases List.mem_append.mp hc with hc | hc
    · simp only [getTx, fo _ (show Key.tx t ≠ .marker by simp),
        R.mid_tx_other D0 (preTxNotOld c hc i t ht) (preTxNotNew c hc i t ht)]
      exact R.inv.txs c (List.mem_append_left _ hc) i t ht
    · simp [getTx, fo _ (show Key.tx t ≠ .marker by simp), R.mid_tx_new D0 (List.mem_reverse.mp hc) ht]
  · intro t i j ht
    change getTx F t = some (i, j) at ht
    by_cases hn : ∃ b ∈ new, t ∈ b.txs
    · obtain ⟨b, hb, hmem⟩ := hn
      obtain ⟨j', hj'⟩ := List.mem_iff_getElem?.mp hmem
      have : getTx F t = some (b.id, j') := by
        simp [getTx, fo _ (show Key.tx t ≠ .marker by simp), R.mid_tx_new D0 hb hj']
      rw [this] at ht; cases ht
      exact ⟨b, List.mem_append_right _ (List.mem_reverse.mpr hb), rfl, hj'⟩
    · have hn' : ∀ b ∈ new, t ∉ b.txs := fun b hb hm => hn ⟨b, hb, hm⟩
      by_cases ho : ∃ o ∈ old, t ∈ o.txs
      · have : getTx F t = none := by
          simp [getTx, fo _ (show Key.tx t ≠ .marker by simp), R.mid_tx_del D0 ho hn']
        rw [this] at ht; cases ht
      · have ho' : ∀ o ∈ old, t ∉ o.txs := fun o hoo hm => ho ⟨o, hoo, hm⟩
        have : getTx F t = getTx D0 t := by
          simp only [getTx, fo _ (show Key.tx t ≠ .marker by simp), R.mid_tx_other D0 ho' hn']
        rw [this] at ht
        obtain ⟨c, hc, h1, h2⟩ := R.inv.txsOnly t i j ht
        rcases List.mem_append.mp hc with hc | hc
        · exact ⟨c, List.mem_append_left _ hc, h1, h2⟩
        · exact absurd (List.mem_of_getElem? h2) (ho' c (List.mem_reverse.mp hc))
  · intro c hc hne
    show hasRcpt F c.id c.no = true
    rcases List.mem_append.mp hc with hc | hc
    · have : ∀ o ∈ old, o.id ≠ c.id := fun o ho e => R.pre_old_id_ne hc ho e.symm
      simp only [hasRcpt, fo _ (show Key.rcpt c.id c.no ≠ .marker by simp), R.mid_rcpt_other D0 this]
      exact R.inv.rcpt c (List.mem_append_left _ hc) hne
    · have hc' := List.mem_reverse.mp hc
      have : ∀ o ∈ old, o.id ≠ c.id := fun o ho e =>
        R.newIds c hc' o (List.mem_append_right _ (List.mem_reverse.mpr ho)) e.symm
      simp only [hasRcpt, fo _ (show Key.rcpt c.id c.no ≠ .marker by simp), R.mid_rcpt_other D0 this]
      exact R.newRcpt c hc' hne
  · show hasStMark F top.root = true
    simp only [hasStMark, fo _ (show Key.stMark top.root ≠ .marker by simp), R.mid_stMark D0]
    exact R.newState top R.top_mem_new
  · show getMarker F = none
    simp [getMarker, show F .marker = none from finalStore_marker D0 old new top]

end Ready

end Aergo.Crash
