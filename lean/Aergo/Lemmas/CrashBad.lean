import Aergo.Lemmas.CrashHist

/-!
C06: blocks whose execution fails (`feedB`), tied back to the valid-block model (`feed`), and the crash points
inside a reorganisation that fails in its roll-forward.
-/

namespace Aergo.Crash

theorem rollforwardUntil_valid : ∀ l : List Block, rollforwardUntil (fun _ => false) l = (l.flatMap execUnits, true)
  | [] => rfl
  | b :: bs => by simp [rollforwardUntil, rollforwardUntil_valid bs]

theorem reorgB_valid (N : Node) (top : Block) :
    reorgB (fun _ => false) N top = (reorg N top).map (fun r => (r.1, r.2, true)) := by
  unfold reorgB reorg
  split
  · rfl
  · simp [rollforwardUntil_valid, rollforwardUnits]

theorem runLoopB_valid (isMain : Bool) : ∀ (fuel : Nat) (N : Node) (b : Block) (acc : List Unit),
    runLoopB (fun _ => false) isMain fuel N b acc = (runLoop isMain fuel N b acc).map (fun r => (r.1, r.2.1, r.2.2, true))
  | 0, _, _, _ => rfl
  | fuel + 1, N, b, acc => by
    simp only [runLoopB, runLoop, Bool.false_eq_true, and_false, if_false]
    split
    · rfl
    · split
      · rfl
      · exact runLoopB_valid isMain fuel _ _ _

/-- **The failing-execution model extends the valid-block model**: with no failing block `feedB` is `feed`. -/
theorem feedB_valid (N : Node) (b : Block) : feedB (fun _ => false) N b = feed N b := by
  unfold feedB feed
  split
  · rfl
  · split
    · rfl
    · simp only [runLoopB_valid]
      cases runLoop (isMainChain N b) (N.orphans.length + 1) N b [] with
      | none => rfl
      | some r =>
        obtain ⟨N1, last, us⟩ := r
        simp only [Option.map_some, Bool.not_true, Bool.false_eq_true, if_false, reorgB_valid]
        split
        · cases reorg N1 last with
          | none => rfl
          | some r2 => rfl
        · rfl

theorem rollforwardUntil_harmless (bad : Nat → Bool) : ∀ l : List Block, ∀ w ∈ allOps (rollforwardUntil bad l).1, Harmless w
  | [], w, hw => by simp [rollforwardUntil, allOps] at hw
  | b :: bs, w, hw => by
    simp only [rollforwardUntil] at hw
    split at hw
    · simp [allOps] at hw
    · simp only [allOps_append, List.mem_append] at hw
      rcases hw with h | h
      · exact harmless_execUnits b w h
      · exact rollforwardUntil_harmless bad bs w h

/-- **Crash points inside a roll-forward that fails.** Whatever blocks fail: every unit prefix of the roll-forward
up to the failing block, applied to a coherent store, is coherent with the same main chain (state data, state
markers and receipts of the executed branch blocks are the only writes). -/
theorem failed_rollforward_crashOK {U : Block → Prop} {g : Block} {D : Store} {chain : List Block} {best : Block}
    (C : CohD U g D chain best) (bad : Nat → Bool) (l : List Block) :
    CrashOK U g (fun c => c = chain) D (rollforwardUntil bad l).1 := by
  intro k
  rw [crash_eq]
  exact Or.inl ⟨chain, best, C.harmless (fun w hw => rollforwardUntil_harmless bad l w (mem_allOps_take hw)), rfl⟩

/-- A reorganisation that fails in its roll-forward leaves the node where it was: same best block, same state
root, a coherent store with the same main chain. -/
theorem reorgB_failed {U : Block → Prop} {g : Block} {N N' : Node} {chain : List Block} {top : Block} {us : List Unit}
    (bad : Nat → Bool) (C : Coh U g N chain) (h : reorgB bad N top = some (N', us, false)) :
    Coh U g N' chain ∧ N'.best = N.best ∧ N'.D = applyUnits us N.D ∧ CrashOK U g (fun c => c = chain) N.D us := by
  unfold reorgB at h
  split at h
  · cases h
  · rename_i start old new _
    dsimp only at h
    split at h
    · cases h
    · simp only [Option.some.injEq, Prod.mk.injEq, and_true] at h
      obtain ⟨h1, h2⟩ := h
      subst h1; subst h2
      have hh := rollforwardUntil_harmless bad new.reverse
      refine ⟨⟨?_, C.root, ?_⟩, rfl, rfl, failed_rollforward_crashOK C.d bad _⟩
      · show CohD U g (applyUnits _ N.D) chain N.best
        rw [applyUnits_eq]; exact C.d.harmless hh
      · intro o ho
        obtain ⟨a, b, c⟩ := C.orph o ho
        refine ⟨a, b, ?_⟩
        show getBlock (applyUnits _ N.D) o.parent = none
        rw [applyUnits_eq, getBlock_harmless N.D hh]; exact c

end Aergo.Crash
