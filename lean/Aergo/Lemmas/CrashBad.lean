import Aergo.Lemmas.CrashHist

/-!
C06: blocks whose execution fails (`feedB`), tied back to the valid-block model (`feed`), and the crash points
inside a reorganisation that fails in its roll-forward.
-/

namespace Aergo.Crash

theorem rollforwardUntil_valid : ∀ l : List Block, rollforwardUntil (fun _ => false) l = (l.flatMap execUnits, true)
  | [] => rfl
  | b :: bs => by simp [rollforwardUntil, rollforwardUntil_valid bs]

theorem reorgB_valid (N : Node) (top : Block) :
    reorgB (fun _ => false) N top = (reorg N top).map (fun r => (r.1, r.2, true)) := by
  unfold reorgB reorg
  split
  · rfl
  · simp [rollforwardUntil_valid, rollforwardUnits]

theorem runLoopB_valid (isMain : Bool) : ∀ (fuel : Nat) (N : Node) (b : Block) (acc : List Unit),
    runLoopB (fun _ => false) isMain fuel N b acc = (runLoop isMain fuel N b acc).map (fun r => (r.1, r.2.1, r.2.2, true))
  | 0, _, _, _ => rfl
  | fuel + 1, N, b, acc => by
    simp only [runLoopB, runLoop, Bool.false_eq_true, and_false, if_false]
    split
    · rfl
    · split
      · rfl
      · exact runLoopB_valid isMain fuel _ _ _

/-- **The failing-execution model extends the valid-block model**: with no failing block `feedB` is `feed`. -/
theorem feedB_valid (N : Node) (b : Block) : feedB (fun _ => false) N b = feed N b := by
  unfold feedB feed
  split
  · rfl
  · split
    · rfl
    · simp only [runLoopB_valid]
      cases runLoop (isMainChain N b) (N.orphans.length + 1) N b [] with
      | none => rfl
      | some r =>
        obtain ⟨N1, last, us⟩ := r
        simp only [Option.map_some, Bool.not_true, Bool.false_eq_true, if_false, reorgB_valid]
        split
        · cases reorg N1 last with
          | none => rfl
          | some r2 => rfl
        · rfl

theorem rollforwardUntil_harmless (bad : Nat → Bool) : ∀ l : List Block, ∀ w ∈ allOps (rollforwardUntil bad l).1, Harmless w
  | [], w, hw => by simp [rollforwardUntil, allOps] at hw
  | b :: bs, w, hw => by
    simp only [rollforwardUntil] at hw
    split at hw
    · simp [allOps] at hw
    · simp only [allOps_append, List.mem_append] at hw
      rcases hw with h | h
      · exact harmless_execUnits b w h
      · exact rollforwardUntil_harmless bad bs w h

/-- **Crash points inside a roll-forward that fails.** Whatever blocks fail: every unit prefix of the roll-forward
up to the failing block, applied to a coherent store, is coherent with the same main chain (state data, state
markers and receipts of the executed branch blocks are the only writes). -/
theorem failed_rollforward_crashOK {U : Block → Prop} {g : Block} {D : Store} {chain : List Block} {best : Block}
    (C : CohD U g D chain best) (bad : Nat → Bool) (l : List Block) :
    CrashOK U g (fun c => c = chain) D (rollforwardUntil bad l).1 := by
  intro k
  rw [crash_eq]
  exact Or.inl ⟨chain, best, C.harmless (fun w hw => rollforwardUntil_harmless bad l w (mem_allOps_take hw)), rfl⟩

/-- A reorganisation that fails in its roll-forward leaves the node where it was: same best block, same state
root, a coherent store with the same main chain. -/
theorem reorgB_failed {U : Block → Prop} {g : Block} {N N' : Node} {chain : List Block} {top : Block} {us : List Unit}
    (bad : Nat → Bool) (C : Coh U g N chain) (h : reorgB bad N top = some (N', us, false)) :
    Coh U g N' chain ∧ N'.best = N.best ∧ N'.D = applyUnits us N.D ∧ CrashOK U g (fun c => c = chain) N.D us := by
  unfold reorgB at h
  split at h
  · cases h
  · rename_i start old new _
    dsimp only at h
    split at h
    · cases h
    · simp only [Option.some.injEq, Prod.mk.injEq, and_true] at h
      obtain ⟨h1, h2⟩ := h
      subst h1; subst h2
      have hh := rollforwardUntil_harmless bad new.reverse
      refine ⟨⟨?_, C.root, ?_⟩, rfl, rfl, failed_rollforward_crashOK C.d bad _⟩
      · show CohD U g (applyUnits _ N.D) chain N.best
        rw [applyUnits_eq]; exact C.d.harmless hh
      · intro o ho
        obtain ⟨a, b, c⟩ := C.orph o ho
        refine ⟨a, b, ?_⟩
        show getBlock (applyUnits _ N.D) o.parent = none
        rw [applyUnits_eq, getBlock_harmless N.D hh]; exact c

/-! ### Histories with blocks whose execution fails -/

theorem rollforwardUntil_ok (bad : Nat → Bool) : ∀ l : List Block, (rollforwardUntil bad l).2 = true →
    (rollforwardUntil bad l).1 = l.flatMap execUnits
  | [], _ => rfl
  | b :: bs, h => by
    simp only [rollforwardUntil] at h ⊢
    split
    · rename_i hb; simp [hb] at h
    · rename_i hb
      simp only [hb] at h
      simp [rollforwardUntil_ok bad bs h]

/-- Off the main chain nothing is executed: the run loop is the one of the valid-block model. -/
theorem runLoopB_side_eq (bad : Nat → Bool) : ∀ (fuel : Nat) (N : Node) (b : Block) (acc : List Unit),
    runLoopB bad false fuel N b acc = (runLoop false fuel N b acc).map (fun r => (r.1, r.2.1, r.2.2, true))
  | 0, _, _, _ => rfl
  | fuel + 1, N, b, acc => by
    simp only [runLoopB, runLoop, Bool.false_eq_true, false_and, if_false]
    split
    · rfl
    · split
      · rfl
      · exact runLoopB_side_eq bad fuel _ _ _

section LoopB
variable {U : Block → Prop} {g : Block}

private theorem filter_lt' {l : List Block} {o : Block} {i : Nat} (ho : o ∈ l) (hp : o.parent = i) :
    (l.filter (fun x => decide (x.parent ≠ i))).length < l.length := by
  apply List.length_filter_lt_length_iff_exists.mpr
  exact ⟨o, ho, by simp [hp]⟩

/-- The run loop on the main chain when executions may fail: as `runLoop_main`, and a failing block stops the loop
with nothing written for it. -/
theorem runLoopB_main (T : Tree U g) (bad : Nat → Bool) : ∀ (fuel : Nat) (N : Node) (b : Block) (acc : List Unit) (chain : List Block),
    Coh U g N chain → U b → getBlock N.D b.id = none → b.parent = N.best.id → N.orphans.length < fuel →
    ∃ N' last us chain' ok, runLoopB bad true fuel N b acc = some (N', last, acc ++ us, ok) ∧ Coh U g N' chain' ∧
      N'.D = applyUnits us N.D ∧ chain <+: chain' ∧
      CrashOK U g (fun c => chain <+: c ∧ c <+: chain') N.D us := by
  intro fuel
  induction fuel with
  | zero => intro N b acc chain _ _ _ _ h; omega
  | succ fuel ih =>
    intro N b acc chain C hU hnew hp hfuel
    by_cases hbad : bad b.id = true
    · refine ⟨N, b, [], chain, false, ?_, C, rfl, List.prefix_refl _, ?_⟩
      · simp [runLoopB, hbad]
      · exact CrashOK.nil C.d ⟨List.prefix_refl _, List.prefix_refl _⟩
    have hbad' : bad b.id = false := by simpa using hbad
    have hg := C.d.ne_g_of_new hnew
    have C1 := C.d.connect T hU hnew hp
    have hgb : ∀ i, getBlock (applyUnits (connectUnits b) N.D) i = if i = b.id then some b else getBlock N.D i :=
      getBlock_connect N.D b
    have hcr := C.d.crashOK_connect T hU hnew hp
    have horph : ∀ o ∈ N.orphans, o.parent ≠ b.id → getBlock (applyUnits (connectUnits b) N.D) o.parent = none := by
      intro o ho hne
      rw [hgb, if_neg hne]; exact (C.orph o ho).2.2
    cases hf : N.orphans.find? (fun o => o.parent = b.id) with
    | none =>
      have hno : ∀ o ∈ N.orphans, o.parent ≠ b.id := by
        intro o ho
        have := List.find?_eq_none.mp hf o ho
        simpa using this
      refine ⟨{ N with D := applyUnits (connectUnits b) N.D, best := b, sdbRoot := b.root }, b, connectUnits b,
        chain ++ [b], true, ?_, ⟨C1, rfl, ?_⟩, rfl, List.prefix_append _ _, ?_⟩
      · simp [runLoopB, hbad', connect, hf]
      · intro o ho
        exact ⟨(C.orph o ho).1, (C.orph o ho).2.1, horph o ho (hno o ho)⟩
      · apply hcr.mono
        rintro c (rfl | rfl)
        · exact ⟨List.prefix_refl _, List.prefix_append _ _⟩
        · exact ⟨List.prefix_append _ _, List.prefix_refl _⟩
    | some o =>
      have ho : o ∈ N.orphans := List.mem_of_find?_eq_some hf
      have hop : o.parent = b.id := by
        have := List.find?_some hf
        simpa using this
      obtain ⟨hoU, hog, _⟩ := C.orph o ho
      have hono : o.no = b.no + 1 := T.child_no hoU hog hU hop
      let N2 : Node := { D := applyUnits (connectUnits b) N.D, best := b, sdbRoot := b.root,
                         orphans := N.orphans.filter (fun x => x.parent ≠ b.id) }
      have C2 : Coh U g N2 (chain ++ [b]) := by
        refine ⟨C1, rfl, ?_⟩
        intro x hx
        have hx' := List.mem_filter.mp hx
        have hne : x.parent ≠ b.id := by simpa using hx'.2
        exact ⟨(C.orph x hx'.1).1, (C.orph x hx'.1).2.1, horph x hx'.1 hne⟩
      have hoid : o.id ≠ b.id := by
        intro e
        have : o = b := T.uid o b hoU hU e
        subst this
        exact T.not_self_parent hU hg hop
      have honew : getBlock N2.D o.id = none := by
        show getBlock (applyUnits (connectUnits b) N.D) o.id = none
        rw [hgb, if_neg hoid]; exact C.orphan_new T ho
      have hlen : N2.orphans.length < fuel := by
        have := filter_lt' ho hop
        show (N.orphans.filter (fun x => decide (x.parent ≠ b.id))).length < fuel
        omega
      obtain ⟨N', last, us', chain', ok, hrun, C', hD', hpre, hcr'⟩ :=
        ih N2 o (acc ++ connectUnits b) (chain ++ [b]) C2 hoU honew hop hlen
      refine ⟨N', last, connectUnits b ++ us', chain', ok, ?_, C', ?_, ?_, ?_⟩
      · have : runLoopB bad true (fuel + 1) N b acc = runLoopB bad true fuel N2 o (acc ++ connectUnits b) := by
          simp [runLoopB, hbad', connect, hf, hono, N2]
        rw [this, hrun, List.append_assoc]
      · rw [hD', applyUnits_append]
      · exact (List.prefix_append _ _).trans hpre
      · apply CrashOK.append
        · apply hcr.mono
          rintro c (rfl | rfl)
          · exact ⟨List.prefix_refl _, (List.prefix_append _ _).trans hpre⟩
          · exact ⟨List.prefix_append _ _, hpre⟩
        · apply hcr'.mono
          rintro c ⟨h1, h2⟩
          exact ⟨(List.prefix_append _ _).trans h1, h2⟩

/-- **One arrival when executions may fail** (any set of failing blocks): the node stays coherent, its store is the
old store plus the units reported, every prefix of those units is recoverable to the chain before the arrival,
after it, or in between. With no failing block this is `feed_hist` (`feedB_valid`). -/
theorem feedB_hist (T : Tree U g) (bad : Nat → Bool) {N : Node} {chain : List Block}
    (C : Coh U g N chain) {b : Block} (hU : U b) :
    ∃ chain', Coh U g (feedB bad N b).1 chain' ∧
      (feedB bad N b).1.D = applyUnits (feedB bad N b).2.2 N.D ∧
      CrashOK U g (Legit chain chain') N.D (feedB bad N b).2.2 := by
  cases hst : getBlock N.D b.id with
  | some b' =>
    have hf : feedB bad N b = (N, .ok, []) := by simp [feedB, hst]
    rw [hf]
    exact ⟨chain, C, rfl, CrashOK.nil C.d (Or.inl rfl)⟩
  | none =>
    have hg := C.d.ne_g_of_new hst
    cases hpar : getBlock N.D b.parent with
    | none =>
      by_cases hany : N.orphans.any (fun o => o.parent = b.parent) = true
      · have hf : feedB bad N b = (N, .ok, []) := by simp [feedB, hst, hpar, hany]
        rw [hf]
        exact ⟨chain, C, rfl, CrashOK.nil C.d (Or.inl rfl)⟩
      · have hf : feedB bad N b = ({ N with orphans := N.orphans ++ [b] }, .ok, []) := by simp [feedB, hst, hpar, hany]
        rw [hf]
        refine ⟨chain, ⟨C.d, C.root, ?_⟩, rfl, CrashOK.nil C.d (Or.inl rfl)⟩
        intro o ho
        rcases List.mem_append.mp ho with h | h
        · exact C.orph o h
        · simp at h; subst h; exact ⟨hU, hg, hpar⟩
    | some p =>
      have hpar' : (getBlock N.D b.parent).isSome = true := by rw [hpar]; rfl
      by_cases him : isMainChain N b = true
      · have hp := (C.isMain_iff T hU hst).mp him
        obtain ⟨N', last, us, chain', ok, hrun, C', hD', hpre, hcr⟩ :=
          runLoopB_main T bad (N.orphans.length + 1) N b [] chain C hU hst hp (Nat.lt_succ_self _)
        have hf : feedB bad N b = (N', if ok then .ok else .err, us) := by
          cases ok <;> simp [feedB, hst, hpar, him, hrun]
        rw [hf]
        exact ⟨chain', C', hD', hcr.mono (fun c hc => Or.inr (Or.inr hc))⟩
      · have him' : isMainChain N b = false := by simpa using him
        have hne : b.parent ≠ N.best.id := fun e => him ((C.isMain_iff T hU hst).mpr e)
        obtain ⟨N', last, us, hrun, C', hb', hr', hD', hls, hlc, hleaf, hcr⟩ :=
          runLoop_side T (N.orphans.length + 1) N b [] chain C hU hst hpar' hne (Nat.lt_succ_self _)
        have hrunB : runLoopB bad false (N.orphans.length + 1) N b [] = some (N', last, [] ++ us, true) := by
          rw [runLoopB_side_eq, hrun]; rfl
        by_cases hlt : N'.best.no < last.no
        · obtain ⟨pre, old, new, start, hch, F, hcr2, CF, hblk⟩ := C'.d.crashOK_reorg T hls hlc hlt hleaf
          by_cases hr : (rollforwardUntil bad new.reverse).2 = true
          · have hu : (rollforwardUntil bad new.reverse).1 = rollforwardUnits new := rollforwardUntil_ok bad _ hr
            have hre : reorgB bad N' last = some ({ N' with
                  D := applyUnits (rollforwardUnits new ++ swapUnits (markerOf start N'.best last) old new last false) N'.D,
                  best := last, sdbRoot := last.root },
                rollforwardUnits new ++ swapUnits (markerOf start N'.best last) old new last false, true) := by
              simp [reorgB, F.gather_eq, hr, hu]
            have hf : feedB bad N b = ({ N' with
                  D := applyUnits (rollforwardUnits new ++ swapUnits (markerOf start N'.best last) old new last false) N'.D,
                  best := last, sdbRoot := last.root }, .ok,
                us ++ (rollforwardUnits new ++ swapUnits (markerOf start N'.best last) old new last false)) := by
              simp [feedB, hst, hpar, him', hrunB, hlt, hre]
            rw [hf]
            refine ⟨pre ++ new.reverse, ⟨CF, rfl, ?_⟩, ?_, ?_⟩
            · intro o ho
              obtain ⟨h1, h2, h3⟩ := C'.orph o ho
              refine ⟨h1, h2, ?_⟩
              show getBlock (applyUnits _ N'.D) o.parent = none
              rw [hblk]; exact h3
            · simp only [applyUnits_append, hD']
            · apply CrashOK.append (hcr.mono (fun c hc => Or.inl hc))
              rw [← hD']
              apply hcr2.mono
              rintro c (rfl | rfl)
              · exact Or.inl rfl
              · exact Or.inr (Or.inl rfl)
          · have hr' : (rollforwardUntil bad new.reverse).2 = false := by simpa using hr
            have hre : reorgB bad N' last = some ({ N' with D := applyUnits (rollforwardUntil bad new.reverse).1 N'.D },
                (rollforwardUntil bad new.reverse).1, false) := by
              simp [reorgB, F.gather_eq, hr']
            obtain ⟨C2, _, _, hcr3⟩ := reorgB_failed bad C' hre
            have hf : feedB bad N b = ({ N' with D := applyUnits (rollforwardUntil bad new.reverse).1 N'.D }, .err,
                us ++ (rollforwardUntil bad new.reverse).1) := by
              simp [feedB, hst, hpar, him', hrunB, hlt, hre]
            rw [hf]
            refine ⟨chain, C2, ?_, ?_⟩
            · simp only [applyUnits_append, hD']
            · apply CrashOK.append (hcr.mono (fun c hc => Or.inl hc))
              rw [← hD']
              exact hcr3.mono (fun c hc => Or.inl hc)
        · have hf : feedB bad N b = (N', .ok, us) := by simp [feedB, hst, hpar, him', hrunB, hlt]
          rw [hf]
          exact ⟨chain, C', hD', hcr.mono (fun c hc => Or.inl hc)⟩

end LoopB

/-- Events of a history in which the execution of some blocks fails. -/
def stepEvB (bad : Nat → Bool) (N : Node) : Ev → Except Err Node
  | .feed b => .ok (feedB bad N b).1
  | .crash b k js => restartChain (crash (feedB bad N b).2.2 k N.D) js

def runEvsB (bad : Nat → Bool) : Node → List Ev → Except Err Node
  | N, [] => .ok N
  | N, e :: es =>
    match stepEvB bad N e with
    | .error x => .error x
    | .ok N' => runEvsB bad N' es

/-- **Every history, with any set of failing blocks.** -/
theorem historyB_coherent {U : Block → Prop} {g : Block} (T : Tree U g) (bad : Nat → Bool) :
    ∀ (es : List Ev) (N : Node) (chain : List Block), Coh U g N chain → (∀ e ∈ es, U e.block) →
      ∃ N' chain', runEvsB bad N es = .ok N' ∧ Coh U g N' chain'
  | [], N, chain, C, _ => ⟨N, chain, rfl, C⟩
  | e :: es, N, chain, C, hU => by
    have hUe := hU e (List.mem_cons_self ..)
    have step : ∃ N1 c1, stepEvB bad N e = .ok N1 ∧ Coh U g N1 c1 := by
      cases e with
      | feed b =>
        obtain ⟨c1, C1, _, _⟩ := feedB_hist T bad C hUe
        exact ⟨_, c1, rfl, C1⟩
      | crash b k js =>
        obtain ⟨c1, _, _, hcr⟩ := feedB_hist T bad C hUe
        obtain ⟨N1, c', hr, C', _, _⟩ := (hcr k).restartChain js
        exact ⟨N1, c', hr, C'⟩
    obtain ⟨N1, c1, h1, C1⟩ := step
    obtain ⟨N', c', h2, C'⟩ := historyB_coherent T bad es N1 c1 C1 (fun x hx => hU x (List.mem_cons_of_mem _ hx))
    exact ⟨N', c', by simp [runEvsB, h1, h2], C'⟩

end Aergo.Crash
