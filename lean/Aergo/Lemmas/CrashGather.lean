import Aergo.Lemmas.CrashReorg

/-!
C06: `reorganizer.gather` (the normal path, which finds the fork point through the height index) returns
exactly the fork point and the two branches of a `Fork`; hence `reorg` and `feed` issue `reorgUnits`.
-/

namespace Aergo.Crash

theorem DescFrom.parent_stored {D : Store} {start : Block} (hstart : getBlock D start.id = some start) :
    ∀ {l : List Block} {b : Block}, DescFrom start (b :: l) → (∀ x ∈ b :: l, getBlock D x.id = some x) →
      getBlock D b.parent = some (l.headD start) ∧ (l.headD start).no + 1 = b.no
  | [], b, h, _ => by
    simp only [List.headD_nil]
    exact ⟨by rw [h.1]; exact hstart, by have := h.2; omega⟩
  | c :: r, b, h, hs => by
    simp only [List.headD_cons]
    exact ⟨by rw [h.1]; exact hs c (by simp), by have := h.2.1; omega⟩

/-- Second phase of `gather`: both branches are walked down in step until the common block. -/
theorem gather_aligned {D : Store} {start : Block} {bestNo : Nat}
    (hstart : getBlock D start.id = some start) (hstartNo : blockByNo D start.no = some start)
    (hlt : start.no < bestNo) :
    ∀ (newRest oldRest oldAcc newAcc : List Block) (fuel : Nat),
      newRest.length = oldRest.length → DescFrom start newRest → DescFrom start oldRest →
      (∀ b ∈ newRest, getBlock D b.id = some b) → (∀ o ∈ oldRest, blockByNo D o.no = some o) →
      (∀ b ∈ newRest, ∀ o ∈ oldRest, b.id ≠ o.id) → (∀ b ∈ newRest, b.no ≤ bestNo) →
      newAcc ++ newRest ≠ [] → oldAcc ++ oldRest ≠ [] → newRest.length + 1 ≤ fuel →
      gather D bestNo fuel (newRest.headD start) oldAcc newAcc = some (start, oldAcc ++ oldRest, newAcc ++ newRest)
  | [], [], oldAcc, newAcc, fuel, _, _, _, _, _, _, _, hn, ho, hf => by
    cases fuel with
    | zero => simp at hf
    | succ f =>
      have h1 : start.no ≤ bestNo := by omega
      have h2 : ¬ bestNo = start.no := by omega
      have hn' : newAcc ≠ [] := by simpa using hn
      have ho' : oldAcc ≠ [] := by simpa using ho
      simp [gather, h1, hstartNo, h2, hn', ho']
  | [], _ :: _, _, _, _, hl, _, _, _, _, _, _, _, _, _ => by simp at hl
  | _ :: _, [], _, _, _, hl, _, _, _, _, _, _, _, _, _ => by simp at hl
  | b :: nr, o :: or, oldAcc, newAcc, fuel, hl, hdn, hdo, hs, hidx, hne, hle, _, _, hf => by
    cases fuel with
    | zero => simp at hf
    | succ f =>
      have hbno : b.no = o.no := by
        have h1 := hdn.head_no; have h2 := hdo.head_no
        simp only [List.length_cons] at hl; omega
      have h1 : b.no ≤ bestNo := hle b (List.mem_cons_self ..)
      have h2 : blockByNo D b.no = some o := by rw [hbno]; exact hidx o (List.mem_cons_self ..)
      have h3 : ¬ o.id = b.id := fun e => hne b (List.mem_cons_self ..) o (List.mem_cons_self ..) e.symm
      have h4 : ¬ b.no = 0 := by have := (hdn.no_bounds (List.mem_cons_self ..)).1; omega
      obtain ⟨h5, h6⟩ := hdn.parent_stored hstart hs
      have h7 : ¬ (b.no - 1 ≠ (nr.headD start).no) := by omega
      have ih := gather_aligned hstart hstartNo hlt nr or (oldAcc ++ [o]) (newAcc ++ [b]) f
        (by simpa using hl) hdn.tail hdo.tail (fun x hx => hs x (List.mem_cons_of_mem _ hx))
        (fun x hx => hidx x (List.mem_cons_of_mem _ hx))
        (fun x hx y hy => hne x (List.mem_cons_of_mem _ hx) y (List.mem_cons_of_mem _ hy))
        (fun x hx => hle x (List.mem_cons_of_mem _ hx)) (by simp) (by simp) (by simpa using hf)
      simp only [List.headD_cons]
      have h7' : b.no - 1 = (nr.headD start).no := by omega
      simp [gather, h1, h2, h3, h4, h5, h7']
      simpa using ih

theorem DescFrom.drop_prefix {start : Block} : ∀ {x y : List Block}, DescFrom start (x ++ y) → DescFrom start y
  | [], _, h => h
  | _ :: x, _, h => DescFrom.drop_prefix (x := x) h.tail

theorem DescFrom.prefix_no {start : Block} : ∀ {x y : List Block} {b : Block}, DescFrom start (x ++ y) → b ∈ x →
    start.no + y.length < b.no
  | e :: x, y, b, h, hb => by
    rcases List.mem_cons.mp hb with rfl | hb'
    · have h1 : DescFrom start (b :: (x ++ y)) := h
      have := h1.head_no
      have hl : (x ++ y).length = x.length + y.length := List.length_append
      omega
    · exact DescFrom.prefix_no (x := x) h.tail hb'

/-- First phase of `gather`: the blocks of the new branch above the old tip are collected; then the
aligned phase. -/
theorem gather_extra {D : Store} {start : Block} {bestNo : Nat} {aligned old : List Block}
    (hstart : getBlock D start.id = some start) (hstartNo : blockByNo D start.no = some start)
    (hlt : start.no < bestNo) (hl : aligned.length = old.length) (hold : old ≠ [])
    (hdo : DescFrom start old) (hidx : ∀ o ∈ old, blockByNo D o.no = some o)
    (hne : ∀ b ∈ aligned, ∀ o ∈ old, b.id ≠ o.id) (hle : ∀ b ∈ aligned, b.no ≤ bestNo) :
    ∀ (extra newAcc : List Block) (fuel : Nat), DescFrom start (extra ++ aligned) →
      (∀ b ∈ extra ++ aligned, getBlock D b.id = some b) → (∀ e ∈ extra, bestNo < e.no) →
      extra.length + aligned.length + 1 ≤ fuel →
      gather D bestNo fuel ((extra ++ aligned).headD start) [] newAcc = some (start, old, newAcc ++ (extra ++ aligned))
  | [], newAcc, fuel, hd, hs, _, hf => by
    have hal : aligned ≠ [] := by
      intro e; rw [e] at hl; simp at hl; exact hold (List.eq_nil_of_length_eq_zero hl.symm)
    have := gather_aligned hstart hstartNo hlt aligned old [] newAcc fuel hl (by simpa using hd) hdo
      (by simpa using hs) hidx hne hle (by simp [hal]) (by simpa using hold) (by simpa using hf)
    simpa using this
  | e :: x, newAcc, fuel, hd, hs, hgt, hf => by
    cases fuel with
    | zero => simp at hf
    | succ f =>
      have h1 : ¬ e.no ≤ bestNo := by have := hgt e (List.mem_cons_self ..); omega
      have h4 : ¬ e.no = 0 := by have := hgt e (List.mem_cons_self ..); omega
      have hd' : DescFrom start (e :: (x ++ aligned)) := by simpa using hd
      obtain ⟨h5, h6⟩ := hd'.parent_stored hstart (by simpa using hs)
      have h7 : ¬ (e.no - 1 ≠ ((x ++ aligned).headD start).no) := by omega
      have ih := gather_extra hstart hstartNo hlt hl hold hdo hidx hne hle x (newAcc ++ [e]) f hd'.tail
        (fun b hb => hs b (by simp at hb ⊢; rcases hb with h | h; exact Or.inr (Or.inl h); exact Or.inr (Or.inr h)))
        (fun b hb => hgt b (List.mem_cons_of_mem _ hb)) (by simp at hf ⊢; omega)
      simp only [List.cons_append, List.headD_cons]
      have h7' : e.no - 1 = ((x ++ aligned).headD start).no := by omega
      simp [gather, h1, h4, h5, h7']
      simpa using ih

namespace Fork
variable {D : Store} {pre old new : List Block} {start best top : Block}

/-- **`gather` finds the fork.** On a `Fork` the normal-path gather returns the fork point, the main-chain
blocks above it and the branch blocks above it, each from its tip downwards. -/
theorem gather_eq (F : Fork D pre old new start best top) :
    gather D best.no (top.no + 1) top [] [] = some (start, old, new) := by
  have R := F.ready
  have hbn : best.no = start.no + old.length := R.best_no
  have htn : top.no = start.no + new.length := R.top_no
  have hlong := F.longer
  obtain ⟨r, hr⟩ := R.old_eq
  obtain ⟨r', hr'⟩ := R.new_eq
  have hold : old ≠ [] := by simp [hr]
  have hol : 0 < old.length := by simp [hr]
  have hstartmem : start ∈ pre ++ old.reverse := List.mem_append_left _ (List.mem_of_getLast? F.preLast)
  have hstart : getBlock D start.id = some start := F.inv.blk start hstartmem
  have hstartNo : blockByNo D start.no = some start := by simp [blockByNo, F.inv.idx start hstartmem, hstart]
  have hdo : DescFrom start old := descFrom_of_asc F.preLast F.inv.asc
  have hidx : ∀ o ∈ old, blockByNo D o.no = some o := fun o ho => by
    have hm : o ∈ pre ++ old.reverse := List.mem_append_right _ (List.mem_reverse.mpr ho)
    simp [blockByNo, F.inv.idx o hm, F.inv.blk o hm]
  -- split the new branch
  have hsplit : new = new.take (new.length - old.length) ++ new.drop (new.length - old.length) := (List.take_append_drop _ _).symm
  generalize hx : new.take (new.length - old.length) = extra at hsplit
  generalize hy : new.drop (new.length - old.length) = aligned at hsplit
  have hyl : aligned.length = old.length := by rw [← hy]; simp; omega
  have hd : DescFrom start (extra ++ aligned) := hsplit ▸ F.newDesc
  have hs : ∀ b ∈ extra ++ aligned, getBlock D b.id = some b := fun b hb => F.newStored b (hsplit ▸ hb)
  have hne : ∀ b ∈ aligned, ∀ o ∈ old, b.id ≠ o.id := fun b hb o ho =>
    F.newIds b (by rw [hsplit]; exact List.mem_append_right _ hb) o (List.mem_append_right _ (List.mem_reverse.mpr ho))
  have hle : ∀ b ∈ aligned, b.no ≤ best.no := fun b hb => by
    have := (hd.drop_prefix.no_bounds hb).2; omega
  have hgt : ∀ e ∈ extra, best.no < e.no := fun e he => by
    have := hd.prefix_no he; omega
  have hlen : extra.length + aligned.length = new.length := by
    have := congrArg List.length hsplit; simp at this; omega
  have := gather_extra hstart hstartNo (by omega) hyl hold hdo hidx hne hle extra [] (top.no + 1) hd hs hgt (by omega)
  have hhd : (extra ++ aligned).headD start = top := by rw [← hsplit, hr']; rfl
  rw [hhd] at this
  simpa [← hsplit] using this

end Fork

end Aergo.Crash
