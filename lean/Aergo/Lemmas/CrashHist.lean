import Aergo.Lemmas.CrashGather

/-!
C06 over histories. The one-operation results of `Lemmas/Crash*.lean` start from a coherent store (`Inv`,
`Fork`). Here the coherence of the *whole node* — durable stores, every stored side block, the in-memory
orphan pool — is made an invariant (`Coh`) of arbitrary sequences of block arrivals, crashes at any unit
prefix of an arrival, and restarts that are themselves interrupted any number of times:

* `Tree U g` — the universe of valid blocks of a history: unique ids, every block but the genesis has its
  parent in the universe one height below, a transaction hash occurs once on any parent-linked path
  (the C04 hypothesis of `Fork.txUnique`, now stated once for the universe instead of per reorganisation).
* `CohD U g D chain best` — `Inv` plus what makes it inductive: every stored block record is a block of the
  universe whose parent is stored too (the stored blocks form a tree rooted at the genesis), and no stored
  block is a child of the best block outside the chain.
* `CohD.fork` — **`Fork` is established, not assumed**: in a coherent store every stored block above the
  best block that is not on the main chain is the top of a `Fork`.
* `RecState` — the durable states a crash can leave: coherent (`Stable`) or inside the swap window of a
  reorganisation (`Window`); closed under restarts interrupted after any number of their own units.
* `feed_hist` — one arrival through `feed` (stored block, orphan, chain of parked orphans connected or
  stored as side blocks, reorganisation): the result is coherent, and every unit prefix is a `RecState`.
-/

namespace Aergo.Crash

theorem getBlock_id {D : Store} {i : Nat} {b : Block} (h : getBlock D i = some b) : b.id = i := by
  unfold getBlock at h
  split at h
  · split at h
    · cases h; assumption
    · cases h
  · cases h

theorem getBlock_congr {D E : Store} {i : Nat} (h : E (.block i) = D (.block i)) : getBlock E i = getBlock D i := by
  simp [getBlock, h]

/-- The universe of valid blocks of a history (a block tree rooted at the genesis `g`). -/
structure Tree (U : Block → Prop) (g : Block) : Prop where
  gU : U g
  gno : g.no = 0
  gtx : g.txs = []
  uid : ∀ a b, U a → U b → a.id = b.id → a = b
  par : ∀ b, U b → b ≠ g → ∃ p, U p ∧ b.parent = p.id ∧ b.no = p.no + 1
  txu : ∀ l, Asc l → (∀ x ∈ l, U x) → ∀ b ∈ l, ∀ c ∈ l, ∀ (i j t : Nat),
    b.txs[i]? = some t → c.txs[j]? = some t → b.id = c.id ∧ i = j

theorem Tree.not_self_parent {U : Block → Prop} {g : Block} (T : Tree U g) {b : Block} (hb : U b) (hg : b ≠ g) :
    b.parent ≠ b.id := by
  intro e
  obtain ⟨p, hp, h1, h2⟩ := T.par b hb hg
  have : p = b := T.uid p b hp hb (by rw [← h1, e])
  subst this; omega

theorem Tree.child_no {U : Block → Prop} {g : Block} (T : Tree U g) {b p : Block} (hb : U b) (hg : b ≠ g)
    (hp : U p) (e : b.parent = p.id) : b.no = p.no + 1 := by
  obtain ⟨p', hp', h1, h2⟩ := T.par b hb hg
  have : p' = p := T.uid p' p hp' hp (by rw [← h1, e])
  subst this; exact h2

theorem Asc.pred_mem : ∀ {l : List Block} {b : Block}, Asc l → b ∈ l → l.head? ≠ some b →
    ∃ p ∈ l, b.parent = p.id ∧ b.no = p.no + 1
  | [], _, _, h, _ => by cases h
  | [a], b, _, h, hh => by simp at h; subst h; simp at hh
  | a :: c :: rest, b, hasc, h, hh => by
    obtain ⟨h1, h2, h3⟩ := hasc
    rcases List.mem_cons.mp h with rfl | h'
    · simp at hh
    · by_cases e : b = c
      · subst e; exact ⟨a, by simp, h1, h2⟩
      · obtain ⟨p, hp, x⟩ := Asc.pred_mem h3 h' (by simp; exact fun e' => e e'.symm)
        exact ⟨p, List.mem_cons_of_mem _ hp, x⟩

theorem DescFrom.last_parent {start : Block} : ∀ {l : List Block} {c : Block}, DescFrom start l → l.getLast? = some c →
    c.parent = start.id
  | [], _, _, h => by simp at h
  | [b], c, hd, h => by simp at h; subst h; exact hd.1
  | b :: c' :: rest, c, hd, h => by
    apply DescFrom.last_parent hd.2.2
    simpa using h

/-- Coherence of the durable stores: the C05 invariant for the main chain, and the stored block records
form a tree of universe blocks rooted at the genesis in which the best block has no stored child. -/
structure CohD (U : Block → Prop) (g : Block) (D : Store) (chain : List Block) (best : Block) : Prop where
  inv : Inv D chain best
  head : chain.head? = some g
  stU : ∀ i b, getBlock D i = some b → U b
  closed : ∀ i b, getBlock D i = some b → b ≠ g → (getBlock D b.parent).isSome = true
  noKid : ∀ i b, getBlock D i = some b → b ≠ g → b.parent ≠ best.id

namespace CohD
variable {U : Block → Prop} {g : Block} {D : Store} {chain : List Block} {best : Block}

theorem g_mem (C : CohD U g D chain best) : g ∈ chain := by
  have := C.head
  cases chain with
  | nil => simp at this
  | cons a r => simp at this; subst this; simp

theorem g_stored (C : CohD U g D chain best) : getBlock D g.id = some g := C.inv.blk g C.g_mem

theorem ne_g_of_new (C : CohD U g D chain best) {b : Block} (hnew : getBlock D b.id = none) : b ≠ g := by
  intro e; subst e; rw [C.g_stored] at hnew; cases hnew

theorem not_mem_of_new (C : CohD U g D chain best) {b : Block} (hnew : getBlock D b.id = none) : ∀ c ∈ chain, c.id ≠ b.id := by
  intro c hc e
  have := C.inv.blk c hc
  rw [e, hnew] at this; cases this

theorem parent (T : Tree U g) (C : CohD U g D chain best) {i : Nat} {b : Block} (hb : getBlock D i = some b)
    (hg : b ≠ g) : ∃ p, getBlock D b.parent = some p ∧ U p ∧ b.no = p.no + 1 := by
  have h1 := C.closed i b hb hg
  obtain ⟨p', hp'⟩ := Option.isSome_iff_exists.mp h1
  obtain ⟨p, hp, e1, e2⟩ := T.par b (C.stU i b hb) hg
  have : p' = p := T.uid p' p (C.stU _ _ hp') hp (by rw [getBlock_id hp', e1])
  subst this
  exact ⟨p', hp', hp, e2⟩

/-- No stored block is a child of a block that is not stored. -/
theorem no_child_of_new (C : CohD U g D chain best) {b : Block} (hnew : getBlock D b.id = none) :
    ∀ i c, getBlock D i = some c → c ≠ g → c.parent ≠ b.id := by
  intro i c hc hg e
  have := C.closed i c hc hg
  rw [e, hnew] at this; cases this

/-- Transfer to a store with the same block records. -/
theorem transfer (C : CohD U g D chain best) {E : Store} {chain' : List Block} {best' : Block}
    (hb : ∀ i, getBlock E i = getBlock D i) (hi : Inv E chain' best') (hh : chain'.head? = some g)
    (hk : ∀ i b, getBlock D i = some b → b ≠ g → b.parent ≠ best'.id) : CohD U g E chain' best' where
  inv := hi
  head := hh
  stU := fun i b h => C.stU i b (hb i ▸ h)
  closed := fun i b h hg => by rw [hb]; exact C.closed i b (hb i ▸ h) hg
  noKid := fun i b h hg => hk i b (hb i ▸ h) hg

/-- Transfer to a store that holds one more block record. -/
theorem add_block (C : CohD U g D chain best) {E : Store} {b : Block} {chain' : List Block} {best' : Block}
    (hU : U b) (hpar : (getBlock D b.parent).isSome = true)
    (hb : ∀ i, getBlock E i = if i = b.id then some b else getBlock D i)
    (hi : Inv E chain' best') (hh : chain'.head? = some g)
    (hk1 : b.parent ≠ best'.id) (hk : ∀ i c, getBlock D i = some c → c ≠ g → c.parent ≠ best'.id) :
    CohD U g E chain' best' where
  inv := hi
  head := hh
  stU := by
    intro i c h
    rw [hb] at h
    split at h
    · cases h; exact hU
    · exact C.stU i c h
  closed := by
    intro i c h hg
    have key : ∀ c' : Block, (getBlock D c'.parent).isSome = true → (getBlock E c'.parent).isSome = true := by
      intro c' h'
      rw [hb]; split
      · rfl
      · exact h'
    rw [hb] at h
    split at h
    · cases h; exact key _ hpar
    · exact key _ (C.closed i c h hg)
  noKid := by
    intro i c h hg
    rw [hb] at h
    split at h
    · cases h; exact hk1
    · exact hk i c h hg

/-- From any stored block the parent links lead to the main chain: the block is on it, or it is the top of a
stored descending branch off a chain block, none of whose blocks is on the chain. -/
theorem walk (T : Tree U g) (C : CohD U g D chain best) : ∀ (n : Nat) (t : Block), t.no = n → getBlock D t.id = some t →
    t ∈ chain ∨ ∃ new start, start ∈ chain ∧ DescFrom start new ∧ new.head? = some t ∧
      (∀ b ∈ new, getBlock D b.id = some b ∧ b ∉ chain) := by
  intro n
  induction n with
  | zero =>
    intro t hn ht
    by_cases hg : t = g
    · left; rw [hg]; exact C.g_mem
    · obtain ⟨p, _, _, h⟩ := C.parent T ht hg
      omega
  | succ n ih =>
    intro t hn ht
    by_cases hg : t = g
    · left; rw [hg]; exact C.g_mem
    · obtain ⟨p, hp, _, hno⟩ := C.parent T ht hg
      have hpid := getBlock_id hp
      have hp' : getBlock D p.id = some p := by rw [hpid]; exact hp
      by_cases htc : t ∈ chain
      · exact Or.inl htc
      · right
        rcases ih p (by omega) hp' with hpc | ⟨new', start, hs, hd, hh, hall⟩
        · exact ⟨[t], p, hpc, ⟨hpid.symm, hno⟩, rfl, by
            intro b hb; simp at hb; subst hb; exact ⟨ht, htc⟩⟩
        · cases new' with
          | nil => simp at hh
          | cons a rest =>
            simp at hh; subst hh
            refine ⟨t :: a :: rest, start, hs, ⟨hpid.symm, hno, hd⟩, rfl, ?_⟩
            intro b hb
            rcases List.mem_cons.mp hb with rfl | hb
            · exact ⟨ht, htc⟩
            · exact hall b hb

/-- **`Fork` is established.** In a coherent store, a stored block that is not on the main chain and is
numbered above the best block is the top of a `Fork`: the main chain splits at the branch root into `pre` and
`old`, the branch `new` is stored, longer, its ids are not on the chain and its transactions are unique on
`pre ++ new`. -/
theorem fork (T : Tree U g) (C : CohD U g D chain best) {top : Block} (hs : getBlock D top.id = some top)
    (hn : top ∉ chain) (hlt : best.no < top.no) :
    ∃ pre old new start, chain = pre ++ old.reverse ∧ Fork D pre old new start best top := by
  rcases C.walk T top.no top rfl hs with h | ⟨new, start, hstart, hd, hh, hall⟩
  · exact absurd h hn
  · obtain ⟨s, t, hst⟩ := List.append_of_mem hstart
    have hch : chain = (s ++ [start]) ++ (t.reverse).reverse := by simp [hst]
    have hpl : (s ++ [start]).getLast? = some start := by simp
    have hinv : Inv D ((s ++ [start]) ++ (t.reverse).reverse) best := hch ▸ C.inv
    have hdo : DescFrom start t.reverse := descFrom_of_asc hpl hinv.asc
    -- the lowest block of the branch is a child of `start`, so `start` is not the best block
    obtain ⟨r', hr'⟩ : ∃ r', new = top :: r' := by
      cases new with
      | nil => simp at hh
      | cons a r => simp at hh; subst hh; exact ⟨r, rfl⟩
    have hne : new ≠ [] := by simp [hr']
    have hlp := hd.last_parent (List.getLast?_eq_some_getLast hne)
    have hlast_mem : new.getLast hne ∈ new := List.getLast_mem hne
    have hsb : start.id ≠ best.id := by
      have h1 := hall _ hlast_mem
      have hg : new.getLast hne ≠ g := fun e => h1.2 (e ▸ C.g_mem)
      have := C.noKid _ _ h1.1 hg
      rwa [hlp] at this
    have htne : t ≠ [] := by
      intro e
      have := C.inv.last
      rw [hst, e] at this
      simp at this
      exact hsb (by rw [this])
    have hoh : t.reverse.head? = some best := by
      rw [List.head?_reverse]
      have := C.inv.last
      rw [hst] at this
      cases t with
      | nil => exact absurd rfl htne
      | cons a r =>
        rw [List.getLast?_append, List.getLast?_cons_cons] at this
        have hne' : (a :: r).getLast? = some ((a :: r).getLast (by simp)) := List.getLast?_eq_some_getLast (by simp)
        rw [hne'] at this ⊢
        simpa using this
    obtain ⟨ro, hro⟩ : ∃ ro, t.reverse = best :: ro := by
      cases h : t.reverse with
      | nil => rw [h] at hoh; simp at hoh
      | cons a r => rw [h] at hoh; simp at hoh; subst hoh; exact ⟨r, rfl⟩
    have hbn : best.no = start.no + (ro.length + 1) := by
      have := hdo; rw [hro] at this; exact this.head_no
    have htn : top.no = start.no + (r'.length + 1) := by
      have := hd; rw [hr'] at this; exact this.head_no
    refine ⟨s ++ [start], t.reverse, new, start, hch, ?_⟩
    have hpreC : ∀ x ∈ s ++ [start], x ∈ chain := by
      intro x hx
      rw [hst]
      simp only [List.mem_append, List.mem_cons, List.not_mem_nil, or_false] at hx ⊢
      rcases hx with h | h
      · exact Or.inl h
      · exact Or.inr (Or.inl h)
    exact {
      inv := hinv, preLast := hpl, oldHead := hoh, newHead := hh, newDesc := hd
      newStored := fun b hb => (hall b hb).1
      longer := by rw [hro, hr']; simp; omega
      newIds := by
        intro b hb c hc e
        rw [← hch] at hc
        have h1 := (hall b hb).1
        have h2 := C.inv.blk c hc
        rw [e, h2] at h1
        have hcb : c = b := Option.some.inj h1
        exact (hall b hb).2 (hcb ▸ hc)
      txUnique := by
        apply T.txu
        · exact asc_of_descFrom hinv.asc.prefix hpl hd
        · intro x hx
          rcases List.mem_append.mp hx with h | h
          · exact C.stU _ _ (C.inv.blk x (hpreC x h))
          · exact C.stU _ _ (hall x (List.mem_reverse.mp h)).1 }

end CohD

/-! ### One block more: connection on the tip, side-branch record -/

theorem mem_connect_ops {b : Block} {x : W} : x ∈ allOps (connectUnits b) ↔
      ((¬ b.txs.isEmpty ∧ x = .set (.stData b.root) .unit) ∨ x = .set (.stMark b.root) .unit ∨
       (¬ b.txs.isEmpty ∧ x = .set (.rcpt b.id b.no) .unit)) ∨
      (x = .set (.block b.id) (.blk b) ∨ x = .set .latest (.num b.no) ∨ x = .set (.byNo b.no) (.id b.id) ∨
       x = .set .cons (.id b.id)) ∨ ∃ j t, b.txs[j]? = some t ∧ x = .set (.tx t) (.txIdx b.id j) := by
  simp only [allOps, connectUnits, execUnits, stateUnit, rcptUnits, connectUnit, List.flatMap_append,
    List.flatMap_cons, List.flatMap_nil, List.append_nil, List.mem_append, List.mem_cons, mem_txIdxOps,
    List.not_mem_nil, or_false]
  by_cases he : b.txs.isEmpty <;> simp [he, or_assoc]

theorem getBlock_connect (D : Store) (b : Block) (i : Nat) :
    getBlock (applyUnits (connectUnits b) D) i = if i = b.id then some b else getBlock D i := by
  rw [applyUnits_eq]
  by_cases h : i = b.id
  · subst h
    have : applyOps (allOps (connectUnits b)) D (.block b.id) = some (.blk b) := by
      apply get_written D ⟨.set (.block b.id) (.blk b), mem_connect_ops.mpr (Or.inr (Or.inl (Or.inl rfl))), rfl⟩
      intro x hx hk
      rcases mem_connect_ops.mp hx with ((⟨_, rfl⟩ | rfl | ⟨_, rfl⟩) | (rfl | rfl | rfl | rfl) | ⟨j, t, _, rfl⟩) <;>
        simp [W.key, W.val] at hk ⊢
    simp [getBlock, this]
  · have : applyOps (allOps (connectUnits b)) D (.block i) = D (.block i) := by
      apply get_untouched
      intro x hx
      rcases mem_connect_ops.mp hx with ((⟨_, rfl⟩ | rfl | ⟨_, rfl⟩) | (rfl | rfl | rfl | rfl) | ⟨j, t, _, rfl⟩) <;>
        simp [W.key]
      exact fun e => h e.symm
    simp [getBlock, this, h]

theorem getBlock_side (D : Store) (b : Block) (i : Nat) :
    getBlock (applyOps (sideUnit b).ops D) i = if i = b.id then some b else getBlock D i := by
  by_cases h : i = b.id
  · subst h; simp [getBlock, sideUnit, applyOps, W.apply, W.key, W.val]
  · simp [getBlock, sideUnit, applyOps, W.apply, W.key, h]

theorem getBlock_harmless {ws : List W} (D : Store) (h : ∀ w ∈ ws, Harmless w) (i : Nat) :
    getBlock (applyOps ws D) i = getBlock D i :=
  getBlock_congr (harmless_other D h (by simp) (by simp) (by simp))

namespace CohD
variable {U : Block → Prop} {g : Block} {D : Store} {chain : List Block} {best : Block}

/-- Harmless writes (state data, state markers, receipts) keep a coherent store coherent. -/
theorem harmless (C : CohD U g D chain best) {ws : List W} (h : ∀ w ∈ ws, Harmless w) :
    CohD U g (applyOps ws D) chain best :=
  C.transfer (getBlock_harmless D h) (C.inv.of_sameView (sameView_of_harmless D _ _ h)) C.head C.noKid

/-- A crash before the tip transaction of a connection leaves the store coherent at the old tip. -/
theorem connect_prefix (C : CohD U g D chain best) (b : Block) {k : Nat} (hk : k < (connectUnits b).length) :
    CohD U g (crash (connectUnits b) k D) chain best := by
  rw [crash_eq]
  apply C.harmless
  intro w hw
  have : (connectUnits b).take k = (execUnits b).take k := by
    apply List.take_append_of_le_length
    simp [connectUnits] at hk; omega
  rw [this] at hw
  exact harmless_execUnits b w (mem_allOps_take hw)

/-- The hypotheses of `connect_full_inv` follow from the universe: a new block on the tip. -/
theorem connect_hyps (T : Tree U g) (C : CohD U g D chain best) {b : Block} (hU : U b)
    (hnew : getBlock D b.id = none) (hp : b.parent = best.id) :
    b.no = best.no + 1 ∧ (∀ c ∈ chain, c.id ≠ b.id) ∧ b.txs.Nodup ∧ (∀ t ∈ b.txs, getTx D t = none) := by
  have hg := C.ne_g_of_new hnew
  have hbestU : U best := C.stU _ _ (C.inv.blk best C.inv.best_mem)
  have hn : b.no = best.no + 1 := T.child_no hU hg hbestU hp
  have hid := C.not_mem_of_new hnew
  have hasc : Asc (chain ++ [b]) := C.inv.asc.snoc C.inv.last hp hn
  have hallU : ∀ x ∈ chain ++ [b], U x := by
    intro x hx
    rcases List.mem_append.mp hx with h | h
    · exact C.stU _ _ (C.inv.blk x h)
    · simp at h; subst h; exact hU
  have hbm : b ∈ chain ++ [b] := by simp
  refine ⟨hn, hid, ?_, ?_⟩
  · rw [List.nodup_iff_pairwise_ne, List.pairwise_iff_getElem]
    intro i j hi hj hij e
    have h1 : b.txs[i]? = some b.txs[i] := List.getElem?_eq_getElem hi
    have h2 : b.txs[j]? = some b.txs[i] := by rw [e]; exact List.getElem?_eq_getElem hj
    have := (T.txu _ hasc hallU b hbm b hbm i j _ h1 h2).2
    omega
  · intro t ht
    cases hgt : getTx D t with
    | none => rfl
    | some ij =>
      obtain ⟨i', j'⟩ := ij
      obtain ⟨c, hc, hci, hct⟩ := C.inv.txsOnly t i' j' hgt
      obtain ⟨jj, hjj⟩ := List.mem_iff_getElem?.mp ht
      have := (T.txu _ hasc hallU c (List.mem_append_left _ hc) b hbm j' jj t hct hjj).1
      exact absurd this (hid c hc)

/-- **Connection of a new block on the tip** keeps the store coherent, with the chain one block longer. -/
theorem connect (T : Tree U g) (C : CohD U g D chain best) {b : Block} (hU : U b)
    (hnew : getBlock D b.id = none) (hp : b.parent = best.id) :
    CohD U g (applyUnits (connectUnits b) D) (chain ++ [b]) b := by
  obtain ⟨hn, hid, hnd, hfresh⟩ := C.connect_hyps T hU hnew hp
  have hg := C.ne_g_of_new hnew
  have hpar : (getBlock D b.parent).isSome = true := by
    rw [hp, C.inv.blk best C.inv.best_mem]; rfl
  apply C.add_block hU hpar (getBlock_connect D b) (connect_full_inv C.inv hp hn hid hnd hfresh)
  · have := C.head
    cases chain with
    | nil => simp at this
    | cons a r => simpa using this
  · exact T.not_self_parent hU hg
  · exact C.no_child_of_new hnew

/-- **Record of a side-branch block** (its parent is stored and is not the best block). -/
theorem side (C : CohD U g D chain best) {b : Block} (hU : U b)
    (hnew : getBlock D b.id = none) (hpar : (getBlock D b.parent).isSome = true) (hne : b.parent ≠ best.id) :
    CohD U g (applyOps (sideUnit b).ops D) chain best :=
  C.add_block hU hpar (getBlock_side D b) (inv_side C.inv (C.not_mem_of_new hnew)) C.head hne C.noKid

end CohD

/-! ### The node, the durable states a crash can leave, interrupted restarts -/

/-- Coherence of a running node: coherent stores, the state DB at the best block's root, every parked orphan
is a universe block whose parent is not stored. -/
structure Coh (U : Block → Prop) (g : Block) (N : Node) (chain : List Block) : Prop where
  d : CohD U g N.D chain N.best
  root : N.sdbRoot = N.best.root
  orph : ∀ o ∈ N.orphans, U o ∧ o ≠ g ∧ getBlock N.D o.parent = none

/-- A coherent store whose main chain satisfies `P`. -/
def Stable (U : Block → Prop) (g : Block) (P : List Block → Prop) (E : Store) : Prop :=
  ∃ chain best, CohD U g E chain best ∧ P chain

/-- A store inside the swap window of a reorganisation whose completion is coherent with a chain satisfying `P`. -/
def Window (U : Block → Prop) (g : Block) (P : List Block → Prop) (E : Store) : Prop :=
  ∃ D0 pre old new start best top, Ready D0 pre old new start best top ∧
    Mid D0 (markerOf start best top) old new top E ∧
    CohD U g (finalStore D0 old new top) (pre ++ new.reverse) top ∧ P (pre ++ new.reverse)

/-- The durable states a crash can leave behind. -/
def RecState (U : Block → Prop) (g : Block) (P : List Block → Prop) (E : Store) : Prop :=
  Stable U g P E ∨ Window U g P E

theorem RecState.mono {U : Block → Prop} {g : Block} {P Q : List Block → Prop} {E : Store} (h : RecState U g P E)
    (hpq : ∀ c, P c → Q c) : RecState U g Q E := by
  rcases h with ⟨c, b, h1, h2⟩ | ⟨D0, pre, old, new, start, best, top, R, M, C, hp⟩
  · exact Or.inl ⟨c, b, h1, hpq _ h2⟩
  · exact Or.inr ⟨D0, pre, old, new, start, best, top, R, M, C, hpq _ hp⟩

/-- **Restart on any state a crash can leave**: it succeeds, the node is coherent (orphan pool empty), its
chain satisfies `P`, and the store after any number of units of that very restart is again such a state. -/
theorem RecState.restart {U : Block → Prop} {g : Block} {P : List Block → Prop} {E : Store} (h : RecState U g P E) :
    ∃ N us1 us2 chain, Crash.restart E = .ok (N, us1, us2) ∧ Coh U g N chain ∧ P chain ∧ N.orphans = [] ∧
      ∀ j, RecState U g P (crash (us1 ++ us2) j E) := by
  rcases h with ⟨chain, best, C, hp⟩ | ⟨D0, pre, old, new, start, best, top, R, M, CF, hp⟩
  · refine ⟨⟨E, best, best.root, []⟩, [], [], chain, restart_of_inv C.inv, ⟨C, rfl, by simp⟩, hp, rfl, ?_⟩
    intro j
    have : crash ([] ++ []) j E = E := by simp [crash, applyUnits]
    rw [this]
    exact Or.inl ⟨chain, best, C, hp⟩
  · obtain ⟨us1, E1, hinit, M1, hO, hu⟩ := M.init R rfl
    have hrec := M1.recover_old R rfl
    have hres : Crash.restart E = .ok (⟨finalStore D0 old new top, top, top.root, []⟩, us1,
        swapUnits (markerOf start best top) old new top false) := by simp [Crash.restart, hinit, hrec]
    refine ⟨_, us1, _, pre ++ new.reverse, hres, ⟨CF, rfl, by simp⟩, hp, rfl, ?_⟩
    intro j
    have hE1 : E1 = applyUnits us1 E := by
      rcases hu with ⟨h, h'⟩ | ⟨h, h'⟩
      · rw [h, h']; rfl
      · rw [h, h']; rfl
    have win : ∀ X, Mid D0 (markerOf start best top) old new top X → RecState U g P X :=
      fun X MX => Or.inr ⟨D0, pre, old, new, start, best, top, R, MX, CF, hp⟩
    have fin : RecState U g P (finalStore D0 old new top) := Or.inl ⟨_, _, CF, hp⟩
    rcases Nat.lt_or_ge us1.length j with hgt | hle
    · obtain ⟨k', rfl⟩ : ∃ k', j = us1.length + k' := ⟨j - us1.length, by omega⟩
      have e : crash (us1 ++ swapUnits (markerOf start best top) old new top false) (us1.length + k') E =
          crash (swapUnits (markerOf start best top) old new top false) k' E1 := by
        simp only [crash, List.take_append, List.take_of_length_le (Nat.le_add_right _ _),
          Nat.add_sub_cancel_left, applyUnits_append, hE1]
      rw [e]
      rcases Nat.lt_or_ge k' ((midUnits old new top).length + 2) with hlt | hge
      · obtain ⟨i, rfl⟩ : ∃ i, k' = i + 1 := ⟨k' - 1, by omega⟩
        have e2 : (swapUnits (markerOf start best top) old new top false).take (i + 1) =
            markerSetUnit (markerOf start best top) :: (midUnits old new top).take i := by
          rw [swapUnits_eq, List.take_succ_cons, List.take_append_of_le_length (by omega)]
        rw [crash, e2]
        exact win _ (M1.progress R hO i)
      · have hlen : (swapUnits (markerOf start best top) old new top false).length = (midUnits old new top).length + 2 := by
          simp [swapUnits_eq]
        rw [crash, List.take_of_length_le (by omega), M1.swap_all]
        exact fin
    · rcases hu with ⟨h, h'⟩ | ⟨h, h'⟩
      · subst h; subst h'
        have : j = 0 := by simpa using hle
        subst this
        simpa [crash, applyUnits] using win _ M
      · subst h
        have hj' : j = 0 ∨ j = 1 := by simp at hle; omega
        rcases hj' with rfl | rfl
        · simpa [crash, applyUnits] using win _ M
        · have : crash ([Ready.recUnit old best top] ++ swapUnits (markerOf start best top) old new top false) 1 E = E1 := by
            rw [h']; rfl
          rw [this]; exact win _ M1

/-- A restart that is interrupted: the process dies after `j` units of each restart for the `j`s of the list,
the last restart runs to completion. -/
def restartChain : Store → List Nat → Except Err Node
  | D, [] => match restart D with
    | .error e => .error e
    | .ok (N, _, _) => .ok N
  | D, j :: js => match restart D with
    | .error e => .error e
    | .ok (_, us1, us2) => restartChain (crash (us1 ++ us2) j D) js

/-- **Interrupted restarts, to any depth**, end in a coherent node whose chain satisfies `P`. -/
theorem RecState.restartChain {U : Block → Prop} {g : Block} {P : List Block → Prop} :
    ∀ (js : List Nat) {E : Store}, RecState U g P E →
      ∃ N chain, Crash.restartChain E js = .ok N ∧ Coh U g N chain ∧ P chain ∧ N.orphans = []
  | [], E, h => by
    obtain ⟨N, us1, us2, chain, hr, hc, hp, ho, _⟩ := h.restart
    exact ⟨N, chain, by simp [Crash.restartChain, hr], hc, hp, ho⟩
  | j :: js, E, h => by
    obtain ⟨N, us1, us2, chain, hr, _, _, _, hnext⟩ := h.restart
    obtain ⟨N', chain', hr', hc', hp', ho'⟩ := RecState.restartChain js (hnext j)
    exact ⟨N', chain', by simp [Crash.restartChain, hr, hr'], hc', hp', ho'⟩

/-! ### Crash points of a unit list -/

/-- Every unit prefix of `us`, applied to `D`, is a state from which the (interrupted) restart recovers to a
coherent node whose chain satisfies `P`. -/
def CrashOK (U : Block → Prop) (g : Block) (P : List Block → Prop) (D : Store) (us : List Unit) : Prop :=
  ∀ k, RecState U g P (crash us k D)

theorem crash_append (us1 us2 : List Unit) (k : Nat) (D : Store) :
    crash (us1 ++ us2) k D =
      if k ≤ us1.length then crash us1 k D else crash us2 (k - us1.length) (applyUnits us1 D) := by
  split
  · rename_i h
    simp only [crash, List.take_append_of_le_length h]
  · rename_i h
    have h' : us1.length ≤ k := by omega
    simp only [crash, List.take_append, List.take_of_length_le h', applyUnits_append]

theorem crash_all {us : List Unit} {k : Nat} (h : us.length ≤ k) (D : Store) : crash us k D = applyUnits us D := by
  simp only [crash, List.take_of_length_le h]

theorem CrashOK.mono {U : Block → Prop} {g : Block} {P Q : List Block → Prop} {D : Store} {us : List Unit}
    (h : CrashOK U g P D us) (hpq : ∀ c, P c → Q c) : CrashOK U g Q D us := fun k => (h k).mono hpq

theorem CrashOK.append {U : Block → Prop} {g : Block} {P : List Block → Prop} {D : Store} {us1 us2 : List Unit}
    (h1 : CrashOK U g P D us1) (h2 : CrashOK U g P (applyUnits us1 D) us2) : CrashOK U g P D (us1 ++ us2) := by
  intro k
  rw [crash_append]
  split
  · exact h1 k
  · exact h2 _

theorem CrashOK.nil {U : Block → Prop} {g : Block} {P : List Block → Prop} {D : Store} {chain : List Block} {best : Block}
    (C : CohD U g D chain best) (hp : P chain) : CrashOK U g P D [] := by
  intro k
  have : crash [] k D = D := by simp [crash, applyUnits]
  rw [this]
  exact Or.inl ⟨chain, best, C, hp⟩

/-- The complete swap applied to the store it started on gives the final store. -/
theorem swap_full (D0 : Store) (m : Marker) (old new : List Block) (top : Block) :
    applyUnits (swapUnits m old new top false) D0 = finalStore D0 old new top := by
  funext k
  have e : allOps (swapUnits m old new top false) = [.set .marker (.mk m)] ++ (midOps old new top ++ [.del .marker]) := by
    simp [swapUnits_eq, allOps, midOps, markerSetUnit, markerDelUnit]
  rw [applyUnits_eq, e, applyOps_append]
  by_cases hk : k = .marker
  · subst hk
    rw [finalStore_marker]
    simp [applyOps, W.apply, W.key, W.val]
  · rw [finalStore_other _ old new top hk, applyOps_append]
    have h1 : ∀ X : Store, applyOps [W.del .marker] X k = X k := fun X => by simp [applyOps, W.apply, W.key, hk]
    rw [h1]
    apply applyOps_absorb_key
    left
    simp [applyOps, W.apply, W.key, hk]

namespace CohD
variable {U : Block → Prop} {g : Block} {D : Store} {chain : List Block} {best : Block}

/-- Crash points of the connection of a new block on the tip. -/
theorem crashOK_connect (T : Tree U g) (C : CohD U g D chain best) {b : Block} (hU : U b)
    (hnew : getBlock D b.id = none) (hp : b.parent = best.id) :
    CrashOK U g (fun c => c = chain ∨ c = chain ++ [b]) D (connectUnits b) := by
  intro k
  rcases Nat.lt_or_ge k (connectUnits b).length with hlt | hge
  · exact Or.inl ⟨chain, best, C.connect_prefix b hlt, Or.inl rfl⟩
  · rw [crash_all hge]
    exact Or.inl ⟨_, b, C.connect T hU hnew hp, Or.inr rfl⟩

/-- Crash points of the record of a side-branch block. -/
theorem crashOK_side (C : CohD U g D chain best) {b : Block} (hU : U b)
    (hnew : getBlock D b.id = none) (hpar : (getBlock D b.parent).isSome = true) (hne : b.parent ≠ best.id) :
    CrashOK U g (fun c => c = chain) D [sideUnit b] := by
  intro k
  cases k with
  | zero =>
    have : crash [sideUnit b] 0 D = D := by simp [crash, applyUnits]
    rw [this]; exact Or.inl ⟨chain, best, C, rfl⟩
  | succ k =>
    have : crash [sideUnit b] (k + 1) D = applyOps (sideUnit b).ops D := by simp [crash, applyUnits]
    rw [this]; exact Or.inl ⟨chain, best, C.side hU hnew hpar hne, rfl⟩

/-- **Crash points of a reorganisation.** In a coherent store, for a stored block `top` above the best block, off
the main chain and without stored children: the reorganisation to `top` is the one of a `Fork` that splits the
chain; every unit prefix of roll-forward + swap is a recoverable state, at the old chain or at the new one;
the completed reorganisation is coherent at the new chain; no block record is touched. -/
theorem crashOK_reorg (T : Tree U g) (C : CohD U g D chain best) {top : Block} (hs : getBlock D top.id = some top)
    (hn : top ∉ chain) (hlt : best.no < top.no)
    (hleaf : ∀ i c, getBlock D i = some c → c ≠ g → c.parent ≠ top.id) :
    ∃ pre old new start, chain = pre ++ old.reverse ∧ Fork D pre old new start best top ∧
      CrashOK U g (fun c => c = chain ∨ c = pre ++ new.reverse) D
        (rollforwardUnits new ++ swapUnits (markerOf start best top) old new top false) ∧
      CohD U g (applyUnits (rollforwardUnits new ++ swapUnits (markerOf start best top) old new top false) D)
        (pre ++ new.reverse) top ∧
      ∀ i, getBlock (applyUnits (rollforwardUnits new ++ swapUnits (markerOf start best top) old new top false) D) i =
        getBlock D i := by
  obtain ⟨pre, old, new, start, hch, F⟩ := C.fork T hs hn hlt
  refine ⟨pre, old, new, start, hch, F, ?_⟩
  have R := F.ready
  have hh := harmless_rollforward new
  let D0 := applyUnits (rollforwardUnits new) D
  have hD0 : D0 = applyOps (allOps (rollforwardUnits new)) D := applyUnits_eq _ _
  have hb0 : ∀ i, getBlock D0 i = getBlock D i := fun i => by rw [hD0]; exact getBlock_harmless D hh i
  have C0 : CohD U g D0 chain best := by rw [hD0]; exact C.harmless hh
  have hbF : ∀ i, getBlock (finalStore D0 old new top) i = getBlock D0 i := fun i =>
    getBlock_congr (by rw [finalStore_other _ _ _ _ (by simp), R.mid_block])
  have hpre : pre ≠ [] := by
    intro e; have := F.preLast; simp [e] at this
  have hhead : (pre ++ new.reverse).head? = some g := by
    have := C.head
    rw [hch] at this
    cases pre with
    | nil => exact absurd rfl hpre
    | cons a r => simpa using this
  have CF : CohD U g (finalStore D0 old new top) (pre ++ new.reverse) top :=
    C0.transfer hbF R.inv_final hhead (fun i c hc hg => hleaf i c (hb0 i ▸ hc) hg)
  have hfull : applyUnits (rollforwardUnits new ++ swapUnits (markerOf start best top) old new top false) D =
      finalStore D0 old new top := by
    rw [applyUnits_append, swap_full]
  refine ⟨?_, hfull ▸ CF, fun i => by rw [hfull, hbF, hb0]⟩
  intro k
  rw [crash_append]
  split
  · -- inside the roll-forward
    rw [crash_eq]
    refine Or.inl ⟨chain, best, C.harmless (fun w hw => hh w (mem_allOps_take hw)), Or.inl rfl⟩
  · rename_i hk
    have hk1 : 1 ≤ k - (rollforwardUnits new).length := by omega
    generalize k - (rollforwardUnits new).length = k' at hk1
    have hlen : (swapUnits (markerOf start best top) old new top false).length = (midUnits old new top).length + 2 := by
      simp [swapUnits_eq]
    rcases Nat.lt_or_ge k' ((midUnits old new top).length + 2) with hlt' | hge
    · obtain ⟨j, rfl⟩ : ∃ j, k' = j + 1 := ⟨k' - 1, by omega⟩
      have e : (swapUnits (markerOf start best top) old new top false).take (j + 1) =
          markerSetUnit (markerOf start best top) :: (midUnits old new top).take j := by
        rw [swapUnits_eq, List.take_succ_cons, List.take_append_of_le_length (by omega)]
      rw [crash, e]
      exact Or.inr ⟨D0, pre, old, new, start, best, top, R,
        Mid.progress_of R (fun k _ => Or.inl rfl) ⟨fun _ => rfl, rfl⟩ j, CF, Or.inr rfl⟩
    · rw [crash_all (by omega), swap_full]
      exact Or.inl ⟨_, top, CF, Or.inr rfl⟩

end CohD

/-! ### One arrival through `feed` -/

namespace Coh
variable {U : Block → Prop} {g : Block} {N : Node} {chain : List Block}

/-- A parked orphan is not stored. -/
theorem orphan_new (T : Tree U g) (C : Coh U g N chain) {o : Block} (ho : o ∈ N.orphans) : getBlock N.D o.id = none := by
  obtain ⟨hU, hg, hp⟩ := C.orph o ho
  cases h : getBlock N.D o.id with
  | none => rfl
  | some o' =>
    have : o' = o := T.uid o' o (C.d.stU _ _ h) hU (getBlock_id h)
    subst this
    have := C.d.closed _ _ h hg
    rw [hp] at this; cases this

/-- `isMainChain` for a new universe block whose parent is stored: exactly "child of the best block". -/
theorem isMain_iff (T : Tree U g) (C : Coh U g N chain) {b : Block} (hU : U b) (hnew : getBlock N.D b.id = none) :
    isMainChain N b = true ↔ b.parent = N.best.id := by
  have hidx : getByNo N.D N.best.no = some N.best.id := C.d.inv.idx _ C.d.inv.best_mem
  have hg := C.d.ne_g_of_new hnew
  have hbestU : U N.best := C.d.stU _ _ (C.d.inv.blk _ C.d.inv.best_mem)
  constructor
  · intro h
    unfold isMainChain at h
    split at h
    · cases h
    · rw [hidx] at h
      have h' : N.best.id = b.parent := by simpa using h
      exact h'.symm
  · intro h
    have hn := T.child_no hU hg hbestU h
    unfold isMainChain
    rw [hidx, h]
    simp [hn]

end Coh

/-- The chains a crash inside an arrival may recover to: the chain before it, the chain after it, or (a run of
parked orphans connected one after the other) a chain in between. -/
def Legit (c0 c1 c : List Block) : Prop := c = c0 ∨ c = c1 ∨ (c0 <+: c ∧ c <+: c1)

section Loop
variable {U : Block → Prop} {g : Block}

private theorem filter_lt {l : List Block} {o : Block} {i : Nat} (ho : o ∈ l) (hp : o.parent = i) :
    (l.filter (fun x => decide (x.parent ≠ i))).length < l.length := by
  apply List.length_filter_lt_length_iff_exists.mpr
  exact ⟨o, ho, by simp [hp]⟩

/-- The run loop on the main chain: the block and the chain of parked orphans behind it are connected one after
the other; the node stays coherent, every unit prefix is recoverable to a chain between the old and the new. -/
theorem runLoop_main (T : Tree U g) : ∀ (fuel : Nat) (N : Node) (b : Block) (acc : List Unit) (chain : List Block),
    Coh U g N chain → U b → getBlock N.D b.id = none → b.parent = N.best.id → N.orphans.length < fuel →
    ∃ N' last us chain', runLoop true fuel N b acc = some (N', last, acc ++ us) ∧ Coh U g N' chain' ∧
      N'.D = applyUnits us N.D ∧ chain <+: chain' ∧
      CrashOK U g (fun c => chain <+: c ∧ c <+: chain') N.D us := by
  intro fuel
  induction fuel with
  | zero => intro N b acc chain _ _ _ _ h; omega
  | succ fuel ih =>
    intro N b acc chain C hU hnew hp hfuel
    have hg := C.d.ne_g_of_new hnew
    have C1 := C.d.connect T hU hnew hp
    have hgb : ∀ i, getBlock (applyUnits (connectUnits b) N.D) i = if i = b.id then some b else getBlock N.D i :=
      getBlock_connect N.D b
    have hcr := C.d.crashOK_connect T hU hnew hp
    have horph : ∀ o ∈ N.orphans, o.parent ≠ b.id → getBlock (applyUnits (connectUnits b) N.D) o.parent = none := by
      intro o ho hne
      rw [hgb, if_neg hne]; exact (C.orph o ho).2.2
    cases hf : N.orphans.find? (fun o => o.parent = b.id) with
    | none =>
      have hno : ∀ o ∈ N.orphans, o.parent ≠ b.id := by
        intro o ho
        have := List.find?_eq_none.mp hf o ho
        simpa using this
      refine ⟨{ N with D := applyUnits (connectUnits b) N.D, best := b, sdbRoot := b.root }, b, connectUnits b,
        chain ++ [b], ?_, ⟨C1, rfl, ?_⟩, rfl, List.prefix_append _ _, ?_⟩
      · simp [runLoop, connect, hf]
      · intro o ho
        exact ⟨(C.orph o ho).1, (C.orph o ho).2.1, horph o ho (hno o ho)⟩
      · apply hcr.mono
        rintro c (rfl | rfl)
        · exact ⟨List.prefix_refl _, List.prefix_append _ _⟩
        · exact ⟨List.prefix_append _ _, List.prefix_refl _⟩
    | some o =>
      have ho : o ∈ N.orphans := List.mem_of_find?_eq_some hf
      have hop : o.parent = b.id := by
        have := List.find?_some hf
        simpa using this
      obtain ⟨hoU, hog, _⟩ := C.orph o ho
      have hono : o.no = b.no + 1 := T.child_no hoU hog hU hop
      let N2 : Node := { D := applyUnits (connectUnits b) N.D, best := b, sdbRoot := b.root,
                         orphans := N.orphans.filter (fun x => x.parent ≠ b.id) }
      have C2 : Coh U g N2 (chain ++ [b]) := by
        refine ⟨C1, rfl, ?_⟩
        intro x hx
        have hx' := List.mem_filter.mp hx
        have hne : x.parent ≠ b.id := by simpa using hx'.2
        exact ⟨(C.orph x hx'.1).1, (C.orph x hx'.1).2.1, horph x hx'.1 hne⟩
      have hoid : o.id ≠ b.id := by
        intro e
        have : o = b := T.uid o b hoU hU e
        subst this
        exact T.not_self_parent hU hg hop
      have honew : getBlock N2.D o.id = none := by
        show getBlock (applyUnits (connectUnits b) N.D) o.id = none
        rw [hgb, if_neg hoid]; exact C.orphan_new T ho
      have hlen : N2.orphans.length < fuel := by
        have := filter_lt ho hop
        show (N.orphans.filter (fun x => decide (x.parent ≠ b.id))).length < fuel
        omega
      obtain ⟨N', last, us', chain', hrun, C', hD', hpre, hcr'⟩ :=
        ih N2 o (acc ++ connectUnits b) (chain ++ [b]) C2 hoU honew hop hlen
      refine ⟨N', last, connectUnits b ++ us', chain', ?_, C', ?_, ?_, ?_⟩
      · have : runLoop true (fuel + 1) N b acc = runLoop true fuel N2 o (acc ++ connectUnits b) := by
          simp [runLoop, connect, hf, hono, N2]
        rw [this, hrun, List.append_assoc]
      · rw [hD', applyUnits_append]
      · exact (List.prefix_append _ _).trans hpre
      · apply CrashOK.append
        · apply hcr.mono
          rintro c (rfl | rfl)
          · exact ⟨List.prefix_refl _, (List.prefix_append _ _).trans hpre⟩
          · exact ⟨List.prefix_append _ _, hpre⟩
        · apply hcr'.mono
          rintro c ⟨h1, h2⟩
          exact ⟨(List.prefix_append _ _).trans h1, h2⟩

/-- The run loop off the main chain: the block and the parked orphans behind it are stored as side blocks; the
main chain is untouched; the last stored block is off the chain and has no stored child. -/
theorem runLoop_side (T : Tree U g) : ∀ (fuel : Nat) (N : Node) (b : Block) (acc : List Unit) (chain : List Block),
    Coh U g N chain → U b → getBlock N.D b.id = none → (getBlock N.D b.parent).isSome = true →
    b.parent ≠ N.best.id → N.orphans.length < fuel →
    ∃ N' last us, runLoop false fuel N b acc = some (N', last, acc ++ us) ∧ Coh U g N' chain ∧
      N'.best = N.best ∧ N'.sdbRoot = N.sdbRoot ∧ N'.D = applyUnits us N.D ∧ getBlock N'.D last.id = some last ∧ last ∉ chain ∧
      (∀ i c, getBlock N'.D i = some c → c ≠ g → c.parent ≠ last.id) ∧
      CrashOK U g (fun c => c = chain) N.D us := by
  intro fuel
  induction fuel with
  | zero => intro N b acc chain _ _ _ _ _ h; omega
  | succ fuel ih =>
    intro N b acc chain C hU hnew hpar hne hfuel
    have hg := C.d.ne_g_of_new hnew
    have C1 := C.d.side hU hnew hpar hne
    have hgb : ∀ i, getBlock (applyOps (sideUnit b).ops N.D) i = if i = b.id then some b else getBlock N.D i :=
      getBlock_side N.D b
    have hcr := C.d.crashOK_side hU hnew hpar hne
    have happ : applyUnits [sideUnit b] N.D = applyOps (sideUnit b).ops N.D := by simp [applyUnits]
    have horph : ∀ o ∈ N.orphans, o.parent ≠ b.id → getBlock (applyOps (sideUnit b).ops N.D) o.parent = none := by
      intro o ho hne
      rw [hgb, if_neg hne]; exact (C.orph o ho).2.2
    have hbc : b ∉ chain := fun h => by
      have := C.d.inv.blk b h
      rw [hnew] at this; cases this
    cases hf : N.orphans.find? (fun o => o.parent = b.id) with
    | none =>
      have hno : ∀ o ∈ N.orphans, o.parent ≠ b.id := by
        intro o ho
        have := List.find?_eq_none.mp hf o ho
        simpa using this
      refine ⟨{ N with D := applyOps (sideUnit b).ops N.D }, b, [sideUnit b], ?_, ⟨C1, C.root, ?_⟩, rfl, rfl, happ.symm, ?_,
        hbc, ?_, hcr⟩
      · simp [runLoop, addSide, hf]
      · intro o ho
        exact ⟨(C.orph o ho).1, (C.orph o ho).2.1, horph o ho (hno o ho)⟩
      · show getBlock (applyOps (sideUnit b).ops N.D) b.id = some b
        rw [hgb, if_pos rfl]
      · intro i c hc hcg
        have hc' : getBlock (applyOps (sideUnit b).ops N.D) i = some c := hc
        rw [hgb] at hc'
        split at hc'
        · cases hc'; exact T.not_self_parent hU hg
        · exact C.d.no_child_of_new hnew i c hc' hcg
    | some o =>
      have ho : o ∈ N.orphans := List.mem_of_find?_eq_some hf
      have hop : o.parent = b.id := by
        have := List.find?_some hf
        simpa using this
      obtain ⟨hoU, hog, _⟩ := C.orph o ho
      have hono : o.no = b.no + 1 := T.child_no hoU hog hU hop
      let N2 : Node := { D := applyOps (sideUnit b).ops N.D, best := N.best, sdbRoot := N.sdbRoot,
                         orphans := N.orphans.filter (fun x => x.parent ≠ b.id) }
      have C2 : Coh U g N2 chain := by
        refine ⟨C1, C.root, ?_⟩
        intro x hx
        have hx' := List.mem_filter.mp hx
        have hne : x.parent ≠ b.id := by simpa using hx'.2
        exact ⟨(C.orph x hx'.1).1, (C.orph x hx'.1).2.1, horph x hx'.1 hne⟩
      have hoid : o.id ≠ b.id := by
        intro e
        have : o = b := T.uid o b hoU hU e
        subst this
        exact T.not_self_parent hU hg hop
      have honew : getBlock N2.D o.id = none := by
        show getBlock (applyOps (sideUnit b).ops N.D) o.id = none
        rw [hgb, if_neg hoid]; exact C.orphan_new T ho
      have hopar : (getBlock N2.D o.parent).isSome = true := by
        show (getBlock (applyOps (sideUnit b).ops N.D) o.parent).isSome = true
        rw [hgb, if_pos hop]; rfl
      have hone : o.parent ≠ N2.best.id := by
        show o.parent ≠ N.best.id
        rw [hop]
        intro e
        have := C.d.inv.blk _ C.d.inv.best_mem
        rw [← e, hnew] at this; cases this
      have hlen : N2.orphans.length < fuel := by
        have := filter_lt ho hop
        show (N.orphans.filter (fun x => decide (x.parent ≠ b.id))).length < fuel
        omega
      obtain ⟨N', last, us', hrun, C', hb', hr', hD', hst', hnc', hleaf', hcr'⟩ :=
        ih N2 o (acc ++ [sideUnit b]) chain C2 hoU honew hopar hone hlen
      refine ⟨N', last, [sideUnit b] ++ us', ?_, C', hb', hr', ?_, hst', hnc', hleaf', ?_⟩
      · have : runLoop false (fuel + 1) N b acc = runLoop false fuel N2 o (acc ++ [sideUnit b]) := by
          simp [runLoop, addSide, hf, hono, N2]
        rw [this, hrun, List.append_assoc]
      · rw [hD', applyUnits_append, happ]
      · apply CrashOK.append hcr
        rw [happ]; exact hcr'

end Loop

/-- **One arrival, from any coherent node** (stored block: no-op; unknown parent: parked; otherwise the run loop
connects the block and the parked chain behind it on the tip, or stores them as side blocks and, if the last one
is above the best block, reorganises): `feed` succeeds, the node it returns is coherent, its store is the old
store plus the units it reports, and every prefix of those units is a state from which the restart — interrupted
any number of times — recovers to a coherent node whose chain is the chain before the arrival, the chain after
it, or one in between. -/
theorem feed_hist {U : Block → Prop} {g : Block} (T : Tree U g) {N : Node} {chain : List Block}
    (C : Coh U g N chain) {b : Block} (hU : U b) :
    ∃ chain', (feed N b).2.1 = .ok ∧ Coh U g (feed N b).1 chain' ∧
      (feed N b).1.D = applyUnits (feed N b).2.2 N.D ∧
      CrashOK U g (Legit chain chain') N.D (feed N b).2.2 := by
  cases hst : getBlock N.D b.id with
  | some b' =>
    have hf : feed N b = (N, .ok, []) := by simp [feed, hst]
    rw [hf]
    exact ⟨chain, rfl, C, rfl, CrashOK.nil C.d (Or.inl rfl)⟩
  | none =>
    have hg := C.d.ne_g_of_new hst
    cases hpar : getBlock N.D b.parent with
    | none =>
      by_cases hany : N.orphans.any (fun o => o.parent = b.parent) = true
      · have hf : feed N b = (N, .ok, []) := by simp [feed, hst, hpar, hany]
        rw [hf]
        exact ⟨chain, rfl, C, rfl, CrashOK.nil C.d (Or.inl rfl)⟩
      · have hf : feed N b = ({ N with orphans := N.orphans ++ [b] }, .ok, []) := by simp [feed, hst, hpar, hany]
        rw [hf]
        refine ⟨chain, rfl, ⟨C.d, C.root, ?_⟩, rfl, CrashOK.nil C.d (Or.inl rfl)⟩
        intro o ho
        rcases List.mem_append.mp ho with h | h
        · exact C.orph o h
        · simp at h; subst h; exact ⟨hU, hg, hpar⟩
    | some p =>
      have hpar' : (getBlock N.D b.parent).isSome = true := by rw [hpar]; rfl
      by_cases him : isMainChain N b = true
      · have hp := (C.isMain_iff T hU hst).mp him
        obtain ⟨N', last, us, chain', hrun, C', hD', hpre, hcr⟩ :=
          runLoop_main T (N.orphans.length + 1) N b [] chain C hU hst hp (Nat.lt_succ_self _)
        have hf : feed N b = (N', .ok, us) := by simp [feed, hst, hpar, him, hrun]
        rw [hf]
        exact ⟨chain', rfl, C', hD', hcr.mono (fun c hc => Or.inr (Or.inr hc))⟩
      · have him' : isMainChain N b = false := by simpa using him
        have hne : b.parent ≠ N.best.id := fun e => him ((C.isMain_iff T hU hst).mpr e)
        obtain ⟨N', last, us, hrun, C', hb', hr', hD', hls, hlc, hleaf, hcr⟩ :=
          runLoop_side T (N.orphans.length + 1) N b [] chain C hU hst hpar' hne (Nat.lt_succ_self _)
        by_cases hlt : N'.best.no < last.no
        · obtain ⟨pre, old, new, start, hch, F, hcr2, CF, hblk⟩ := C'.d.crashOK_reorg T hls hlc hlt hleaf
          have hre : reorg N' last = some ({ N' with
                D := applyUnits (rollforwardUnits new ++ swapUnits (markerOf start N'.best last) old new last false) N'.D,
                best := last, sdbRoot := last.root },
              rollforwardUnits new ++ swapUnits (markerOf start N'.best last) old new last false) := by
            simp [reorg, F.gather_eq]
          have hf : feed N b = ({ N' with
                D := applyUnits (rollforwardUnits new ++ swapUnits (markerOf start N'.best last) old new last false) N'.D,
                best := last, sdbRoot := last.root }, .ok,
              us ++ (rollforwardUnits new ++ swapUnits (markerOf start N'.best last) old new last false)) := by
            simp [feed, hst, hpar, him', hrun, hlt, hre]
          rw [hf]
          refine ⟨pre ++ new.reverse, rfl, ⟨CF, rfl, ?_⟩, ?_, ?_⟩
          · intro o ho
            obtain ⟨h1, h2, h3⟩ := C'.orph o ho
            refine ⟨h1, h2, ?_⟩
            show getBlock (applyUnits _ N'.D) o.parent = none
            rw [hblk]; exact h3
          · simp only [applyUnits_append, hD']
          · apply CrashOK.append (hcr.mono (fun c hc => Or.inl hc))
            rw [← hD']
            apply hcr2.mono
            rintro c (rfl | rfl)
            · exact Or.inl rfl
            · exact Or.inr (Or.inl rfl)
        · have hf : feed N b = (N', .ok, us) := by simp [feed, hst, hpar, him', hrun, hlt]
          rw [hf]
          exact ⟨chain, rfl, C', hD', hcr.mono (fun c hc => Or.inl hc)⟩

/-! ### Histories -/

/-- One event in the life of a node: a block arrives and is processed to the end (`feed`); or the process dies
after `k` of the durable write units that this processing issues, dies again after `j` units of each of the
following restarts (`js`), and a last restart runs to completion (`crash`). -/
inductive Ev where
  | feed (b : Block)
  | crash (b : Block) (k : Nat) (js : List Nat)

def Ev.block : Ev → Block
  | .feed b => b
  | .crash b _ _ => b

def stepEv (N : Node) : Ev → Except Err Node
  | .feed b => .ok (feed N b).1
  | .crash b k js => restartChain (crash (feed N b).2.2 k N.D) js

def runEvs : Node → List Ev → Except Err Node
  | N, [] => .ok N
  | N, e :: es =>
    match stepEv N e with
    | .error x => .error x
    | .ok N' => runEvs N' es

theorem getBlock_genesis (g : Block) (i : Nat) : getBlock (genesisStore g) i = if i = g.id then some g else none := by
  by_cases h : i = g.id
  · subst h; simp [getBlock, genesisStore, applyOps, W.apply, W.key, W.val]
  · simp [getBlock, genesisStore, applyOps, W.apply, W.key, h]

/-- The node on the genesis store is coherent. -/
theorem coh_genesis {U : Block → Prop} {g : Block} (T : Tree U g) : Coh U g ⟨genesisStore g, g, g.root, []⟩ [g] := by
  have key : ∀ i b, getBlock (genesisStore g) i = some b → b = g := by
    intro i b h
    rw [getBlock_genesis] at h
    split at h
    · cases h; rfl
    · cases h
  refine ⟨⟨inv_genesis g T.gno T.gtx, rfl, ?_, ?_, ?_⟩, rfl, by simp⟩
  · intro i b h; rw [key i b h]; exact T.gU
  · intro i b h hg; exact absurd (key i b h) hg
  · intro i b h hg; exact absurd (key i b h) hg

/-- **One event.** From a coherent node, an arrival of a universe block — completed, or interrupted by a crash after
any number of its units and by any number of crashes inside the restarts that follow — ends in a coherent node;
its chain is the chain before the arrival, the chain `post` of the uninterrupted arrival, or one in between. -/
theorem step_hist {U : Block → Prop} {g : Block} (T : Tree U g) {N : Node} {chain : List Block}
    (C : Coh U g N chain) (e : Ev) (hU : U e.block) :
    ∃ N' chain' post, stepEv N e = .ok N' ∧ Coh U g N' chain' ∧ Coh U g (feed N e.block).1 post ∧
      Legit chain post chain' := by
  cases e with
  | feed b =>
    obtain ⟨post, _, Cp, _, _⟩ := feed_hist T C hU
    exact ⟨_, post, post, rfl, Cp, Cp, Or.inr (Or.inl rfl)⟩
  | crash b k js =>
    obtain ⟨post, _, Cp, _, hcr⟩ := feed_hist T C hU
    obtain ⟨N', chain', hr, C', hl, _⟩ := (hcr k).restartChain js
    exact ⟨N', chain', post, hr, C', Cp, hl⟩

/-- **Every history.** Any sequence of arrivals of universe blocks, crashes at any write-unit prefix of an arrival
and crashes at any unit prefix of the restarts, from any coherent node (in particular the genesis node,
`coh_genesis`): every restart succeeds and the node is coherent after every event. -/
theorem history_coherent {U : Block → Prop} {g : Block} (T : Tree U g) :
    ∀ (es : List Ev) (N : Node) (chain : List Block), Coh U g N chain → (∀ e ∈ es, U e.block) →
      ∃ N' chain', runEvs N es = .ok N' ∧ Coh U g N' chain'
  | [], N, chain, C, _ => ⟨N, chain, rfl, C⟩
  | e :: es, N, chain, C, hU => by
    obtain ⟨N1, c1, _, h1, C1, _, _⟩ := step_hist T C e (hU e (List.mem_cons_self ..))
    obtain ⟨N', c', h2, C'⟩ := history_coherent T es N1 c1 C1 (fun x hx => hU x (List.mem_cons_of_mem _ hx))
    exact ⟨N', c', by simp [runEvs, h1, h2], C'⟩

/-- The node after feeding a list of blocks, and the global sequence of durable write units of that run. -/
def feedAll : Node → List Block → Node
  | N, [] => N
  | N, b :: bs => feedAll (feed N b).1 bs

def journal : Node → List Block → List Unit
  | _, [] => []
  | N, b :: bs => (feed N b).2.2 ++ journal (feed N b).1 bs

/-- `c` is a chain the crash-free run of `bs` from `N` reaches or is about to reach: for some `i` it is the chain
before the `i`-th arrival, the chain after it, or (inside a run of parked orphans) one in between. -/
def Reached (U : Block → Prop) (g : Block) (N : Node) (bs : List Block) (c : List Block) : Prop :=
  ∃ i c0 c1, Coh U g (feedAll N (bs.take i)) c0 ∧ Coh U g (feedAll N (bs.take (i + 1))) c1 ∧ Legit c0 c1 c

/-- **Every prefix of the global sequence.** Feed any list of universe blocks to a coherent node and take the global
sequence of durable write units of that run (`journal`): the store left by *any* prefix of it is a state from
which the restart, interrupted any number of times, ends in a coherent node whose chain the crash-free run
reaches or is about to reach. -/
theorem journal_crashOK {U : Block → Prop} {g : Block} (T : Tree U g) :
    ∀ (bs : List Block) (N : Node) (chain : List Block), Coh U g N chain → (∀ b ∈ bs, U b) →
      CrashOK U g (Reached U g N bs) N.D (journal N bs) ∧ (feedAll N bs).D = applyUnits (journal N bs) N.D
  | [], N, chain, C, _ => by
    refine ⟨?_, rfl⟩
    exact CrashOK.nil C.d ⟨0, chain, chain, C, C, Or.inl rfl⟩
  | b :: bs, N, chain, C, hU => by
    obtain ⟨c1, _, C1, hD, hcr⟩ := feed_hist T C (hU b (List.mem_cons_self ..))
    obtain ⟨ih1, ih2⟩ := journal_crashOK T bs (feed N b).1 c1 C1 (fun x hx => hU x (List.mem_cons_of_mem _ hx))
    constructor
    · show CrashOK U g _ N.D ((feed N b).2.2 ++ journal (feed N b).1 bs)
      apply CrashOK.append
      · apply hcr.mono
        intro c hc
        exact ⟨0, chain, c1, C, C1, hc⟩
      · rw [← hD]
        apply ih1.mono
        rintro c ⟨i, c0, c1', h0, h1, hl⟩
        exact ⟨i + 1, c0, c1', h0, h1, hl⟩
    · show (feedAll (feed N b).1 bs).D = applyUnits ((feed N b).2.2 ++ journal (feed N b).1 bs) N.D
      rw [ih2, applyUnits_append, hD]

/-! ### Numbers on an ascending chain are distinct (used to instantiate `Tree.txu` on concrete universes) -/

theorem Asc.tail {a : Block} {l : List Block} (h : Asc (a :: l)) : Asc l := by
  cases l with
  | nil => trivial
  | cons b r => exact h.2.2

theorem Asc.head_lt : ∀ {l : List Block} {a c : Block}, Asc (a :: l) → c ∈ l → a.no < c.no
  | [], _, _, _, h => by cases h
  | b :: r, a, c, h, hc => by
    obtain ⟨_, h2, h3⟩ := h
    rcases List.mem_cons.mp hc with rfl | hc
    · omega
    · have := Asc.head_lt h3 hc; omega

theorem Asc.no_inj : ∀ {l : List Block} {b c : Block}, Asc l → b ∈ l → c ∈ l → b.no = c.no → b = c
  | [], _, _, _, hb, _, _ => by cases hb
  | a :: r, b, c, h, hb, hc, e => by
    rcases List.mem_cons.mp hb with rfl | hb' <;> rcases List.mem_cons.mp hc with rfl | hc'
    · rfl
    · have := Asc.head_lt h hc'; omega
    · have := Asc.head_lt h hb'; omega
    · exact Asc.no_inj h.tail hb' hc' e

/-! ### The state-marker guard of the recovery (`executeBlockReco`)

For *every* store — no coherence assumed, in particular a state DB that has lost writes the chain DB still has —
a restart that finds a reorganisation marker and succeeds ends at a best block whose state root carries its
completion marker. This is what the `HasMarker` check of `executeBlockReco` (model: `recoRollforward`) is for; under
the property's quantifier (prefixes of the global sequence) the check never fails, so only this statement needs it. -/

theorem recoRollforward_mem {D : Store} : ∀ {l : List Block}, recoRollforward D l = true → ∀ b ∈ l, hasStMark D b.root = true
  | [], _, b, hb => by cases hb
  | a :: r, h, b, hb => by
    simp only [recoRollforward, Bool.and_eq_true] at h
    rcases List.mem_cons.mp hb with rfl | hb
    · exact h.1
    · exact recoRollforward_mem h.2 b hb

theorem walkTo_head {D : Store} {startNo fuel : Nat} {top : Block} {l : List Block}
    (h : walkTo D startNo (fuel + 1) top = some l) (hgt : top.no > startNo) : top ∈ l := by
  simp only [walkTo, hgt, if_true] at h
  split at h
  · cases h
  · rename_i p _
    cases hw : walkTo D startNo fuel p with
    | none => rw [hw] at h; cases h
    | some r => rw [hw] at h; simp at h; subst h; simp

theorem allOps_swapUnits (m : Marker) (old new : List Block) (top : Block) (skip : Bool) :
    allOps (swapUnits m old new top skip) =
      [.set .marker (.mk m)] ++ old.flatMap (fun b => [.del (.rcpt b.id b.no), .del (.iops b.no)]) ++
      new.reverse.flatMap txIdxOps ++ (oldOnlyTxs old new).map (fun t => .del (.tx t)) ++
      (if skip then [] else (mappingUnit new top).ops) ++ [.del .marker] := by
  have : ∀ l : List Block, List.flatMap (fun x : Unit => x.ops)
      (List.map (fun b => ({ db := DB.C, kind := Kind.tx, ops := txIdxOps b } : Unit)) l) = l.flatMap txIdxOps := by
    intro l; induction l with
    | nil => rfl
    | cons a r ih => simp [List.flatMap_cons, ih]
  cases skip <;> simp [swapUnits, allOps, List.flatMap_append, -List.map_reverse, this]

theorem swapUnits_stMark (m : Marker) (old new : List Block) (top : Block) (skip : Bool) (r : Nat) :
    ∀ w ∈ allOps (swapUnits m old new top skip), w.key ≠ .stMark r := by
  intro w hw
  rw [allOps_swapUnits] at hw
  simp only [List.mem_append, List.mem_cons, List.not_mem_nil, or_false, List.mem_flatMap, List.mem_map, List.mem_reverse] at hw
  rcases hw with ((((rfl | ⟨b, _, hw⟩) | ⟨b, _, hw⟩) | ⟨t, _, rfl⟩) | hw) | rfl
  · simp [W.key]
  · rcases hw with rfl | rfl <;> simp [W.key]
  · obtain ⟨j, t, _, rfl⟩ := mem_txIdxOps.mp hw
    simp [W.key]
  · simp [W.key]
  · cases skip with
    | true => simp at hw
    | false =>
      simp only [Bool.false_eq_true, if_false, mappingUnit, List.mem_append, List.mem_map, List.mem_reverse,
        List.mem_cons, List.not_mem_nil, or_false] at hw
      rcases hw with ⟨b, _, rfl⟩ | rfl | rfl <;> simp [W.key]
  · simp [W.key]

theorem oldMappingOps_keys {D : Store} {startNo : Nat} : ∀ {fuel : Nat} {b : Block} {ws : List W},
    oldMappingOps D startNo fuel b = .ok ws → ∀ w ∈ ws, ∃ n i, w = .set (.byNo n) (.id i)
  | 0, b, ws, h, w, hw => by
    simp only [oldMappingOps] at h
    split at h
    · cases h
    · cases h; cases hw
  | fuel + 1, b, ws, h, w, hw => by
    simp only [oldMappingOps] at h
    split at h
    · split at h
      · cases h
      · rename_i p _
        split at h
        · cases h
        · split at h
          · cases h
          · rename_i ws' hws
            cases h
            rcases List.mem_cons.mp hw with rfl | hw
            · exact ⟨_, _, rfl⟩
            · exact oldMappingOps_keys hws w hw
    · cases h; cases hw

/-- `Recover` with a marker present, on any node: success implies the new best block's state is complete. -/
theorem recover_state_complete {N N' : Node} {us : List Unit} (h : recover N = .ok (N', us))
    (hm : getMarker N.D ≠ none) : hasStMark N'.D N'.best.root = true ∧ N'.sdbRoot = N'.best.root := by
  unfold recover at h
  split at h
  · rename_i hn; exact absurd hn hm
  · rename_i m _
    split at h
    · cases h
    · split at h
      · cases h
      · rename_i top _
        split at h
        · rename_i start bb _ _
          split at h
          · cases h
          · rename_i hnum
            split at h
            · rename_i old new hwo hwn
              split at h
              · cases h
              · rename_i hrf
                have hrf' : recoRollforward N.D new.reverse = true := by simpa using hrf
                simp only [Except.ok.injEq, Prod.mk.injEq] at h
                obtain ⟨h1, _⟩ := h
                subst h1
                refine ⟨?_, rfl⟩
                have htop : top ∈ new := walkTo_head hwn (by omega)
                have := recoRollforward_mem hrf' top (List.mem_reverse.mpr htop)
                show hasStMark (applyUnits _ N.D) top.root = true
                unfold hasStMark at this ⊢
                rw [applyUnits_eq, get_untouched N.D (swapUnits_stMark _ _ _ _ _ _)]
                exact this
            · cases h
        · cases h

theorem initChainDB_marker {D D1 : Store} {best : Block} {us : List Unit} (h : initChainDB D = .ok (D1, best, us)) :
    getMarker D1 = getMarker D := by
  unfold initChainDB at h
  split at h
  · cases h
  · split at h
    · cases h
    · split at h
      · cases h; rfl
      · split at h
        · cases h; rfl
        · split at h
          · cases h
          · rename_i bb u hru
            cases h
            unfold recoverMappingUnit at hru
            split at hru
            next => cases hru
            next bb' hbb =>
              split at hru
              next => cases hru
              next sets hsets =>
                cases hru
                unfold getMarker
                rw [get_untouched]
                intro w hw
                simp only [List.mem_append, List.mem_map, List.mem_cons, List.not_mem_nil, or_false] at hw
                rcases hw with (⟨n, _, rfl⟩ | hw) | rfl
                · simp [W.key]
                · obtain ⟨n, i, rfl⟩ := oldMappingOps_keys hsets w hw
                  simp [W.key]
                · simp [W.key]

/-- **Fail-stop under a lagging state DB.** For every store whatsoever that holds a reorganisation marker: if the
restart succeeds, the best block it ends at has its state completion marker and the state DB is opened at its
root. (So a store whose state DB lost the roll-forward's commits while the chain DB kept the marker makes the
restart fail — `Err.noStateMarker` — rather than come up on a state that is not there.) -/
theorem restart_state_complete {E : Store} {N : Node} {us1 us2 : List Unit} (h : restart E = .ok (N, us1, us2))
    (hm : getMarker E ≠ none) : hasStMark N.D N.best.root = true ∧ N.sdbRoot = N.best.root := by
  unfold restart at h
  split at h
  · cases h
  · rename_i D1 best us1' hinit
    split at h
    · cases h
    · rename_i N' us2' hrec
      cases h
      apply recover_state_complete hrec
      show getMarker D1 ≠ none
      rw [initChainDB_marker hinit]; exact hm

end Aergo.Crash
