import Aergo.Lemmas.Crash

/-!
C06, the reorganisation window: every durable state between the marker write and the marker deletion
(`Mid`), and what the restart path does on it.
-/

namespace Aergo.Crash

theorem applyOps_absorb_key (ws : List W) (D E : Store) (k : Key)
    (h : E k = D k ∨ E k = applyOps ws D k) : applyOps ws E k = applyOps ws D k := by
  rw [applyOps_apply, applyOps_apply]
  cases hw : writes ws k with
  | some v => rfl
  | none =>
    rw [applyOps_apply, hw] at h
    simpa using h

theorem getLatest_raw {D : Store} {n : Nat} (h : getLatest D = some n) : D .latest = some (.num n) := by
  unfold getLatest at h
  split at h <;> simp_all

theorem getByNo_raw {D : Store} {n i : Nat} (h : getByNo D n = some i) : D (.byNo n) = some (.id i) := by
  unfold getByNo at h
  split at h <;> simp_all

theorem DescFrom.no_surj {start : Block} : ∀ {l : List Block} {n : Nat}, DescFrom start l →
    start.no < n → n ≤ start.no + l.length → ∃ b ∈ l, b.no = n
  | [], n, _, h1, h2 => by simp at h2; omega
  | b :: r, n, h, h1, h2 => by
    have hb := h.head_no
    by_cases e : n = b.no
    · exact ⟨b, List.mem_cons_self .., e.symm⟩
    · simp only [List.length_cons] at h2
      obtain ⟨c, hc, hn⟩ := DescFrom.no_surj h.tail h1 (by omega)
      exact ⟨c, List.mem_cons_of_mem _ hc, hn⟩

theorem recoRollforward_true {D : Store} : ∀ {l : List Block}, (∀ b ∈ l, hasStMark D b.root = true) → recoRollforward D l = true
  | [], _ => rfl
  | b :: r, h => by
    simp [recoRollforward, h b (List.mem_cons_self ..), recoRollforward_true (fun x hx => h x (List.mem_cons_of_mem _ hx))]

/-- A durable state of the swap window relative to `D0` (the store when the marker is written): the marker
is there; every other key holds its value before the swap or its value after it; the height index and the
latest key have moved together or not at all (they are written by one bulk). -/
structure Mid (D0 : Store) (m : Marker) (old new : List Block) (top : Block) (E : Store) : Prop where
  marker : E .marker = some (.mk m)
  either : ∀ k, k ≠ .marker → E k = D0 k ∨ E k = applyOps (midOps old new top) D0 k
  atomic : ((∀ n, E (.byNo n) = D0 (.byNo n)) ∧ E .latest = D0 .latest) ∨
           ((∀ n, E (.byNo n) = applyOps (midOps old new top) D0 (.byNo n)) ∧
            E .latest = applyOps (midOps old new top) D0 .latest)

/-- The height index and the latest key are those of the old branch. -/
def OldMap (D0 E : Store) : Prop := (∀ n, E (.byNo n) = D0 (.byNo n)) ∧ E .latest = D0 .latest

namespace Ready
variable {D0 : Store} {pre old new : List Block} {start best top : Block}

theorem mid_cons (R : Ready D0 pre old new start best top) (E : Store) :
    applyOps (midOps old new top) E .cons = some (.id top.id) := by
  apply get_written
  · exact ⟨_, mem_midOps.mpr (Or.inr (Or.inr (Or.inr (Or.inr (Or.inr rfl))))), rfl⟩
  · intro w hw hk
    rcases mem_midOps.mp hw with ⟨b, _, rfl | rfl⟩ | ⟨b, _, j, t, _, rfl⟩ | ⟨t, _, rfl⟩ | ⟨b, _, rfl⟩ | rfl | rfl <;>
      simp_all [W.key, W.val]

theorem mid_rcpt_old (R : Ready D0 pre old new start best top) (E : Store) {o : Block} (ho : o ∈ old) :
    applyOps (midOps old new top) E (.rcpt o.id o.no) = none := by
  apply get_written
  · exact ⟨_, mem_midOps.mpr (Or.inl ⟨o, ho, Or.inl rfl⟩), rfl⟩
  · intro w hw hk
    rcases mem_midOps.mp hw with ⟨b, _, rfl | rfl⟩ | ⟨b, _, j, t, _, rfl⟩ | ⟨t, _, rfl⟩ | ⟨b, _, rfl⟩ | rfl | rfl <;>
      simp_all [W.key, W.val]

theorem mid_iops_old (R : Ready D0 pre old new start best top) (E : Store) {o : Block} (ho : o ∈ old) :
    applyOps (midOps old new top) E (.iops o.no) = none := by
  apply get_written
  · exact ⟨_, mem_midOps.mpr (Or.inl ⟨o, ho, Or.inr rfl⟩), rfl⟩
  · intro w hw hk
    rcases mem_midOps.mp hw with ⟨b, _, rfl | rfl⟩ | ⟨b, _, j, t, _, rfl⟩ | ⟨t, _, rfl⟩ | ⟨b, _, rfl⟩ | rfl | rfl <;>
      simp_all [W.key, W.val]

/-- Every write of the swap carries the value its key has at the end of the swap. -/
theorem mid_consistent (R : Ready D0 pre old new start best top) (E : Store) {w : W} (hw : w ∈ midOps old new top) :
    applyOps (midOps old new top) E w.key = w.val := by
  rcases mem_midOps.mp hw with ⟨b, hb, rfl | rfl⟩ | ⟨b, hb, j, t, hj, rfl⟩ | ⟨t, ⟨ho, hn⟩, rfl⟩ | ⟨b, hb, rfl⟩ | rfl | rfl
  · exact R.mid_rcpt_old E hb
  · exact R.mid_iops_old E hb
  · exact R.mid_tx_new E hb hj
  · exact R.mid_tx_del E ho hn
  · exact R.mid_byNo_new E hb
  · exact R.mid_latest E
  · exact R.mid_cons E

/-- The swap does not change the height index outside the heights of the new branch, in particular where
both branches… nowhere: the new heights are exactly `(start.no, top.no]`. -/
theorem mid_byNo_outside (R : Ready D0 pre old new start best top) (E : Store) {n : Nat}
    (h : n ≤ start.no ∨ top.no < n) : applyOps (midOps old new top) E (.byNo n) = E (.byNo n) := by
  apply R.mid_byNo_other
  intro b hb
  have := R.newDesc.no_bounds hb
  have := R.top_no
  omega

/-- The bulk `RecoverChainMapping` writes when the height index is the new branch's. -/
def recUnit (old : List Block) (best top : Block) : Unit :=
  ⟨.C, .bulk, (downFrom top.no best.no).map (fun n => .del (.byNo n)) ++
              old.map (fun b => .set (.byNo b.no) (.id b.id)) ++ [.set .latest (.num best.no)]⟩

theorem mem_recUnit {w : W} : w ∈ (recUnit old best top).ops ↔
    (∃ n, best.no < n ∧ n ≤ top.no ∧ w = .del (.byNo n)) ∨ (∃ o ∈ old, w = .set (.byNo o.no) (.id o.id)) ∨
    w = .set .latest (.num best.no) := by
  simp only [recUnit, List.mem_append, List.mem_map, mem_downFrom, List.mem_cons, List.not_mem_nil, or_false]
  constructor
  · rintro ((⟨n, ⟨h1, h2⟩, rfl⟩ | ⟨o, ho, rfl⟩) | rfl)
    · exact Or.inl ⟨n, h1, h2, rfl⟩
    · exact Or.inr (Or.inl ⟨o, ho, rfl⟩)
    · exact Or.inr (Or.inr rfl)
  · rintro (⟨n, h1, h2, rfl⟩ | ⟨o, ho, rfl⟩ | rfl)
    · exact Or.inl (Or.inl ⟨n, ⟨h1, h2⟩, rfl⟩)
    · exact Or.inl (Or.inr ⟨o, ho, rfl⟩)
    · exact Or.inr rfl

theorem rec_untouched (E : Store) {k : Key} (h1 : ∀ n, k ≠ .byNo n) (h2 : k ≠ .latest) :
    applyOps (recUnit old best top).ops E k = E k := by
  apply get_untouched
  intro w hw
  rcases mem_recUnit.mp hw with ⟨n, _, _, rfl⟩ | ⟨o, _, rfl⟩ | rfl
  · exact fun e => h1 _ e.symm
  · exact fun e => h1 _ e.symm
  · exact fun e => h2 e.symm

/-- After the recovery bulk the height index and the latest key are exactly those of `D0`. -/
theorem rec_oldMap (R : Ready D0 pre old new start best top) (E : Store)
    (hnew : ∀ n, E (.byNo n) = applyOps (midOps old new top) D0 (.byNo n)) :
    OldMap D0 (applyOps (recUnit old best top).ops E) := by
  have hbn := R.best_no
  have htn := R.top_no
  have hlong := R.longer
  constructor
  · intro n
    by_cases h1 : best.no < n ∧ n ≤ top.no
    · -- deleted; D0 has nothing above best
      rw [R.inv.above n h1.1]
      apply get_written
      · exact ⟨_, mem_recUnit.mpr (Or.inl ⟨n, h1.1, h1.2, rfl⟩), rfl⟩
      · intro w hw hk
        rcases mem_recUnit.mp hw with ⟨n', _, _, rfl⟩ | ⟨o, ho, rfl⟩ | rfl
        · rfl
        · simp [W.key] at hk
          have := (R.oldDesc.no_bounds ho).2
          omega
        · simp [W.key] at hk
    · by_cases h2 : start.no < n ∧ n ≤ best.no
      · obtain ⟨o, ho, hno⟩ := R.oldDesc.no_surj h2.1 (by omega)
        subst hno
        rw [getByNo_raw (R.inv.idx o (List.mem_append_right _ (List.mem_reverse.mpr ho)))]
        apply get_written
        · exact ⟨_, mem_recUnit.mpr (Or.inr (Or.inl ⟨o, ho, rfl⟩)), rfl⟩
        · intro w hw hk
          rcases mem_recUnit.mp hw with ⟨n', h3, _, rfl⟩ | ⟨o', ho', rfl⟩ | rfl
          · simp [W.key] at hk; omega
          · simp [W.key] at hk
            rw [R.oldDesc.no_inj ho' ho hk]; rfl
          · simp [W.key] at hk
      · have hout : n ≤ start.no ∨ top.no < n := by omega
        rw [get_untouched, hnew n, R.mid_byNo_outside D0 hout]
        intro w hw
        rcases mem_recUnit.mp hw with ⟨n', h3, h4, rfl⟩ | ⟨o', ho', rfl⟩ | rfl
        · simp [W.key]; omega
        · simp [W.key]
          have := R.oldDesc.no_bounds ho'
          omega
        · simp [W.key]
  · rw [getLatest_raw R.inv.latest]
    apply get_written
    · exact ⟨_, mem_recUnit.mpr (Or.inr (Or.inr rfl)), rfl⟩
    · intro w hw hk
      rcases mem_recUnit.mp hw with ⟨n', _, _, rfl⟩ | ⟨o, ho, rfl⟩ | rfl <;> simp_all [W.key, W.val]

end Ready

namespace Mid
variable {D0 : Store} {pre old new : List Block} {start best top : Block} {m : Marker} {E : Store}

theorem block (M : Mid D0 m old new top E) (R : Ready D0 pre old new start best top) (i : Nat) :
    E (.block i) = D0 (.block i) := by
  rcases M.either (.block i) (by simp) with h | h
  · exact h
  · rw [h, R.mid_block]

theorem stMark (M : Mid D0 m old new top E) (R : Ready D0 pre old new start best top) (r : Nat) :
    E (.stMark r) = D0 (.stMark r) := by
  rcases M.either (.stMark r) (by simp) with h | h
  · exact h
  · rw [h, R.mid_stMark]

theorem getBlock_eq (M : Mid D0 m old new top E) (R : Ready D0 pre old new start best top) (i : Nat) :
    getBlock E i = getBlock D0 i := by
  simp [getBlock, M.block R i]

/-- The recovery bulk keeps a window state inside the window and restores the old height index. -/
theorem after_rec (M : Mid D0 m old new top E) (R : Ready D0 pre old new start best top)
    (hnew : ∀ n, E (.byNo n) = applyOps (midOps old new top) D0 (.byNo n)) :
    Mid D0 m old new top (applyOps (Ready.recUnit old best top).ops E) ∧
    OldMap D0 (applyOps (Ready.recUnit old best top).ops E) := by
  have om := R.rec_oldMap E hnew
  refine ⟨⟨?_, ?_, Or.inl om⟩, om⟩
  · rw [Ready.rec_untouched E (by simp) (by simp)]; exact M.marker
  · intro k hk
    by_cases h1 : ∃ n, k = .byNo n
    · obtain ⟨n, rfl⟩ := h1; exact Or.inl (om.1 n)
    · by_cases h2 : k = .latest
      · subst h2; exact Or.inl om.2
      · rw [Ready.rec_untouched E (fun n e => h1 ⟨n, e⟩) h2]
        exact M.either k hk

/-- Replaying the complete swap (marker, swap writes, marker deletion) over any window state gives the
final store: the recovery's redo is idempotent. -/
theorem swap_all (M : Mid D0 m old new top E) :
    applyUnits (swapUnits m old new top false) E = finalStore D0 old new top := by
  funext k
  have e : allOps (swapUnits m old new top false) = [.set .marker (.mk m)] ++ (midOps old new top ++ [.del .marker]) := by
    simp [swapUnits_eq, allOps, midOps, markerSetUnit, markerDelUnit]
  rw [applyUnits_eq, e, applyOps_append]
  by_cases hk : k = .marker
  · subst hk
    rw [finalStore_marker]
    simp [applyOps_append, applyOps, W.apply, W.key, W.val]
  · rw [finalStore_other D0 old new top hk, applyOps_append]
    have h1 : ∀ X : Store, applyOps [W.del .marker] X k = X k := fun X => by simp [applyOps, W.apply, W.key, hk]
    rw [h1]
    apply applyOps_absorb_key
    have h2 : applyOps [W.set .marker (.mk m)] E k = E k := by simp [applyOps, W.apply, W.key, hk]
    rw [h2]
    exact M.either k hk

theorem midOps_key_ne_marker {old new : List Block} {top : Block} {w : W} (hw : w ∈ midOps old new top) : w.key ≠ .marker := by
  rcases mem_midOps.mp hw with ⟨b, _, rfl | rfl⟩ | ⟨b, _, j, t, _, rfl⟩ | ⟨t, _, rfl⟩ | ⟨b, _, rfl⟩ | rfl | rfl <;> simp [W.key]

/-- `ChainDB.Init` on a window state: the best block loaded is the old tip — directly, or after the
recovery bulk has rolled the height index back. -/
theorem init (M : Mid D0 m old new top E) (R : Ready D0 pre old new start best top) (hm : m = markerOf start best top) :
    ∃ us1 E1, initChainDB E = .ok (E1, best, us1) ∧ Mid D0 m old new top E1 ∧ OldMap D0 E1 ∧
      ((us1 = [] ∧ E1 = E) ∨ (us1 = [Ready.recUnit old best top] ∧ E1 = applyOps (Ready.recUnit old best top).ops E)) := by
  have hbest : best ∈ pre ++ old.reverse := R.inv.best_mem
  have hgm : getMarker E = some m := by simp [getMarker, M.marker]
  have hblkBest : getBlock E best.id = some best := by rw [M.getBlock_eq R]; exact R.inv.blk best hbest
  rcases M.atomic with h | h
  · refine ⟨[], E, ?_, M, h, Or.inl ⟨rfl, rfl⟩⟩
    have h1 : getLatest E = some best.no := by simp [getLatest, h.2, getLatest_raw R.inv.latest]
    have h2 : blockByNo E best.no = some best := by
      simp [blockByNo, getByNo, h.1, getByNo_raw (R.inv.idx best hbest), hblkBest]
    simp [initChainDB, h1, h2, hgm, hm, markerOf]
  · have h1 : getLatest E = some top.no := by simp [getLatest, h.2, R.mid_latest D0]
    have h2 : blockByNo E top.no = some top := by
      have : getBlock E top.id = some top := by rw [M.getBlock_eq R]; exact R.newStored top R.top_mem_new
      simp [blockByNo, getByNo, h.1, R.mid_byNo_new D0 R.top_mem_new, this]
    have hne : top.id ≠ best.id := R.newIds top R.top_mem_new best hbest
    obtain ⟨r, hr⟩ := R.old_eq
    have hstartE : getBlock E start.id = some start := by rw [M.getBlock_eq R]; exact R.start_stored
    have holdE : ∀ b ∈ old, getBlock E b.id = some b := fun b hb => by rw [M.getBlock_eq R]; exact R.old_stored hb
    have hops := oldMappingOps_desc hstartE R.oldDesc holdE (best.no + 1) (by have := R.best_no; omega)
    have hhd : old.headD start = best := by simp [hr]
    rw [hhd] at hops
    have hru : recoverMappingUnit E m = .ok (best, Ready.recUnit old best top) := by
      simp [recoverMappingUnit, hm, markerOf, hblkBest, hops, Ready.recUnit]
    obtain ⟨hM, hO⟩ := M.after_rec R h.1
    refine ⟨[Ready.recUnit old best top], _, ?_, hM, hO, Or.inr ⟨rfl, rfl⟩⟩
    have hne' : ¬ top.id = m.best := by rw [hm]; exact hne
    simp [initChainDB, h1, h2, hgm, hne', hru]

/-- `ChainService.Recover` on a window state whose height index is the old branch's: the swap is redone in
full and ends in the final store, best block = new top, state root = the new top's. -/
theorem recover_old (M : Mid D0 m old new top E) (R : Ready D0 pre old new start best top)
    (hm : m = markerOf start best top) :
    recover ⟨E, best, best.root, []⟩ =
      .ok (⟨finalStore D0 old new top, top, top.root, []⟩, swapUnits m old new top false) := by
  have hbest : best ∈ pre ++ old.reverse := R.inv.best_mem
  have hgm : getMarker E = some m := by simp [getMarker, M.marker]
  have hb : getBlock E best.id = some best := by rw [M.getBlock_eq R]; exact R.inv.blk best hbest
  have ht : getBlock E top.id = some top := by rw [M.getBlock_eq R]; exact R.newStored top R.top_mem_new
  have hs : getBlock E start.id = some start := by rw [M.getBlock_eq R]; exact R.start_stored
  have holdE : ∀ b ∈ old, getBlock E b.id = some b := fun b hb => by rw [M.getBlock_eq R]; exact R.old_stored hb
  have hnewE : ∀ b ∈ new, getBlock E b.id = some b := fun b hb => by rw [M.getBlock_eq R]; exact R.newStored b hb
  obtain ⟨r, hr⟩ := R.old_eq
  obtain ⟨r', hr'⟩ := R.new_eq
  have hbn := R.best_no
  have htn := R.top_no
  have hlong := R.longer
  have hol : 0 < old.length := by simp [hr]
  have w1 := walkTo_desc hs R.oldDesc holdE (best.no + 1) (by omega)
  have w2 := walkTo_desc hs R.newDesc hnewE (top.no + 1) (by omega)
  have e1 : old.headD start = best := by simp [hr]
  have e2 : new.headD start = top := by simp [hr']
  rw [e1] at w1
  rw [e2] at w2
  have hrf : recoRollforward E new.reverse = true :=
    recoRollforward_true (fun b hb => by
      have := R.newState b (List.mem_reverse.mp hb)
      simpa [hasStMark, M.stMark R] using this)
  have hne : (best.id == top.id) = false := by
    have : top.id ≠ best.id := R.newIds top R.top_mem_new best hbest
    simp [Ne.symm this]
  have hnum : ¬ (best.no ≥ top.no ∨ start.no ≥ best.no ∨ start.no ≥ top.no) := by omega
  have hsw := M.swap_all
  subst hm
  simp only [recover, hgm, markerOf, ne_eq, not_true_eq_false, if_false, ht, hs, hb, hnum, w1, w2, hrf, hne,
    Bool.not_true, Bool.false_eq_true]
  simp only [markerOf] at hsw
  rw [hsw]

/-- Window states are closed under further progress of the swap: from a window state with the old height
index, any number of whole units of a (re)started swap short of the marker deletion stays in the window. -/
theorem progress_of (R : Ready D0 pre old new start best top)
    (hE : ∀ k, k ≠ .marker → E k = D0 k ∨ E k = applyOps (midOps old new top) D0 k) (ho : OldMap D0 E)
    (j : Nat) : Mid D0 m old new top (applyUnits (markerSetUnit m :: (midUnits old new top).take j) E) := by
  let X := applyOps [W.set .marker (.mk m)] E
  have hX : ∀ k, k ≠ .marker → X k = E k := fun k hk => by simp [X, applyOps, W.apply, W.key, hk]
  have hXm : X .marker = some (.mk m) := by simp [X, applyOps, W.apply, W.key, W.val]
  let sub := allOps ((midUnits old new top).take j)
  have hres : applyUnits (markerSetUnit m :: (midUnits old new top).take j) E = applyOps sub X := by
    show applyUnits ((midUnits old new top).take j) (applyOps (markerSetUnit m).ops E) = _
    rw [applyUnits_eq]
    rfl
  rw [hres]
  have hsub : ∀ w ∈ sub, w ∈ midOps old new top := fun w hw => mem_allOps_take hw
  have either : ∀ k, k ≠ .marker → applyOps sub X k = D0 k ∨ applyOps sub X k = applyOps (midOps old new top) D0 k := by
    intro k hk
    rw [applyOps_apply]
    cases hw : writes sub k with
    | none => simp only [Option.getD_none]; rw [hX k hk]; exact hE k hk
    | some v =>
      obtain ⟨w, hw1, hw2, hw3⟩ := writes_some_mem hw
      right
      have := R.mid_consistent D0 (hsub w hw1)
      rw [hw2, hw3] at this
      simp [this]
  refine ⟨?_, either, ?_⟩
  · rw [get_untouched X (fun w hw => midOps_key_ne_marker (hsub w hw))]; exact hXm
  · -- the mapping unit is the last one: it is in the prefix as a whole or not at all
    have hsplit : midUnits old new top =
        ([⟨.C, .tx, old.flatMap (fun b => [.del (.rcpt b.id b.no), .del (.iops b.no)])⟩] ++
          new.reverse.map (fun b => ⟨.C, .tx, txIdxOps b⟩) ++
          [⟨.C, .bulk, (oldOnlyTxs old new).map (fun t => .del (.tx t))⟩]) ++ [mappingUnit new top] := rfl
    generalize hA : ([⟨.C, .tx, old.flatMap (fun b => [.del (.rcpt b.id b.no), .del (.iops b.no)])⟩] ++
          new.reverse.map (fun b => ⟨.C, .tx, txIdxOps b⟩) ++
          [⟨.C, .bulk, (oldOnlyTxs old new).map (fun t => .del (.tx t))⟩] : List Unit) = midA at hsplit
    have hAkeys : ∀ w ∈ allOps midA, (∀ n, w.key ≠ .byNo n) ∧ w.key ≠ .latest := by
      intro w hw
      subst hA
      simp only [allOps, List.flatMap_append, List.flatMap_cons, List.flatMap_nil, List.append_nil, List.mem_append,
        List.mem_flatMap, List.mem_map, List.flatMap_map, List.mem_reverse, mem_txIdxOps, List.mem_cons,
        List.not_mem_nil, or_false] at hw
      rcases hw with (⟨b, _, rfl | rfl⟩ | ⟨b, _, j, t, _, rfl⟩) | ⟨t, _, rfl⟩ <;> simp [W.key]
    by_cases hj : j ≤ midA.length
    · left
      have hsubA : ∀ w ∈ sub, w ∈ allOps midA := by
        intro w hw
        have : (midUnits old new top).take j = midA.take j := by
          rw [hsplit]; exact List.take_append_of_le_length hj
        simp only [sub, this] at hw
        exact mem_allOps_take hw
      constructor
      · intro n
        rw [get_untouched X (fun w hw => (hAkeys w (hsubA w hw)).1 n), hX _ (by simp)]
        exact ho.1 n
      · rw [get_untouched X (fun w hw => (hAkeys w (hsubA w hw)).2), hX _ (by simp)]
        exact ho.2
    · right
      have hall : sub = midOps old new top := by
        have : (midUnits old new top).take j = midUnits old new top := by
          apply List.take_of_length_le
          rw [hsplit]; simp; omega
        simp [sub, this, midOps]
      rw [hall]
      constructor
      · intro n
        apply applyOps_absorb_key
        left; rw [hX _ (by simp)]; exact ho.1 n
      · apply applyOps_absorb_key
        left; rw [hX _ (by simp)]; exact ho.2

theorem progress (M : Mid D0 m old new top E) (R : Ready D0 pre old new start best top) (ho : OldMap D0 E)
    (j : Nat) : Mid D0 m old new top (applyUnits (markerSetUnit m :: (midUnits old new top).take j) E) :=
  progress_of R M.either ho j

end Mid

/-! ### From the start of a reorganisation to the marker write -/

/-- What the restart reports: the error, if any. -/
def bootErr (D : Store) : Option Err :=
  match restart D with
  | .error e => some e
  | .ok _ => none

theorem writes_ne_none {ws : List W} {k : Key} (h : ∃ w ∈ ws, w.key = k) : writes ws k ≠ none := by
  induction ws with
  | nil => obtain ⟨w, hw, _⟩ := h; cases hw
  | cons w ws ih =>
    rw [writes_cons]
    cases hws : writes ws k with
    | some v => simp
    | none =>
      obtain ⟨x, hx, hk⟩ := h
      rcases List.mem_cons.mp hx with rfl | hx
      · simp [hk]
      · exact absurd hws (ih ⟨x, hx, hk⟩)

theorem harmless_isSome {ws : List W} (D : Store) {k : Key} (h : ∀ w ∈ ws, Harmless w) (hex : ∃ w ∈ ws, w.key = k) :
    (applyOps ws D k).isSome = true := by
  rw [applyOps_apply]
  cases hw : writes ws k with
  | none => exact absurd hw (writes_ne_none hex)
  | some v =>
    obtain ⟨w, hw1, _, hw3⟩ := writes_some_mem hw
    have := h w hw1
    cases w with
    | del k' => exact absurd this (by simp [Harmless])
    | set k' v' => simp [W.val] at hw3; subst hw3; rfl

theorem harmless_other {ws : List W} (D : Store) {k : Key} (h : ∀ w ∈ ws, Harmless w)
    (h1 : ∀ r, k ≠ .stData r) (h2 : ∀ r, k ≠ .stMark r) (h3 : ∀ i n, k ≠ .rcpt i n) : applyOps ws D k = D k := by
  apply get_untouched
  intro w hw
  have := h w hw
  cases w with
  | del k' => exact absurd this (by simp [Harmless])
  | set k' v' =>
    cases k' <;> simp [Harmless] at this
    · exact fun e => h3 _ _ e.symm
    · exact fun e => h1 _ e.symm
    · exact fun e => h2 _ e.symm

theorem harmless_rollforward (new : List Block) : ∀ w ∈ allOps (rollforwardUnits new), Harmless w := by
  intro w hw
  simp only [allOps, rollforwardUnits, List.mem_flatMap, List.mem_reverse] at hw
  obtain ⟨u, ⟨b, _, hu⟩, hw⟩ := hw
  exact harmless_execUnits b w (by simp only [allOps, List.mem_flatMap]; exact ⟨u, hu, hw⟩)

/-! ### Linear connection and side blocks -/

theorem inv_genesis (g : Block) (hno : g.no = 0) (htx : g.txs = []) : Inv (genesisStore g) [g] g := by
  have hs : ∀ k, genesisStore g k =
      applyOps [.set (.block g.id) (.blk g), .set .latest (.num g.no), .set (.byNo g.no) (.id g.id),
            .set (.stData g.root) .unit, .set (.stMark g.root) .unit] (fun _ => none) k := fun _ => rfl
  refine {
    last := rfl, gen := by intro x hx; simp at hx; subst hx; exact hno
    asc := trivial
    latest := by simp [getLatest, hs, applyOps, W.apply, W.key, W.val]
    idx := by intro b hb; simp at hb; subst hb; simp [getByNo, hs, applyOps, W.apply, W.key, W.val]
    blk := by intro b hb; simp at hb; subst hb; simp [getBlock, hs, applyOps, W.apply, W.key, W.val]
    above := by intro h hh; simp [hs, applyOps, W.apply, W.key, W.val]; omega
    txs := by intro b hb i t ht; simp at hb; subst hb; simp [htx] at ht
    txsOnly := by intro t i j ht; simp [getTx, hs, applyOps, W.apply, W.key, W.val] at ht
    rcpt := by intro b hb hne; simp at hb; subst hb; exact absurd htx hne
    state := by simp [hasStMark, hs, applyOps, W.apply, W.key, W.val]
    marker := by simp [getMarker, hs, applyOps, W.apply, W.key, W.val] }

/-- Storing a side-branch block (`chainProcessor.addBlock`) does not disturb the main chain. -/
theorem inv_side {D : Store} {chain : List Block} {best b : Block} (h : Inv D chain best)
    (hid : ∀ c ∈ chain, c.id ≠ b.id) : Inv (applyOps (sideUnit b).ops D) chain best := by
  apply h.of_sameView
  have un : ∀ k, k ≠ .block b.id → applyOps (sideUnit b).ops D k = D k := fun k hk => by
    apply get_untouched; intro w hw; simp [sideUnit] at hw; subst hw; exact fun e => hk e.symm
  refine ⟨un _ (by simp), fun n => un _ (by simp), fun c hc => un _ (by simpa using hid c hc), fun t => un _ (by simp),
    fun c _ hr => ?_, fun hs => ?_, un _ (by simp)⟩
  · simpa [hasRcpt, un (.rcpt c.id c.no) (by simp)] using hr
  · simpa [hasStMark, un (.stMark best.root) (by simp)] using hs

theorem connect_prefix_inv {D : Store} {chain : List Block} {best b : Block} (h : Inv D chain best) {k : Nat}
    (hk : k < (connectUnits b).length) : Inv (crash (connectUnits b) k D) chain best := by
  rw [crash_eq]
  apply h.of_sameView
  apply sameView_of_harmless
  intro w hw
  have : (connectUnits b).take k = (execUnits b).take k := by
    apply List.take_append_of_le_length
    simp [connectUnits] at hk; omega
  rw [this] at hw
  exact harmless_execUnits b w (mem_allOps_take hw)

theorem connect_full_inv {D : Store} {chain : List Block} {best b : Block} (h : Inv D chain best)
    (hp : b.parent = best.id) (hn : b.no = best.no + 1) (hid : ∀ c ∈ chain, c.id ≠ b.id)
    (hnd : b.txs.Nodup) (hfresh : ∀ t ∈ b.txs, getTx D t = none) :
    Inv (applyUnits (connectUnits b) D) (chain ++ [b]) b := by
  have hh := harmless_execUnits b
  have e : applyUnits (connectUnits b) D = applyOps (connectUnit b).ops (applyOps (allOps (execUnits b)) D) := by
    rw [connectUnits, applyUnits_append, applyUnits_eq (execUnits b)]
    rfl
  rw [e]
  have h1 : Inv (applyOps (allOps (execUnits b)) D) chain best := h.of_sameView (sameView_of_harmless D _ _ hh)
  apply inv_connectUnit h1 hp hn hid hnd
  · intro t ht
    have : applyOps (allOps (execUnits b)) D (.tx t) = D (.tx t) := harmless_other D hh (by simp) (by simp) (by simp)
    simp only [getTx, this]; exact hfresh t ht
  · apply harmless_isSome D hh
    exact ⟨.set (.stMark b.root) .unit, by simp [allOps, execUnits, stateUnit], rfl⟩
  · intro hne
    apply harmless_isSome D hh
    have : b.txs.isEmpty = false := by cases h : b.txs <;> simp_all
    exact ⟨.set (.rcpt b.id b.no) .unit, by simp [allOps, execUnits, rcptUnits, this], rfl⟩

/-- The situation in which a reorganisation starts: as `Ready`, before the new branch has been executed. -/
structure Fork (D : Store) (pre old new : List Block) (start best top : Block) : Prop where
  inv : Inv D (pre ++ old.reverse) best
  preLast : pre.getLast? = some start
  oldHead : old.head? = some best
  newHead : new.head? = some top
  newDesc : DescFrom start new
  newStored : ∀ b ∈ new, getBlock D b.id = some b
  longer : old.length < new.length
  newIds : ∀ b ∈ new, ∀ c ∈ pre ++ old.reverse, b.id ≠ c.id
  txUnique : ∀ b ∈ pre ++ new.reverse, ∀ c ∈ pre ++ new.reverse, ∀ (i j t : Nat),
    b.txs[i]? = some t → c.txs[j]? = some t → b.id = c.id ∧ i = j

namespace Fork
variable {D : Store} {pre old new : List Block} {start best top : Block}

/-- Crashes during the roll-forward leave a store on which the old chain is still coherent. -/
theorem prefix_inv (F : Fork D pre old new start best top) (k : Nat) :
    Inv (crash (rollforwardUnits new) k D) (pre ++ old.reverse) best := by
  rw [crash_eq]
  exact F.inv.of_sameView (sameView_of_harmless D _ _ (fun w hw => harmless_rollforward new w (mem_allOps_take hw)))

/-- When the roll-forward is complete the swap can start. -/
theorem ready (F : Fork D pre old new start best top) :
    Ready (applyUnits (rollforwardUnits new) D) pre old new start best top := by
  have hh := harmless_rollforward new
  rw [applyUnits_eq]
  refine {
    inv := F.inv.of_sameView (sameView_of_harmless D _ _ hh)
    preLast := F.preLast, oldHead := F.oldHead, newHead := F.newHead, newDesc := F.newDesc
    newStored := ?_, longer := F.longer, newIds := F.newIds, txUnique := F.txUnique
    newState := ?_, newRcpt := ?_ }
  · intro b hb
    have : applyOps (allOps (rollforwardUnits new)) D (.block b.id) = D (.block b.id) :=
      harmless_other D hh (by simp) (by simp) (by simp)
    simp only [getBlock, this]
    exact F.newStored b hb
  · intro b hb
    apply harmless_isSome D hh
    refine ⟨.set (.stMark b.root) .unit, ?_, rfl⟩
    simp only [allOps, rollforwardUnits, List.mem_flatMap, List.mem_reverse]
    exact ⟨stateUnit b, ⟨b, hb, by simp [execUnits]⟩, by simp [stateUnit]⟩
  · intro b hb hne
    apply harmless_isSome D hh
    refine ⟨.set (.rcpt b.id b.no) .unit, ?_, rfl⟩
    simp only [allOps, rollforwardUnits, List.mem_flatMap, List.mem_reverse]
    have : b.txs.isEmpty = false := by cases h : b.txs <;> simp_all
    exact ⟨⟨.C, .tx, [.set (.rcpt b.id b.no) .unit]⟩, ⟨b, hb, by simp [execUnits, rcptUnits, this]⟩, by simp⟩

end Fork

end Aergo.Crash
