import Aergo.Model.Determ

/-! Helper lemmas for `Props/C02.lean` (core Lean only). -/

namespace Aergo.Determ

/-! ## generic: folds over a permutation -/

/-- A fold whose steps commute on the states an invariant describes does not depend on the order of the
list (`List.Perm.foldl_eq'` with an invariant). -/
theorem foldl_perm_inv {σ α : Type} (f : σ → α → σ) (Inv : σ → Prop)
    (hinv : ∀ s a, Inv s → Inv (f s a))
    {l l' : List α} (p : l.Perm l')
    (comm : ∀ x ∈ l, ∀ y ∈ l, ∀ s, Inv s → f (f s x) y = f (f s y) x)
    (s : σ) (hs : Inv s) : l.foldl f s = l'.foldl f s := by
  induction p using List.Perm.recOnSwap' generalizing s with
  | nil => rfl
  | cons x _ ih =>
    simp only [List.foldl]
    exact ih (fun a ha b hb => comm a (.tail _ ha) b (.tail _ hb)) _ (hinv _ _ hs)
  | swap' x y _ ih =>
    simp only [List.foldl]
    rw [comm y (.head _) x (.tail _ (.head _)) s hs]
    exact ih (fun a ha b hb => comm a (.tail _ (.tail _ ha)) b (.tail _ (.tail _ hb))) _ (hinv _ _ (hinv _ _ hs))
  | trans p₁ _ ih₁ ih₂ =>
    refine (ih₁ comm s hs).trans (ih₂ ?_ s hs)
    intro a ha b hb
    exact comm a (p₁.symm.subset ha) b (p₁.symm.subset hb)

/-- Two entries of a list whose keys are pairwise distinct and that have the same key are the same entry. -/
theorem eq_of_key_eq {α β : Type} (key : α → β) : ∀ {l : List α}, (l.map key).Nodup →
    ∀ x ∈ l, ∀ y ∈ l, key x = key y → x = y
  | [], _, x, hx, _, _, _ => by cases hx
  | a :: l, hn, x, hx, y, hy, hk => by
    simp only [List.map_cons, List.nodup_cons, List.mem_map, not_exists, not_and] at hn
    rcases List.mem_cons.1 hx with h1 | h1
    · rcases List.mem_cons.1 hy with h2 | h2
      · rw [h1, h2]
      · subst h1; exact absurd hk.symm (hn.1 y h2)
    · rcases List.mem_cons.1 hy with h2 | h2
      · subst h2; exact absurd hk (hn.1 x h1)
      · exact eq_of_key_eq key hn.2 x h1 y h2 hk

/-- Sorted outputs of two permutations of one collection whose sort keys are ordered by an asymmetric
relation coincide: "the sorted output of distinct keys is unique". -/
theorem sorted_perm_unique {α : Type} (lt : α → α → Prop) (hasym : ∀ a b, lt a b → lt b a → False)
    {l l' out out' : List α} (p : l.Perm l') (ho : out.Perm l) (ho' : out'.Perm l')
    (hs : out.Pairwise lt) (hs' : out'.Pairwise lt) : out = out' :=
  List.Perm.eq_of_pairwise (fun a b _ _ h1 h2 => (hasym a b h1 h2).elim) hs hs' (ho.trans (p.trans ho'.symm))

/-! ## maps compared by content -/

theorem Fun.upd_comm {α : Type} (f : Fun α) {k k' : Nat} (h : k ≠ k') (v v' : Option α) :
    (f.upd k v).upd k' v' = (f.upd k' v').upd k v := by
  funext x
  simp only [Fun.upd]
  by_cases h1 : x = k' <;> by_cases h2 : x = k <;> simp_all

theorem Fun.upd_same {α : Type} (f : Fun α) (k : Nat) (v : Option α) : (f.upd k v) k = v := by
  simp [Fun.upd]

theorem Fun.upd_other {α : Type} (f : Fun α) {k k' : Nat} (h : k' ≠ k) (v : Option α) : (f.upd k v) k' = f k' := by
  simp [Fun.upd, h]

/-! ## bytes.Compare -/

theorem bcmp_eq_iff : ∀ (a b : Bytes), bcmp a b = .eq ↔ a = b
  | [], [] => by simp [bcmp]
  | [], _ :: _ => by simp [bcmp]
  | _ :: _, [] => by simp [bcmp]
  | x :: xs, y :: ys => by
    simp only [bcmp]
    by_cases h1 : x < y
    · simp only [h1, if_true]; constructor
      · intro h; cases h
      · intro h; injection h with h _; omega
    · by_cases h2 : y < x
      · simp only [h1, h2, if_false, if_true]; constructor
        · intro h; cases h
        · intro h; injection h with h _; omega
      · simp only [h1, h2, if_false]
        have : x = y := by omega
        subst this
        rw [bcmp_eq_iff xs ys]
        constructor
        · intro h; rw [h]
        · intro h; injection h

theorem bcmp_gt_swap : ∀ (a b : Bytes), bcmp a b = .gt ↔ bcmp b a = .lt
  | [], [] => by simp [bcmp]
  | [], _ :: _ => by simp [bcmp]
  | _ :: _, [] => by simp [bcmp]
  | x :: xs, y :: ys => by
    simp only [bcmp]
    by_cases h1 : x < y
    · have h2 : ¬ y < x := by omega
      simp [h1, h2]
    · by_cases h2 : y < x
      · simp [h1, h2]
      · simp only [h1, h2, if_false]
        exact bcmp_gt_swap xs ys

theorem bcmp_gt_trans : ∀ (a b c : Bytes), bcmp a b = .gt → bcmp b c = .gt → bcmp a c = .gt
  | [], [], _ => by simp [bcmp]
  | [], _ :: _, _ => by simp [bcmp]
  | _ :: _, [], [] => by simp [bcmp]
  | _ :: _, [], _ :: _ => by simp [bcmp]
  | _ :: _, _ :: _, [] => by simp [bcmp]
  | x :: xs, y :: ys, z :: zs => by
    simp only [bcmp]
    intro h1 h2
    by_cases a1 : x < y
    · simp [a1] at h1
    · by_cases a2 : y < x
      · by_cases b1 : y < z
        · simp [b1] at h2
        · by_cases b2 : z < y
          · have c1 : ¬ x < z := by omega
            have c2 : z < x := by omega
            simp [c1, c2]
          · have : y = z := by omega
            subst this
            simp [a1, a2]
      · have : x = y := by omega
        subst this
        simp only [a1, if_false] at h1
        by_cases b1 : x < z
        · simp [b1] at h2
        · by_cases b2 : z < x
          · simp [b1, b2]
          · simp only [b1, b2, if_false] at h2 ⊢
            exact bcmp_gt_trans xs ys zs h1 h2

/-- `bytes.Compare` decides every pair of distinct byte strings. -/
theorem bcmp_total (a b : Bytes) (h : a ≠ b) : bcmp a b = .gt ∨ bcmp b a = .gt := by
  cases hc : bcmp a b with
  | gt => exact .inl rfl
  | eq => exact absurd ((bcmp_eq_iff a b).1 hc) h
  | lt => exact .inr ((bcmp_gt_swap b a).2 hc)

theorem bcmp_gt_asymm (a b : Bytes) (h1 : bcmp a b = .gt) (h2 : bcmp b a = .gt) : False := by
  have := (bcmp_gt_swap a b).1 h1
  rw [this] at h2; cases h2


/-! ## `VoteList.Less` -/

/-- `a` and `b` take the same branch of `len(Candidate) == 39`. -/
def SameClass (a b : Entry) : Prop := a.cand.length = 39 ↔ b.cand.length = 39

instance (a b : Entry) : Decidable (SameClass a b) := by unfold SameClass; infer_instance

/-- All candidates of a tally have the peer-id length 39 (BP election), or none has (proposal votes:
decimal strings of at most 27 digits). -/
def Uniform (l : List Entry) : Prop := ∀ a ∈ l, ∀ b ∈ l, SameClass a b

theorem lessKey_congr {a b : Entry} (h : SameClass a b) (c : Bytes) : lessKey a c = lessKey b c := by
  unfold lessKey SameClass at *
  by_cases h1 : a.cand.length = 39
  · simp [h1, h.1 h1]
  · have : ¬ b.cand.length = 39 := fun h2 => h1 (h.2 h2)
    simp [h1, this]

theorem less_iff (a b : Entry) : less a b = true ↔
    a.amt < b.amt ∨ (a.amt = b.amt ∧ (lessKey a b.cand < lessKey a a.cand ∨
      (lessKey a a.cand = lessKey a b.cand ∧ bcmp a.cand b.cand = .gt))) := by
  unfold less
  by_cases h1 : a.amt < b.amt
  · simp [h1]
  · by_cases h2 : a.amt = b.amt
    · simp only [h1, h2, if_false, if_true, true_and, false_or]
      by_cases h3 : lessKey a b.cand < lessKey a a.cand
      · simp [h3]
      · by_cases h4 : lessKey a a.cand < lessKey a b.cand
        · have : lessKey a a.cand ≠ lessKey a b.cand := by omega
          simp [h3, h4, this]
        · have : lessKey a a.cand = lessKey a b.cand := by omega
          simp [h3, h4, this]
    · simp [h1, h2]

theorem less_asymm {a b : Entry} (hc : SameClass a b) (h1 : less a b = true) (h2 : less b a = true) : False := by
  rw [less_iff] at h1 h2
  rw [← lessKey_congr hc, ← lessKey_congr hc] at h2
  rcases h1 with h1 | ⟨e1, h1⟩
  · rcases h2 with h2 | ⟨e2, _⟩ <;> omega
  · rcases h2 with h2 | ⟨_, h2⟩
    · omega
    · rcases h1 with h1 | ⟨k1, c1⟩ <;> rcases h2 with h2 | ⟨k2, c2⟩
      · omega
      · omega
      · omega
      · exact bcmp_gt_asymm _ _ c1 c2

theorem less_trans {a b c : Entry} (hab : SameClass a b) (_hbc : SameClass b c)
    (h1 : less a b = true) (h2 : less b c = true) : less a c = true := by
  rw [less_iff] at h1 h2 ⊢
  rw [← lessKey_congr hab, ← lessKey_congr hab] at h2
  rcases h1 with h1 | ⟨e1, h1⟩
  · rcases h2 with h2 | ⟨e2, _⟩
    · left; omega
    · left; omega
  · rcases h2 with h2 | ⟨e2, h2⟩
    · left; omega
    · right
      refine ⟨by omega, ?_⟩
      rcases h1 with h1 | ⟨k1, c1⟩ <;> rcases h2 with h2 | ⟨k2, c2⟩
      · left; omega
      · left; omega
      · left; omega
      · right; exact ⟨by omega, bcmp_gt_trans _ _ _ c1 c2⟩

/-- On two entries of one class with different candidates `Less` decides one way or the other. -/
theorem less_total {a b : Entry} (hc : SameClass a b) (hne : a.cand ≠ b.cand) :
    less a b = true ∨ less b a = true := by
  rw [less_iff, less_iff, ← lessKey_congr hc, ← lessKey_congr hc]
  by_cases h1 : a.amt < b.amt
  · left; left; exact h1
  · by_cases h2 : b.amt < a.amt
    · right; left; exact h2
    · have e : a.amt = b.amt := by omega
      by_cases k1 : lessKey a b.cand < lessKey a a.cand
      · left; right; exact ⟨e, .inl k1⟩
      · by_cases k2 : lessKey a a.cand < lessKey a b.cand
        · right; right; exact ⟨e.symm, .inl k2⟩
        · have ke : lessKey a a.cand = lessKey a b.cand := by omega
          rcases bcmp_total _ _ hne with c | c
          · left; right; exact ⟨e, .inr ⟨ke, c⟩⟩
          · right; right; exact ⟨e.symm, .inr ⟨ke.symm, c⟩⟩

theorem less_irrefl (a : Entry) : less a a = false := by
  cases h : less a a with
  | false => rfl
  | true => exact (less_asymm (Iff.rfl) h h).elim

/-! ### sorting by `Less` -/

/-- What `sort.Sort(sort.Reverse(votes))` guarantees about its result: no element is `Less` than a later one. -/
def RankSorted (out : List Entry) : Prop := out.Pairwise (fun x y => less x y = false)

theorem mem_rankInsert (x : Entry) : ∀ (l : List Entry) (z : Entry), z ∈ rankInsert x l ↔ z = x ∨ z ∈ l
  | [], z => by simp [rankInsert]
  | y :: r, z => by
    have ih := mem_rankInsert x r z
    simp only [rankInsert]
    cases hl : less y x
    · simp only [Bool.false_eq_true, if_false, List.mem_cons, ih]
      constructor
      · rintro (h | h | h)
        · exact .inr (.inl h)
        · exact .inl h
        · exact .inr (.inr h)
      · rintro (h | h | h)
        · exact .inr (.inl h)
        · exact .inl h
        · exact .inr (.inr h)
    · simp only [if_true, List.mem_cons]

theorem rankInsert_perm (x : Entry) : ∀ (l : List Entry), (rankInsert x l).Perm (x :: l)
  | [] => by simp [rankInsert]
  | y :: r => by
    simp only [rankInsert]
    cases hl : less y x
    · simp only [Bool.false_eq_true, if_false]
      exact ((rankInsert_perm x r).cons y).trans (List.Perm.swap x y r)
    · simp only [if_true]; exact List.Perm.refl _

theorem rankSort_perm : ∀ (l : List Entry), (rankSort l).Perm l
  | [] => by simp [rankSort]
  | x :: l => by
    show (rankInsert x (rankSort l)).Perm (x :: l)
    exact (rankInsert_perm x _).trans ((rankSort_perm l).cons x)

theorem rankInsert_sorted (x : Entry) : ∀ (l : List Entry), (∀ y ∈ l, SameClass x y) → Uniform l →
    RankSorted l → RankSorted (rankInsert x l)
  | [], _, _, _ => by simp [rankInsert, RankSorted]
  | y :: r, hx, hu, hs => by
    unfold RankSorted at *
    simp only [rankInsert]
    have hxy : SameClass x y := hx y (List.mem_cons_self)
    rcases List.pairwise_cons.1 hs with ⟨hy, hr⟩
    cases h : less y x
    · simp only [Bool.false_eq_true, if_false]
      refine List.pairwise_cons.2 ⟨?_, rankInsert_sorted x r (fun z hz => hx z (List.mem_cons_of_mem _ hz))
        (fun a ha b hb => hu a (List.mem_cons_of_mem _ ha) b (List.mem_cons_of_mem _ hb)) hr⟩
      intro z hz
      rcases (mem_rankInsert x r z).1 hz with rfl | hz
      · exact h
      · exact hy z hz
    · simp only [if_true]
      refine List.pairwise_cons.2 ⟨?_, hs⟩
      intro z hz
      rcases List.mem_cons.1 hz with rfl | hz
      · cases h2 : less x z with
        | false => rfl
        | true => exact (less_asymm hxy h2 h).elim
      · cases h2 : less x z with
        | false => rfl
        | true =>
          have := less_trans hxy.symm (hx z (List.mem_cons_of_mem _ hz)) h h2
          rw [hy z hz] at this; cases this

theorem rankSort_sorted : ∀ (l : List Entry), Uniform l → RankSorted (rankSort l)
  | [], _ => by simp [rankSort, RankSorted]
  | x :: l, hu => by
    show RankSorted (rankInsert x (rankSort l))
    have hul : Uniform l := fun a ha b hb => hu a (List.mem_cons_of_mem _ ha) b (List.mem_cons_of_mem _ hb)
    have hmem : ∀ z, z ∈ rankSort l → z ∈ l := fun z hz => (rankSort_perm l).subset hz
    refine rankInsert_sorted x _ (fun y hy => hu x (List.mem_cons_self) y (List.mem_cons_of_mem _ (hmem y hy)))
      (fun a ha b hb => hul a (hmem a ha) b (hmem b hb)) (rankSort_sorted l hul)

/-- Two `Less`-sorted arrangements of one tally whose candidates are pairwise different (they are the keys
of a map) and of one length class are the same list. -/
theorem rankSorted_unique {l out out' : List Entry} (hn : (l.map (·.cand)).Nodup) (hu : Uniform l)
    (ho : out.Perm l) (ho' : out'.Perm l) (hs : RankSorted out) (hs' : RankSorted out') : out = out' := by
  -- strengthen "no ascent" to "strictly descending" using totality on distinct candidates
  have strict : ∀ {o : List Entry}, o.Perm l → RankSorted o →
      o.Pairwise (fun x y => less y x = true ∧ SameClass x y) := by
    intro o hp hso
    have hnd : (o.map (·.cand)).Nodup := (hp.map _).nodup_iff.2 hn
    have hne : o.Pairwise (fun x y => x.cand ≠ y.cand) := (List.pairwise_map).1 hnd
    have hboth := List.Pairwise.and hso hne
    refine List.Pairwise.imp_of_mem ?_ hboth
    intro x y hx hy h
    have hc : SameClass x y := hu x (hp.subset hx) y (hp.subset hy)
    refine ⟨?_, hc⟩
    rcases less_total hc h.2 with h1 | h1
    · rw [h.1] at h1; cases h1
    · exact h1
  refine List.Perm.eq_of_pairwise ?_ (strict ho hs) (strict ho' hs') (ho.trans ho'.symm)
  intro a b _ _ h1 h2
  exact (less_asymm h1.2.symm h1.1 h2.1).elim

/-! ## voting-power buckets -/

/-- strictly descending by id: the order `vprStore` keeps a bucket in -/
def KSorted (l : KL) : Prop := l.Pairwise (fun a b => b.1 < a.1)

theorem mem_kinsert (e : Nat × Int) : ∀ (l : KL) (z : Nat × Int), z ∈ kinsert e l ↔ z = e ∨ z ∈ l
  | [], z => by simp [kinsert]
  | y :: r, z => by
    have ih := mem_kinsert e r z
    simp only [kinsert]
    by_cases h : y.1 ≤ e.1
    · simp only [h, if_true, List.mem_cons]
    · simp only [h, if_false, List.mem_cons, ih]
      constructor
      · rintro (h | h | h)
        · exact .inr (.inl h)
        · exact .inl h
        · exact .inr (.inr h)
      · rintro (h | h | h)
        · exact .inr (.inl h)
        · exact .inl h
        · exact .inr (.inr h)

theorem kinsert_sorted (e : Nat × Int) : ∀ (l : KL), KSorted l → (∀ y ∈ l, y.1 ≠ e.1) → KSorted (kinsert e l)
  | [], _, _ => by simp [kinsert, KSorted]
  | y :: r, hs, hne => by
    unfold KSorted at *
    rcases List.pairwise_cons.1 hs with ⟨hy, hr⟩
    simp only [kinsert]
    by_cases h : y.1 ≤ e.1
    · simp only [h, if_true]
      refine List.pairwise_cons.2 ⟨?_, hs⟩
      intro z hz
      rcases List.mem_cons.1 hz with rfl | hz
      · have := hne z (List.mem_cons_self); omega
      · have := hy z hz; omega
    · simp only [h, if_false]
      refine List.pairwise_cons.2 ⟨?_, kinsert_sorted e r hr (fun z hz => hne z (List.mem_cons_of_mem _ hz))⟩
      intro z hz
      rcases (mem_kinsert e r z).1 hz with rfl | hz
      · omega
      · exact hy z hz

theorem kupd_sorted (e : Nat × Int) (l : KL) (hs : KSorted l) : KSorted (kupd e l) := by
  unfold kupd
  have hf : KSorted (l.filter (fun y => y.1 ≠ e.1)) := List.Pairwise.filter _ hs
  by_cases h : e.2 = 0
  · simp only [h, if_true]; exact hf
  · simp only [h, if_false]
    refine kinsert_sorted e _ hf ?_
    intro y hy
    simpa using (List.mem_filter.1 hy).2

theorem mem_kupd (e : Nat × Int) (l : KL) (z : Nat × Int) :
    z ∈ kupd e l ↔ (z ∈ l ∧ z.1 ≠ e.1) ∨ (e.2 ≠ 0 ∧ z = e) := by
  unfold kupd
  by_cases h : e.2 = 0
  · simp [h, List.mem_filter]
  · simp only [h, if_false, mem_kinsert, List.mem_filter]
    constructor
    · rintro (h1 | ⟨h1, h2⟩)
      · exact .inr ⟨h, h1⟩
      · exact .inl ⟨h1, by simpa using h2⟩
    · rintro (⟨h1, h2⟩ | ⟨_, h1⟩)
      · exact .inr ⟨h1, by simpa using h2⟩
      · exact .inl h1

/-- A bucket is determined by its members: two strictly descending lists with the same members are equal. -/
theorem ksorted_ext {l l' : KL} (hs : KSorted l) (hs' : KSorted l') (h : ∀ z, z ∈ l ↔ z ∈ l') : l = l' := by
  have nd : ∀ {m : KL}, KSorted m → m.Nodup := by
    intro m hm
    refine List.Pairwise.imp ?_ hm
    intro a b hab heq
    rw [heq] at hab; omega
  have hp : l.Perm l' := (List.perm_ext_iff_of_nodup (nd hs) (nd hs')).2 h
  refine List.Perm.eq_of_pairwise ?_ hs hs' hp
  intro a b _ _ h1 h2
  omega

theorem kupd_comm {a b : Nat × Int} (l : KL) (hs : KSorted l) (hab : a.1 ≠ b.1) :
    kupd b (kupd a l) = kupd a (kupd b l) := by
  refine ksorted_ext (kupd_sorted _ _ (kupd_sorted _ _ hs)) (kupd_sorted _ _ (kupd_sorted _ _ hs)) ?_
  intro z
  simp only [mem_kupd]
  constructor
  · rintro (⟨(⟨h1, h2⟩ | ⟨h1, h2⟩), h3⟩ | ⟨h1, h2⟩)
    · exact .inl ⟨.inl ⟨h1, h3⟩, h2⟩
    · exact .inr ⟨h1, h2⟩
    · subst h2; exact .inl ⟨.inr ⟨h1, rfl⟩, fun h => hab h.symm⟩
  · rintro (⟨(⟨h1, h2⟩ | ⟨h1, h2⟩), h3⟩ | ⟨h1, h2⟩)
    · exact .inl ⟨.inl ⟨h1, h3⟩, h2⟩
    · exact .inr ⟨h1, h2⟩
    · subst h2; exact .inl ⟨.inr ⟨h1, rfl⟩, hab⟩

theorem kget_filter_other (l : KL) {k k' : Nat} (h : k' ≠ k) :
    kget (l.filter (fun y => y.1 ≠ k)) k' = kget l k' := by
  induction l with
  | nil => rfl
  | cons y r ih =>
    obtain ⟨yk, yv⟩ := y
    by_cases h1 : yk = k
    · subst h1
      have : yk ≠ k' := fun e => h e.symm
      rw [List.filter_cons_of_neg (by simp)]
      simp only [kget, this, if_false]
      exact ih
    · rw [List.filter_cons_of_pos (by simpa using h1)]
      simp only [kget]
      by_cases h2 : yk = k'
      · simp [h2]
      · simp only [h2, if_false]; exact ih

theorem kget_kinsert_other (e : Nat × Int) (l : KL) {k' : Nat} (h : k' ≠ e.1) :
    kget (kinsert e l) k' = kget l k' := by
  induction l with
  | nil =>
    obtain ⟨ek, ev⟩ := e
    have : ek ≠ k' := fun x => h x.symm
    simp [kinsert, kget, this]
  | cons y r ih =>
    obtain ⟨yk, yv⟩ := y
    obtain ⟨ek, ev⟩ := e
    have hne : ek ≠ k' := fun x => h x.symm
    simp only [kinsert]
    by_cases h1 : yk ≤ ek
    · simp [h1, kget, hne]
    · simp only [h1, if_false, kget]
      by_cases h2 : yk = k'
      · simp [h2]
      · simp only [h2, if_false]; exact ih

theorem kget_kupd_other (e : Nat × Int) (l : KL) {k' : Nat} (h : k' ≠ e.1) : kget (kupd e l) k' = kget l k' := by
  unfold kupd
  by_cases h0 : e.2 = 0
  · simp only [h0, if_true]; exact kget_filter_other l h
  · simp only [h0, if_false]
    rw [kget_kinsert_other e _ h]; exact kget_filter_other l h

/-! ## `vpr.apply` -/

/-- The representation invariant of the rank: `powers` in canonical order and every bucket in the order
`vprStore.update` keeps it (descending account id). -/
def Vpr.Inv (v : Vpr) : Prop := KSorted v.powers ∧ ∀ b ∈ v.buckets, KSorted b

theorem Vpr.inv_empty : Vpr.empty.Inv := by
  refine ⟨List.Pairwise.nil, ?_⟩
  intro b hb
  have : b = [] := List.eq_of_mem_replicate hb
  subst this; exact List.Pairwise.nil

theorem ksorted_getD (bs : List KL) (h : ∀ b ∈ bs, KSorted b) (i : Nat) : KSorted (bs.getD i []) := by
  rw [List.getD_eq_getElem?_getD]
  cases hg : bs[i]? with
  | none => exact List.Pairwise.nil
  | some b => exact h b (List.mem_of_getElem? hg)

theorem Vpr.inv_applyStep (v : Vpr) (c : Nat × Int) (h : v.Inv) : (v.applyStep c).Inv := by
  refine ⟨kupd_sorted _ _ h.1, ?_⟩
  intro b hb
  rcases List.mem_or_eq_of_mem_set hb with hb | hb
  · exact h.2 b hb
  · subst hb; exact kupd_sorted _ _ (ksorted_getD _ h.2 _)

theorem Vpr.applyStep_comm (v : Vpr) (h : v.Inv) {a b : Nat × Int} (hab : a.1 ≠ b.1) :
    (v.applyStep a).applyStep b = (v.applyStep b).applyStep a := by
  obtain ⟨P, B, T⟩ := v
  obtain ⟨hP, hB⟩ := h
  simp only [Vpr.applyStep]
  have e1 : kget (kupd (a.1, kget P a.1 + a.2) P) b.1 = kget P b.1 :=
    kget_kupd_other _ _ (fun e => hab e.symm)
  have e2 : kget (kupd (b.1, kget P b.1 + b.2) P) a.1 = kget P a.1 := kget_kupd_other _ _ hab
  rw [e1, e2]
  congr 1
  · exact kupd_comm P hP hab
  · by_cases hi : bucketIdx a.1 = bucketIdx b.1
    · rw [hi]
      by_cases hl : bucketIdx b.1 < B.length
      · simp only [List.getD_eq_getElem?_getD, List.getElem?_set_self hl, Option.getD_some, List.set_set]
        congr 1
        exact kupd_comm _ (by simpa [List.getD_eq_getElem?_getD] using ksorted_getD B hB (bucketIdx b.1)) hab
      · have hl' : B.length ≤ bucketIdx b.1 := by omega
        simp [List.set_eq_of_length_le hl']
    · have hi' : bucketIdx b.1 ≠ bucketIdx a.1 := fun e => hi e.symm
      simp only [List.getD_eq_getElem?_getD, List.getElem?_set_ne hi, List.getElem?_set_ne hi']
      exact List.set_comm _ _ hi
  · omega

end Aergo.Determ
