/-
Helper lemmas for the `Enc` layer (digest inputs as field-spec-driven concatenations).
Used by Props/C19. Core only.
-/
import Aergo.Model.Enc

namespace Aergo.Enc
open Aergo.Gen.Enc

theorem encode_cons (fk : String × Kind) (spec : List (String × Kind)) (r : Rec) :
    encode (fk :: spec) r = encField r fk ++ encode spec r := by
  simp [encode]

/-- `r` and `r'` agree on every field other than `f` (both on bytes-typed and integer-typed fields). -/
def AgreeExcept (f : String) (r r' : Rec) : Prop :=
  ∀ g, g ≠ f → r.raw g = r'.raw g ∧ r.num g = r'.num g

theorem encField_agree {f : String} {r r' : Rec} (h : AgreeExcept f r r') (fk : String × Kind)
    (hne : fk.1 ≠ f) : encField r fk = encField r' fk := by
  obtain ⟨h1, h2⟩ := h fk.1 hne
  unfold encField
  cases fk.2 <;> simp [h1, h2]

theorem encode_agree {f : String} {r r' : Rec} (h : AgreeExcept f r r')
    (spec : List (String × Kind)) (hn : f ∉ names spec) : encode spec r = encode spec r' := by
  induction spec with
  | nil => rfl
  | cons fk rest ih =>
    simp only [names, List.map_cons, List.mem_cons, not_or] at hn
    rw [encode_cons, encode_cons, encField_agree h fk (fun e => hn.1 e.symm), ih hn.2]

/-- Update one bytes-typed field. -/
def Rec.setRaw (r : Rec) (f : String) (v : Bytes) : Rec :=
  { r with raw := fun g => if g = f then v else r.raw g }

/-- Update one integer-typed field. -/
def Rec.setNum (r : Rec) (f : String) (v : Nat) : Rec :=
  { r with num := fun g => if g = f then v else r.num g }

theorem agree_setRaw (r : Rec) (f : String) (v : Bytes) : AgreeExcept f r (r.setRaw f v) := by
  intro g hg; simp [Rec.setRaw, hg]

theorem agree_setNum (r : Rec) (f : String) (v : Nat) : AgreeExcept f r (r.setNum f v) := by
  intro g hg; simp [Rec.setNum, hg]

end Aergo.Enc

namespace Aergo.Enc

/-- An explicit collision of the hash parameter `H`: two different inputs with the same digest. -/
def Collision (H : Bytes → Bytes) (x y : Bytes) : Prop := x ≠ y ∧ H x = H y

/-- A collision of `H` between two **given finite lists** of inputs (the byte strings actually hashed on
the two sides of a comparison). An unrestricted `∃ x y, x ≠ y ∧ H x = H y` would be true of every hash
with fixed-length output by counting, and is therefore never used as a conclusion. -/
def CollisionIn (H : Bytes → Bytes) (A B : List Bytes) : Prop := ∃ x ∈ A, ∃ y ∈ B, Collision H x y

theorem CollisionIn.mono {H : Bytes → Bytes} {A A' B B' : List Bytes} (hA : ∀ x ∈ A, x ∈ A')
    (hB : ∀ y ∈ B, y ∈ B') (hc : CollisionIn H A B) : CollisionIn H A' B' := by
  obtain ⟨x, hx, y, hy, h⟩ := hc
  exact ⟨x, hA x hx, y, hB y hy, h⟩

end Aergo.Enc
