/-
Helper lemmas for the `Frame` layer (C18): big-endian round trip, closed forms of
`marshalHeader` / `parseHeader` over the generated layout tables. Core Lean only.
-/
import Aergo.Model.Frame

namespace Aergo.Frame
open Aergo.Gen.Frame

theorem be_length (w n : Nat) : (be w n).length = w := by
  induction w generalizing n with
  | zero => rfl
  | succ w ih => simp [be, ih]

theorem fromBE_append_single (xs : Bytes) (b : UInt8) :
    fromBE (xs ++ [b]) = fromBE xs * 256 + b.toNat := by
  simp [fromBE, List.foldl_append]

/-- decoding an encoding gives the value modulo the width -/
theorem fromBE_be (w n : Nat) : fromBE (be w n) = n % 256 ^ w := by
  induction w generalizing n with
  | zero => simp [be, fromBE, Nat.mod_one]
  | succ w ih =>
    rw [be, fromBE_append_single, ih]
    have h : (UInt8.ofNat (n % 256)).toNat = n % 256 := by simp
    rw [h, Nat.pow_succ, Nat.mul_comm (256 ^ w) 256, Nat.mod_mul]
    omega

theorem foldl_be_lt (bs : Bytes) (acc k : Nat) (h : acc < 256 ^ k) :
    bs.foldl (fun a b => a * 256 + b.toNat) acc < 256 ^ (k + bs.length) := by
  induction bs generalizing acc k with
  | nil => simpa using h
  | cons b bs ih =>
    simp only [List.foldl_cons, List.length_cons]
    have hb := b.toNat_lt
    have : acc * 256 + b.toNat < 256 ^ (k + 1) := by rw [Nat.pow_succ]; omega
    have := ih _ _ this
    rwa [show k + (bs.length + 1) = k + 1 + bs.length by omega]

/-- a decoded value is below `256^length` -/
theorem fromBE_lt (bs : Bytes) : fromBE bs < 256 ^ bs.length := by
  have := foldl_be_lt bs 0 0 (by simp)
  simpa [fromBE] using this

/-- overwriting right after an already-written prefix -/
theorem put_append (x y bs : Bytes) (lo : Nat) (hx : x.length = lo) :
    put (x ++ y) lo bs = x ++ bs ++ y.drop bs.length := by
  subst hx
  simp [put, List.drop_append]

/-- The header bytes `marshalHeader` produces, whatever the reused buffer held before: with the
generated table the five writes tile the buffer, so nothing of the previous header survives. -/
theorem marshalHeader_eq (buf : Bytes) (m : Msg) (hb : buf.length = 48)
    (hid : m.id.length = 16) (ho : m.orig.length = 16) :
    marshalHeader buf m = some (be 4 m.sub ++ be 4 m.len ++ be 8 m.ts ++ m.id ++ m.orig) := by
  simp only [marshalHeader, marshalLayout, List.foldlM_cons, List.foldlM_nil, encSlot, slotInBuf,
    headerLength, Msg.num, Msg.raw]
  simp
  have h1 : put buf 0 (be 4 m.sub) = be 4 m.sub ++ buf.drop 4 := by
    have := put_append [] buf (be 4 m.sub) 0 rfl
    simpa [be_length] using this
  rw [h1]
  rw [put_append (be 4 m.sub) (buf.drop 4) (be 4 m.len) 4 (be_length _ _)]
  rw [put_append (be 4 m.sub ++ be 4 m.len) ((buf.drop 4).drop (be 4 m.len).length) (be 8 m.ts) 8
    (by simp [be_length])]
  have t1 : List.take 16 m.id = m.id := List.take_of_length_le (by omega)
  have t2 : List.take 16 m.orig = m.orig := List.take_of_length_le (by omega)
  rw [t1, t2]
  rw [put_append (be 4 m.sub ++ be 4 m.len ++ be 8 m.ts) _ m.id 16 (by simp [be_length])]
  rw [put_append (be 4 m.sub ++ be 4 m.len ++ be 8 m.ts ++ m.id) _ m.orig 32 (by simp [be_length, hid])]
  have h6 : List.drop m.orig.length (List.drop m.id.length (List.drop (List.length (be 8 m.ts))
      (List.drop (List.length (be 4 m.len)) (List.drop 4 buf)))) = [] := by
    simp [be_length, hid, ho, hb]
  rw [h6]
  simp

/-- `parseHeader` never panics and reads exactly these byte ranges. -/
theorem parseHeader_eq (h : Bytes) :
    parseHeader h = some ⟨fromBE ((slice h 0 4).take 4), fromBE ((slice h 4 8).take 4),
      fromBE ((slice h 8 16).take 8), slice h 16 32, slice h 32 48, []⟩ := by
  simp [parseHeader, parseLayout, decSlot, slotInBuf, headerLength, setNum, setRaw, Msg.zero]

theorem slice_length (h : Bytes) (lo hi : Nat) (hh : hi ≤ h.length) : (slice h lo hi).length = hi - lo := by
  simp [slice]; omega

/-- the middle part of a three-part concatenation, by its offsets -/
theorem slice_mid (x y z : Bytes) (lo hi : Nat) (hlo : x.length = lo) (hhi : lo + y.length = hi) :
    slice (x ++ (y ++ z)) lo hi = y := by
  subst hlo; subst hhi
  simp [slice]

/-- parsing five concatenated fields of the right widths gives them back -/
theorem parseHeader_concat (a b c d e : Bytes) (ha : a.length = 4) (hb : b.length = 4)
    (hc : c.length = 8) (hd : d.length = 16) (he : e.length = 16) :
    parseHeader (a ++ b ++ c ++ d ++ e) = some ⟨fromBE a, fromBE b, fromBE c, d, e, []⟩ := by
  rw [parseHeader_eq]
  have s1 : slice (a ++ b ++ c ++ d ++ e) 0 4 = a := by
    have := slice_mid [] a (b ++ c ++ d ++ e) 0 4 rfl (by omega)
    simpa [List.append_assoc] using this
  have s2 : slice (a ++ b ++ c ++ d ++ e) 4 8 = b := by
    have := slice_mid a b (c ++ d ++ e) 4 8 ha (by omega)
    simpa [List.append_assoc] using this
  have s3 : slice (a ++ b ++ c ++ d ++ e) 8 16 = c := by
    have := slice_mid (a ++ b) c (d ++ e) 8 16 (by simp [ha, hb]) (by omega)
    simpa [List.append_assoc] using this
  have s4 : slice (a ++ b ++ c ++ d ++ e) 16 32 = d := by
    have := slice_mid (a ++ b ++ c) d e 16 32 (by simp [ha, hb, hc]) (by omega)
    simpa [List.append_assoc] using this
  have s5 : slice (a ++ b ++ c ++ d ++ e) 32 48 = e := by
    have := slice_mid (a ++ b ++ c ++ d) e [] 32 48 (by simp [ha, hb, hc, hd]) (by omega)
    simpa [List.append_assoc] using this
  rw [s1, s2, s3, s4, s5]
  have t1 : a.take 4 = a := List.take_of_length_le (by omega)
  have t2 : b.take 4 = b := List.take_of_length_le (by omega)
  have t3 : c.take 8 = c := List.take_of_length_le (by omega)
  rw [t1, t2, t3]

/-- header bytes of a message (closed form of `marshalHeader` under the generated table) -/
def header (m : Msg) : Bytes := be 4 m.sub ++ be 4 m.len ++ be 8 m.ts ++ m.id ++ m.orig

theorem header_length (m : Msg) (hwf : m.WF) : (header m).length = 48 := by
  obtain ⟨_, _, _, hid, ho⟩ := hwf
  simp [header, be_length, hid, ho]

theorem parseHeader_header (m : Msg) (hwf : m.WF) :
    parseHeader (header m) = some { m with payload := [] } := by
  obtain ⟨h1, h2, h3, hid, ho⟩ := hwf
  rw [header, parseHeader_concat _ _ _ _ _ (be_length _ _) (be_length _ _) (be_length _ _) hid ho]
  rw [fromBE_be, fromBE_be, fromBE_be]
  have e1 : m.sub % 256 ^ 4 = m.sub := Nat.mod_eq_of_lt (by omega)
  have e2 : m.len % 256 ^ 4 = m.len := Nat.mod_eq_of_lt (by omega)
  have e3 : m.ts % 256 ^ 8 = m.ts := Nat.mod_eq_of_lt (by omega)
  rw [e1, e2, e3]

/-- encoding a decoded byte string of the same width gives it back (the encoding is canonical) -/
theorem be_fromBE (n : Nat) (bs : Bytes) (h : bs.length = n) : be n (fromBE bs) = bs := by
  induction n generalizing bs with
  | zero => simp [List.length_eq_zero_iff.mp h, be]
  | succ n ih =>
    rcases List.eq_nil_or_concat bs with rfl | ⟨xs, b, rfl⟩
    · simp at h
    · rw [List.concat_eq_append] at h ⊢
      have hx : xs.length = n := by simpa using h
      have hb := b.toNat_lt
      rw [be, fromBE_append_single]
      have e1 : (fromBE xs * 256 + b.toNat) / 256 = fromBE xs := by omega
      have e2 : (fromBE xs * 256 + b.toNat) % 256 = b.toNat := by omega
      rw [e1, e2, ih xs hx]
      simp

/-- `readMsg` as a decision list over the raw bytes (under the generated layout). -/
theorem readMsg_cases (max : Nat) (bs : Bytes) :
    readMsg max bs =
      let h := bs.take 48
      let d := fromBE ((slice h 4 8).take 4)
      if bs.length < 48 then ⟨.err .eof, 0⟩
      else if d > max then ⟨.err .tooBig, 0⟩
      else if (bs.drop 48).length < d then ⟨.err .short, d⟩
      else ⟨.ok ⟨fromBE ((slice h 0 4).take 4), d, fromBE ((slice h 8 16).take 8), slice h 16 32,
              slice h 32 48, (bs.drop 48).take d⟩ ((bs.drop 48).drop d), d⟩ := by
  simp only [readMsg, headerLength, parseHeader_eq]
  rfl

theorem slice_append_slice (h : Bytes) (a b c : Nat) (hab : a ≤ b) (hbc : b ≤ c) :
    slice h a b ++ slice h b c = slice h a c := by
  simp only [slice]
  have e : c - a = (b - a) + (c - b) := by omega
  rw [e, List.take_add, List.drop_drop]
  have : a + (b - a) = b := by omega
  rw [this]

theorem slice_full (h : Bytes) (n : Nat) (hn : h.length = n) : slice h 0 n = h := by
  subst hn; simp [slice]

/-- the five slots of the generated layout tile a 48-byte header -/
theorem slices_tile (h : Bytes) (hl : h.length = 48) :
    slice h 0 4 ++ slice h 4 8 ++ slice h 8 16 ++ slice h 16 32 ++ slice h 32 48 = h := by
  rw [slice_append_slice h 0 4 8 (by omega) (by omega), slice_append_slice h 0 8 16 (by omega) (by omega),
    slice_append_slice h 0 16 32 (by omega) (by omega), slice_append_slice h 0 32 48 (by omega) (by omega),
    slice_full h 48 hl]

/-- the message a header decodes to re-encodes to the same header -/
theorem header_of_parsed (h pl : Bytes) (hl : h.length = 48) :
    header ⟨fromBE ((slice h 0 4).take 4), fromBE ((slice h 4 8).take 4), fromBE ((slice h 8 16).take 8),
      slice h 16 32, slice h 32 48, pl⟩ = h := by
  have l1 := slice_length h 0 4 (by omega)
  have l2 := slice_length h 4 8 (by omega)
  have l3 := slice_length h 8 16 (by omega)
  have t1 : (slice h 0 4).take 4 = slice h 0 4 := List.take_of_length_le (by omega)
  have t2 : (slice h 4 8).take 4 = slice h 4 8 := List.take_of_length_le (by omega)
  have t3 : (slice h 8 16).take 8 = slice h 8 16 := List.take_of_length_le (by omega)
  simp only [header, t1, t2, t3]
  rw [be_fromBE 4 _ (by omega), be_fromBE 4 _ (by omega), be_fromBE 8 _ (by omega)]
  exact slices_tile h hl

theorem parsed_wf (h pl : Bytes) (hl : h.length = 48) :
    Msg.WF ⟨fromBE ((slice h 0 4).take 4), fromBE ((slice h 4 8).take 4), fromBE ((slice h 8 16).take 8),
      slice h 16 32, slice h 32 48, pl⟩ := by
  have l1 := slice_length h 0 4 (by omega)
  have l2 := slice_length h 4 8 (by omega)
  have l3 := slice_length h 8 16 (by omega)
  have t1 : (slice h 0 4).take 4 = slice h 0 4 := List.take_of_length_le (by omega)
  have t2 : (slice h 4 8).take 4 = slice h 4 8 := List.take_of_length_le (by omega)
  have t3 : (slice h 8 16).take 8 = slice h 8 16 := List.take_of_length_le (by omega)
  have b1 := fromBE_lt (slice h 0 4)
  have b2 := fromBE_lt (slice h 4 8)
  have b3 := fromBE_lt (slice h 8 16)
  rw [l1] at b1; rw [l2] at b2; rw [l3] at b3
  refine ⟨?_, ?_, ?_, slice_length h 16 32 (by omega), slice_length h 32 48 (by omega)⟩
  · simp only [t1]; have : (256:Nat) ^ (4 - 0) = 2 ^ 32 := by decide
    omega
  · simp only [t2]; have : (256:Nat) ^ (8 - 4) = 2 ^ 32 := by decide
    omega
  · simp only [t3]; have : (256:Nat) ^ (16 - 8) = 2 ^ 64 := by decide
    omega

end Aergo.Frame
