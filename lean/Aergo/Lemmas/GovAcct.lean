import Aergo.Lemmas.GovMap

/-! Lemmas for C15: balances, staking total, lock rules — what each operation of the `Gov` model does to
the ledger part of the state. -/

namespace Aergo.Gov

/-! ### Balances -/

theorem St.balOf_eq (s : St) (a : Bytes) : s.balOf a = bget s.bal a := rfl

theorem bget_set (m : AMap Bytes Nat) (k k' : Bytes) (v : Nat) :
    bget (m.set k v) k' = if k = k' then v else bget m k' := by
  unfold bget; rw [AMap.get_set]; by_cases h : k = k' <;> simp [h]

/-- What a successful `sendBalance` between two different accounts does. -/
theorem sendBalance_spec {m m' : AMap Bytes Nat} {src dst : Bytes} {amt : Nat}
    (h : sendBalance m src dst amt = some m') (hne : src ≠ dst) :
    amt ≤ bget m src ∧ bget m' src = bget m src - amt ∧ bget m' dst = bget m dst + amt ∧
    ∀ x, x ≠ src → x ≠ dst → bget m' x = bget m x := by
  unfold sendBalance at h
  simp only [hne, if_false] at h
  by_cases hb : bget m src < amt
  · simp [hb] at h
  · simp only [hb, if_false] at h
    injection h with h
    subst h
    refine ⟨by omega, ?_, ?_, ?_⟩
    · rw [bget_set]; simp [Ne.symm hne, bget_set]
    · rw [bget_set]; simp [bget_set, hne]
    · intro x hx hy
      rw [bget_set, if_neg (Ne.symm hy), bget_set, if_neg (Ne.symm hx)]

theorem sendBalance_self (m : AMap Bytes Nat) (a : Bytes) (amt : Nat) : sendBalance m a a amt = some m := by
  simp [sendBalance]

/-- `sendBalance` succeeds whenever the source holds the amount. -/
theorem sendBalance_ok (m : AMap Bytes Nat) (src dst : Bytes) (amt : Nat) (h : amt ≤ bget m src) :
    ∃ m', sendBalance m src dst amt = some m' := by
  unfold sendBalance
  by_cases hne : src = dst
  · simp [hne]
  · simp only [hne, if_false]
    have : ¬ bget m src < amt := by omega
    simp [this]

theorem sendBalance_none {m : AMap Bytes Nat} {src dst : Bytes} {amt : Nat}
    (h : sendBalance m src dst amt = none) : bget m src < amt := by
  by_cases hb : bget m src < amt
  · exact hb
  · obtain ⟨m', hm⟩ := sendBalance_ok m src dst amt (by omega)
    rw [hm] at h; exact absurd h (by simp)

/-- Sum of all balances is unchanged by `sendBalance` — stated per pair of accounts. -/
theorem sendBalance_other {m m' : AMap Bytes Nat} {src dst : Bytes} {amt : Nat}
    (h : sendBalance m src dst amt = some m') (x : Bytes) (hx : x ≠ src) (hy : x ≠ dst) : bget m' x = bget m x := by
  by_cases hne : src = dst
  · subst hne; rw [sendBalance_self] at h; cases h; rfl
  · exact (sendBalance_spec h hne).2.2.2 x hx hy

/-! ### Frames -/

/-- The components `revote` leaves alone. -/
def SameLedger (s s' : St) : Prop :=
  s'.fv = s.fv ∧ s'.accts = s.accts ∧ s'.bal = s.bal ∧ s'.stakes = s.stakes ∧ s'.total = s.total ∧
  s'.votes = s.votes ∧ s'.params = s.params ∧ s'.names = s.names ∧ s'.namesInit = s.namesInit

theorem revote_frame {s s' : St} {i a old new} (h : revote s i a old new = some s') : SameLedger s s' := by
  unfold revote at h
  split at h
  · exact absurd h (by simp)
  · simp only at h
    split at h
    · split at h
      · exact absurd h (by simp)
      · cases h; simp [SameLedger]
      · cases h; simp [SameLedger]
    · cases h; simp [SameLedger]

/-- The components `refreshVotes` leaves alone (it rewrites votes, tallies and the rank). -/
def SameMoney (s s' : St) : Prop :=
  s'.fv = s.fv ∧ s'.accts = s.accts ∧ s'.bal = s.bal ∧ s'.stakes = s.stakes ∧ s'.total = s.total ∧
  s'.params = s.params ∧ s'.names = s.names ∧ s'.namesInit = s.namesInit

theorem SameMoney.refl (s : St) : SameMoney s s := by simp [SameMoney]

theorem SameMoney.trans {a b c : St} (h₁ : SameMoney a b) (h₂ : SameMoney b c) : SameMoney a c := by
  obtain ⟨a1, a2, a3, a4, a5, a6, a7, a8⟩ := h₁
  obtain ⟨b1, b2, b3, b4, b5, b6, b7, b8⟩ := h₂
  exact ⟨b1.trans a1, b2.trans a2, b3.trans a3, b4.trans a4, b5.trans a5, b6.trans a6, b7.trans a7, b8.trans a8⟩

theorem refreshVotes_frame (a : Bytes) (staked : Nat) :
    ∀ (is : List Issue) (s s' : St), refreshVotes a staked is s = some s' → SameMoney s s'
  | [], s, s', h => by simp [refreshVotes] at h; subst h; exact SameMoney.refl _
  | i :: is, s, s', h => by
    unfold refreshVotes at h
    split at h
    · exact refreshVotes_frame a staked is s s' h
    · split at h
      · exact refreshVotes_frame a staked is s s' h
      · simp only at h
        split at h
        · exact absurd h (by simp)
        · rename_i s1 hs1
          have f1 := revote_frame hs1
          have f2 := refreshVotes_frame a staked is _ s' h
          refine SameMoney.trans ?_ f2
          obtain ⟨b1, b2, b3, b4, b5, _, b7, b8, b9⟩ := f1
          exact ⟨b1, b2, b3, b4, b5, b7, b8, b9⟩

/-! ### The staking total -/

/-- Σ of the staking records. -/
def stakeSum (m : AMap Bytes Staking) : Nat := AMap.sum (fun e => e.2.amount) m

theorem St.stakedAmount_eq (s : St) (a : Bytes) :
    s.stakedAmount a = AMap.at (fun e => e.2.amount) s.stakes a := by
  unfold St.stakedAmount AMap.at; cases s.stakes.get a <;> rfl

/-- total = Σ stakes, with unique record keys. -/
structure InvTotal (s : St) : Prop where
  nodup : s.stakes.keys.Nodup
  total : s.total = stakeSum s.stakes

theorem stakeSum_set {m : AMap Bytes Staking} (hn : m.keys.Nodup) (a : Bytes) (st : Staking) :
    stakeSum (m.set a st) + AMap.at (fun e => e.2.amount) m a = stakeSum m + st.amount :=
  AMap.sum_set (fun (e : Bytes × Staking) => e.2.amount) hn a st

end Aergo.Gov
