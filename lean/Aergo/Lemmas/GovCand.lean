import Aergo.Lemmas.GovStep
import Aergo.Lemmas.GovLess

/-! Lemmas for C15: every candidate of the block-producer tally (and of every recorded producer vote) is
39 bytes long — the class on which `VoteList.Less` is a strict total order. -/

namespace Aergo.Gov

/-- Key predicate: a block-producer candidate is 39 bytes long. -/
def Key39 (k : Issue × Bytes) : Prop := k.1 = .bp → k.2.length = 39

theorem mem_set {κ ν : Type} [DecidableEq κ] {m : AMap κ ν} {k : κ} {v : ν} {e : κ × ν} (h : e ∈ m.set k v) :
    e = (k, v) ∨ e ∈ m := by
  rcases List.mem_cons.mp h with h | h
  · exact Or.inl h
  · exact Or.inr (List.mem_filter.mp h).1

theorem chunks39_len : ∀ (f : Nat) (b : Bytes), b.length % 39 = 0 → ∀ c ∈ chunks39 f b, c.length = 39
  | 0, _, _, c, hc => by simp [chunks39] at hc
  | f + 1, b, hb, c, hc => by
    unfold chunks39 at hc
    by_cases he : b.isEmpty = true
    · simp [he] at hc
    · simp only [he] at hc
      have hne : b ≠ [] := by simpa using he
      have hlen : 39 ≤ b.length := by
        have : 0 < b.length := List.length_pos_iff.mpr hne
        omega
      rcases List.mem_cons.mp hc with rfl | hc
      · simp; omega
      · exact chunks39_len f (b.drop 39) (by simp; omega) c hc

theorem subVotes_keys {Q : Issue × Bytes → Prop} (i : Issue) (amt : Nat) :
    ∀ (cs : List Bytes) (t t' : AMap (Issue × Bytes) Int), subVotes t i amt cs = some t' →
      (∀ e ∈ t, Q e.1) → (∀ c ∈ cs, Q (i, c)) → ∀ e ∈ t', Q e.1
  | [], t, t', h, ht, _ => by simp [subVotes] at h; subst h; exact ht
  | c :: cs, t, t', h, ht, hc => by
    unfold subVotes at h
    split at h
    · exact absurd h (by simp)
    · apply subVotes_keys (Q := Q) i amt cs _ t' h
      · intro e he
        rcases mem_set he with rfl | he
        · exact hc c List.mem_cons_self
        · exact ht e he
      · exact fun c' hc' => hc c' (List.mem_cons_of_mem _ hc')

theorem addVotes_keys {Q : Issue × Bytes → Prop} (i : Issue) (amt : Nat) :
    ∀ (cs : List Bytes) (t : AMap (Issue × Bytes) Int),
      (∀ e ∈ t, Q e.1) → (∀ c ∈ cs, Q (i, c)) → ∀ e ∈ addVotes t i amt cs, Q e.1
  | [], t, ht, _ => by simpa [addVotes] using ht
  | c :: cs, t, ht, hc => by
    unfold addVotes
    apply addVotes_keys (Q := Q) i amt cs
    · intro e he
      rcases mem_set he with rfl | he
      · exact hc c List.mem_cons_self
      · exact ht e he
    · exact fun c' hc' => hc c' (List.mem_cons_of_mem _ hc')

theorem revoteTally_keys {Q : Issue × Bytes → Prop} {t t' : AMap (Issue × Bytes) Nat} {i : Issue} {old : Option Vote}
    {new : Vote} (h : revoteTally t i old new = some t') (ht : ∀ e ∈ t, Q e.1)
    (ho : ∀ c ∈ oldCands old, Q (i, c)) (hn : ∀ c ∈ new.cands, Q (i, c)) : ∀ e ∈ t', Q e.1 := by
  unfold revoteTally at h
  split at h
  · exact absurd h (by simp)
  · rename_i t1 h1
    injection h with h; subst h
    have hl : ∀ e ∈ tallyLoad t, Q e.1 := by
      intro e he
      obtain ⟨x, hx, rfl⟩ := List.mem_map.mp he
      exact ht x hx
    have h2 := subVotes_keys i _ _ _ _ h1 hl ho
    have h3 := addVotes_keys i new.amount new.cands t1 h2 hn
    intro e he
    obtain ⟨x, hx, rfl⟩ := List.mem_map.mp he
    exact h3 x hx

/-- Candidates of the BP tally and of the recorded BP votes are 39 bytes long. -/
structure InvCand (s : St) : Prop where
  tally : ∀ e ∈ s.tally, Key39 e.1
  votes : ∀ e ∈ s.votes, ∀ c ∈ e.2.cands, Key39 (e.1.1, c)

theorem mem_setVote {m : AMap (Issue × Bytes) Vote} {i : Issue} {a : Bytes} {v : Vote} {e : (Issue × Bytes) × Vote}
    (h : e ∈ setVote m i a v) : e = ((i, a), v) ∨ e ∈ m := by
  unfold setVote at h
  split at h
  · exact Or.inr (List.mem_filter.mp h).1
  · exact mem_set h

theorem invCand_revote {s0 s s' : St} (h0 : InvCand s0) {i : Issue} {a : Bytes} {new : Vote}
    (ht : s.tally = s0.tally) (hv : s.votes = setVote s0.votes i a new)
    (hn : ∀ c ∈ new.cands, Key39 (i, c))
    (hr : revote s i a (s0.votes.get (i, a)) new = some s') : InvCand s' := by
  have hfr := revote_frame hr
  have htl := revote_tally hr
  rw [ht] at htl
  refine ⟨?_, ?_⟩
  · apply revoteTally_keys htl h0.tally _ hn
    intro c hc
    cases hg : s0.votes.get (i, a) with
    | none => rw [hg] at hc; simp [oldCands] at hc
    | some old =>
      rw [hg] at hc
      exact h0.votes ((i, a), old) (AMap.mem_of_get hg) c hc
  · intro e he c hc
    rw [hfr.2.2.2.2.2.1, hv] at he
    rcases mem_setVote he with rfl | he
    · exact hn c hc
    · exact h0.votes e he c hc

theorem InvCand.of_same {s s' : St} (h : InvCand s) (h1 : s'.tally = s.tally) (h2 : s'.votes = s.votes) : InvCand s' :=
  ⟨by rw [h1]; exact h.tally, by rw [h2]; exact h.votes⟩

theorem refreshVotes_invCand (a : Bytes) (staked : Nat) :
    ∀ (is : List Issue) (s s' : St), refreshVotes a staked is s = some s' → InvCand s → InvCand s'
  | [], s, s', h, hi => by simp [refreshVotes] at h; subst h; exact hi
  | j :: is, s, s', h, hi => by
    unfold refreshVotes at h
    cases hold : s.voteOf j a with
    | none => rw [hold] at h; exact refreshVotes_invCand a staked is s s' h hi
    | some old =>
      rw [hold] at h
      simp only at h
      by_cases hle : old.amount ≤ staked
      · rw [if_pos hle] at h; exact refreshVotes_invCand a staked is s s' h hi
      · rw [if_neg hle] at h
        split at h
        · exact absurd h (by simp)
        · rename_i s1 hs1
          have hold' : some old = s.votes.get (j, a) := hold.symm
          rw [hold'] at hs1
          have h1 : InvCand s1 :=
            invCand_revote (s0 := s) (s := { s with votes := setVote s.votes j a ⟨old.cands, staked⟩ }) hi rfl rfl
              (fun c hc => hi.votes ((j, a), old) (AMap.mem_of_get hold) c hc) hs1
          exact refreshVotes_invCand a staked is s1 s' h h1

theorem issueOfId_ne_bp {id : String} {i : Issue} (h : issueOfId id = some i) : i ≠ .bp := by
  unfold issueOfId at h
  split at h <;> first | (injection h with h; subst h; simp) | exact absurd h (by simp)

theorem invCand_step {s : St} {o : Op} (hi : InvCand s) : InvCand (step s o).2 := by
  rcases step_result s o with hok | hsame
  case inr => rw [hsame]; exact hi
  · have hr : step s o = (.ok, (step s o).2) := Prod.ext hok rfl
    generalize (step s o).2 = s' at hr
    cases o with
    | stake a h amt => obtain ⟨_, bal, _, rfl⟩ := stake_ok hr; exact hi.of_same rfl rfl
    | unstake a h amt =>
      obtain ⟨_, s2, bal, hf, _, rfl⟩ := unstake_ok hr
      have hmid : InvCand (unstakeMid s a h amt) := hi.of_same rfl rfl
      exact (refreshVotes_invCand _ _ _ _ _ hf hmid).of_same rfl rfl
    | voteBP a h c =>
      obtain ⟨hal, hc⟩ := voteBP_ok hr
      obtain ⟨_, hv⟩ := castVote_ok hc
      exact invCand_revote (s0 := s) (s := voteMid s .bp a h _) hi rfl rfl
        (fun c' hc' _ => chunks39_len _ _ hal c' hc') hv
    | voteDAO a h id args =>
      obtain ⟨_, i, hid, _, _, hc⟩ := voteDAO_ok hr
      obtain ⟨_, hv⟩ := castVote_ok hc
      exact invCand_revote (s0 := s) (s := voteMid s i a h _) hi rfl rfl
        (fun c' _ hbp => absurd hbp (issueOfId_ne_bp hid)) hv
    | transfer x y amt => obtain ⟨_, bal, _, rfl⟩ := transfer_ok hr; exact hi.of_same rfl rfl
    | nameCreate a n amt => obtain ⟨_, _, _, bal, _, rfl⟩ := nameCreate_ok hr; exact hi.of_same rfl rfl
    | nameUpdate t sd n to amt => obtain ⟨_, _, _, _, bal, _, rfl⟩ := nameUpdate_ok hr; exact hi.of_same rfl rfl
    | setOwner o => obtain ⟨_, bal, _, rfl⟩ := nameSetOwner_ok hr; exact hi.of_same rfl rfl
    | endBlock => simp only [step, Prod.mk.injEq, true_and] at hr; subst hr; exact hi.of_same rfl rfl
    | restart => simp only [step, Prod.mk.injEq, true_and] at hr; subst hr; exact hi.of_same rfl rfl

theorem mem_entriesOf {t : AMap (Issue × Bytes) Nat} {i : Issue} {e : Entry} (h : e ∈ entriesOf t i) :
    ((i, e.1), e.2) ∈ t := by
  unfold entriesOf at h
  obtain ⟨x, hx, rfl⟩ := List.mem_map.mp h
  have hx' := List.mem_filter.mp hx
  have : x.1.1 = i := by simpa using hx'.2
  have e' : ((i, x.1.2), x.2) = x := by rw [← this]
  rw [e']; exact hx'.1

theorem entriesOf_nodup (i : Issue) : ∀ (t : AMap (Issue × Bytes) Nat), t.keys.Nodup → ((entriesOf t i).map (·.1)).Nodup
  | [], _ => by simp [entriesOf]
  | e :: r, hn => by
    have hn' : (AMap.keys r).Nodup ∧ e.1 ∉ AMap.keys r := by
      simp only [AMap.keys, List.map_cons, List.nodup_cons] at hn; exact ⟨hn.2, hn.1⟩
    have ih := entriesOf_nodup i r hn'.1
    by_cases hi : e.1.1 = i
    · have : entriesOf (e :: r) i = (e.1.2, e.2) :: entriesOf r i := by
        unfold entriesOf; rw [List.filter_cons_of_pos (by simp [hi])]; rfl
      rw [this]
      simp only [List.map_cons, List.nodup_cons]
      refine ⟨?_, ih⟩
      intro hm
      obtain ⟨x, hx, hxe⟩ := List.mem_map.mp hm
      have := mem_entriesOf hx
      apply hn'.2
      have hk : e.1 = (i, x.1) := by rw [← hi, hxe]
      rw [hk]
      exact List.mem_map.mpr ⟨((i, x.1), x.2), this, rfl⟩
    · have : entriesOf (e :: r) i = entriesOf r i := by
        unfold entriesOf; rw [List.filter_cons_of_neg (by simp [hi])]
      rw [this]; exact ih

/-- The entries of the block-producer ranking are in the class on which `Less` is a strict total order, and
their candidates are pairwise different. -/
theorem bp_entries {s : St} (hi : InvCand s) (hn : s.tally.keys.Nodup) :
    (∀ e ∈ entriesOf s.tally .bp, Is39 e) ∧ ((entriesOf s.tally .bp).map (·.1)).Nodup := by
  refine ⟨fun e he => ?_, entriesOf_nodup .bp s.tally hn⟩
  exact hi.tally _ (mem_entriesOf he) rfl

end Aergo.Gov
