import Aergo.Model.Gov

/-! Lemmas for C15: round-trip laws of the record codecs (staking, vote, parameter vote, vote list entry,
voting-power entry, name map), each under exactly the framing condition the Go decoder relies on. -/

namespace Aergo.Gov

theorem leBytes_length : ∀ k n, (leBytes k n).length = k
  | 0, _ => rfl
  | k + 1, n => by simp [leBytes, leBytes_length k]

theorem leNat_leBytes : ∀ k n, leNat (leBytes k n) = n % 256 ^ k
  | 0, n => by simp [leBytes, leNat, Nat.mod_one]
  | k + 1, n => by
    simp only [leBytes, leNat, leNat_leBytes k]
    have h1 : (UInt8.ofNat (n % 256)).toNat = n % 256 := by
      simp [UInt8.toNat_ofNat']
    rw [h1, Nat.pow_succ, Nat.mul_comm (256 ^ k) 256, Nat.mod_mul]

theorem le64_length (n : Nat) : (le64 n).length = 8 := leBytes_length 8 n

theorem leNat_le64 {n : Nat} (h : n < 2 ^ 64) : leNat (le64 n) = n := by
  unfold le64; rw [leNat_leBytes]; exact Nat.mod_eq_of_lt (by simpa using h)

theorem le16_length (n : Nat) : (le16 n).length = 2 := leBytes_length 2 n

theorem leNat_le16 {n : Nat} (h : n < 65536) : leNat (le16 n) = n := by
  unfold le16; rw [leNat_leBytes]; exact Nat.mod_eq_of_lt (by simpa using h)

theorem take_append_len {α} (a b : List α) : (a ++ b).take a.length = a := by simp
theorem drop_append_len {α} (a b : List α) : (a ++ b).drop a.length = b := by simp

/-- Staking record: any amount bytes, block number below 2^64. -/
theorem staking_roundtrip (w : Nat) (a : Bytes) (hw : w < 2 ^ 64) :
    deserStaking (serStaking w a) = some (w, a) := by
  unfold deserStaking serStaking
  have h8 := le64_length w
  have hl : ¬ (le64 w ++ a).length < 8 := by simp [h8]
  rw [if_neg hl]
  have t : (le64 w ++ a).take 8 = le64 w := by rw [← h8]; exact take_append_len _ _
  have d : (le64 w ++ a).drop 8 = a := by rw [← h8]; exact drop_append_len _ _
  rw [t, d, leNat_le64 hw]

/-- Vote record of the BP election: the decoder splits at `len % 39`, so the candidates must be a multiple
of 39 bytes and the amount shorter than 39 bytes (a `big.Int` below 2^304; amounts are below 2^89). -/
theorem vote_roundtrip (c a : Bytes) (hc : c.length % 39 = 0) (ha : a.length < 39) :
    deserVote (serVote c a) = (c, a) := by
  unfold deserVote serVote peerIDLength
  have hlen : (c ++ a).length = c.length + a.length := by simp
  have hmod : (c ++ a).length % 39 = a.length := by rw [hlen]; omega
  simp only [hmod]
  have : (c ++ a).length - a.length = c.length := by rw [hlen]; omega
  rw [this, take_append_len, drop_append_len]

/-- Parameter-vote record (length-prefixed candidate): no condition but the uint64 range. -/
theorem voteEx_roundtrip (c a : Bytes) (hc : c.length < 2 ^ 64) : deserVoteEx (serVoteEx c a) = some (c, a) := by
  unfold deserVoteEx serVoteEx
  have h8 := le64_length c.length
  have hl : ¬ (le64 c.length ++ c ++ a).length < 8 := by simp [h8]
  rw [if_neg hl]
  have t : (le64 c.length ++ c ++ a).take 8 = le64 c.length := by
    rw [List.append_assoc, ← h8]; exact take_append_len _ _
  have d : (le64 c.length ++ c ++ a).drop 8 = c ++ a := by
    rw [List.append_assoc, ← h8]; exact drop_append_len _ _
  simp only [t, leNat_le64 hc, d]
  have hl2 : ¬ (le64 c.length ++ c ++ a).length < 8 + c.length := by simp [h8]
  rw [if_neg hl2]
  have d2 : (le64 c.length ++ c ++ a).drop (8 + c.length) = a := by
    have : 8 + c.length = (le64 c.length ++ c).length := by simp [h8]
    rw [this]; exact drop_append_len _ _
  rw [take_append_len, d2]

/-- Name record. -/
theorem nameMap_roundtrip (o d : Bytes) (ho : o.length < 2 ^ 64) (hd : d.length < 2 ^ 64) :
    deserNameMap (serNameMap o d) = some (o, d) := by
  unfold deserNameMap serNameMap
  have h8o := le64_length o.length
  have h8d := le64_length d.length
  have e : ([1] ++ le64 o.length ++ o ++ le64 d.length ++ d : Bytes)
      = 1 :: (le64 o.length ++ (o ++ (le64 d.length ++ d))) := by simp
  rw [e]
  simp only
  have t1 : (le64 o.length ++ (o ++ (le64 d.length ++ d))).take 8 = le64 o.length := by
    rw [← h8o]; exact take_append_len _ _
  have d1 : (le64 o.length ++ (o ++ (le64 d.length ++ d))).drop 8 = o ++ (le64 d.length ++ d) := by
    rw [← h8o]; exact drop_append_len _ _
  have d2 : (o ++ (le64 d.length ++ d)).drop o.length = le64 d.length ++ d := drop_append_len _ _
  have t2 : (le64 d.length ++ d).take 8 = le64 d.length := by rw [← h8d]; exact take_append_len _ _
  have d3 : (o ++ (le64 d.length ++ d)).drop (o.length + 8) = d := by
    rw [← List.drop_drop, d2, ← h8d]; exact drop_append_len _ _
  rw [t1, d1, leNat_le64 ho, d2, t2, leNat_le64 hd, d3]
  have hl1 : ¬ (le64 o.length ++ (o ++ (le64 d.length ++ d))).length < 8 := by simp [h8o]
  have hl2 : ¬ (o ++ (le64 d.length ++ d)).length < o.length + 8 := by simp [h8d]
  rw [if_neg (by simp), if_neg hl1, if_neg hl2, if_neg (by omega)]
  simp

/-- Voting-power entry followed by anything: 32-byte id, address and power bytes shorter than 65536. -/
theorem vp_roundtrip (id addr pwr rest : Bytes) (hid : id.length = 32) (ha : addr.length < 65536)
    (hp : pwr.length < 65536) :
    unmarshalVP (marshalVP id addr pwr ++ rest) = some (id, addr, pwr, 36 + addr.length + pwr.length) := by
  unfold unmarshalVP marshalVP
  have e : (id ++ le16 addr.length ++ addr ++ le16 pwr.length ++ pwr ++ rest : Bytes)
      = id ++ (le16 addr.length ++ (addr ++ (le16 pwr.length ++ (pwr ++ rest)))) := by simp
  rw [e]
  have l2a := le16_length addr.length
  have l2p := le16_length pwr.length
  have hl1 : ¬ (id ++ (le16 addr.length ++ (addr ++ (le16 pwr.length ++ (pwr ++ rest))))).length < 34 := by
    simp [hid, l2a, l2p]; omega
  have d32 : (id ++ (le16 addr.length ++ (addr ++ (le16 pwr.length ++ (pwr ++ rest))))).drop 32
      = le16 addr.length ++ (addr ++ (le16 pwr.length ++ (pwr ++ rest))) := by
    rw [← hid]; exact drop_append_len _ _
  have t2 : (le16 addr.length ++ (addr ++ (le16 pwr.length ++ (pwr ++ rest)))).take 2 = le16 addr.length := by
    rw [← l2a]; exact take_append_len _ _
  simp only [hl1, if_false, d32, t2, leNat_le16 ha]
  have hl2 : ¬ (id ++ (le16 addr.length ++ (addr ++ (le16 pwr.length ++ (pwr ++ rest))))).length < 36 + addr.length := by
    simp [hid, l2a, l2p]; omega
  have d34 : (id ++ (le16 addr.length ++ (addr ++ (le16 pwr.length ++ (pwr ++ rest))))).drop 34
      = addr ++ (le16 pwr.length ++ (pwr ++ rest)) := by
    have : 34 = (id ++ le16 addr.length).length := by simp [hid, l2a]
    rw [this, ← List.append_assoc]; exact drop_append_len _ _
  have d34a : (id ++ (le16 addr.length ++ (addr ++ (le16 pwr.length ++ (pwr ++ rest))))).drop (34 + addr.length)
      = le16 pwr.length ++ (pwr ++ rest) := by
    rw [← List.drop_drop, d34]; exact drop_append_len _ _
  have t2p : (le16 pwr.length ++ (pwr ++ rest)).take 2 = le16 pwr.length := by
    rw [← l2p]; exact take_append_len _ _
  have d36 : (id ++ (le16 addr.length ++ (addr ++ (le16 pwr.length ++ (pwr ++ rest))))).drop (36 + addr.length)
      = pwr ++ rest := by
    have : 36 + addr.length = (34 + addr.length) + 2 := by omega
    rw [this, ← List.drop_drop, d34a, ← l2p]; exact drop_append_len _ _
  have t32 : (id ++ (le16 addr.length ++ (addr ++ (le16 pwr.length ++ (pwr ++ rest))))).take 32 = id := by
    rw [← hid]; exact take_append_len _ _
  simp only [hl2, if_false, d34a, t2p, leNat_le16 hp, d36, t32, d34, take_append_len]
  have hlen : (id ++ (le16 addr.length ++ (addr ++ (le16 pwr.length ++ (pwr ++ rest))))).length
      = 36 + addr.length + pwr.length + rest.length := by simp [hid, l2a, l2p]; omega
  rw [hlen]
  by_cases hr : rest.length = 0
  · have : rest = [] := List.length_eq_zero_iff.mp hr
    subst this
    simp
  · have : 36 + addr.length + pwr.length < 36 + addr.length + pwr.length + rest.length := by omega
    simp [this]

end Aergo.Gov

namespace Aergo.Gov

/-! ### Lists of records -/

/-- One element of a persisted vote list. -/
def elemSer (ex : Bool) (e : Bytes × Bytes) : Bytes := if ex then serVoteEx e.1 e.2 else serVote e.1 e.2

/-- The framing condition of one element. -/
def ElemOk (ex : Bool) (e : Bytes × Bytes) : Prop :=
  (if ex then e.1.length < 2 ^ 64 else (e.1.length % 39 = 0 ∧ e.2.length < 39)) ∧ (elemSer ex e).length < 2 ^ 64

theorem serVoteList_cons (ex : Bool) (e : Bytes × Bytes) (r : List (Bytes × Bytes)) :
    serVoteList ex (e :: r) = le64 (elemSer ex e).length ++ elemSer ex e ++ serVoteList ex r := by
  obtain ⟨c, a⟩ := e
  simp only [serVoteList, elemSer]

theorem serVoteList_length_ge (ex : Bool) : ∀ l : List (Bytes × Bytes), l.length ≤ (serVoteList ex l).length
  | [] => by simp [serVoteList]
  | e :: r => by
    rw [serVoteList_cons]
    have := serVoteList_length_ge ex r
    have h8 := le64_length (elemSer ex e).length
    simp [h8]; omega

theorem deserVoteListAux_ser (ex : Bool) :
    ∀ (l : List (Bytes × Bytes)) (f : Nat), l.length < f → (∀ e ∈ l, ElemOk ex e) →
      deserVoteListAux ex f (serVoteList ex l) = some l
  | [], f, hf, _ => by
    cases f with
    | zero => omega
    | succ f => simp [deserVoteListAux, serVoteList]
  | e :: r, f, hf, hok => by
    cases f with
    | zero => simp at hf
    | succ f =>
      have he := hok e List.mem_cons_self
      have ih := deserVoteListAux_ser ex r f (by simp at hf; omega) (fun x hx => hok x (List.mem_cons_of_mem _ hx))
      rw [serVoteList_cons]
      obtain ⟨s, hs⟩ : ∃ s, s = elemSer ex e := ⟨_, rfl⟩
      rw [← hs]
      have hlen : s.length < 2 ^ 64 := by rw [hs]; exact he.2
      have h8 := le64_length s.length
      unfold deserVoteListAux
      have e1 : (le64 s.length ++ s ++ serVoteList ex r).isEmpty = false := by
        cases hle : le64 s.length with
        | nil => rw [hle] at h8; simp at h8
        | cons x t => simp
      have e2 : ¬ (le64 s.length ++ s ++ serVoteList ex r).length < 8 := by simp [h8]
      have t8 : (le64 s.length ++ s ++ serVoteList ex r).take 8 = le64 s.length := by
        rw [List.append_assoc, ← h8]; exact take_append_len _ _
      have d8 : (le64 s.length ++ s ++ serVoteList ex r).drop 8 = s ++ serVoteList ex r := by
        rw [List.append_assoc, ← h8]; exact drop_append_len _ _
      have e3 : ¬ (le64 s.length ++ s ++ serVoteList ex r).length < 8 + s.length := by simp [h8]
      have d8s : (le64 s.length ++ s ++ serVoteList ex r).drop (8 + s.length) = serVoteList ex r := by
        have : 8 + s.length = (le64 s.length ++ s).length := by simp [h8]
        rw [this]; exact drop_append_len _ _
      simp only [e1, Bool.false_eq_true, if_false, e2, t8, leNat_le64 hlen, e3, d8, take_append_len, d8s, ih]
      have hdec : (if ex = true then deserVoteEx s else some (deserVote s)) = some e := by
        obtain ⟨c, a⟩ := e
        cases ex with
        | true =>
          simp only [hs, elemSer, if_true]
          exact voteEx_roundtrip c a (by simpa [ElemOk] using he.1)
        | false =>
          simp only [hs, elemSer, Bool.false_eq_true, if_false]
          have := he.1; simp only [Bool.false_eq_true, if_false] at this
          rw [vote_roundtrip c a this.1 this.2]
      rw [hdec]

/-- Persisted vote list (the ranking) round trip: every element framed correctly. -/
theorem voteList_roundtrip (ex : Bool) (l : List (Bytes × Bytes)) (hok : ∀ e ∈ l, ElemOk ex e) :
    deserVoteList ex (serVoteList ex l) = some l := by
  unfold deserVoteList
  exact deserVoteListAux_ser ex l _ (by have := serVoteList_length_ge ex l; omega) hok

/-- The well-formedness of one persisted voting-power entry. -/
def VpOk (e : Bytes × Bytes × Bytes) : Prop := e.1.length = 32 ∧ e.2.1.length < 65536 ∧ e.2.2.length < 65536

theorem marshalBucket_length_ge : ∀ l : List (Bytes × Bytes × Bytes), l.length ≤ (marshalBucket l).length
  | [] => by simp [marshalBucket]
  | (id, addr, pwr) :: r => by
    have := marshalBucket_length_ge r
    simp [marshalBucket, marshalVP, le16_length]; omega

theorem unmarshalBucketAux_marshal :
    ∀ (l : List (Bytes × Bytes × Bytes)) (f : Nat), l.length < f → (∀ e ∈ l, VpOk e) →
      unmarshalBucketAux f (marshalBucket l) = some l
  | [], f, hf, _ => by
    cases f with
    | zero => omega
    | succ f => simp [unmarshalBucketAux, marshalBucket]
  | (id, addr, pwr) :: r, f, hf, hok => by
    cases f with
    | zero => simp at hf
    | succ f =>
      have he : VpOk (id, addr, pwr) := hok _ List.mem_cons_self
      have ih := unmarshalBucketAux_marshal r f (by simp at hf; omega) (fun x hx => hok x (List.mem_cons_of_mem _ hx))
      simp only [marshalBucket]
      unfold unmarshalBucketAux
      have hne : (marshalVP id addr pwr ++ marshalBucket r).isEmpty = false := by
        have : 0 < (marshalVP id addr pwr ++ marshalBucket r).length := by
          simp [marshalVP, le16_length, he.1]; omega
        cases hm : marshalVP id addr pwr ++ marshalBucket r with
        | nil => rw [hm] at this; simp at this
        | cons x t => simp
      rw [vp_roundtrip id addr pwr (marshalBucket r) he.1 he.2.1 he.2.2]
      simp only [hne, Bool.false_eq_true, if_false]
      have hd : (marshalVP id addr pwr ++ marshalBucket r).drop (36 + addr.length + pwr.length) = marshalBucket r := by
        have : 36 + addr.length + pwr.length = (marshalVP id addr pwr).length := by
          simp [marshalVP, le16_length, he.1]; omega
        rw [this]; exact drop_append_len _ _
      rw [hd, ih]

/-- Persisted voting-power bucket round trip. -/
theorem bucket_roundtrip (l : List (Bytes × Bytes × Bytes)) (hok : ∀ e ∈ l, VpOk e) :
    unmarshalBucket (marshalBucket l) = some l := by
  unfold unmarshalBucket
  exact unmarshalBucketAux_marshal l _ (by have := marshalBucket_length_ge l; omega) hok

end Aergo.Gov
