/-
History-based specification of the lock period (C15, clause 5): what a *trace* — the operations submitted and the
answers they got — says about an account, without looking at the model state; and the link to the state
(`when_eq_lastAct`: the staking record's `When` is the height of the account's last successful stake, unstake or vote).
Core Lean only.
-/
import Aergo.Lemmas.GovStep

namespace Aergo.Gov

/-- The height at which the operation acts on account `a`'s lock period (stake, unstake, producer or parameter vote sent by
`a`); `none` for everything else. -/
def Op.actionOf (a : Bytes) : Op → Option Nat
  | .stake x h _ => if x = a then some h else none
  | .unstake x h _ => if x = a then some h else none
  | .voteBP x h _ => if x = a then some h else none
  | .voteDAO x h _ _ => if x = a then some h else none
  | _ => none

/-- The operations of a history with the answers they got. -/
def traceOf : St → List Op → List (Op × Res)
  | _, [] => []
  | s, o :: os => (o, (step s o).1) :: traceOf (step s o).2 os

/-- The height of `a`'s last *successful* stake, unstake or vote in a trace (`acc`: what was known before it). -/
def lastActFrom (a : Bytes) (acc : Option Nat) : List (Op × Res) → Option Nat
  | [] => acc
  | (o, r) :: tr =>
    lastActFrom a (if r = .ok then (match o.actionOf a with | some h => some h | none => acc) else acc) tr

def lastAct (a : Bytes) (tr : List (Op × Res)) : Option Nat := lastActFrom a none tr

/-- `When` of the staking record, if there is one. -/
def St.whenOf (s : St) (a : Bytes) : Option Nat := (s.stakes.get a).map (·.when)

theorem whenOf_set (s : St) (a b : Bytes) (st : Staking) (s' : St) (h : s'.stakes = s.stakes.set b st) :
    s'.whenOf a = if b = a then some st.when else s.whenOf a := by
  unfold St.whenOf; rw [h, AMap.get_set]
  by_cases hb : b = a <;> simp [hb]

theorem whenOf_same (s s' : St) (a : Bytes) (h : s'.stakes = s.stakes) : s'.whenOf a = s.whenOf a := by
  unfold St.whenOf; rw [h]

/-- One operation: a successful stake / unstake / vote by `a` at height `h` makes `When = h`; anything else (another account,
another kind of operation, a refused one) leaves `a`'s record alone. -/
theorem step_whenOf (s : St) (o : Op) (a : Bytes) :
    (step s o).2.whenOf a =
      if (step s o).1 = .ok then (match o.actionOf a with | some h => some h | none => s.whenOf a) else s.whenOf a := by
  rcases step_result s o with hok | hsame
  case inr =>
    by_cases hr : (step s o).1 = .ok
    · -- executed and unchanged at once is impossible for the acting operations; derive from the executed case below
      rw [if_pos hr]
      have hr' : step s o = (.ok, (step s o).2) := Prod.ext hr rfl
      generalize hs' : (step s o).2 = s' at hr' hsame
      cases o with
      | stake x h amt =>
        obtain ⟨_, bal, _, e⟩ := stake_ok hr'
        simp only [Op.actionOf]
        rw [e, whenOf_set s a x _ _ rfl]
        by_cases hx : x = a <;> simp [hx]
      | unstake x h amt =>
        obtain ⟨_, s2, bal, hf, _, e⟩ := unstake_ok hr'
        obtain ⟨_, _, _, hst, _⟩ := refreshVotes_frame _ _ _ _ _ hf
        simp only [Op.actionOf]
        rw [e]
        show s2.whenOf a = _
        rw [whenOf_set s a x ⟨s.stakedAmount x - amt, h⟩ s2 (by rw [hst]; rfl)]
        by_cases hx : x = a <;> simp [hx]
      | voteBP x h c =>
        obtain ⟨_, hv⟩ := castVote_ok (voteBP_ok hr').2
        obtain ⟨_, _, _, hst, _⟩ := revote_frame hv
        simp only [Op.actionOf]
        rw [whenOf_set s a x ⟨s.stakedAmount x, h⟩ s' (by rw [hst]; rfl)]
        by_cases hx : x = a <;> simp [hx]
      | voteDAO x h id args =>
        obtain ⟨_, i, _, _, _, hc⟩ := voteDAO_ok hr'
        obtain ⟨_, hv⟩ := castVote_ok hc
        obtain ⟨_, _, _, hst, _⟩ := revote_frame hv
        simp only [Op.actionOf]
        rw [whenOf_set s a x ⟨s.stakedAmount x, h⟩ s' (by rw [hst]; rfl)]
        by_cases hx : x = a <;> simp [hx]
      | transfer x y amt => simp only [Op.actionOf]; rw [hsame]
      | nameCreate x n amt => simp only [Op.actionOf]; rw [hsame]
      | nameUpdate t sd n to amt => simp only [Op.actionOf]; rw [hsame]
      | setOwner w => simp only [Op.actionOf]; rw [hsame]
      | endBlock => simp only [Op.actionOf]; rw [hsame]
      | restart => simp only [Op.actionOf]; rw [hsame]
    · rw [if_neg hr, hsame]
  · rw [if_pos hok]
    have hr' : step s o = (.ok, (step s o).2) := Prod.ext hok rfl
    generalize (step s o).2 = s' at hr'
    cases o with
    | stake x h amt =>
      obtain ⟨_, bal, _, e⟩ := stake_ok hr'
      simp only [Op.actionOf]
      rw [e, whenOf_set s a x _ _ rfl]
      by_cases hx : x = a <;> simp [hx]
    | unstake x h amt =>
      obtain ⟨_, s2, bal, hf, _, e⟩ := unstake_ok hr'
      obtain ⟨_, _, _, hst, _⟩ := refreshVotes_frame _ _ _ _ _ hf
      simp only [Op.actionOf]
      rw [e]
      show s2.whenOf a = _
      rw [whenOf_set s a x ⟨s.stakedAmount x - amt, h⟩ s2 (by rw [hst]; rfl)]
      by_cases hx : x = a <;> simp [hx]
    | voteBP x h c =>
      obtain ⟨_, hv⟩ := castVote_ok (voteBP_ok hr').2
      obtain ⟨_, _, _, hst, _⟩ := revote_frame hv
      simp only [Op.actionOf]
      rw [whenOf_set s a x ⟨s.stakedAmount x, h⟩ s' (by rw [hst]; rfl)]
      by_cases hx : x = a <;> simp [hx]
    | voteDAO x h id args =>
      obtain ⟨_, i, _, _, _, hc⟩ := voteDAO_ok hr'
      obtain ⟨_, hv⟩ := castVote_ok hc
      obtain ⟨_, _, _, hst, _⟩ := revote_frame hv
      simp only [Op.actionOf]
      rw [whenOf_set s a x ⟨s.stakedAmount x, h⟩ s' (by rw [hst]; rfl)]
      by_cases hx : x = a <;> simp [hx]
    | transfer x y amt => obtain ⟨_, bal, _, rfl⟩ := transfer_ok hr'; rfl
    | nameCreate x n amt => obtain ⟨_, _, _, bal, _, rfl⟩ := nameCreate_ok hr'; rfl
    | nameUpdate t sd n to amt => obtain ⟨_, _, _, _, bal, _, rfl⟩ := nameUpdate_ok hr'; rfl
    | setOwner w => obtain ⟨_, bal, _, rfl⟩ := nameSetOwner_ok hr'; rfl
    | endBlock => simp only [step, Prod.mk.injEq, true_and] at hr'; subst hr'; rfl
    | restart => simp only [step, Prod.mk.injEq, true_and] at hr'; subst hr'; rfl

/-- The link between the state and the history: for every history, the record's `When` is what the trace says. -/
theorem whenOf_runOps (a : Bytes) : ∀ (ops : List Op) (s : St),
    (runOps s ops).whenOf a = lastActFrom a (s.whenOf a) (traceOf s ops)
  | [], _ => rfl
  | o :: os, s => by
    show (runOps (step s o).2 os).whenOf a = lastActFrom a _ (traceOf (step s o).2 os)
    rw [whenOf_runOps a os (step s o).2, step_whenOf]

end Aergo.Gov
