import Aergo.Lemmas.GovOps

/-! Lemmas for C15: the ledger invariant `total = Σ stakes = balance of aergo.system` is preserved by every
operation (under the guard that nothing but staking credits or debits the staking account). -/

namespace Aergo.Gov

/-! ### Remaining operations: exact effects -/

theorem voteBP_ok {s s' : St} {a : Bytes} {h : Nat} {cs : List Bytes} (hr : voteBP s a h cs = (.ok, s')) :
    cs.flatten.length % 39 = 0 ∧ castVote s .bp a h (chunks39 cs.flatten.length cs.flatten) = (.ok, s') := by
  unfold voteBP at hr
  simp only at hr
  by_cases hm : cs.flatten.length % 39 ≠ 0
  · rw [if_pos hm] at hr; simp at hr
  · rw [if_neg hm] at hr; exact ⟨by omega, hr⟩

theorem voteDAO_ok {s s' : St} {a : Bytes} {h : Nat} {id : String} {args : List Bytes}
    (hr : voteDAO s a h id args = (.ok, s')) :
    2 ≤ s.fv ∧ ∃ i, issueOfId id = some i ∧ args.length = 1 ∧
      (∀ c ∈ args, ∃ v, parseSigned c = some v ∧ validSigned i v = true) ∧ castVote s i a h args = (.ok, s') := by
  unfold voteDAO at hr
  by_cases h1 : s.fv < 2
  · rw [if_pos h1] at hr; simp at hr
  · rw [if_neg h1] at hr
    cases hi : issueOfId id with
    | none => rw [hi] at hr; simp at hr
    | some i =>
      rw [hi] at hr
      simp only at hr
      by_cases h2 : args.length < 1
      · rw [if_pos h2] at hr; simp at hr
      · rw [if_neg h2] at hr
        by_cases h3 : args.length > 1
        · rw [if_pos h3] at hr; simp at hr
        · rw [if_neg h3] at hr
          by_cases h4 : args.any (fun c => (parseSigned c).isNone) = true
          · rw [if_pos h4] at hr; simp at hr
          · rw [if_neg h4] at hr
            by_cases h5 : args.any (daoArgBad i) = true
            · rw [if_pos h5] at hr; simp at hr
            · rw [if_neg h5] at hr
              refine ⟨by omega, i, rfl, by omega, ?_, hr⟩
              intro c hc
              simp only [List.any_eq_true, not_exists, not_and] at h5
              have := h5 c hc
              unfold daoArgBad at this
              cases hp : parseSigned c with
              | none => rw [hp] at this; simp at this
              | some n => rw [hp] at this; exact ⟨n, rfl, by simpa using this⟩

theorem transfer_ok {s s' : St} {x y : Bytes} {amt : Nat} (hr : transfer s x y amt = (.ok, s')) :
    amt ≤ s.balOf x ∧ ∃ bal, sendBalance s.bal x y amt = some bal ∧ s' = { s with bal := bal } := by
  unfold transfer at hr
  by_cases h1 : s.balOf x < amt
  · rw [if_pos h1] at hr; simp at hr
  · rw [if_neg h1] at hr
    cases hs : sendBalance s.bal x y amt with
    | none => rw [hs] at hr; simp at hr
    | some bal =>
      rw [hs] at hr; simp only [Prod.mk.injEq, true_and] at hr
      exact ⟨by omega, bal, rfl, hr.symm⟩

theorem transfer_result (s : St) (x y : Bytes) (amt : Nat) :
    (transfer s x y amt).1 = .ok ∨ (transfer s x y amt).2 = s := by
  unfold transfer
  split
  · exact Or.inr rfl
  · split
    · exact Or.inr rfl
    · exact Or.inl rfl

theorem nameCreate_ok {s s' : St} {a n : Bytes} {amt : Nat} (hr : nameCreate s a n amt = (.ok, s')) :
    amt ≤ s.balOf a ∧ namePrice s ≤ (amt : Int) ∧ s.names.get n = none ∧
    ∃ bal, sendBalance s.bal a s.nameState amt = some bal ∧ s' = { s with bal := bal, names := s.names.set n ⟨a, a⟩ } := by
  unfold nameCreate at hr
  by_cases h1 : s.balOf a < amt
  · rw [if_pos h1] at hr; simp at hr
  · rw [if_neg h1] at hr
    by_cases h2 : namePrice s > (amt : Int)
    · rw [if_pos h2] at hr; simp at hr
    · rw [if_neg h2] at hr
      by_cases h3 : (s.names.get n).isSome = true
      · rw [if_pos h3] at hr; simp at hr
      · rw [if_neg h3] at hr
        cases hs : sendBalance s.bal a s.nameState amt with
        | none => rw [hs] at hr; simp at hr
        | some bal =>
          rw [hs] at hr; simp only [Prod.mk.injEq, true_and] at hr
          refine ⟨by omega, by omega, ?_, bal, rfl, hr.symm⟩
          cases hg : s.names.get n with
          | none => rfl
          | some r => rw [hg] at h3; simp at h3

theorem nameCreate_result (s : St) (a n : Bytes) (amt : Nat) :
    (nameCreate s a n amt).1 = .ok ∨ (nameCreate s a n amt).2 = s := by
  unfold nameCreate
  repeat' split
  all_goals first | exact Or.inr rfl | exact Or.inl rfl

theorem nameUpdate_ok {s s' : St} {t sd n to : Bytes} {amt : Nat} (hr : nameUpdate s t sd n to amt = (.ok, s')) :
    amt ≤ s.balOf sd ∧ namePrice s ≤ (amt : Int) ∧
    (t = n ∨ some t = s.ownerOf n) ∧ 12 < (s.committedDest n).length ∧
    ∃ bal, sendBalance s.bal sd s.nameState amt = some bal ∧
      s' = { s with bal := bal, names := s.names.set n ⟨s.resolve to, s.resolve to⟩ } := by
  unfold nameUpdate at hr
  by_cases h1 : s.balOf sd < amt
  · rw [if_pos h1] at hr; simp at hr
  · rw [if_neg h1] at hr
    by_cases h2 : namePrice s > (amt : Int)
    · rw [if_pos h2] at hr; simp at hr
    · rw [if_neg h2] at hr
      by_cases h3 : t ≠ n ∧ some t ≠ s.ownerOf n
      · rw [if_pos h3] at hr; simp at hr
      · rw [if_neg h3] at hr
        by_cases h6 : (s.committedDest n).length ≤ 12
        · rw [if_pos h6] at hr; simp at hr
        · rw [if_neg h6] at hr
          cases hs : sendBalance s.bal sd s.nameState amt with
          | none => rw [hs] at hr; simp at hr
          | some bal =>
            rw [hs] at hr; simp only [Prod.mk.injEq, true_and] at hr
            refine ⟨by omega, by omega, ?_, by omega, bal, rfl, hr.symm⟩
            by_cases h4 : t = n
            · exact Or.inl h4
            · right
              by_cases h5 : some t = s.ownerOf n
              · exact h5
              · exact absurd ⟨h4, h5⟩ h3

theorem nameUpdate_result (s : St) (t sd n to : Bytes) (amt : Nat) :
    (nameUpdate s t sd n to amt).1 = .ok ∨ (nameUpdate s t sd n to amt).2 = s := by
  unfold nameUpdate
  repeat' split
  all_goals first | exact Or.inr rfl | exact Or.inl rfl

theorem nameSetOwner_ok {s s' : St} {o : Bytes} (hr : nameSetOwner s o = (.ok, s')) :
    s.names.get nameAddr = none ∧
    ∃ bal, sendBalance s.bal nameAddr o (s.balOf nameAddr) = some bal ∧
      s' = { s with bal := bal, names := s.names.set nameAddr ⟨o, nameAddr⟩ } := by
  unfold nameSetOwner at hr
  by_cases h1 : (s.names.get nameAddr).isSome = true
  · rw [if_pos h1] at hr; simp at hr
  · rw [if_neg h1] at hr
    cases hs : sendBalance s.bal nameAddr o (s.balOf nameAddr) with
    | none => rw [hs] at hr; simp at hr
    | some bal =>
      rw [hs] at hr; simp only [Prod.mk.injEq, true_and] at hr
      refine ⟨?_, bal, rfl, hr.symm⟩
      cases hg : s.names.get nameAddr with
      | none => rfl
      | some r => rw [hg] at h1; simp at h1

theorem nameSetOwner_result (s : St) (o : Bytes) :
    (nameSetOwner s o).1 = .ok ∨ (nameSetOwner s o).2 = s := by
  unfold nameSetOwner
  repeat' split
  all_goals first | exact Or.inr rfl | exact Or.inl rfl

/-- Every operation either succeeds or leaves the state as it was (a refused transaction is rolled back). -/
theorem step_result (s : St) (o : Op) : (step s o).1 = .ok ∨ (step s o).2 = s := by
  cases o with
  | stake a h amt => exact stake_result s a h amt
  | unstake a h amt => exact unstake_result s a h amt
  | voteBP a h c => exact voteBP_result s a h c
  | voteDAO a h id args => exact voteDAO_result s a h id args
  | transfer x y amt => exact transfer_result s x y amt
  | nameCreate a n amt => exact nameCreate_result s a n amt
  | nameUpdate t sd n to amt => exact nameUpdate_result s t sd n to amt
  | setOwner o => exact nameSetOwner_result s o
  | endBlock => exact Or.inl rfl
  | restart => exact Or.inl rfl

/-! ### total = Σ stakes -/

theorem at_stakes (s : St) (a : Bytes) : AMap.at (fun (e : Bytes × Staking) => e.2.amount) s.stakes a = s.stakedAmount a :=
  (St.stakedAmount_eq s a).symm

theorem InvTotal.of_same {s s' : St} (h : InvTotal s) (h1 : s'.stakes = s.stakes) (h2 : s'.total = s.total) : InvTotal s' :=
  ⟨by rw [h1]; exact h.nodup, by rw [h1, h2]; exact h.total⟩

theorem invTotal_stake {s s' : St} {a : Bytes} {h amt : Nat} (hi : InvTotal s) (hr : stake s a h amt = (.ok, s')) :
    InvTotal s' := by
  obtain ⟨_, bal, _, rfl⟩ := stake_ok hr
  refine ⟨AMap.nodup_set hi.nodup _ _, ?_⟩
  have := stakeSum_set hi.nodup a ⟨s.stakedAmount a + amt, h⟩
  rw [at_stakes] at this
  have := hi.total
  simp only at *
  omega

theorem invTotal_castVote {s s' : St} {i : Issue} {a : Bytes} {h : Nat} {cands : List Bytes} (hi : InvTotal s)
    (hr : castVote s i a h cands = (.ok, s')) : InvTotal s' := by
  obtain ⟨_, hv⟩ := castVote_ok hr
  obtain ⟨_, _, _, hs, ht, _⟩ := revote_frame hv
  refine ⟨by rw [hs]; exact AMap.nodup_set hi.nodup _ _, ?_⟩
  rw [hs, ht]
  have := stakeSum_set hi.nodup a ⟨s.stakedAmount a, h⟩
  rw [at_stakes] at this
  have := hi.total
  simp only [voteMid] at *
  omega

theorem stakedAmount_le_total {s : St} (hi : InvTotal s) (a : Bytes) : s.stakedAmount a ≤ s.total := by
  rw [hi.total, ← at_stakes]; exact AMap.at_le_sum _ hi.nodup a

theorem invTotal_unstake {s s' : St} {a : Bytes} {h amt : Nat} (hi : InvTotal s) (hr : unstake s a h amt = (.ok, s')) :
    InvTotal s' ∧ s'.total = s.total - amt ∧ amt ≤ s.total := by
  obtain ⟨hc, s2, bal, hf, _, rfl⟩ := unstake_ok hr
  obtain ⟨_, hle, _, _⟩ := unstakeCheck_none hc
  obtain ⟨_, _, _, hs, ht, _⟩ := refreshVotes_frame _ _ _ _ _ hf
  have h1 := stakeSum_set hi.nodup a ⟨s.stakedAmount a - amt, h⟩
  rw [at_stakes] at h1
  have h2 := hi.total
  have h3 := stakedAmount_le_total hi a
  simp only [unstakeMid] at hs ht
  have ht' : ((s2.total : Int) - amt).natAbs = s.total - amt := by rw [ht]; omega
  refine ⟨⟨by simp only; rw [hs]; exact AMap.nodup_set hi.nodup _ _, ?_⟩, by simp only; exact ht', by omega⟩
  simp only
  rw [ht', hs]
  simp only at h1
  omega

end Aergo.Gov

namespace Aergo.Gov

/-! ### balance of aergo.system = total -/

/-- The guard that excludes finding C15-transfer-to-system-account and its relatives: the staking account
never signs, and nothing but stake/unstake credits it (no plain transfer to it, it is not made the owner
of the name contract, `aergo.name` itself is not re-bound by v1updateName). -/
def Op.guard : Op → Prop
  | .stake a _ _ => a ≠ sysAddr
  | .unstake a _ _ => a ≠ sysAddr
  | .transfer x y _ => x ≠ sysAddr ∧ y ≠ sysAddr
  | .nameCreate a _ _ => a ≠ sysAddr
  | .nameUpdate _ sd n _ _ => sd ≠ sysAddr ∧ n ≠ nameAddr
  | .setOwner o => o ≠ sysAddr
  | _ => True

/-- balance of aergo.system = recorded total; name payments do not go to the staking account. -/
structure InvSys (s : St) : Prop where
  sys : s.balOf sysAddr = s.total
  nameState : s.nameState ≠ sysAddr

theorem nameAddr_ne_sys : nameAddr ≠ sysAddr := by decide

theorem nameState_set {s : St} (n : Bytes) (r : NameRec) (s' : St) (hs : s'.names = s.names.set n r) :
    s'.nameState = if n = nameAddr then r.owner else s.nameState := by
  unfold St.nameState
  rw [hs, AMap.get_set]
  by_cases h : n = nameAddr <;> simp [h]

theorem invSys_step {s : St} {o : Op} (ht : InvTotal s) (hi : InvSys s) (hg : o.guard) : InvSys (step s o).2 := by
  rcases step_result s o with hok | hsame
  case inr => rw [hsame]; exact hi
  · have hr : step s o = (.ok, (step s o).2) := Prod.ext hok rfl
    generalize (step s o).2 = s' at hr
    cases o with
    | stake a h amt =>
      obtain ⟨_, bal, hs, rfl⟩ := stake_ok hr
      have := sendBalance_spec hs hg
      refine ⟨?_, hi.nameState⟩
      show bget bal sysAddr = s.total + amt
      rw [this.2.2.1, ← St.balOf_eq, hi.sys]
    | unstake a h amt =>
      obtain ⟨hc, s2, bal, hf, hs, rfl⟩ := unstake_ok hr
      obtain ⟨_, _, hb, _, ht2, _, hn, _⟩ := refreshVotes_frame _ _ _ _ _ hf
      have hsp := sendBalance_spec hs (Ne.symm hg)
      obtain ⟨_, htot, _⟩ := invTotal_unstake ht hr
      refine ⟨?_, ?_⟩
      · show bget bal sysAddr = _
        rw [hsp.2.1, hb]
        simp only at htot
        rw [htot]
        show bget s.bal sysAddr - amt = s.total - amt
        rw [← St.balOf_eq, hi.sys]
      · show St.nameState _ ≠ sysAddr
        have : St.nameState { s2 with total := ((s2.total : Int) - amt).natAbs, bal := bal } = s.nameState := by
          unfold St.nameState; simp only; rw [hn]; rfl
        rw [this]; exact hi.nameState
    | voteBP a h c =>
      obtain ⟨_, hc⟩ := voteBP_ok hr
      obtain ⟨_, hv⟩ := castVote_ok hc
      obtain ⟨_, _, hb, _, htot, _, _, hn, _⟩ := revote_frame hv
      refine ⟨?_, ?_⟩
      · rw [St.balOf_eq, hb, htot]; exact hi.sys
      · unfold St.nameState; rw [hn]; exact hi.nameState
    | voteDAO a h id args =>
      obtain ⟨_, i, _, _, _, hc⟩ := voteDAO_ok hr
      obtain ⟨_, hv⟩ := castVote_ok hc
      obtain ⟨_, _, hb, _, htot, _, _, hn, _⟩ := revote_frame hv
      refine ⟨?_, ?_⟩
      · rw [St.balOf_eq, hb, htot]; exact hi.sys
      · unfold St.nameState; rw [hn]; exact hi.nameState
    | transfer x y amt =>
      obtain ⟨_, bal, hs, rfl⟩ := transfer_ok hr
      refine ⟨?_, hi.nameState⟩
      show bget bal sysAddr = s.total
      rw [sendBalance_other hs sysAddr (Ne.symm hg.1) (Ne.symm hg.2), ← St.balOf_eq, hi.sys]
    | nameCreate a n amt =>
      obtain ⟨_, _, _, bal, hs, rfl⟩ := nameCreate_ok hr
      refine ⟨?_, ?_⟩
      · show bget bal sysAddr = s.total
        rw [sendBalance_other hs sysAddr (Ne.symm hg) (Ne.symm hi.nameState), ← St.balOf_eq, hi.sys]
      · rw [nameState_set (s := s) n ⟨a, a⟩ _ rfl]
        by_cases h : n = nameAddr
        · simp [h]; exact hg
        · simp [h]; exact hi.nameState
    | nameUpdate t sd n to amt =>
      obtain ⟨_, _, _, _, bal, hs, rfl⟩ := nameUpdate_ok hr
      refine ⟨?_, ?_⟩
      · show bget bal sysAddr = s.total
        rw [sendBalance_other hs sysAddr (Ne.symm hg.1) (Ne.symm hi.nameState), ← St.balOf_eq, hi.sys]
      · rw [nameState_set (s := s) n _ _ rfl]
        simp [hg.2]; exact hi.nameState
    | setOwner o =>
      obtain ⟨_, bal, hs, rfl⟩ := nameSetOwner_ok hr
      refine ⟨?_, ?_⟩
      · show bget bal sysAddr = s.total
        rw [sendBalance_other hs sysAddr (Ne.symm nameAddr_ne_sys) (Ne.symm hg), ← St.balOf_eq, hi.sys]
      · rw [nameState_set (s := s) nameAddr _ _ rfl]
        simp; exact hg
    | endBlock =>
      simp only [step, Prod.mk.injEq, true_and] at hr
      subst hr
      exact ⟨hi.sys, hi.nameState⟩
    | restart =>
      simp only [step, Prod.mk.injEq, true_and] at hr
      subst hr
      exact ⟨hi.sys, hi.nameState⟩

theorem invTotal_step {s : St} {o : Op} (ht : InvTotal s) : InvTotal (step s o).2 := by
  rcases step_result s o with hok | hsame
  case inr => rw [hsame]; exact ht
  · have hr : step s o = (.ok, (step s o).2) := Prod.ext hok rfl
    generalize (step s o).2 = s' at hr
    cases o with
    | stake a h amt => exact invTotal_stake ht hr
    | unstake a h amt => exact (invTotal_unstake ht hr).1
    | voteBP a h c => exact invTotal_castVote ht (voteBP_ok hr).2
    | voteDAO a h id args =>
      obtain ⟨_, i, _, _, _, hc⟩ := voteDAO_ok hr
      exact invTotal_castVote ht hc
    | transfer x y amt =>
      obtain ⟨_, bal, _, rfl⟩ := transfer_ok hr
      exact ht.of_same rfl rfl
    | nameCreate a n amt =>
      obtain ⟨_, _, _, bal, _, rfl⟩ := nameCreate_ok hr
      exact ht.of_same rfl rfl
    | nameUpdate t sd n to amt =>
      obtain ⟨_, _, _, _, bal, _, rfl⟩ := nameUpdate_ok hr
      exact ht.of_same rfl rfl
    | setOwner o =>
      obtain ⟨_, bal, _, rfl⟩ := nameSetOwner_ok hr
      exact ht.of_same rfl rfl
    | endBlock =>
      simp only [step, Prod.mk.injEq, true_and] at hr
      subst hr; exact ht.of_same rfl rfl
    | restart =>
      simp only [step, Prod.mk.injEq, true_and] at hr
      subst hr; exact ht.of_same rfl rfl

end Aergo.Gov
