import Aergo.Model.Gov

/-! Lemmas for C15: `VoteList.Less` (after repair 1c75543b) is a lexicographic strict total order on
every class of entries on which it uses one integer key (all candidates 39 bytes long: key =
`Candidate[7:]`; none 39 bytes long: key = the whole candidate), and the insertion sort `rankSort`
returns the unique sorted permutation. -/

namespace Aergo.Gov

/-! ### `bytes.Compare` -/

theorem bytesLe_refl : ∀ a : Bytes, bytesLe a a = true
  | [] => rfl
  | x :: a => by simp [bytesLe, bytesLe_refl a]

theorem bytesLe_antisymm : ∀ a b : Bytes, bytesLe a b = true → bytesLe b a = true → a = b
  | [], [], _, _ => rfl
  | [], _ :: _, _, h => by simp [bytesLe] at h
  | _ :: _, [], h, _ => by simp [bytesLe] at h
  | x :: a, y :: b, h₁, h₂ => by
    simp only [bytesLe] at h₁ h₂
    by_cases hxy : x < y
    · have : ¬ y < x := by
        rw [UInt8.lt_iff_toNat_lt] at *; omega
      simp [hxy, this] at h₂
    · by_cases hyx : y < x
      · simp [hxy, hyx] at h₁
      · simp [hxy, hyx] at h₁ h₂
        have : x = y := by
          apply UInt8.toNat_inj.mp
          rw [UInt8.lt_iff_toNat_lt] at hxy hyx; omega
        rw [this, bytesLe_antisymm a b h₁ h₂]

theorem bytesLe_total : ∀ a b : Bytes, bytesLe a b = true ∨ bytesLe b a = true
  | [], _ => Or.inl (by simp [bytesLe])
  | _ :: _, [] => Or.inr (by simp [bytesLe])
  | x :: a, y :: b => by
    simp only [bytesLe]
    by_cases hxy : x < y
    · simp [hxy]
    · by_cases hyx : y < x
      · simp [hyx]
      · simp [hxy, hyx]; exact bytesLe_total a b

theorem bytesLe_trans : ∀ a b c : Bytes, bytesLe a b = true → bytesLe b c = true → bytesLe a c = true
  | [], _, _, _, _ => by simp [bytesLe]
  | _ :: _, [], _, h, _ => by simp [bytesLe] at h
  | _ :: _, _ :: _, [], _, h => by simp [bytesLe] at h
  | x :: a, y :: b, z :: c, h₁, h₂ => by
    simp only [bytesLe] at h₁ h₂ ⊢
    by_cases hxy : x < y
    · by_cases hyz : y < z
      · have : x < z := by rw [UInt8.lt_iff_toNat_lt] at *; omega
        simp [this]
      · by_cases hzy : z < y
        · simp [hyz, hzy] at h₂
        · have : y = z := by
            apply UInt8.toNat_inj.mp
            rw [UInt8.lt_iff_toNat_lt] at hyz hzy; omega
          subst this; simp [hxy]
    · by_cases hyx : y < x
      · simp [hxy, hyx] at h₁
      · have hxy' : x = y := by
          apply UInt8.toNat_inj.mp
          rw [UInt8.lt_iff_toNat_lt] at hxy hyx; omega
        subst hxy'
        simp [hxy] at h₁
        by_cases hxz : x < z
        · simp [hxz]
        · by_cases hzx : z < x
          · simp [hxz, hzx] at h₂
          · simp [hxz, hzx] at h₂ ⊢
            exact bytesLe_trans a b c h₁ h₂

/-! ### The lexicographic order behind `less` -/

/-- `less` with a fixed integer key `k` for both candidates. -/
def lexLess (k : Bytes → Nat) (a b : Entry) : Bool :=
  if a.2 < b.2 then true
  else if a.2 = b.2 then
    if k a.1 > k b.1 then true
    else if k a.1 = k b.1 then !bytesLe a.1 b.1
    else false
  else false

theorem less_of_39 (a b : Entry) (h : a.1.length = 39) (hb : b.1.length = 39) :
    less a b = lexLess (fun c => beNat (c.drop 7)) a b := by
  simp [less, lexLess, h, hb]

theorem less_of_not39 (a b : Entry) (h : a.1.length ≠ 39) :
    less a b = lexLess beNat a b := by
  simp [less, lexLess, h]

theorem lexLess_iff (k : Bytes → Nat) (a b : Entry) :
    lexLess k a b = true ↔
      a.2 < b.2 ∨ (a.2 = b.2 ∧ (k b.1 < k a.1 ∨ (k a.1 = k b.1 ∧ bytesLe a.1 b.1 = false))) := by
  unfold lexLess
  by_cases h1 : a.2 < b.2
  · simp [h1]
  · by_cases h2 : a.2 = b.2
    · by_cases h3 : k b.1 < k a.1
      · simp [h2, h3]
      · by_cases h4 : k a.1 = k b.1
        · simp [h2, h4]
        · simp [h2, h3, h4]
    · simp [h1, h2]

theorem lexLess_irrefl (k : Bytes → Nat) (a : Entry) : lexLess k a a = false := by
  cases h : lexLess k a a with
  | false => rfl
  | true =>
    rw [lexLess_iff] at h
    have := bytesLe_refl a.1
    rcases h with h | ⟨_, h | ⟨_, h⟩⟩
    · omega
    · omega
    · rw [this] at h; exact absurd h (by simp)

theorem lexLess_asymm (k : Bytes → Nat) (a b : Entry) (h : lexLess k a b = true) : lexLess k b a = false := by
  cases h' : lexLess k b a with
  | false => rfl
  | true =>
    rw [lexLess_iff] at h h'
    rcases h with h | ⟨e, h | ⟨ek, h⟩⟩ <;> rcases h' with h' | ⟨e', h' | ⟨ek', h'⟩⟩ <;> try omega
    rcases bytesLe_total a.1 b.1 with t | t
    · rw [t] at h; exact absurd h (by simp)
    · rw [t] at h'; exact absurd h' (by simp)

theorem lexLess_total (k : Bytes → Nat) (a b : Entry) (hne : a ≠ b) : lexLess k a b = true ∨ lexLess k b a = true := by
  rw [lexLess_iff, lexLess_iff]
  by_cases h1 : a.2 < b.2
  · exact Or.inl (Or.inl h1)
  · by_cases h1' : b.2 < a.2
    · exact Or.inr (Or.inl h1')
    · have h2 : a.2 = b.2 := by omega
      by_cases h3 : k b.1 < k a.1
      · exact Or.inl (Or.inr ⟨h2, Or.inl h3⟩)
      · by_cases h3' : k a.1 < k b.1
        · exact Or.inr (Or.inr ⟨h2.symm, Or.inl h3'⟩)
        · have h4 : k a.1 = k b.1 := by omega
          cases h5 : bytesLe a.1 b.1 with
          | false => exact Or.inl (Or.inr ⟨h2, Or.inr ⟨h4, rfl⟩⟩)
          | true =>
            cases h6 : bytesLe b.1 a.1 with
            | false => exact Or.inr (Or.inr ⟨h2.symm, Or.inr ⟨h4.symm, rfl⟩⟩)
            | true => exact absurd (Prod.ext (bytesLe_antisymm _ _ h5 h6) h2) hne

theorem lexLess_trans (k : Bytes → Nat) (a b c : Entry) (h₁ : lexLess k a b = true) (h₂ : lexLess k b c = true) :
    lexLess k a c = true := by
  rw [lexLess_iff] at *
  rcases h₁ with h₁ | ⟨e₁, h₁⟩
  · rcases h₂ with h₂ | ⟨e₂, _⟩
    · left; omega
    · left; omega
  · rcases h₂ with h₂ | ⟨e₂, h₂⟩
    · left; omega
    · right
      refine ⟨by omega, ?_⟩
      rcases h₁ with h₁ | ⟨k₁, b₁⟩
      · rcases h₂ with h₂ | ⟨k₂, _⟩
        · left; omega
        · left; omega
      · rcases h₂ with h₂ | ⟨k₂, b₂⟩
        · left; omega
        · right
          refine ⟨by omega, ?_⟩
          cases hac : bytesLe a.1 c.1 with
          | false => rfl
          | true =>
            exfalso
            rcases bytesLe_total b.1 a.1 with hba | hab
            · have := bytesLe_trans _ _ _ hba hac
              rw [this] at b₂; exact absurd b₂ (by simp)
            · rw [hab] at b₁; exact absurd b₁ (by simp)

/-! ### Strict total order on a class of entries -/

/-- On the entries satisfying `P`, `less` is irreflexive, asymmetric, transitive and total. -/
structure GoodOrder (P : Entry → Prop) : Prop where
  irrefl : ∀ a, P a → less a a = false
  asymm : ∀ a b, P a → P b → less a b = true → less b a = false
  trans : ∀ a b c, P a → P b → P c → less a b = true → less b c = true → less a c = true
  total : ∀ a b, P a → P b → a ≠ b → less a b = true ∨ less b a = true

/-- Block-producer tallies: every candidate is 39 bytes long. -/
def Is39 (e : Entry) : Prop := e.1.length = 39
/-- Parameter tallies: no candidate is 39 bytes long (decimal strings of at most 27 digits). -/
def Not39 (e : Entry) : Prop := e.1.length ≠ 39

theorem good39 : GoodOrder Is39 where
  irrefl a ha := by rw [less_of_39 a a ha ha]; exact lexLess_irrefl _ a
  asymm a b ha hb h := by
    rw [less_of_39 a b ha hb] at h; rw [less_of_39 b a hb ha]; exact lexLess_asymm _ a b h
  trans a b c ha hb hc h₁ h₂ := by
    rw [less_of_39 a b ha hb] at h₁; rw [less_of_39 b c hb hc] at h₂; rw [less_of_39 a c ha hc]
    exact lexLess_trans _ a b c h₁ h₂
  total a b ha hb hne := by
    rw [less_of_39 a b ha hb, less_of_39 b a hb ha]; exact lexLess_total _ a b hne

theorem goodNot39 : GoodOrder Not39 where
  irrefl a ha := by rw [less_of_not39 a a ha]; exact lexLess_irrefl _ a
  asymm a b ha hb h := by
    rw [less_of_not39 a b ha] at h; rw [less_of_not39 b a hb]; exact lexLess_asymm _ a b h
  trans a b c ha hb _ h₁ h₂ := by
    rw [less_of_not39 a b ha] at h₁; rw [less_of_not39 b c hb] at h₂; rw [less_of_not39 a c ha]
    exact lexLess_trans _ a b c h₁ h₂
  total a b ha hb hne := by
    rw [less_of_not39 a b ha, less_of_not39 b a hb]; exact lexLess_total _ a b hne

/-! ### The sort -/

/-- "a may stand before b": `a` is not `Less` than `b`. -/
def rankOk (a b : Entry) : Prop := less a b = false

theorem rankInsert_perm (x : Entry) : ∀ l, (rankInsert x l).Perm (x :: l)
  | [] => List.Perm.refl _
  | y :: r => by
    unfold rankInsert
    split
    · exact List.Perm.refl _
    · exact ((rankInsert_perm x r).cons y).trans (List.Perm.swap x y r)

theorem rankSort_perm : ∀ l, (rankSort l).Perm l
  | [] => List.Perm.refl _
  | x :: l => by
    show (rankInsert x (rankSort l)).Perm (x :: l)
    exact (rankInsert_perm x _).trans ((rankSort_perm l).cons x)

theorem rankInsert_sorted {P : Entry → Prop} (g : GoodOrder P) (x : Entry) (hx : P x) :
    ∀ l, (∀ e ∈ l, P e) → l.Pairwise rankOk → (rankInsert x l).Pairwise rankOk
  | [], _, _ => by simp [rankInsert]
  | y :: r, hP, hs => by
    have hy : P y := hP y (List.mem_cons_self)
    have hr : ∀ e ∈ r, P e := fun e he => hP e (List.mem_cons_of_mem _ he)
    rw [List.pairwise_cons] at hs
    unfold rankInsert
    by_cases hyx : less y x = true
    · simp only [hyx, if_true]
      refine List.pairwise_cons.mpr ⟨?_, List.pairwise_cons.mpr hs⟩
      intro z hz
      rcases List.mem_cons.mp hz with rfl | hz
      · exact g.asymm _ _ hy hx hyx
      · -- y ≥ z and y < x: x is not less than z
        have hyz : less y z = false := hs.1 z hz
        cases hxz : less x z with
        | false => exact hxz
        | true =>
          have := g.trans y x z hy hx (hr z hz) hyx hxz
          rw [this] at hyz; exact absurd hyz (by simp)
    · simp only [hyx]
      have hyx' : less y x = false := by simpa using hyx
      refine List.pairwise_cons.mpr ⟨?_, rankInsert_sorted g x hx r hr hs.2⟩
      intro z hz
      have := (rankInsert_perm x r).subset hz
      rcases List.mem_cons.mp this with rfl | hz'
      · exact hyx'
      · exact hs.1 z hz'

theorem rankSort_sorted {P : Entry → Prop} (g : GoodOrder P) :
    ∀ l, (∀ e ∈ l, P e) → (rankSort l).Pairwise rankOk
  | [], _ => List.Pairwise.nil
  | x :: l, hP => by
    show (rankInsert x (rankSort l)).Pairwise rankOk
    have hl : ∀ e ∈ l, P e := fun e he => hP e (List.mem_cons_of_mem _ he)
    exact rankInsert_sorted g x (hP x List.mem_cons_self) _
      (fun e he => hl e ((rankSort_perm l).subset he)) (rankSort_sorted g l hl)

/-- Two sorted arrangements of the same entries are equal. -/
theorem sorted_unique {P : Entry → Prop} (g : GoodOrder P) (l₁ l₂ : List Entry)
    (hP : ∀ e ∈ l₁, P e) (hp : l₁.Perm l₂) (h₁ : l₁.Pairwise rankOk) (h₂ : l₂.Pairwise rankOk) : l₁ = l₂ := by
  refine List.Perm.eq_of_pairwise (le := rankOk) ?_ h₁ h₂ hp
  intro a b ha hb hab hba
  by_cases hne : a = b
  · exact hne
  · have hbP : P b := hP b (hp.symm.subset hb)
    rcases g.total a b (hP a ha) hbP hne with h | h
    · rw [rankOk] at hab; rw [hab] at h; exact absurd h (by simp)
    · rw [rankOk] at hba; rw [hba] at h; exact absurd h (by simp)

end Aergo.Gov
