import Aergo.Model.Gov

/-! Lemmas for C15: association lists (`AMap`) as finite maps — get/set/del laws, key uniqueness, sums. -/

namespace Aergo.Gov

variable {κ ν : Type} [DecidableEq κ]

def AMap.keys (m : AMap κ ν) : List κ := m.map (·.1)

@[simp] theorem AMap.get_nil (k : κ) : AMap.get ([] : AMap κ ν) k = none := rfl

theorem AMap.get_cons (k' : κ) (v : ν) (r : AMap κ ν) (k : κ) :
    AMap.get ((k', v) :: r) k = if k' = k then some v else AMap.get r k := rfl

theorem AMap.get_del_eq (m : AMap κ ν) (k : κ) : (m.del k).get k = none := by
  induction m with
  | nil => rfl
  | cons e r ih =>
    obtain ⟨k', v⟩ := e
    unfold AMap.del at *
    by_cases h : k' = k
    · simp [List.filter, h]; simpa using ih
    · simp [List.filter, h, AMap.get_cons]; simpa using ih

theorem AMap.get_del_ne (m : AMap κ ν) {k k' : κ} (h : k ≠ k') : (m.del k).get k' = m.get k' := by
  induction m with
  | nil => rfl
  | cons e r ih =>
    obtain ⟨k₀, v⟩ := e
    unfold AMap.del at *
    by_cases h0 : k₀ = k
    · subst h0
      simp [List.filter, AMap.get_cons, h]; simpa using ih
    · simp [List.filter, h0, AMap.get_cons]
      by_cases h1 : k₀ = k'
      · simp [h1]
      · simp [h1]; simpa using ih

theorem AMap.get_set_eq (m : AMap κ ν) (k : κ) (v : ν) : (m.set k v).get k = some v := by
  simp [AMap.set, AMap.get_cons]

theorem AMap.get_set_ne (m : AMap κ ν) {k k' : κ} (v : ν) (h : k ≠ k') : (m.set k v).get k' = m.get k' := by
  simp [AMap.set, AMap.get_cons, h, AMap.get_del_ne m h]

theorem AMap.get_set (m : AMap κ ν) (k k' : κ) (v : ν) :
    (m.set k v).get k' = if k = k' then some v else m.get k' := by
  by_cases h : k = k'
  · subst h; simp [AMap.get_set_eq]
  · simp [h, AMap.get_set_ne m v h]

theorem AMap.get_del (m : AMap κ ν) (k k' : κ) :
    (m.del k).get k' = if k = k' then none else m.get k' := by
  by_cases h : k = k'
  · subst h; simp [AMap.get_del_eq]
  · simp [h, AMap.get_del_ne m h]

theorem AMap.mem_of_get {m : AMap κ ν} {k : κ} {v : ν} (h : m.get k = some v) : (k, v) ∈ m := by
  induction m with
  | nil => simp at h
  | cons e r ih =>
    obtain ⟨k', v'⟩ := e
    rw [AMap.get_cons] at h
    by_cases hk : k' = k
    · simp [hk] at h; subst hk; subst h; exact List.mem_cons_self
    · simp [hk] at h; exact List.mem_cons_of_mem _ (ih h)

theorem AMap.get_none_of_not_mem_keys {m : AMap κ ν} {k : κ} (h : k ∉ m.keys) : m.get k = none := by
  induction m with
  | nil => rfl
  | cons e r ih =>
    obtain ⟨k', v'⟩ := e
    simp [AMap.keys] at h
    rw [AMap.get_cons]
    have : ¬ k' = k := fun e => h.1 e.symm
    simp [this]
    apply ih
    simp [AMap.keys]; exact h.2

theorem AMap.get_of_mem {m : AMap κ ν} (hn : m.keys.Nodup) {k : κ} {v : ν} (h : (k, v) ∈ m) : m.get k = some v := by
  induction m with
  | nil => simp at h
  | cons e r ih =>
    obtain ⟨k', v'⟩ := e
    simp [AMap.keys] at hn
    rw [AMap.get_cons]
    rcases List.mem_cons.mp h with h | h
    · cases h; simp
    · have : k' ≠ k := by
        intro e; subst e; exact hn.1 v h
      simp [this]
      exact ih (by simpa [AMap.keys] using hn.2) h

theorem AMap.mem_keys_of_get {m : AMap κ ν} {k : κ} {v : ν} (h : m.get k = some v) : k ∈ m.keys := by
  have := AMap.mem_of_get h
  exact List.mem_map.mpr ⟨(k, v), this, rfl⟩

theorem AMap.keys_del (m : AMap κ ν) (k : κ) : (m.del k).keys = m.keys.filter (fun x => decide (x ≠ k)) := by
  induction m with
  | nil => rfl
  | cons e r ih =>
    obtain ⟨k', v'⟩ := e
    unfold AMap.del AMap.keys at *
    by_cases h : k' = k
    · simp [List.filter, h]; simpa using ih
    · simp [List.filter, h]; simpa using ih

theorem AMap.nodup_del {m : AMap κ ν} (hn : m.keys.Nodup) (k : κ) : (m.del k).keys.Nodup := by
  rw [AMap.keys_del]; exact hn.filter _

theorem AMap.not_mem_keys_del (m : AMap κ ν) (k : κ) : k ∉ (m.del k).keys := by
  rw [AMap.keys_del]; simp

theorem AMap.nodup_set {m : AMap κ ν} (hn : m.keys.Nodup) (k : κ) (v : ν) : (m.set k v).keys.Nodup := by
  show (AMap.keys ((k, v) :: m.del k)).Nodup
  simp only [AMap.keys, List.map_cons]
  exact List.nodup_cons.mpr ⟨AMap.not_mem_keys_del m k, AMap.nodup_del hn k⟩

theorem AMap.mem_keys_set (m : AMap κ ν) (k k' : κ) (v : ν) : k' ∈ (m.set k v).keys ↔ k' = k ∨ k' ∈ m.keys := by
  show k' ∈ AMap.keys ((k, v) :: m.del k) ↔ _
  simp only [AMap.keys, List.map_cons, List.mem_cons]
  have := AMap.keys_del m k
  simp only [AMap.keys] at this
  rw [this]
  by_cases h : k' = k
  · simp [h]
  · simp [h]

/-! ### Sums over a map -/

/-- Sum of `f` over the entries. -/
def AMap.sum (f : κ × ν → Nat) (m : AMap κ ν) : Nat := (m.map f).sum

omit [DecidableEq κ] in
@[simp] theorem AMap.sum_nil (f : κ × ν → Nat) : AMap.sum f ([] : AMap κ ν) = 0 := rfl

omit [DecidableEq κ] in
theorem AMap.sum_cons (f : κ × ν → Nat) (e : κ × ν) (r : AMap κ ν) : AMap.sum f (e :: r) = f e + AMap.sum f r := by
  simp [AMap.sum]

/-- Contribution of the entry of key `k` (0 when absent). -/
def AMap.at (f : κ × ν → Nat) (m : AMap κ ν) (k : κ) : Nat :=
  match m.get k with
  | some v => f (k, v)
  | none => 0

theorem AMap.sum_del (f : κ × ν → Nat) {m : AMap κ ν} (hn : m.keys.Nodup) (k : κ) :
    AMap.sum f (m.del k) + AMap.at f m k = AMap.sum f m := by
  induction m with
  | nil => simp [AMap.del, AMap.at]
  | cons e r ih =>
    obtain ⟨k', v'⟩ := e
    have hn' : (AMap.keys r).Nodup := by simp [AMap.keys] at hn; simpa [AMap.keys] using hn.2
    have hk' : k' ∉ AMap.keys r := by simp [AMap.keys] at hn; simpa [AMap.keys] using hn.1
    by_cases h : k' = k
    · subst h
      have e1 : AMap.del ((k', v') :: r) k' = AMap.del r k' := by simp [AMap.del, List.filter]
      have e2 : AMap.at f ((k', v') :: r) k' = f (k', v') := by simp [AMap.at, AMap.get_cons]
      have e3 : AMap.at f r k' = 0 := by simp [AMap.at, AMap.get_none_of_not_mem_keys hk']
      have := ih hn'
      rw [e1, e2, AMap.sum_cons]; rw [e3] at this; omega
    · have e1 : AMap.del ((k', v') :: r) k = (k', v') :: AMap.del r k := by simp [AMap.del, List.filter, h]
      have e2 : AMap.at f ((k', v') :: r) k = AMap.at f r k := by simp [AMap.at, AMap.get_cons, h]
      have := ih hn'
      rw [e1, e2, AMap.sum_cons, AMap.sum_cons]; omega

theorem AMap.sum_set (f : κ × ν → Nat) {m : AMap κ ν} (hn : m.keys.Nodup) (k : κ) (v : ν) :
    AMap.sum f (m.set k v) + AMap.at f m k = AMap.sum f m + f (k, v) := by
  show AMap.sum f ((k, v) :: m.del k) + _ = _
  rw [AMap.sum_cons]
  have := AMap.sum_del f hn k
  omega

theorem AMap.at_le_sum (f : κ × ν → Nat) {m : AMap κ ν} (hn : m.keys.Nodup) (k : κ) : AMap.at f m k ≤ AMap.sum f m := by
  have := AMap.sum_del f hn k; omega

end Aergo.Gov
