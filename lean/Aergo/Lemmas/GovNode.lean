/-
Lemmas for the node-level model `Aergo.Model.GovNode` (C15): the governance invariants along block events
(connected, failed, abandoned blocks, reorganisations, restarts), parameter coherence, consumers of the ranking.
Core Lean only.
-/
import Aergo.Model.GovNode
import Aergo.Lemmas.GovCand

namespace Aergo.Gov

/-! ### The five invariants bundled -/

structure AllInv (s : St) : Prop where
  total : InvTotal s
  sys : InvSys s
  votes : InvVotes s
  vpr : InvVpr s
  cand : InvCand s

theorem allInv_step {s : St} {o : Op} (h : AllInv s) (hg : o.guard) (hd : o.declared s) : AllInv (step s o).2 :=
  ⟨invTotal_step h.total, invSys_step h.total h.sys hg, invVotes_step h.votes, invVpr_step h.vpr hd, invCand_step h.cand⟩

/-- None of the invariants reads the parameter table. -/
theorem allInv_params {s : St} (h : AllInv s) (p q : AMap Issue Int) : AllInv { s with params := p, nextParams := q } :=
  ⟨⟨h.total.nodup, h.total.total⟩, ⟨h.sys.sys, h.sys.nameState⟩, ⟨h.votes.tally, h.votes.le⟩,
   ⟨h.vpr.ok, h.vpr.chNodup, h.vpr.chZero, h.vpr.link, h.vpr.inj, h.vpr.declared⟩, ⟨h.cand.tally, h.cand.votes⟩⟩

theorem allInv_restart {s : St} (h : AllInv s) : AllInv (restart s) :=
  allInv_step (o := .restart) h trivial trivial

theorem allInv_endBlock {s : St} (h : AllInv s) : AllInv (endBlock s) :=
  allInv_step (o := .endBlock) h trivial trivial

/-! ### What the memory-only operations are, in terms of `restart` -/

theorem restart_withMem (p m : St) : restart (withMem p m) = restart p := rfl

theorem updateElse_eq (p m : St) : updateElse p m = { restart p with params := m.params, nextParams := [] } := rfl

theorem reloadParams_updateElse (p m : St) : reloadParams (updateElse p m) = restart p := rfl

theorem restart_restart (s : St) : restart (restart s) = restart s := rfl

theorem allInv_updateElse {p : St} (m : St) (h : AllInv (restart p)) : AllInv (updateElse p m) := by
  rw [updateElse_eq]; exact allInv_params h _ _

theorem allInv_reloadParams {s : St} (h : AllInv s) : AllInv (reloadParams s) := allInv_params h _ _

/-! ### Parameters: memory against storage -/

/-- The value the storage holds for a parameter (`loadParams`: the persisted value, else the default). -/
def diskParam (s : St) (i : Issue) : Int :=
  match s.paramsDisk.get i with
  | some v => (v : Int)
  | none => defaultParam i

/-- GetNextBlockParam: the pending value, else the current one. -/
def nextOrCur (s : St) (i : Issue) : Int :=
  match s.nextParams.get i with
  | some v => v
  | none => s.param i

/-- During a block: the value that becomes active at the next block is the persisted one. -/
def ParamOk (s : St) : Prop := ∀ i, nextOrCur s i = diskParam s i

/-- At a block boundary: nothing pending, and every current value is the persisted one. -/
structure ParamCoh (s : St) : Prop where
  none : s.nextParams = []
  cur : ∀ i, s.param i = diskParam s i

theorem paramOk_of_coh {s : St} (h : ParamCoh s) : ParamOk s := by
  intro i; unfold nextOrCur; rw [h.none]; exact h.cur i

theorem get_map_cast (m : AMap Issue Nat) (i : Issue) :
    AMap.get (m.map fun e => (e.1, (e.2 : Int))) i = (m.get i).map (fun v => (v : Int)) := by
  induction m with
  | nil => rfl
  | cons e r ih =>
    obtain ⟨k, v⟩ := e
    simp only [List.map_cons, AMap.get_cons]
    by_cases h : k = i
    · simp [h]
    · simp [h, ih]

theorem paramCoh_reload (s : St) : ParamCoh (reloadParams s) := by
  refine ⟨rfl, fun i => ?_⟩
  show St.param (reloadParams s) i = diskParam (reloadParams s) i
  unfold St.param diskParam reloadParams
  simp only
  rw [get_map_cast]
  cases s.paramsDisk.get i <;> rfl

theorem paramCoh_restart (s : St) : ParamCoh (restart s) := by
  refine ⟨rfl, fun i => ?_⟩
  show St.param (restart s) i = diskParam (restart s) i
  unfold St.param diskParam restart
  simp only
  rw [get_map_cast]
  cases s.paramsDisk.get i <;> rfl

theorem get_foldr_set (l : AMap Issue Int) (p : AMap Issue Int) (i : Issue) :
    AMap.get (l.foldr (fun e q => q.set e.1 e.2) p) i = match l.get i with | some v => some v | none => p.get i := by
  induction l with
  | nil => rfl
  | cons e r ih =>
    obtain ⟨k, v⟩ := e
    simp only [List.foldr_cons, AMap.get_set, AMap.get_cons]
    by_cases h : k = i
    · simp [h]
    · simp [h, ih]

/-- CommitParams(true) at the end of a block makes the pending values current: coherence at the boundary. -/
theorem paramCoh_endBlock {s : St} (h : ParamOk s) : ParamCoh (endBlock s) := by
  refine ⟨rfl, fun i => ?_⟩
  have hi := h i
  unfold nextOrCur St.param at hi
  show St.param (endBlock s) i = diskParam (endBlock s) i
  unfold St.param endBlock diskParam
  simp only
  rw [get_foldr_set]
  unfold diskParam at hi
  cases hn : s.nextParams.get i with
  | some v => rw [hn] at hi; simp only at hi ⊢; exact hi
  | none => rw [hn] at hi; simp only at hi ⊢; exact hi

/-- The parameter fields a state transition leaves alone / keeps in step. -/
structure ParamStep (s s' : St) : Prop where
  params : s'.params = s.params
  ok : ParamOk s → ParamOk s'

theorem ParamStep.refl (s : St) : ParamStep s s := ⟨rfl, id⟩

theorem ParamStep.trans {a b c : St} (h₁ : ParamStep a b) (h₂ : ParamStep b c) : ParamStep a c :=
  ⟨h₂.params.trans h₁.params, fun h => h₂.ok (h₁.ok h)⟩

/-- Same three parameter fields. -/
theorem paramStep_of_same {s s' : St} (h1 : s'.params = s.params) (h2 : s'.nextParams = s.nextParams)
    (h3 : s'.paramsDisk = s.paramsDisk) : ParamStep s s' := by
  refine ⟨h1, fun h i => ?_⟩
  have := h i
  unfold nextOrCur diskParam St.param at this ⊢
  rw [h1, h2, h3]; exact this

theorem paramStep_votes (s : St) (v : AMap (Issue × Bytes) Vote) : ParamStep s { s with votes := v } :=
  paramStep_of_same rfl rfl rfl

theorem paramStep_revote {s s' : St} {i a old new} (h : revote s i a old new = some s') : ParamStep s s' := by
  unfold revote at h
  split at h
  · exact absurd h (by simp)
  · simp only at h
    split at h
    · split at h
      · exact absurd h (by simp)
      · cases h; exact paramStep_of_same rfl rfl rfl
      · rename_i v _
        cases h
        refine ⟨rfl, fun hok j => ?_⟩
        have := hok j
        unfold nextOrCur diskParam St.param at this ⊢
        simp only [AMap.get_set]
        by_cases hj : i = j
        · simp [hj]
        · simp only [hj, if_false]; exact this
    · cases h; exact paramStep_of_same rfl rfl rfl

theorem paramStep_refreshVotes (a : Bytes) (staked : Nat) :
    ∀ (is : List Issue) (s s' : St), refreshVotes a staked is s = some s' → ParamStep s s'
  | [], s, s', h => by simp [refreshVotes] at h; subst h; exact ParamStep.refl _
  | i :: is, s, s', h => by
    unfold refreshVotes at h
    split at h
    · exact paramStep_refreshVotes a staked is s s' h
    · split at h
      · exact paramStep_refreshVotes a staked is s s' h
      · simp only at h
        split at h
        · exact absurd h (by simp)
        · rename_i s1 hs1
          have f1 := paramStep_revote hs1
          have f2 := paramStep_refreshVotes a staked is _ s' h
          exact ((paramStep_votes s _).trans f1).trans f2

/-- A transaction operation never changes the current parameter values and keeps "pending-or-current = persisted". -/
theorem paramStep_step (s : St) (o : Op) (ht : o.sender.isSome ∨ ∃ w, o = .setOwner w) : ParamStep s (step s o).2 := by
  rcases step_result s o with hok | hsame
  case inr => rw [hsame]; exact ParamStep.refl _
  · have hr : step s o = (.ok, (step s o).2) := Prod.ext hok rfl
    generalize (step s o).2 = s' at hr
    cases o with
    | stake a h amt => obtain ⟨_, bal, _, rfl⟩ := stake_ok hr; exact paramStep_of_same rfl rfl rfl
    | unstake a h amt =>
      obtain ⟨_, s2, bal, hf, _, rfl⟩ := unstake_ok hr
      have f := paramStep_refreshVotes _ _ _ _ _ hf
      have f0 : ParamStep s (unstakeMid s a h amt) := paramStep_of_same rfl rfl rfl
      have f2 : ParamStep s2 { s2 with total := ((s2.total : Int) - amt).natAbs, bal := bal } := paramStep_of_same rfl rfl rfl
      exact (f0.trans f).trans f2
    | voteBP a h c =>
      obtain ⟨_, hv⟩ := castVote_ok (voteBP_ok hr).2
      have f0 : ParamStep s (voteMid s .bp a h (chunks39 c.flatten.length c.flatten)) := paramStep_of_same rfl rfl rfl
      exact f0.trans (paramStep_revote hv)
    | voteDAO a h id args =>
      obtain ⟨_, i, _, _, _, hc⟩ := voteDAO_ok hr
      obtain ⟨_, hv⟩ := castVote_ok hc
      have f0 : ParamStep s (voteMid s i a h args) := paramStep_of_same rfl rfl rfl
      exact f0.trans (paramStep_revote hv)
    | transfer x y amt => obtain ⟨_, bal, _, rfl⟩ := transfer_ok hr; exact paramStep_of_same rfl rfl rfl
    | nameCreate a n amt => obtain ⟨_, _, _, bal, _, rfl⟩ := nameCreate_ok hr; exact paramStep_of_same rfl rfl rfl
    | nameUpdate t sd n to amt => obtain ⟨_, _, _, _, bal, _, rfl⟩ := nameUpdate_ok hr; exact paramStep_of_same rfl rfl rfl
    | setOwner o => obtain ⟨_, bal, _, rfl⟩ := nameSetOwner_ok hr; exact paramStep_of_same rfl rfl rfl
    | endBlock => rcases ht with h | ⟨w, h⟩ <;> simp [Op.sender] at h
    | restart => rcases ht with h | ⟨w, h⟩ <;> simp [Op.sender] at h

/-! ### The transactions of a block -/

/-- Admissible transaction: the guards of `ginv_step` (relative to the account table of `s0`). -/
def TxOk (s0 : St) (o : Op) : Prop := o.guard ∧ o.declared s0

structure TxsRes (s0 s s' : St) : Prop where
  inv : AllInv s → AllInv s'
  accts : s.accts = s0.accts → s'.accts = s0.accts
  par : ParamStep s s'

theorem runTxsAux_res (s0 : St) : ∀ (txs : List Op) (s : St) (skip : List Bytes), (∀ o ∈ txs, TxOk s0 o) → s.accts = s0.accts →
    TxsRes s0 s (runTxsAux s skip txs).1
  | [], s, _, _, _ => ⟨id, id, ParamStep.refl _⟩
  | o :: os, s, skip, hok, ha => by
    have hos : ∀ o' ∈ os, TxOk s0 o' := fun o' h => hok o' (List.mem_cons_of_mem _ h)
    unfold runTxsAux
    cases hs : o.sender with
    | none => simp only; exact runTxsAux_res s0 os s skip hos ha
    | some a =>
      simp only
      by_cases hsk : skip.contains a = true
      · rw [if_pos hsk]; exact runTxsAux_res s0 os s skip hos ha
      · rw [if_neg hsk]
        by_cases hres : (step s o).1 = .ok
        · have hst : step s o = ((step s o).1, (step s o).2) := rfl
          rw [hst]; simp only [hres, if_true]
          have h1 := hok o List.mem_cons_self
          have ha' : (step s o).2.accts = s0.accts := (step_accts s o).1.trans ha
          have ih := runTxsAux_res s0 os (step s o).2 skip hos ha'
          have hp := paramStep_step s o (Or.inl (by rw [hs]; rfl))
          exact ⟨fun hi => ih.inv (allInv_step hi h1.1 (declared_mono ha o h1.2)),
            fun _ => ih.accts ha', hp.trans ih.par⟩
        · have hst : step s o = ((step s o).1, (step s o).2) := rfl
          rw [hst]; simp only [hres, if_false]
          exact runTxsAux_res s0 os s (a :: skip) hos ha

theorem runTxs_res (s0 : St) (txs : List Op) (s : St) (hok : ∀ o ∈ txs, TxOk s0 o) (ha : s.accts = s0.accts) :
    TxsRes s0 s (runTxs s txs).1 := runTxsAux_res s0 txs s [] hok ha

/-! ### Clean and dirty nodes -/

/-- Memory and storage agree: all invariants (the live rank is well-formed against the persisted buckets, hence equal to
its reload) and the parameter table is the persisted one with nothing pending. -/
structure Clean (s : St) : Prop where
  inv : AllInv s
  par : ParamCoh s

/-- The storage is sound (reloading the memory from it gives a clean state) and the *current* parameter values are still
the persisted ones; the rank and the pending parameter values in memory may be anything. This is what an abandoned own
block leaves behind. -/
structure Dirty (s : St) : Prop where
  sound : AllInv (restart s)
  cur : ∀ i, s.param i = diskParam s i

theorem clean_restart {s : St} (h : AllInv s) : Clean (restart s) := ⟨allInv_restart h, paramCoh_restart s⟩

theorem dirty_of_clean {s : St} (h : Clean s) : Dirty s := ⟨allInv_restart h.inv, h.par.cur⟩

theorem clean_restart_of_dirty {s : St} (h : Dirty s) : Clean (restart s) := ⟨h.sound, paramCoh_restart s⟩

theorem param_congr {s s' : St} (h : s'.params = s.params) (i : Issue) : s'.param i = s.param i := by
  unfold St.param; rw [h]

/-- A block executed on a clean state and connected: clean again. -/
theorem clean_connect (s0 : St) {s : St} (txs : List Op) (h : Clean s) (hok : ∀ o ∈ txs, TxOk s0 o) (ha : s.accts = s0.accts) :
    Clean (endBlock (runTxs s txs).1) ∧ (endBlock (runTxs s txs).1).accts = s0.accts := by
  have r := runTxs_res s0 txs s hok ha
  exact ⟨⟨allInv_endBlock (r.inv h.inv), paramCoh_endBlock (r.par.ok (paramOk_of_coh h.par))⟩, r.accts ha⟩

/-- A block whose execution fails (Status.Update, rollback branch on the best block): whatever ran, and from a dirty
memory too, the node is clean afterwards. -/
theorem clean_netFail {s : St} (txs : List Op) (h : Dirty s) : Clean (updateElse s (runTxs s txs).1) := by
  have hp : (runTxs s txs).1.params = s.params := by
    have : ∀ (txs : List Op) (s : St) (skip : List Bytes), (runTxsAux s skip txs).1.params = s.params := by
      intro txs
      induction txs with
      | nil => intro s skip; rfl
      | cons o os ih =>
        intro s skip
        unfold runTxsAux
        cases hs : o.sender with
        | none => simp only; exact ih s skip
        | some a =>
          simp only
          by_cases hsk : skip.contains a = true
          · rw [if_pos hsk]; exact ih s skip
          · rw [if_neg hsk]
            have hst : step s o = ((step s o).1, (step s o).2) := rfl
            rw [hst]
            by_cases hres : (step s o).1 = .ok
            · simp only [hres, if_true]
              exact (ih _ skip).trans (paramStep_step s o (Or.inl (by rw [hs]; rfl))).params
            · simp only [hres, if_false]; exact ih s _
    exact this txs s []
  refine ⟨allInv_updateElse _ h.sound, rfl, fun i => ?_⟩
  show St.param (updateElse s (runTxs s txs).1) i = diskParam (updateElse s (runTxs s txs).1) i
  have : St.param (updateElse s (runTxs s txs).1) i = s.param i := param_congr (s := s) hp i
  rw [this]; exact h.cur i

/-- An abandoned own block: the storage stays, the memory is what the block factory left. -/
theorem dirty_stale {s : St} (txs : List Op) (h : Dirty s) : Dirty (withMem s (runTxs s txs).1) := by
  refine ⟨by rw [restart_withMem]; exact h.sound, fun i => ?_⟩
  have hc := (clean_netFail txs h).par.cur i
  -- same current parameter values and same storage as after a failed block
  exact hc

/-! ### Nodes -/

structure NGood (s0 : St) (n : Node) : Prop where
  accts : n.cur.accts = s0.accts
  hist : ∀ p ∈ n.hist, Clean p ∧ p.accts = s0.accts

def NClean (s0 : St) (n : Node) : Prop := Clean n.cur ∧ NGood s0 n
def NDirty (s0 : St) (n : Node) : Prop := Dirty n.cur ∧ NGood s0 n

theorem nclean_connect (s0 : St) {n : Node} (txs : List Op) (h : NClean s0 n) (hok : ∀ o ∈ txs, TxOk s0 o) :
    NClean s0 (n.connect txs) := by
  obtain ⟨hc, hg⟩ := h
  have := clean_connect s0 txs hc hok hg.accts
  refine ⟨this.1, this.2, fun p hp => ?_⟩
  rcases List.mem_cons.mp hp with rfl | hp
  · exact ⟨hc, hg.accts⟩
  · exact hg.hist p hp

theorem rollForward_clean (s0 : St) : ∀ (blocks : List (List Op)) (n : Node) (j : Nat) (failAt : Option Nat),
    NClean s0 n → (∀ b ∈ blocks, ∀ o ∈ b, TxOk s0 o) → ∀ n', rollForward n j failAt blocks = .inl n' → NClean s0 n'
  | [], n, _, _, h, _, n', he => by simp [rollForward] at he; subst he; exact h
  | b :: bs, n, j, failAt, h, hok, n', he => by
    unfold rollForward at he
    split at he
    · exact absurd he (by simp)
    · exact rollForward_clean s0 bs _ _ _ (nclean_connect s0 b h (hok b List.mem_cons_self))
        (fun b' hb' => hok b' (List.mem_cons_of_mem _ hb')) n' he

/-- Admissible events (transaction guards relative to the account table of `s0`). -/
def Ev.ok (s0 : St) : Ev → Prop
  | .own txs => ∀ o ∈ txs, TxOk s0 o
  | .net txs => ∀ o ∈ txs, TxOk s0 o
  | .stale _ => True
  | .netFail _ => True
  | .restart => True
  | .reorg _ blocks _ => ∀ b ∈ blocks, ∀ o ∈ b, TxOk s0 o

theorem mem_drop_of {α} {l : List α} {k : Nat} {x : α} {r : List α} (h : l.drop k = x :: r) :
    x ∈ l ∧ ∀ y ∈ r, y ∈ l := by
  have hx : x ∈ l.drop k := by rw [h]; exact List.mem_cons_self
  refine ⟨List.mem_of_mem_drop hx, fun y hy => ?_⟩
  have : y ∈ l.drop k := by rw [h]; exact List.mem_cons_of_mem _ hy
  exact List.mem_of_mem_drop this

theorem nclean_netFail (s0 : St) {n : Node} (txs : List Op) (h : NDirty s0 n) : NClean s0 (n.step (.netFail txs)) :=
  ⟨clean_netFail txs h.1, h.2.accts, h.2.hist⟩

theorem nclean_restart (s0 : St) {n : Node} (h : NDirty s0 n) : NClean s0 (n.step .restart) :=
  ⟨clean_restart_of_dirty h.1, h.2.accts, h.2.hist⟩

theorem ndirty_stale (s0 : St) {n : Node} (txs : List Op) (h : NDirty s0 n) : NDirty s0 (n.step (.stale txs)) :=
  ⟨dirty_stale txs h.1, h.2.accts, h.2.hist⟩

theorem ndirty_of_nclean (s0 : St) {n : Node} (h : NClean s0 n) : NDirty s0 n := ⟨dirty_of_clean h.1, h.2⟩

/-- A reorganisation (to a branch root that is in the history) leaves the node clean whether it succeeds or fails, and
whatever the memory was before: the rank and the parameters are reloaded at the branch root, and again from the old best
block when the roll-forward fails. -/
theorem nclean_reorg (s0 : St) {n : Node} {k : Nat} {blocks : List (List Op)} {failAt : Option Nat} (h : NDirty s0 n)
    (hk : k < n.hist.length) (hok : ∀ b ∈ blocks, ∀ o ∈ b, TxOk s0 o) : NClean s0 (n.step (.reorg k blocks failAt)) := by
  obtain ⟨hd, hg⟩ := h
  show NClean s0 (match n.hist.drop k with
    | [] => n
    | root :: rest =>
      match rollForward { cur := reloadParams (updateElse root n.cur), hist := rest } 0 failAt blocks with
      | .inl n' => { n' with cur := reloadParams n'.cur }
      | .inr s => { n with cur := reloadParams (updateElse n.cur s) })
  cases hdrop : n.hist.drop k with
  | nil =>
    have := List.drop_eq_nil_iff.mp hdrop
    omega
  | cons root rest =>
    simp only
    obtain ⟨hroot, hrest⟩ := mem_drop_of hdrop
    have hrootc := hg.hist root hroot
    have hstart : NClean s0 { cur := reloadParams (updateElse root n.cur), hist := rest } := by
      refine ⟨?_, ?_, fun p hp => hg.hist p (hrest p hp)⟩
      · rw [reloadParams_updateElse]; exact clean_restart hrootc.1.inv
      · exact hrootc.2
    cases hrf : rollForward { cur := reloadParams (updateElse root n.cur), hist := rest } 0 failAt blocks with
    | inl n' =>
      simp only
      have hn' := rollForward_clean s0 blocks _ 0 failAt hstart hok n' hrf
      exact ⟨⟨allInv_reloadParams hn'.1.inv, paramCoh_reload _⟩, hn'.2.accts, hn'.2.hist⟩
    | inr s =>
      simp only
      refine ⟨?_, hg.accts, hg.hist⟩
      rw [reloadParams_updateElse]; exact clean_restart_of_dirty hd

/-- The events run with a flag: may the memory be dirty (an own block was abandoned and nothing has reloaded the memory
since)? `none`: the history leaves the guard — a block was connected on top of a dirty memory, or a reorganisation names a
branch root that is not in the history. -/
def Node.runTracked : Node → Bool → List Ev → Option (Node × Bool)
  | n, d, [] => some (n, d)
  | n, d, e :: es =>
    match e with
    | .stale _ => Node.runTracked (n.step e) true es
    | .own _ => if d then none else Node.runTracked (n.step e) false es
    | .net _ => if d then none else Node.runTracked (n.step e) false es
    | .netFail _ => Node.runTracked (n.step e) false es
    | .restart => Node.runTracked (n.step e) false es
    | .reorg k _ _ => if k < n.hist.length then Node.runTracked (n.step e) false es else none

theorem runTracked_run : ∀ (evs : List Ev) (n : Node) (d : Bool) (r : Node × Bool),
    Node.runTracked n d evs = some r → r.1 = n.run evs
  | [], n, d, r, h => by simp [Node.runTracked] at h; subst h; rfl
  | e :: es, n, d, r, h => by
    unfold Node.runTracked at h
    unfold Node.run
    cases e with
    | stale txs => exact runTracked_run es _ _ r h
    | own txs => simp only at h; split at h; · exact absurd h (by simp)
                 · exact runTracked_run es _ _ r h
    | net txs => simp only at h; split at h; · exact absurd h (by simp)
                 · exact runTracked_run es _ _ r h
    | netFail txs => exact runTracked_run es _ _ r h
    | restart => exact runTracked_run es _ _ r h
    | reorg k bl f => simp only at h; split at h
                      · exact runTracked_run es _ _ r h
                      · exact absurd h (by simp)

theorem runTracked_inv (s0 : St) : ∀ (evs : List Ev) (n : Node) (d : Bool) (r : Node × Bool),
    (∀ e ∈ evs, e.ok s0) → (if d then NDirty s0 n else NClean s0 n) → Node.runTracked n d evs = some r →
    (if r.2 then NDirty s0 r.1 else NClean s0 r.1)
  | [], n, d, r, _, hn, h => by simp [Node.runTracked] at h; subst h; exact hn
  | e :: es, n, d, r, hok, hn, h => by
    have hes : ∀ e' ∈ es, e'.ok s0 := fun e' he' => hok e' (List.mem_cons_of_mem _ he')
    have he := hok e List.mem_cons_self
    have hdirty : NDirty s0 n := by
      cases d with
      | true => exact hn
      | false => exact ndirty_of_nclean s0 hn
    unfold Node.runTracked at h
    cases e with
    | stale txs => exact runTracked_inv s0 es _ true r hes (ndirty_stale s0 txs hdirty) h
    | own txs =>
      simp only at h
      cases d with
      | true => simp at h
      | false => exact runTracked_inv s0 es _ false r hes (nclean_connect s0 txs hn he) h
    | net txs =>
      simp only at h
      cases d with
      | true => simp at h
      | false => exact runTracked_inv s0 es _ false r hes (nclean_connect s0 txs hn he) h
    | netFail txs => exact runTracked_inv s0 es _ false r hes (nclean_netFail s0 txs hdirty) h
    | restart => exact runTracked_inv s0 es _ false r hes (nclean_restart s0 hdirty) h
    | reorg k bl f =>
      simp only at h
      split at h
      · rename_i hk
        exact runTracked_inv s0 es _ false r hes (nclean_reorg s0 hdirty hk he) h
      · exact absurd h (by simp)

/-! ### Boolean checkers of the guards (for concrete histories) -/

def Op.guardB : Op → Bool
  | .stake a _ _ => a != sysAddr
  | .unstake a _ _ => a != sysAddr
  | .transfer x y _ => x != sysAddr && y != sysAddr
  | .nameCreate a _ _ => a != sysAddr
  | .nameUpdate _ sd n _ _ => sd != sysAddr && n != nameAddr
  | .setOwner o => o != sysAddr
  | _ => true

def Op.declaredB (s : St) : Op → Bool
  | .unstake a _ _ => (s.accts.get a).isSome
  | .voteBP a _ _ => (s.accts.get a).isSome
  | .voteDAO a _ _ _ => (s.accts.get a).isSome
  | _ => true

theorem txOk_of_b {s0 : St} {o : Op} (h : (o.guardB && o.declaredB s0) = true) : TxOk s0 o := by
  rw [Bool.and_eq_true] at h
  constructor
  · cases o <;> simp only [Op.guard, Op.guardB, bne_iff_ne, Bool.and_eq_true, ne_eq] at h ⊢ <;> first | trivial | exact h.1
  · cases o <;> simp only [Op.declared, Op.declaredB] at h ⊢ <;> first | trivial | exact h.2

def txsOkB (s0 : St) (txs : List Op) : Bool := txs.all fun o => o.guardB && o.declaredB s0

theorem txsOk_of_b {s0 : St} {txs : List Op} (h : txsOkB s0 txs = true) : ∀ o ∈ txs, TxOk s0 o := by
  intro o ho
  exact txOk_of_b (List.all_eq_true.mp h o ho)

def Ev.okB (s0 : St) : Ev → Bool
  | .own txs => txsOkB s0 txs
  | .net txs => txsOkB s0 txs
  | .stale _ => true
  | .netFail _ => true
  | .restart => true
  | .reorg _ blocks _ => blocks.all (txsOkB s0)

theorem evs_ok_of_b {s0 : St} {evs : List Ev} (h : evs.all (Ev.okB s0) = true) : ∀ e ∈ evs, e.ok s0 := by
  intro e he
  have h1 := List.all_eq_true.mp h e he
  cases e with
  | own txs => exact txsOk_of_b h1
  | net txs => exact txsOk_of_b h1
  | stale _ => trivial
  | netFail _ => trivial
  | restart => trivial
  | reorg k blocks f =>
    intro b hb
    exact txsOk_of_b (List.all_eq_true.mp h1 b hb)

/-! ### Consumers of the ranking -/

theorem take_append_drop_pairwise {α} {R : α → α → Prop} {l : List α} (h : l.Pairwise R) (n : Nat) :
    ∀ x ∈ l.take n, ∀ y ∈ l.drop n, R x y := by
  have := (List.take_append_drop n l).symm ▸ h
  exact (List.pairwise_append.mp this).2.2

end Aergo.Gov
