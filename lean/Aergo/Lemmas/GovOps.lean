import Aergo.Lemmas.GovAcct

/-! Lemmas for C15: what each operation does — refusal rules, exact effects, and preservation of
`total = Σ stakes = balance of aergo.system`. -/

namespace Aergo.Gov

/-! ### stake -/

theorem stakeCheck_none {s : St} {a : Bytes} {h amt : Nat} (hc : stakeCheck s a h amt = none) :
    amt ≤ s.balOf a ∧ s.stakeLocked a h = false ∧ minStake s ≤ ((s.stakedAmount a + amt : Nat) : Int) := by
  unfold stakeCheck at hc
  by_cases h1 : s.balOf a < amt
  · rw [if_pos h1] at hc; exact absurd hc (by simp)
  · rw [if_neg h1] at hc
    by_cases h2 : s.stakeLocked a h = true
    · rw [if_pos h2] at hc; exact absurd hc (by simp)
    · rw [if_neg h2] at hc
      by_cases h3 : minStake s > ((s.stakedAmount a + amt : Nat) : Int)
      · rw [if_pos h3] at hc; exact absurd hc (by simp)
      · exact ⟨by omega, by simpa using h2, by omega⟩

/-- A stake that passed validation is executed: the balance check of SendBalance cannot fail. -/
theorem stakeRun_ok {s : St} {a : Bytes} {h amt : Nat} (hb : amt ≤ s.balOf a) :
    ∃ bal, sendBalance s.bal a sysAddr amt = some bal ∧
      stakeRun s a h amt =
        (.ok, { s with stakes := s.stakes.set a ⟨s.stakedAmount a + amt, h⟩, total := s.total + amt, bal := bal }) := by
  obtain ⟨bal, hs⟩ := sendBalance_ok s.bal a sysAddr amt (by rw [← St.balOf_eq]; exact hb)
  exact ⟨bal, hs, by unfold stakeRun; rw [hs]⟩

theorem stake_ok {s s' : St} {a : Bytes} {h amt : Nat} (hr : stake s a h amt = (.ok, s')) :
    stakeCheck s a h amt = none ∧
    ∃ bal, sendBalance s.bal a sysAddr amt = some bal ∧
      s' = { s with stakes := s.stakes.set a ⟨s.stakedAmount a + amt, h⟩, total := s.total + amt, bal := bal } := by
  unfold stake at hr
  cases hc : stakeCheck s a h amt with
  | some r =>
    rw [hc] at hr; simp only [Prod.mk.injEq] at hr
    obtain ⟨h1, _⟩ := hr
    subst h1
    -- a check never answers `ok`
    unfold stakeCheck at hc
    repeat' split at hc
    all_goals simp at hc
  | none =>
    rw [hc] at hr
    obtain ⟨bal, hs, hrun⟩ := stakeRun_ok (h := h) (stakeCheck_none hc).1
    simp only at hr
    rw [hrun] at hr
    simp only [Prod.mk.injEq, true_and] at hr
    exact ⟨rfl, bal, hs, hr.symm⟩

theorem stake_result (s : St) (a : Bytes) (h amt : Nat) :
    (stake s a h amt).1 = .ok ∨ (stake s a h amt).2 = s := by
  unfold stake
  cases hc : stakeCheck s a h amt with
  | some r => exact Or.inr rfl
  | none =>
    obtain ⟨bal, _, hrun⟩ := stakeRun_ok (h := h) (stakeCheck_none hc).1
    simp only; rw [hrun]; exact Or.inl rfl

/-- The result of a stake is `ok` exactly when validation passes. -/
theorem stake_fst (s : St) (a : Bytes) (h amt : Nat) :
    (stake s a h amt).1 = match stakeCheck s a h amt with | some r => r | none => .ok := by
  unfold stake
  cases hc : stakeCheck s a h amt with
  | some r => rfl
  | none =>
    obtain ⟨bal, _, hrun⟩ := stakeRun_ok (h := h) (stakeCheck_none hc).1
    simp only; rw [hrun]

/-! ### unstake -/

theorem unstakeCheck_none {s : St} {a : Bytes} {h amt : Nat} (hc : unstakeCheck s a h amt = none) :
    s.stakedAmount a ≠ 0 ∧ amt ≤ s.stakedAmount a ∧ s.stakedWhen a + stakingDelay ≤ h ∧
    (s.stakedAmount a - amt = 0 ∨ minStake s ≤ ((s.stakedAmount a - amt : Nat) : Int)) := by
  unfold unstakeCheck at hc
  by_cases h1 : s.stakedAmount a = 0
  · rw [if_pos h1] at hc; exact absurd hc (by simp)
  · rw [if_neg h1] at hc
    by_cases h2 : s.stakedAmount a < amt
    · rw [if_pos h2] at hc; exact absurd hc (by simp)
    · rw [if_neg h2] at hc
      by_cases h3 : s.stakedWhen a + stakingDelay > h
      · rw [if_pos h3] at hc; exact absurd hc (by simp)
      · rw [if_neg h3] at hc
        by_cases h4 : s.stakedAmount a - amt ≠ 0 ∧ minStake s > ((s.stakedAmount a - amt : Nat) : Int)
        · rw [if_pos h4] at hc; exact absurd hc (by simp)
        · refine ⟨h1, by omega, by omega, ?_⟩
          by_cases h5 : s.stakedAmount a - amt = 0
          · exact Or.inl h5
          · right
            have : ¬ minStake s > ((s.stakedAmount a - amt : Nat) : Int) := fun h6 => h4 ⟨h5, h6⟩
            omega

theorem check_ne_ok_unstake {s : St} {a : Bytes} {h amt : Nat} : unstakeCheck s a h amt ≠ some .ok := by
  unfold unstakeCheck
  repeat' split
  all_goals simp

theorem unstake_ok {s s' : St} {a : Bytes} {h amt : Nat} (hr : unstake s a h amt = (.ok, s')) :
    unstakeCheck s a h amt = none ∧
    ∃ s2 bal, refreshVotes a (s.stakedAmount a - amt) catalog (unstakeMid s a h amt) = some s2 ∧
      sendBalance s2.bal sysAddr a amt = some bal ∧
      s' = { s2 with total := ((s2.total : Int) - amt).natAbs, bal := bal } := by
  unfold unstake at hr
  cases hc : unstakeCheck s a h amt with
  | some r =>
    rw [hc] at hr; simp only [Prod.mk.injEq] at hr
    obtain ⟨h1, _⟩ := hr
    subst h1
    exact absurd hc check_ne_ok_unstake
  | none =>
    rw [hc] at hr
    simp only at hr
    unfold unstakeRun at hr
    cases hf : refreshVotes a (s.stakedAmount a - amt) catalog (unstakeMid s a h amt) with
    | none => rw [hf] at hr; simp at hr
    | some s2 =>
      rw [hf] at hr
      simp only at hr
      cases hs : sendBalance s2.bal sysAddr a amt with
      | none => rw [hs] at hr; simp at hr
      | some bal =>
        rw [hs] at hr
        simp only [Prod.mk.injEq, true_and] at hr
        exact ⟨rfl, s2, bal, rfl, hs, hr.symm⟩

theorem unstake_result (s : St) (a : Bytes) (h amt : Nat) :
    (unstake s a h amt).1 = .ok ∨ (unstake s a h amt).2 = s := by
  unfold unstake
  cases hc : unstakeCheck s a h amt with
  | some r => exact Or.inr rfl
  | none =>
    simp only
    unfold unstakeRun
    cases hf : refreshVotes a (s.stakedAmount a - amt) catalog (unstakeMid s a h amt) with
    | none => exact Or.inr rfl
    | some s2 =>
      simp only
      cases hs : sendBalance s2.bal sysAddr a amt with
      | none => exact Or.inr rfl
      | some bal => exact Or.inl rfl

/-! ### votes -/

theorem voteCheck_none {s : St} {i : Issue} {a : Bytes} {h : Nat} (hc : voteCheck s i a h = none) :
    s.stakedAmount a ≠ 0 ∧ ((s.voteOf i a).isSome → s.stakedWhen a + votingDelay ≤ h) := by
  unfold voteCheck at hc
  by_cases h1 : s.stakedAmount a = 0
  · rw [if_pos h1] at hc; exact absurd hc (by simp)
  · rw [if_neg h1] at hc
    by_cases h2 : (s.voteOf i a).isSome ∧ s.stakedWhen a + votingDelay > h
    · rw [if_pos h2] at hc; exact absurd hc (by simp)
    · refine ⟨h1, fun hv => ?_⟩
      by_cases h3 : s.stakedWhen a + votingDelay > h
      · exact absurd ⟨hv, h3⟩ h2
      · omega

theorem check_ne_ok_vote {s : St} {i : Issue} {a : Bytes} {h : Nat} : voteCheck s i a h ≠ some .ok := by
  unfold voteCheck
  repeat' split
  all_goals simp

theorem castVote_ok {s s' : St} {i : Issue} {a : Bytes} {h : Nat} {cands : List Bytes}
    (hr : castVote s i a h cands = (.ok, s')) :
    voteCheck s i a h = none ∧
    revote (voteMid s i a h cands) i a (s.voteOf i a) ⟨cands, s.stakedAmount a⟩ = some s' := by
  unfold castVote at hr
  cases hc : voteCheck s i a h with
  | some r =>
    rw [hc] at hr; simp only [Prod.mk.injEq] at hr
    obtain ⟨h1, _⟩ := hr
    subst h1
    exact absurd hc check_ne_ok_vote
  | none =>
    rw [hc] at hr
    simp only at hr
    unfold voteRun at hr
    cases hv : revote (voteMid s i a h cands) i a (s.voteOf i a) ⟨cands, s.stakedAmount a⟩ with
    | none => rw [hv] at hr; simp at hr
    | some s2 =>
      rw [hv] at hr
      simp only [Prod.mk.injEq, true_and] at hr
      subst hr
      exact ⟨rfl, rfl⟩

theorem castVote_result (s : St) (i : Issue) (a : Bytes) (h : Nat) (cands : List Bytes) :
    (castVote s i a h cands).1 = .ok ∨ (castVote s i a h cands).2 = s := by
  unfold castVote
  cases hc : voteCheck s i a h with
  | some r => exact Or.inr rfl
  | none =>
    simp only
    unfold voteRun
    cases hv : revote (voteMid s i a h cands) i a (s.voteOf i a) ⟨cands, s.stakedAmount a⟩ with
    | none => exact Or.inr rfl
    | some s2 => exact Or.inl rfl

theorem voteBP_result (s : St) (a : Bytes) (h : Nat) (cs : List Bytes) :
    (voteBP s a h cs).1 = .ok ∨ (voteBP s a h cs).2 = s := by
  unfold voteBP
  simp only
  split
  · exact Or.inr rfl
  · exact castVote_result _ _ _ _ _

theorem voteDAO_result (s : St) (a : Bytes) (h : Nat) (id : String) (args : List Bytes) :
    (voteDAO s a h id args).1 = .ok ∨ (voteDAO s a h id args).2 = s := by
  unfold voteDAO
  split
  · exact Or.inr rfl
  · split
    · exact Or.inr rfl
    · repeat' split
      all_goals first | exact Or.inr rfl | exact castVote_result _ _ _ _ _

end Aergo.Gov
