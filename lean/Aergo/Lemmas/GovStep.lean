import Aergo.Lemmas.GovVprInv

/-! Lemmas for C15: every operation keeps the voting-power rank invariant; the account table and the fork
version never change. -/

namespace Aergo.Gov

/-- The accounts that vote or unstake are declared (have an account id): the driver refuses others. -/
def Op.declared (s : St) : Op → Prop
  | .unstake a _ _ => (s.accts.get a).isSome
  | .voteBP a _ _ => (s.accts.get a).isSome
  | .voteDAO a _ _ _ => (s.accts.get a).isSome
  | _ => True

theorem invVpr_castVote {s s' : St} {i : Issue} {a : Bytes} {h : Nat} {cands : List Bytes} (hi : InvVpr s)
    (hd : (s.accts.get a).isSome) (hr : castVote s i a h cands = (.ok, s')) : InvVpr s' := by
  obtain ⟨_, hv⟩ := castVote_ok hr
  exact invVpr_revote (s0 := s) (s := voteMid s i a h cands) hi rfl rfl rfl rfl rfl hd hv

theorem invVpr_step {s : St} {o : Op} (hi : InvVpr s) (hd : o.declared s) : InvVpr (step s o).2 := by
  rcases step_result s o with hok | hsame
  case inr => rw [hsame]; exact hi
  · have hr : step s o = (.ok, (step s o).2) := Prod.ext hok rfl
    generalize (step s o).2 = s' at hr
    cases o with
    | stake a h amt =>
      obtain ⟨_, bal, _, rfl⟩ := stake_ok hr
      exact hi.of_same rfl rfl rfl rfl rfl
    | unstake a h amt =>
      obtain ⟨_, s2, bal, hf, _, rfl⟩ := unstake_ok hr
      have hmid : InvVpr (unstakeMid s a h amt) := hi.of_same rfl rfl rfl rfl rfl
      have h2 := refreshVotes_invVpr _ _ _ _ _ hf hmid hd
      exact h2.of_same rfl rfl rfl rfl rfl
    | voteBP a h c => exact invVpr_castVote hi hd (voteBP_ok hr).2
    | voteDAO a h id args =>
      obtain ⟨_, i, _, _, _, hc⟩ := voteDAO_ok hr
      exact invVpr_castVote hi hd hc
    | transfer x y amt =>
      obtain ⟨_, bal, _, rfl⟩ := transfer_ok hr
      exact hi.of_same rfl rfl rfl rfl rfl
    | nameCreate a n amt =>
      obtain ⟨_, _, _, bal, _, rfl⟩ := nameCreate_ok hr
      exact hi.of_same rfl rfl rfl rfl rfl
    | nameUpdate t sd n to amt =>
      obtain ⟨_, _, _, _, bal, _, rfl⟩ := nameUpdate_ok hr
      exact hi.of_same rfl rfl rfl rfl rfl
    | setOwner o =>
      obtain ⟨_, bal, _, rfl⟩ := nameSetOwner_ok hr
      exact hi.of_same rfl rfl rfl rfl rfl
    | endBlock =>
      simp only [step, Prod.mk.injEq, true_and] at hr
      subst hr; exact hi.of_same rfl rfl rfl rfl rfl
    | restart =>
      simp only [step, Prod.mk.injEq, true_and] at hr
      subst hr; exact invVpr_restart hi

/-- No operation changes the account table or the fork version. -/
theorem step_accts (s : St) (o : Op) : (step s o).2.accts = s.accts ∧ (step s o).2.fv = s.fv := by
  rcases step_result s o with hok | hsame
  case inr => rw [hsame]; exact ⟨rfl, rfl⟩
  · have hr : step s o = (.ok, (step s o).2) := Prod.ext hok rfl
    generalize (step s o).2 = s' at hr
    cases o with
    | stake a h amt => obtain ⟨_, bal, _, rfl⟩ := stake_ok hr; exact ⟨rfl, rfl⟩
    | unstake a h amt =>
      obtain ⟨_, s2, bal, hf, _, rfl⟩ := unstake_ok hr
      obtain ⟨h1, h2, _⟩ := refreshVotes_frame _ _ _ _ _ hf
      exact ⟨h2, h1⟩
    | voteBP a h c =>
      obtain ⟨_, hv⟩ := castVote_ok (voteBP_ok hr).2
      obtain ⟨h1, h2, _⟩ := revote_frame hv
      exact ⟨h2, h1⟩
    | voteDAO a h id args =>
      obtain ⟨_, i, _, _, _, hc⟩ := voteDAO_ok hr
      obtain ⟨_, hv⟩ := castVote_ok hc
      obtain ⟨h1, h2, _⟩ := revote_frame hv
      exact ⟨h2, h1⟩
    | transfer x y amt => obtain ⟨_, bal, _, rfl⟩ := transfer_ok hr; exact ⟨rfl, rfl⟩
    | nameCreate a n amt => obtain ⟨_, _, _, bal, _, rfl⟩ := nameCreate_ok hr; exact ⟨rfl, rfl⟩
    | nameUpdate t sd n to amt => obtain ⟨_, _, _, _, bal, _, rfl⟩ := nameUpdate_ok hr; exact ⟨rfl, rfl⟩
    | setOwner o => obtain ⟨_, bal, _, rfl⟩ := nameSetOwner_ok hr; exact ⟨rfl, rfl⟩
    | endBlock => simp only [step, Prod.mk.injEq, true_and] at hr; subst hr; exact ⟨rfl, rfl⟩
    | restart => simp only [step, Prod.mk.injEq, true_and] at hr; subst hr; exact ⟨rfl, rfl⟩

theorem declared_mono {s s' : St} (h : s'.accts = s.accts) (o : Op) (hd : o.declared s) : o.declared s' := by
  cases o <;> simp only [Op.declared] at hd ⊢ <;> first | trivial | (rw [h]; exact hd)

end Aergo.Gov
