import Aergo.Lemmas.GovMap

/-! Lemmas for C15: the tally arithmetic — SubVote/AddVote on the loaded map, written back with `Bytes()`,
against the sum of the recorded votes. -/

namespace Aergo.Gov

abbrev TKey := Issue × Bytes

/-- Lookup in a persisted tally, 0 when absent. -/
def tget (t : AMap TKey Nat) (k : TKey) : Nat :=
  match t.get k with
  | some x => x
  | none => 0

theorem iget_set (t : AMap TKey Int) (k k' : TKey) (v : Int) :
    iget (t.set k v) k' = if k = k' then v else iget t k' := by
  unfold iget; rw [AMap.get_set]; by_cases h : k = k' <;> simp [h]

/-- What one vote contributes to the tally entry `k`. -/
def contrib (i : Issue) (amt : Nat) (cs : List Bytes) (k : TKey) : Nat :=
  if k.1 = i then amt * cs.count k.2 else 0

theorem contrib_nil (i : Issue) (amt : Nat) (k : TKey) : contrib i amt [] k = 0 := by
  unfold contrib; split <;> simp

theorem contrib_cons (i : Issue) (amt : Nat) (c : Bytes) (cs : List Bytes) (k : TKey) :
    contrib i amt (c :: cs) k = (if k = (i, c) then amt else 0) + contrib i amt cs k := by
  unfold contrib
  obtain ⟨ki, kc⟩ := k
  by_cases h1 : ki = i
  · subst h1
    by_cases h2 : kc = c
    · subst h2; simp [List.count_cons_self, Nat.mul_add]; omega
    · have : ¬ (ki, kc) = (ki, c) := by intro e; injection e with _ e2; exact h2 e2
      have hc : (c == kc) = false := by simpa using fun e => h2 e.symm
      simp [this, List.count_cons, hc]
  · have : ¬ (ki, kc) = (i, c) := by intro e; injection e with e1 _; exact h1 e1
    simp [h1, this]

theorem subVotes_spec (i : Issue) (amt : Nat) :
    ∀ (cs : List Bytes) (t t' : AMap TKey Int), subVotes t i amt cs = some t' →
      (t.keys.Nodup → t'.keys.Nodup) ∧ ∀ k, iget t' k = iget t k - (contrib i amt cs k : Int)
  | [], t, t', h => by
    simp [subVotes] at h; subst h
    exact ⟨id, fun k => by simp [contrib_nil]⟩
  | c :: cs, t, t', h => by
    unfold subVotes at h
    split at h
    · exact absurd h (by simp)
    · rename_i x hx
      obtain ⟨hn, hk⟩ := subVotes_spec i amt cs _ t' h
      refine ⟨fun hnd => hn (AMap.nodup_set hnd _ _), fun k => ?_⟩
      rw [hk k, iget_set, contrib_cons]
      by_cases he : (i, c) = k
      · subst he
        have : iget t (i, c) = x := by unfold iget; rw [hx]
        simp [this]; omega
      · have he' : ¬ k = (i, c) := fun e => he e.symm
        simp [he, he']

theorem addVotes_spec (i : Issue) (amt : Nat) :
    ∀ (cs : List Bytes) (t : AMap TKey Int),
      (t.keys.Nodup → (addVotes t i amt cs).keys.Nodup) ∧
      ∀ k, iget (addVotes t i amt cs) k = iget t k + (contrib i amt cs k : Int)
  | [], t => by
    simp only [addVotes]
    exact ⟨id, fun k => by simp [contrib_nil]⟩
  | c :: cs, t => by
    unfold addVotes
    obtain ⟨hn, hk⟩ := addVotes_spec i amt cs (t.set (i, c) (iget t (i, c) + amt))
    refine ⟨fun hnd => hn (AMap.nodup_set hnd _ _), fun k => ?_⟩
    rw [hk k, iget_set, contrib_cons]
    by_cases he : (i, c) = k
    · subst he; simp; omega
    · have he' : ¬ k = (i, c) := fun e => he e.symm
      simp [he, he']

theorem tallyLoad_keys (t : AMap TKey Nat) : (tallyLoad t).keys = t.keys := by
  simp [tallyLoad, AMap.keys, List.map_map, Function.comp_def]

theorem tallyStore_keys (t : AMap TKey Int) : (tallyStore t).keys = t.keys := by
  simp [tallyStore, AMap.keys, List.map_map, Function.comp_def]

theorem iget_tallyLoad (t : AMap TKey Nat) (k : TKey) : iget (tallyLoad t) k = (tget t k : Int) := by
  induction t with
  | nil => rfl
  | cons e r ih =>
    obtain ⟨k', v⟩ := e
    show iget ((k', (v : Int)) :: tallyLoad r) k = _
    unfold iget tget at *
    rw [AMap.get_cons, AMap.get_cons]
    by_cases h : k' = k
    · simp [h]
    · simp only [h, if_false]; exact ih

theorem tget_tallyStore (t : AMap TKey Int) (k : TKey) : tget (tallyStore t) k = (iget t k).natAbs := by
  induction t with
  | nil => rfl
  | cons e r ih =>
    obtain ⟨k', v⟩ := e
    show tget ((k', v.natAbs) :: tallyStore r) k = _
    unfold iget tget at *
    rw [AMap.get_cons, AMap.get_cons]
    by_cases h : k' = k
    · simp [h]
    · simp only [h, if_false]; exact ih

/-- The whole tally update of one re-vote, entry by entry. -/
theorem revoteTally_spec {t t' : AMap TKey Nat} {i : Issue} {old : Option Vote} {new : Vote}
    (h : revoteTally t i old new = some t') :
    (t.keys.Nodup → t'.keys.Nodup) ∧
    ∀ k, tget t' k = ((tget t k : Int) - contrib i (oldAmount old) (oldCands old) k
                        + contrib i new.amount new.cands k).natAbs := by
  unfold revoteTally at h
  split at h
  · exact absurd h (by simp)
  · rename_i t1 h1
    injection h with h
    subst h
    obtain ⟨hn1, hk1⟩ := subVotes_spec i _ _ _ _ h1
    obtain ⟨hn2, hk2⟩ := addVotes_spec i new.amount new.cands t1
    refine ⟨fun hnd => ?_, fun k => ?_⟩
    · rw [tallyStore_keys]; apply hn2; apply hn1; rw [tallyLoad_keys]; exact hnd
    · rw [tget_tallyStore, hk2, hk1, iget_tallyLoad]

/-! ### Σ of the recorded votes -/

/-- Σ over the recorded votes of their contribution to the tally entry `k`. -/
def voteSum (v : AMap (Issue × Bytes) Vote) (k : TKey) : Nat :=
  AMap.sum (fun e => contrib e.1.1 e.2.amount e.2.cands k) v

theorem get_setVote (m : AMap (Issue × Bytes) Vote) (i : Issue) (a : Bytes) (v : Vote) (k : Issue × Bytes) :
    (setVote m i a v).get k =
      if (i, a) = k then (if i = .bp ∧ v.cands = [] ∧ v.amount = 0 then none else some v) else m.get k := by
  unfold setVote
  by_cases hd : i = .bp ∧ v.cands = [] ∧ v.amount = 0
  · rw [if_pos hd, AMap.get_del]; simp [hd]
  · rw [if_neg hd, AMap.get_set]; simp [hd]

theorem nodup_setVote {m : AMap (Issue × Bytes) Vote} (hn : m.keys.Nodup) (i : Issue) (a : Bytes) (v : Vote) :
    (setVote m i a v).keys.Nodup := by
  unfold setVote
  split
  · exact AMap.nodup_del hn _
  · exact AMap.nodup_set hn _ _

/-- Replacing one voter's record changes the vote sum of an entry by new contribution − old contribution. -/
theorem voteSum_setVote {m : AMap (Issue × Bytes) Vote} (hn : m.keys.Nodup) (i : Issue) (a : Bytes) (v : Vote) (k : TKey) :
    voteSum (setVote m i a v) k + contrib i (oldAmount (m.get (i, a))) (oldCands (m.get (i, a))) k
      = voteSum m k + contrib i v.amount v.cands k := by
  have hat : AMap.at (fun (e : (Issue × Bytes) × Vote) => contrib e.1.1 e.2.amount e.2.cands k) m (i, a)
      = contrib i (oldAmount (m.get (i, a))) (oldCands (m.get (i, a))) k := by
    unfold AMap.at
    cases m.get (i, a) with
    | none => simp [oldAmount, oldCands, contrib_nil]
    | some x => simp [oldAmount, oldCands]
  unfold setVote voteSum
  by_cases hd : i = .bp ∧ v.cands = [] ∧ v.amount = 0
  · rw [if_pos hd]
    have := AMap.sum_del (fun (e : (Issue × Bytes) × Vote) => contrib e.1.1 e.2.amount e.2.cands k) hn (i, a)
    rw [hat] at this
    have hz : contrib i v.amount v.cands k = 0 := by rw [hd.2.1]; exact contrib_nil _ _ _
    omega
  · rw [if_neg hd]
    have := AMap.sum_set (fun (e : (Issue × Bytes) × Vote) => contrib e.1.1 e.2.amount e.2.cands k) hn (i, a) v
    rw [hat] at this
    exact this

theorem contrib_old_le {m : AMap (Issue × Bytes) Vote} (hn : m.keys.Nodup) (i : Issue) (a : Bytes) (k : TKey) :
    contrib i (oldAmount (m.get (i, a))) (oldCands (m.get (i, a))) k ≤ voteSum m k := by
  have hat : AMap.at (fun (e : (Issue × Bytes) × Vote) => contrib e.1.1 e.2.amount e.2.cands k) m (i, a)
      = contrib i (oldAmount (m.get (i, a))) (oldCands (m.get (i, a))) k := by
    unfold AMap.at
    cases m.get (i, a) with
    | none => simp [oldAmount, oldCands, contrib_nil]
    | some x => simp [oldAmount, oldCands]
  rw [← hat]; exact AMap.at_le_sum _ hn _

/-- The tally clause of the invariant for one (votes, tally) pair. -/
def TallyOk (votes : AMap (Issue × Bytes) Vote) (tally : AMap TKey Nat) : Prop :=
  votes.keys.Nodup ∧ tally.keys.Nodup ∧ ∀ k, tget tally k = voteSum votes k

/-- One re-vote keeps "tally = Σ votes": `votes` is the record map *before* the voter's record was replaced. -/
theorem tallyOk_revote {votes : AMap (Issue × Bytes) Vote} {t t' : AMap TKey Nat} {i : Issue} {a : Bytes} {new : Vote}
    (hok : TallyOk votes t) (h : revoteTally t i (votes.get (i, a)) new = some t') :
    TallyOk (setVote votes i a new) t' := by
  obtain ⟨hv, ht, hk⟩ := hok
  obtain ⟨hn, hs⟩ := revoteTally_spec h
  refine ⟨nodup_setVote hv _ _ _, hn ht, fun k => ?_⟩
  rw [hs k, hk k]
  have h1 := voteSum_setVote hv i a new k
  have h2 := contrib_old_le hv i a k
  omega

end Aergo.Gov
