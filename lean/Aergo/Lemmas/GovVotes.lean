import Aergo.Lemmas.GovInv
import Aergo.Lemmas.GovTally

/-! Lemmas for C15: `tally = Σ recorded votes` and `recorded voting amount ≤ stake` are preserved by every
operation. -/

namespace Aergo.Gov

structure InvVotes (s : St) : Prop where
  tally : TallyOk s.votes s.tally
  le : ∀ i a v, s.votes.get (i, a) = some v → v.amount ≤ s.stakedAmount a

theorem revote_tally {s s' : St} {i a old new} (h : revote s i a old new = some s') :
    revoteTally s.tally i old new = some s'.tally := by
  unfold revote at h
  split at h
  · exact absurd h (by simp)
  · rename_i t2 ht
    simp only at h
    rw [ht]
    split at h
    · split at h
      · exact absurd h (by simp)
      · cases h; rfl
      · cases h; rfl
    · cases h; rfl

theorem catalog_complete (i : Issue) : i ∈ catalog := by cases i <;> simp [catalog]

theorem stakedAmount_set (s : St) (a b : Bytes) (st : Staking) (s' : St) (hs : s'.stakes = s.stakes.set a st) :
    s'.stakedAmount b = if a = b then st.amount else s.stakedAmount b := by
  unfold St.stakedAmount
  rw [hs, AMap.get_set]
  by_cases h : a = b <;> simp [h]

theorem refreshVotes_inv (a : Bytes) (staked : Nat) :
    ∀ (is : List Issue) (s s' : St), refreshVotes a staked is s = some s' → TallyOk s.votes s.tally →
      TallyOk s'.votes s'.tally ∧
      (∀ i b, b ≠ a → s'.votes.get (i, b) = s.votes.get (i, b)) ∧
      (∀ i v, s'.votes.get (i, a) = some v → v.amount ≤ staked ∨ (i ∉ is ∧ s.votes.get (i, a) = some v))
  | [], s, s', h, hok => by
    simp [refreshVotes] at h; subst h
    exact ⟨hok, fun _ _ _ => rfl, fun i v hv => Or.inr ⟨by simp, hv⟩⟩
  | j :: is, s, s', h, hok => by
    unfold refreshVotes at h
    cases hold : s.voteOf j a with
    | none =>
      rw [hold] at h
      obtain ⟨h1, h2, h3⟩ := refreshVotes_inv a staked is s s' h hok
      refine ⟨h1, h2, fun i v hv => ?_⟩
      rcases h3 i v hv with hle | ⟨hni, hg⟩
      · exact Or.inl hle
      · right
        refine ⟨?_, hg⟩
        intro hm
        rcases List.mem_cons.mp hm with rfl | hm
        · unfold St.voteOf at hold; rw [hold] at hg; exact absurd hg (by simp)
        · exact hni hm
    | some old =>
      rw [hold] at h
      simp only at h
      by_cases hle : old.amount ≤ staked
      · rw [if_pos hle] at h
        obtain ⟨h1, h2, h3⟩ := refreshVotes_inv a staked is s s' h hok
        refine ⟨h1, h2, fun i v hv => ?_⟩
        rcases h3 i v hv with hl | ⟨hni, hg⟩
        · exact Or.inl hl
        · by_cases hij : i = j
          · subst hij
            unfold St.voteOf at hold; rw [hold] at hg
            injection hg with hg; subst hg
            exact Or.inl hle
          · right
            refine ⟨?_, hg⟩
            intro hm
            rcases List.mem_cons.mp hm with e | hm
            · exact hij e
            · exact hni hm
      · rw [if_neg hle] at h
        split at h
        · exact absurd h (by simp)
        · rename_i s1 hs1
          have hfr := revote_frame hs1
          have htl := revote_tally hs1
          simp only at htl
          have hvotes : s1.votes = setVote s.votes j a ⟨old.cands, staked⟩ := hfr.2.2.2.2.2.1
          have hold' : s.votes.get (j, a) = some old := hold
          have hok1 : TallyOk s1.votes s1.tally := by
            rw [hvotes]
            apply tallyOk_revote hok
            rw [hold']; exact htl
          obtain ⟨h1, h2, h3⟩ := refreshVotes_inv a staked is s1 s' h hok1
          refine ⟨h1, fun i b hb => ?_, fun i v hv => ?_⟩
          · rw [h2 i b hb, hvotes, get_setVote]
            have : ¬ (j, a) = (i, b) := by intro e; injection e with _ e2; exact hb e2.symm
            simp [this]
          · rcases h3 i v hv with hl | ⟨hni, hg⟩
            · exact Or.inl hl
            · rw [hvotes, get_setVote] at hg
              by_cases hij : i = j
              · subst hij
                simp only [if_true] at hg
                split at hg
                · exact absurd hg (by simp)
                · injection hg with hg; subst hg; exact Or.inl (Nat.le_refl _)
              · have : ¬ (j, a) = (i, a) := by intro e; injection e with e1 _; exact hij e1.symm
                simp only [this, if_false] at hg
                right
                refine ⟨?_, hg⟩
                intro hm
                rcases List.mem_cons.mp hm with e | hm
                · exact hij e
                · exact hni hm

theorem invVotes_castVote {s s' : St} {i : Issue} {a : Bytes} {h : Nat} {cands : List Bytes} (hi : InvVotes s)
    (hr : castVote s i a h cands = (.ok, s')) : InvVotes s' := by
  obtain ⟨_, hv⟩ := castVote_ok hr
  have hfr := revote_frame hv
  have htl := revote_tally hv
  have hvotes : s'.votes = setVote s.votes i a ⟨cands, s.stakedAmount a⟩ := hfr.2.2.2.2.2.1
  have hstakes : s'.stakes = s.stakes.set a ⟨s.stakedAmount a, h⟩ := hfr.2.2.2.1
  refine ⟨?_, fun i' b v hg => ?_⟩
  · rw [hvotes]
    exact tallyOk_revote hi.tally htl
  · rw [stakedAmount_set s a b _ s' hstakes]
    rw [hvotes, get_setVote] at hg
    by_cases hk : (i, a) = (i', b)
    · injection hk with h1 h2
      subst h2
      simp only [h1, if_true] at hg
      split at hg
      · exact absurd hg (by simp)
      · injection hg with hg; subst hg; simp
    · simp only [hk, if_false] at hg
      have := hi.le i' b v hg
      by_cases hab : a = b
      · subst hab; simp; exact this
      · simp [hab]; exact this

theorem invVotes_stake {s s' : St} {a : Bytes} {h amt : Nat} (hi : InvVotes s) (hr : stake s a h amt = (.ok, s')) :
    InvVotes s' := by
  obtain ⟨_, bal, _, rfl⟩ := stake_ok hr
  refine ⟨hi.tally, fun i b v hg => ?_⟩
  rw [stakedAmount_set s a b _ _ rfl]
  have := hi.le i b v hg
  by_cases hab : a = b
  · subst hab; simp; omega
  · simp [hab]; exact this

theorem invVotes_unstake {s s' : St} {a : Bytes} {h amt : Nat} (hi : InvVotes s) (hr : unstake s a h amt = (.ok, s')) :
    InvVotes s' := by
  obtain ⟨_, s2, bal, hf, _, rfl⟩ := unstake_ok hr
  obtain ⟨h1, h2, h3⟩ := refreshVotes_inv _ _ _ _ _ hf hi.tally
  obtain ⟨_, _, _, hs, _⟩ := refreshVotes_frame _ _ _ _ _ hf
  refine ⟨h1, fun i b v hg => ?_⟩
  have hst : St.stakedAmount { s2 with total := ((s2.total : Int) - amt).natAbs, bal := bal } b
      = if a = b then s.stakedAmount a - amt else s.stakedAmount b := by
    rw [stakedAmount_set s a b ⟨s.stakedAmount a - amt, h⟩ _ (by simp only; rw [hs]; rfl)]
  rw [hst]
  by_cases hab : a = b
  · subst hab
    simp only [if_true]
    rcases h3 i v hg with hle | ⟨hni, _⟩
    · exact hle
    · exact absurd (catalog_complete i) hni
  · simp only [hab, if_false]
    have : s2.votes.get (i, b) = s.votes.get (i, b) := h2 i b (Ne.symm hab)
    have hg' : s.votes.get (i, b) = some v := by rw [← this]; exact hg
    exact hi.le i b v hg'

theorem InvVotes.of_same {s s' : St} (h : InvVotes s) (h1 : s'.votes = s.votes) (h2 : s'.tally = s.tally)
    (h3 : s'.stakes = s.stakes) : InvVotes s' := by
  refine ⟨by rw [h1, h2]; exact h.tally, fun i a v hg => ?_⟩
  have : s'.stakedAmount a = s.stakedAmount a := by unfold St.stakedAmount; rw [h3]
  rw [this]; rw [h1] at hg; exact h.le i a v hg

theorem invVotes_step {s : St} {o : Op} (hi : InvVotes s) : InvVotes (step s o).2 := by
  rcases step_result s o with hok | hsame
  case inr => rw [hsame]; exact hi
  · have hr : step s o = (.ok, (step s o).2) := Prod.ext hok rfl
    generalize (step s o).2 = s' at hr
    cases o with
    | stake a h amt => exact invVotes_stake hi hr
    | unstake a h amt => exact invVotes_unstake hi hr
    | voteBP a h c => exact invVotes_castVote hi (voteBP_ok hr).2
    | voteDAO a h id args =>
      obtain ⟨_, i, _, _, _, hc⟩ := voteDAO_ok hr
      exact invVotes_castVote hi hc
    | transfer x y amt =>
      obtain ⟨_, bal, _, rfl⟩ := transfer_ok hr
      exact hi.of_same rfl rfl rfl
    | nameCreate a n amt =>
      obtain ⟨_, _, _, bal, _, rfl⟩ := nameCreate_ok hr
      exact hi.of_same rfl rfl rfl
    | nameUpdate t sd n to amt =>
      obtain ⟨_, _, _, _, bal, _, rfl⟩ := nameUpdate_ok hr
      exact hi.of_same rfl rfl rfl
    | setOwner o =>
      obtain ⟨_, bal, _, rfl⟩ := nameSetOwner_ok hr
      exact hi.of_same rfl rfl rfl
    | endBlock =>
      simp only [step, Prod.mk.injEq, true_and] at hr
      subst hr; exact hi.of_same rfl rfl rfl
    | restart =>
      simp only [step, Prod.mk.injEq, true_and] at hr
      subst hr; exact hi.of_same rfl rfl rfl

end Aergo.Gov
