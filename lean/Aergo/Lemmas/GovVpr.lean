import Aergo.Lemmas.GovMap

/-! Lemmas for C15: the voting-power rank. `loadVpr` of well-formed persisted buckets in closed form; the
memory invariant (`VprOk`) kept by `vpr.apply`; memory = reload. -/

namespace Aergo.Gov

/-! ### Lists of voters -/

/-- The entry of account id `id` in a bucket. -/
def findId (id : Bytes) : List VP → Option VP
  | [] => none
  | e :: r => if e.id = id then some e else findId id r

def bucketSum (l : List VP) : Int := (l.map (·.power)).sum

/-- Power of an optional entry (0 when absent). -/
def optPower : Option VP → Int
  | some e => e.power
  | none => 0

theorem bucketSum_cons (e : VP) (l : List VP) : bucketSum (e :: l) = e.power + bucketSum l := by
  simp [bucketSum]

theorem bucketSum_append (l₁ l₂ : List VP) : bucketSum (l₁ ++ l₂) = bucketSum l₁ + bucketSum l₂ := by
  simp [bucketSum]

theorem findId_append (id : Bytes) (l₁ l₂ : List VP) :
    findId id (l₁ ++ l₂) = match findId id l₁ with | some e => some e | none => findId id l₂ := by
  induction l₁ with
  | nil => rfl
  | cons e r ih =>
    simp only [List.cons_append, findId]
    by_cases h : e.id = id
    · simp [h]
    · simp [h]; exact ih

theorem findId_some {id : Bytes} {l : List VP} {e : VP} (h : findId id l = some e) : e ∈ l ∧ e.id = id := by
  induction l with
  | nil => simp [findId] at h
  | cons x r ih =>
    simp only [findId] at h
    by_cases hx : x.id = id
    · simp [hx] at h; subst h; exact ⟨List.mem_cons_self, hx⟩
    · simp [hx] at h; exact ⟨List.mem_cons_of_mem _ (ih h).1, (ih h).2⟩

theorem findId_none {id : Bytes} {l : List VP} (h : findId id l = none) : ∀ e ∈ l, e.id ≠ id := by
  induction l with
  | nil => simp
  | cons x r ih =>
    simp only [findId] at h
    by_cases hx : x.id = id
    · simp [hx] at h
    · simp [hx] at h
      intro e he
      rcases List.mem_cons.mp he with rfl | he
      · exact hx
      · exact ih h e he

theorem findId_none_of {id : Bytes} {l : List VP} (h : ∀ e ∈ l, e.id ≠ id) : findId id l = none := by
  induction l with
  | nil => rfl
  | cons x r ih =>
    simp only [findId]
    have hx : ¬ x.id = id := h x List.mem_cons_self
    simp [hx]
    exact ih (fun e he => h e (List.mem_cons_of_mem _ he))

theorem findId_of_mem {l : List VP} (hn : (l.map (·.id)).Nodup) {e : VP} (he : e ∈ l) : findId e.id l = some e := by
  induction l with
  | nil => simp at he
  | cons x r ih =>
    simp only [List.map_cons, List.nodup_cons] at hn
    simp only [findId]
    rcases List.mem_cons.mp he with rfl | he
    · simp
    · have : ¬ x.id = e.id := by
        intro hx; exact hn.1 (List.mem_map.mpr ⟨e, he, hx.symm⟩)
      simp [this]; exact ih hn.2 he

/-! ### bucketRemove / bucketInsert -/

theorem bucketRemove_cons_eq {id : Bytes} {x : VP} (h : x.id = id) (r : List VP) :
    bucketRemove id (x :: r) = bucketRemove id r := by
  simp [bucketRemove, h]

theorem bucketRemove_cons_ne {id : Bytes} {x : VP} (h : x.id ≠ id) (r : List VP) :
    bucketRemove id (x :: r) = x :: bucketRemove id r := by
  simp [bucketRemove, h]

theorem findId_remove (id id' : Bytes) (l : List VP) :
    findId id' (bucketRemove id l) = if id = id' then none else findId id' l := by
  induction l with
  | nil => simp [bucketRemove, findId]
  | cons x r ih =>
    by_cases hx : x.id = id
    · rw [bucketRemove_cons_eq hx, ih]
      by_cases hi : id = id'
      · simp [hi]
      · have : ¬ x.id = id' := by rw [hx]; exact hi
        simp [hi, findId, this]
    · rw [bucketRemove_cons_ne hx]
      simp only [findId]
      by_cases hx' : x.id = id'
      · have : ¬ id = id' := by intro e; exact hx (hx'.trans e.symm)
        simp [hx', this]
      · simp [hx']; exact ih

theorem mem_remove {id : Bytes} {l : List VP} {e : VP} : e ∈ bucketRemove id l ↔ e ∈ l ∧ e.id ≠ id := by
  simp [bucketRemove]

theorem nodup_remove {id : Bytes} {l : List VP} (hn : (l.map (·.id)).Nodup) : ((bucketRemove id l).map (·.id)).Nodup := by
  induction l with
  | nil => simp [bucketRemove]
  | cons x r ih =>
    simp only [List.map_cons, List.nodup_cons] at hn
    by_cases hx : x.id = id
    · rw [bucketRemove_cons_eq hx]; exact ih hn.2
    · rw [bucketRemove_cons_ne hx]
      simp only [List.map_cons, List.nodup_cons]
      refine ⟨?_, ih hn.2⟩
      intro hm
      obtain ⟨e, he, hid⟩ := List.mem_map.mp hm
      exact hn.1 (List.mem_map.mpr ⟨e, (mem_remove.mp he).1, hid⟩)

theorem bucketSum_remove {id : Bytes} {l : List VP} (hn : (l.map (·.id)).Nodup) :
    bucketSum (bucketRemove id l) = bucketSum l - optPower (findId id l) := by
  induction l with
  | nil => simp [bucketRemove, bucketSum, findId, optPower]
  | cons x r ih =>
    simp only [List.map_cons, List.nodup_cons] at hn
    by_cases hx : x.id = id
    · rw [bucketRemove_cons_eq hx]
      have hnone : findId id r = none := by
        apply findId_none_of
        intro e he hid
        exact hn.1 (List.mem_map.mpr ⟨e, he, hid.trans hx.symm⟩)
      have := ih hn.2
      rw [hnone] at this
      simp only [optPower] at this
      simp only [findId, hx, if_true, bucketSum_cons, optPower]
      rw [this]; omega
    · rw [bucketRemove_cons_ne hx]
      simp only [findId, hx, if_false, bucketSum_cons]
      rw [ih hn.2]; omega

theorem bucketInsert_perm (x : VP) : ∀ l, (bucketInsert x l).Perm (x :: l)
  | [] => List.Perm.refl _
  | e :: r => by
    unfold bucketInsert
    split
    · exact List.Perm.refl _
    · exact ((bucketInsert_perm x r).cons e).trans (List.Perm.swap x e r)

theorem mem_insert {x e : VP} {l : List VP} : e ∈ bucketInsert x l ↔ e = x ∨ e ∈ l := by
  rw [(bucketInsert_perm x l).mem_iff]; simp

theorem nodup_insert {x : VP} {l : List VP} (hn : (l.map (·.id)).Nodup) (hx : ∀ e ∈ l, e.id ≠ x.id) :
    ((bucketInsert x l).map (·.id)).Nodup := by
  have hp := (bucketInsert_perm x l).map (·.id)
  rw [hp.nodup_iff]
  simp only [List.map_cons, List.nodup_cons]
  refine ⟨?_, hn⟩
  intro hm
  obtain ⟨e, he, hid⟩ := List.mem_map.mp hm
  exact hx e he hid

theorem bucketSum_insert (x : VP) (l : List VP) : bucketSum (bucketInsert x l) = x.power + bucketSum l := by
  induction l with
  | nil => simp [bucketInsert, bucketSum]
  | cons e r ih =>
    unfold bucketInsert
    split
    · simp [bucketSum_cons]
    · simp [bucketSum_cons, ih]; omega

theorem findId_insert {x : VP} {l : List VP} (hx : ∀ e ∈ l, e.id ≠ x.id) (id' : Bytes) :
    findId id' (bucketInsert x l) = if x.id = id' then some x else findId id' l := by
  induction l with
  | nil => simp [bucketInsert, findId]
  | cons e r ih =>
    have he : e.id ≠ x.id := hx e List.mem_cons_self
    have hr : ∀ e ∈ r, e.id ≠ x.id := fun e' h' => hx e' (List.mem_cons_of_mem _ h')
    unfold bucketInsert
    split
    · simp [findId]
    · simp only [findId]
      by_cases h1 : e.id = id'
      · have : ¬ x.id = id' := by intro h2; exact he (h1.trans h2.symm)
        simp [h1, this]
      · simp [h1]; exact ih hr

/-! ### Buckets as a map -/

theorem getBucket_set (b : AMap Nat (List VP)) (i j : Nat) (l : List VP) :
    getBucket (b.set i l) j = if i = j then l else getBucket b j := by
  unfold getBucket; rw [AMap.get_set]; by_cases h : i = j <;> simp [h]

/-- Σ over the 71 buckets. -/
def bucketsTotal (b : AMap Nat (List VP)) : Int := ((List.range 71).map fun i => bucketSum (getBucket b i)).sum

theorem sum_map_update {l : List Nat} (hn : l.Nodup) {f g : Nat → Int} {i : Nat} (hi : i ∈ l)
    (hfg : ∀ j, j ≠ i → g j = f j) : (l.map g).sum = (l.map f).sum - f i + g i := by
  induction l with
  | nil => simp at hi
  | cons x r ih =>
    simp only [List.nodup_cons] at hn
    simp only [List.map_cons, List.sum_cons]
    rcases List.mem_cons.mp hi with rfl | hi
    · have : r.map g = r.map f := by
        apply List.map_congr_left
        intro j hj
        exact hfg j (fun e => hn.1 (e ▸ hj))
      rw [this]; omega
    · have hx : x ≠ i := fun e => hn.1 (e ▸ hi)
      rw [ih hn.2 hi, hfg x hx]; omega

theorem bucketsTotal_set (b : AMap Nat (List VP)) {i : Nat} (hi : i < 71) (l : List VP) :
    bucketsTotal (b.set i l) = bucketsTotal b - bucketSum (getBucket b i) + bucketSum l := by
  unfold bucketsTotal
  have := sum_map_update (l := List.range 71) List.nodup_range
    (f := fun j => bucketSum (getBucket b j)) (g := fun j => bucketSum (getBucket (b.set i l) j))
    (i := i) (List.mem_range.mpr hi)
    (fun j hj => by rw [getBucket_set, if_neg (Ne.symm hj)])
  rw [this, getBucket_set, if_pos rfl]

theorem bucketIdx_lt : ∀ id : Bytes, bucketIdx id < 71
  | [] => by decide
  | x :: _ => by show x.toNat % 71 < 71; omega

/-! ### Well-formed buckets, closed form of `loadVpr` -/

/-- Every entry sits in the bucket of its id, has a positive power, ids are distinct. -/
def BucketWF (i : Nat) (l : List VP) : Prop :=
  (∀ e ∈ l, bucketIdx e.id = i ∧ 0 < e.power) ∧ (l.map (·.id)).Nodup

def powerGet (v : Vpr) (id : Bytes) : Option VP := v.powers.get id

/-- State of the loader after the buckets below `j` and the prefix `pre` of bucket `j`. -/
structure LoadInv (D : AMap Nat (List VP)) (j : Nat) (pre : List VP) (v : Vpr) : Prop where
  buckets : ∀ i, getBucket v.buckets i = if i < j then getBucket D i else if i = j then pre else []
  powers : ∀ id, v.powers.get id =
    if bucketIdx id < j then findId id (getBucket D (bucketIdx id))
    else if bucketIdx id = j then findId id pre else none
  total : v.total = ((List.range j).map fun i => bucketSum (getBucket D i)).sum + bucketSum pre

theorem loadInv_entries (D : AMap Nat (List VP)) (j : Nat) (hwf : BucketWF j (getBucket D j)) :
    ∀ (rest pre : List VP) (v : Vpr), getBucket D j = pre ++ rest → LoadInv D j pre v →
      LoadInv D j (pre ++ rest) (rest.foldl (fun v e => loadEntry v j e) v)
  | [], pre, v, _, h => by simpa using h
  | e :: rest, pre, v, hsplit, h => by
    have he_mem : e ∈ getBucket D j := by rw [hsplit]; simp
    have hidx : bucketIdx e.id = j := (hwf.1 e he_mem).1
    have hnd := hwf.2
    rw [hsplit] at hnd
    have hnew : findId e.id pre = none := by
      apply findId_none_of
      intro x hx hid
      simp only [List.map_append, List.map_cons] at hnd
      have := List.nodup_append.mp hnd
      exact this.2.2 x.id (List.mem_map.mpr ⟨x, hx, rfl⟩) e.id (by simp) hid
    have hget : v.powers.get e.id = none := by
      rw [h.powers e.id]; simp [hidx, hnew]
    have hstep : LoadInv D j (pre ++ [e]) (loadEntry v j e) := by
      unfold loadEntry
      simp only [hget]
      refine ⟨fun i => ?_, fun id => ?_, ?_⟩
      · rw [getBucket_set]
        by_cases hij : j = i
        · subst hij; simp [h.buckets j]
        · have hij' : ¬ i = j := fun e => hij e.symm
          simp only [hij, if_false]; rw [h.buckets i]; simp [hij']
      · rw [AMap.get_set, h.powers id]
        by_cases hlt : bucketIdx id < j
        · have : ¬ e.id = id := by intro e'; rw [← e', hidx] at hlt; omega
          simp [hlt, this]
        · simp only [hlt, if_false]
          by_cases heq : bucketIdx id = j
          · simp only [heq, if_true]
            rw [findId_append]
            by_cases hid : e.id = id
            · subst hid; simp [hnew, findId]
            · simp only [hid, if_false]
              cases findId id pre <;> simp [findId, hid]
          · have : ¬ e.id = id := by intro e'; rw [← e', hidx] at heq; exact heq rfl
            simp [heq, this]
      · simp only; rw [h.total, bucketSum_append, bucketSum_cons]; simp [bucketSum]; omega
    have := loadInv_entries D j hwf rest (pre ++ [e]) (loadEntry v j e) (by rw [hsplit]; simp) hstep
    simpa using this

theorem loadInv_next {D : AMap Nat (List VP)} {j : Nat} {v : Vpr} (h : LoadInv D j (getBucket D j) v) :
    LoadInv D (j + 1) [] v := by
  refine ⟨fun i => ?_, fun id => ?_, ?_⟩
  · rw [h.buckets i]
    by_cases h1 : i < j
    · have : i < j + 1 := by omega
      simp [h1, this]
    · by_cases h2 : i = j
      · subst h2; simp
      · have h3 : ¬ i < j + 1 := by omega
        have h4 : ¬ i = j + 1 → True := fun _ => trivial
        simp [h1, h2, h3]
  · rw [h.powers id]
    by_cases h1 : bucketIdx id < j
    · have : bucketIdx id < j + 1 := by omega
      simp [h1, this]
    · by_cases h2 : bucketIdx id = j
      · simp [h2, findId]
      · have h3 : ¬ bucketIdx id < j + 1 := by omega
        simp [h1, h2, h3, findId]
  · rw [h.total, List.range_succ]; simp [bucketSum]

theorem loadInv_fold (D : AMap Nat (List VP)) (hwf : ∀ i, BucketWF i (getBucket D i)) :
    ∀ n, LoadInv D n [] ((List.range n).foldl (loadBucket D) Vpr.empty)
  | 0 => by
    refine ⟨fun i => ?_, fun id => ?_, ?_⟩
    · simp [Vpr.empty, getBucket]
    · simp [Vpr.empty, findId]
    · simp [Vpr.empty, bucketSum]
  | n + 1 => by
    rw [List.range_succ, List.foldl_append]
    simp only [List.foldl_cons, List.foldl_nil]
    have ih := loadInv_fold D hwf n
    have := loadInv_entries D n (hwf n) (getBucket D n) [] _ (by simp) ih
    simp only [List.nil_append] at this
    exact loadInv_next this

/-- `loadVpr` of well-formed persisted buckets, in closed form. -/
theorem loadVpr_spec (D : AMap Nat (List VP)) (hwf : ∀ i, BucketWF i (getBucket D i)) :
    (∀ i, getBucket (loadVpr D).buckets i = getBucket D i) ∧
    (∀ id, (loadVpr D).powers.get id = findId id (getBucket D (bucketIdx id))) ∧
    (loadVpr D).total = bucketsTotal D := by
  have h := loadInv_fold D hwf 71
  refine ⟨fun i => ?_, fun id => ?_, ?_⟩
  · show getBucket ((List.range 71).foldl (loadBucket D) Vpr.empty).buckets i = _
    rw [h.buckets i]
    by_cases hi : i < 71
    · simp [hi]
    · -- buckets beyond 70 are empty: an entry there would have bucketIdx ≥ 71
      have : getBucket D i = [] := by
        cases hb : getBucket D i with
        | nil => rfl
        | cons e r =>
          have := ((hwf i).1 e (by rw [hb]; simp)).1
          have := bucketIdx_lt e.id
          omega
      rw [this]; by_cases h2 : i = 71 <;> simp [hi, h2]
  · show ((List.range 71).foldl (loadBucket D) Vpr.empty).powers.get id = _
    rw [h.powers id]; simp [bucketIdx_lt id]
  · show ((List.range 71).foldl (loadBucket D) Vpr.empty).total = _
    rw [h.total]; simp [bucketsTotal, bucketSum]

end Aergo.Gov
