import Aergo.Lemmas.GovVpr

/-! Lemmas for C15: the memory invariant of the voting-power rank, kept by `vpr.apply`; memory = reload. -/

namespace Aergo.Gov

/-- The live rank `v` against the persisted buckets `D`. -/
structure VprOk (v : Vpr) (D : AMap Nat (List VP)) : Prop where
  disk : ∀ i, getBucket D i = getBucket v.buckets i
  wf : ∀ i, BucketWF i (getBucket v.buckets i)
  powers : ∀ id, v.powers.get id = findId id (getBucket v.buckets (bucketIdx id))
  total : v.total = bucketsTotal v.buckets

/-- Observable equality of two ranks: voters, buckets (with their order), total power. -/
structure VprEq (a b : Vpr) : Prop where
  powers : ∀ id, a.powers.get id = b.powers.get id
  buckets : ∀ i, getBucket a.buckets i = getBucket b.buckets i
  total : a.total = b.total

theorem sum_zeros : ∀ l : List Nat, (l.map (fun _ => (0 : Int))).sum = 0
  | [] => rfl
  | _ :: r => by simp [sum_zeros r]

theorem vprOk_empty : VprOk Vpr.empty [] := by
  refine ⟨fun _ => rfl, fun i => ?_, fun id => ?_, ?_⟩
  · simp [Vpr.empty, getBucket, BucketWF]
  · simp [Vpr.empty, getBucket, findId]
  · simp [Vpr.empty, bucketsTotal, getBucket, bucketSum]
    exact (sum_zeros _).symm

/-- Memory = reload. -/
theorem vprOk_reload {v : Vpr} {D : AMap Nat (List VP)} (h : VprOk v D) : VprEq (loadVpr D) v := by
  have hwf : ∀ i, BucketWF i (getBucket D i) := fun i => by rw [h.disk i]; exact h.wf i
  obtain ⟨h1, h2, h3⟩ := loadVpr_spec D hwf
  refine ⟨fun id => ?_, fun i => ?_, ?_⟩
  · rw [h2 id, h.disk, h.powers id]
  · rw [h1 i, h.disk i]
  · rw [h3, h.total]
    unfold bucketsTotal
    congr 1
    apply List.map_congr_left
    intro i _
    rw [h.disk i]

def powerOf (v : Vpr) (id : Bytes) : Int := optPower (v.powers.get id)

theorem persist_of_pos {l : List VP} (h : ∀ e ∈ l, 0 < e.power) : persistBucket l = l := by
  unfold persistBucket
  induction l with
  | nil => rfl
  | cons x r ih =>
    simp only [List.map_cons]
    have hx : 0 < x.power := h x List.mem_cons_self
    have : ((x.power.natAbs : Nat) : Int) = x.power := by omega
    rw [this, ih (fun e he => h e (List.mem_cons_of_mem _ he))]

/-- The common shape of one applied change: the voter's new record `vp` replaces the old one. -/
theorem vprOk_update {v : Vpr} {D : AMap Nat (List VP)} (h : VprOk v D) (id : Bytes) (vp : VP) (delta : Int)
    (hid : vp.id = id) (hpow : vp.power = powerOf v id + delta) (hnn : 0 ≤ vp.power) (ch : AMap Bytes (Bytes × Int)) :
    let i := bucketIdx id
    let bu := bucketRemove id (getBucket v.buckets i)
    let bu' := if vp.power = 0 then bu else bucketInsert vp bu
    VprOk { v with powers := if vp.power = 0 then v.powers.del id else v.powers.set id vp,
                   buckets := v.buckets.set i bu', total := v.total + delta, changes := ch }
          (D.set i (persistBucket bu')) := by
  intro i bu bu'
  have hwf := h.wf i
  have hbu_mem : ∀ e ∈ bu, e ∈ getBucket v.buckets i ∧ e.id ≠ id := fun e he => mem_remove.mp he
  have hbu_nd : (bu.map (·.id)).Nodup := nodup_remove hwf.2
  have hbu'_wf : BucketWF i bu' := by
    show BucketWF i (if vp.power = 0 then bu else bucketInsert vp bu)
    by_cases hz : vp.power = 0
    · rw [if_pos hz]
      exact ⟨fun e he => hwf.1 e (hbu_mem e he).1, hbu_nd⟩
    · rw [if_neg hz]
      refine ⟨fun e he => ?_, nodup_insert hbu_nd (fun e he => by rw [hid]; exact (hbu_mem e he).2)⟩
      rcases mem_insert.mp he with rfl | he
      · exact ⟨by rw [hid], by omega⟩
      · exact hwf.1 e (hbu_mem e he).1
  have hold : powerOf v id = optPower (findId id (getBucket v.buckets i)) := by
    unfold powerOf; rw [h.powers id]
  have hsum : bucketSum bu' = bucketSum (getBucket v.buckets i) + delta := by
    show bucketSum (if vp.power = 0 then bu else bucketInsert vp bu) = _
    have hr := bucketSum_remove (id := id) hwf.2
    rw [← hold] at hr
    by_cases hz : vp.power = 0
    · rw [if_pos hz]; show bucketSum (bucketRemove id _) = _; rw [hr]; omega
    · rw [if_neg hz, bucketSum_insert]; show _ + bucketSum (bucketRemove id _) = _; rw [hr]; omega
  have hfind : ∀ id', findId id' bu' = if id = id' then (if vp.power = 0 then none else some vp)
      else findId id' (getBucket v.buckets i) := by
    intro id'
    show findId id' (if vp.power = 0 then bu else bucketInsert vp bu) = _
    by_cases hz : vp.power = 0
    · rw [if_pos hz]; show findId id' (bucketRemove id _) = _; rw [findId_remove]; simp [hz]
    · rw [if_neg hz, findId_insert (fun e he => by rw [hid]; exact (hbu_mem e he).2)]
      rw [hid]; show (if id = id' then _ else findId id' (bucketRemove id _)) = _
      rw [findId_remove]
      by_cases he : id = id' <;> simp [he, hz]
  refine ⟨fun j => ?_, fun j => ?_, fun id' => ?_, ?_⟩
  · simp only
    rw [getBucket_set, getBucket_set]
    by_cases hij : i = j
    · simp only [hij, if_true]; exact persist_of_pos (fun e he => (hbu'_wf.1 e he).2)
    · simp only [hij, if_false]; exact h.disk j
  · simp only
    rw [getBucket_set]
    by_cases hij : i = j
    · subst hij; simp only [if_true]; exact hbu'_wf
    · simp only [hij, if_false]; exact h.wf j
  · simp only
    rw [getBucket_set]
    by_cases hb : i = bucketIdx id'
    · simp only [hb, if_true]
      have := hfind id'
      rw [hb] at this
      rw [this]
      by_cases he : id = id'
      · subst he
        by_cases hz : vp.power = 0
        · simp [hz, AMap.get_del_eq]
        · simp [hz, AMap.get_set_eq]
      · simp only [he, if_false]
        by_cases hz : vp.power = 0
        · simp only [hz, if_true]; rw [AMap.get_del_ne _ he]; exact h.powers id'
        · simp only [hz, if_false]; rw [AMap.get_set_ne _ _ he]; exact h.powers id'
    · simp only [hb, if_false]
      have he : id ≠ id' := by intro e; apply hb; rw [← e]
      by_cases hz : vp.power = 0
      · simp only [hz, if_true]; rw [AMap.get_del_ne _ he]; exact h.powers id'
      · simp only [hz, if_false]; rw [AMap.get_set_ne _ _ he]; exact h.powers id'
  · simp only
    have hsum' : bucketSum bu' = bucketSum (getBucket v.buckets (bucketIdx id)) + delta := hsum
    rw [bucketsTotal_set _ (bucketIdx_lt id), hsum', h.total]; omega

/-- One applied change keeps the invariant as long as the voter's power does not become negative. -/
theorem vprOk_applyOne {v : Vpr} {D : AMap Nat (List VP)} (h : VprOk v D) (id addr : Bytes) (delta : Int)
    (hd : delta ≠ 0) (hnn : 0 ≤ powerOf v id + delta) :
    VprOk (applyOne (v, D) id addr delta).1 (applyOne (v, D) id addr delta).2 := by
  cases hg : v.powers.get id with
  | none =>
    have hp : powerOf v id = 0 := by unfold powerOf; rw [hg]; rfl
    have hz : ¬ ((⟨id, addr, delta⟩ : VP).power = 0) := hd
    have := vprOk_update h id ⟨id, addr, delta⟩ delta rfl (by rw [hp]; simp) (by rw [hp] at hnn; simpa using hnn)
      (v.changes.del id)
    simp only [hz, if_false] at this
    unfold applyOne
    simp only [hg]
    simp only [hz, if_false]
    exact this
  | some p =>
    have hp : powerOf v id = p.power := by unfold powerOf; rw [hg]; rfl
    have hpid : p.id = id := by
      have := h.powers id; rw [hg] at this; exact (findId_some this.symm).2
    have := vprOk_update h id { p with power := p.power + delta } delta hpid (by rw [hp]) (by rw [hp] at hnn; exact hnn)
      (v.changes.del id)
    unfold applyOne
    simp only [hg]
    exact this

theorem powerOf_applyOne_other {v : Vpr} {D : AMap Nat (List VP)} (id addr : Bytes) (delta : Int) (id' : Bytes)
    (hne : id ≠ id') : powerOf (applyOne (v, D) id addr delta).1 id' = powerOf v id' := by
  unfold applyOne powerOf
  cases hg : v.powers.get id with
  | none => simp only [hg]; rw [AMap.get_set_ne _ _ hne]
  | some p =>
    simp only [hg]
    by_cases hz : p.power + delta = 0
    · simp only [hz, if_true]; rw [AMap.get_del_ne _ hne]
    · simp only [hz, if_false]; rw [AMap.get_set_ne _ _ hne]

/-- `vpr.apply`: every pending non-zero change applied once (distinct ids), none driving a power below zero. -/
theorem vprOk_applyAll :
    ∀ (l : List (Bytes × (Bytes × Int))) (v : Vpr) (D : AMap Nat (List VP)), VprOk v D → (l.map (·.1)).Nodup →
      (∀ e ∈ l, 0 ≤ powerOf v e.1 + e.2.2) → VprOk (applyAll (v, D) l).1 (applyAll (v, D) l).2
  | [], v, D, h, _, _ => h
  | (id, (addr, d)) :: r, v, D, h, hn, hp => by
    simp only [List.map_cons, List.nodup_cons] at hn
    unfold applyAll
    by_cases hd : d = 0
    · simp only [hd, if_true]
      exact vprOk_applyAll r v D h hn.2 (fun e he => hp e (List.mem_cons_of_mem _ he))
    · simp only [hd, if_false]
      have h1 := vprOk_applyOne h id addr d hd (hp (id, (addr, d)) List.mem_cons_self)
      have : applyOne (v, D) id addr d = ((applyOne (v, D) id addr d).1, (applyOne (v, D) id addr d).2) := rfl
      rw [this]
      apply vprOk_applyAll r _ _ h1 hn.2
      intro e he
      have hne : id ≠ e.1 := by
        intro heq; exact hn.1 (List.mem_map.mpr ⟨e, he, heq.symm⟩)
      rw [powerOf_applyOne_other id addr d e.1 hne]
      exact hp e (List.mem_cons_of_mem _ he)

end Aergo.Gov
