import Aergo.Lemmas.GovVprVote
import Aergo.Lemmas.GovVotes

/-! Lemmas for C15: the voting-power rank invariant at the level of the whole state — memory against
persisted buckets, no pending change between operations, and (from hard fork 2 on) a voter's power = the
sum of the amounts of its recorded votes, which is what keeps every power non-negative. -/

namespace Aergo.Gov

/-- Amount of the vote recorded for `(i, a)` (0 when there is none). -/
def voteAmt (m : AMap (Issue × Bytes) Vote) (i : Issue) (a : Bytes) : Nat := oldAmount (m.get (i, a))

/-- Σ over the five issues of the recorded voting amounts of `a`. -/
def votePower (m : AMap (Issue × Bytes) Vote) (a : Bytes) : Nat :=
  voteAmt m .bp a + voteAmt m .bpCount a + voteAmt m .stakingMin a + voteAmt m .gasPrice a + voteAmt m .namePrice a

theorem voteAmt_setVote (m : AMap (Issue × Bytes) Vote) (j : Issue) (a : Bytes) (v : Vote) (i : Issue) (b : Bytes) :
    voteAmt (setVote m j a v) i b = if (j, a) = (i, b) then v.amount else voteAmt m i b := by
  unfold voteAmt
  rw [get_setVote]
  by_cases hk : (j, a) = (i, b)
  · simp only [hk, if_true]
    split
    · rename_i hd; simp [oldAmount, hd.2.2]
    · rfl
  · simp only [hk, if_false]

theorem voteAmt_le_votePower (m : AMap (Issue × Bytes) Vote) (i : Issue) (a : Bytes) : voteAmt m i a ≤ votePower m a := by
  unfold votePower; cases i <;> omega

theorem votePower_setVote_same (m : AMap (Issue × Bytes) Vote) (j : Issue) (a : Bytes) (v : Vote) :
    votePower (setVote m j a v) a + voteAmt m j a = votePower m a + v.amount := by
  unfold votePower
  simp only [voteAmt_setVote]
  cases j <;> simp <;> omega

theorem votePower_setVote_other (m : AMap (Issue × Bytes) Vote) (j : Issue) (a b : Bytes) (v : Vote) (hne : b ≠ a) :
    votePower (setVote m j a v) b = votePower m b := by
  unfold votePower
  simp only [voteAmt_setVote]
  have : ∀ i : Issue, ¬ (j, a) = (i, b) := fun i e => by injection e with _ e2; exact hne e2.symm
  simp [this]

structure InvVpr (s : St) : Prop where
  ok : VprOk s.vpr s.vprDisk
  chNodup : (AMap.keys s.vpr.changes).Nodup
  chZero : ∀ e ∈ s.vpr.changes, e.2.2 = 0
  link : 2 ≤ s.fv → ∀ a id, s.accts.get a = some id → powerOf s.vpr id = votePower s.votes a
  inj : ∀ a b id, s.accts.get a = some id → s.accts.get b = some id → a = b
  declared : ∀ i a v, s.votes.get (i, a) = some v → (s.accts.get a).isSome

theorem revote_vpr {s s' : St} {i a old new} (h : revote s i a old new = some s') :
    vprApply (revoteVpr s a (oldAmount old) new.amount) s.vprDisk = (s'.vpr, s'.vprDisk) := by
  unfold revote at h
  split at h
  · exact absurd h (by simp)
  · simp only at h
    split at h
    · split at h
      · exact absurd h (by simp)
      · cases h; rfl
      · cases h; rfl
    · cases h; rfl

/-- One re-vote of a declared account keeps the rank invariant. `s0` is the state before the voter's record
was replaced, `s` the state handed to `revote`. -/
theorem invVpr_revote {s0 s s' : St} (h0 : InvVpr s0) {i : Issue} {a : Bytes} {new : Vote}
    (hvpr : s.vpr = s0.vpr) (hdisk : s.vprDisk = s0.vprDisk) (hfv : s.fv = s0.fv) (haccts : s.accts = s0.accts)
    (hvotes : s.votes = setVote s0.votes i a new) (hdecl : (s0.accts.get a).isSome)
    (hr : revote s i a (s0.votes.get (i, a)) new = some s') : InvVpr s' := by
  have hfr := revote_frame hr
  have hap := revote_vpr hr
  obtain ⟨hfv', hacc', _, _, _, hvo', _⟩ := hfr
  have hdecl' : ∀ i' b v, s'.votes.get (i', b) = some v → (s'.accts.get b).isSome := by
    intro i' b v hg
    rw [hvo', hvotes, get_setVote] at hg
    rw [hacc', haccts]
    by_cases hk : (i, a) = (i', b)
    · injection hk with _ h2; subst h2; exact hdecl
    · simp only [hk, if_false] at hg; exact h0.declared i' b v hg
  have hinj' : ∀ x y id, s'.accts.get x = some id → s'.accts.get y = some id → x = y := by
    rw [hacc', haccts]; exact h0.inj
  by_cases hlow : s.fv < 2
  · -- before hard fork 2 the rank is not touched
    have hrv : revoteVpr s a (oldAmount (s0.votes.get (i, a))) new.amount = s0.vpr := by
      unfold revoteVpr; simp [hlow, hvpr]
    rw [hrv, hdisk] at hap
    have : vprApply s0.vpr s0.vprDisk = (s0.vpr, s0.vprDisk) := by
      unfold vprApply; exact applyAll_zeros _ _ h0.chZero
    rw [this] at hap
    injection hap with e1 e2
    refine ⟨by rw [← e1, ← e2]; exact h0.ok, by rw [← e1]; exact h0.chNodup, by rw [← e1]; exact h0.chZero,
      fun h2 => by rw [hfv'] at h2; omega, hinj', hdecl'⟩
  · have hfv2 : 2 ≤ s0.fv := by rw [← hfv]; omega
    cases hid : s0.accts.get a with
    | none => rw [hid] at hdecl; simp at hdecl
    | some id =>
      have hidOf : s.idOf a = id := by unfold St.idOf; rw [haccts, hid]
      have hrv : revoteVpr s a (oldAmount (s0.votes.get (i, a))) new.amount
          = (s0.vpr.sub id a (oldAmount (s0.votes.get (i, a)))).add id a new.amount := by
        unfold revoteVpr; simp only [hlow, if_false, hidOf, hvpr]
      rw [hrv, hdisk] at hap
      have hlink := h0.link hfv2 a id hid
      have hle : ((oldAmount (s0.votes.get (i, a)) : Nat) : Int) ≤ powerOf s0.vpr id := by
        rw [hlink]
        have := voteAmt_le_votePower s0.votes i a
        unfold voteAmt at this
        omega
      obtain ⟨r, hr', r1, r2, r3, r4, r5⟩ :=
        vpr_revote h0.ok h0.chNodup h0.chZero id a (oldAmount (s0.votes.get (i, a))) new.amount hle
      rw [hr'] at hap
      have e1 : s'.vpr = r.1 := by rw [hap]
      have e2 : s'.vprDisk = r.2 := by rw [hap]
      refine ⟨by rw [e1, e2]; exact r1, by rw [e1]; exact r2, by rw [e1]; exact r3, ?_, hinj', hdecl'⟩
      intro _ b idb hb
      rw [hacc', haccts] at hb
      rw [e1, hvo', hvotes]
      by_cases hab : b = a
      · subst hab
        have : idb = id := by rw [hid] at hb; injection hb with hb; exact hb.symm
        subst this
        rw [r4, hlink]
        have := votePower_setVote_same s0.votes i b new
        unfold voteAmt at this
        omega
      · have hne : idb ≠ id := by
          intro e; subst e; exact hab (h0.inj b a idb hb hid)
        rw [r5 idb hne, votePower_setVote_other _ _ _ _ _ hab]
        exact h0.link hfv2 b idb hb

theorem InvVpr.of_same {s s' : St} (h : InvVpr s) (h1 : s'.vpr = s.vpr) (h2 : s'.vprDisk = s.vprDisk)
    (h3 : s'.fv = s.fv) (h4 : s'.accts = s.accts) (h5 : s'.votes = s.votes) : InvVpr s' :=
  ⟨by rw [h1, h2]; exact h.ok, by rw [h1]; exact h.chNodup, by rw [h1]; exact h.chZero,
   by rw [h1, h3, h4, h5]; exact h.link, by rw [h4]; exact h.inj, by rw [h4, h5]; exact h.declared⟩

theorem refreshVotes_invVpr (a : Bytes) (staked : Nat) :
    ∀ (is : List Issue) (s s' : St), refreshVotes a staked is s = some s' → InvVpr s → (s.accts.get a).isSome →
      InvVpr s'
  | [], s, s', h, hi, _ => by simp [refreshVotes] at h; subst h; exact hi
  | j :: is, s, s', h, hi, hd => by
    unfold refreshVotes at h
    cases hold : s.voteOf j a with
    | none => rw [hold] at h; exact refreshVotes_invVpr a staked is s s' h hi hd
    | some old =>
      rw [hold] at h
      simp only at h
      by_cases hle : old.amount ≤ staked
      · rw [if_pos hle] at h; exact refreshVotes_invVpr a staked is s s' h hi hd
      · rw [if_neg hle] at h
        split at h
        · exact absurd h (by simp)
        · rename_i s1 hs1
          have hold' : some old = s.votes.get (j, a) := hold.symm
          rw [hold'] at hs1
          have h1 : InvVpr s1 :=
            invVpr_revote (s0 := s) (s := { s with votes := setVote s.votes j a ⟨old.cands, staked⟩ })
              hi rfl rfl rfl rfl rfl hd hs1
          have hacc : s1.accts = s.accts := (revote_frame hs1).2.1
          exact refreshVotes_invVpr a staked is s1 s' h h1 (by rw [hacc]; exact hd)

theorem loadBucket_nil (v : Vpr) (i : Nat) : loadBucket [] v i = v := by
  simp [loadBucket, getBucket]

/-- After a restart the reloaded rank satisfies the invariant again. -/
theorem vprOk_load {v : Vpr} {D : AMap Nat (List VP)} (h : VprOk v D) : VprOk (loadVpr D) D := by
  have hwf : ∀ i, BucketWF i (getBucket D i) := fun i => by rw [h.disk i]; exact h.wf i
  obtain ⟨h1, h2, h3⟩ := loadVpr_spec D hwf
  refine ⟨fun i => (h1 i).symm, fun i => by rw [h1 i]; exact hwf i, fun id => by rw [h2 id, h1], ?_⟩
  rw [h3]
  unfold bucketsTotal
  congr 1
  apply List.map_congr_left
  intro i _
  rw [h1 i]

theorem loadVpr_changes (D : AMap Nat (List VP)) : (loadVpr D).changes = [] := by
  have hE : ∀ v i e, (loadEntry v i e).changes = v.changes := fun v i e => by unfold loadEntry; rfl
  have hB : ∀ (l : List VP) (v : Vpr) (i : Nat), (l.foldl (fun v e => loadEntry v i e) v).changes = v.changes := by
    intro l
    induction l with
    | nil => intro v i; rfl
    | cons e r ih => intro v i; simp only [List.foldl_cons]; rw [ih, hE]
  have hL : ∀ (l : List Nat) (v : Vpr), (l.foldl (loadBucket D) v).changes = v.changes := by
    intro l
    induction l with
    | nil => intro v; rfl
    | cons i r ih => intro v; simp only [List.foldl_cons]; rw [ih]; unfold loadBucket; exact hB _ _ _
  unfold loadVpr
  rw [hL]; rfl

theorem invVpr_restart {s : St} (h : InvVpr s) : InvVpr (restart s) := by
  have heq := vprOk_reload h.ok
  refine ⟨vprOk_load h.ok, ?_, ?_, ?_, h.inj, h.declared⟩
  · show (AMap.keys (loadVpr s.vprDisk).changes).Nodup
    rw [loadVpr_changes]; exact List.nodup_nil
  · show ∀ e ∈ (loadVpr s.vprDisk).changes, e.2.2 = 0
    rw [loadVpr_changes]; intro e he; simp at he
  · intro h2 a id ha
    show powerOf (loadVpr s.vprDisk) id = votePower s.votes a
    have : powerOf (loadVpr s.vprDisk) id = powerOf s.vpr id := by
      unfold powerOf; rw [heq.powers id]
    rw [this]; exact h.link h2 a id ha

end Aergo.Gov
