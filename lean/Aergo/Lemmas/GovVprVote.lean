import Aergo.Lemmas.GovVprApply

/-! Lemmas for C15: one re-vote (`sub` old amount, `add` new amount, `apply`) on the voting-power rank. -/

namespace Aergo.Gov

theorem applyAll_zeros (s : Vpr × AMap Nat (List VP)) :
    ∀ l : List (Bytes × (Bytes × Int)), (∀ e ∈ l, e.2.2 = 0) → applyAll s l = s
  | [], _ => rfl
  | (id, (addr, d)) :: r, h => by
    have hd : d = 0 := h (id, (addr, d)) List.mem_cons_self
    unfold applyAll
    simp only [hd, if_true]
    exact applyAll_zeros s r (fun e he => h e (List.mem_cons_of_mem _ he))

theorem powerOf_nonneg {v : Vpr} {D : AMap Nat (List VP)} (h : VprOk v D) (id : Bytes) : 0 ≤ powerOf v id := by
  unfold powerOf
  rw [h.powers id]
  cases hf : findId id (getBucket v.buckets (bucketIdx id)) with
  | none => simp [optPower]
  | some e =>
    have := ((h.wf (bucketIdx id)).1 e (findId_some hf).1).2
    simp only [optPower]; omega

theorem powerOf_pos_of_some {v : Vpr} {D : AMap Nat (List VP)} (h : VprOk v D) {id : Bytes} {p : VP}
    (hg : v.powers.get id = some p) : 0 < powerOf v id := by
  unfold powerOf
  rw [hg]
  have := h.powers id; rw [hg] at this
  have := ((h.wf (bucketIdx id)).1 p (findId_some this.symm).1).2
  simpa [optPower] using this

theorem powerOf_applyOne_same {v : Vpr} {D : AMap Nat (List VP)} (id addr : Bytes) (delta : Int) :
    powerOf (applyOne (v, D) id addr delta).1 id = powerOf v id + delta := by
  unfold applyOne powerOf
  cases hg : v.powers.get id with
  | none => simp only [hg]; rw [AMap.get_set_eq]; simp [optPower]
  | some p =>
    simp only [hg]
    by_cases hz : p.power + delta = 0
    · simp only [hz, if_true]; rw [AMap.get_del_eq]; simp [optPower]; omega
    · simp only [hz, if_false]; rw [AMap.get_set_eq]; simp [optPower]

theorem changes_applyOne {v : Vpr} {D : AMap Nat (List VP)} (id addr : Bytes) (delta : Int) :
    (applyOne (v, D) id addr delta).1.changes = v.changes.del id := by
  unfold applyOne; rfl

/-- A rank whose only pending non-zero change is the head entry `(id, (addr, d))`. -/
theorem apply_single {v : Vpr} {D : AMap Nat (List VP)} (hok : VprOk v D) (id addr : Bytes) (d : Int)
    (rest : List (Bytes × (Bytes × Int))) (hch : v.changes = (id, (addr, d)) :: rest)
    (hzero : ∀ e ∈ rest, e.2.2 = 0) (hnd : (AMap.keys v.changes).Nodup) (hnn : 0 ≤ powerOf v id + d) :
    ∃ r, vprApply v D = r ∧
    VprOk r.1 r.2 ∧ (AMap.keys r.1.changes).Nodup ∧ (∀ e ∈ r.1.changes, e.2.2 = 0) ∧
    powerOf r.1 id = powerOf v id + d ∧ ∀ id', id' ≠ id → powerOf r.1 id' = powerOf v id' := by
  by_cases hd : d = 0
  · refine ⟨(v, D), ?_, hok, hnd, ?_, by simp [hd], fun _ _ => rfl⟩
    · unfold vprApply; rw [hch]; unfold applyAll; simp only [hd, if_true]
      exact applyAll_zeros _ rest hzero
    · intro e he
      rw [hch] at he
      rcases List.mem_cons.mp he with rfl | he
      · exact hd
      · exact hzero e he
  · refine ⟨applyOne (v, D) id addr d, ?_, vprOk_applyOne hok id addr d hd hnn, ?_, ?_,
      powerOf_applyOne_same id addr d, fun id' hne => powerOf_applyOne_other id addr d id' (Ne.symm hne)⟩
    · unfold vprApply; rw [hch]; unfold applyAll; simp only [hd, if_false]
      exact applyAll_zeros _ rest hzero
    · rw [changes_applyOne]; exact AMap.nodup_del hnd id
    · rw [changes_applyOne, hch]
      intro e he
      have : e ∈ rest := by
        unfold AMap.del at he
        have := (List.mem_filter.mp he).1
        rcases List.mem_cons.mp this with rfl | h'
        · have := (List.mem_filter.mp he).2; simp at this
        · exact h'
      exact hzero e this

theorem del_del {κ ν : Type} [DecidableEq κ] (m : AMap κ ν) (k : κ) : (m.del k).del k = m.del k := by
  unfold AMap.del; rw [List.filter_filter]; simp

theorem mem_del {κ ν : Type} [DecidableEq κ] {m : AMap κ ν} {k : κ} {e : κ × ν} (h : e ∈ m.del k) : e ∈ m :=
  (List.mem_filter.mp h).1

/-- `sub old; add new; apply` for one voter: the invariant is kept and the voter's power moves by `new − old`
(an absent voter has nothing to subtract from). -/
theorem vpr_revote {v : Vpr} {D : AMap Nat (List VP)} (hok : VprOk v D) (hnd : (AMap.keys v.changes).Nodup)
    (hzero : ∀ e ∈ v.changes, e.2.2 = 0) (id a : Bytes) (oldA newA : Nat)
    (hle : (oldA : Int) ≤ powerOf v id) :
    ∃ r, vprApply ((v.sub id a oldA).add id a newA) D = r ∧
    VprOk r.1 r.2 ∧ (AMap.keys r.1.changes).Nodup ∧ (∀ e ∈ r.1.changes, e.2.2 = 0) ∧
    powerOf r.1 id = powerOf v id - oldA + newA ∧ ∀ id', id' ≠ id → powerOf r.1 id' = powerOf v id' := by
  -- the state after `sub`
  have hsub : ∃ v1 : Vpr, v.sub id a oldA = v1 ∧ v1.powers = v.powers ∧ v1.buckets = v.buckets ∧ v1.total = v.total ∧
      (AMap.keys v1.changes).Nodup ∧
      ((v1.changes = v.changes ∧ oldA = 0) ∨
       ∃ addr, v1.changes = (id, (addr, -(oldA : Int))) :: v.changes.del id) := by
    unfold Vpr.sub
    cases hg : v.powers.get id with
    | none =>
      have : powerOf v id = 0 := by unfold powerOf; rw [hg]; rfl
      exact ⟨v, rfl, rfl, rfl, rfl, hnd, Or.inl ⟨rfl, by omega⟩⟩
    | some p =>
      simp only
      cases hc : v.changes.get id with
      | none =>
        exact ⟨_, rfl, rfl, rfl, rfl, AMap.nodup_set hnd _ _, Or.inr ⟨a, rfl⟩⟩
      | some ad =>
        obtain ⟨a', d'⟩ := ad
        have hd' : d' = 0 := hzero (id, (a', d')) (AMap.mem_of_get hc)
        refine ⟨_, rfl, rfl, rfl, rfl, AMap.nodup_set hnd _ _, Or.inr ⟨a', ?_⟩⟩
        simp only [AMap.set, hd']; simp
  obtain ⟨v1, hv1, hp1, hb1, ht1, hnd1, hch1⟩ := hsub
  have hok1 : VprOk v1 D := ⟨by rw [hb1]; exact hok.disk, by rw [hb1]; exact hok.wf,
    by rw [hp1, hb1]; exact hok.powers, by rw [ht1, hb1]; exact hok.total⟩
  have hpow1 : ∀ x, powerOf v1 x = powerOf v x := fun x => by unfold powerOf; rw [hp1]
  -- the state after `add`
  rw [hv1]
  rcases hch1 with ⟨hsame, hold0⟩ | ⟨addr1, hc1⟩
  · -- nothing subtracted
    have hz1 : ∀ e ∈ v1.changes, e.2.2 = 0 := by rw [hsame]; exact hzero
    by_cases hn0 : newA = 0
    · have : v1.add id a newA = v1 := by unfold Vpr.add; simp [hn0]
      rw [this]
      refine ⟨(v1, D), ?_, hok1, hnd1, hz1, ?_, fun x _ => hpow1 x⟩
      · unfold vprApply; exact applyAll_zeros _ _ hz1
      · show powerOf v1 id = _
        rw [hpow1]; subst hold0; subst hn0; simp
    · -- only an addition
      have hadd : ∃ addr v2, v1.add id a newA = v2 ∧ v2.powers = v1.powers ∧ v2.buckets = v1.buckets ∧
          v2.total = v1.total ∧ v2.changes = (id, (addr, (newA : Int))) :: v1.changes.del id := by
        unfold Vpr.add
        simp only [hn0, if_false]
        cases hc : v1.changes.get id with
        | none => exact ⟨a, _, rfl, rfl, rfl, rfl, rfl⟩
        | some ad =>
          obtain ⟨a', d'⟩ := ad
          have hd' : d' = 0 := hz1 (id, (a', d')) (AMap.mem_of_get hc)
          refine ⟨a', _, rfl, rfl, rfl, rfl, ?_⟩
          simp only [AMap.set, hd']; simp
      obtain ⟨addr, v2, hv2, hp2, hb2, ht2, hc2⟩ := hadd
      rw [hv2]
      have hok2 : VprOk v2 D := ⟨by rw [hb2]; exact hok1.disk, by rw [hb2]; exact hok1.wf,
        by rw [hp2, hb2]; exact hok1.powers, by rw [ht2, hb2]; exact hok1.total⟩
      have hpow2 : ∀ x, powerOf v2 x = powerOf v x := fun x => by unfold powerOf; rw [hp2, hp1]
      have hnd2 : (AMap.keys v2.changes).Nodup := by
        rw [hc2]; exact AMap.nodup_set hnd1 id (addr, (newA : Int))
      have := apply_single hok2 id addr (newA : Int) _ hc2 (fun e he => hz1 e (mem_del he)) hnd2
        (by rw [hpow2]; have := powerOf_nonneg hok id; omega)
      obtain ⟨r, hr, r1, r2, r3, r4, r5⟩ := this
      refine ⟨r, hr, r1, r2, r3, ?_, fun x hx => by rw [r5 x hx, hpow2]⟩
      rw [r4, hpow2]; subst hold0; simp
  · -- `old` subtracted, then `new` added
    have hz1 : ∀ e ∈ v.changes.del id, e.2.2 = 0 := fun e he => hzero e (mem_del he)
    have hadd : ∃ v2, v1.add id a newA = v2 ∧ v2.powers = v1.powers ∧ v2.buckets = v1.buckets ∧
        v2.total = v1.total ∧ v2.changes = (id, (addr1, -(oldA : Int) + newA)) :: v.changes.del id := by
      unfold Vpr.add
      by_cases hn0 : newA = 0
      · simp only [hn0, if_true]
        exact ⟨v1, rfl, rfl, rfl, rfl, by rw [hc1]; simp⟩
      · simp only [hn0, if_false]
        have hg : v1.changes.get id = some (addr1, -(oldA : Int)) := by rw [hc1]; simp [AMap.get_cons]
        rw [hg]
        refine ⟨_, rfl, rfl, rfl, rfl, ?_⟩
        simp only [AMap.set]
        rw [hc1]
        have : AMap.del ((id, (addr1, -(oldA : Int))) :: v.changes.del id) id = v.changes.del id := by
          show List.filter _ _ = _
          rw [List.filter_cons_of_neg (by simp)]
          exact del_del v.changes id
        rw [this]
    obtain ⟨v2, hv2, hp2, hb2, ht2, hc2⟩ := hadd
    rw [hv2]
    have hok2 : VprOk v2 D := ⟨by rw [hb2]; exact hok1.disk, by rw [hb2]; exact hok1.wf,
      by rw [hp2, hb2]; exact hok1.powers, by rw [ht2, hb2]; exact hok1.total⟩
    have hpow2 : ∀ x, powerOf v2 x = powerOf v x := fun x => by unfold powerOf; rw [hp2, hp1]
    have hnd2 : (AMap.keys v2.changes).Nodup := by
      rw [hc2]; exact AMap.nodup_set hnd id (addr1, -(oldA : Int) + newA)
    have := apply_single hok2 id addr1 (-(oldA : Int) + newA) _ hc2 hz1 hnd2 (by rw [hpow2]; omega)
    obtain ⟨r, hr, r1, r2, r3, r4, r5⟩ := this
    refine ⟨r, hr, r1, r2, r3, ?_, fun x hx => by rw [r5 x hx, hpow2]⟩
    rw [r4, hpow2]; omega

end Aergo.Gov
