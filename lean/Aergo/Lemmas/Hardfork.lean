/-
Helper lemmas for the `Hardfork` layer (used by Props/C19). Core only.
-/
import Aergo.Model.Hardfork
namespace Aergo.Hardfork

theorem verFrom_range (h i : Nat) (c : Config) : verFrom h i c = 0 ∨ (i + 2 ≤ verFrom h i c ∧ verFrom h i c ≤ i + c.length + 1) := by
  induction c generalizing i with
  | nil => left; rfl
  | cons x rest ih =>
    simp only [verFrom, List.length_cons]
    rcases ih (i + 1) with h0 | ⟨h1, h2⟩
    · simp only [h0, ne_eq, not_true_eq_false, if_false]
      split
      · right; omega
      · left; rfl
    · rw [if_pos (by omega)]; right; omega

theorem verFrom_mono (h h' i : Nat) (c : Config) (hle : h ≤ h') : verFrom h i c ≤ verFrom h' i c := by
  induction c generalizing i with
  | nil => simp [verFrom]
  | cons x rest ih =>
    simp only [verFrom]
    have hl := ih (i + 1)
    rcases verFrom_range h' (i + 1) rest with h0 | ⟨h1, _⟩
    · have : verFrom h (i + 1) rest = 0 := by omega
      simp only [this, h0, ne_eq, not_true_eq_false, if_false]
      split <;> split <;> omega
    · by_cases hz : verFrom h (i + 1) rest = 0
      · simp only [hz, ne_eq, not_true_eq_false, if_false]
        rw [if_pos (show verFrom h' (i + 1) rest ≠ 0 by omega)]
        split <;> omega
      · rw [if_pos hz, if_pos (show verFrom h' (i + 1) rest ≠ 0 by omega)]; exact hl

theorem stable_aux (d : DbConfig) (best h i : Nat) (c : Config) (hh : h ≤ best)
    (hm : firstMismatch d best i c = none) :
    verFrom h i c = verFrom h i ((List.range' i c.length).map (fun j => d.get (j + 2))) := by
  induction c generalizing i with
  | nil => rfl
  | cons x rest ih =>
    simp only [firstMismatch] at hm
    split at hm
    · cases hm
    · rename_i hc
      simp only [List.length_cons, List.range'_succ, List.map_cons, verFrom]
      rw [← ih (i + 1) hm]
      simp only [isFork, Bool.and_eq_true, Bool.or_eq_true, decide_eq_true_eq, bne_iff_ne, ne_eq, not_and, Decidable.not_not] at hc
      by_cases h1 : x ≤ h
      · have : x = d.get (i + 2) := hc (.inl (by omega))
        rw [← this]
      · by_cases h2 : d.get (i + 2) ≤ h
        · have : x = d.get (i + 2) := hc (.inr (by omega))
          omega
        · simp [h1, h2]
end Aergo.Hardfork
