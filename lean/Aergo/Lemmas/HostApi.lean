/-
Helper lemmas for C20: soundness of the host-API checker `chk` with respect to `Exec`.
-/
import Aergo.Model.HostApi

namespace Aergo.HostApi

/-- The atom valuation agrees with the facts known on the path. -/
def Facts.holds (ρ : Env) (F : Facts) : Prop := ∀ x ∈ F, ρ x.1 = x.2

/-- The valuation satisfies a list of clauses. -/
def clausesHold (ρ : Env) (cls : List (List Lit)) : Prop := ∀ cl ∈ cls, ∃ l ∈ cl, ρ l.1 = l.2

theorem Facts.holds_nil (ρ : Env) : Facts.holds ρ [] := by
  intro x hx; cases hx

theorem lookup_mem {F : Facts} {i : Nat} {b : Bool} (h : F.lookup i = some b) : (i, b) ∈ F := by
  induction F with
  | nil => simp [List.lookup] at h
  | cons x xs ih =>
    obtain ⟨k, w⟩ := x
    by_cases hk : i = k
    · subst hk
      simp [List.lookup] at h
      subst h
      exact List.mem_cons_self
    · have : (i == k) = false := by simpa using hk
      simp [List.lookup, this] at h
      exact List.mem_cons_of_mem _ (ih h)

theorem lookup_holds {ρ : Env} {F : Facts} (hF : Facts.holds ρ F) {i : Nat} {b : Bool}
    (h : F.lookup i = some b) : ρ i = b := hF _ (lookup_mem h)

theorem tv_sound {m : Mode} {q v : Bool} {ρ : Env} {F : Facts} (hm : m.flagsOK q v)
    (hF : Facts.holds ρ F) : ∀ (c : Cond) (t x : Bool), c.tv m F = some t → c.sat q v ρ x → x = t := by
  intro c
  induction c with
  | query =>
    intro t x h hs
    simp only [Cond.tv] at h
    split at h
    · next hq => subst hq; simp only [Cond.sat] at hs; simp only [Mode.flagsOK] at hm; simp_all
    · cases h
  | view =>
    intro t x h hs
    simp only [Cond.tv] at h
    split at h
    · next hq => subst hq; simp only [Cond.sat] at hs; simp only [Mode.flagsOK] at hm; simp_all
    · cases h
  | atom i =>
    intro t x h hs
    simp only [Cond.tv] at h
    simp only [Cond.sat] at hs
    rw [hs]; exact lookup_holds hF h
  | any => intro t x h; simp [Cond.tv] at h
  | not c ih =>
    intro t x h hs
    simp only [Cond.tv, Option.map_eq_some_iff] at h
    obtain ⟨t', ht', rfl⟩ := h
    simp only [Cond.sat] at hs
    have := ih t' (!x) ht' hs
    cases x <;> cases t' <;> simp_all
  | and a b iha ihb =>
    intro t x h hs
    simp only [Cond.sat] at hs
    obtain ⟨xa, xb, ha, hb, rfl⟩ := hs
    simp only [Cond.tv] at h
    generalize h1 : a.tv m F = ta at h
    generalize h2 : b.tv m F = tb at h
    rcases ta with _ | _ | _ <;> rcases tb with _ | _ | _ <;> simp at h <;> subst h
    · have := ihb _ _ h2 hb; subst this; simp
    · have := iha _ _ h1 ha; subst this; simp
    · have := iha _ _ h1 ha; subst this; simp
    · have := iha _ _ h1 ha; subst this; simp
    · have := ihb _ _ h2 hb; subst this; simp
    · have := iha _ _ h1 ha; have := ihb _ _ h2 hb; simp_all
  | or a b iha ihb =>
    intro t x h hs
    simp only [Cond.sat] at hs
    obtain ⟨xa, xb, ha, hb, rfl⟩ := hs
    simp only [Cond.tv] at h
    generalize h1 : a.tv m F = ta at h
    generalize h2 : b.tv m F = tb at h
    rcases ta with _ | _ | _ <;> rcases tb with _ | _ | _ <;> simp at h <;> subst h
    · have := ihb _ _ h2 hb; subst this; simp
    · have := iha _ _ h1 ha; have := ihb _ _ h2 hb; simp_all
    · have := ihb _ _ h2 hb; subst this; simp
    · have := iha _ _ h1 ha; subst this; simp
    · have := iha _ _ h1 ha; subst this; simp
    · have := iha _ _ h1 ha; subst this; simp

theorem assume_sound {m : Mode} {q v : Bool} {ρ : Env} (hm : m.flagsOK q v) :
    ∀ (c : Cond) (b : Bool) (F : Facts), Facts.holds ρ F → c.sat q v ρ b →
      ∃ F', c.assume m b F = some F' ∧ Facts.holds ρ F' := by
  intro c
  induction c with
  | query =>
    intro b F hF hs
    simp only [Cond.sat] at hs
    refine ⟨F, ?_, hF⟩
    simp only [Cond.assume]
    split
    · next h => obtain ⟨rfl, rfl⟩ := h; simp only [Mode.flagsOK] at hm; simp_all
    · rfl
  | view =>
    intro b F hF hs
    simp only [Cond.sat] at hs
    refine ⟨F, ?_, hF⟩
    simp only [Cond.assume]
    split
    · next h => obtain ⟨rfl, rfl⟩ := h; simp only [Mode.flagsOK] at hm; simp_all
    · rfl
  | atom i =>
    intro b F hF hs
    simp only [Cond.sat] at hs
    simp only [Cond.assume]
    split
    · next x hx =>
      have := lookup_holds hF hx
      refine ⟨F, ?_, hF⟩
      simp [← this, hs]
    · refine ⟨(i, b) :: F, rfl, ?_⟩
      intro y hy
      rcases List.mem_cons.mp hy with rfl | hy
      · exact hs.symm
      · exact hF y hy
  | any => intro b F hF _; exact ⟨F, rfl, hF⟩
  | not c ih =>
    intro b F hF hs
    simp only [Cond.sat] at hs
    simpa only [Cond.assume] using ih (!b) F hF hs
  | and a c iha ihc =>
    intro b F hF hs
    simp only [Cond.sat] at hs
    obtain ⟨xa, xc, ha, hc, rfl⟩ := hs
    cases hxa : xa <;> cases hxc : xc <;> subst hxa <;> subst hxc <;> simp only [Bool.and_true, Bool.and_false, Cond.assume]
    all_goals first
      | (obtain ⟨F1, h1, hF1⟩ := iha true F hF ha
         obtain ⟨F2, h2, hF2⟩ := ihc true F1 hF1 hc
         exact ⟨F2, by simp [h1, h2], hF2⟩)
      | (split
         · next h1 => first | exact ihc false F hF hc | (have := tv_sound hm hF a _ _ h1 ha; cases this)
         · next h2 _ => first | exact iha false F hF ha | (have := tv_sound hm hF c _ _ h2 hc; cases this)
         · exact ⟨F, rfl, hF⟩)
  | or a c iha ihc =>
    intro b F hF hs
    simp only [Cond.sat] at hs
    obtain ⟨xa, xc, ha, hc, rfl⟩ := hs
    cases hxa : xa <;> cases hxc : xc <;> subst hxa <;> subst hxc <;> simp only [Bool.or_true, Bool.or_false, Cond.assume]
    all_goals first
      | (obtain ⟨F1, h1, hF1⟩ := iha false F hF ha
         obtain ⟨F2, h2, hF2⟩ := ihc false F1 hF1 hc
         exact ⟨F2, by simp [h1, h2], hF2⟩)
      | (split
         · next h1 => first | exact ihc true F hF hc | (have := tv_sound hm hF a _ _ h1 ha; cases this)
         · next h2 _ => first | exact iha true F hF ha | (have := tv_sound hm hF c _ _ h2 hc; cases this)
         · exact ⟨F, rfl, hF⟩)

theorem not_contradicts {ρ : Env} {cls : List (List Lit)} {F : Facts} (hc : clausesHold ρ cls)
    (hF : Facts.holds ρ F) : contradicts cls F = false := by
  cases h : contradicts cls F with
  | false => rfl
  | true =>
    exfalso
    simp only [contradicts, List.any_eq_true, List.all_eq_true] at h
    obtain ⟨cl, hcl, hall⟩ := h
    obtain ⟨l, hl, hρ⟩ := hc cl hcl
    have h1 := hall l hl
    have h2 : F.lookup l.1 = some (!l.2) := by simpa using h1
    have h3 := lookup_holds hF h2
    rw [hρ] at h3
    cases hb : l.2 <;> simp [hb] at h3

theorem assumeC_sound {m : Mode} {q v : Bool} {ρ : Env} {cls : List (List Lit)} (hm : m.flagsOK q v)
    (hc : clausesHold ρ cls) (c : Cond) (b : Bool) (F : Facts) (hF : Facts.holds ρ F)
    (hs : c.sat q v ρ b) : ∃ F', assumeC m cls c b F = some F' ∧ Facts.holds ρ F' := by
  obtain ⟨F', h1, hF'⟩ := assume_sound hm c b F hF hs
  refine ⟨F', ?_, hF'⟩
  simp [assumeC, h1, not_contradicts hc hF']

theorem join_left {ρ : Env} {s1 s2 : Option Facts} {F1 : Facts} (h : s1 = some F1)
    (hF : Facts.holds ρ F1) : ∃ F', join s1 s2 = some F' ∧ Facts.holds ρ F' := by
  subst h
  cases s2 with
  | none => exact ⟨F1, rfl, hF⟩
  | some B =>
    refine ⟨_, rfl, ?_⟩
    intro x hx
    exact hF x (List.mem_filter.mp hx).1

theorem join_right {ρ : Env} {s1 s2 : Option Facts} {F2 : Facts} (h : s2 = some F2)
    (hF : Facts.holds ρ F2) : ∃ F', join s1 s2 = some F' ∧ Facts.holds ρ F' := by
  subst h
  cases s1 with
  | none => exact ⟨F2, rfl, hF⟩
  | some A =>
    refine ⟨_, rfl, ?_⟩
    intro x hx
    have h2 := (List.mem_filter.mp hx).2
    have h3 : F2.lookup x.1 = some x.2 := by simpa using h2
    exact lookup_holds hF h3

theorem chk_none (m : Mode) (S : List Nat) (cls : List (List Lit)) :
    ∀ s : Stmt, chk m S cls s none = some none := by
  intro s
  induction s with
  | seq a b iha ihb => simp [chk, iha, ihb]
  | loop b ih => simp [chk, ih]
  | scope b ih => simp [chk, ih]
  | _ => simp [chk]

theorem fn?_lt {p : Program} {f : Nat} {fn : Fn} (h : p.fn? f = some fn) : f < p.fns.length := by
  simp only [Program.fn?] at h
  exact (List.getElem?_eq_some_iff.mp h).1

/-- Soundness of the checker: if `S` is closed and contains the entry points of mode `m`, then an execution
that starts in a state described by `F` and passes `chk` emits no forbidden sink, and the facts the
checker reports for normal termination hold. -/
theorem chk_sound {p : Program} {m : Mode} {q v : Bool} {S : List Nat} (hm : m.flagsOK q v)
    (hS : consistent m p S = true) (hE : entriesIn m p S = true) :
    ∀ {ρ : Env} {s : Stmt} {tr : List Sink} {o : Out}, Exec p q v ρ s tr o →
      ∀ (cls : List (List Lit)) (F : Facts) (σ' : Option Facts), clausesHold ρ cls → Facts.holds ρ F →
        chk m S cls s (some F) = some σ' →
        (∀ e ∈ tr, forbidden m e.kind = false) ∧
        (o = .normal → ∃ F', σ' = some F' ∧ Facts.holds ρ F') := by
  have callee : ∀ (f : Nat) (fn : Fn), p.fn? f = some fn → S.contains f = true →
      ∃ σ', chk m S fn.assume fn.body (some []) = some σ' := by
    intro f fn hf hin
    have hmem : f ∈ S := by simpa using hin
    have := (List.all_eq_true.mp hS) f hmem
    simp only [checkFn, hf] at this
    exact Option.isSome_iff_exists.mp this
  have entry : ∀ (f : Nat) (fn : Fn), p.fn? f = some fn → fn.isEntry m = true → S.contains f = true := by
    intro f fn hf he
    have := (List.all_eq_true.mp hE) f (List.mem_range.mpr (fn?_lt hf))
    simpa [hf, he] using this
  intro ρ s tr o h
  induction h with
  | skip => intro cls F σ' _ hF hk; simp [chk] at hk; subst hk; exact ⟨by simp, fun _ => ⟨F, rfl, hF⟩⟩
  | seqN _ _ ih1 ih2 =>
    intro cls F σ' hc hF hk
    simp only [chk, Option.bind_eq_some_iff] at hk
    obtain ⟨σ1, hk1, hk2⟩ := hk
    obtain ⟨c1, hn1⟩ := ih1 cls F σ1 hc hF hk1
    obtain ⟨F1, e1, hF1⟩ := hn1 rfl
    subst e1
    obtain ⟨c2, hn2⟩ := ih2 cls F1 σ' hc hF1 hk2
    refine ⟨?_, hn2⟩
    intro e he
    rcases List.mem_append.mp he with he | he
    · exact c1 e he
    · exact c2 e he
  | seqX _ hne ih1 =>
    intro cls F σ' hc hF hk
    simp only [chk, Option.bind_eq_some_iff] at hk
    obtain ⟨σ1, hk1, _⟩ := hk
    exact ⟨(ih1 cls F σ1 hc hF hk1).1, fun ho => absurd ho hne⟩
  | iteT hs _ ih =>
    intro cls F σ' hc hF hk
    simp only [chk] at hk
    obtain ⟨F1, e1, hF1⟩ := assumeC_sound hm hc _ true F hF hs
    rw [e1] at hk
    split at hk
    · next s1 s2 h1 h2 =>
      cases hk
      obtain ⟨c1, hn1⟩ := ih cls F1 s1 hc hF1 h1
      refine ⟨c1, ?_⟩
      intro ho
      obtain ⟨F2, e2, hF2⟩ := hn1 ho
      exact join_left e2 hF2
    · cases hk
  | iteF hs _ ih =>
    intro cls F σ' hc hF hk
    simp only [chk] at hk
    obtain ⟨F1, e1, hF1⟩ := assumeC_sound hm hc _ false F hF hs
    rw [e1] at hk
    split at hk
    · next s1 s2 h1 h2 =>
      cases hk
      obtain ⟨c1, hn1⟩ := ih cls F1 s2 hc hF1 h2
      refine ⟨c1, ?_⟩
      intro ho
      obtain ⟨F2, e2, hF2⟩ := hn1 ho
      exact join_right e2 hF2
    · cases hk
  | ret => intro cls F σ' _ _ _; exact ⟨by simp, fun ho => by cases ho⟩
  | brk => intro cls F σ' _ _ _; exact ⟨by simp, fun ho => by cases ho⟩
  | cont => intro cls F σ' _ _ _; exact ⟨by simp, fun ho => by cases ho⟩
  | sink =>
    intro cls F σ' _ hF hk
    simp only [chk, Option.isNone_some, Bool.false_or] at hk
    split at hk
    · next hf => cases hk; exact ⟨by simpa using hf, fun _ => ⟨F, rfl, hF⟩⟩
    · cases hk
  | call hf hρ _ ih =>
    intro cls F σ' _ hF hk
    simp only [chk, Option.isNone_some, Bool.false_or] at hk
    split at hk
    · next hin =>
      cases hk
      obtain ⟨σb, hb⟩ := callee _ _ hf hin
      exact ⟨(ih _ [] σb hρ (Facts.holds_nil _) hb).1, fun _ => ⟨F, rfl, hF⟩⟩
    · cases hk
  | loopDone =>
    intro cls F σ' _ hF hk
    simp only [chk, Option.map_eq_some_iff] at hk
    obtain ⟨_, _, rfl⟩ := hk
    exact ⟨by simp, fun _ => ⟨F, rfl, hF⟩⟩
  | loopStep _ _ _ ih1 ih2 =>
    intro cls F σ' hc hF hk
    have hk' := hk
    simp only [chk, Option.map_eq_some_iff] at hk'
    obtain ⟨σb, hb, _⟩ := hk'
    obtain ⟨c1, _⟩ := ih1 cls F σb hc hF hb
    obtain ⟨c2, hn2⟩ := ih2 cls F σ' hc hF hk
    refine ⟨?_, hn2⟩
    intro e he
    rcases List.mem_append.mp he with he | he
    · exact c1 e he
    · exact c2 e he
  | loopBrk _ ih =>
    intro cls F σ' hc hF hk
    simp only [chk, Option.map_eq_some_iff] at hk
    obtain ⟨σb, hb, rfl⟩ := hk
    exact ⟨(ih cls F σb hc hF hb).1, fun _ => ⟨F, rfl, hF⟩⟩
  | loopRet _ ih =>
    intro cls F σ' hc hF hk
    simp only [chk, Option.map_eq_some_iff] at hk
    obtain ⟨σb, hb, _⟩ := hk
    exact ⟨(ih cls F σb hc hF hb).1, fun ho => by cases ho⟩
  | scope _ ih =>
    intro cls F σ' hc hF hk
    simp only [chk, Option.map_eq_some_iff] at hk
    obtain ⟨σb, hb, rfl⟩ := hk
    exact ⟨(ih cls F σb hc hF hb).1, fun _ => ⟨F, rfl, hF⟩⟩
  | reenterDone => intro cls F σ' _ hF hk; simp [chk] at hk; subst hk; exact ⟨by simp, fun _ => ⟨F, rfl, hF⟩⟩
  | reenterStep hf hx hρ _ _ ih1 ih2 =>
    intro cls F σ' hc hF hk
    have hin := entry _ _ hf (by simp [Fn.isEntry, hx])
    obtain ⟨σb, hb⟩ := callee _ _ hf hin
    obtain ⟨c1, _⟩ := ih1 _ [] σb hρ (Facts.holds_nil _) hb
    obtain ⟨c2, hn2⟩ := ih2 cls F σ' hc hF hk
    refine ⟨?_, hn2⟩
    intro e he
    rcases List.mem_append.mp he with he | he
    · exact c1 e he
    · exact c2 e he

/-! Sample programs for the non-vacuity examples of `Props.C20`. -/

/-- body of a setter with the textbook guard -/
def Sample.guardedBody : Stmt := .seq (.ite (.or .query .view) .ret .skip) (.sink ⟨.mut, 0⟩)

def Sample.guardedSetter : Program :=
  { fns := [{ name := "set", exported := true, queryEntry := false, atoms := [], assume := [], body := Sample.guardedBody }],
    sinkNames := ["SetData"] }

/-- the same setter with the guard deleted -/
def Sample.unguardedSetter : Program :=
  { fns := [{ name := "set", exported := true, queryEntry := false, atoms := [], assume := [], body := .sink ⟨.mut, 0⟩ }],
    sinkNames := ["SetData"] }

/-- a setter whose guard returns an error (`refuse` event before the `ret`) -/
def Sample.refusingBody : Stmt :=
  .seq (.ite (.or .query .view) (.seq (.sink ⟨.refuse, 1⟩) .ret) .skip) (.sink ⟨.mut, 0⟩)

def Sample.refusingSetter : Program :=
  { fns := [{ name := "set", exported := true, queryEntry := false, atoms := [], assume := [], body := Sample.refusingBody }],
    sinkNames := ["SetData", "error return"] }

/-- the same setter with a guard that returns without an error -/
def Sample.swallowingSetter : Program :=
  { fns := [{ name := "set", exported := true, queryEntry := false, atoms := [], assume := [], body := Sample.guardedBody }],
    sinkNames := ["SetData"] }

end Aergo.HostApi
