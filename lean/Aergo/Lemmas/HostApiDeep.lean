/-
Helper lemmas for C20, round 3: soundness of the syntactic checks of `Model.HostApi` that were added for the
clauses "refuses with an error", "a view function runs with nestedView > 0", "state root unchanged" and for the
C-side guards — each with respect to the execution semantics `Exec` (or to an independent specification).
-/
import Aergo.Lemmas.HostApi

namespace Aergo.HostApi

/-! ## Conditions -/

theorem Cond.sat_total (q v : Bool) (ρ : Env) : ∀ c : Cond, ∃ b, c.sat q v ρ b := by
  intro c
  induction c with
  | query => exact ⟨q, rfl⟩
  | view => exact ⟨v, rfl⟩
  | atom i => exact ⟨ρ i, rfl⟩
  | any => exact ⟨true, trivial⟩
  | not c ih =>
    obtain ⟨b, h⟩ := ih
    exact ⟨!b, by simpa [Cond.sat] using h⟩
  | and a c iha ihc =>
    obtain ⟨x, hx⟩ := iha
    obtain ⟨y, hy⟩ := ihc
    exact ⟨x && y, x, y, hx, hy, rfl⟩
  | or a c iha ihc =>
    obtain ⟨x, hx⟩ := iha
    obtain ⟨y, hy⟩ := ihc
    exact ⟨x || y, x, y, hx, hy, rfl⟩

/-- A condition that mentions no flag is satisfied independently of the flags. -/
theorem Cond.sat_flagFree {q v q' v' : Bool} {ρ : Env} :
    ∀ (c : Cond) (b : Bool), c.flagFree = true → c.sat q v ρ b → c.sat q' v' ρ b := by
  intro c
  induction c with
  | query => intro b h; simp [Cond.flagFree] at h
  | view => intro b h; simp [Cond.flagFree] at h
  | atom i => intro b _ h; exact h
  | any => intro b _ h; exact h
  | not c ih => intro b h hs; simp only [Cond.flagFree] at h; simp only [Cond.sat] at hs ⊢; exact ih _ h hs
  | and a c iha ihc =>
    intro b h hs
    simp only [Cond.flagFree, Bool.and_eq_true] at h
    simp only [Cond.sat] at hs ⊢
    obtain ⟨x, y, hx, hy, e⟩ := hs
    exact ⟨x, y, iha _ h.1 hx, ihc _ h.2 hy, e⟩
  | or a c iha ihc =>
    intro b h hs
    simp only [Cond.flagFree, Bool.and_eq_true] at h
    simp only [Cond.sat] at hs ⊢
    obtain ⟨x, y, hx, hy, e⟩ := hs
    exact ⟨x, y, iha _ h.1 hx, ihc _ h.2 hy, e⟩

/-- If `ff` determines the value, the condition can take that value with both flags clear (whatever the atoms). -/
theorem Cond.ff_sat {ρ : Env} : ∀ (c : Cond) (b : Bool), c.ff = some b → c.sat false false ρ b := by
  intro c
  induction c with
  | query => intro b h; simp only [Cond.ff, Option.some.injEq] at h; subst h; rfl
  | view => intro b h; simp only [Cond.ff, Option.some.injEq] at h; subst h; rfl
  | atom i => intro b h; simp [Cond.ff] at h
  | any => intro b h; simp [Cond.ff] at h
  | not c ih =>
    intro b h
    simp only [Cond.ff, Option.map_eq_some_iff] at h
    obtain ⟨b', hb', rfl⟩ := h
    simp only [Cond.sat, Bool.not_not]
    exact ih _ hb'
  | and a c iha ihc =>
    intro b h
    simp only [Cond.ff] at h
    simp only [Cond.sat]
    obtain ⟨xa, hxa⟩ := Cond.sat_total false false ρ a
    obtain ⟨xc, hxc⟩ := Cond.sat_total false false ρ c
    generalize h1 : a.ff = ta at h
    generalize h2 : c.ff = tc at h
    rcases ta with _ | _ | _ <;> rcases tc with _ | _ | _ <;> simp at h <;> subst h
    · exact ⟨xa, false, hxa, ihc _ h2, by simp⟩
    · exact ⟨false, xc, iha _ h1, hxc, by simp⟩
    · exact ⟨false, xc, iha _ h1, hxc, by simp⟩
    · exact ⟨false, xc, iha _ h1, hxc, by simp⟩
    · exact ⟨xa, false, hxa, ihc _ h2, by simp⟩
    · exact ⟨true, true, iha _ h1, ihc _ h2, by simp⟩
  | or a c iha ihc =>
    intro b h
    simp only [Cond.ff] at h
    simp only [Cond.sat]
    obtain ⟨xa, hxa⟩ := Cond.sat_total false false ρ a
    obtain ⟨xc, hxc⟩ := Cond.sat_total false false ρ c
    generalize h1 : a.ff = ta at h
    generalize h2 : c.ff = tc at h
    rcases ta with _ | _ | _ <;> rcases tc with _ | _ | _ <;> simp at h <;> subst h
    · exact ⟨xa, true, hxa, ihc _ h2, by simp⟩
    · exact ⟨false, false, iha _ h1, ihc _ h2, by simp⟩
    · exact ⟨xa, true, hxa, ihc _ h2, by simp⟩
    · exact ⟨true, xc, iha _ h1, hxc, by simp⟩
    · exact ⟨true, xc, iha _ h1, hxc, by simp⟩
    · exact ⟨true, xc, iha _ h1, hxc, by simp⟩

/-! ## Events that every execution emits -/

theorem straight_normal {p : Program} {q v : Bool} {ρ : Env} {s : Stmt} {tr : List Sink} {o : Out}
    (h : Exec p q v ρ s tr o) : s.straight = true → o = .normal := by
  induction h with
  | skip => intro _; rfl
  | seqN _ _ _ ih2 => intro hs; simp only [Stmt.straight, Bool.and_eq_true] at hs; exact ih2 hs.2
  | seqX _ hne ih1 => intro hs; simp only [Stmt.straight, Bool.and_eq_true] at hs; exact absurd (ih1 hs.1) hne
  | iteT _ _ ih => intro hs; simp only [Stmt.straight, Bool.and_eq_true] at hs; exact ih hs.1
  | iteF _ _ ih => intro hs; simp only [Stmt.straight, Bool.and_eq_true] at hs; exact ih hs.2
  | ret => intro hs; simp [Stmt.straight] at hs
  | brk => intro hs; simp [Stmt.straight] at hs
  | cont => intro hs; simp [Stmt.straight] at hs
  | sink => intro _; rfl
  | call _ _ _ _ => intro _; rfl
  | loopDone => intro hs; simp [Stmt.straight] at hs
  | loopStep _ _ _ _ _ => intro hs; simp [Stmt.straight] at hs
  | loopBrk _ _ => intro hs; simp [Stmt.straight] at hs
  | loopRet _ _ => intro hs; simp [Stmt.straight] at hs
  | scope _ _ => intro _; rfl
  | reenterDone => intro _; rfl
  | reenterStep _ _ _ _ _ _ _ => intro _; rfl

/-- `emitsAlways k s`: every execution of `s`, however it ends, emits an event of kind `k`. -/
theorem emitsAlways_sound {p : Program} {q v : Bool} {k : Kind} {ρ : Env} {s : Stmt} {tr : List Sink} {o : Out}
    (h : Exec p q v ρ s tr o) : s.emitsAlways k = true → ∃ e ∈ tr, e.kind = k := by
  induction h with
  | skip => intro hs; simp [Stmt.emitsAlways] at hs
  | @seqN ρ a b t1 t2 o h1 _ ih1 ih2 =>
    intro hs
    simp only [Stmt.emitsAlways, Bool.or_eq_true, Bool.and_eq_true] at hs
    rcases hs with hs | hs
    · obtain ⟨e, he, hk⟩ := ih1 hs
      exact ⟨e, List.mem_append_left _ he, hk⟩
    · obtain ⟨e, he, hk⟩ := ih2 hs.2
      exact ⟨e, List.mem_append_right _ he, hk⟩
  | @seqX ρ a b t1 o h1 hne ih1 =>
    intro hs
    simp only [Stmt.emitsAlways, Bool.or_eq_true, Bool.and_eq_true] at hs
    rcases hs with hs | hs
    · exact ih1 hs
    · exact absurd (straight_normal h1 hs.1) hne
  | iteT _ _ ih => intro hs; simp only [Stmt.emitsAlways, Bool.and_eq_true] at hs; exact ih hs.1
  | iteF _ _ ih => intro hs; simp only [Stmt.emitsAlways, Bool.and_eq_true] at hs; exact ih hs.2
  | ret => intro hs; simp [Stmt.emitsAlways] at hs
  | brk => intro hs; simp [Stmt.emitsAlways] at hs
  | cont => intro hs; simp [Stmt.emitsAlways] at hs
  | @sink ρ s =>
    intro hs
    simp only [Stmt.emitsAlways, beq_iff_eq] at hs
    exact ⟨s, List.mem_singleton.mpr rfl, hs⟩
  | call _ _ _ _ => intro hs; simp [Stmt.emitsAlways] at hs
  | loopDone => intro hs; simp [Stmt.emitsAlways] at hs
  | loopStep _ _ _ _ _ => intro hs; simp [Stmt.emitsAlways] at hs
  | loopBrk _ _ => intro hs; simp [Stmt.emitsAlways] at hs
  | loopRet _ _ => intro hs; simp [Stmt.emitsAlways] at hs
  | scope _ ih => intro hs; simp only [Stmt.emitsAlways] at hs; exact ih hs
  | reenterDone => intro hs; simp [Stmt.emitsAlways] at hs
  | reenterStep _ _ _ _ _ _ _ => intro hs; simp [Stmt.emitsAlways] at hs

/-- `emitsOnNormal k s`: every execution of `s` that ends normally (falls through) emits an event of kind `k`. -/
theorem emitsOnNormal_sound {p : Program} {q v : Bool} {k : Kind} {ρ : Env} {s : Stmt} {tr : List Sink} {o : Out}
    (h : Exec p q v ρ s tr o) : o = .normal → s.emitsOnNormal k = true → ∃ e ∈ tr, e.kind = k := by
  induction h with
  | skip => intro _ hs; simp [Stmt.emitsOnNormal] at hs
  | seqN _ _ ih1 ih2 =>
    intro ho hs
    simp only [Stmt.emitsOnNormal, Bool.or_eq_true] at hs
    rcases hs with hs | hs
    · obtain ⟨e, he, hk⟩ := ih1 rfl hs
      exact ⟨e, List.mem_append_left _ he, hk⟩
    · obtain ⟨e, he, hk⟩ := ih2 ho hs
      exact ⟨e, List.mem_append_right _ he, hk⟩
  | seqX _ hne _ => intro ho _; exact absurd ho hne
  | iteT _ _ ih => intro ho hs; simp only [Stmt.emitsOnNormal, Bool.and_eq_true] at hs; exact ih ho hs.1
  | iteF _ _ ih => intro ho hs; simp only [Stmt.emitsOnNormal, Bool.and_eq_true] at hs; exact ih ho hs.2
  | ret => intro ho; cases ho
  | brk => intro ho; cases ho
  | cont => intro ho; cases ho
  | @sink ρ s =>
    intro _ hs
    simp only [Stmt.emitsOnNormal, beq_iff_eq] at hs
    exact ⟨s, List.mem_singleton.mpr rfl, hs⟩
  | call _ _ _ _ => intro _ hs; simp [Stmt.emitsOnNormal] at hs
  | loopDone => intro _ hs; simp [Stmt.emitsOnNormal] at hs
  | loopStep _ _ _ _ _ => intro _ hs; simp [Stmt.emitsOnNormal] at hs
  | loopBrk _ _ => intro _ hs; simp [Stmt.emitsOnNormal] at hs
  | loopRet _ _ => intro ho; cases ho
  | scope hb _ => intro _ hs; simp only [Stmt.emitsOnNormal] at hs; exact emitsAlways_sound hb hs
  | reenterDone => intro _ hs; simp [Stmt.emitsOnNormal] at hs
  | reenterStep _ _ _ _ _ _ _ => intro _ hs; simp [Stmt.emitsOnNormal] at hs

/-! ## Flag-transparent or refusing -/

theorem startsExempt_emits {p : Program} {q v : Bool} {ρ : Env} {s : Stmt} {tr : List Sink} {o : Out}
    (h : Exec p q v ρ s tr o) (hs : s.startsExempt = true) : ∃ e ∈ tr, e.kind = .exempt := by
  cases h with
  | sink => simp only [Stmt.startsExempt, beq_iff_eq] at hs; exact ⟨_, List.mem_singleton.mpr rfl, hs⟩
  | seqN h1 h2 =>
    cases h1 with
    | sink => simp only [Stmt.startsExempt, beq_iff_eq] at hs; exact ⟨_, by simp, hs⟩
    | _ => simp [Stmt.startsExempt] at hs
  | seqX h1 hne =>
    cases h1 with
    | sink => exact absurd rfl hne
    | _ => simp [Stmt.startsExempt] at hs
  | _ => simp [Stmt.startsExempt] at hs

theorem fn?_mem {p : Program} {f : Nat} {fn : Fn} (h : p.fn? f = some fn) : fn ∈ p.fns := by
  simp only [Program.fn?] at h
  exact List.mem_of_getElem? h

/-- **Refuses or is unaffected.**  In a program that passes `refuseOK`, an execution under any flags either emits a
`refuse` event (an error is returned), or passes through a function of the reviewed exemption list, or is *also* an
execution with both read-only flags clear, with the same events and the same outcome. -/
theorem transp_sound {p : Program} (hp : p.refuseOK = true) {q v : Bool} {ρ : Env} {s : Stmt} {tr : List Sink} {o : Out}
    (h : Exec p q v ρ s tr o) :
    s.transp = true → (∃ e ∈ tr, e.kind = .refuse ∨ e.kind = .exempt) ∨ Exec p false false ρ s tr o := by
  have callee : ∀ {f fn ρ' t1 o1}, p.fn? f = some fn → Exec p q v ρ' fn.body t1 o1 →
      (fn.body.transp = true → (∃ e ∈ t1, e.kind = .refuse ∨ e.kind = .exempt) ∨ Exec p false false ρ' fn.body t1 o1) →
      (∃ e ∈ t1, e.kind = .refuse ∨ e.kind = .exempt) ∨ Exec p false false ρ' fn.body t1 o1 := by
    intro f fn ρ' t1 o1 hf hx ih
    have := (List.all_eq_true.mp hp) fn (fn?_mem hf)
    simp only [Bool.or_eq_true] at this
    rcases this with hex | htr
    · obtain ⟨e, he, hk⟩ := startsExempt_emits hx hex
      exact .inl ⟨e, he, .inr hk⟩
    · exact ih htr
  induction h with
  | skip => intro _; exact .inr .skip
  | seqN _ _ ih1 ih2 =>
    intro hs
    simp only [Stmt.transp, Bool.and_eq_true] at hs
    rcases ih1 hs.1 with ⟨e, he, hk⟩ | h1
    · exact .inl ⟨e, List.mem_append_left _ he, hk⟩
    · rcases ih2 hs.2 with ⟨e, he, hk⟩ | h2
      · exact .inl ⟨e, List.mem_append_right _ he, hk⟩
      · exact .inr (.seqN h1 h2)
  | seqX _ hne ih1 =>
    intro hs
    simp only [Stmt.transp, Bool.and_eq_true] at hs
    rcases ih1 hs.1 with hl | h1
    · exact .inl hl
    · exact .inr (.seqX h1 hne)
  | @iteT ρ c t e tr o hc ht ih =>
    intro hs
    simp only [Stmt.transp] at hs
    split at hs
    · next hfree =>
      simp only [Bool.and_eq_true] at hs
      rcases ih hs.1 with hl | h1
      · exact .inl hl
      · exact .inr (.iteT (Cond.sat_flagFree c true hfree hc) h1)
    · split at hs
      · next hff =>
        simp only [Bool.and_eq_true] at hs
        obtain ⟨e, he, hk⟩ := emitsAlways_sound ht hs.1
        exact .inl ⟨e, he, .inl hk⟩
      · next hff =>
        simp only [Bool.and_eq_true] at hs
        rcases ih hs.2 with hl | h1
        · exact .inl hl
        · exact .inr (.iteT (Cond.ff_sat c true hff) h1)
      · cases hs
  | @iteF ρ c t e tr o hc he ih =>
    intro hs
    simp only [Stmt.transp] at hs
    split at hs
    · next hfree =>
      simp only [Bool.and_eq_true] at hs
      rcases ih hs.2 with hl | h1
      · exact .inl hl
      · exact .inr (.iteF (Cond.sat_flagFree c false hfree hc) h1)
    · split at hs
      · next hff =>
        simp only [Bool.and_eq_true] at hs
        rcases ih hs.2 with hl | h1
        · exact .inl hl
        · exact .inr (.iteF (Cond.ff_sat c false hff) h1)
      · next hff =>
        simp only [Bool.and_eq_true] at hs
        obtain ⟨e', he', hk⟩ := emitsAlways_sound he hs.1
        exact .inl ⟨e', he', .inl hk⟩
      · cases hs
  | ret => intro _; exact .inr .ret
  | brk => intro _; exact .inr .brk
  | cont => intro _; exact .inr .cont
  | sink => intro _; exact .inr .sink
  | call hf hρ hx ih =>
    intro _
    rcases callee hf hx ih with hl | h1
    · exact .inl hl
    · exact .inr (.call hf hρ h1)
  | loopDone => intro _; exact .inr .loopDone
  | loopStep _ ho _ ih1 ih2 =>
    intro hs
    have hb := hs
    simp only [Stmt.transp] at hb
    rcases ih1 hb with ⟨e, he, hk⟩ | h1
    · exact .inl ⟨e, List.mem_append_left _ he, hk⟩
    · rcases ih2 hs with ⟨e, he, hk⟩ | h2
      · exact .inl ⟨e, List.mem_append_right _ he, hk⟩
      · exact .inr (.loopStep h1 ho h2)
  | loopBrk _ ih =>
    intro hs
    simp only [Stmt.transp] at hs
    rcases ih hs with hl | h1
    · exact .inl hl
    · exact .inr (.loopBrk h1)
  | loopRet _ ih =>
    intro hs
    simp only [Stmt.transp] at hs
    rcases ih hs with hl | h1
    · exact .inl hl
    · exact .inr (.loopRet h1)
  | scope _ ih =>
    intro hs
    simp only [Stmt.transp] at hs
    rcases ih hs with hl | h1
    · exact .inl hl
    · exact .inr (.scope h1)
  | reenterDone => intro _; exact .inr .reenterDone
  | reenterStep hf hexp hρ hx _ ih1 ih2 =>
    intro hs
    rcases callee hf hx ih1 with ⟨e, he, hk⟩ | h1
    · exact .inl ⟨e, List.mem_append_left _ he, hk⟩
    · rcases ih2 hs with ⟨e, he, hk⟩ | h2
      · exact .inl ⟨e, List.mem_append_right _ he, hk⟩
      · exact .inr (.reenterStep hf hexp hρ h1 h2)

/-! ## The view bracket comes first -/

/-- Generic form: if the statements that `ok` admits as callees emit nothing, a `silentWith ok` statement emits
nothing. -/
theorem silentWith_sound {p : Program} {q v : Bool} {ok : Nat → Bool}
    (hok : ∀ f fn ρ' tr o, p.fn? f = some fn → ok f = true → Exec p q v ρ' fn.body tr o → tr = [])
    {ρ : Env} {s : Stmt} {tr : List Sink} {o : Out} (h : Exec p q v ρ s tr o) :
    silentWith ok s = true → tr = [] := by
  induction h with
  | skip => intro _; rfl
  | seqN _ _ ih1 ih2 =>
    intro hs; simp only [silentWith, Bool.and_eq_true] at hs
    rw [ih1 hs.1, ih2 hs.2]; rfl
  | seqX _ _ ih1 => intro hs; simp only [silentWith, Bool.and_eq_true] at hs; exact ih1 hs.1
  | iteT _ _ ih => intro hs; simp only [silentWith, Bool.and_eq_true] at hs; exact ih hs.1
  | iteF _ _ ih => intro hs; simp only [silentWith, Bool.and_eq_true] at hs; exact ih hs.2
  | ret => intro _; rfl
  | brk => intro _; rfl
  | cont => intro _; rfl
  | sink => intro hs; simp [silentWith] at hs
  | call hf _ hx _ => intro hs; simp only [silentWith] at hs; exact hok _ _ _ _ _ hf hs hx
  | loopDone => intro _; rfl
  | loopStep _ _ _ ih1 ih2 =>
    intro hs
    have hb := hs
    simp only [silentWith] at hb
    rw [ih1 hb, ih2 hs]; rfl
  | loopBrk _ ih => intro hs; simp only [silentWith] at hs; exact ih hs
  | loopRet _ ih => intro hs; simp only [silentWith] at hs; exact ih hs
  | scope _ ih => intro hs; simp only [silentWith] at hs; exact ih hs
  | reenterDone => intro hs; simp [silentWith] at hs
  | reenterStep _ _ _ _ _ _ _ => intro hs; simp [silentWith] at hs

theorem silent0_sound {p : Program} {q v : Bool} {ρ : Env} {s : Stmt} {tr : List Sink} {o : Out}
    (h : Exec p q v ρ s tr o) (hs : silent0 s = true) : tr = [] :=
  silentWith_sound (ok := fun _ => false) (by intro _ _ _ _ _ _ h; cases h) h hs

theorem silent1_sound {p : Program} {q v : Bool} {ρ : Env} {s : Stmt} {tr : List Sink} {o : Out}
    (h : Exec p q v ρ s tr o) (hs : silent1 p s = true) : tr = [] := by
  refine silentWith_sound (ok := calleeSilent p silent0) ?_ h hs
  intro f fn ρ' tr o hf hok hx
  simp only [calleeSilent, hf] at hok
  exact silent0_sound hx hok

theorem silent2_sound {p : Program} {q v : Bool} {ρ : Env} {s : Stmt} {tr : List Sink} {o : Out}
    (h : Exec p q v ρ s tr o) (hs : silent2 p s = true) : tr = [] := by
  refine silentWith_sound (ok := calleeSilent p (silent1 p)) ?_ h hs
  intro f fn ρ' tr o hf hok hx
  simp only [calleeSilent, hf] at hok
  exact silent1_sound hx hok

theorem silent3_sound {p : Program} {q v : Bool} {ρ : Env} {s : Stmt} {tr : List Sink} {o : Out}
    (h : Exec p q v ρ s tr o) (hs : silent3 p s = true) : tr = [] := by
  refine silentWith_sound (ok := calleeSilent p (silent2 p)) ?_ h hs
  intro f fn ρ' tr o hf hok hx
  simp only [calleeSilent, hf] at hok
  exact silent2_sound hx hok

theorem isBracket_sound {p : Program} {q v : Bool} {a : Nat} {ρ : Env} (ha : ρ a = true)
    {s : Stmt} {tr : List Sink} {o : Out} (h : Exec p q v ρ s tr o) (hb : isBracket a s = true) :
    ∃ e rest, tr = e :: rest ∧ e.kind = .viewInc := by
  unfold isBracket at hb
  split at hb
  · next i s1 s2 els =>
    simp only [Bool.and_eq_true, beq_iff_eq] at hb
    obtain ⟨⟨hi, h1⟩, _⟩ := hb
    cases h with
    | iteT _ hx =>
      cases hx with
      | seqN hs1 _ => cases hs1; exact ⟨s1, _, rfl, h1⟩
      | seqX hs1 hne => cases hs1; exact absurd rfl hne
    | iteF hc _ =>
      simp only [Cond.sat] at hc
      rw [hi, ha] at hc
      cases hc
  · cases hb

/-- **Nothing happens before the view bracket.**  If `bracketFirst p a s` and atom `a` (= `ce.isView`) is true,
every execution of `s` either emits nothing at all or emits `nestedView++` first — in particular before anything a
re-entered callback does. -/
theorem bracketFirst_sound {p : Program} {q v : Bool} {a : Nat} {ρ : Env} (ha : ρ a = true)
    {s : Stmt} {tr : List Sink} {o : Out} (h : Exec p q v ρ s tr o) :
    bracketFirst p a s = true → tr = [] ∨ ∃ e rest, tr = e :: rest ∧ e.kind = .viewInc := by
  induction h with
  | @seqN ρ x y t1 t2 o h1 h2 ih1 ih2 =>
    intro hb
    simp only [bracketFirst, Bool.or_eq_true, Bool.and_eq_true] at hb
    rcases hb with hb | hb
    · obtain ⟨e, rest, rfl, hk⟩ := isBracket_sound ha h1 hb
      exact .inr ⟨e, rest ++ t2, rfl, hk⟩
    · rw [silent3_sound h1 hb.1]
      exact ih2 ha hb.2
  | @seqX ρ x y t1 o h1 hne ih1 =>
    intro hb
    simp only [bracketFirst, Bool.or_eq_true, Bool.and_eq_true] at hb
    rcases hb with hb | hb
    · obtain ⟨e, rest, rfl, hk⟩ := isBracket_sound ha h1 hb
      exact .inr ⟨e, rest, rfl, hk⟩
    · exact .inl (silent3_sound h1 hb.1)
  | iteT hc hx _ =>
    intro hb
    simp only [bracketFirst] at hb
    exact .inr (isBracket_sound ha (.iteT hc hx) hb)
  | iteF hc hx _ =>
    intro hb
    simp only [bracketFirst] at hb
    exact .inr (isBracket_sound ha (.iteF hc hx) hb)
  | skip => intro hb; simp [bracketFirst, isBracket] at hb
  | ret => intro hb; simp [bracketFirst, isBracket] at hb
  | brk => intro hb; simp [bracketFirst, isBracket] at hb
  | cont => intro hb; simp [bracketFirst, isBracket] at hb
  | sink => intro hb; simp [bracketFirst, isBracket] at hb
  | call _ _ _ _ => intro hb; simp [bracketFirst, isBracket] at hb
  | loopDone => intro hb; simp [bracketFirst, isBracket] at hb
  | loopStep _ _ _ _ _ => intro hb; simp [bracketFirst, isBracket] at hb
  | loopBrk _ _ => intro hb; simp [bracketFirst, isBracket] at hb
  | loopRet _ _ => intro hb; simp [bracketFirst, isBracket] at hb
  | scope _ _ => intro hb; simp [bracketFirst, isBracket] at hb
  | reenterDone => intro hb; simp [bracketFirst, isBracket] at hb
  | reenterStep _ _ _ _ _ _ _ => intro hb; simp [bracketFirst, isBracket] at hb

/-! ## View depth: the counter counts the open view frames -/

namespace ViewDepth

theorem step_inv {s s' : St} {e : Ev} (h : step s e = some s') (hinv : s.counter = openViews s.stack) :
    s'.counter = openViews s'.stack := by
  cases e with
  | enter b =>
    cases b <;> simp only [step, Option.some.injEq] at h <;> subst h <;> simp [openViews, hinv]
  | leave =>
    simp only [step] at h
    split at h
    · cases h
    · next rest hst =>
      simp only [Option.some.injEq] at h; subst h
      simp [openViews, hst] at hinv ⊢
      omega
    · next rest hst =>
      simp only [Option.some.injEq] at h; subst h
      simp [openViews, hst] at hinv ⊢
      omega

theorem run_inv : ∀ (evs : List Ev) (s s' : St), run s evs = some s' → s.counter = openViews s.stack →
    s'.counter = openViews s'.stack := by
  intro evs
  induction evs with
  | nil => intro s s' h hinv; simp only [run, Option.some.injEq] at h; subst h; exact hinv
  | cons e es ih =>
    intro s s' h hinv
    simp only [run, Option.bind_eq_some_iff] at h
    obtain ⟨s1, h1, h2⟩ := h
    exact ih s1 s' h2 (step_inv h1 hinv)

theorem openViews_pos {st : List Bool} : 0 < openViews st ↔ true ∈ st := by
  induction st with
  | nil => simp [openViews]
  | cons b rest ih =>
    cases b
    · simp [openViews]
    · simp [openViews]

end ViewDepth

/-! ## Recovery points with root-preserving bookkeeping -/

theorem Snap.run_preserves {S R : Type} (root : S → R) (σ : S) :
    ∀ (ops : List (Snap.Op S)) (s0 : Snap.St S), root s0.cur = root σ → (∀ x ∈ s0.stack, root x = root σ) →
      (∀ op ∈ ops, op.preserves root) → ∀ st, Snap.run s0 ops = some st →
        root st.cur = root σ ∧ ∀ x ∈ st.stack, root x = root σ := by
  intro ops
  induction ops with
  | nil => intro s0 hc hs _ st hr; simp [Snap.run] at hr; subst hr; exact ⟨hc, hs⟩
  | cons op rest ih =>
    intro s0 hc hs hno st hr
    have hop := hno op List.mem_cons_self
    have hrest : ∀ o ∈ rest, o.preserves root := fun o ho => hno o (List.mem_cons_of_mem _ ho)
    cases op with
    | mutate f =>
      simp only [Snap.run, Snap.step, Option.bind_some] at hr
      refine ih ⟨f s0.cur, s0.stack⟩ ?_ hs hrest st hr
      simp only [Snap.Op.preserves] at hop
      rw [hop]; exact hc
    | snap =>
      simp only [Snap.run, Snap.step, Option.bind_some] at hr
      refine ih ⟨s0.cur, s0.cur :: s0.stack⟩ hc ?_ hrest st hr
      intro x hx
      rcases List.mem_cons.mp hx with rfl | hx
      · exact hc
      · exact hs x hx
    | restore k =>
      simp only [Snap.run, Snap.step] at hr
      cases hk : s0.stack[k]? with
      | none => simp [hk] at hr
      | some s =>
        simp only [hk, Option.bind_some] at hr
        have hmem : s ∈ s0.stack := List.mem_of_getElem? hk
        refine ih ⟨s, s0.stack.drop k⟩ (hs s hmem) ?_ hrest st hr
        intro x hx
        exact hs x (List.mem_of_mem_drop hx)

/-! ## C guards -/

theorem CCmp.allPositive_sound {c : CCmp} (h : c.allPositive = true) (n : Int) (hn : 0 < n) : c.eval n = true := by
  cases c <;> simp only [CCmp.allPositive, CCmp.eval, decide_eq_true_eq] at h ⊢ <;> first | omega | cases h

theorem CLuaFn.viewGuarded_sound {f : CLuaFn} (h : f.viewGuarded = true) (n : Int) (hn : 0 < n) :
    f.reachesStep n = false := by
  simp only [CLuaFn.viewGuarded, List.any_eq_true, Bool.and_eq_true] at h
  obtain ⟨g, hg, ⟨hc, hr⟩, hp⟩ := h
  have : g.stops n = true := by
    simp only [CGuard.stops, Bool.and_eq_true]
    exact ⟨⟨hc, hr⟩, CCmp.allPositive_sound hp n hn⟩
  have hany : f.guards.any (·.stops n) = true := List.any_eq_true.mpr ⟨g, hg, this⟩
  simp [CLuaFn.reachesStep, hany]

end Aergo.HostApi
