import Aergo.Model.Ledger

/-! Helper lemmas for the `Ledger` model (C01, C03): association maps, Σ of balances under `PutState`,
`SendBalance`, the fee formulas. Core only. -/

namespace Aergo.Ledger

/-! ### maps -/

theorem mget_mset_same {α : Type} (m : AMap α) (k : Nat) (v : α) : mget (mset m k v) k = some v := by
  induction m with
  | nil => simp [mset, mget]
  | cons h t ih =>
    obtain ⟨k', v'⟩ := h
    by_cases hk : k' = k <;> simp [mset, mget, hk, ih]

theorem mget_mset_other {α : Type} (m : AMap α) (k k' : Nat) (v : α) (h : k ≠ k') :
    mget (mset m k v) k' = mget m k' := by
  induction m with
  | nil => simp [mset, mget, h]
  | cons hd t ih =>
    obtain ⟨k0, v0⟩ := hd
    by_cases hk : k0 = k
    · subst hk; simp [mset, mget, h]
    · by_cases hk' : k0 = k'
      · subst hk'; simp [mset, mget, hk]
      · simp [mset, mget, hk, hk', ih]

theorem sumBal_mset (m : AMap Acct) (k : Nat) (v : Acct) :
    sumBal (mset m k v) + ((mget m k).getD {}).bal = sumBal m + v.bal := by
  induction m with
  | nil => simp [mset, mget, sumBal]
  | cons h t ih =>
    obtain ⟨k', v'⟩ := h
    by_cases hk : k' = k
    · simp [mset, mget, sumBal, hk]; omega
    · simp [mset, mget, sumBal, hk]; omega

/-! ### the world under `PutState` -/

@[simp] theorem total_put (w : World) (a : Addr) (x : Acct) :
    (w.put a x).total + w.bal a = w.total + x.bal := by
  simp [World.put, World.total, World.bal, World.acct, sumBal_mset]

@[simp] theorem acct_put_same (w : World) (a : Addr) (x : Acct) : (w.put a x).acct a = x := by
  simp [World.put, World.acct, mget_mset_same]

theorem acct_put_other (w : World) (a b : Addr) (x : Acct) (h : a ≠ b) : (w.put a x).acct b = w.acct b := by
  simp [World.put, World.acct, mget_mset_other _ _ _ _ h]

@[simp] theorem bal_put_same (w : World) (a : Addr) (x : Acct) : (w.put a x).bal a = x.bal := by
  simp [World.bal]

theorem bal_put_other (w : World) (a b : Addr) (x : Acct) (h : a ≠ b) : (w.put a x).bal b = w.bal b := by
  simp [World.bal, acct_put_other _ _ _ _ h]

@[simp] theorem getCopy_id (w : World) (a : Addr) : (w.getCopy a).id = a := by
  unfold World.getCopy; split <;> rfl

@[simp] theorem getCopy_cur (w : World) (a : Addr) : (w.getCopy a).cur = w.acct a := by
  unfold World.getCopy World.acct; split <;> simp_all

@[simp] theorem getCopy_old (w : World) (a : Addr) : (w.getCopy a).old = w.acct a := by
  unfold World.getCopy World.acct; split <;> simp_all

@[simp] theorem getCopy_flags (w : World) (a : Addr) :
    (w.getCopy a).deploy = false ∧ (w.getCopy a).redeploy = false := by
  unfold World.getCopy; split <;> simp

@[simp] theorem setNonce_bal (a : Acct) (n : Nat) : (a.setNonce n).bal = a.bal := rfl
@[simp] theorem setNonce_code (a : Acct) (n : Nat) : (a.setNonce n).code = a.code := rfl
@[simp] theorem setNonce_nonce (a : Acct) (n : Nat) : (a.setNonce n).nonce = n := rfl

theorem absSub_of_le {a b : Nat} (h : b ≤ a) : absSub a b = a - b := by simp [absSub, h]

/-! ### `SendBalance` -/

theorem sendBal_same {s r : Copy} {amt : Nat} (h : s.id = r.id) : sendBal s r amt = some (s, r) := by
  simp [sendBal, h]

theorem sendBal_spec {s r s' r' : Copy} {amt : Nat} (h : sendBal s r amt = some (s', r')) :
    s'.id = s.id ∧ r'.id = r.id ∧ s'.old = s.old ∧ r'.old = r.old ∧
    s'.cur.nonce = s.cur.nonce ∧ r'.cur.nonce = r.cur.nonce ∧ s'.cur.code = s.cur.code ∧ r'.cur.code = r.cur.code ∧
    s'.isNew = s.isNew ∧ r'.isNew = r.isNew ∧ s'.deploy = s.deploy ∧ r'.deploy = r.deploy ∧
    s'.redeploy = s.redeploy ∧ r'.redeploy = r.redeploy ∧
    s'.cur.bal + r'.cur.bal = s.cur.bal + r.cur.bal ∧
    (s.id = r.id → s' = s ∧ r' = r) ∧
    (s.id ≠ r.id → amt ≤ s.cur.bal ∧ s'.cur.bal = s.cur.bal - amt ∧ r'.cur.bal = r.cur.bal + amt) := by
  unfold sendBal at h
  split at h
  · cases h; simp_all
  · split at h
    · cases h
    · cases h
      simp_all [Copy.subBalance, Copy.addBalance, Copy.setBal, absSub]
      omega

/-! ### fees: what validation guarantees -/

theorem base_le_maxFee {c : Ctx} {tx : Tx} {b : Nat} (h : validateMaxFee c tx b = none) :
    txBaseFee c tx.payloadLen ≤ b := by
  unfold validateMaxFee at h
  split at h
  · cases h
  · rename_i f hf
    split at h
    · cases h
    · rename_i hle
      have hfb : f ≤ b := Nat.le_of_not_lt hle
      unfold txMaxFee at hf
      unfold txBaseFee
      by_cases hz : c.zeroFee = true
      · simp [hz, payloadFee, txGas]
      · simp [hz] at hf
        by_cases hv : c.version < 2
        · simp [hv] at hf
          subst hf
          simp [hv, payloadFee, hz]
          simp [maxPayloadFee, hz, payloadFee] at hfb
          split at hfb
          · rename_i h0; simp [h0, dataSize] ; omega
          · omega
        · have key : ∀ gl, (if txGas c tx.payloadLen > gl then none else some (c.gasPrice * gl)) = some f →
              c.gasPrice * txGas c tx.payloadLen ≤ f := by
            intro gl h
            split at h
            · cases h
            · rename_i hg
              cases h
              exact Nat.mul_le_mul_left _ (Nat.le_of_not_lt hg)
          simp only [hv, if_false] at hf
          have := key _ hf
          simp [hv]
          omega


/-! ### everything but the account records -/

/-- the world with the account records blanked: what `PutState` cannot touch -/
def World.rest (w : World) : World := { w with accts := [] }

@[simp] theorem rest_put (w : World) (a : Addr) (x : Acct) : (w.put a x).rest = w.rest := rfl

theorem World.ext_accts_rest {w w' : World} (h1 : w'.accts = w.accts) (h2 : w'.rest = w.rest) : w' = w := by
  cases w; cases w'; simp_all [World.rest]

@[simp] theorem write_accts (w : World) (a : Addr) (p : Pend) : (w.write a p).accts = w.accts := by
  unfold World.write
  simp only []
  split <;> split <;> (try split) <;> rfl

@[simp] theorem stage_accts (w : World) (a : Addr) (p : Pend) : (w.stage a p).accts = w.accts := by
  unfold World.stage
  simp only []
  split <;> simp

theorem total_of_accts {w w' : World} (h : w'.accts = w.accts) : w'.total = w.total := by
  simp [World.total, h]

theorem acct_of_accts {w w' : World} (h : w'.accts = w.accts) (a : Addr) : w'.acct a = w.acct a := by
  simp [World.acct, h]

theorem bal_of_accts {w w' : World} (h : w'.accts = w.accts) (a : Addr) : w'.bal a = w.bal a := by
  simp [World.bal, acct_of_accts h]

/-! ### the scripted transfers -/

theorem runXfers_ok {sid rid : Addr} {xs : List (Addr × Nat)} :
    ∀ {snd rcv : Acct} {w : World} {third : Bool} {sa ra : Acct} {w' : World} {t' : Bool},
      runXfers sid rid snd rcv w third xs = .ok sa ra w' t' →
      w'.total + sa.bal + ra.bal = w.total + snd.bal + rcv.bal ∧
      w'.acct sid = w.acct sid ∧ w'.acct rid = w.acct rid ∧
      sa.nonce = snd.nonce ∧ sa.code = snd.code ∧ ra.nonce = rcv.nonce ∧ ra.code = rcv.code ∧
      snd.bal ≤ sa.bal ∧ w'.rest = w.rest := by
  induction xs with
  | nil =>
    intro snd rcv w third sa ra w' t' h
    simp [runXfers] at h
    obtain ⟨rfl, rfl, rfl, _⟩ := h
    simp
  | cons x xs ih =>
    obtain ⟨t, amt⟩ := x
    intro snd rcv w third sa ra w' t' h
    unfold runXfers at h
    by_cases h1 : t = rid
    · simp only [h1, if_true] at h
      exact ih h
    · simp only [h1, if_false] at h
      by_cases h2 : rcv.bal < amt
      · simp [h2] at h
      · simp only [h2, if_false] at h
        have hle : amt ≤ rcv.bal := Nat.le_of_not_lt h2
        by_cases h3 : t = sid
        · simp only [h3, if_true] at h
          have := ih h
          simp at this
          obtain ⟨t1, t2, t3, t4, t5, t6, t7, t8, t9⟩ := this
          exact ⟨by omega, t2, t3, t4, t5, t6, t7, by omega, t9⟩
        · simp only [h3, if_false] at h
          have := ih h
          have htot := total_put w t { w.acct t with bal := (w.acct t).bal + amt }
          have e1 : (w.put t { w.acct t with bal := (w.acct t).bal + amt }).acct sid = w.acct sid :=
            acct_put_other _ _ _ _ h3
          have e2 : (w.put t { w.acct t with bal := (w.acct t).bal + amt }).acct rid = w.acct rid :=
            acct_put_other _ _ _ _ h1
          simp [World.bal] at htot
          simp at this
          obtain ⟨t1, t2, t3, t4, t5, t6, t7, t8, t9⟩ := this
          refine ⟨?_, ?_, ?_, t4, t5, t6, t7, t8, ?_⟩
          · omega
          · rw [t2, e1]
          · rw [t3, e2]
          · rw [t9]


/-! ### `contract.Execute` -/

/-- What `Execute` guarantees about its outputs, relative to the records it was given. -/
structure ExecOK (w : World) (snd rcv : Copy) (o : ExecOut) : Prop where
  sid : o.snd.id = snd.id
  rid : o.rcv.id = rcv.id
  sold : o.snd.old = snd.old
  rold : o.rcv.old = rcv.old
  asid : o.w.acct snd.id = w.acct snd.id
  arid : o.w.acct rcv.id = w.acct rcv.id
  snonce : o.snd.cur.nonce = snd.cur.nonce
  sum : o.err = none → o.w.total + o.snd.cur.bal + o.rcv.cur.bal = w.total + snd.cur.bal + rcv.cur.bal
  runtime : o.err = some .runtime → o.leak = false → o.w = w

theorem vmCall_spec {w : World} {tx : Tx} {snd rcv : Copy} {isFD : Bool} {base : Nat} {o : ExecOut}
    (h : vmCall w tx snd rcv isFD base = o) :
    ExecOK w snd rcv o ∧ (o.err = none → o.fee ≤ (if isFD then o.rcv else o.snd).cur.bal) := by
  unfold vmCall at h
  simp only [] at h
  split at h
  · -- the VM refuses to start
    subst h
    exact ⟨⟨rfl, rfl, rfl, rfl, rfl, rfl, rfl, by simp, by simp⟩, by simp⟩
  · rename_i rcv' pend hpre
    have hr : rcv'.id = rcv.id ∧ rcv'.old = rcv.old ∧ rcv'.cur.bal = rcv.cur.bal := by
      split at hpre
      · split at hpre
        · cases hpre
        · cases hpre; simp
      · split at hpre
        · cases hpre; simp
        · cases hpre
    obtain ⟨hr1, hr2, hr3⟩ := hr
    split at h
    · subst h; exact ⟨⟨rfl, hr1, rfl, hr2, rfl, rfl, rfl, by simp, by simp⟩, by simp⟩
    · -- system error / timeout after the script's writes (or a VM error on an uncovered transfer)
      split at h
      · subst h; exact ⟨⟨rfl, hr1, rfl, hr2, rfl, rfl, rfl, by simp, by simp⟩, by simp⟩
      · subst h; exact ⟨⟨rfl, hr1, rfl, hr2, rfl, rfl, rfl, by simp, by simp⟩, by simp⟩
    · subst h; exact ⟨⟨rfl, hr1, rfl, hr2, rfl, rfl, rfl, by simp, by simp⟩, by simp⟩
    · -- a Lua error after top-level writes
      subst h
      refine ⟨⟨rfl, hr1, rfl, hr2, ?_, ?_, rfl, by simp, ?_⟩, by simp⟩
      · simp only []
        split
        · rw [acct_of_accts (write_accts _ _ _)]
        · rfl
      · simp only []
        split
        · rw [acct_of_accts (write_accts _ _ _)]
        · rfl
      · intro _ hl
        simpa using hl
    · split at h
      · subst h; exact ⟨⟨rfl, hr1, rfl, hr2, rfl, rfl, rfl, by simp, by simp⟩, by simp⟩
      · rename_i sa ra w' t' hx
        have hx' := runXfers_ok hx
        obtain ⟨x1, x2, x3, x4, x5, x6, x7, x8, x9⟩ := hx'
        by_cases hfee : (if isFD then ra.bal else sa.bal) < base + tx.script.fee
        · -- the balance-for-fee check fails after the VM
          rw [if_pos hfee] at h
          subst h
          refine ⟨⟨rfl, hr1, rfl, hr2, ?_, ?_, x4, by simp, ?_⟩, by simp⟩
          · simp only []
            split
            · rw [acct_of_accts (write_accts _ _ _), x2]
            · exact x2
          · simp only []
            split
            · rw [acct_of_accts (write_accts _ _ _), ← hr1, x3]
            · rw [← hr1]; exact x3
          · intro _ hl
            simpa using hl
        · rw [if_neg hfee] at h
          subst h
          refine ⟨⟨rfl, hr1, rfl, hr2, ?_, ?_, x4, ?_, by simp⟩, ?_⟩
          · simp only []; rw [acct_of_accts (stage_accts _ _ _), x2]
          · simp only []; rw [acct_of_accts (stage_accts _ _ _), ← hr1, x3]
          · intro _
            simp only []
            rw [total_of_accts (stage_accts _ _ _)]
            omega
          · intro _
            cases isFD <;> simp at hfee ⊢ <;> omega


theorem ExecOK.of_sendBal {w : World} {snd rcv s1 r1 : Copy} {amt : Nat} {o : ExecOut}
    (hs : sendBal snd rcv amt = some (s1, r1)) (h : ExecOK w s1 r1 o) : ExecOK w snd rcv o := by
  have q := sendBal_spec hs
  obtain ⟨q1, q2, q3, q4, q5, q6, q7, q8, q9, q10, q11, q12, q13, q14, q15, q16, q17⟩ := q
  exact ⟨h.sid.trans q1, h.rid.trans q2, h.sold.trans q3, h.rold.trans q4, q1 ▸ h.asid, q2 ▸ h.arid,
    h.snonce.trans q5, fun e => by have := h.sum e; omega, h.runtime⟩

theorem execute_spec {c : Ctx} {w : World} {tx : Tx} {snd rcv : Copy} {isFD : Bool} {o : ExecOut}
    (h : execute c w tx snd rcv isFD = o) :
    ExecOK w snd rcv o ∧
    (o.err = none → o.fee ≤ (if isFD then o.rcv else o.snd).cur.bal ∨
      (o.fee = txBaseFee c tx.payloadLen ∧ o.w = w ∧ sendBal snd rcv tx.amount = some (o.snd, o.rcv))) := by
  unfold execute at h
  simp only [] at h
  split at h
  · subst h
    exact ⟨⟨rfl, rfl, rfl, rfl, rfl, rfl, rfl, by simp, by simp⟩, by simp⟩
  · rename_i s1 r1 hs
    have triv : ∀ (fee : Nat) (e : Err),
        ExecOK w snd rcv { snd := s1, rcv := r1, w := w, fee := fee, err := some e } :=
      fun fee e => ExecOK.of_sendBal hs ⟨rfl, rfl, rfl, rfl, rfl, rfl, rfl, by simp, by simp⟩
    split at h
    · subst h; exact ⟨triv _ _, by simp⟩
    · subst h
      refine ⟨ExecOK.of_sendBal hs ⟨rfl, rfl, rfl, rfl, rfl, rfl, rfl, by simp, by simp⟩, ?_⟩
      intro _
      exact Or.inr ⟨rfl, rfl, hs⟩
    · split at h
      · subst h; exact ⟨triv _ _, by simp⟩
      · split at h
        · subst h; exact ⟨triv _ _, by simp⟩
        · split at h
          · subst h; exact ⟨triv _ _, by simp⟩
          · have := vmCall_spec h
            exact ⟨ExecOK.of_sendBal hs this.1, fun e => Or.inl (this.2 e)⟩

end Aergo.Ledger
