import Aergo.Model.Ledger

/-! Helper lemmas for the `Ledger` model (C01, C03): association maps, Σ of balances under `PutState`,
`SendBalance`, the fee formulas. Core only. -/

namespace Aergo.Ledger

/-! ### maps -/

theorem mget_mset_same {α : Type} (m : AMap α) (k : Nat) (v : α) : mget (mset m k v) k = some v := by
  induction m with
  | nil => simp [mset, mget]
  | cons h t ih =>
    obtain ⟨k', v'⟩ := h
    by_cases hk : k' = k <;> simp [mset, mget, hk, ih]

theorem mget_mset_other {α : Type} (m : AMap α) (k k' : Nat) (v : α) (h : k ≠ k') :
    mget (mset m k v) k' = mget m k' := by
  induction m with
  | nil => simp [mset, mget, h]
  | cons hd t ih =>
    obtain ⟨k0, v0⟩ := hd
    by_cases hk : k0 = k
    · subst hk; simp [mset, mget, h]
    · by_cases hk' : k0 = k' <;> simp [mset, mget, hk, hk', ih]

theorem sumBal_mset (m : AMap Acct) (k : Nat) (v : Acct) :
    sumBal (mset m k v) + ((mget m k).getD {}).bal = sumBal m + v.bal := by
  induction m with
  | nil => simp [mset, mget, sumBal]
  | cons h t ih =>
    obtain ⟨k', v'⟩ := h
    by_cases hk : k' = k
    · simp [mset, mget, sumBal, hk]; omega
    · simp [mset, mget, sumBal, hk]; omega

/-! ### the world under `PutState` -/

@[simp] theorem total_put (w : World) (a : Addr) (x : Acct) :
    (w.put a x).total + w.bal a = w.total + x.bal := by
  simp [World.put, World.total, World.bal, World.acct, sumBal_mset]

@[simp] theorem acct_put_same (w : World) (a : Addr) (x : Acct) : (w.put a x).acct a = x := by
  simp [World.put, World.acct, mget_mset_same]

theorem acct_put_other (w : World) (a b : Addr) (x : Acct) (h : a ≠ b) : (w.put a x).acct b = w.acct b := by
  simp [World.put, World.acct, mget_mset_other _ _ _ _ h]

@[simp] theorem bal_put_same (w : World) (a : Addr) (x : Acct) : (w.put a x).bal a = x.bal := by
  simp [World.bal]

theorem bal_put_other (w : World) (a b : Addr) (x : Acct) (h : a ≠ b) : (w.put a x).bal b = w.bal b := by
  simp [World.bal, acct_put_other _ _ _ _ h]

@[simp] theorem getCopy_id (w : World) (a : Addr) : (w.getCopy a).id = a := by
  unfold World.getCopy; split <;> rfl

@[simp] theorem getCopy_cur (w : World) (a : Addr) : (w.getCopy a).cur = w.acct a := by
  unfold World.getCopy World.acct; split <;> simp_all

@[simp] theorem getCopy_old (w : World) (a : Addr) : (w.getCopy a).old = w.acct a := by
  unfold World.getCopy World.acct; split <;> simp_all

@[simp] theorem getCopy_flags (w : World) (a : Addr) :
    (w.getCopy a).deploy = false ∧ (w.getCopy a).redeploy = false := by
  unfold World.getCopy; split <;> simp

theorem absSub_of_le {a b : Nat} (h : b ≤ a) : absSub a b = a - b := by simp [absSub, h]

/-! ### `SendBalance` -/

theorem sendBal_same {s r : Copy} {amt : Nat} (h : s.id = r.id) : sendBal s r amt = some (s, r) := by
  simp [sendBal, h]

theorem sendBal_spec {s r s' r' : Copy} {amt : Nat} (h : sendBal s r amt = some (s', r')) :
    s'.id = s.id ∧ r'.id = r.id ∧ s'.old = s.old ∧ r'.old = r.old ∧
    s'.cur.nonce = s.cur.nonce ∧ r'.cur.nonce = r.cur.nonce ∧ s'.cur.code = s.cur.code ∧ r'.cur.code = r.cur.code ∧
    s'.isNew = s.isNew ∧ r'.isNew = r.isNew ∧ s'.deploy = s.deploy ∧ r'.deploy = r.deploy ∧
    s'.redeploy = s.redeploy ∧ r'.redeploy = r.redeploy ∧
    s'.cur.bal + r'.cur.bal = s.cur.bal + r.cur.bal ∧
    (s.id = r.id → s' = s ∧ r' = r) ∧
    (s.id ≠ r.id → amt ≤ s.cur.bal ∧ s'.cur.bal = s.cur.bal - amt ∧ r'.cur.bal = r.cur.bal + amt) := by
  unfold sendBal at h
  split at h
  · cases h; simp_all
  · split at h
    · cases h
    · cases h
      simp_all [Copy.subBalance, Copy.addBalance, Copy.setBal, absSub]
      omega

/-! ### fees: what validation guarantees -/

theorem base_le_maxFee {c : Ctx} {tx : Tx} {b : Nat} (h : validateMaxFee c tx b = none) :
    txBaseFee c tx.payloadLen ≤ b := by
  unfold validateMaxFee at h
  split at h
  · cases h
  · rename_i f hf
    split at h
    · cases h
    · rename_i hle
      have hfb : f ≤ b := Nat.le_of_not_lt hle
      unfold txMaxFee at hf
      unfold txBaseFee
      by_cases hz : c.zeroFee = true
      · simp [hz, payloadFee, txGas]
      · simp [hz] at hf
        by_cases hv : c.version < 2
        · simp [hv] at hf
          subst hf
          simp [hv, payloadFee, hz]
          simp [maxPayloadFee, hz, payloadFee] at hfb
          split at hfb
          · rename_i h0; simp [h0, dataSize] ; omega
          · omega
        · simp [hv] at hf
          split at hf
          · cases hf
          · rename_i hg
            cases hf
            simp [hv]
            have := Nat.mul_le_mul_left c.gasPrice (Nat.le_of_not_lt hg)
            omega

end Aergo.Ledger
