import Aergo.Lemmas.LedgerBlock

/-! Exactness of the failure paths of `executeTx` (C03). -/

namespace Aergo.Ledger

/-- the world after a transaction that failed at run time, written without account copies: the payer
(the sender; the called contract for a fee-delegation tx to another account) loses the fee, the
sender's nonce becomes the tx nonce, nothing else changes -/
def chargeFeeNonce (w : World) (isFD : Bool) (sid rid : Addr) (fee nonce : Nat) : World :=
  if isFD = true ∧ sid ≠ rid then
    (w.put sid ((w.acct sid).setNonce nonce)).put rid { w.acct rid with bal := (w.acct rid).bal - fee }
  else w.put sid ({ w.acct sid with bal := (w.acct sid).bal - fee }.setNonce nonce)

theorem resetAccount_fee_eq {cp : Copy} {fee : Nat} {n : Nat} {a : Acct}
    (h : resetAccount cp (some fee) (some n) = some a) :
    fee ≤ cp.old.bal ∧ a = ({ cp.old with bal := cp.old.bal - fee } : Acct).setNonce n := by
  unfold resetAccount at h
  simp only [] at h
  split at h
  · cases h
  · rename_i hle
    have := Nat.le_of_not_lt hle
    simp at h
    subst h
    simp [absSub, this]

theorem resetAccount_fee_eq' {cp : Copy} {fee : Nat} {a : Acct}
    (h : resetAccount cp (some fee) none = some a) :
    fee ≤ cp.old.bal ∧ a = { cp.old with bal := cp.old.bal - fee } := by
  unfold resetAccount at h
  simp only [] at h
  split at h
  · cases h
  · rename_i hle
    have := Nat.le_of_not_lt hle
    simp at h
    subst h
    simp [absSub, this]

theorem resetAccount_nonce_eq {cp : Copy} {n : Nat} {a : Acct}
    (h : resetAccount cp none (some n) = some a) : a = cp.old.setNonce n := by
  unfold resetAccount at h
  simp at h
  exact h.symm

/-- the runtime-error branch on an untouched world is exactly `chargeFeeNonce` -/
theorem runtimeBranch_exact {w : World} {bp : Nat} {tx : Tx} {snd rcv : Copy} {fee : Nat} {leak dirty : Bool}
    {res : Result}
    (hso : snd.old = w.acct snd.id) (hro : rcv.old = w.acct rcv.id)
    (h : runtimeBranch w w bp tx snd rcv fee leak dirty = res) (hf : res.outcome = .failed) :
    res.receipt = some { status := .error, fee, feeDelegation := tx.type = .feeDelegation, contract := rcv.id } ∧
    res.bp = bp + fee ∧
    res.w = chargeFeeNonce w (tx.type = .feeDelegation) snd.id rcv.id fee tx.nonce ∧
    fee ≤ (if (tx.type = .feeDelegation) ∧ snd.id ≠ rcv.id then w.bal rcv.id else w.bal snd.id) := by
  unfold runtimeBranch at h
  simp only [] at h
  split at h
  · rename_i hc
    have hc' : ¬ (decide (tx.type = .feeDelegation) = true ∧ snd.id ≠ rcv.id) := by
      intro ⟨h1, h2⟩
      rcases hc with hc | hc
      · exact hc (by simpa using h1)
      · exact h2 hc
    have hc'' : ¬ (tx.type = .feeDelegation ∧ snd.id ≠ rcv.id) := by
      intro ⟨h1, h2⟩; exact hc' ⟨by simpa using h1, h2⟩
    split at h
    · subst h; simp at hf
    · rename_i a ha
      subst h
      obtain ⟨q1, q2⟩ := resetAccount_fee_eq ha
      refine ⟨rfl, rfl, ?_, ?_⟩
      · simp only [chargeFeeNonce, if_neg hc', q2, hso]
      · rw [if_neg hc'']; rw [hso] at q1; exact q1
  · rename_i hc
    have hfd : tx.type = .feeDelegation := by
      by_cases h : tx.type = .feeDelegation
      · exact h
      · exact absurd (Or.inl h) hc
    have hne : snd.id ≠ rcv.id := fun e => hc (Or.inr e)
    split at h
    · subst h; simp at hf
    · rename_i a ha
      split at h
      · subst h; simp at hf
      · rename_i b hb
        subst h
        have q1 := resetAccount_nonce_eq ha
        obtain ⟨q2, q3⟩ := resetAccount_fee_eq' hb
        refine ⟨rfl, rfl, ?_, ?_⟩
        · simp only [chargeFeeNonce, hfd, decide_true, true_and, if_pos hne, q1, q3, hso, hro]
        · rw [if_pos ⟨hfd, hne⟩]; rw [hro] at q2; exact q2


theorem runtimeBranch_leak_true {w0 w : World} {bp : Nat} {tx : Tx} {snd rcv : Copy} {fee : Nat} {dirty : Bool}
    (hf : (runtimeBranch w0 w bp tx snd rcv fee true dirty).outcome = .failed) :
    (runtimeBranch w0 w bp tx snd rcv fee true dirty).leak = true := by
  unfold runtimeBranch at hf ⊢
  simp only [] at hf ⊢
  split
  · split
    · rename_i h1 _ h2; rw [if_pos h1, h2] at hf; simp at hf
    · rfl
  · rename_i h1
    split
    · rename_i h2; rw [if_neg h1, h2] at hf; simp at hf
    · rename_i a h2
      split
      · rename_i h3; rw [if_neg h1, h2] at hf; simp only [] at hf; rw [h3] at hf; simp at hf
      · rfl

theorem finishVm_failed_exact {c : Ctx} {w : World} {bp : Nat} {tx : Tx} {snd rcv : Copy} {isFD : Bool}
    {st : Status} {res : Result}
    (hso : snd.old = w.acct snd.id) (hro : rcv.old = w.acct rcv.id)
    (h : finishVm w bp tx st isFD (execute c w tx snd rcv isFD) = res)
    (hf : res.outcome = .failed) (hl : res.leak = false) :
    ∃ fee, res.receipt = some { status := .error, fee, feeDelegation := tx.type = .feeDelegation, contract := rcv.id } ∧
      res.bp = bp + fee ∧
      res.w = chargeFeeNonce w (tx.type = .feeDelegation) snd.id rcv.id fee tx.nonce ∧
      fee ≤ (if (tx.type = .feeDelegation) ∧ snd.id ≠ rcv.id then w.bal rcv.id else w.bal snd.id) := by
  generalize ho : execute c w tx snd rcv isFD = o at h
  obtain ⟨ok, _⟩ := execute_spec ho
  unfold finishVm at h
  simp only [] at h
  split at h
  · subst h; simp at hf
  · rename_i herr
    -- either the VM left the world as it was, or the result is flagged / rejected
    have hso' : (if isFD then o.snd else o.snd.subBalance o.fee).old = w.acct (if isFD then o.snd else o.snd.subBalance o.fee).id := by
      cases isFD <;> simp [ok.sid, ok.sold, hso, (subBalance_facts _ _).1, (subBalance_facts _ _).2.1]
    have hro' : (if isFD then o.rcv.subBalance o.fee else o.rcv).old = w.acct (if isFD then o.rcv.subBalance o.fee else o.rcv).id := by
      cases isFD <;> simp [ok.rid, ok.rold, hro, (subBalance_facts _ _).1, (subBalance_facts _ _).2.1]
    have hsid : (if isFD then o.snd else o.snd.subBalance o.fee).id = snd.id := by
      cases isFD <;> simp [ok.sid, (subBalance_facts _ _).1]
    have hrid : (if isFD then o.rcv.subBalance o.fee else o.rcv).id = rcv.id := by
      cases isFD <;> simp [ok.rid, (subBalance_facts _ _).1]
    cases hlk : o.leak
    · have hw := ok.runtime herr hlk
      rw [hw, hlk] at h
      have := runtimeBranch_exact hso' hro' h hf
      rw [hsid, hrid] at this
      exact ⟨o.fee, this⟩
    · -- a flagged result cannot be `failed` with `leak = false`
      rw [hlk] at h
      subst h
      have := runtimeBranch_leak_true hf
      rw [this] at hl
      cases hl
  · subst h; simp [successBranch] at hf

theorem finishOwn_failed_exact_of {w : World} {bp : Nat} {tx : Tx} {acc : Copy} {o : ExecOut}
    {st : Status} {res : Result} (ho : acc.old = w.acct acc.id)
    (k1 : o.rcv.id = acc.id) (k2 : o.rcv.old = acc.old) (k4 : o.err = some .runtime → o.leak = false → o.w = w)
    (h : finishOwn w bp tx st o = res)
    (hf : res.outcome = .failed) (hl : res.leak = false) :
    ∃ fee, res.receipt = some { status := .error, fee, feeDelegation := tx.type = .feeDelegation, contract := acc.id } ∧
      res.bp = bp + fee ∧
      res.w = chargeFeeNonce w (tx.type = .feeDelegation) acc.id acc.id fee tx.nonce ∧
      fee ≤ (if (tx.type = .feeDelegation) ∧ acc.id ≠ acc.id then w.bal acc.id else w.bal acc.id) := by
  have sf := subBalance_facts o.rcv o.fee
  unfold finishOwn at h
  simp only [] at h
  split at h
  · subst h; simp at hf
  · rename_i herr
    have hid : (o.rcv.subBalance o.fee).id = acc.id := by rw [sf.1, k1]
    have hold : (o.rcv.subBalance o.fee).old = w.acct (o.rcv.subBalance o.fee).id := by rw [sf.2.1, hid, k2]; exact ho
    cases hlk : o.leak
    · have hw := k4 herr hlk
      rw [hw, hlk] at h
      have := runtimeBranch_exact hold hold h hf
      rw [hid] at this
      exact ⟨o.fee, this⟩
    · rw [hlk] at h
      subst h
      have := runtimeBranch_leak_true hf
      rw [this] at hl
      cases hl
  · subst h; simp [successBranch] at hf

theorem finishOwn_failed_exact {c : Ctx} {w : World} {bp : Nat} {tx : Tx} {acc : Copy} {isFD : Bool}
    {st : Status} {res : Result} (ho : acc.old = w.acct acc.id)
    (h : finishOwn w bp tx st (executeOwn c w tx acc isFD) = res)
    (hf : res.outcome = .failed) (hl : res.leak = false) :
    ∃ fee, res.receipt = some { status := .error, fee, feeDelegation := tx.type = .feeDelegation, contract := acc.id } ∧
      res.bp = bp + fee ∧
      res.w = chargeFeeNonce w (tx.type = .feeDelegation) acc.id acc.id fee tx.nonce ∧
      fee ≤ (if (tx.type = .feeDelegation) ∧ acc.id ≠ acc.id then w.bal acc.id else w.bal acc.id) := by
  obtain ⟨k1, k2, _, k4⟩ := executeOwn_spec (c := c) (w := w) (tx := tx) (acc := acc) (isFD := isFD) rfl
  exact finishOwn_failed_exact_of ho k1 k2 k4 h hf hl

/-- **A transaction that fails at run time changes exactly fee and nonce**: the whole world — every
account, every contract's storage, creator records, staking, votes, names — equals the world before
with the fee taken from the payer and the sender's nonce advanced; unless the result is flagged `leak`
(defect class `vm-fee-check-after-commit`). No hypothesis on the sender. -/
theorem executeTx_failed_exact {c : Ctx} {w : World} {bp : Nat} {tx : Tx} {res : Result}
    (h : executeTx c w bp tx = res) (hf : res.outcome = .failed) (hl : res.leak = false) :
    ∃ rc, res.receipt = some rc ∧ rc.status = .error ∧ res.bp = bp + rc.fee ∧
      res.w = chargeFeeNonce w (tx.type = .feeDelegation) tx.sender rc.contract rc.fee tx.nonce ∧
      rc.fee ≤ (if (tx.type = .feeDelegation) ∧ tx.sender ≠ rc.contract then w.bal rc.contract else w.bal tx.sender) := by
  unfold executeTx at h
  simp only [] at h
  split at h
  · subst h; simp at hf
  · split at h
    · subst h; simp at hf
    · have hso : (w.getCopy tx.sender).old = w.acct (w.getCopy tx.sender).id := by simp
      split at h
      · split at h
        · -- MULTICALL with a multicall script: `receiver = sender`
          have ok := executeMulti_ok (c := c) (w := w) (tx := tx) (acc := w.getCopy tx.sender) rfl
          obtain ⟨fee, q1, q2, q3, q4⟩ := finishOwn_failed_exact_of hso ok.rid ok.rold ok.runtime h hf hl
          simp only [getCopy_id] at q1 q3 q4
          exact ⟨_, q1, rfl, q2, q3, q4⟩
        · have := runtimeBranch_exact hso hso h hf
          simp only [getCopy_id] at this
          exact ⟨_, this.1, rfl, this.2.1, this.2.2.1, this.2.2.2⟩
      · split at h
        · subst h; simp at hf
        · rename_i rcv st hrcv
          obtain ⟨m1, m2, m3, m4⟩ := mkReceiver_spec hrcv
          split at h
          · split at h
            · subst h; simp at hf
            · subst h; simp [successBranch] at hf
          · split at h
            · subst h; simp at hf
            · split at h
              · subst h; simp at hf
              · split at h
                · subst h; simp at hf
                · split at h
                  · obtain ⟨fee, q1, q2, q3, q4⟩ := finishOwn_failed_exact hso h hf hl
                    simp only [getCopy_id] at q1 q3 q4
                    exact ⟨_, q1, rfl, q2, q3, q4⟩
                  · obtain ⟨fee, q1, q2, q3, q4⟩ := finishVm_failed_exact hso m2 h hf hl
                    simp only [getCopy_id] at q3 q4
                    exact ⟨_, q1, rfl, q2, q3, q4⟩
          · split at h
            · obtain ⟨fee, q1, q2, q3, q4⟩ := finishOwn_failed_exact hso h hf hl
              simp only [getCopy_id] at q1 q3 q4
              exact ⟨_, q1, rfl, q2, q3, q4⟩
            · obtain ⟨fee, q1, q2, q3, q4⟩ := finishVm_failed_exact hso m2 h hf hl
              simp only [getCopy_id] at q3 q4
              exact ⟨_, q1, rfl, q2, q3, q4⟩


/-! ### a successful plain transfer, without copies -/

/-- A TRANSFER between two different accounts whose receiver holds no code, if applied, is exactly:
sender − amount − base fee with the tx nonce, receiver + amount, `BpReward` + base fee. The two
`AccountState` copies and the `PutState` order have no other effect. -/
theorem transfer_effects {c : Ctx} {w : World} {bp : Nat} {tx : Tx} {r : Addr} {res : Result}
    (h : executeTx c w bp tx = res)
    (ht : tx.type = .transfer) (hr : tx.recipient = some r) (hne : tx.sender ≠ r)
    (hcode : (w.acct r).code = false) (hs : res.outcome = .success) :
    tx.amount + txBaseFee c tx.payloadLen ≤ w.bal tx.sender ∧
    res.w = (w.put tx.sender (({ w.acct tx.sender with bal := w.bal tx.sender - tx.amount - txBaseFee c tx.payloadLen } : Acct).setNonce tx.nonce)).put
              r { w.acct r with bal := w.bal r + tx.amount } ∧
    res.bp = bp + txBaseFee c tx.payloadLen := by
  unfold executeTx at h
  simp only [] at h
  split at h
  · subst h; simp at hs
  · split at h
    · subst h; simp at hs
    · rename_i hvs
      have hcov := validateSender_cov hvs (Or.inr (Or.inr (Or.inl ht)))
      simp only [getCopy_cur] at hcov
      have hmk : mkReceiver w tx = .ok (w.getCopy r, .success) := by
        simp [mkReceiver, hr, ht]
      rw [if_neg (by simp [ht]), hmk] at h
      have hrs : ¬ tx.recipient = some tx.sender := by
        rw [hr]; intro e; exact hne (Option.some.inj e).symm
      simp only [ht, hrs, decide_false, Bool.false_and, Bool.false_eq_true, if_false] at h
      -- Execute: the amount moves between the two records, no code: nothing is executed
      have hsend : sendBal (w.getCopy tx.sender) (w.getCopy r) tx.amount =
          some ((w.getCopy tx.sender).subBalance tx.amount, (w.getCopy r).addBalance tx.amount) := by
        have : ¬ (w.acct tx.sender).bal < tx.amount := Nat.not_lt.mpr hcov.1
        simp [sendBal, hne, this]
      have hex : execute c w tx (w.getCopy tx.sender) (w.getCopy r) false =
          { snd := (w.getCopy tx.sender).subBalance tx.amount, rcv := (w.getCopy r).addBalance tx.amount, w := w,
            fee := txBaseFee c tx.payloadLen, err := none } := by
        unfold execute
        simp only [hsend]
        have : checkExecution tx.type tx.amount tx.payloadLen c.version ((w.getCopy r).addBalance tx.amount).deploy
            ((w.getCopy r).addBalance tx.amount).cur.code = .skip := by
          simp [checkExecution, ht, Copy.addBalance, Copy.setBal, hcode]
        simp only [this]
      rw [hex] at h
      subst h
      have hb : (w.acct tx.sender).bal = w.bal tx.sender := rfl
      have hb2 : (w.acct r).bal = w.bal r := rfl
      have hfee : txBaseFee c tx.payloadLen ≤ (w.acct tx.sender).bal - tx.amount := hcov.2
      refine ⟨by omega, ?_, ?_⟩
      · simp only [finishVm, successBranch, Bool.false_eq_true, if_false, Copy.subBalance, Copy.addBalance, Copy.setBal,
          getCopy_id, getCopy_cur, ne_eq, hne, not_false_eq_true, if_true]
        simp [absSub, hcov.1, hfee, Acct.setNonce, World.bal]
      · simp [finishVm, successBranch]

/-! ### blocks: refusal, producer vs validator -/

/-- the transactions a producer keeps: those the executor does not reject at the state they meet -/
def keptTxs (c : Ctx) : BState → List Tx → List Tx
  | _, [] => []
  | s, tx :: txs =>
    match txExec c s tx with
    | (.rejected _, _) => keptTxs c s txs
    | (_, s') => tx :: keptTxs c s' txs

/-- the committed state after a block arrives: the block's result if it is accepted, the previous
state if it is refused -/
def applyBlock (w : World) (b : Block) : World :=
  match validateBlock w b with
  | some (w', _) => w'
  | none => w

theorem validateTxs_cons (c : Ctx) (s : BState) (tx : Tx) (txs : List Tx) :
    validateTxs c s (tx :: txs) =
      match txExec c s tx with
      | (.rejected _, _) => none
      | (_, s') => validateTxs c s' txs := rfl

theorem validate_kept (c : Ctx) (txs : List Tx) : ∀ s : BState,
    validateTxs c s (keptTxs c s txs) = some (produceTxs c s txs) := by
  induction txs with
  | nil => intro s; rfl
  | cons tx txs ih =>
    intro s
    unfold keptTxs produceTxs
    cases hx : txExec c s tx with
    | mk o s1 =>
      cases o with
      | rejected e =>
        have : (txExec c s tx).2 = s := txExec_rejected (e := e) (by rw [hx])
        rw [hx] at this
        simp only [] at this ⊢
        rw [this]
        exact ih s
      | success =>
        simp only []
        rw [validateTxs_cons, hx]
        exact ih s1
      | failed =>
        simp only []
        rw [validateTxs_cons, hx]
        exact ih s1

theorem validateTxs_none_iff (c : Ctx) (txs : List Tx) : ∀ s : BState,
    validateTxs c s txs = none ↔
      ∃ pre tx post s' e, txs = pre ++ tx :: post ∧ validateTxs c s pre = some s' ∧ (txExec c s' tx).1 = .rejected e := by
  induction txs with
  | nil =>
    intro s
    simp [validateTxs]
  | cons tx txs ih =>
    intro s
    rw [validateTxs_cons]
    cases hx : txExec c s tx with
    | mk o s1 =>
      cases o with
      | rejected e =>
        simp only []
        refine ⟨fun _ => ⟨[], tx, txs, s, e, rfl, rfl, by rw [hx]⟩, fun _ => trivial⟩
      | success =>
        simp only []
        rw [ih s1]
        constructor
        · rintro ⟨pre, t, post, s', e, h1, h2, h3⟩
          refine ⟨tx :: pre, t, post, s', e, by rw [h1]; rfl, ?_, h3⟩
          rw [validateTxs_cons, hx]; exact h2
        · rintro ⟨pre, t, post, s', e, h1, h2, h3⟩
          cases pre with
          | nil =>
            simp at h1
            obtain ⟨rfl, rfl⟩ := h1
            simp [validateTxs] at h2
            subst h2
            rw [hx] at h3
            cases h3
          | cons p pre =>
            simp at h1
            obtain ⟨rfl, rfl⟩ := h1
            rw [validateTxs_cons, hx] at h2
            exact ⟨pre, t, post, s', e, rfl, h2, h3⟩
      | failed =>
        simp only []
        rw [ih s1]
        constructor
        · rintro ⟨pre, t, post, s', e, h1, h2, h3⟩
          refine ⟨tx :: pre, t, post, s', e, by rw [h1]; rfl, ?_, h3⟩
          rw [validateTxs_cons, hx]; exact h2
        · rintro ⟨pre, t, post, s', e, h1, h2, h3⟩
          cases pre with
          | nil =>
            simp at h1
            obtain ⟨rfl, rfl⟩ := h1
            simp [validateTxs] at h2
            subst h2
            rw [hx] at h3
            cases h3
          | cons p pre =>
            simp at h1
            obtain ⟨rfl, rfl⟩ := h1
            rw [validateTxs_cons, hx] at h2
            exact ⟨pre, t, post, s', e, rfl, h2, h3⟩

end Aergo.Ledger
