import Aergo.Lemmas.LedgerTx

/-! Receipts, the tx executor, rewards and blocks of the `Ledger` model. -/

namespace Aergo.Ledger

/-- shape of every result of `executeTx`: a rejection carries the inputs back and no receipt; anything
else carries exactly one receipt whose fee is what `BpReward` grew by; ERROR status iff `failed`. -/
def Result.WellShaped (w : World) (bp : Nat) (r : Result) : Prop :=
  (∃ e, r.outcome = .rejected e ∧ r.w = w ∧ r.bp = bp ∧ r.receipt = none ∧ r.leak = false) ∨
  (∃ rc, r.receipt = some rc ∧ r.bp = bp + rc.fee ∧
    ((r.outcome = .success ∧ rc.status ≠ .error) ∨ (r.outcome = .failed ∧ rc.status = .error)))

theorem runtimeBranch_shape (w0 w : World) (bp : Nat) (tx : Tx) (snd rcv : Copy) (fee : Nat) (leak dirty : Bool) :
    (runtimeBranch w0 w bp tx snd rcv fee leak dirty).WellShaped w0 bp := by
  unfold runtimeBranch
  simp only []
  split
  · split
    · exact Or.inl ⟨_, rfl, rfl, rfl, rfl, rfl⟩
    · exact Or.inr ⟨_, rfl, rfl, Or.inr ⟨rfl, rfl⟩⟩
  · split
    · exact Or.inl ⟨_, rfl, rfl, rfl, rfl, rfl⟩
    · split
      · exact Or.inl ⟨_, rfl, rfl, rfl, rfl, rfl⟩
      · exact Or.inr ⟨_, rfl, rfl, Or.inr ⟨rfl, rfl⟩⟩

theorem successBranch_shape (w0 w : World) (bp : Nat) (tx : Tx) (snd rcv : Copy) (fee : Nat) (st : Status)
    (hst : st ≠ .error) : (successBranch w bp tx snd rcv fee st).WellShaped w0 bp :=
  Or.inr ⟨_, rfl, rfl, Or.inl ⟨rfl, hst⟩⟩

theorem finishVm_shape (w : World) (bp : Nat) (tx : Tx) (st : Status) (isFD : Bool) (o : ExecOut)
    (hst : st ≠ .error) : (finishVm w bp tx st isFD o).WellShaped w bp := by
  unfold finishVm
  simp only []
  split
  · exact Or.inl ⟨_, rfl, rfl, rfl, rfl, rfl⟩
  · exact runtimeBranch_shape _ _ _ _ _ _ _ _ _
  · exact successBranch_shape _ _ _ _ _ _ _ _ hst

theorem finishOwn_shape (w : World) (bp : Nat) (tx : Tx) (st : Status) (o : ExecOut)
    (hst : st ≠ .error) : (finishOwn w bp tx st o).WellShaped w bp := by
  unfold finishOwn
  simp only []
  split
  · exact Or.inl ⟨_, rfl, rfl, rfl, rfl, rfl⟩
  · exact runtimeBranch_shape _ _ _ _ _ _ _ _ _
  · exact successBranch_shape _ _ _ _ _ _ _ _ hst

theorem mkReceiver_status {w : World} {tx : Tx} {rcv : Copy} {st : Status} (h : mkReceiver w tx = .ok (rcv, st)) :
    st ≠ .error := by
  unfold mkReceiver at h
  split at h
  · simp only [] at h
    split at h <;> cases h <;> simp
  · simp only [] at h
    split at h
    · cases h
    · cases h; simp

theorem executeTx_shape (c : Ctx) (w : World) (bp : Nat) (tx : Tx) : (executeTx c w bp tx).WellShaped w bp := by
  unfold executeTx
  simp only []
  split
  · exact Or.inl ⟨_, rfl, rfl, rfl, rfl, rfl⟩
  · split
    · exact Or.inl ⟨_, rfl, rfl, rfl, rfl, rfl⟩
    · split
      · split
        · exact finishOwn_shape _ _ _ _ _ (by simp)
        · exact runtimeBranch_shape _ _ _ _ _ _ _ _ _
      · split
        · exact Or.inl ⟨_, rfl, rfl, rfl, rfl, rfl⟩
        · rename_i rcv st hrcv
          have hst := mkReceiver_status hrcv
          split
          · split
            · exact Or.inl ⟨_, rfl, rfl, rfl, rfl, rfl⟩
            · exact successBranch_shape _ _ _ _ _ _ _ _ hst
          · split
            · exact Or.inl ⟨_, rfl, rfl, rfl, rfl, rfl⟩
            · split
              · exact Or.inl ⟨_, rfl, rfl, rfl, rfl, rfl⟩
              · split
                · exact Or.inl ⟨_, rfl, rfl, rfl, rfl, rfl⟩
                · split
                  · exact finishOwn_shape _ _ _ _ _ hst
                  · exact finishVm_shape _ _ _ _ _ _ hst
          · split
            · exact finishOwn_shape _ _ _ _ _ hst
            · exact finishVm_shape _ _ _ _ _ _ hst


/-! ### the tx executor inside a block -/

/-- the conditions under which a transaction conserves the ledger (see `executeTx_total`) -/
def TxOK (c : Ctx) (s : BState) (tx : Tx) : Prop :=
  SenderOK s.w tx ∧ (executeTx c s.w s.bp tx).leak = false

/-- ... for every transaction of a list, each at the state it is executed on -/
def TxsOK (c : Ctx) : BState → List Tx → Prop
  | _, [] => True
  | s, tx :: txs => TxOK c s tx ∧ TxsOK c (txExec c s tx).2 txs

theorem sumFees_append (a b : List Receipt) : sumFees (a ++ b) = sumFees a + sumFees b := by
  induction a with
  | nil => simp [sumFees]
  | cons h t ih => simp [sumFees, ih]; omega

/-- block invariant: Σ balances + BpReward is what the block started with; BpReward = Σ receipt fees -/
def BState.Inv (total0 : Nat) (s : BState) : Prop :=
  s.w.total + s.bp = total0 ∧ s.bp = sumFees s.receipts

theorem txExec_rejected {c : Ctx} {s : BState} {tx : Tx} {e : Rej} (h : (txExec c s tx).1 = .rejected e) :
    (txExec c s tx).2 = s := by
  unfold txExec at h ⊢
  simp only [] at h ⊢
  cases ho : (executeTx c s.w s.bp tx).outcome <;> rw [ho] at h <;> simp at h ⊢

theorem txExec_inv {c : Ctx} {s : BState} {tx : Tx} {t0 : Nat} (hi : s.Inv t0) (hok : TxOK c s tx) :
    (txExec c s tx).2.Inv t0 := by
  obtain ⟨h1, h4⟩ := hok
  have htot := executeTx_total (c := c) (bp := s.bp) h1 h4
  have hsh := executeTx_shape c s.w s.bp tx
  unfold txExec
  simp only []
  split
  · exact hi
  · rename_i hno
    rcases hsh with ⟨e, he, _⟩ | ⟨rc, hr, hb, _⟩
    · exact absurd he (hno e)
    · refine ⟨?_, ?_⟩
      · simp only []; rw [htot]; exact hi.1
      · simp only [hr, hb, sumFees_append, Option.toList, sumFees]
        have := hi.2
        omega

theorem produceTxs_inv {c : Ctx} {txs : List Tx} : ∀ {s : BState} {t0 : Nat}, s.Inv t0 → TxsOK c s txs →
    (produceTxs c s txs).Inv t0 := by
  induction txs with
  | nil => intro s t0 hi _; exact hi
  | cons tx txs ih =>
    intro s t0 hi hok
    exact ih (txExec_inv hi hok.1) hok.2

theorem validateTxs_inv {c : Ctx} {txs : List Tx} : ∀ {s s' : BState} {t0 : Nat}, s.Inv t0 → TxsOK c s txs →
    validateTxs c s txs = some s' → s'.Inv t0 := by
  induction txs with
  | nil => intro s s' t0 hi _ h; simp [validateTxs] at h; subst h; exact hi
  | cons tx txs ih =>
    intro s s' t0 hi hok h
    unfold validateTxs at h
    have hi1 := txExec_inv hi hok.1
    have hok1 := hok.2
    generalize txExec c s tx = p at h hi1 hok1
    obtain ⟨o, s1⟩ := p
    cases o <;> simp only [] at h
    · exact ih hi1 hok1 h
    · exact ih hi1 hok1 h
    · cases h

/-! ### rewards -/

theorem votingReward_total (w : World) (winner : Option Addr) (amt : Nat) :
    (votingReward w winner amt).total = w.total := by
  unfold votingReward
  simp only []
  split
  · rfl
  · split
    · rfl
    · rename_i wn
      split
      · rfl
      · rename_i v wc' hs
        have q := sendBal_spec hs
        obtain ⟨q1, q2, q3, q4, q5, q6, q7, q8, q9, q10, q11, q12, q13, q14, q15, q16, q17⟩ := q
        simp at q1 q2 q15 q16 q17
        by_cases hv : aVault = wn
        · subst hv
          obtain ⟨rfl, rfl⟩ := q16 rfl
          have h1 := total_put w aVault (w.getCopy aVault).cur
          have h2 := total_put (w.put aVault (w.getCopy aVault).cur) aVault (w.getCopy aVault).cur
          simp [World.bal] at h1 h2 ⊢
          omega
        · have hne : wn ≠ aVault := fun e => hv e.symm
          have h2 := put2_total w wc'.cur v.cur hne
          have : (w.acct aVault).bal = w.bal aVault := rfl
          have : (w.acct wn).bal = w.bal wn := rfl
          omega

theorem coinbaseReward_total (w : World) (bp : Nat) (cb : Option Addr) :
    (coinbaseReward w bp cb).total = w.total + (if cb.isSome then bp else 0) := by
  unfold coinbaseReward
  split
  · simp
  · rename_i a
    split
    · rename_i h0; simp [h0]
    · have h1 := total_put w a { (w.getCopy a).cur with bal := (w.getCopy a).cur.bal + bp }
      simp [World.bal] at h1 ⊢
      omega

theorem payRewards_total (c : Ctx) (s : BState) (rw : Reward) :
    (payRewards c s rw).total = s.w.total + (if c.coinbase.isSome then s.bp else 0) := by
  unfold payRewards
  rw [coinbaseReward_total, votingReward_total]

theorem beginBlock_total (w : World) : w.beginBlock.total = w.total := rfl

end Aergo.Ledger
