import Aergo.Lemmas.LedgerAtomic

/-! # "Succeeds ⇒ all of its effects are applied" (C03, first outcome), for every transaction type

For each type of transaction the model covers, the world after a *successful* `executeTx` equals an
independent, copy-free specification of the intended effects — written with the world before, the fields of
the transaction and record updates only (no `Copy`, no `sendBal`, no `PutState` order of two records of one
account). The order of the record writes in a specification is the code's; it matters only for the position
of a record that is created by the transaction. Hypotheses name the shape (type, recipient, operation, sender
≠ the system account addressed); every theorem also returns the preconditions success implies.

* plain payments ........ `plain_send_effects` (NORMAL/TRANSFER/CALL to an account without code), `self_send_effects`
* staking ............... `stake_effects`, `unstake_effects`, `vote_effects`
* names ................. `nameCreate_effects`, `nameUpdate_effects`, `setOwner_effects`
* VM transactions ....... `vm_effects` (call of a contract, DEPLOY, REDEPLOY, FEEDELEGATION) over `vmWorld`;
                          `own_vm_effects` (a contract account's tx to itself, `receiver = sender`) over `ownVmWorld`
* MULTICALL ............. `multicall_effects` over `multiWorld` (a payload that is a multicall script),
                          `multicall_not_applied` (any other payload: the stub VM finds no code) -/

namespace Aergo.Ledger


theorem runtimeBranch_not_success (w0 w : World) (bp : Nat) (tx : Tx) (snd rcv : Copy) (fee : Nat) (leak dirty : Bool) :
    (runtimeBranch w0 w bp tx snd rcv fee leak dirty).outcome ≠ .success := by
  unfold runtimeBranch
  simp only []
  split
  · split <;> simp
  · split
    · simp
    · split <;> simp

theorem finishVm_success_err {w : World} {bp : Nat} {tx : Tx} {st : Status} {isFD : Bool} {o : ExecOut}
    (hs : (finishVm w bp tx st isFD o).outcome = .success) : o.err = none := by
  unfold finishVm at hs
  simp only [] at hs
  split at hs
  · simp at hs
  · exact absurd hs (runtimeBranch_not_success _ _ _ _ _ _ _ _ _)
  · rename_i he; exact he

/-- `contract.Execute` on a receiver that neither holds code nor is being deployed, without an error:
nothing is executed, the amount has moved between the two records, the fee is the base fee -/
theorem execute_plain {c : Ctx} {w : World} {tx : Tx} {snd rcv : Copy} {isFD : Bool} {o : ExecOut}
    (h : execute c w tx snd rcv isFD = o) (he : o.err = none) (hne : snd.id ≠ rcv.id)
    (hd : rcv.deploy = false) (hc : rcv.cur.code = false) :
    tx.amount ≤ snd.cur.bal ∧
    o = { snd := snd.subBalance tx.amount, rcv := rcv.addBalance tx.amount, w := w, fee := txBaseFee c tx.payloadLen, err := none } := by
  unfold execute at h
  simp only [] at h
  have hsb : sendBal snd rcv tx.amount =
      if snd.cur.bal < tx.amount then none else some (snd.subBalance tx.amount, rcv.addBalance tx.amount) := by
    simp [sendBal, hne]
  rw [hsb] at h
  by_cases hlt : snd.cur.bal < tx.amount
  · simp only [hlt, if_true] at h
    subst h; simp at he
  · simp only [hlt, if_false] at h
    have hle : tx.amount ≤ snd.cur.bal := Nat.le_of_not_lt hlt
    split at h
    · subst h; simp at he
    · subst h; exact ⟨hle, rfl⟩
    · split at h
      · subst h; simp at he
      · split at h
        · subst h; simp at he
        · split at h
          · subst h; simp at he
          · -- the VM finds neither a deploy flag nor code
            unfold vmCall at h
            have e1 : (rcv.addBalance tx.amount).deploy = false := hd
            have e2 : (rcv.addBalance tx.amount).cur.code = false := hc
            simp only [e1, e2, Bool.false_eq_true, if_false] at h
            subst h; simp at he

/-- **A plain payment, if applied, is applied exactly**: a NORMAL / TRANSFER / CALL transaction to another
account that holds no code: sender − amount − base fee with the tx nonce, receiver + amount, `BpReward` +
base fee, as a world equality. -/
theorem plain_send_effects {c : Ctx} {w : World} {bp : Nat} {tx : Tx} {r : Addr} {res : Result}
    (h : executeTx c w bp tx = res)
    (ht : tx.type = .transfer ∨ tx.type = .normal ∨ tx.type = .call) (hr : tx.recipient = some r) (hne : tx.sender ≠ r)
    (hcode : (w.acct r).code = false) (hs : res.outcome = .success) :
    tx.amount + txBaseFee c tx.payloadLen ≤ w.bal tx.sender ∧
    res.w = (w.put tx.sender (({ w.acct tx.sender with bal := w.bal tx.sender - tx.amount - txBaseFee c tx.payloadLen } : Acct).setNonce tx.nonce)).put
              r { w.acct r with bal := w.bal r + tx.amount } ∧
    res.bp = bp + txBaseFee c tx.payloadLen := by
  have hty : tx.type = .normal ∨ tx.type = .redeploy ∨ tx.type = .transfer ∨ tx.type = .call ∨ tx.type = .deploy := by
    rcases ht with e | e | e <;> simp [e]
  have hnr : tx.type ≠ .redeploy := by rcases ht with e | e | e <;> simp [e]
  unfold executeTx at h
  simp only [] at h
  split at h
  · subst h; simp at hs
  · split at h
    · subst h; simp at hs
    · rename_i hvs
      have hcov := validateSender_cov hvs hty
      simp only [getCopy_cur] at hcov
      have hmk : mkReceiver w tx = .ok (w.getCopy r, .success) := by
        simp [mkReceiver, hr, hnr]
      rw [if_neg (by rcases ht with e | e | e <;> simp [e]), hmk] at h
      have hrs : ¬ tx.recipient = some tx.sender := by
        rw [hr]; intro e; exact hne (Option.some.inj e).symm
      have hfin : finishVm w bp tx .success false (execute c w tx (w.getCopy tx.sender) (w.getCopy r) false) = res := by
        rcases ht with e | e | e <;> simpa [e, hrs] using h
      have herr := finishVm_success_err (hfin ▸ hs)
      obtain ⟨_, hex⟩ := execute_plain (c := c) (w := w) (tx := tx) (isFD := false) rfl herr (by simpa using hne)
        (by simp) (by simpa using hcode)
      rw [hex] at hfin
      subst hfin
      have hfee : txBaseFee c tx.payloadLen ≤ (w.acct tx.sender).bal - tx.amount := hcov.2
      have hb : (w.acct tx.sender).bal = w.bal tx.sender := rfl
      refine ⟨by omega, ?_, by simp [finishVm, successBranch]⟩
      simp only [finishVm, successBranch, Bool.false_eq_true, if_false, Copy.subBalance, Copy.addBalance, Copy.setBal,
        getCopy_id, getCopy_cur, ne_eq, hne, not_false_eq_true, if_true]
      simp [absSub, hcov.1, hfee, Acct.setNonce, World.bal]

theorem finishOwn_success_err {w : World} {bp : Nat} {tx : Tx} {st : Status} {o : ExecOut}
    (hs : (finishOwn w bp tx st o).outcome = .success) : o.err = none := by
  unfold finishOwn at hs
  simp only [] at hs
  split at hs
  · simp at hs
  · exact absurd hs (runtimeBranch_not_success _ _ _ _ _ _ _ _ _)
  · rename_i he; exact he

/-- `executeOwn` on a record without code, without an error: nothing is executed, the fee is the base fee -/
theorem executeOwn_plain {c : Ctx} {w : World} {tx : Tx} {acc : Copy} {isFD : Bool} {o : ExecOut}
    (h : executeOwn c w tx acc isFD = o) (he : o.err = none) (hd : acc.deploy = false) (hc : acc.cur.code = false) :
    o = { snd := acc, rcv := acc, w := w, fee := txBaseFee c tx.payloadLen, err := none } := by
  unfold executeOwn at h
  simp only [] at h
  split at h
  · subst h; simp at he
  · subst h; rfl
  · split at h
    · subst h; simp at he
    · unfold vmCall at h
      simp only [hd, hc, Bool.false_eq_true, if_false] at h
      subst h; simp at he

/-- **A payment to oneself, if applied, costs the base fee and the nonce**: NORMAL / TRANSFER / CALL whose
recipient is the sender (a key account: no code): `receiver = sender`, nothing but fee and nonce changes. -/
theorem self_send_effects {c : Ctx} {w : World} {bp : Nat} {tx : Tx} {res : Result}
    (h : executeTx c w bp tx = res)
    (ht : tx.type = .transfer ∨ tx.type = .normal ∨ tx.type = .call) (hr : tx.recipient = some tx.sender)
    (hcode : (w.acct tx.sender).code = false) (hs : res.outcome = .success) :
    tx.amount + txBaseFee c tx.payloadLen ≤ w.bal tx.sender ∧
    res.w = w.put tx.sender (({ w.acct tx.sender with bal := w.bal tx.sender - txBaseFee c tx.payloadLen } : Acct).setNonce tx.nonce) ∧
    res.bp = bp + txBaseFee c tx.payloadLen := by
  have hty : tx.type = .normal ∨ tx.type = .redeploy ∨ tx.type = .transfer ∨ tx.type = .call ∨ tx.type = .deploy := by
    rcases ht with e | e | e <;> simp [e]
  have hnr : tx.type ≠ .redeploy := by rcases ht with e | e | e <;> simp [e]
  unfold executeTx at h
  simp only [] at h
  split at h
  · subst h; simp at hs
  · split at h
    · subst h; simp at hs
    · rename_i hvs
      have hcov := validateSender_cov hvs hty
      simp only [getCopy_cur] at hcov
      have hmk : mkReceiver w tx = .ok (w.getCopy tx.sender, .success) := by
        simp [mkReceiver, hr, hnr]
      rw [if_neg (by rcases ht with e | e | e <;> simp [e]), hmk] at h
      have hfin : finishOwn w bp tx .success (executeOwn c w tx (w.getCopy tx.sender) false) = res := by
        rcases ht with e | e | e <;> simpa [e, hr] using h
      have herr := finishOwn_success_err (hfin ▸ hs)
      clear h
      have hex := executeOwn_plain (c := c) (w := w) (tx := tx) (acc := w.getCopy tx.sender) (isFD := false) rfl herr
        (by simp) (by simp [hcode])
      have hfee : txBaseFee c tx.payloadLen ≤ (w.acct tx.sender).bal := by omega
      have hb : (w.acct tx.sender).bal = w.bal tx.sender := rfl
      rw [hex] at hfin
      subst hfin
      refine ⟨by omega, ?_, ?_⟩
      · simp only [finishOwn, successBranch, Copy.subBalance, Copy.setBal, getCopy_id, getCopy_cur, ne_eq,
          not_true_eq_false, if_false]
        simp [absSub, hfee, Acct.setNonce, World.bal]
      · simp [finishOwn, successBranch]

/-- a MULTICALL transaction whose payload is no multicall script is never applied by the stub VM (no code): it
fails at run time or is rejected -/
theorem multicall_not_applied {c : Ctx} {w : World} {bp : Nat} {tx : Tx} (ht : tx.type = .multicall)
    (hm : tx.script.multi = false) : (executeTx c w bp tx).outcome ≠ .success := by
  unfold executeTx
  simp only []
  split
  · simp
  · split
    · simp
    · rw [if_pos ht, if_neg (by simp [hm])]
      exact runtimeBranch_not_success _ _ _ _ _ _ _ _ _

/-! ### staking -/


/-- what `a` has staked (0 without a staking record) -/
def staked (w : World) (a : Addr) : Nat := ((mget w.staking a).map (·.1)).getD 0

/-- intended effects of `v1stake`, without account copies -/
def stakeEffects (c : Ctx) (w : World) (tx : Tx) : World :=
  (({ w with staking := mset w.staking tx.sender (staked w tx.sender + tx.amount, c.blockNo)
             stakeTotal := w.stakeTotal + tx.amount } : World).put tx.sender
      (({ w.acct tx.sender with bal := w.bal tx.sender - tx.amount } : Acct).setNonce tx.nonce)).put aSystem
      { w.acct aSystem with bal := w.bal aSystem + tx.amount }

theorem mkReceiver_some {w : World} {tx : Tx} {r : Addr} (hr : tx.recipient = some r) (ht : tx.type ≠ .redeploy) :
    mkReceiver w tx = .ok (w.getCopy r, .success) := by
  simp [mkReceiver, hr, ht]

theorem stake_effects {c : Ctx} {w : World} {bp : Nat} {tx : Tx} {res : Result}
    (h : executeTx c w bp tx = res) (ht : tx.type = .governance) (hr : tx.recipient = some aSystem)
    (hg : tx.gov = .stake) (hne : tx.sender ≠ aSystem) (hs : res.outcome = .success) :
    tx.amount ≤ w.bal tx.sender ∧ c.stakingMin ≤ staked w tx.sender + tx.amount ∧
    res.w = stakeEffects c w tx ∧ res.bp = bp := by
  have hr' : tx.recipient = some 0 := hr
  unfold executeTx at h
  simp only [] at h
  split at h
  · subst h; simp at hs
  · split at h
    · subst h; simp at hs
    · rw [if_neg (by simp [ht]), mkReceiver_some hr' (by simp [ht])] at h
      simp only [ht, hr'] at h
      split at h
      · subst h; simp at hs
      · rename_i herr
        subst h
        unfold execSystem at herr ⊢
        simp only [hg] at herr ⊢
        split at herr
        · simp at herr
        · rename_i h1
          split at herr
          · simp at herr
          · rename_i h2
            split at herr
            · simp at herr
            · rename_i h3
              have hle : tx.amount ≤ (w.acct tx.sender).bal := by simpa using h1
              have hsend : sendBal (w.getCopy tx.sender) (w.getCopy 0) tx.amount =
                  some ((w.getCopy tx.sender).subBalance tx.amount, (w.getCopy 0).addBalance tx.amount) := by
                have : ¬ (w.acct tx.sender).bal < tx.amount := Nat.not_lt.mpr hle
                have hne0 : tx.sender ≠ 0 := hne
                simp [sendBal, hne0, this]
              simp only [hsend, if_neg h1, if_neg h2, if_neg h3] at herr ⊢
              have hne0 : tx.sender ≠ 0 := hne
              refine ⟨hle, by simpa [staked] using Nat.le_of_not_lt h3, ?_, by simp [successBranch]⟩
              simp [successBranch, stakeEffects, staked, hne0, aSystem, Copy.subBalance, Copy.addBalance, Copy.setBal,
                absSub, hle, World.bal, Acct.setNonce]

/-- intended effects of `v1unstake` -/
def unstakeEffects (c : Ctx) (w : World) (tx : Tx) : World :=
  (({ w with staking := mset w.staking tx.sender (staked w tx.sender - tx.amount, c.blockNo)
             stakeTotal := w.stakeTotal - tx.amount } : World).put tx.sender
      (({ w.acct tx.sender with bal := w.bal tx.sender + tx.amount } : Acct).setNonce tx.nonce)).put aSystem
      { w.acct aSystem with bal := w.bal aSystem - tx.amount }

theorem unstake_effects {c : Ctx} {w : World} {bp : Nat} {tx : Tx} {res : Result}
    (h : executeTx c w bp tx = res) (ht : tx.type = .governance) (hr : tx.recipient = some aSystem)
    (hg : tx.gov = .unstake) (hne : tx.sender ≠ aSystem) (htot : tx.amount ≤ w.stakeTotal)
    (hs : res.outcome = .success) :
    tx.amount ≤ staked w tx.sender ∧ tx.amount ≤ w.bal aSystem ∧
    (staked w tx.sender - tx.amount = 0 ∨ c.stakingMin ≤ staked w tx.sender - tx.amount) ∧
    res.w = unstakeEffects c w tx ∧ res.bp = bp := by
  have hr' : tx.recipient = some 0 := hr
  have hne0 : tx.sender ≠ 0 := hne
  unfold executeTx at h
  simp only [] at h
  split at h
  · subst h; simp at hs
  · split at h
    · subst h; simp at hs
    · rw [if_neg (by simp [ht]), mkReceiver_some hr' (by simp [ht])] at h
      simp only [ht, hr'] at h
      split at h
      · subst h; simp at hs
      · rename_i herr
        subst h
        unfold execSystem at herr ⊢
        simp only [hg] at herr ⊢
        split at herr
        · simp at herr
        · rename_i h1
          split at herr
          · simp at herr
          · rename_i h2
            split at herr
            · simp at herr
            · rename_i h3
              split at herr
              · simp at herr
              · rename_i h4
                split at herr
                · simp at herr
                · rename_i r1 s1 hsend
                  simp only [if_neg h1, if_neg h2, if_neg h3, if_neg h4] at herr ⊢
                  unfold sendBal at hsend
                  simp only [getCopy_id] at hsend
                  rw [if_neg (Ne.symm hne0)] at hsend
                  split at hsend
                  · cases hsend
                  · rename_i h5
                    cases hsend
                    have hle : tx.amount ≤ (w.acct 0).bal := by simpa using h5
                    have h2' : tx.amount ≤ staked w tx.sender := by simpa [staked] using h2
                    refine ⟨h2', hle, ?_, ?_, by simp [successBranch]⟩
                    · simp only [getCopy_id] at h4
                      by_cases hz : staked w tx.sender - tx.amount = 0
                      · exact Or.inl hz
                      · right
                        have : ¬ (c.stakingMin > staked w tx.sender - tx.amount) := fun hgt => h4 ⟨hz, hgt⟩
                        exact Nat.le_of_not_lt this
                    · simp [successBranch, unstakeEffects, staked, hne0, aSystem, Copy.subBalance, Copy.addBalance,
                        Copy.setBal, absSub, hle, htot, World.bal, Acct.setNonce]
/-- intended effects of `v1voteBP` as far as the ledger model goes: the staking record's time stamp, the
vote flag, the nonce (aergo.system's record is written back unchanged) -/
def voteEffects (c : Ctx) (w : World) (tx : Tx) : World :=
  (({ w with staking := mset w.staking tx.sender (staked w tx.sender, c.blockNo)
             voted := if w.voted.contains tx.sender then w.voted else tx.sender :: w.voted } : World).put tx.sender
      ((w.acct tx.sender).setNonce tx.nonce)).put aSystem (w.acct aSystem)

theorem vote_effects {c : Ctx} {w : World} {bp : Nat} {tx : Tx} {res : Result}
    (h : executeTx c w bp tx = res) (ht : tx.type = .governance) (hr : tx.recipient = some aSystem)
    (hg : tx.gov = .voteBP) (hne : tx.sender ≠ aSystem) (hs : res.outcome = .success) :
    0 < staked w tx.sender ∧ res.w = voteEffects c w tx ∧ res.bp = bp := by
  have hr' : tx.recipient = some 0 := hr
  have hne0 : tx.sender ≠ 0 := hne
  unfold executeTx at h
  simp only [] at h
  split at h
  · subst h; simp at hs
  · split at h
    · subst h; simp at hs
    · rw [if_neg (by simp [ht]), mkReceiver_some hr' (by simp [ht])] at h
      simp only [ht, hr'] at h
      split at h
      · subst h; simp at hs
      · rename_i herr
        subst h
        unfold execSystem at herr ⊢
        simp only [hg] at herr ⊢
        split at herr
        · simp at herr
        · rename_i h1
          split at herr
          · simp at herr
          · rename_i h2
            simp only [if_neg h1, if_neg h2] at herr ⊢
            refine ⟨by simp only [getCopy_id] at h1; exact Nat.pos_of_ne_zero (by simpa [staked] using h1), ?_, by simp [successBranch]⟩
            simp [successBranch, voteEffects, staked, hne0, aSystem]

/-! ### names -/


theorem mset_mset_same {α : Type} (m : AMap α) (k : Nat) (x y : α) : mset (mset m k x) k y = mset m k y := by
  induction m with
  | nil => simp [mset]
  | cons h t ih =>
    obtain ⟨k', v'⟩ := h
    by_cases hk : k' = k <;> simp [mset, hk, ih]

@[simp] theorem put_put_same (w : World) (a : Addr) (x y : Acct) : (w.put a x).put a y = w.put a y := by
  simp [World.put, mset_mset_same]

/-- who receives the price of a name: the owner of the name contract if one is set, else aergo.name -/
def nameBeneficiary (w : World) : Addr := (w.ownerOf nAergoName).getD aName

/-- intended effects of paying `amt` for a name operation on the world `w1` (the name table already
updated): the beneficiary gains, the sender loses and gets the tx nonce, aergo.name's record is written
back; a sender who owns the name contract pays nothing (the price would go to itself) -/
def payNameEffects (w1 : World) (b s : Addr) (amt nonce : Nat) : World :=
  if b = s then (w1.put s ((w1.acct s).setNonce nonce)).put aName (w1.acct aName)
  else
    let w2 := w1.put b { w1.acct b with bal := w1.bal b + amt }
    (w2.put s (({ w1.acct s with bal := w1.bal s - amt } : Acct).setNonce nonce)).put aName (w2.acct aName)

theorem payName_effects {w w1 : World} {s : Addr} {amt bp : Nat} {tx : Tx} {st : Status}
    (ha : w1.accts = w.accts) (hne : s ≠ aName) (hle : amt ≤ w.bal s) :
    ∃ s' r' w', payName (nameRef w (w.getCopy s) (w.getCopy aName)) (w.getCopy s) (w.getCopy aName) amt w1 = some (s', r', w') ∧
      (successBranch w' bp tx s' r' 0 st).w = payNameEffects w1 (nameBeneficiary w) s amt tx.nonce := by
  have hacc : ∀ a, w1.acct a = w.acct a := acct_of_accts ha
  have hbal : ∀ a, w1.bal a = w.bal a := bal_of_accts ha
  have hnlt : ¬ (w.acct s).bal < amt := Nat.not_lt.mpr hle
  have hne1 : s ≠ 1 := hne
  have hle' : amt ≤ (w.acct s).bal := hle
  unfold nameRef nameBeneficiary
  cases ho : w.ownerOf nAergoName with
  | none =>
    simp only [payName, Option.getD_none, getCopy_id]
    have : sendBal (w.getCopy s) (w.getCopy aName) amt = some ((w.getCopy s).subBalance amt, (w.getCopy aName).addBalance amt) := by
      simp [sendBal, hne, hnlt]
    rw [this]
    refine ⟨_, _, _, rfl, ?_⟩
    have hb : ¬ (aName = s) := fun e => hne e.symm
    simp [successBranch, payNameEffects, hb, hne, Copy.subBalance, Copy.addBalance, Copy.setBal, absSub, hle', hacc, hbal,
      World.bal, acct_put_other _ _ _ _ hb]
  | some o =>
    simp only [Option.getD_some, getCopy_id]
    by_cases h1 : s = o
    · subst h1
      simp only [if_true, payName]
      refine ⟨_, _, _, rfl, ?_⟩
      simp [successBranch, payNameEffects, hne, hacc]
    · rw [if_neg h1]
      by_cases h2 : aName = o
      · subst h2
        simp only [if_true, payName]
        have : sendBal (w.getCopy s) (w.getCopy aName) amt = some ((w.getCopy s).subBalance amt, (w.getCopy aName).addBalance amt) := by
          simp [sendBal, hne, hnlt]
        rw [this]
        refine ⟨_, _, _, rfl, ?_⟩
        have hb : ¬ (aName = s) := fun e => hne e.symm
        simp [successBranch, payNameEffects, hb, hne, Copy.subBalance, Copy.addBalance, Copy.setBal, absSub, hle', hacc, hbal,
          World.bal, acct_put_other _ _ _ _ hb]
      · rw [if_neg h2]
        simp only [payName]
        have : sendBal (w.getCopy s) (w.getCopy o) amt = some ((w.getCopy s).subBalance amt, (w.getCopy o).addBalance amt) := by
          simp [sendBal, h1, hnlt]
        rw [this]
        refine ⟨_, _, _, rfl, ?_⟩
        have hb : ¬ (o = s) := fun e => h1 e.symm
        have hb2 : o ≠ aName := fun e => h2 e.symm
        simp [successBranch, payNameEffects, hb, hne, Copy.subBalance, Copy.addBalance, Copy.setBal, absSub, hle', hacc, hbal,
          World.bal, acct_put_other _ _ _ _ hb2]

/-- `v1createName n`, if applied: the name is recorded for the sender, the price is paid -/
theorem nameCreate_effects {c : Ctx} {w : World} {bp : Nat} {tx : Tx} {res : Result} {n : Nat}
    (h : executeTx c w bp tx = res) (ht : tx.type = .governance) (hr : tx.recipient = some aName)
    (hg : tx.gov = .nameCreate n) (hne : tx.sender ≠ aName) (hs : res.outcome = .success) :
    c.namePrice ≤ tx.amount ∧ tx.amount ≤ w.bal tx.sender ∧ w.ownerOf n = none ∧
    res.w = payNameEffects { w with names := mset w.names n (tx.sender, tx.sender) } (nameBeneficiary w) tx.sender tx.amount tx.nonce ∧
    res.bp = bp := by
  have hr' : tx.recipient = some 1 := hr
  unfold executeTx at h
  simp only [] at h
  split at h
  · subst h; simp at hs
  · split at h
    · subst h; simp at hs
    · rw [if_neg (by simp [ht]), mkReceiver_some hr' (by simp [ht])] at h
      simp only [ht, hr'] at h
      split at h
      · subst h; simp at hs
      · rename_i herr
        subst h
        unfold execName at herr ⊢
        simp only [hg, validateName] at herr ⊢
        split at herr
        · simp at herr
        · rename_i h1
          have hle : tx.amount ≤ w.bal tx.sender := by simpa [World.bal] using h1
          split at herr
          · simp at herr
          · rename_i hv
            have hp : c.namePrice ≤ tx.amount := by
              by_cases hq : c.namePrice > tx.amount
              · simp [hq] at hv
              · exact Nat.le_of_not_lt hq
            have hown : w.ownerOf n = none := by
              by_cases hq : c.namePrice > tx.amount
              · simp [hq] at hv
              · simp only [hq, if_false] at hv
                cases hoo : w.ownerOf n with
                | none => rfl
                | some o => simp [hoo] at hv
            obtain ⟨s', r', w', hpay, heff⟩ := payName_effects (w := w) (w1 := { w with names := mset w.names n (tx.sender, tx.sender) })
              (bp := bp) (tx := tx) (st := .success) rfl hne hle
            have hpay' : payName (nameRef w (w.getCopy tx.sender) (w.getCopy 1)) (w.getCopy tx.sender) (w.getCopy 1) tx.amount
                { w with names := mset w.names n ((w.getCopy tx.sender).id, (w.getCopy tx.sender).id) } = some (s', r', w') := by
              simpa [aName] using hpay
            simp only [if_neg h1, hv, hpay'] at herr ⊢
            exact ⟨hp, hle, hown, heff, by simp [successBranch]⟩
/-- `v1updateName n to`, if applied: the name now points to `to` (owned by `to`'s creator if `to` is a
contract), the price is paid; the sender owned the name and the name was visible in the last committed
block -/
theorem nameUpdate_effects {c : Ctx} {w : World} {bp : Nat} {tx : Tx} {res : Result} {n : Nat} {to : Addr}
    (h : executeTx c w bp tx = res) (ht : tx.type = .governance) (hr : tx.recipient = some aName)
    (hg : tx.gov = .nameUpdate n to) (hne : tx.sender ≠ aName) (hs : res.outcome = .success) :
    c.namePrice ≤ tx.amount ∧ tx.amount ≤ w.bal tx.sender ∧
    (tx.acctName = some n ∨ (tx.acctName = none ∧ w.ownerOf n = some tx.sender)) ∧ (mget w.namesInit n).isSome ∧
    res.w = payNameEffects { w with names := mset w.names n ((mget w.creator to).getD to, to) } (nameBeneficiary w)
      tx.sender tx.amount tx.nonce ∧
    res.bp = bp := by
  have hr' : tx.recipient = some 1 := hr
  unfold executeTx at h
  simp only [] at h
  split at h
  · subst h; simp at hs
  · split at h
    · subst h; simp at hs
    · rw [if_neg (by simp [ht]), mkReceiver_some hr' (by simp [ht])] at h
      simp only [ht, hr'] at h
      split at h
      · subst h; simp at hs
      · rename_i herr
        subst h
        unfold execName at herr ⊢
        simp only [hg, validateName] at herr ⊢
        split at herr
        · simp at herr
        · rename_i h1
          have hle : tx.amount ≤ w.bal tx.sender := by simpa [World.bal] using h1
          split at herr
          · simp at herr
          · rename_i hv
            have hp : c.namePrice ≤ tx.amount := by
              by_cases hq : c.namePrice > tx.amount
              · simp [hq] at hv
              · exact Nat.le_of_not_lt hq
            have hown : tx.acctName = some n ∨ (tx.acctName = none ∧ w.ownerOf n = some tx.sender) := by
              by_cases hq : c.namePrice > tx.amount
              · simp [hq] at hv
              · simp only [hq, if_false, getCopy_id] at hv
                by_cases ha : tx.acctName = some n
                · exact Or.inl ha
                · by_cases hoo : tx.acctName = none ∧ w.ownerOf n = some tx.sender
                  · exact Or.inr hoo
                  · simp [ha, hoo] at hv
            split at herr
            · simp at herr
            · rename_i hinit
              obtain ⟨s', r', w', hpay, heff⟩ := payName_effects (w := w)
                (w1 := { w with names := mset w.names n ((mget w.creator to).getD to, to) })
                (bp := bp) (tx := tx) (st := .success) rfl hne hle
              have hpay' : payName (nameRef w (w.getCopy tx.sender) (w.getCopy 1)) (w.getCopy tx.sender) (w.getCopy 1) tx.amount
                  { w with names := mset w.names n ((mget w.creator to).getD to, to) } = some (s', r', w') := by
                simpa [aName] using hpay
              simp only [if_neg h1, hv, if_neg hinit, hpay'] at herr ⊢
              exact ⟨hp, hle, hown, by cases hm : mget w.namesInit n <;> simp_all, heff, by simp [successBranch]⟩

/-- intended effects of `v1setOwner a`: `a` becomes the owner of the name contract and receives everything
aergo.name holds (nothing moves if `a` is aergo.name itself); the sender gets the tx nonce -/
def setOwnerEffects (w : World) (s a : Addr) (nonce : Nat) : World :=
  let w1 : World := { w with names := mset w.names nAergoName (a, aName) }
  let w2 := if a = aName then w1.put aName (w1.acct aName)
            else (w1.put a { w1.acct a with bal := w1.bal a + w1.bal aName }).put aName { w1.acct aName with bal := 0 }
  (w2.put s ((w2.acct s).setNonce nonce)).put aName (w2.acct aName)

theorem setOwner_effects {c : Ctx} {w : World} {bp : Nat} {tx : Tx} {res : Result} {a : Addr}
    (h : executeTx c w bp tx = res) (ht : tx.type = .governance) (hr : tx.recipient = some aName)
    (hg : tx.gov = .setOwner a) (hne : tx.sender ≠ aName) (hs : res.outcome = .success) :
    w.ownerOf nAergoName = none ∧ res.w = setOwnerEffects w tx.sender a tx.nonce ∧ res.bp = bp := by
  have hr' : tx.recipient = some 1 := hr
  have hne1 : tx.sender ≠ 1 := hne
  unfold executeTx at h
  simp only [] at h
  split at h
  · subst h; simp at hs
  · split at h
    · subst h; simp at hs
    · rw [if_neg (by simp [ht]), mkReceiver_some hr' (by simp [ht])] at h
      simp only [ht, hr'] at h
      split at h
      · subst h; simp at hs
      · rename_i herr
        subst h
        unfold execName at herr ⊢
        simp only [hg, validateName] at herr ⊢
        split at herr
        · simp at herr
        · rename_i h1
          split at herr
          · simp at herr
          · rename_i hv
            have hown : w.ownerOf nAergoName = none := by
              cases hoo : w.ownerOf nAergoName with
              | none => rfl
              | some o => simp [hoo] at hv
            simp only [if_neg h1, hv] at herr ⊢
            refine ⟨hown, ?_, by simp [successBranch]⟩
            have hw1 : ∀ x, ({ w with names := mset w.names nAergoName (a, 1) } : World).acct x = w.acct x := fun _ => rfl
            unfold setOwner
            simp only [getCopy_id, getCopy_cur]
            by_cases ha1 : a = tx.sender
            · subst ha1
              have hs1 : sendBal (w.getCopy 1) (w.getCopy tx.sender) (w.acct 1).bal =
                  some ((w.getCopy 1).subBalance (w.acct 1).bal, (w.getCopy tx.sender).addBalance (w.acct 1).bal) := by
                simp [sendBal, Ne.symm hne1]
              simp [hs1, successBranch, setOwnerEffects, hne1, aName, hw1, Copy.subBalance, Copy.addBalance, Copy.setBal, absSub,
                World.bal, acct_put_other _ _ _ _ (Ne.symm hne1), acct_put_other _ _ _ _ hne1]
            · rw [if_neg ha1]
              by_cases ha2 : a = 1
              · subst ha2
                simp [successBranch, setOwnerEffects, hne1, aName, hw1, acct_put_other _ _ _ _ (Ne.symm hne1)]
              · rw [if_neg ha2]
                have hs1 : sendBal (w.getCopy 1) (w.getCopy a) (w.acct 1).bal =
                    some ((w.getCopy 1).subBalance (w.acct 1).bal, (w.getCopy a).addBalance (w.acct 1).bal) := by
                  simp [sendBal, Ne.symm ha2]
                have e1 : tx.sender ≠ a := fun e => ha1 e.symm
                simp [hs1, successBranch, setOwnerEffects, hne1, ha2, aName, hw1, Copy.subBalance, Copy.addBalance, Copy.setBal, absSub,
                  World.bal, acct_put_other _ _ _ _ (Ne.symm hne1), acct_put_other _ _ _ _ ha1, acct_put_other _ _ _ _ ha2,
                  acct_put_other _ _ _ _ (Ne.symm e1)]

/-! ### transactions that run the VM -/


/-- third-party credits of a script in script order (`r` the called contract, `s` the tx sender): each
target other than the two gets its amount added to its record -/
def creditThirds (s r : Addr) : World → List (Addr × Nat) → World
  | w, [] => w
  | w, (t, amt) :: xs =>
    if t = r ∨ t = s then creditThirds s r w xs
    else creditThirds s r (w.put t { w.acct t with bal := w.bal t + amt }) xs

/-- what the script sends out of the contract `r` (a transfer to `r` itself moves nothing) -/
def sentOut (r : Addr) : List (Addr × Nat) → Nat
  | [] => 0
  | (t, amt) :: xs => (if t = r then 0 else amt) + sentOut r xs

/-- what the script sends to the tx sender `s` -/
def sentTo (s r : Addr) : List (Addr × Nat) → Nat
  | [] => 0
  | (t, amt) :: xs => (if t ≠ r ∧ t = s then amt else 0) + sentTo s r xs

theorem runXfers_exact {sid rid : Addr} (hne : sid ≠ rid) {xs : List (Addr × Nat)} :
    ∀ {snd rcv : Acct} {w : World} {third : Bool} {sa ra : Acct} {w' : World} {t' : Bool},
      runXfers sid rid snd rcv w third xs = .ok sa ra w' t' →
      sentOut rid xs ≤ rcv.bal ∧
      sa = { snd with bal := snd.bal + sentTo sid rid xs } ∧
      ra = { rcv with bal := rcv.bal - sentOut rid xs } ∧
      w' = creditThirds sid rid w xs := by
  induction xs with
  | nil =>
    intro snd rcv w third sa ra w' t' h
    simp [runXfers] at h
    obtain ⟨rfl, rfl, rfl, _⟩ := h
    simp [sentOut, sentTo, creditThirds]
  | cons x xs ih =>
    obtain ⟨t, amt⟩ := x
    intro snd rcv w third sa ra w' t' h
    unfold runXfers at h
    by_cases h1 : t = rid
    · simp only [h1, if_true] at h
      have := ih h
      simpa [sentOut, sentTo, creditThirds, h1] using this
    · simp only [h1, if_false] at h
      by_cases h2 : rcv.bal < amt
      · simp [h2] at h
      · simp only [h2, if_false] at h
        have hle : amt ≤ rcv.bal := Nat.le_of_not_lt h2
        by_cases h3 : t = sid
        · simp only [h3, if_true] at h
          obtain ⟨q1, q2, q3, q4⟩ := ih h
          simp only [] at q1
          refine ⟨?_, ?_, ?_, ?_⟩
          · simp [sentOut, h1]; omega
          · rw [q2]; simp [sentTo, h3, hne, Nat.add_assoc]
          · rw [q3]; simp [sentOut, h1]; omega
          · rw [q4]; simp [creditThirds, h3]
        · simp only [h3, if_false] at h
          obtain ⟨q1, q2, q3, q4⟩ := ih h
          simp only [] at q1
          refine ⟨?_, ?_, ?_, ?_⟩
          · simp [sentOut, h1]; omega
          · rw [q2]; simp [sentTo, h1, h3]
          · rw [q3]; simp [sentOut, h1]; omega
          · rw [q4]; simp [creditThirds, h1, h3, World.bal]
theorem checkExecution_not_skip {t : TxType} {a p v : Nat} {d code : Bool} (h : d = true ∨ code = true) :
    checkExecution t a p v d code ≠ .skip := by
  unfold checkExecution
  by_cases h1 : t = .multicall
  · simp [h1]
  · rw [if_neg h1]
    split
    · simp
    · have : ¬ ((!d) = true ∧ (!code) = true) := by rcases h with rfl | rfl <;> simp
      rw [if_neg this]; simp

/-- `contract.Execute` that reaches the VM (the receiver is being deployed or holds code) and reports no
error: the script ran to its end, and the outputs are these -/
theorem execute_vm_ok {c : Ctx} {w : World} {tx : Tx} {snd rcv : Copy} {isFD : Bool} {o : ExecOut}
    (h : execute c w tx snd rcv isFD = o) (he : o.err = none) (hne : snd.id ≠ rcv.id)
    (hvm : rcv.deploy = true ∨ rcv.cur.code = true) :
    tx.script.err = .ok ∧ tx.amount ≤ snd.cur.bal ∧
    ∃ sa ra w' t',
      runXfers snd.id rcv.id { snd.cur with bal := snd.cur.bal - tx.amount }
        { rcv.cur with bal := rcv.cur.bal + tx.amount, code := rcv.cur.code || rcv.deploy } w false tx.script.xfers = .ok sa ra w' t' ∧
      o.snd = { snd with cur := sa } ∧ o.rcv = { rcv with cur := ra } ∧
      o.w = w'.stage rcv.id { creator := if rcv.deploy then some snd.id else none, sets := tx.script.sets, dels := tx.script.dels } ∧
      o.fee = txBaseFee c tx.payloadLen + tx.script.fee ∧
      o.fee ≤ (if isFD then ra.bal else sa.bal) := by
  unfold execute at h
  simp only [] at h
  have hsb : sendBal snd rcv tx.amount =
      if snd.cur.bal < tx.amount then none else some (snd.subBalance tx.amount, rcv.addBalance tx.amount) := by
    simp [sendBal, hne]
  rw [hsb] at h
  by_cases hlt : snd.cur.bal < tx.amount
  · simp only [hlt, if_true] at h
    subst h; simp at he
  · simp only [hlt, if_false] at h
    have hle : tx.amount ≤ snd.cur.bal := Nat.le_of_not_lt hlt
    split at h
    · subst h; simp at he
    · -- skip: impossible with code or a deploy flag
      rename_i hsk
      exfalso
      refine checkExecution_not_skip ?_ hsk
      rcases hvm with hd | hc
      · exact Or.inl (by simpa [Copy.addBalance, Copy.setBal] using hd)
      · exact Or.inr (by simpa [Copy.addBalance, Copy.setBal] using hc)
    · split at h
      · subst h; simp at he
      · split at h
        · subst h; simp at he
        · split at h
          · subst h; simp at he
          · unfold vmCall at h
            simp only [] at h
            split at h
            · subst h; simp at he
            · rename_i rcv' pend hpre
              split at h
              · subst h; simp at he
              · split at h
                · subst h; simp at he
                · subst h; simp at he
              · subst h; simp at he
              · subst h; simp at he
              · rename_i herr
                split at h
                · subst h; simp at he
                · rename_i sa ra w' t' hx
                  -- what `pre` is
                  have hpre' : rcv' = { rcv.addBalance tx.amount with cur := { (rcv.addBalance tx.amount).cur with code := rcv.cur.code || rcv.deploy } } ∧
                      pend = { creator := if rcv.deploy then some snd.id else none } := by
                    have e1 : (rcv.addBalance tx.amount).deploy = rcv.deploy := rfl
                    have e2 : (rcv.addBalance tx.amount).cur.code = rcv.cur.code := rfl
                    by_cases hd : (rcv.addBalance tx.amount).deploy = true
                    · rw [if_pos hd] at hpre
                      by_cases hp0 : tx.payloadLen = 0
                      · rw [if_pos hp0] at hpre; cases hpre
                      · rw [if_neg hp0] at hpre
                        cases hpre
                        rw [e1] at hd
                        simp [hd, Copy.addBalance, Copy.setBal, Copy.subBalance]
                    · rw [if_neg hd] at hpre
                      by_cases hc : (rcv.addBalance tx.amount).cur.code = true
                      · rw [if_pos hc] at hpre
                        cases hpre
                        rw [e1] at hd; rw [e2] at hc
                        have hd' : rcv.deploy = false := by simpa using hd
                        simp [hd', hc, Copy.addBalance, Copy.setBal]
                      · rw [if_neg hc] at hpre; cases hpre
                  obtain ⟨rfl, rfl⟩ := hpre'
                  by_cases hfee : (if isFD then ra.bal else sa.bal) < txBaseFee c tx.payloadLen + tx.script.fee
                  · rw [if_pos hfee] at h
                    subst h; simp at he
                  · rw [if_neg hfee] at h
                    subst h
                    refine ⟨herr, hle, sa, ra, w', t', ?_, rfl, rfl, ?_, rfl, Nat.le_of_not_lt hfee⟩
                    · simpa [Copy.subBalance, Copy.addBalance, Copy.setBal, absSub, hle] using hx
                    · simp [Copy.addBalance, Copy.setBal, Copy.subBalance]
/-- the world after a successful VM transaction, without account copies: third-party credits in script
order, the contract's storage writes staged (with the creator record on a deploy), then the sender's record
(− amount + what the script sent back − the fee unless delegated; the tx nonce) and the contract's record
(+ amount − what the script sent out − the fee if delegated; code on a deploy) -/
def vmWorld (w : World) (tx : Tx) (r : Addr) (deploy isFD : Bool) (fee : Nat) : World :=
  let s := tx.sender
  let w1 := creditThirds s r w tx.script.xfers
  let w2 := w1.stage r { creator := if deploy then some s else none, sets := tx.script.sets, dels := tx.script.dels }
  (w2.put s (({ w.acct s with bal := w.bal s - tx.amount + sentTo s r tx.script.xfers - (if isFD then 0 else fee) } : Acct).setNonce tx.nonce)).put r
    { w.acct r with bal := w.bal r + tx.amount - sentOut r tx.script.xfers - (if isFD then fee else 0)
                    code := (w.acct r).code || deploy }

theorem creditThirds_acct {s r : Addr} {xs : List (Addr × Nat)} : ∀ {w : World},
    (creditThirds s r w xs).acct s = w.acct s ∧ (creditThirds s r w xs).acct r = w.acct r := by
  induction xs with
  | nil => intro w; simp [creditThirds]
  | cons x xs ih =>
    obtain ⟨t, amt⟩ := x
    intro w
    unfold creditThirds
    by_cases h : t = r ∨ t = s
    · rw [if_pos h]; exact ih
    · rw [if_neg h]
      have h1 : t ≠ r := fun e => h (Or.inl e)
      have h2 : t ≠ s := fun e => h (Or.inr e)
      have := ih (w := w.put t { w.acct t with bal := w.bal t + amt })
      rw [acct_put_other _ _ _ _ h2, acct_put_other _ _ _ _ h1] at this
      exact this


theorem finishVm_effects {c : Ctx} {w : World} {bp : Nat} {tx : Tx} {rcv : Copy} {st : Status} {isFD : Bool} {res : Result}
    (hrc : rcv.cur = w.acct rcv.id) (hne : tx.sender ≠ rcv.id) (hvm : rcv.deploy = true ∨ rcv.cur.code = true)
    (h : finishVm w bp tx st isFD (execute c w tx (w.getCopy tx.sender) rcv isFD) = res)
    (hs : res.outcome = .success) :
    tx.script.err = .ok ∧ tx.amount ≤ w.bal tx.sender ∧
    sentOut rcv.id tx.script.xfers ≤ w.bal rcv.id + tx.amount ∧
    txBaseFee c tx.payloadLen + tx.script.fee ≤
      (if isFD then w.bal rcv.id + tx.amount - sentOut rcv.id tx.script.xfers
       else w.bal tx.sender - tx.amount + sentTo tx.sender rcv.id tx.script.xfers) ∧
    res.w = vmWorld w tx rcv.id rcv.deploy isFD (txBaseFee c tx.payloadLen + tx.script.fee) ∧
    res.bp = bp + (txBaseFee c tx.payloadLen + tx.script.fee) := by
  generalize ho : execute c w tx (w.getCopy tx.sender) rcv isFD = o at h
  have herr : o.err = none := by
    unfold finishVm at h
    simp only [] at h
    split at h
    · subst h; simp at hs
    · subst h
      exact absurd hs (runtimeBranch_not_success _ _ _ _ _ _ _ _ _)
    · rename_i he; exact he
  have hne' : (w.getCopy tx.sender).id ≠ rcv.id := by simpa using hne
  obtain ⟨e1, e2, sa, ra, w', t', hx, e3, e4, e5, e6, e7⟩ := execute_vm_ok ho herr hne' hvm
  simp only [getCopy_id, getCopy_cur] at hx e2
  obtain ⟨x1, x2, x3, x4⟩ := runXfers_exact hne hx
  simp only [] at x1
  have hrb : rcv.cur.bal = w.bal rcv.id := by rw [hrc]; rfl
  have hsb : (w.acct tx.sender).bal = w.bal tx.sender := rfl
  unfold finishVm at h
  simp only [herr] at h
  subst h
  refine ⟨e1, e2, by omega, ?_, ?_, by simp [successBranch, e6]⟩
  · rw [e6] at e7
    cases isFD
    · simp only [Bool.false_eq_true, if_false] at e7 ⊢
      rw [x2] at e7; simpa [World.bal] using e7
    · simp only [if_true] at e7 ⊢
      rw [x3] at e7; simp only [] at e7; rw [hrb] at e7; exact e7
  · rw [e6] at e7
    cases isFD
    · simp only [Bool.false_eq_true, if_false] at e7 ⊢
      have hfee : txBaseFee c tx.payloadLen + tx.script.fee ≤ sa.bal := e7
      simp only [successBranch, e3, e4, e5, e6, Copy.subBalance, Copy.setBal, getCopy_id, absSub, hfee, if_true,
        ne_eq, hne, not_false_eq_true]
      rw [x2, x3, x4]
      simp [vmWorld, hrc, World.bal, Acct.setNonce]
    · simp only [if_true] at e7 ⊢
      have hfee : txBaseFee c tx.payloadLen + tx.script.fee ≤ ra.bal := e7
      simp only [successBranch, e3, e4, e5, e6, Copy.subBalance, Copy.setBal, getCopy_id, absSub, hfee, if_true,
        ne_eq, hne, not_false_eq_true]
      rw [x2, x3, x4]
      simp [vmWorld, hrc, World.bal, Acct.setNonce]
/-- the address a transaction executes at: its recipient, or the contract it creates -/
def Tx.target (tx : Tx) : Addr := tx.recipient.getD tx.newAddr
/-- the transaction installs code at its target (DEPLOY / legacy NORMAL without recipient / REDEPLOY) -/
def Tx.deploys (tx : Tx) : Bool := tx.recipient.isNone || decide (tx.type = .redeploy)

theorem mkReceiver_target {w : World} {tx : Tx} {rcv : Copy} {st : Status} (h : mkReceiver w tx = .ok (rcv, st)) :
    rcv.id = tx.target ∧ rcv.cur = w.acct rcv.id ∧ rcv.deploy = tx.deploys := by
  unfold mkReceiver at h
  unfold Tx.target Tx.deploys
  split at h
  · rename_i r hr
    simp only [] at h
    split at h
    · rename_i hty; cases h; simp [hr, hty]
    · rename_i hty; cases h; simp [hr, hty]
  · rename_i hr
    simp only [] at h
    split at h
    · cases h
    · cases h; simp [hr]

/-- **A transaction that runs the VM, if applied, is applied exactly** (CALL / NORMAL / TRANSFER to a contract,
DEPLOY, REDEPLOY, FEEDELEGATION; sender ≠ target): the script ran to its end and the world is `vmWorld` -/
theorem vm_effects {c : Ctx} {w : World} {bp : Nat} {tx : Tx} {res : Result}
    (h : executeTx c w bp tx = res) (hg : tx.type ≠ .governance) (hm : tx.type ≠ .multicall)
    (hne : tx.sender ≠ tx.target) (hvm : tx.deploys = true ∨ (w.acct tx.target).code = true)
    (hs : res.outcome = .success) :
    tx.script.err = .ok ∧ tx.amount ≤ w.bal tx.sender ∧
    sentOut tx.target tx.script.xfers ≤ w.bal tx.target + tx.amount ∧
    txBaseFee c tx.payloadLen + tx.script.fee ≤
      (if tx.type = .feeDelegation then w.bal tx.target + tx.amount - sentOut tx.target tx.script.xfers
       else w.bal tx.sender - tx.amount + sentTo tx.sender tx.target tx.script.xfers) ∧
    res.w = vmWorld w tx tx.target tx.deploys (decide (tx.type = .feeDelegation)) (txBaseFee c tx.payloadLen + tx.script.fee) ∧
    res.bp = bp + (txBaseFee c tx.payloadLen + tx.script.fee) := by
  unfold executeTx at h
  simp only [] at h
  split at h
  · subst h; simp at hs
  · split at h
    · subst h; simp at hs
    · rw [if_neg hm] at h
      split at h
      · subst h; simp at hs
      · rename_i rcv st hrcv
        obtain ⟨m1, m2, m3⟩ := mkReceiver_target hrcv
        have hne' : tx.sender ≠ rcv.id := by rw [m1]; exact hne
        have hvm' : rcv.deploy = true ∨ rcv.cur.code = true := by
          rcases hvm with hd | hc
          · exact Or.inl (by rw [m3]; exact hd)
          · exact Or.inr (by rw [m2, m1]; exact hc)
        have hrs : ¬ tx.recipient = some tx.sender := by
          intro e; apply hne; simp [Tx.target, e]
        simp only [hrs, decide_false, Bool.false_and, Bool.false_eq_true, if_false] at h
        split at h
        · rename_i hty; exact absurd hty hg
        · rename_i hty
          split at h
          · subst h; simp at hs
          · split at h
            · subst h; simp at hs
            · split at h
              · subst h; simp at hs
              · have := finishVm_effects m2 hne' hvm' h hs
                rw [m1, m3] at this
                simpa [hty] using this
        · rename_i hng hnf
          have := finishVm_effects m2 hne' hvm' h hs
          rw [m1, m3] at this
          have hnf' : tx.type ≠ .feeDelegation := by
            intro e; exact hnf e
          simpa [hnf'] using this

/-! ### a contract account's transaction to itself (`receiver = sender`) -/

theorem runXfers_exact_own {id : Addr} {xs : List (Addr × Nat)} :
    ∀ {snd rcv : Acct} {w : World} {third : Bool} {sa ra : Acct} {w' : World} {t' : Bool},
      runXfers id id snd rcv w third xs = .ok sa ra w' t' →
      sentOut id xs ≤ rcv.bal ∧ sa = snd ∧
      ra = { rcv with bal := rcv.bal - sentOut id xs } ∧
      w' = creditThirds id id w xs := by
  induction xs with
  | nil =>
    intro snd rcv w third sa ra w' t' h
    simp [runXfers] at h
    obtain ⟨rfl, rfl, rfl, _⟩ := h
    simp [sentOut, creditThirds]
  | cons x xs ih =>
    obtain ⟨t, amt⟩ := x
    intro snd rcv w third sa ra w' t' h
    unfold runXfers at h
    by_cases h1 : t = id
    · simp only [h1, if_true] at h
      have := ih h
      simpa [sentOut, creditThirds, h1] using this
    · simp only [h1, if_false] at h
      by_cases h2 : rcv.bal < amt
      · simp [h2] at h
      · simp only [h2, if_false] at h
        have hle : amt ≤ rcv.bal := Nat.le_of_not_lt h2
        obtain ⟨q1, q2, q3, q4⟩ := ih h
        simp only [] at q1
        refine ⟨?_, q2, ?_, ?_⟩
        · simp [sentOut, h1]; omega
        · rw [q3]; simp [sentOut, h1]; omega
        · rw [q4]; simp [creditThirds, h1, World.bal]

/-- the VM on a record holding code (no deploy), reporting no error: the script ran to its end -/
theorem vmCall_code_ok {w : World} {tx : Tx} {snd rcv : Copy} {isFD : Bool} {base : Nat} {o : ExecOut}
    (h : vmCall w tx snd rcv isFD base = o) (he : o.err = none) (hd : rcv.deploy = false) (hc : rcv.cur.code = true) :
    tx.script.err = .ok ∧
    ∃ sa ra w' t',
      runXfers snd.id rcv.id snd.cur rcv.cur w false tx.script.xfers = .ok sa ra w' t' ∧
      o.snd = { snd with cur := sa } ∧ o.rcv = { rcv with cur := ra } ∧
      o.w = w'.stage rcv.id { creator := none, sets := tx.script.sets, dels := tx.script.dels } ∧
      o.fee = base + tx.script.fee ∧ o.fee ≤ (if isFD then ra.bal else sa.bal) := by
  unfold vmCall at h
  simp only [hd, hc, Bool.false_eq_true, if_false, if_true] at h
  split at h
  · subst h; simp at he
  · split at h
    · subst h; simp at he
    · subst h; simp at he
  · subst h; simp at he
  · subst h; simp at he
  · rename_i herr
    split at h
    · subst h; simp at he
    · rename_i sa ra w' t' hx
      by_cases hfee : (if isFD then ra.bal else sa.bal) < base + tx.script.fee
      · rw [if_pos hfee] at h
        subst h; simp at he
      · rw [if_neg hfee] at h
        subst h
        exact ⟨herr, sa, ra, w', t', hx, rfl, by simp [hd], rfl, rfl, Nat.le_of_not_lt hfee⟩

/-- the world after a successful VM transaction of a contract account to itself (`receiver = sender`, sent
under a name whose destination is the contract): the amount does not move; third-party credits in script
order, the storage writes staged, ONE record: − what the script sent out − the fee, the tx nonce -/
def ownVmWorld (w : World) (tx : Tx) (fee : Nat) : World :=
  let s := tx.sender
  let w1 := creditThirds s s w tx.script.xfers
  let w2 := w1.stage s { creator := none, sets := tx.script.sets, dels := tx.script.dels }
  w2.put s (({ w.acct s with bal := w.bal s - sentOut s tx.script.xfers - fee } : Acct).setNonce tx.nonce)

theorem own_vm_effects {c : Ctx} {w : World} {bp : Nat} {tx : Tx} {res : Result}
    (h : executeTx c w bp tx = res) (hg : tx.type ≠ .governance) (hm : tx.type ≠ .multicall)
    (hrd : tx.type ≠ .redeploy) (hr : tx.recipient = some tx.sender) (hcode : (w.acct tx.sender).code = true)
    (hs : res.outcome = .success) :
    tx.script.err = .ok ∧
    sentOut tx.sender tx.script.xfers + (txBaseFee c tx.payloadLen + tx.script.fee) ≤ w.bal tx.sender ∧
    res.w = ownVmWorld w tx (txBaseFee c tx.payloadLen + tx.script.fee) ∧
    res.bp = bp + (txBaseFee c tx.payloadLen + tx.script.fee) := by
  -- every branch ends in finishOwn (executeOwn ..)
  have key : ∀ isFD, finishOwn w bp tx .success (executeOwn c w tx (w.getCopy tx.sender) isFD) = res →
      tx.script.err = .ok ∧
      sentOut tx.sender tx.script.xfers + (txBaseFee c tx.payloadLen + tx.script.fee) ≤ w.bal tx.sender ∧
      res.w = ownVmWorld w tx (txBaseFee c tx.payloadLen + tx.script.fee) ∧
      res.bp = bp + (txBaseFee c tx.payloadLen + tx.script.fee) := by
    intro isFD hfin
    have herr := finishOwn_success_err (hfin ▸ hs)
    generalize hoo : executeOwn c w tx (w.getCopy tx.sender) isFD = o at hfin herr
    unfold executeOwn at hoo
    simp only [] at hoo
    split at hoo
    · subst hoo; simp at herr
    · rename_i hsk
      exact absurd hsk (checkExecution_not_skip (Or.inr (by simpa using hcode)))
    · split at hoo
      · subst hoo; simp at herr
      · obtain ⟨e1, sa, ra, w', t', hx, e3, e4, e5, e6, e7⟩ :=
          vmCall_code_ok hoo herr (by simp) (by simpa using hcode)
        simp only [getCopy_id, getCopy_cur] at hx e5
        obtain ⟨x1, x2, x3, x4⟩ := runXfers_exact_own hx
        simp only [if_true] at e7
        have hb : (w.acct tx.sender).bal = w.bal tx.sender := rfl
        rw [x3] at e7
        simp only [] at e7
        unfold finishOwn at hfin
        simp only [herr] at hfin
        subst hfin
        refine ⟨e1, by rw [e6] at e7; omega, ?_, by simp [successBranch, e6]⟩
        have hfee : o.fee ≤ ra.bal := by rw [x3]; exact e7
        simp only [successBranch, e4, e5, e6, Copy.subBalance, Copy.setBal, getCopy_id, ne_eq, not_true_eq_false,
          if_false, absSub]
        rw [e6] at hfee
        simp only [hfee, if_true]
        rw [x3, x4]
        simp [ownVmWorld, World.bal, Acct.setNonce]
  have hmk : mkReceiver w tx = .ok (w.getCopy tx.sender, .success) := by
    simp [mkReceiver, hr, hrd]
  unfold executeTx at h
  simp only [] at h
  split at h
  · subst h; simp at hs
  · split at h
    · subst h; simp at hs
    · rw [if_neg hm, hmk] at h
      simp only [hr, hrd, decide_true, ne_eq, not_false_eq_true, Bool.and_self, if_true] at h
      split at h
      · rename_i hty; exact absurd hty hg
      · split at h
        · subst h; simp at hs
        · split at h
          · subst h; simp at hs
          · split at h
            · subst h; simp at hs
            · exact key true h
      · exact key false h


/-- the world after a successful MULTICALL (`receiver = sender`; a multicall has no storage of its own): every
target of the script's transfers credited in script order, the sender's ONE record − what was sent − the fee,
with the tx nonce -/
def multiWorld (w : World) (tx : Tx) (fee : Nat) : World :=
  let s := tx.sender
  (creditThirds s s w tx.script.xfers).put s
    (({ w.acct s with bal := w.bal s - sentOut s tx.script.xfers - fee } : Acct).setNonce tx.nonce)

theorem multicall_effects {c : Ctx} {w : World} {bp : Nat} {tx : Tx} {res : Result}
    (h : executeTx c w bp tx = res) (ht : tx.type = .multicall) (hs : res.outcome = .success) :
    tx.script.multi = true ∧ tx.script.err = .ok ∧
    sentOut tx.sender tx.script.xfers + (txBaseFee c tx.payloadLen + tx.script.fee) ≤ w.bal tx.sender ∧
    res.w = multiWorld w tx (txBaseFee c tx.payloadLen + tx.script.fee) ∧
    res.bp = bp + (txBaseFee c tx.payloadLen + tx.script.fee) := by
  unfold executeTx at h
  simp only [] at h
  split at h
  · subst h; simp at hs
  · split at h
    · subst h; simp at hs
    · rw [if_pos ht] at h
      split at h
      · rename_i hmulti
        have herr := finishOwn_success_err (h ▸ hs)
        generalize hoo : executeMulti c w tx (w.getCopy tx.sender) = o at h herr
        unfold executeMulti at hoo
        simp only [] at hoo
        split at hoo
        · subst hoo; simp at herr
        · unfold vmMulti at hoo
          split at hoo
          · subst hoo; simp at herr
          · split at hoo
            · subst hoo; simp at herr
            · subst hoo; simp at herr
          · subst hoo; simp at herr
          · subst hoo; simp at herr
          · rename_i hok
            split at hoo
            · subst hoo; simp at herr
            · rename_i sa ra w' t' hx
              simp only [getCopy_id, getCopy_cur] at hx
              obtain ⟨x1, x2, x3, x4⟩ := runXfers_exact_own hx
              simp only [] at hoo
              split at hoo
              · subst hoo; simp at herr
              · rename_i hfee
                subst hoo
                have hb : (w.acct tx.sender).bal = w.bal tx.sender := rfl
                have hfee' : txBaseFee c tx.payloadLen + tx.script.fee ≤ ra.bal := Nat.le_of_not_lt hfee
                rw [x3] at hfee'
                simp only [] at hfee'
                unfold finishOwn at h
                simp only [] at h
                subst h
                refine ⟨hmulti, hok, by omega, ?_, by simp [successBranch]⟩
                have hf2 : txBaseFee c tx.payloadLen + tx.script.fee ≤ ra.bal := Nat.le_of_not_lt hfee
                simp only [successBranch, Copy.subBalance, Copy.setBal, getCopy_id, ne_eq, not_true_eq_false,
                  if_false, absSub, hf2, if_true]
                rw [x3, x4]
                simp [multiWorld, World.bal, Acct.setNonce]
      · subst h
        exact absurd hs (runtimeBranch_not_success _ _ _ _ _ _ _ _ _)

end Aergo.Ledger
