import Aergo.Model.Ledger
import Aergo.Gen.Fee

/-! # T-tie of the fee formulas (C01, C03)

`Aergo/Gen/Fee.lean` is regenerated on every run by `goext bigfn` from /repo/fee/{fee,gas,payload}.go
(big.Int is exact `Int`, `uint64`/`int64` arithmetic wraps as in Go, the package variables set in `init()`
are definitions, `zeroFee` is a parameter, `(T, error)` results are pairs `(value, err ≠ nil)`).
This file proves that the hand-written fee functions of `Aergo.Model.Ledger`, over which all C01/C03
theorems are stated, ARE the generated ones on the domain the node can reach:

* payload length `< 2^63` (a Go `int` holding `len(payload)`),
* gas limit `< 2^64` (the `uint64` field of the tx body),
* gas price `> 0` wherever the Go code divides by it (`big.Int.Div` panics on zero; the parameter is
  kept non-zero by the system-parameter validation).

A change of a constant, an operator, a comparison or a branch in fee/*.go changes the generated file and
breaks one of these proofs (`lake build` of `Props/C01`, `Props/C03` fails) before any input is run. -/

namespace Aergo.Ledger
open Aergo.Gen

/-! ### constants -/

theorem gen_baseTxAergo : Fee.baseTxAergo = (baseTxAergo : Int) := by decide
theorem gen_aerPerByte : Fee.aerPerByte = (aerPerByte : Int) := by decide
theorem gen_stateDbMaxFee : Fee.stateDbMaxFee = (stateDbMaxFee : Int) := by decide
theorem gen_payloadMaxSize : Fee.payloadMaxSize = (payloadMaxSize : Int) := by decide
theorem gen_freeByteSize : Fee.freeByteSize = (freeByteSize : Int) := by decide
theorem gen_txGasSize : Fee.txGasSize = (txGasSize : Int) := by decide
theorem gen_payloadGasSize : Fee.payloadGasSize = (payloadGasSize : Int) := by decide
/-- the node starts with fees enabled; `chain.Init` switches them off on a private network -/
theorem gen_zeroFee_init : Fee.zeroFee_init = false := rfl

private theorem gen_pms : Fee.payloadMaxSize = 204800 := by decide

theorem i64_id (x : Int) (h1 : -9223372036854775808 ≤ x) (h2 : x < 9223372036854775808) : Fee.i64 x = x := by
  unfold Fee.i64; omega
theorem u64_id (x : Int) (h1 : 0 ≤ x) (h2 : x < 18446744073709551616) : Fee.u64 x = x := by
  unfold Fee.u64; omega

/-! ### payload size, gas, base fee -/

theorem gen_paymentDataSize (n : Nat) (h : n < 2 ^ 63) :
    Fee.paymentDataSize (n : Int) = ((n - freeByteSize : Nat) : Int) := by
  have hx : Fee.i64 ((n : Int) - Fee.freeByteSize) = (n : Int) - 200 := by
    rw [i64_id] <;> simp only [Fee.freeByteSize] <;> omega
  simp only [Fee.paymentDataSize, hx, freeByteSize, decide_eq_true_eq]
  split <;> omega

private theorem dataSize_def (n : Nat) : dataSize n = min (n - 200) 204800 := rfl

/-- both callers of `paymentDataSize` cap it at `payloadMaxSize`: the model's `dataSize` -/
theorem gen_dataSize (n : Nat) (h : n < 2 ^ 63) :
    (if decide (Fee.paymentDataSize (n : Int) > Fee.payloadMaxSize) = true then Fee.payloadMaxSize else Fee.paymentDataSize (n : Int))
      = (dataSize n : Int) := by
  have hf : freeByteSize = 200 := rfl
  rw [gen_paymentDataSize n h, gen_pms, dataSize_def, hf]
  simp only [decide_eq_true_eq]
  split <;> omega

theorem dataSize_le (n : Nat) : dataSize n ≤ 204800 := by
  rw [dataSize_def]; omega

theorem gen_GasEnabled (c : Ctx) :
    Fee.GasEnabled c.zeroFee (c.version : Int) = gasEnabled c := by
  simp only [Fee.GasEnabled, Fee.IsZeroFee, gasEnabled]
  congr 1
  simp only [ge_iff_le, decide_eq_decide]
  omega

/-- `fee.TxGas` -/
theorem gen_TxGas (c : Ctx) (n : Nat) (h : n < 2 ^ 63) :
    Fee.TxGas c.zeroFee (n : Int) = (txGas c n : Int) := by
  unfold Fee.TxGas txGas
  simp only [Fee.IsZeroFee]
  cases c.zeroFee
  · simp only [Bool.false_eq_true, if_false]
    rw [gen_dataSize n h]
    have hb := dataSize_le n
    simp only [Fee.txGasSize, Fee.payloadGasSize, txGasSize, payloadGasSize]
    have h1 : Fee.u64 (dataSize n : Int) = dataSize n := u64_id _ (by omega) (by omega)
    rw [h1]
    have h2 : Fee.u64 ((dataSize n : Int) * 5) = dataSize n * 5 := u64_id _ (by omega) (by omega)
    rw [h2]
    rw [u64_id _ (by omega) (by omega)]
    omega
  · simp

/-- `fee.PayloadFee` -/
theorem gen_PayloadFee (c : Ctx) (n : Nat) (h : n < 2 ^ 63) :
    Fee.PayloadFee c.zeroFee (n : Int) = (payloadFee c n : Int) := by
  unfold Fee.PayloadFee payloadFee
  simp only [Fee.IsZeroFee, Fee.NewZeroFee]
  cases c.zeroFee
  · simp only [Bool.false_eq_true, if_false]
    rw [gen_dataSize n h]
    have hb := dataSize_le n
    have h1 : Fee.u64 (dataSize n : Int) = dataSize n := u64_id _ (by omega) (by omega)
    rw [h1, Fee.CalcFee, gen_baseTxAergo, gen_aerPerByte]
    simp [Int.natCast_add, Int.natCast_mul]
  · simp

/-- `fee.MaxPayloadFee` -/
theorem gen_MaxPayloadFee (c : Ctx) (n : Nat) (h : n < 2 ^ 63) :
    Fee.MaxPayloadFee c.zeroFee (n : Int) = (maxPayloadFee c n : Int) := by
  have hp := gen_PayloadFee c n h
  unfold Fee.MaxPayloadFee maxPayloadFee
  simp only [Fee.IsZeroFee, Fee.NewZeroFee]
  cases hz : c.zeroFee
  · rw [hz] at hp
    simp only [Bool.false_eq_true, if_false, decide_eq_true_eq]
    by_cases h0 : n = 0
    · subst h0; simp [gen_baseTxAergo]
    · have : ¬ ((n : Int) = 0) := by omega
      rw [if_neg this, if_neg h0, hp, gen_stateDbMaxFee]
      simp [Int.natCast_add]
  · simp

/-- `fee.TxBaseFee` -/
theorem gen_TxBaseFee (c : Ctx) (n : Nat) (h : n < 2 ^ 63) :
    Fee.TxBaseFee c.zeroFee (c.version : Int) (c.gasPrice : Int) (n : Int) = (txBaseFee c n : Int) := by
  unfold Fee.TxBaseFee txBaseFee
  simp only [decide_eq_true_eq]
  by_cases hv : c.version < 2
  · have : (c.version : Int) < 2 := by omega
    rw [if_pos this, if_pos hv, gen_PayloadFee c n h]
  · have : ¬ (c.version : Int) < 2 := by omega
    rw [if_neg this, if_neg hv, Fee.CalcFee, gen_TxGas c n h]
    simp [Int.natCast_mul]

/-! ### gas limits, maximum fee -/


theorem maxU64_val : maxU64 = 18446744073709551615 := by decide

/-- `fee.MaxGasLimit` (gas price > 0: `big.Int.Div` panics on zero) -/
theorem gen_MaxGasLimit (b : Int) (g : Nat) (hg : 0 < g) :
    Fee.MaxGasLimit b (g : Int) = (maxGasLimit b g : Int) := by
  unfold Fee.MaxGasLimit maxGasLimit Fee.CalcGas
  simp only [Fee.bigIsUint64, Fee.bigUint64, maxU64_val, decide_eq_true_eq]
  by_cases hb : b < 0
  · have hn : Int.ediv b (g : Int) < 0 := Int.ediv_neg_of_neg_of_pos hb (by omega)
    rw [if_neg (by omega), if_pos hb]
    rfl
  · rw [if_neg hb]
    obtain ⟨k, rfl⟩ := Int.eq_ofNat_of_zero_le (Int.not_lt.mp hb)
    have hq : Int.ediv (k : Int) (g : Int) = ((k / g : Nat) : Int) := (Int.natCast_ediv k g).symm
    rw [hq]
    simp only [Int.toNat_natCast, Int.natAbs_natCast]
    generalize k / g = q
    by_cases hk : q ≤ 18446744073709551615
    · rw [if_pos (by omega)]; omega
    · rw [if_neg (by omega)]; omega




theorem maxGasLimit_le (b : Int) (g : Nat) : maxGasLimit b g ≤ 18446744073709551615 := by
  unfold maxGasLimit; rw [maxU64_val]; split <;> omega

/-- `fee.TxMaxFee`; the pair is (value, err ≠ nil) -/
theorem gen_TxMaxFee (c : Ctx) (n gl bal : Nat) (h : n < 2 ^ 63) (hg : 0 < c.gasPrice) :
    Fee.TxMaxFee c.zeroFee (c.version : Int) (n : Int) (gl : Int) (bal : Int) (c.gasPrice : Int) =
      match txMaxFee c n gl bal with
      | none => (0, true)
      | some f => ((f : Int), false) := by
  have hm := gen_MaxPayloadFee c n h
  have ht := gen_TxGas c n h
  unfold Fee.TxMaxFee txMaxFee
  simp only [Fee.IsZeroFee, Fee.NewZeroFee, decide_eq_true_eq]
  cases hz : c.zeroFee
  · rw [hz] at hm ht
    simp only [Bool.false_eq_true, if_false]
    by_cases hv : c.version < 2
    · rw [if_pos (by omega), if_pos hv, hm]
    · rw [if_neg (by omega), if_neg hv, ht]
      have hgl : (if (gl : Int) = 0 then Fee.MaxGasLimit (bal : Int) (c.gasPrice : Int) else (gl : Int)) =
          ((if gl = 0 then maxGasLimit (bal : Int) c.gasPrice else gl : Nat) : Int) := by
        by_cases h0 : gl = 0
        · rw [if_pos (by omega), if_pos h0, gen_MaxGasLimit _ _ hg]
        · rw [if_neg (by omega), if_neg h0]
      simp only [hgl]
      generalize (if gl = 0 then maxGasLimit (bal : Int) c.gasPrice else gl) = g
      by_cases hc : txGas c n > g
      · rw [if_pos (by omega), if_pos hc]
      · rw [if_neg (by omega), if_neg hc]
        simp [Fee.CalcFee, Int.natCast_mul]
  · simp

/-- `fee.GasLimit`; the pair is (value, err ≠ nil). On an error Go's named result still holds 0
(no gas left) or the tx gas limit (limit ≤ tx gas); callers look at the error only. -/
theorem gen_GasLimit (c : Ctx) (isFD : Bool) (gl n usedFee sBal rBal : Nat) (h : n < 2 ^ 63)
    (hgl : gl < 2 ^ 64) (hg : 0 < c.gasPrice) :
    Fee.GasLimit c.zeroFee (c.version : Int) isFD (gl : Int) (n : Int) (c.gasPrice : Int) (usedFee : Int) (sBal : Int) (rBal : Int) =
      match gasLimit c isFD gl n usedFee sBal rBal with
      | some v => ((v : Int), false)
      | none => (((if isFD || gl == 0 then 0 else gl : Nat) : Int), true) := by
  have ht := gen_TxGas c n h
  unfold Fee.GasLimit gasLimit
  rw [gen_GasEnabled c]
  cases he : gasEnabled c
  · simp
  · simp only [bne_self_eq_false, Bool.false_eq_true, if_false, Bool.not_true, decide_eq_true_eq]
    cases isFD
    · simp only [Bool.false_eq_true, if_false, Bool.false_or, beq_iff_eq]
      by_cases h0 : gl = 0
      · rw [if_pos (by omega), if_pos h0, gen_MaxGasLimit _ _ hg]
        generalize maxGasLimit ((sBal : Int) - (usedFee : Int)) c.gasPrice = m
        by_cases hm : m = 0
        · rw [if_pos (by omega), if_pos hm]; simp [h0, hm]
        · rw [if_neg (by omega), if_neg hm]
      · rw [if_neg (by omega), if_neg h0, ht]
        by_cases hu : gl ≤ txGas c n
        · rw [if_pos (by omega), if_pos hu]; simp [h0]
        · rw [if_neg (by omega), if_neg hu]
          have : Fee.u64 ((gl : Int) - (txGas c n : Int)) = ((gl - txGas c n : Nat) : Int) := by
            rw [u64_id] <;> omega
          simp [this]
    · simp only [if_true, Bool.true_or]
      rw [gen_MaxGasLimit _ _ hg]
      generalize maxGasLimit ((rBal : Int) - (usedFee : Int)) c.gasPrice = m
      by_cases hm : m = 0
      · rw [if_pos (by omega), if_pos hm]; simp [hm]
      · rw [if_neg (by omega), if_neg hm]

/-- `fee.ReceiptGasUsed` inverts `fee.CalcFee` (not part of the ledger model; a sanity lemma about the
generated definitions): with gas enabled, a non-governance tx that paid `gasPrice × gas` reports `gas`. -/
theorem gen_ReceiptGasUsed_CalcFee (zf : Bool) (v : Int) (gp gas : Nat) (hg : 0 < gp) (hgas : gas < 2 ^ 64)
    (he : Fee.GasEnabled zf v = true) :
    Fee.ReceiptGasUsed zf v false (Fee.CalcFee (gp : Int) (gas : Int)) (gp : Int) = (gas : Int) := by
  unfold Fee.ReceiptGasUsed Fee.CalcGas Fee.CalcFee Fee.bigUint64
  rw [he]
  simp only [Bool.not_false, Bool.and_self, if_true]
  have : Int.ediv ((gp : Int) * (gas : Int)) (gp : Int) = (gas : Int) :=
    Int.mul_ediv_cancel_left _ (by omega)
  rw [this]
  simp only [Int.natAbs_natCast]
  omega

end Aergo.Ledger
