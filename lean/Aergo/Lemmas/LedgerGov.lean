import Aergo.Lemmas.Ledger

/-! Lemmas about the governance paths of the `Ledger` model (stake / unstake / vote, names). -/

namespace Aergo.Ledger

theorem put2_total (w : World) {a b : Addr} (x y : Acct) (h : a ≠ b) :
    ((w.put a x).put b y).total + w.bal a + w.bal b = w.total + x.bal + y.bal := by
  have h1 := total_put w a x
  have h2 := total_put (w.put a x) b y
  rw [bal_put_other _ _ _ _ h] at h2
  omega

/-- `system.ExecuteSystemTx` touches no account record in the state DB (only the two live copies)
and moves balance between the two copies only. -/
theorem execSystem_spec {c : Ctx} {w : World} {tx : Tx} {snd rcv : Copy} {g : GovOut}
    (h : execSystem c w tx snd rcv = g) (he : g.err = none) :
    g.snd.id = snd.id ∧ g.rcv.id = rcv.id ∧ g.w.accts = w.accts ∧
    g.snd.cur.bal + g.rcv.cur.bal = snd.cur.bal + rcv.cur.bal ∧
    g.snd.cur.nonce = snd.cur.nonce ∧ g.snd.cur.code = snd.cur.code ∧
    g.rcv.cur.nonce = rcv.cur.nonce ∧ g.rcv.cur.code = rcv.cur.code ∧
    (snd.id = rcv.id → g.snd.cur.bal = snd.cur.bal) := by
  unfold execSystem at h
  simp only [] at h
  split at h
  · -- stake
    split at h
    · subst h; simp at he
    · split at h
      · subst h; simp at he
      · split at h
        · subst h; simp at he
        · split at h
          · subst h; simp at he
          · rename_i s r hs
            subst h
            have q := sendBal_spec hs
            refine ⟨q.1, q.2.1, rfl, ?_, q.2.2.2.2.1, ?_, ?_, ?_, ?_⟩
            · exact q.2.2.2.2.2.2.2.2.2.2.2.2.2.2.1
            · exact q.2.2.2.2.2.2.1
            · exact q.2.2.2.2.2.1
            · exact q.2.2.2.2.2.2.2.1
            · intro e; rw [(q.2.2.2.2.2.2.2.2.2.2.2.2.2.2.2.1 e).1]
  · -- unstake
    split at h
    · subst h; simp at he
    · split at h
      · subst h; simp at he
      · split at h
        · subst h; simp at he
        · split at h
          · subst h; simp at he
          · split at h
            · subst h; simp at he
            · rename_i r s hs
              subst h
              have q := sendBal_spec hs
              refine ⟨q.2.1, q.1, rfl, ?_, q.2.2.2.2.2.1, ?_, ?_, ?_, ?_⟩
              · have := q.2.2.2.2.2.2.2.2.2.2.2.2.2.2.1
                show s.cur.bal + r.cur.bal = snd.cur.bal + rcv.cur.bal
                omega
              · exact q.2.2.2.2.2.2.2.1
              · exact q.2.2.2.2.1
              · exact q.2.2.2.2.2.2.1
              · intro e; rw [(q.2.2.2.2.2.2.2.2.2.2.2.2.2.2.2.1 e.symm).2]
  · -- vote
    split at h
    · subst h; simp at he
    · split at h
      · subst h; simp at he
      · subst h; simp
  · subst h; simp at he


/-! ### the name contract -/

theorem successBranch_w (w : World) (bp : Nat) (tx : Tx) (snd rcv : Copy) (fee : Nat) (st : Status) :
    (successBranch w bp tx snd rcv fee st).w =
      (if snd.id ≠ rcv.id then (w.put snd.id (snd.cur.setNonce tx.nonce)).put rcv.id rcv.cur
       else w.put snd.id (snd.cur.setNonce tx.nonce)) ∧
    (successBranch w bp tx snd rcv fee st).bp = bp + fee ∧
    (successBranch w bp tx snd rcv fee st).outcome = .success := by
  simp [successBranch]

/-- The guard that excludes the two aliasing defects of `name.ExecuteNameTx` on the pinned tree:
`v1setOwner` whose new owner is the sender (while `aergo.name` holds a balance), and a paid
`v1createName`/`v1updateName` when the recorded owner of the name contract is `aergo.name` itself. -/
def nameGuard (w : World) (tx : Tx) : Prop :=
  match tx.gov with
  | .setOwner a => a ≠ tx.sender ∨ w.bal aName = 0
  | .nameCreate _ => w.ownerOf nAergoName ≠ some aName ∨ tx.amount = 0
  | .nameUpdate _ _ => w.ownerOf nAergoName ≠ some aName ∨ tx.amount = 0
  | _ => True

theorem payName_total {w0 w : World} {snd rcv s r : Copy} {amt bp : Nat} {w' : World} {tx : Tx} {st : Status}
    (ha : w.accts = w0.accts) (hp : payName (nameRef w0 snd) snd rcv amt w = some (s, r, w'))
    (hs : snd.cur = w0.acct snd.id) (hr : rcv.cur = w0.acct rcv.id) (hne : snd.id ≠ rcv.id)
    (hg : w0.ownerOf nAergoName ≠ some rcv.id ∨ amt = 0) :
    (successBranch w' bp tx s r 0 st).w.total = w0.total := by
  have hb : ∀ a, w.bal a = w0.bal a := bal_of_accts ha
  have ht : w.total = w0.total := total_of_accts ha
  have hsb : snd.cur.bal = w0.bal snd.id := by rw [hs]; rfl
  have hrb : rcv.cur.bal = w0.bal rcv.id := by rw [hr]; rfl
  unfold nameRef at hp
  split at hp
  · rename_i o ho
    split at hp
    · -- the sender owns the name contract: nameState is the sender's own record
      simp only [payName] at hp
      cases hp
      rw [(successBranch_w _ _ _ _ _ _ _).1, if_pos hne]
      have h1 := total_put w snd.id snd.cur
      have h2 := put2_total (w.put snd.id snd.cur) (snd.cur.setNonce tx.nonce) rcv.cur hne
      rw [bal_put_same, bal_put_other _ _ _ _ hne] at h2
      have := hb snd.id; have := hb rcv.id
      simp at h2
      omega
    · -- somebody else owns it: nameState is a fresh copy of the owner
      rename_i hso
      simp only [payName] at hp
      split at hp
      · cases hp
      · rename_i s1 cp' hsend
        cases hp
        have q := sendBal_spec hsend
        obtain ⟨q1, q2, q3, q4, q5, q6, q7, q8, q9, q10, q11, q12, q13, q14, q15, q16, q17⟩ := q
        simp at q2 q17
        have q17' := q17 hso
        rw [(successBranch_w _ _ _ _ _ _ _).1, q1, if_pos hne, q2]
        have h1 := total_put w o cp'.cur
        have h2 := put2_total (w.put o cp'.cur) (s.cur.setNonce tx.nonce) rcv.cur hne
        have hso' : o ≠ snd.id := fun e => hso e.symm
        rw [bal_put_other _ _ _ _ hso'] at h2
        have e1 := hb snd.id; have e2 := hb rcv.id; have e3 := hb o
        have hcp : (w0.acct o).bal = w0.bal o := rfl
        simp at h2
        by_cases hor : o = rcv.id
        · subst hor
          rw [bal_put_same] at h2
          have hamt : amt = 0 := by
            rcases hg with hg | hg
            · exact absurd ho hg
            · exact hg
          omega
        · rw [bal_put_other _ _ _ _ hor] at h2
          omega
  · -- no owner: nameState is the receiver
    simp only [payName] at hp
    split at hp
    · cases hp
    · rename_i s1 r1 hsend
      cases hp
      have q := sendBal_spec hsend
      obtain ⟨q1, q2, q3, q4, q5, q6, q7, q8, q9, q10, q11, q12, q13, q14, q15, q16, q17⟩ := q
      have hne' : s.id ≠ r.id := by rw [q1, q2]; exact hne
      rw [(successBranch_w _ _ _ _ _ _ _).1, if_pos hne']
      have h1 := total_put w r.id r.cur
      have h2 := put2_total (w.put r.id r.cur) (s.cur.setNonce tx.nonce) r.cur hne'
      rw [bal_put_same, bal_put_other _ _ _ _ (Ne.symm hne')] at h2
      have e1 := hb snd.id; have e2 := hb rcv.id
      rw [q1, q2]
      rw [q1] at h2; rw [q2] at h1 h2
      simp at h2
      omega


theorem setOwner_total {w : World} {snd rcv r : Copy} {a : Addr} {w' : World} {bp : Nat} {tx : Tx} {st : Status}
    (h : setOwner w rcv a = some (r, w'))
    (hs : snd.cur = w.acct snd.id) (hr : rcv.cur = w.acct rcv.id) (hne : snd.id ≠ rcv.id)
    (hg : a ≠ snd.id ∨ w.bal rcv.id = 0) :
    (successBranch w' bp tx snd r 0 st).w.total = w.total := by
  have hsb : snd.cur.bal = w.bal snd.id := by rw [hs]; rfl
  have hrb : rcv.cur.bal = w.bal rcv.id := by rw [hr]; rfl
  unfold setOwner at h
  simp only [] at h
  split at h
  · cases h
  · rename_i r1 oc' hsend
    cases h
    have q := sendBal_spec hsend
    obtain ⟨q1, q2, q3, q4, q5, q6, q7, q8, q9, q10, q11, q12, q13, q14, q15, q16, q17⟩ := q
    simp at q2 q15 q16 q17
    have hne' : snd.id ≠ r.id := by rw [q1]; exact hne
    rw [(successBranch_w _ _ _ _ _ _ _).1, if_pos hne', q1, q2]
    -- the three puts: owner, name (receiver), then sender and receiver again
    let w1 : World := { w with names := mset w.names nAergoName (a, aName) }
    have ha : w1.accts = w.accts := rfl
    have hb : ∀ x, w1.bal x = w.bal x := bal_of_accts ha
    have ht : w1.total = w.total := total_of_accts ha
    show ((((w1.put a oc'.cur).put rcv.id r.cur).put snd.id (snd.cur.setNonce tx.nonce)).put rcv.id r.cur).total = w.total
    have h1 := total_put w1 a oc'.cur
    have h2 := total_put (w1.put a oc'.cur) rcv.id r.cur
    have h3 := put2_total ((w1.put a oc'.cur).put rcv.id r.cur) (snd.cur.setNonce tx.nonce) r.cur hne
    rw [bal_put_same, bal_put_other _ _ _ _ (Ne.symm hne)] at h3
    have e1 := hb a; have e2 := hb rcv.id; have e3 := hb snd.id
    have hoc : (w.acct a).bal = w.bal a := rfl
    simp at h3
    by_cases har : a = rcv.id
    · -- the new owner is aergo.name itself: SendBalance is a no-op
      subst har
      have hq := q16 rfl
      have e5 : r.cur.bal = w.bal rcv.id := by rw [hq.1]; exact hrb
      have e6 : oc'.cur.bal = w.bal rcv.id := by rw [hq.2]; simp; rfl
      rw [bal_put_same] at h2
      rw [bal_put_other _ _ _ _ (Ne.symm hne)] at h3
      omega
    · have har' : rcv.id ≠ a := fun e => har e.symm
      have := q17 har'
      rw [bal_put_other _ _ _ _ har] at h2
      by_cases has : a = snd.id
      · subst has
        have hz : w.bal rcv.id = 0 := by
          rcases hg with hg | hg
          · exact absurd rfl hg
          · exact hg
        rw [bal_put_same] at h3
        omega
      · rw [bal_put_other _ _ _ _ has] at h3
        omega


theorem execName_total {c : Ctx} {w : World} {tx : Tx} {snd rcv : Copy} {g : GovOut} {bp : Nat} {st : Status}
    (h : execName c w tx snd rcv = g) (he : g.err = none)
    (hs : snd.cur = w.acct snd.id) (hr : rcv.cur = w.acct rcv.id) (hne : snd.id ≠ rcv.id)
    (hsid : snd.id = tx.sender) (hrid : rcv.id = aName) (hg : nameGuard w tx) :
    (successBranch g.w bp tx g.snd g.rcv 0 st).w.total = w.total := by
  unfold execName at h
  simp only [] at h
  split at h
  · subst h; simp at he
  · split at h
    · subst h; simp at he
    · split at h
      · -- v1createName
        rename_i n hgov
        split at h
        · subst h; simp at he
        · rename_i s r w' hp
          subst h
          show (successBranch w' bp tx s r 0 st).w.total = w.total
          refine payName_total (w0 := w) (w := { w with names := mset w.names n (snd.id, snd.id) }) rfl hp hs hr hne ?_
          simp [nameGuard, hgov] at hg
          rw [hrid]; exact hg
      · -- v1updateName
        rename_i n to hgov
        split at h
        · subst h; simp at he
        · split at h
          · subst h; simp at he
          · rename_i s r w' hp
            subst h
            show (successBranch w' bp tx s r 0 st).w.total = w.total
            refine payName_total (w0 := w) (w := { w with names := mset w.names n ((mget w.creator to).getD to, to) }) rfl hp hs hr hne ?_
            simp [nameGuard, hgov] at hg
            rw [hrid]; exact hg
      · -- v1setOwner
        rename_i a hgov
        split at h
        · subst h; simp at he
        · rename_i r w' hso
          subst h
          show (successBranch w' bp tx snd r 0 st).w.total = w.total
          refine setOwner_total hso hs hr hne ?_
          simp [nameGuard, hgov] at hg
          rw [hsid, hrid]; exact hg
      · subst h; simp at he

end Aergo.Ledger
