import Aergo.Lemmas.Ledger

/-! Lemmas about the governance paths of the `Ledger` model (stake / unstake / vote, names). -/

namespace Aergo.Ledger

theorem put2_total (w : World) {a b : Addr} (x y : Acct) (h : a ≠ b) :
    ((w.put a x).put b y).total + w.bal a + w.bal b = w.total + x.bal + y.bal := by
  have h1 := total_put w a x
  have h2 := total_put (w.put a x) b y
  rw [bal_put_other _ _ _ _ h] at h2
  omega

/-- `system.ExecuteSystemTx` touches no account record in the state DB (only the two live copies)
and moves balance between the two copies only. -/
theorem execSystem_spec {c : Ctx} {w : World} {tx : Tx} {snd rcv : Copy} {g : GovOut}
    (h : execSystem c w tx snd rcv = g) (he : g.err = none) :
    g.snd.id = snd.id ∧ g.rcv.id = rcv.id ∧ g.w.accts = w.accts ∧
    g.snd.cur.bal + g.rcv.cur.bal = snd.cur.bal + rcv.cur.bal ∧
    g.snd.cur.nonce = snd.cur.nonce ∧ g.snd.cur.code = snd.cur.code ∧
    g.rcv.cur.nonce = rcv.cur.nonce ∧ g.rcv.cur.code = rcv.cur.code ∧
    (snd.id = rcv.id → g.snd.cur.bal = snd.cur.bal) := by
  unfold execSystem at h
  simp only [] at h
  split at h
  · -- stake
    split at h
    · subst h; simp at he
    · split at h
      · subst h; simp at he
      · split at h
        · subst h; simp at he
        · split at h
          · subst h; simp at he
          · rename_i s r hs
            subst h
            have q := sendBal_spec hs
            refine ⟨q.1, q.2.1, rfl, ?_, q.2.2.2.2.1, ?_, ?_, ?_, ?_⟩
            · exact q.2.2.2.2.2.2.2.2.2.2.2.2.2.2.1
            · exact q.2.2.2.2.2.2.1
            · exact q.2.2.2.2.2.1
            · exact q.2.2.2.2.2.2.2.1
            · intro e; rw [(q.2.2.2.2.2.2.2.2.2.2.2.2.2.2.2.1 e).1]
  · -- unstake
    split at h
    · subst h; simp at he
    · split at h
      · subst h; simp at he
      · split at h
        · subst h; simp at he
        · split at h
          · subst h; simp at he
          · split at h
            · subst h; simp at he
            · rename_i r s hs
              subst h
              have q := sendBal_spec hs
              refine ⟨q.2.1, q.1, rfl, ?_, q.2.2.2.2.2.1, ?_, ?_, ?_, ?_⟩
              · have := q.2.2.2.2.2.2.2.2.2.2.2.2.2.2.1
                show s.cur.bal + r.cur.bal = snd.cur.bal + rcv.cur.bal
                omega
              · exact q.2.2.2.2.2.2.2.1
              · exact q.2.2.2.2.1
              · exact q.2.2.2.2.2.2.1
              · intro e; rw [(q.2.2.2.2.2.2.2.2.2.2.2.2.2.2.2.1 e.symm).2]
  · -- vote
    split at h
    · subst h; simp at he
    · split at h
      · subst h; simp at he
      · subst h; simp
  · subst h; simp at he


/-! ### the name contract -/

theorem successBranch_w (w : World) (bp : Nat) (tx : Tx) (snd rcv : Copy) (fee : Nat) (st : Status) :
    (successBranch w bp tx snd rcv fee st).w =
      (if snd.id ≠ rcv.id then (w.put snd.id (snd.cur.setNonce tx.nonce)).put rcv.id rcv.cur
       else w.put snd.id (snd.cur.setNonce tx.nonce)) ∧
    (successBranch w bp tx snd rcv fee st).bp = bp + fee ∧
    (successBranch w bp tx snd rcv fee st).outcome = .success := by
  simp [successBranch]

/-- paying the name contract through the receiver's own record -/
theorem payRcv_total {w0 w : World} {snd rcv s r : Copy} {amt bp : Nat} {tx : Tx} {st : Status}
    (ha : w.accts = w0.accts) (hsend : sendBal snd rcv amt = some (s, r))
    (hs : snd.cur = w0.acct snd.id) (hr : rcv.cur = w0.acct rcv.id) (hne : snd.id ≠ rcv.id) :
    (successBranch (w.put r.id r.cur) bp tx s r 0 st).w.total = w0.total := by
  have hb : ∀ a, w.bal a = w0.bal a := bal_of_accts ha
  have ht : w.total = w0.total := total_of_accts ha
  have hsb : snd.cur.bal = w0.bal snd.id := by rw [hs]; rfl
  have hrb : rcv.cur.bal = w0.bal rcv.id := by rw [hr]; rfl
  have q := sendBal_spec hsend
  obtain ⟨q1, q2, q3, q4, q5, q6, q7, q8, q9, q10, q11, q12, q13, q14, q15, q16, q17⟩ := q
  have hne' : s.id ≠ r.id := by rw [q1, q2]; exact hne
  rw [(successBranch_w _ _ _ _ _ _ _).1, if_pos hne']
  have h1 := total_put w r.id r.cur
  have h2 := put2_total (w.put r.id r.cur) (s.cur.setNonce tx.nonce) r.cur hne'
  rw [bal_put_same, bal_put_other _ _ _ _ (Ne.symm hne')] at h2
  have e1 := hb snd.id; have e2 := hb rcv.id
  rw [q1, q2]
  rw [q1] at h2; rw [q2] at h1 h2
  simp at h2
  omega

theorem payName_total {w0 w : World} {snd rcv s r : Copy} {amt bp : Nat} {w' : World} {tx : Tx} {st : Status}
    (ha : w.accts = w0.accts) (hp : payName (nameRef w0 snd rcv) snd rcv amt w = some (s, r, w'))
    (hs : snd.cur = w0.acct snd.id) (hr : rcv.cur = w0.acct rcv.id) (hne : snd.id ≠ rcv.id) :
    (successBranch w' bp tx s r 0 st).w.total = w0.total := by
  have hb : ∀ a, w.bal a = w0.bal a := bal_of_accts ha
  have ht : w.total = w0.total := total_of_accts ha
  have hsb : snd.cur.bal = w0.bal snd.id := by rw [hs]; rfl
  have hrb : rcv.cur.bal = w0.bal rcv.id := by rw [hr]; rfl
  unfold nameRef at hp
  split at hp
  · rename_i o ho
    split at hp
    · -- the sender owns the name contract: nameState is the sender's own record
      simp only [payName] at hp
      cases hp
      rw [(successBranch_w _ _ _ _ _ _ _).1, if_pos hne]
      have h1 := total_put w snd.id snd.cur
      have h2 := put2_total (w.put snd.id snd.cur) (snd.cur.setNonce tx.nonce) rcv.cur hne
      rw [bal_put_same, bal_put_other _ _ _ _ hne] at h2
      have := hb snd.id; have := hb rcv.id
      simp at h2
      omega
    · rename_i hso
      split at hp
      · -- aergo.name owns itself: nameState is the receiver's own record
        simp only [payName] at hp
        split at hp
        · cases hp
        · rename_i s1 r1 hsend
          cases hp
          exact payRcv_total ha hsend hs hr hne
      · -- somebody else owns it: nameState is a fresh copy of the owner
        rename_i hro
        simp only [payName] at hp
        split at hp
        · cases hp
        · rename_i s1 cp' hsend
          cases hp
          have q := sendBal_spec hsend
          obtain ⟨q1, q2, q3, q4, q5, q6, q7, q8, q9, q10, q11, q12, q13, q14, q15, q16, q17⟩ := q
          simp at q2 q17
          have q17' := q17 hso
          rw [(successBranch_w _ _ _ _ _ _ _).1, q1, if_pos hne, q2]
          have h1 := total_put w o cp'.cur
          have h2 := put2_total (w.put o cp'.cur) (s.cur.setNonce tx.nonce) rcv.cur hne
          have hso' : o ≠ snd.id := fun e => hso e.symm
          have hro' : o ≠ rcv.id := fun e => hro e.symm
          rw [bal_put_other _ _ _ _ hso', bal_put_other _ _ _ _ hro'] at h2
          have e1 := hb snd.id; have e2 := hb rcv.id; have e3 := hb o
          have hcp : (w0.acct o).bal = w0.bal o := rfl
          simp at h2
          omega
  · -- no owner: nameState is the receiver
    simp only [payName] at hp
    split at hp
    · cases hp
    · rename_i s1 r1 hsend
      cases hp
      exact payRcv_total ha hsend hs hr hne

theorem setOwner_total {w : World} {snd rcv s r : Copy} {a : Addr} {w' : World} {bp : Nat} {tx : Tx} {st : Status}
    (h : setOwner w snd rcv a = some (s, r, w'))
    (hs : snd.cur = w.acct snd.id) (hr : rcv.cur = w.acct rcv.id) (hne : snd.id ≠ rcv.id) :
    (successBranch w' bp tx s r 0 st).w.total = w.total := by
  have hsb : snd.cur.bal = w.bal snd.id := by rw [hs]; rfl
  have hrb : rcv.cur.bal = w.bal rcv.id := by rw [hr]; rfl
  unfold setOwner at h
  simp only [] at h
  let w1 : World := { w with names := mset w.names nAergoName (a, aName) }
  have ha : w1.accts = w.accts := rfl
  have hb : ∀ x, w1.bal x = w.bal x := bal_of_accts ha
  have ht : w1.total = w.total := total_of_accts ha
  have e2 := hb rcv.id; have e3 := hb snd.id
  split at h
  · -- the new owner is the sender: its own live record is credited
    split at h
    · cases h
    · rename_i r1 s1 hsend
      cases h
      have q := sendBal_spec hsend
      obtain ⟨q1, q2, q3, q4, q5, q6, q7, q8, q9, q10, q11, q12, q13, q14, q15, q16, q17⟩ := q
      have hne' : s.id ≠ r.id := by rw [q1, q2]; exact hne
      rw [(successBranch_w _ _ _ _ _ _ _).1, if_pos hne', q1, q2]
      show ((((w1.put snd.id s.cur).put rcv.id r.cur).put snd.id (s.cur.setNonce tx.nonce)).put rcv.id r.cur).total = w.total
      have h1 := put2_total w1 s.cur r.cur hne
      have h3 := put2_total ((w1.put snd.id s.cur).put rcv.id r.cur) (s.cur.setNonce tx.nonce) r.cur hne
      rw [bal_put_same, bal_put_other _ _ _ _ (Ne.symm hne), bal_put_same] at h3
      simp at h3
      omega
  · split at h
    · -- the new owner is aergo.name itself
      cases h
      rw [(successBranch_w _ _ _ _ _ _ _).1, if_pos hne]
      show ((((w1.put rcv.id rcv.cur).put rcv.id rcv.cur).put snd.id (snd.cur.setNonce tx.nonce)).put rcv.id rcv.cur).total = w.total
      have h1 := total_put w1 rcv.id rcv.cur
      have h2 := total_put (w1.put rcv.id rcv.cur) rcv.id rcv.cur
      have h3 := put2_total ((w1.put rcv.id rcv.cur).put rcv.id rcv.cur) (snd.cur.setNonce tx.nonce) rcv.cur hne
      rw [bal_put_same] at h2
      rw [bal_put_same, bal_put_other _ _ _ _ (Ne.symm hne), bal_put_other _ _ _ _ (Ne.symm hne)] at h3
      simp at h3
      omega
    · rename_i has har
      split at h
      · cases h
      · rename_i r1 oc' hsend
        cases h
        have q := sendBal_spec hsend
        obtain ⟨q1, q2, q3, q4, q5, q6, q7, q8, q9, q10, q11, q12, q13, q14, q15, q16, q17⟩ := q
        simp at q2 q15 q16 q17
        have hne' : snd.id ≠ r.id := by rw [q1]; exact hne
        rw [(successBranch_w _ _ _ _ _ _ _).1, if_pos hne', q1, q2]
        show ((((w1.put a oc'.cur).put rcv.id r.cur).put snd.id (snd.cur.setNonce tx.nonce)).put rcv.id r.cur).total = w.total
        have h1 := total_put w1 a oc'.cur
        have h2 := total_put (w1.put a oc'.cur) rcv.id r.cur
        have h3 := put2_total ((w1.put a oc'.cur).put rcv.id r.cur) (snd.cur.setNonce tx.nonce) r.cur hne
        rw [bal_put_same, bal_put_other _ _ _ _ (Ne.symm hne)] at h3
        have e1 := hb a
        have hoc : (w.acct a).bal = w.bal a := rfl
        have har' : rcv.id ≠ a := fun e => har e.symm
        have := q17 har'
        rw [bal_put_other _ _ _ _ har] at h2
        rw [bal_put_other _ _ _ _ has] at h3
        simp at h3
        omega

theorem execName_total {c : Ctx} {w : World} {tx : Tx} {snd rcv : Copy} {g : GovOut} {bp : Nat} {st : Status}
    (h : execName c w tx snd rcv = g) (he : g.err = none)
    (hs : snd.cur = w.acct snd.id) (hr : rcv.cur = w.acct rcv.id) (hne : snd.id ≠ rcv.id) :
    (successBranch g.w bp tx g.snd g.rcv 0 st).w.total = w.total := by
  unfold execName at h
  simp only [] at h
  split at h
  · subst h; simp at he
  · split at h
    · subst h; simp at he
    · split at h
      · -- v1createName
        rename_i n hgov
        split at h
        · subst h; simp at he
        · rename_i s r w' hp
          subst h
          show (successBranch w' bp tx s r 0 st).w.total = w.total
          exact payName_total (w0 := w) (w := { w with names := mset w.names n (snd.id, snd.id) }) rfl hp hs hr hne
      · -- v1updateName
        rename_i n to hgov
        split at h
        · subst h; simp at he
        · split at h
          · subst h; simp at he
          · rename_i s r w' hp
            subst h
            show (successBranch w' bp tx s r 0 st).w.total = w.total
            exact payName_total (w0 := w) (w := { w with names := mset w.names n ((mget w.creator to).getD to, to) }) rfl hp hs hr hne
      · -- v1setOwner
        rename_i a hgov
        split at h
        · subst h; simp at he
        · rename_i s r w' hso
          subst h
          show (successBranch w' bp tx s r 0 st).w.total = w.total
          exact setOwner_total hso hs hr hne
      · subst h; simp at he

/-! ### aergo.name itself as the sender: `receiver = sender` -/

theorem successBranch_own_total {w0 w : World} {bp : Nat} {tx : Tx} {s r : Copy} {st : Status}
    (hid : s.id = r.id) (ht : w.total + s.cur.bal = w0.total + w.bal s.id) :
    (successBranch w bp tx s r 0 st).w.total = w0.total := by
  rw [(successBranch_w _ _ _ _ _ _ _).1, if_neg (by simp [hid])]
  have h1 := total_put w s.id (s.cur.setNonce tx.nonce)
  rw [setNonce_bal] at h1
  omega

/-- the name contract's paths when aergo.name itself is the sender (`receiver = sender`, one record) -/
theorem execName_own_total {c : Ctx} {w : World} {tx : Tx} {acc : Copy} {g : GovOut} {bp : Nat} {st : Status}
    (h : execName c w tx acc acc = g) (he : g.err = none) (hs : acc.cur = w.acct acc.id) :
    (successBranch g.w bp tx g.snd g.rcv 0 st).w.total = w.total := by
  have hb : acc.cur.bal = w.bal acc.id := by rw [hs]; rfl
  -- paying for a name with one record
  have pay : ∀ (w1 : World) (s r : Copy) (w' : World), w1.accts = w.accts →
      payName (nameRef w acc acc) acc acc tx.amount w1 = some (s, r, w') →
      (successBranch w' bp tx s r 0 st).w.total = w.total := by
    intro w1 s r w' ha hp
    have hb1 : ∀ a, w1.bal a = w.bal a := bal_of_accts ha
    have ht1 : w1.total = w.total := total_of_accts ha
    unfold nameRef at hp
    split at hp
    · rename_i o ho
      split at hp
      · simp only [payName] at hp
        cases hp
        refine successBranch_own_total rfl ?_
        have h1 := total_put w1 acc.id acc.cur
        rw [bal_put_same]
        have := hb1 acc.id
        omega
      · rename_i hso
        simp only [payName] at hp
        split at hp
        · cases hp
        · rename_i s1 cp' hsend
          cases hp
          have q := sendBal_spec hsend
          obtain ⟨q1, q2, q3, q4, q5, q6, q7, q8, q9, q10, q11, q12, q13, q14, q15, q16, q17⟩ := q
          simp at q2 q17
          have q17' := q17 hso
          refine successBranch_own_total (by rw [q1]) ?_
          have h1 := total_put w1 o cp'.cur
          have hso' : o ≠ acc.id := fun e => hso e.symm
          rw [q2, q1, bal_put_other _ _ _ _ hso']
          have := hb1 acc.id; have := hb1 o
          have hcp : (w.acct o).bal = w.bal o := rfl
          omega
    · simp only [payName, sendBal_same rfl] at hp
      cases hp
      refine successBranch_own_total rfl ?_
      have h1 := total_put w1 acc.id acc.cur
      rw [bal_put_same]
      have := hb1 acc.id
      omega
  unfold execName at h
  simp only [] at h
  split at h
  · subst h; simp at he
  · split at h
    · subst h; simp at he
    · split at h
      · rename_i n hgov
        split at h
        · subst h; simp at he
        · rename_i s r w' hp
          subst h
          exact pay { w with names := mset w.names n (acc.id, acc.id) } s r w' rfl hp
      · rename_i n to hgov
        split at h
        · subst h; simp at he
        · split at h
          · subst h; simp at he
          · rename_i s r w' hp
            subst h
            exact pay { w with names := mset w.names n ((mget w.creator to).getD to, to) } s r w' rfl hp
      · rename_i a hgov
        split at h
        · subst h; simp at he
        · rename_i s r w' hso
          subst h
          show (successBranch w' bp tx s r 0 st).w.total = w.total
          unfold setOwner at hso
          simp only [] at hso
          split at hso
          · -- the new owner is aergo.name itself
            simp only [sendBal_same rfl] at hso
            cases hso
            refine successBranch_own_total rfl ?_
            show ((({ w with names := mset w.names nAergoName (a, aName) } : World).put acc.id acc.cur).put acc.id acc.cur).total + acc.cur.bal = _
            have h1 := total_put ({ w with names := mset w.names nAergoName (a, aName) } : World) acc.id acc.cur
            have h2 := total_put (({ w with names := mset w.names nAergoName (a, aName) } : World).put acc.id acc.cur) acc.id acc.cur
            rw [bal_put_same] at h2 ⊢
            have e1 : ({ w with names := mset w.names nAergoName (a, aName) } : World).total = w.total := rfl
            have e2 : ({ w with names := mset w.names nAergoName (a, aName) } : World).bal acc.id = w.bal acc.id := rfl
            omega
          · rename_i has
            split at hso
            · cases hso
            · rename_i r1 oc' hsend
              simp only [if_true] at hso
              cases hso
              have q := sendBal_spec hsend
              obtain ⟨q1, q2, q3, q4, q5, q6, q7, q8, q9, q10, q11, q12, q13, q14, q15, q16, q17⟩ := q
              simp at q2 q17
              have has' : acc.id ≠ a := fun e => has e.symm
              have q17' := q17 has'
              refine successBranch_own_total rfl ?_
              have h1 := total_put ({ w with names := mset w.names nAergoName (a, aName) } : World) a oc'.cur
              have h2 := total_put (({ w with names := mset w.names nAergoName (a, aName) } : World).put a oc'.cur) s.id s.cur
              have e1 : ({ w with names := mset w.names nAergoName (a, aName) } : World).total = w.total := rfl
              have e2 : ∀ x, ({ w with names := mset w.names nAergoName (a, aName) } : World).bal x = w.bal x := fun _ => rfl
              rw [q1] at h2
              rw [bal_put_other _ _ _ _ has] at h2
              rw [q2, q1, bal_put_same]
              have := e2 a; have := e2 acc.id
              have hoc : (w.acct a).bal = w.bal a := rfl
              omega
      · subst h; simp at he

end Aergo.Ledger
