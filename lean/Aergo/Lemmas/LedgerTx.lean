import Aergo.Lemmas.LedgerGov

/-! `executeTx` as a whole: Σ balances + BpReward (C01). -/

namespace Aergo.Ledger

/-- What the signature check (C04) guarantees about the sender of a transaction: it is an ordinary key
account — not the name contract, not a contract account — and the address of a contract it deploys
(a SHA-256 value with the 0x0C prefix) is not its own address. -/
structure Signable (w : World) (tx : Tx) : Prop where
  notName : tx.sender ≠ aName
  noCode : (w.acct tx.sender).code = false
  fresh : tx.recipient = none → tx.newAddr ≠ tx.sender

/-- What the conservation proof still uses of the sender — `Signable` cut down to the transaction shape each
clause is needed for. Since `executeTx` uses the sender's record as the receiver's whenever the resolved
recipient is the sender's own account (fix 343afa85), a transaction of a contract account or of aergo.name to
itself needs no assumption any more (`notName` is gone); what is left:
* `noCode`: a REDEPLOY whose recipient is its own sender (the one case that still works on two records of one
  account) is not sent by a contract;
* `fresh`: the address of a contract the tx deploys is not the sender's own.
Both are facts about a *signed* transaction (C04). -/
structure SenderOK (w : World) (tx : Tx) : Prop where
  noCode : tx.type = .redeploy → tx.recipient = some tx.sender → (w.acct tx.sender).code = false
  fresh : tx.recipient = none → tx.newAddr ≠ tx.sender

theorem Signable.senderOK {w : World} {tx : Tx} (h : Signable w tx) : SenderOK w tx :=
  ⟨fun _ _ => h.noCode, h.fresh⟩

theorem resetAccount_some {cp : Copy} {fee : Nat} {n : Option Nat} {a : Acct}
    (h : resetAccount cp (some fee) n = some a) : fee ≤ cp.old.bal ∧ a.bal = cp.old.bal - fee := by
  unfold resetAccount at h
  simp only [] at h
  split at h
  · cases h
  · rename_i hle
    simp at h
    subst h
    have := Nat.le_of_not_lt hle
    cases n <;> simp [absSub, this]

theorem resetAccount_nofee {cp : Copy} {n : Option Nat} {a : Acct}
    (h : resetAccount cp none n = some a) : a.bal = cp.old.bal := by
  unfold resetAccount at h
  simp at h
  subst h
  cases n <;> simp

/-- the runtime-error branch conserves Σ + BpReward when the VM left the world as it was -/
theorem runtimeBranch_total {w : World} {bp : Nat} {tx : Tx} {snd rcv : Copy} {fee : Nat} {leak dirty : Bool}
    (hso : snd.old = w.acct snd.id) (hro : rcv.old = w.acct rcv.id) :
    (runtimeBranch w w bp tx snd rcv fee leak dirty).w.total + (runtimeBranch w w bp tx snd rcv fee leak dirty).bp
      = w.total + bp := by
  have hsb : snd.old.bal = w.bal snd.id := by rw [hso]; rfl
  have hrb : rcv.old.bal = w.bal rcv.id := by rw [hro]; rfl
  unfold runtimeBranch
  simp only []
  split
  · split
    · rfl
    · rename_i a ha
      have := resetAccount_some ha
      have h1 := total_put w snd.id a
      simp only []
      omega
  · rename_i hc
    have hne : snd.id ≠ rcv.id := fun e => hc (Or.inr e)
    split
    · rfl
    · rename_i a ha
      split
      · rfl
      · rename_i b hb
        have q1 := resetAccount_nofee ha
        have q2 := resetAccount_some hb
        have h2 := put2_total w a b hne
        simp only []
        omega


/-- the same when the VM may have left a different world: either the result says so (`leak`), or the
branch ended in a rejection (world of before the tx) -/
theorem runtimeBranch_total' {w0 w : World} {bp : Nat} {tx : Tx} {snd rcv : Copy} {fee : Nat} {leak dirty : Bool}
    (hw : leak = false → w = w0)
    (hso : snd.old = w0.acct snd.id) (hro : rcv.old = w0.acct rcv.id)
    (hl : (runtimeBranch w0 w bp tx snd rcv fee leak dirty).leak = false) :
    (runtimeBranch w0 w bp tx snd rcv fee leak dirty).w.total + (runtimeBranch w0 w bp tx snd rcv fee leak dirty).bp
      = w0.total + bp := by
  cases leak
  · have := hw rfl
    subst this
    exact runtimeBranch_total hso hro
  · unfold runtimeBranch at hl ⊢
    simp only [] at hl ⊢
    split
    · split
      · rfl
      · rename_i a ha
        rw [if_pos (by assumption)] at hl
        simp [ha] at hl
    · split
      · rfl
      · rename_i a ha
        split
        · rfl
        · rename_i b hb
          rw [if_neg (by assumption)] at hl
          simp [ha, hb] at hl

theorem subBalance_facts (cp : Copy) (x : Nat) :
    (cp.subBalance x).id = cp.id ∧ (cp.subBalance x).old = cp.old ∧
    (cp.subBalance x).cur.nonce = cp.cur.nonce ∧ (cp.subBalance x).cur.code = cp.cur.code ∧
    (x ≤ cp.cur.bal → (cp.subBalance x).cur.bal = cp.cur.bal - x) := by
  simp [Copy.subBalance, Copy.setBal, absSub]
  intro h hlt; omega

/-- `finishVm` conserves Σ + BpReward for two different accounts, given what validation guarantees
about the base fee. -/
theorem finishVm_total {c : Ctx} {w : World} {bp : Nat} {tx : Tx} {snd rcv : Copy} {isFD : Bool} {st : Status}
    (hsc : snd.cur = w.acct snd.id) (hso : snd.old = w.acct snd.id)
    (hrc : rcv.cur = w.acct rcv.id) (hro : rcv.old = w.acct rcv.id)
    (hne : snd.id ≠ rcv.id)
    (hcov : isFD = false → tx.amount ≤ snd.cur.bal → txBaseFee c tx.payloadLen ≤ snd.cur.bal - tx.amount)
    (hcovFD : isFD = true → txBaseFee c tx.payloadLen ≤ rcv.cur.bal)
    (hl : (finishVm w bp tx st isFD (execute c w tx snd rcv isFD)).leak = false) :
    (finishVm w bp tx st isFD (execute c w tx snd rcv isFD)).w.total +
      (finishVm w bp tx st isFD (execute c w tx snd rcv isFD)).bp = w.total + bp := by
  generalize ho : execute c w tx snd rcv isFD = o at hl ⊢
  obtain ⟨ok, cov⟩ := execute_spec ho
  have hsb : snd.cur.bal = w.bal snd.id := by rw [hsc]; rfl
  have hrb : rcv.cur.bal = w.bal rcv.id := by rw [hrc]; rfl
  unfold finishVm at hl ⊢
  simp only [] at hl ⊢
  split
  · rfl
  · -- runtime error
    rename_i herr
    rw [herr] at hl
    simp only [] at hl
    refine runtimeBranch_total' (ok.runtime herr) ?_ ?_ hl
    · cases isFD <;> simp [ok.sid, ok.sold, hso, (subBalance_facts _ _).1, (subBalance_facts _ _).2.1]
    · cases isFD <;> simp [ok.rid, ok.rold, hro, (subBalance_facts _ _).1, (subBalance_facts _ _).2.1]
  · -- success
    rename_i herr
    have hsum := ok.sum herr
    have hcv := cov herr
    have a1 : o.w.bal snd.id = w.bal snd.id := by simp [World.bal, ok.asid]
    have a2 : o.w.bal rcv.id = w.bal rcv.id := by simp [World.bal, ok.arid]
    -- the fee is covered by the payer's record
    have hfee : o.fee ≤ (if isFD then o.rcv else o.snd).cur.bal := by
      rcases hcv with h | ⟨h1, h2, h3⟩
      · exact h
      · have q := sendBal_spec h3
        have q17 := q.2.2.2.2.2.2.2.2.2.2.2.2.2.2.2.2 hne
        cases isFD
        · have := hcov rfl q17.1
          simp; omega
        · have := hcovFD rfl
          simp; omega
    cases isFD
    · simp only [Bool.false_eq_true, if_false] at hfee ⊢
      have sf := subBalance_facts o.snd o.fee
      have hne' : (o.snd.subBalance o.fee).id ≠ o.rcv.id := by rw [sf.1, ok.sid, ok.rid]; exact hne
      rw [(successBranch_w _ _ _ _ _ _ _).1, (successBranch_w _ _ _ _ _ _ _).2.1, if_pos hne']
      rw [sf.1, ok.sid, ok.rid] at hne' ⊢
      have h2 := put2_total o.w ((o.snd.subBalance o.fee).cur.setNonce tx.nonce) o.rcv.cur hne'
      have := sf.2.2.2.2 hfee
      simp at h2
      omega
    · simp only [if_true] at hfee ⊢
      have sf := subBalance_facts o.rcv o.fee
      have hne' : o.snd.id ≠ (o.rcv.subBalance o.fee).id := by rw [sf.1, ok.sid, ok.rid]; exact hne
      rw [(successBranch_w _ _ _ _ _ _ _).1, (successBranch_w _ _ _ _ _ _ _).2.1, if_pos hne']
      rw [sf.1, ok.sid, ok.rid] at hne' ⊢
      have h2 := put2_total o.w (o.snd.cur.setNonce tx.nonce) (o.rcv.subBalance o.fee).cur hne'
      have := sf.2.2.2.2 hfee
      simp at h2
      omega


/-- a transaction whose receiver is the sender's own account (two records of one account) and holds
no code never reaches the VM: nothing but the two live records can change -/
theorem execute_self {c : Ctx} {w : World} {tx : Tx} {snd rcv : Copy} {isFD : Bool} {o : ExecOut}
    (h : execute c w tx snd rcv isFD = o) (hid : snd.id = rcv.id) (hc : rcv.cur.code = false)
    (hd : rcv.deploy = true → rcv.redeploy = true) :
    o.w = w ∧ o.leak = false ∧ o.snd = snd ∧ o.rcv = rcv ∧ (o.err = none → o.fee = txBaseFee c tx.payloadLen) := by
  unfold execute at h
  simp only [sendBal_same hid] at h
  split at h
  · subst h; simp
  · subst h; simp
  · split at h
    · subst h; simp
    · split at h
      · subst h; simp
      · split at h
        · subst h; simp
        · -- the VM would be entered only with code or a deploy flag
          unfold vmCall at h
          simp only [] at h
          by_cases hdep : rcv.deploy = true
          · -- REDEPLOY of an account without code: checkRedeploy refuses
            rename_i hn _
            have := hd hdep
            simp [this, hc] at hn
          · simp [hdep, hc] at h
            subst h; simp

theorem finishVm_self_total {c : Ctx} {w : World} {bp : Nat} {tx : Tx} {snd rcv : Copy} {st : Status}
    (hsc : snd.cur = w.acct snd.id) (hso : snd.old = w.acct snd.id) (hro : rcv.old = w.acct rcv.id)
    (hid : snd.id = rcv.id) (hc : rcv.cur.code = false) (hd : rcv.deploy = true → rcv.redeploy = true)
    (hcov : txBaseFee c tx.payloadLen ≤ snd.cur.bal) :
    (finishVm w bp tx st false (execute c w tx snd rcv false)).w.total +
      (finishVm w bp tx st false (execute c w tx snd rcv false)).bp = w.total + bp := by
  generalize ho : execute c w tx snd rcv false = o
  obtain ⟨e1, e2, e3, e4, e5⟩ := execute_self ho hid hc hd
  have hsb : snd.cur.bal = w.bal snd.id := by rw [hsc]; rfl
  unfold finishVm
  simp only [Bool.false_eq_true, if_false]
  split
  · rfl
  · rw [e1]
    refine runtimeBranch_total ?_ ?_
    · rw [(subBalance_facts _ _).2.1, (subBalance_facts _ _).1, e3]; exact hso
    · rw [e4]; exact hro
  · rename_i herr
    have hf := e5 herr
    have sf := subBalance_facts o.snd o.fee
    rw [e3] at sf
    have hne : ¬ ((o.snd.subBalance o.fee).id ≠ o.rcv.id) := by rw [e3, e4, sf.1]; simp [hid]
    rw [(successBranch_w _ _ _ _ _ _ _).1, (successBranch_w _ _ _ _ _ _ _).2.1, if_neg hne, e1, e3, sf.1]
    have h1 := total_put w snd.id ((snd.subBalance o.fee).cur.setNonce tx.nonce)
    have hle : o.fee ≤ snd.cur.bal := by rw [hf]; exact hcov
    have := sf.2.2.2.2 hle
    rw [setNonce_bal, this] at h1
    omega


/-! ### `receiver = sender`: one live record -/

theorem runXfers_own {id : Addr} {xs : List (Addr × Nat)} :
    ∀ {snd rcv : Acct} {w : World} {third : Bool} {sa ra : Acct} {w' : World} {t' : Bool},
      runXfers id id snd rcv w third xs = .ok sa ra w' t' → sa = snd := by
  induction xs with
  | nil =>
    intro snd rcv w third sa ra w' t' h
    simp [runXfers] at h
    exact h.1.symm
  | cons x xs ih =>
    obtain ⟨t, amt⟩ := x
    intro snd rcv w third sa ra w' t' h
    unfold runXfers at h
    by_cases h1 : t = id
    · simp only [h1, if_true] at h
      exact ih h
    · simp only [h1, if_false] at h
      by_cases h2 : rcv.bal < amt
      · simp [h2] at h
      · simp only [h2, if_false] at h
        exact ih h

/-- the VM on ONE record (`receiver = sender`): the sender-side copy of the result is untouched, everything
the call did is in the receiver-side copy -/
theorem vmCall_own {w : World} {tx : Tx} {acc : Copy} {base : Nat} {o : ExecOut}
    (h : vmCall w tx acc acc true base = o) : o.snd.cur = acc.cur := by
  unfold vmCall at h
  simp only [] at h
  split at h
  · subst h; rfl
  · rename_i rcv' pend hpre
    have hr1 : rcv'.id = acc.id := by
      split at hpre
      · split at hpre
        · cases hpre
        · cases hpre; rfl
      · split at hpre
        · cases hpre; rfl
        · cases hpre
    split at h
    · subst h; rfl
    · split at h
      · subst h; rfl
      · subst h; rfl
    · subst h; rfl
    · subst h; rfl
    · split at h
      · subst h; rfl
      · rename_i sa ra w' t' hx
        rw [hr1] at hx
        have := runXfers_own hx
        subst h
        simp only [if_true]
        split <;> simpa using this
/-- the runtime-error branch on ONE record conserves Σ + BpReward when the VM left the world as it was -/
theorem runtimeBranch_own_total {w : World} {bp : Nat} {tx : Tx} {obj : Copy} {fee : Nat} {leak dirty : Bool}
    (ho : obj.old = w.acct obj.id) :
    (runtimeBranch w w bp tx obj obj fee leak dirty).w.total + (runtimeBranch w w bp tx obj obj fee leak dirty).bp
      = w.total + bp := by
  have hb : obj.old.bal = w.bal obj.id := by rw [ho]; rfl
  unfold runtimeBranch
  simp only [ne_eq, or_true, if_true]
  split
  · rfl
  · rename_i a ha
    have := resetAccount_some ha
    have h1 := total_put w obj.id a
    simp only []
    omega

theorem runtimeBranch_own_leak {w0 w : World} {bp : Nat} {tx : Tx} {obj : Copy} {fee : Nat} {dirty : Bool}
    (hl : (runtimeBranch w0 w bp tx obj obj fee true dirty).leak = false) :
    (runtimeBranch w0 w bp tx obj obj fee true dirty).w = w0 ∧ (runtimeBranch w0 w bp tx obj obj fee true dirty).bp = bp := by
  unfold runtimeBranch at hl ⊢
  simp only [ne_eq, or_true, if_true] at hl ⊢
  split
  · exact ⟨rfl, rfl⟩
  · rename_i a ha
    rw [ha] at hl
    simp at hl

/-- what `executeOwn` guarantees about its outputs -/
theorem executeOwn_spec {c : Ctx} {w : World} {tx : Tx} {acc : Copy} {isFD : Bool} {o : ExecOut}
    (hoo : executeOwn c w tx acc isFD = o) :
    o.rcv.id = acc.id ∧ o.rcv.old = acc.old ∧ o.w.acct acc.id = w.acct acc.id ∧
    (o.err = some .runtime → o.leak = false → o.w = w) := by
  unfold executeOwn at hoo
  simp only [] at hoo
  split at hoo
  · subst hoo; simp
  · subst hoo; simp
  · split at hoo
    · subst hoo; simp
    · obtain ⟨ok, _⟩ := vmCall_spec hoo
      exact ⟨ok.rid, ok.rold, ok.arid, ok.runtime⟩

/-- what an execution on ONE record (`executeOwn`, `executeMulti`) guarantees about its outputs -/
structure OwnOK (w : World) (acc : Copy) (o : ExecOut) : Prop where
  rid : o.rcv.id = acc.id
  rold : o.rcv.old = acc.old
  arid : o.w.acct acc.id = w.acct acc.id
  runtime : o.err = some .runtime → o.leak = false → o.w = w
  sum : o.err = none → o.w.total + o.rcv.cur.bal = w.total + acc.cur.bal ∧ o.fee ≤ o.rcv.cur.bal

/-- `finishOwn` conserves Σ + BpReward -/
theorem finishOwn_total_of {w : World} {bp : Nat} {tx : Tx} {acc : Copy} {st : Status} {o : ExecOut}
    (hc : acc.cur = w.acct acc.id) (ho : acc.old = w.acct acc.id) (ok : OwnOK w acc o)
    (hl : (finishOwn w bp tx st o).leak = false) :
    (finishOwn w bp tx st o).w.total + (finishOwn w bp tx st o).bp = w.total + bp := by
  have hb : acc.cur.bal = w.bal acc.id := by rw [hc]; rfl
  obtain ⟨k1, k2, k3, k4, k5⟩ := ok
  have sf := subBalance_facts o.rcv o.fee
  unfold finishOwn at hl ⊢
  simp only [] at hl ⊢
  split
  · rfl
  · rename_i herr
    rw [herr] at hl
    simp only [] at hl
    cases hlk : o.leak
    · have hw := k4 herr hlk
      rw [hw]
      refine runtimeBranch_own_total ?_
      rw [sf.2.1, sf.1, k1, k2]; exact ho
    · rw [hlk] at hl
      have := runtimeBranch_own_leak hl
      rw [this.1, this.2]
  · rename_i herr
    obtain ⟨hsum, hfee⟩ := k5 herr
    rw [(successBranch_w _ _ _ _ _ _ _).1, (successBranch_w _ _ _ _ _ _ _).2.1]
    simp only [ne_eq, not_true_eq_false, if_false]
    rw [sf.1, k1]
    have h1 := total_put o.w acc.id ((o.rcv.subBalance o.fee).cur.setNonce tx.nonce)
    have hb2 : o.w.bal acc.id = w.bal acc.id := by simp [World.bal, k3]
    have := sf.2.2.2.2 hfee
    rw [setNonce_bal, this] at h1
    omega

theorem executeOwn_ok {c : Ctx} {w : World} {tx : Tx} {acc : Copy} {isFD : Bool} {o : ExecOut}
    (hcov : txBaseFee c tx.payloadLen ≤ acc.cur.bal) (hoo : executeOwn c w tx acc isFD = o) : OwnOK w acc o := by
  unfold executeOwn at hoo
  simp only [] at hoo
  split at hoo
  · subst hoo; exact ⟨rfl, rfl, rfl, by simp, by simp⟩
  · subst hoo; exact ⟨rfl, rfl, rfl, by simp, fun _ => ⟨rfl, hcov⟩⟩
  · split at hoo
    · subst hoo; exact ⟨rfl, rfl, rfl, by simp, by simp⟩
    · have hs := vmCall_spec hoo
      have hown := vmCall_own hoo
      obtain ⟨ok, cov⟩ := hs
      refine ⟨ok.rid, ok.rold, ok.arid, ok.runtime, fun he => ⟨?_, ?_⟩⟩
      · have := ok.sum he
        rw [hown] at this
        omega
      · simpa using cov he

/-- `finishOwn ∘ executeOwn` conserves Σ + BpReward, given what validation guarantees about the base fee -/
theorem finishOwn_total {c : Ctx} {w : World} {bp : Nat} {tx : Tx} {acc : Copy} {isFD : Bool} {st : Status}
    (hc : acc.cur = w.acct acc.id) (ho : acc.old = w.acct acc.id) (hcov : txBaseFee c tx.payloadLen ≤ acc.cur.bal)
    (hl : (finishOwn w bp tx st (executeOwn c w tx acc isFD)).leak = false) :
    (finishOwn w bp tx st (executeOwn c w tx acc isFD)).w.total + (finishOwn w bp tx st (executeOwn c w tx acc isFD)).bp
      = w.total + bp :=
  finishOwn_total_of hc ho (executeOwn_ok hcov rfl) hl

/-- the scripted MULTICALL on the sender's one record -/
theorem executeMulti_ok {c : Ctx} {w : World} {tx : Tx} {acc : Copy} {o : ExecOut}
    (hoo : executeMulti c w tx acc = o) : OwnOK w acc o := by
  unfold executeMulti at hoo
  simp only [] at hoo
  split at hoo
  · subst hoo; exact ⟨rfl, rfl, rfl, by simp, by simp⟩
  · unfold vmMulti at hoo
    split at hoo
    · subst hoo; exact ⟨rfl, rfl, rfl, by simp, by simp⟩
    · split at hoo
      · subst hoo; exact ⟨rfl, rfl, rfl, by simp, by simp⟩
      · subst hoo; exact ⟨rfl, rfl, rfl, by simp, by simp⟩
    · subst hoo; exact ⟨rfl, rfl, rfl, by simp, by simp⟩
    · subst hoo; exact ⟨rfl, rfl, rfl, by simp, by simp⟩
    · split at hoo
      · subst hoo; exact ⟨rfl, rfl, rfl, by simp, by simp⟩
      · rename_i sa ra w' t' hx
        have hsa := runXfers_own hx
        obtain ⟨x1, x2, x3, x4, x5, x6, x7, x8, x9⟩ := runXfers_ok hx
        simp only [] at hoo
        split at hoo
        · subst hoo
          refine ⟨rfl, rfl, x3, ?_, by simp⟩
          intro _ hl
          simpa using hl
        · rename_i hfee
          subst hoo
          refine ⟨rfl, rfl, x3, by simp, fun _ => ⟨?_, Nat.le_of_not_lt hfee⟩⟩
          rw [hsa] at x1
          simp only []
          omega

/-! ### what the validation steps guarantee -/

theorem validateSender_cov {c : Ctx} {tx : Tx} {st : Acct} (h : validateSender c tx st = none)
    (ht : tx.type = .normal ∨ tx.type = .redeploy ∨ tx.type = .transfer ∨ tx.type = .call ∨ tx.type = .deploy) :
    tx.amount ≤ st.bal ∧ txBaseFee c tx.payloadLen ≤ st.bal - tx.amount := by
  unfold validateSender at h
  split at h
  · cases h
  · simp only [] at h
    split at h
    · cases h
    · rename_i hr
      rcases ht with ht | ht | ht | ht | ht <;> rw [ht] at hr <;> simp only [] at hr <;>
      · split at hr
        · cases hr
        · rename_i hlt
          exact ⟨Nat.le_of_not_lt hlt, base_le_maxFee hr⟩

theorem mkReceiver_spec {w : World} {tx : Tx} {rcv : Copy} {st : Status} (h : mkReceiver w tx = .ok (rcv, st)) :
    rcv.cur = w.acct rcv.id ∧ rcv.old = w.acct rcv.id ∧
    (∀ r, tx.recipient = some r → rcv.id = r ∧ (rcv.deploy = true → rcv.redeploy = true)) ∧
    (tx.recipient = none → rcv.id = tx.newAddr) := by
  unfold mkReceiver at h
  split at h
  · rename_i r hr
    simp only [] at h
    split at h
    · cases h; simp [hr]
    · cases h; simp [hr]
  · rename_i hr
    simp only [] at h
    split at h
    · cases h
    · cases h; simp [hr]

/-- A fee-delegation transaction is accepted by `CheckFeeDelegation` only if its recipient is a contract
(`GetABI` → "cannot find contract"); the model carries that check (`executeTx`, FEEDELEGATION case), so
this is a *theorem* about executed transactions now (`fdTarget_enforced`), no longer a hypothesis. -/
def FdTarget (w : World) (tx : Tx) : Prop :=
  tx.type = .feeDelegation → ∀ r, tx.recipient = some r → (w.acct r).code = true

/-- **Σ balances + BpReward is invariant under `executeTx`**, for every transaction type and outcome,
outside the defect shape flagged `leak`. -/
theorem executeTx_total' {c : Ctx} {w : World} {bp : Nat} {tx : Tx} {res : Result}
    (hsig : SenderOK w tx)
    (h : executeTx c w bp tx = res) (hl : res.leak = false) :
    res.w.total + res.bp = w.total + bp := by
  unfold executeTx at h
  simp only [] at h
  split at h
  · subst h; rfl
  · split at h
    · subst h; rfl
    · rename_i hvs
      have hsc : (w.getCopy tx.sender).cur = w.acct (w.getCopy tx.sender).id := by simp
      have hso : (w.getCopy tx.sender).old = w.acct (w.getCopy tx.sender).id := by simp
      split at h
      · -- MULTICALL: `receiver = sender`
        split at h
        · subst h
          exact finishOwn_total_of hsc hso (executeMulti_ok rfl) hl
        · subst h; exact runtimeBranch_total hso hso
      · rename_i hmc
        split at h
        · subst h; rfl
        · rename_i rcv st hrcv
          obtain ⟨m1, m2, m3, m4⟩ := mkReceiver_spec hrcv
          split at h
          · -- governance
            rename_i hty
            split at h
            · subst h; rfl
            · rename_i herr
              subst h
              split at herr
              · -- aergo.system
                rename_i hrc
                have q := execSystem_spec rfl herr
                obtain ⟨q1, q2, q3, q4, q5, q6, q7, q8, q9⟩ := q
                rw [(successBranch_w _ _ _ _ _ _ _).1, (successBranch_w _ _ _ _ _ _ _).2.1]
                have hb : ∀ a, (execSystem c w tx (w.getCopy tx.sender) rcv).w.bal a = w.bal a := bal_of_accts q3
                have ht := total_of_accts q3
                have hsb : (w.getCopy tx.sender).cur.bal = w.bal tx.sender := by simp; rfl
                have hrb : rcv.cur.bal = w.bal rcv.id := by rw [m1]; rfl
                rw [q1, q2]
                simp only [getCopy_id] at q9 ⊢
                by_cases hne : tx.sender = rcv.id
                · rw [if_neg (by simp [hne])]
                  have h1 := total_put (execSystem c w tx (w.getCopy tx.sender) rcv).w tx.sender
                    ((execSystem c w tx (w.getCopy tx.sender) rcv).snd.cur.setNonce tx.nonce)
                  have := q9 hne
                  have := hb tx.sender
                  rw [setNonce_bal] at h1
                  omega
                · rw [if_pos hne]
                  have h2 := put2_total (execSystem c w tx (w.getCopy tx.sender) rcv).w
                    ((execSystem c w tx (w.getCopy tx.sender) rcv).snd.cur.setNonce tx.nonce)
                    (execSystem c w tx (w.getCopy tx.sender) rcv).rcv.cur hne
                  have := hb tx.sender; have := hb rcv.id
                  rw [setNonce_bal] at h2
                  omega
              · -- aergo.name
                rename_i hrc
                have hrid : rcv.id = aName := (m3 _ hrc).1
                by_cases hne : (w.getCopy tx.sender).id = rcv.id
                · -- aergo.name itself is the sender: `receiver = sender`, one record
                  have hrv : rcv = w.getCopy tx.sender := by
                    have hs1 : tx.sender = 1 := by rw [getCopy_id] at hne; rw [hne, hrid]; rfl
                    simp [mkReceiver, hrc, hty] at hrcv
                    rw [← hrcv.1, hs1]
                  rw [hrv] at herr ⊢
                  have := execName_own_total (bp := bp) (st := st) rfl herr hsc
                  rw [(successBranch_w _ _ _ _ _ _ _).2.1]
                  omega
                · have := execName_total (bp := bp) (st := st) rfl herr hsc m1 hne
                  rw [(successBranch_w _ _ _ _ _ _ _).2.1]
                  omega
              · simp at herr
          · -- fee delegation
            rename_i hty
            split at h
            · subst h; rfl
            · rename_i hmf
              split at h
              · subst h; rfl
              · rename_i hcode
                split at h
                · subst h; rfl
                · split at h
                  · -- `receiver = sender`: one record
                    rename_i hown
                    subst h
                    have hrs : tx.recipient = some tx.sender := by simp at hown; exact hown.1
                    have hrid : rcv.id = tx.sender := (m3 _ hrs).1
                    refine finishOwn_total hsc hso ?_ hl
                    have := base_le_maxFee hmf
                    rw [m1, hrid] at this
                    simpa using this
                  · rename_i hown
                    subst h
                    -- otherwise two different accounts
                    have hne : (w.getCopy tx.sender).id ≠ rcv.id := by
                      rw [getCopy_id]
                      intro e
                      cases hr : tx.recipient with
                      | none =>
                        have := m4 hr
                        exact hsig.fresh hr (by rw [← this, ← e])
                      | some r =>
                        have h1 := (m3 r hr).1
                        apply hown
                        simp [hr, ← h1, ← e, hty]
                    exact finishVm_total hsc hso m1 m2 hne (by simp) (fun _ => base_le_maxFee hmf) hl
          · -- NORMAL / TRANSFER / CALL / DEPLOY / REDEPLOY
            rename_i hng hnf
            have hty : tx.type = .normal ∨ tx.type = .redeploy ∨ tx.type = .transfer ∨ tx.type = .call ∨ tx.type = .deploy := by
              cases ht : tx.type <;> simp_all
            have hcov := validateSender_cov hvs hty
            simp only [getCopy_cur] at hcov
            split at h
            · -- `receiver = sender`: one record
              subst h
              refine finishOwn_total hsc hso ?_ hl
              simp only [getCopy_cur]; omega
            rename_i hown
            subst h
            by_cases hne : (w.getCopy tx.sender).id = rcv.id
            · -- the sender pays itself
              refine finishVm_self_total hsc hso m2 hne ?_ ?_ ?_
              · rw [m1, ← hne, getCopy_id]
                cases hr : tx.recipient with
                | none =>
                  have := m4 hr
                  rw [getCopy_id] at hne
                  exact absurd (by rw [← this, ← hne]) (hsig.fresh hr)
                | some r =>
                  have h1 := (m3 r hr).1
                  rw [getCopy_id] at hne
                  have hrs : tx.recipient = some tx.sender := by rw [hr, hne, h1]
                  -- not `receiver = sender`, yet the recipient is the sender: a REDEPLOY
                  have hrd : tx.type = .redeploy := by
                    by_cases hq : tx.type = .redeploy
                    · exact hq
                    · exact absurd (by simp [hrs, hq]) hown
                  exact hsig.noCode hrd hrs
              · cases hr : tx.recipient with
                | none =>
                  have := m4 hr
                  rw [getCopy_id] at hne
                  exact absurd (by rw [← this, ← hne]) (hsig.fresh hr)
                | some r => exact (m3 r hr).2
              · simp only [getCopy_cur]; omega
            · exact finishVm_total hsc hso m1 m2 hne (fun _ h => by simp only [getCopy_cur]; exact hcov.2) (by simp) hl

/-- **Σ balances + BpReward is invariant under `executeTx`**, for every transaction type and outcome,
outside the defect shape flagged `leak`. -/
theorem executeTx_total {c : Ctx} {w : World} {bp : Nat} {tx : Tx}
    (hsig : SenderOK w tx)
    (hl : (executeTx c w bp tx).leak = false) :
    (executeTx c w bp tx).w.total + (executeTx c w bp tx).bp = w.total + bp :=
  executeTx_total' hsig rfl hl

/-- **`FdTarget` is enforced, not assumed**: a fee-delegation transaction whose recipient holds no code is
rejected (`CheckFeeDelegation` → `GetABI`: "cannot find contract") — so every fee-delegation tx that is
executed (applied or failed with a receipt) went to a contract. -/
theorem fdTarget_enforced {c : Ctx} {w : World} {bp : Nat} {tx : Tx}
    (hr : ∀ e, (executeTx c w bp tx).outcome ≠ .rejected e) : FdTarget w tx := by
  intro hty r hrc
  by_cases hcode : (w.acct r).code = true
  · exact hcode
  · exfalso
    have hc : (w.acct r).code = false := by simpa using hcode
    generalize hres : executeTx c w bp tx = res at hr
    unfold executeTx at hres
    simp only [] at hres
    split at hres
    · subst hres; exact hr _ rfl
    · split at hres
      · subst hres; exact hr _ rfl
      · rw [if_neg (by simp [hty])] at hres
        have hmk : mkReceiver w tx = .ok (w.getCopy r, .success) := by
          simp [mkReceiver, hrc, hty]
        rw [hmk] at hres
        simp only [hty] at hres
        split at hres
        · subst hres; exact hr _ rfl
        · simp [hc] at hres
          subst hres; exact hr _ rfl

end Aergo.Ledger
