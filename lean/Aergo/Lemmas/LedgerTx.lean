import Aergo.Lemmas.LedgerGov

/-! `executeTx` as a whole: Σ balances + BpReward (C01). -/

namespace Aergo.Ledger

/-- What the signature check (C04) guarantees about the sender of a transaction: it is an ordinary key
account — not the name contract, not a contract account — and the address of a contract it deploys
(a SHA-256 value with the 0x0C prefix) is not its own address. -/
structure Signable (w : World) (tx : Tx) : Prop where
  notName : tx.sender ≠ aName
  noCode : (w.acct tx.sender).code = false
  fresh : tx.recipient = none → tx.newAddr ≠ tx.sender

theorem resetAccount_some {cp : Copy} {fee : Nat} {n : Option Nat} {a : Acct}
    (h : resetAccount cp (some fee) n = some a) : fee ≤ cp.old.bal ∧ a.bal = cp.old.bal - fee := by
  unfold resetAccount at h
  simp only [] at h
  split at h
  · cases h
  · rename_i hle
    simp at h
    subst h
    have := Nat.le_of_not_lt hle
    cases n <;> simp [absSub, this]

theorem resetAccount_nofee {cp : Copy} {n : Option Nat} {a : Acct}
    (h : resetAccount cp none n = some a) : a.bal = cp.old.bal := by
  unfold resetAccount at h
  simp at h
  subst h
  cases n <;> simp

/-- the runtime-error branch conserves Σ + BpReward when the VM left the world as it was -/
theorem runtimeBranch_total {w : World} {bp : Nat} {tx : Tx} {snd rcv : Copy} {fee : Nat} {leak dirty : Bool}
    (hso : snd.old = w.acct snd.id) (hro : rcv.old = w.acct rcv.id) :
    (runtimeBranch w w bp tx snd rcv fee leak dirty).w.total + (runtimeBranch w w bp tx snd rcv fee leak dirty).bp
      = w.total + bp := by
  have hsb : snd.old.bal = w.bal snd.id := by rw [hso]; rfl
  have hrb : rcv.old.bal = w.bal rcv.id := by rw [hro]; rfl
  unfold runtimeBranch
  simp only []
  split
  · split
    · rfl
    · rename_i a ha
      have := resetAccount_some ha
      have h1 := total_put w snd.id a
      simp only []
      omega
  · rename_i hc
    have hne : snd.id ≠ rcv.id := fun e => hc (Or.inr e)
    split
    · rfl
    · rename_i a ha
      split
      · rfl
      · rename_i b hb
        have q1 := resetAccount_nofee ha
        have q2 := resetAccount_some hb
        have h2 := put2_total w a b hne
        simp only []
        omega

end Aergo.Ledger
