/-
Helper lemmas for C08 (model layer `Lib`): the confirmation-count invariant of the confirms window
(`CoverInv`), its preservation by the connect step, gc and the replay of `loadPlibStatus`, and the
"honest confirm ranges ⇒ distinct producers" counting lemma.
-/
import Aergo.Model.Lib

namespace Aergo.Lib

/-! ### quorum formulas (generated definitions) -/

theorem confirmsRequired_eq (n : Nat) : confirmsRequired n = n * 2 / 3 + 1 := by
  unfold confirmsRequired Gen.LibQuorum.confirmsRequired
  have h : (Int.tdiv ((n : Int) * 2) 3) = ((n * 2 / 3 : Nat) : Int) := by
    rw [Int.tdiv_eq_ediv_of_nonneg (by omega)]
    omega
  rw [h]
  omega

theorem gcNumLimit_eq (c : Nat) : gcNumLimit c = c * 3 := by
  unfold gcNumLimit Gen.LibQuorum.gcNumLimit
  omega

theorem libIndex_eq (len : Nat) : libIndex len = (len - 1) / 3 := by
  unfold libIndex Gen.LibQuorum.libIndex
  rcases Nat.eq_zero_or_pos len with h | h
  · subst h; decide
  · have h2 : ((len : Int) - 1) = ((len - 1 : Nat) : Int) := by omega
    rw [h2, Int.tdiv_eq_ediv_of_nonneg (by omega)]
    omega

theorem begRecoBlockNo_eq (c libNo endNo : Nat) :
    begRecoBlockNo c libNo endNo =
      (if max endNo libNo > 3 * c then max endNo libNo - 3 * c else 1) := by
  unfold begRecoBlockNo Gen.LibQuorum.begRecoBlockNo
  simp only [decide_eq_true_eq]
  split <;> split <;> split <;> omega

/-! ### the window invariant -/

/-- how many of the blocks `newer` have a confirm range containing number `no`. -/
def cover (newer : List BI) (no : Nat) : Nat := (newer.filter (fun b => inRange b no)).length

/-- Window invariant (list newest first; `newer` = the blocks in front of the current position): every
element still needs at most `q − (number of newer-or-same window blocks whose range contains it)` confirmations. -/
def CoverInv (q : Nat) : List BI → List CI → Prop
  | _, [] => True
  | newer, c :: rest => q ≤ c.left + cover (c.bi :: newer) c.bi.no ∧ CoverInv q (c.bi :: newer) rest

theorem cover_append_one (nw : List BI) (x : BI) (no : Nat) :
    cover (nw ++ [x]) no = cover nw no + (if inRange x no then 1 else 0) := by
  unfold cover
  rw [List.filter_append, List.length_append]
  by_cases h : inRange x no <;> simp [h]

theorem decr16_succ_ge (x : Nat) : x ≤ decr16 x + 1 := by
  unfold decr16
  by_cases h : x = 0
  · simp [h]
  · have : (x == 0) = false := by simp [h]
    simp only [this]
    simp
    omega

theorem CoverInv_append_one (q : Nat) (x : BI) :
    ∀ (l : List CI) (nw : List BI), CoverInv q nw l → CoverInv q (nw ++ [x]) l
  | [], _, _ => trivial
  | c :: rest, nw, h => by
    obtain ⟨h1, h2⟩ := h
    refine ⟨?_, ?_⟩
    · have := cover_append_one (c.bi :: nw) x c.bi.no
      rw [List.cons_append] at this
      omega
    · have := CoverInv_append_one q x rest (c.bi :: nw) h2
      rwa [List.cons_append] at this

theorem walk_cons (x : BI) (c : CI) (rest : List CI) :
    walk x (c :: rest) =
      if (if inRange x c.bi.no then { c with left := decr16 c.left } else c : CI).left == 0 then
        ((if inRange x c.bi.no then { c with left := decr16 c.left } else c : CI) :: rest,
          some (if inRange x c.bi.no then { c with left := decr16 c.left } else c : CI).bi)
      else
        ((if inRange x c.bi.no then { c with left := decr16 c.left } else c : CI) :: (walk x rest).1,
          (walk x rest).2) := rfl

/-- the element as the loop leaves it: same block, counter lowered by one iff covered. -/
theorem step_elem (x : BI) (c : CI) :
    (if inRange x c.bi.no then { c with left := decr16 c.left } else c : CI).bi = c.bi ∧
    c.left ≤ (if inRange x c.bi.no then { c with left := decr16 c.left } else c : CI).left +
      (if inRange x c.bi.no then 1 else 0) := by
  have hd := decr16_succ_ge c.left
  by_cases hr : inRange x c.bi.no = true
  · rw [if_pos hr, if_pos hr]; exact ⟨rfl, hd⟩
  · rw [if_neg hr, if_neg hr]; exact ⟨rfl, by omega⟩

/-- One pass of the getPreLIB loop for a new block `x` over a window that satisfied the invariant before `x`. -/
theorem walk_CoverInv (q : Nat) (x : BI) :
    ∀ (l : List CI) (nw : List BI), CoverInv q nw l → CoverInv q (nw ++ [x]) (walk x l).1
  | [], _, _ => trivial
  | c :: rest, nw, h => by
    obtain ⟨h1, h2⟩ := h
    have hc := cover_append_one (c.bi :: nw) x c.bi.no
    rw [List.cons_append] at hc
    obtain ⟨e1, e2⟩ := step_elem x c
    rw [walk_cons]
    generalize (if inRange x c.bi.no then { c with left := decr16 c.left } else c : CI) = c' at e1 e2 ⊢
    have hhead : q ≤ c'.left + cover (c'.bi :: (nw ++ [x])) c'.bi.no := by rw [e1]; omega
    split
    · refine ⟨hhead, ?_⟩
      have := CoverInv_append_one q x rest (c.bi :: nw) h2
      rw [e1]; rwa [List.cons_append] at this
    · refine ⟨hhead, ?_⟩
      have := walk_CoverInv q x rest (c.bi :: nw) h2
      rw [e1]; rwa [List.cons_append] at this

/-- The walk over a window whose newest element has just been pushed with `left = c ≥ q`. -/
theorem walk_push_CoverInv (q c : Nat) (b : BI) (bp : String) (l : List CI) (hq : q ≤ c)
    (h : CoverInv q [] l) : CoverInv q [] (walk b (⟨b, bp, c⟩ :: l)).1 := by
  have h1 : cover [b] b.no = if inRange b b.no then 1 else 0 := by
    have := cover_append_one [] b b.no
    simpa [cover] using this
  obtain ⟨e1, e2⟩ := step_elem b ⟨b, bp, c⟩
  rw [walk_cons]
  generalize (if inRange b (⟨b, bp, c⟩ : CI).bi.no then { (⟨b, bp, c⟩ : CI) with left := decr16 (⟨b, bp, c⟩ : CI).left } else ⟨b, bp, c⟩ : CI) = c' at e1 e2 ⊢
  simp only at e1 e2
  have hhead : q ≤ c'.left + cover (c'.bi :: []) c'.bi.no := by rw [e1]; omega
  split
  · exact ⟨hhead, by rw [e1]; exact CoverInv_append_one q b l [] h⟩
  · exact ⟨hhead, by rw [e1]; exact walk_CoverInv q b l [] h⟩

theorem CoverInv_prefix (q : Nat) :
    ∀ (l1 l2 : List CI) (nw : List BI), CoverInv q nw (l1 ++ l2) → CoverInv q nw l1
  | [], _, _, _ => trivial
  | c :: rest, l2, nw, h => by
    obtain ⟨h1, h2⟩ := h
    exact ⟨h1, CoverInv_prefix q rest l2 (c.bi :: nw) h2⟩

theorem CoverInv_take (q k : Nat) (l : List CI) (nw : List BI) (h : CoverInv q nw l) :
    CoverInv q nw (l.take k) := by
  have := List.take_append_drop k l
  rw [← this] at h
  exact CoverInv_prefix q _ _ nw h

theorem dropOldLe_prefix (libNo : Nat) (l : List CI) : ∃ t, l = dropOldLe libNo l ++ t := by
  unfold dropOldLe
  obtain ⟨s, hs⟩ := List.dropWhile_suffix (fun c : CI => decide (c.bi.no ≤ libNo)) (l := l.reverse)
  refine ⟨s.reverse, ?_⟩
  have := congrArg List.reverse hs
  rw [List.reverse_append, List.reverse_reverse] at this
  exact this.symm

theorem CoverInv_dropOldLe (q libNo : Nat) (l : List CI) (nw : List BI) (h : CoverInv q nw l) :
    CoverInv q nw (dropOldLe libNo l) := by
  obtain ⟨t, ht⟩ := dropOldLe_prefix libNo l
  rw [ht] at h
  exact CoverInv_prefix q _ _ nw h

/-- the element a walk reports as confirmed sits in the resulting window with a zero counter. -/
theorem walk_some_split (x : BI) :
    ∀ (l : List CI) (bi : BI), (walk x l).2 = some bi →
      ∃ pre c post, (walk x l).1 = pre ++ c :: post ∧ c.bi = bi ∧ c.left = 0
  | [], _, h => by simp [walk] at h
  | c :: rest, bi, h => by
    rw [walk_cons] at h ⊢
    generalize (if inRange x c.bi.no then { c with left := decr16 c.left } else c : CI) = c' at h ⊢
    split at h
    · rename_i hz
      rw [if_pos hz]
      refine ⟨[], c', rest, rfl, ?_, ?_⟩
      · simpa using h
      · simpa using hz
    · rename_i hz
      rw [if_neg hz]
      obtain ⟨pre, c2, post, h1, h2, h3⟩ := walk_some_split x rest bi h
      exact ⟨c' :: pre, c2, post, by simp only [h1, List.cons_append], h2, h3⟩

theorem CoverInv_split (q : Nat) :
    ∀ (pre : List CI) (c : CI) (post : List CI) (nw : List BI), CoverInv q nw (pre ++ c :: post) →
      q ≤ c.left + cover (c.bi :: ((pre.map (·.bi)).reverse ++ nw)) c.bi.no
  | [], c, _, nw, h => by simpa using h.1
  | d :: pre, c, post, nw, h => by
    have := CoverInv_split q pre c post (d.bi :: nw) h.2
    simpa [List.append_assoc] using this

/-! ### honest confirm ranges ⇒ the covering blocks have pairwise distinct producers -/

/-- A producer's later block starts its range above its own earlier block (blockfactory: Confirms = no − lpbNo). -/
def HonestRanges (w : List CI) : Prop :=
  w.Pairwise (fun d1 d2 => d1.bp = d2.bp → d2.bi.no < rangeMin d1.bi)

theorem covering_producers_nodup (w : List CI) (no : Nat) (h : HonestRanges w) :
    ((w.filter (fun d => inRange d.bi no)).map (·.bp)).Nodup := by
  unfold HonestRanges at h
  rw [List.Nodup, List.pairwise_map]
  have h2 := h.filter (fun d => inRange d.bi no)
  refine h2.imp_of_mem ?_
  intro d1 d2 m1 m2 hp heq
  have c1 : inRange d1.bi no = true := by simpa using (List.mem_filter.mp m1).2
  have c2 : inRange d2.bi no = true := by simpa using (List.mem_filter.mp m2).2
  have := hp heq
  simp only [inRange, Bool.and_eq_true, decide_eq_true_eq] at c1 c2
  omega

/-! ### small facts about the proposed map, the walk and calcLIB -/

theorem lookup_setP_self (k : String) (v : PL) : ∀ l, lookup k (setP k v l) = some v
  | [] => by simp [setP, lookup]
  | (k', v') :: t => by
    unfold setP
    by_cases h : (k' == k) = true
    · simp [h, lookup]
    · simp [h, lookup, lookup_setP_self k v t]

theorem mem_setP {k : String} {v : PL} : ∀ {l : List (String × PL)} {kv : String × PL},
    kv ∈ setP k v l → kv = (k, v) ∨ kv ∈ l
  | [], kv, h => by simp [setP] at h; exact Or.inl h
  | (k', v') :: t, kv, h => by
    unfold setP at h
    split at h
    · rcases List.mem_cons.mp h with h | h
      · exact Or.inl h
      · exact Or.inr (List.mem_cons_of_mem _ h)
    · rcases List.mem_cons.mp h with h | h
      · exact Or.inr (by rw [h]; exact List.mem_cons_self)
      · rcases mem_setP h with h | h
        · exact Or.inl h
        · exact Or.inr (List.mem_cons_of_mem _ h)

theorem walk_bis (x : BI) : ∀ (l : List CI),
    (∀ c ∈ (walk x l).1, ∃ c0 ∈ l, c.bi = c0.bi) ∧ (∀ bi, (walk x l).2 = some bi → ∃ c0 ∈ l, bi = c0.bi)
  | [] => by simp [walk]
  | c :: rest => by
    obtain ⟨ih1, ih2⟩ := walk_bis x rest
    obtain ⟨e1, _⟩ := step_elem x c
    rw [walk_cons]
    generalize (if inRange x c.bi.no then { c with left := decr16 c.left } else c : CI) = c' at e1 ⊢
    split
    · refine ⟨?_, ?_⟩
      · intro d hd
        rcases List.mem_cons.mp hd with h | h
        · exact ⟨c, List.mem_cons_self, by rw [h, e1]⟩
        · exact ⟨d, List.mem_cons_of_mem _ h, rfl⟩
      · intro bi hbi
        exact ⟨c, List.mem_cons_self, by simp at hbi; rw [← hbi, e1]⟩
    · refine ⟨?_, ?_⟩
      · intro d hd
        rcases List.mem_cons.mp hd with h | h
        · exact ⟨c, List.mem_cons_self, by rw [h, e1]⟩
        · obtain ⟨c0, m, e⟩ := ih1 d h
          exact ⟨c0, List.mem_cons_of_mem _ m, e⟩
      · intro bi hbi
        obtain ⟨c0, m, e⟩ := ih2 bi hbi
        exact ⟨c0, List.mem_cons_of_mem _ m, e⟩

theorem calcLIB_mem (prpsd : List (String × PL)) (hint : String) (l : BI) (h : calcLIB prpsd hint = some l) :
    ∃ kv ∈ prpsd, kv.2.plib = l := by
  unfold calcLIB at h
  have hc : l ∈ calcLIBCands prpsd := by
    simp only at h
    split at h
    · rename_i b hf
      have := List.mem_of_find?_eq_some hf
      simp at h; rw [← h]; exact this
    · exact List.mem_of_mem_head? h
  unfold calcLIBCands at hc
  split at hc
  · simp at hc
  · have := (List.mem_filter.mp hc).1
    obtain ⟨kv, m, e⟩ := List.mem_map.mp this
    exact ⟨kv, m, e⟩


end Aergo.Lib
