/-
C08: "the LIB lies on the node's main chain" as an invariant of histories without reorganisation.

`OnChain n bi` — the number index of the chain DB maps `bi.no` to `bi.hash`. `ChainInv n` — every block the finality
status refers to (pre-LIB entries, confirms window, LIB; in the Status, in the boot loader and in the saved image) is on
the main chain, or is the one block that has been passed to `Status.Update` and not yet to `connectToChain`.
`Linear n op` — the operations of a chain service that only ever extends its main chain (stores, Update of a child of the
tip followed by its connect, restarts anywhere; no rollback, no swap). `apply_ChainInv`: preserved by every such operation.
-/
import Aergo.Lemmas.LibInv

namespace Aergo.Lib

/-- every block the status refers to satisfies `P` (think: "is on the node's main chain"). -/
def AllP (P : BI → Prop) (ls : LS) : Prop :=
  (∀ kv ∈ ls.prpsd, P kv.2.plib) ∧ (∀ c ∈ ls.confirms, P c.bi) ∧ P ls.lib ∧ P ls.genesis

theorem AllP_mono {P Q : BI → Prop} (h : ∀ bi, P bi → Q bi) {ls : LS} (a : AllP P ls) : AllP Q ls :=
  ⟨fun kv m => h _ (a.1 kv m), fun c m => h _ (a.2.1 c m), h _ a.2.2.1, h _ a.2.2.2⟩

/-! ### the connect step keeps every referenced block inside `P` -/

theorem addConfirmInfo_AllP (P : BI → Prop) (ls : LS) (b : Blk) (h : AllP P ls) (hb : P b.bi) :
    AllP P (addConfirmInfo ls b) := by
  obtain ⟨hp, hc, hl, hg⟩ := h
  unfold addConfirmInfo
  split
  · exact ⟨hp, hc, hl, hg⟩
  · refine ⟨?_, ?_, hl, hg⟩
    · intro kv hkv
      simp only at hkv
      split at hkv
      · exact hp kv hkv
      · rcases mem_setP hkv with e | e
        · rw [e]; exact hg
        · exact hp kv e
    · intro c hcm
      rcases List.mem_cons.mp hcm with e | e
      · rw [e]; exact hb
      · exact hc c e

theorem update_AllP (P : BI → Prop) (s : LS) (hint : String) (h : AllP P s) :
    AllP P (update s hint).1 ∧ (∀ l, (update s hint).2 = some l → P l) := by
  obtain ⟨sp, sc, sl, sg⟩ := h
  unfold update
  cases hcs : s.confirms with
  | nil => exact ⟨⟨sp, by rw [hcs] at sc; simpa [hcs] using sc, sl, sg⟩, by simp⟩
  | cons last rest =>
    obtain ⟨w1, w2⟩ := walk_bis last.bi (last :: rest)
    simp only
    cases hw : (walk last.bi (last :: rest)).2 with
    | none =>
      refine ⟨⟨sp, ?_, sl, sg⟩, by simp⟩
      intro c hcm
      obtain ⟨c0, m, e⟩ := w1 c hcm
      rw [e]; exact sc c0 (by rw [hcs]; exact m)
    | some confirmed =>
      obtain ⟨c0, m, e⟩ := w2 confirmed hw
      have hconf : P confirmed := by rw [e]; exact sc c0 (by rw [hcs]; exact m)
      have hpr : ∀ kv ∈ setP last.bp ⟨confirmed, last.bi⟩ s.prpsd, P kv.2.plib := by
        intro kv hkv
        rcases mem_setP hkv with e | e
        · rw [e]; exact hconf
        · exact sp kv e
      refine ⟨⟨hpr, ?_, sl, sg⟩, ?_⟩
      · intro c hcm
        obtain ⟨c0, m, e⟩ := w1 c hcm
        rw [e]; exact sc c0 (by rw [hcs]; exact m)
      · intro l hl'
        obtain ⟨kv, m, e⟩ := calcLIB_mem _ _ _ hl'
        rw [← e]; exact hpr kv m

theorem gc_AllP (P : BI → Prop) (t : LS) (bps : List String) (h : AllP P t) : AllP P (gc t bps) := by
  obtain ⟨tp, tc, tl, tg⟩ := h
  unfold gc
  refine ⟨?_, ?_, tl, tg⟩
  · intro kv hkv
    simp only at hkv
    split at hkv
    · exact tp kv hkv
    · exact tp kv (List.mem_filter.mp hkv).1
  · intro c hcm
    simp only at hcm
    obtain ⟨tt, ht⟩ := dropOldLe_prefix t.lib.no t.confirms
    have : c ∈ dropOldLe t.lib.no t.confirms := List.mem_of_mem_take hcm
    exact tc c (by rw [ht]; exact List.mem_append_left _ this)

/-- `updateLIB` with the guard of db1b9b14. -/
def updLIB (u : LS × Option BI) : LS :=
  match u.2 with
  | some l => if l.no < u.1.lib.no then u.1 else { u.1 with lib := l }
  | none => u.1

theorem updLIB_AllP (P : BI → Prop) (u : LS × Option BI) (h : AllP P u.1) (hl : ∀ l, u.2 = some l → P l) :
    AllP P (updLIB u) := by
  unfold updLIB
  obtain ⟨up, uc, ul, ug⟩ := h
  cases hr : u.2 with
  | none => exact ⟨up, uc, ul, ug⟩
  | some l =>
    simp only
    split
    · exact ⟨up, uc, ul, ug⟩
    · exact ⟨up, uc, hl l hr, ug⟩

/-- addConfirmInfo + update + updateLIB + gc: the connect branch of `Status.Update`. -/
theorem connectStep_AllP (P : BI → Prop) (ls : LS) (b : Blk) (hint : String) (bps : List String)
    (h : AllP P ls) (hb : P b.bi) :
    (∀ l, (update (addConfirmInfo ls b) hint).2 = some l → P l) ∧
      AllP P (gc (updLIB (update (addConfirmInfo ls b) hint)) bps) := by
  obtain ⟨h1, h2⟩ := update_AllP P _ hint (addConfirmInfo_AllP P ls b h hb)
  exact ⟨h2, gc_AllP P _ bps (updLIB_AllP P _ h1 h2)⟩

/-! ### `load` (rollback branch, boot loader): what it takes from the number index -/

theorem mem_overwriteP : ∀ (src dst : List (String × PL)) (kv : String × PL),
    kv ∈ overwriteP dst src → kv ∈ dst ∨ kv ∈ src
  | [], _, _, h => Or.inl h
  | (k, v) :: t, dst, kv, h => by
    unfold overwriteP at h
    rcases mem_overwriteP t _ kv h with h1 | h1
    · split at h1
      · rcases mem_setP h1 with e | e
        · exact Or.inr (by rw [e]; exact List.mem_cons_self)
        · exact Or.inl e
      · exact Or.inl h1
    · exact Or.inr (List.mem_cons_of_mem _ h1)

theorem replay_AllP (P : BI → Prop) (n : Node) (hb : ∀ i b, blockByNo n i = some b → P b.bi) :
    ∀ (cnt i : Nat) (tmp r : LS), AllP P tmp → replay n tmp i cnt = some r → AllP P r
  | 0, _, tmp, r, h, hr => by
    simp only [replay, Option.some.injEq] at hr
    rw [← hr]; exact h
  | cnt + 1, i, tmp, r, h, hr => by
    unfold replay at hr
    cases hbk : blockByNo n i with
    | none => simp [hbk] at hr
    | some b =>
      simp only [hbk] at hr
      exact replay_AllP P n hb cnt (i + 1) _ r
        (update_AllP P _ "" (addConfirmInfo_AllP P tmp b h (hb i b hbk))).1 hr

/-- `load`: the window comes from the number index only; a proposed entry is an OLD entry or comes from the number index. -/
theorem load_entries (P : BI → Prop) (n : Node) (ls : LS) (e : Nat) (hz : P zeroBI) (hg : P n.genesis)
    (hb : ∀ i b, blockByNo n i = some b → P b.bi) :
    (∀ kv ∈ (load n ls e).prpsd, kv ∈ ls.prpsd ∨ P kv.2.plib) ∧ (∀ c ∈ (load n ls e).confirms, P c.bi) ∧
      (load n ls e).lib = ls.lib ∧ (load n ls e).genesis = ls.genesis := by
  unfold load
  simp only
  split
  · exact ⟨fun kv m => Or.inl m, by simp, rfl, rfl⟩
  · split
    · exact ⟨fun kv m => Or.inl m, by simp, rfl, rfl⟩
    · rename_i tmp ht
      have htmp : AllP P tmp := by
        unfold loadPlibStatus at ht
        split at ht
        · simp at ht
        · split at ht
          · simp at ht
          · refine replay_AllP P n hb _ _ (newLSWithConfirms n.genesis n.self ls.cr) tmp ?_ ht
            exact ⟨by simp [newLSWithConfirms, newLS], by simp [newLSWithConfirms, newLS],
              by simpa [newLSWithConfirms, newLS] using hz, by simpa [newLSWithConfirms, newLS] using hg⟩
      refine ⟨?_, ?_, rfl, rfl⟩
      · intro kv m
        simp only at m
        rcases mem_overwriteP _ _ kv m with h1 | h1
        · exact Or.inl h1
        · exact Or.inr (htmp.1 kv h1)
      · intro c m
        simp only at m
        split at m
        · simp at m
        · exact htmp.2.1 c m

theorem load_AllP (P : BI → Prop) (n : Node) (ls : LS) (e : Nat) (h : AllP P ls) (hz : P zeroBI) (hg : P n.genesis)
    (hb : ∀ i b, blockByNo n i = some b → P b.bi) : AllP P (load n ls e) := by
  obtain ⟨l1, l2, l3, l4⟩ := load_entries P n ls e hz hg hb
  refine ⟨?_, l2, by rw [l3]; exact h.2.2.1, by rw [l4]; exact h.2.2.2⟩
  intro kv m
  rcases l1 kv m with h1 | h1
  · exact h.1 kv h1
  · exact h1

/-! ### on the main chain -/

/-- the number index maps the block's number to the block. -/
def OnChain (n : Node) (bi : BI) : Prop := hashByNo n bi.no = some bi.hash

/-- on the main chain, or the zero value `&blockInfo{}` a fresh libStatus starts with (no LIB yet). -/
def OC (n : Node) (bi : BI) : Prop := bi = zeroBI ∨ OnChain n bi

/-- facts about the chain DB part: the index holds numbers up to `latest`, every indexed id is a stored block with that
number, genesis is at 0, the tip is indexed. -/
structure ChainBase (n : Node) : Prop where
  idxLe : ∀ e ∈ n.index, e.1 ≤ n.latest
  storeIdx : ∀ e ∈ n.index, ∃ b, findBlk n.blocks e.2 = some b ∧ b.no = e.1
  gen : n.genesis = ⟨"g", 0, 0⟩
  gen0 : hashByNo n 0 = some "g"
  tip : ∃ h, hashByNo n n.latest = some h

theorem hashByNo_mem {n : Node} {no : Nat} {h : String} (e : hashByNo n no = some h) : (no, h) ∈ n.index := by
  unfold hashByNo at e
  cases hf : n.index.find? (·.1 == no) with
  | none => simp [hf] at e
  | some x =>
    simp only [hf, Option.map_some, Option.some.injEq] at e
    have h1 := List.mem_of_find?_eq_some hf
    have h2 : x.1 = no := by simpa using List.find?_some hf
    have : x = (no, h) := by rw [← h2, ← e]
    rw [← this]; exact h1

theorem OnChain_le_latest {n : Node} (hb : ChainBase n) {bi : BI} (h : OnChain n bi) : bi.no ≤ n.latest :=
  hb.idxLe _ (hashByNo_mem h)

theorem blockByNo_OnChain {n : Node} (hb : ChainBase n) {i : Nat} {b : Blk} (h : blockByNo n i = some b) :
    OnChain n b.bi := by
  unfold blockByNo at h
  cases hh : hashByNo n i with
  | none => simp [hh] at h
  | some id =>
    simp only [hh, Option.bind_some] at h
    obtain ⟨b', hf, hno⟩ := hb.storeIdx _ (hashByNo_mem hh)
    simp only at hf hno
    rw [h] at hf
    have e : b' = b := (Option.some.inj hf).symm
    subst e
    have hid := (findBlk_some h).2
    unfold OnChain Blk.bi
    simp only [hno, hh, hid]

theorem genesis_OC {n : Node} (hb : ChainBase n) : OC n n.genesis := by
  right
  unfold OnChain
  rw [hb.gen]; exact hb.gen0

/-- the number index only grows at a fresh number: what was on the chain stays on it. -/
theorem OnChain_connect {n : Node} (hb : ChainBase n) (b : Blk) (hno : b.no = n.latest + 1) {bi : BI}
    (h : OnChain n bi) : OnChain (connect n b) bi := by
  have hle := OnChain_le_latest hb h
  unfold OnChain hashByNo connect at *
  simp only
  rw [List.find?_cons_of_neg]
  · exact h
  · simp only [beq_iff_eq]; omega

theorem findBlk_store_stable {blocks : List Blk} {b x : Blk} {id : String} (h : findBlk blocks id = some x)
    (hn : (findBlk blocks b.id).isSome = false) : findBlk (b :: blocks) id = some x := by
  unfold findBlk at *
  rw [List.find?_cons_of_neg]
  · exact h
  · intro hb
    have e : b.id = id := by simpa using hb
    rw [e, h] at hn
    simp at hn

/-- Operations of a chain service that only EXTENDS its main chain: a block is stored; `Status.Update` is called with
a stored child of the main chain's tip, which is also the Status' best block; `connectToChain` is called with the block
the Status was just updated with; the process restarts (anywhere, also between Update and connect). No rollback, no swap. -/
def Linear (n : Node) : Op → Prop
  | .blk _ => True
  | .update b _ => b.no = n.latest + 1 ∧ (statusLoad n).best = b.prev ∧ hashByNo n n.latest = some b.prev ∧
      findBlk n.blocks b.id = some b
  | .connect b => n.done = true ∧ n.best = b.id ∧ b.no = n.latest + 1 ∧ findBlk n.blocks b.id = some b
  | .swap _ => False
  | .restart => True

/-- a history all of whose operations are enabled (`Linear`) in the state they are applied to. -/
def LinearHist : Node → List Op → Prop
  | _, [] => True
  | n, op :: rest => Linear n op ∧ LinearHist (n.apply op) rest

instance decLinear (n : Node) (op : Op) : Decidable (Linear n op) := by
  cases op <;> (unfold Linear; infer_instance)

instance decLinearHist : (n : Node) → (ops : List Op) → Decidable (LinearHist n ops)
  | _, [] => isTrue trivial
  | n, op :: rest =>
    have := decLinearHist (n.apply op) rest
    inferInstanceAs (Decidable (Linear n op ∧ LinearHist (n.apply op) rest))

/-- the Status is in step with the chain DB: its best block is the tip of the main chain. -/
def Synced (n : Node) : Prop :=
  (n.done = true → hashByNo n n.latest = some n.best) ∧ (n.done = false → hashByNo n n.latest = some n.blBest) ∧
    AllP (OC n) n.ls

/-- between `Status.Update(b)` and `connectToChain(b)`. -/
def Pending (n : Node) : Prop :=
  n.done = true ∧ ∃ b : Blk, n.best = b.id ∧ b.no = n.latest + 1 ∧ findBlk n.blocks b.id = some b ∧
    AllP (fun bi => OC n bi ∨ bi = b.bi) n.ls

structure ChainInv (n : Node) : Prop extends ChainBase n where
  blOn : AllP (OC n) n.bl
  savedOn : ∀ p lib lpb, n.saved = some (p, lib, lpb) → (∀ kv ∈ p, OC n kv.2.plib) ∧ OC n lib
  st : Synced n ∨ Pending n

theorem OC_congr {n m : Node} (h : m.index = n.index) (bi : BI) : OC m bi ↔ OC n bi := by
  unfold OC OnChain hashByNo; rw [h]

theorem AllP_OC_congr {n m : Node} (h : m.index = n.index) {ls : LS} : AllP (OC m) ls ↔ AllP (OC n) ls := by
  constructor
  · exact AllP_mono (fun bi => (OC_congr h bi).mp)
  · exact AllP_mono (fun bi => (OC_congr h bi).mpr)

/-- the tip of the index is a stored block numbered `latest`: so the Status' best block cannot be both the tip and a
block numbered `latest + 1`. -/
theorem not_tip_and_pending {n : Node} (hb : ChainBase n) {id : String} {b : Blk}
    (ht : hashByNo n n.latest = some id) (hf : findBlk n.blocks id = some b) : b.no = n.latest := by
  obtain ⟨b', hf', hno⟩ := hb.storeIdx _ (hashByNo_mem ht)
  simp only at hf' hno
  rw [hf] at hf'
  rw [Option.some.inj hf']; exact hno

theorem Synced_of_tip {n : Node} (h : ChainInv n) (hd : n.done = true) (ht : hashByNo n n.latest = some n.best) :
    AllP (OC n) n.ls := by
  rcases h.st with s | ⟨_, b, hbest, hno, hf, _⟩
  · exact s.2.2
  · rw [hbest] at ht
    have := not_tip_and_pending h.toChainBase ht hf
    omega

theorem ChainBase_of_eq {n m : Node} (hb : ChainBase n) (h1 : m.index = n.index) (h2 : m.latest = n.latest)
    (h3 : m.blocks = n.blocks) (h4 : m.genesis = n.genesis) : ChainBase m := by
  refine ⟨?_, ?_, by rw [h4]; exact hb.gen, ?_, ?_⟩
  · rw [h1, h2]; exact hb.idxLe
  · rw [h1, h3]; exact hb.storeIdx
  · have := hb.gen0; unfold hashByNo at *; rw [h1]; exact this
  · have := hb.tip; unfold hashByNo at *; rw [h1, h2]; exact this

theorem restart_ChainInv' {n : Node} (hb0 : ChainBase n)
    (hsv : ∀ p lib lpb, n.saved = some (p, lib, lpb) → (∀ kv ∈ p, OC n kv.2.plib) ∧ OC n lib) : ChainInv (restart n) := by
  have hb : ChainBase (restart n) := ChainBase_of_eq hb0 rfl rfl rfl rfl
  have hidx : (restart n).index = n.index := rfl
  have hfresh : AllP (OC n) (newLS n.genesis n.self n.gbps.length) :=
    ⟨by simp [newLS], by simp [newLS], Or.inl rfl, genesis_OC hb0⟩
  have hbl : AllP (OC n) (restart n).bl := by
    unfold restart
    simp only
    cases hs : n.saved with
    | none =>
      exact ⟨by simp [newLSWithConfirms, newLS], by simp [newLSWithConfirms, newLS], Or.inl rfl,
        genesis_OC hb0⟩
    | some v =>
      obtain ⟨p, lib, lpb⟩ := v
      obtain ⟨s1, s2⟩ := hsv p lib lpb hs
      simp only
      refine load_AllP (OC n) n _ n.latest ?_ (Or.inl rfl) (genesis_OC hb0)
        (fun i b hbk => Or.inr (blockByNo_OnChain hb0 hbk))
      exact ⟨s1, by simp [newLSWithConfirms, newLS], s2, genesis_OC hb0⟩
  refine { hb with blOn := (AllP_OC_congr hidx).mpr hbl, savedOn := ?_, st := Or.inl ⟨?_, ?_, ?_⟩ }
  · intro p lib lpb hs
    obtain ⟨s1, s2⟩ := hsv p lib lpb hs
    exact ⟨fun kv m => (OC_congr hidx _).mpr (s1 kv m), (OC_congr hidx _).mpr s2⟩
  · intro hd; simp [restart] at hd
  · intro _
    obtain ⟨t, ht⟩ := hb0.tip
    show hashByNo n n.latest = some ((hashByNo n n.latest).getD "")
    rw [ht]; rfl
  · exact (AllP_OC_congr hidx).mpr hfresh

theorem restart_ChainInv {n : Node} (h : ChainInv n) : ChainInv (restart n) :=
  restart_ChainInv' h.toChainBase h.savedOn

theorem blk_ChainInv {n : Node} (b : Blk) (h : ChainInv n) : ChainInv (n.apply (.blk b)) := by
  simp only [Node.apply]
  split
  · exact h
  · rename_i hn
    have hn' : (findBlk n.blocks b.id).isSome = false := by simpa using hn
    have hidx : ({ n with blocks := b :: n.blocks } : Node).index = n.index := rfl
    refine { idxLe := h.idxLe, storeIdx := ?_, gen := h.gen, gen0 := h.gen0, tip := h.tip,
             blOn := h.blOn, savedOn := h.savedOn, st := ?_ }
    · intro e he
      obtain ⟨x, hx, hno⟩ := h.storeIdx e he
      exact ⟨x, findBlk_store_stable hx hn', hno⟩
    · rcases h.st with s | ⟨hd, x, h1, h2, h3, h4⟩
      · exact Or.inl s
      · exact Or.inr ⟨hd, x, h1, h2, findBlk_store_stable h3 hn', h4⟩

theorem connect_ChainInv {n : Node} (b : Blk) (h : ChainInv n) (hl : Linear n (.connect b)) :
    ChainInv (n.apply (.connect b)) := by
  obtain ⟨hd, hbest, hno, hf⟩ := hl
  -- the state is Pending with this very block
  have hpend : AllP (fun bi => OC n bi ∨ bi = b.bi) n.ls := by
    rcases h.st with s | ⟨_, x, h1, h2, h3, h4⟩
    · have ht := s.1 hd
      rw [hbest] at ht
      have := not_tip_and_pending h.toChainBase ht hf
      omega
    · rw [hbest] at h1
      rw [← h1, hf] at h3
      rw [Option.some.inj h3]; exact h4
  have hblocks : (connect n b).blocks = n.blocks := by
    unfold connect; simp [hf]
  have hmono : ∀ bi, OC n bi → OC (connect n b) bi := by
    intro bi hbi
    rcases hbi with e | e
    · exact Or.inl e
    · exact Or.inr (OnChain_connect h.toChainBase b hno e)
  have hnew : OnChain (connect n b) b.bi := by
    unfold OnChain hashByNo connect Blk.bi; simp
  have hls : AllP (OC (connect n b)) n.ls := by
    refine AllP_mono ?_ hpend
    intro bi hbi
    rcases hbi with e | e
    · exact hmono bi e
    · rw [e]; exact Or.inr hnew
  show ChainInv (connect n b)
  refine { idxLe := ?_, storeIdx := ?_, gen := h.gen, gen0 := ?_, tip := ?_, blOn := AllP_mono hmono h.blOn,
           savedOn := ?_, st := Or.inl ⟨?_, ?_, hls⟩ }
  · intro e he
    show e.1 ≤ b.no
    rcases List.mem_cons.mp he with rfl | he
    · exact Nat.le_refl _
    · have := h.idxLe e he; omega
  · intro e he
    rw [hblocks]
    rcases List.mem_cons.mp he with rfl | he
    · exact ⟨b, hf, rfl⟩
    · exact h.storeIdx e he
  · have := h.gen0
    unfold hashByNo connect at *
    simp only
    rw [List.find?_cons_of_neg]
    · exact this
    · simp only [beq_iff_eq]; omega
  · exact ⟨b.id, by unfold hashByNo connect; simp⟩
  · intro p lib lpb hs
    simp only [connect, savedOf, Option.some.injEq, Prod.mk.injEq] at hs
    obtain ⟨e1, e2, _⟩ := hs
    rw [← e1, ← e2]
    exact ⟨hls.1, hls.2.2.1⟩
  · intro _
    show hashByNo (connect n b) b.no = some n.best
    rw [hbest]; unfold hashByNo connect; simp
  · intro hd'
    have : (connect n b).done = n.done := rfl
    rw [this, hd] at hd'; cases hd'

/-- the state `Status.Update(b)` leaves on the connect branch: Pending with `b`. -/
theorem update_result_ChainInv {n m : Node} {b : Blk} (ls' : LS) (h : ChainInv n) (m1 : m.done = true)
    (m3 : m.index = n.index) (m4 : m.latest = n.latest) (m5 : m.blocks = n.blocks) (m6 : m.genesis = n.genesis)
    (m7 : m.bl = n.bl) (m8 : m.saved = n.saved) (hno : b.no = n.latest + 1) (hf : findBlk n.blocks b.id = some b)
    (hls : AllP (fun bi => OC n bi ∨ bi = b.bi) ls') :
    ChainInv { m with ls := ls', best := b.id } := by
  have hidx : ({ m with ls := ls', best := b.id } : Node).index = n.index := m3
  have hb : ChainBase ({ m with ls := ls', best := b.id } : Node) :=
    ChainBase_of_eq h.toChainBase m3 m4 m5 m6
  refine { hb with blOn := ?_, savedOn := ?_, st := Or.inr ⟨m1, b, rfl, ?_, ?_, ?_⟩ }
  · show AllP (OC _) m.bl
    rw [m7]; exact (AllP_OC_congr hidx).mpr h.blOn
  · intro p lib' lpb hs
    have hs' : n.saved = some (p, lib', lpb) := by rw [← m8]; exact hs
    obtain ⟨s1, s2⟩ := h.savedOn p lib' lpb hs'
    exact ⟨fun kv mm => (OC_congr hidx _).mpr (s1 kv mm), (OC_congr hidx _).mpr s2⟩
  · show b.no = m.latest + 1
    rw [m4]; exact hno
  · show findBlk m.blocks b.id = some b
    rw [m5]; exact hf
  · refine AllP_mono ?_ hls
    intro bi hbi
    rcases hbi with e | e
    · exact Or.inl ((OC_congr hidx bi).mpr e)
    · exact Or.inr e

theorem update_ChainInv {n : Node} (b : Blk) (hint : String) (h : ChainInv n) (hl : Linear n (.update b hint)) :
    ChainInv (n.apply (.update b hint)) := by
  obtain ⟨hno, hbest, htip, hf⟩ := hl
  -- the Status (after its lazy load) is in step with the tip
  have hm : (statusLoad n).done = true ∧ AllP (OC n) (statusLoad n).ls ∧ (statusLoad n).index = n.index ∧
      (statusLoad n).latest = n.latest ∧ (statusLoad n).blocks = n.blocks ∧ (statusLoad n).genesis = n.genesis ∧
      (statusLoad n).bl = n.bl ∧ (statusLoad n).saved = n.saved := by
    by_cases hd : n.done = true
    · have e : statusLoad n = n := by simp [statusLoad, hd]
      rw [e]
      refine ⟨hd, ?_, rfl, rfl, rfl, rfl, rfl, rfl⟩
      rcases h.st with s | ⟨_, x, h1, h2, h3, _⟩
      · exact s.2.2
      · -- Pending: the best block is numbered latest + 1, it cannot be the tip
        rw [e, h1] at hbest
        rw [← hbest] at htip
        have := not_tip_and_pending h.toChainBase htip h3
        omega
    · have e : statusLoad n = { n with done := true, best := n.blBest, ls := n.bl } := by simp [statusLoad, hd]
      rw [e]
      exact ⟨rfl, h.blOn, rfl, rfl, rfl, rfl, rfl, rfl⟩
  obtain ⟨m1, m2, m3, m4, m5, m6, m7, m8⟩ := hm
  have hbne : b.no ≠ 0 := by omega
  simp only [Node.apply]
  unfold statusUpdate
  simp only
  generalize statusLoad n = m at *
  have hbeq : (m.best == b.prev) = true := by simp [hbest]
  simp only [hbeq, if_true]
  have hne : (addConfirmInfo m.ls b).confirms.isEmpty = false := by
    unfold addConfirmInfo
    have : (b.no == 0) = false := by simp [hbne]
    simp [this]
  simp only [hne, Bool.false_eq_true, if_false]
  have hP : AllP (fun bi => OC n bi ∨ bi = b.bi) m.ls := AllP_mono (fun bi hbi => Or.inl hbi) m2
  obtain ⟨_, hstep⟩ := connectStep_AllP (fun bi => OC n bi ∨ bi = b.bi) m.ls b hint [] hP (Or.inr rfl)
  unfold updLIB at hstep
  generalize update (addConfirmInfo m.ls b) hint = u at hstep ⊢
  obtain ⟨ls2, lib⟩ := u
  simp only at hstep ⊢
  apply update_result_ChainInv _ h m1 m3 m4 m5 m6 m7 m8 hno hf
  have hcr : ∀ (t : LS) (c : Nat), AllP (fun bi => OC n bi ∨ bi = b.bi) t →
      AllP (fun bi => OC n bi ∨ bi = b.bi) { t with cr := c } := fun t c a => a
  apply hcr
  cases lib with
  | none => exact hstep
  | some l =>
    simp only at hstep ⊢
    split
    · rename_i hlt; simpa [hlt] using hstep
    · rename_i hlt; simpa [hlt] using hstep

theorem apply_ChainInv {n : Node} (op : Op) (h : ChainInv n) (hl : Linear n op) : ChainInv (n.apply op) := by
  cases op with
  | blk b => exact blk_ChainInv b h
  | update b hint => exact update_ChainInv b hint h hl
  | connect b => exact connect_ChainInv b h hl
  | swap bs => exact absurd hl (by simp [Linear])
  | restart => exact restart_ChainInv h

theorem newNode_ChainInv (self : String) (gbps : List String) : ChainInv (newNode self gbps) := by
  unfold newNode
  simp only
  apply restart_ChainInv'
  · refine { idxLe := by simp, storeIdx := ?_, gen := rfl, gen0 := by simp [hashByNo], tip := ⟨"g", by simp [hashByNo]⟩ }
    intro e he
    simp only [List.mem_singleton] at he
    subst he
    exact ⟨⟨"g", 0, "", "", 0⟩, by simp [findBlk], rfl⟩
  · simp

theorem run_ChainInv : ∀ (ops : List Op) {n : Node}, ChainInv n → LinearHist n ops → ChainInv (n.run ops)
  | [], _, h, _ => h
  | op :: rest, n, h, hl => by
    show ChainInv ((n.apply op).run rest)
    exact run_ChainInv rest (apply_ChainInv op h hl.1) hl.2


/-! ### the number index below the LIB -/

theorem hashByNo_connect_ne (n : Node) (b : Blk) {k : Nat} (h : k ≠ b.no) : hashByNo (connect n b) k = hashByNo n k := by
  unfold hashByNo connect
  simp only
  rw [List.find?_cons_of_neg]
  simp only [beq_iff_eq]; omega

theorem find?_map_append_none {bs : List Blk} {idx : List (Nat × String)} {k : Nat} (h : ∀ b ∈ bs, k < b.no) :
    ((bs.map fun b => (b.no, b.id)) ++ idx).find? (·.1 == k) = idx.find? (·.1 == k) := by
  induction bs with
  | nil => rfl
  | cons a t ih =>
    simp only [List.map_cons, List.cons_append]
    rw [List.find?_cons_of_neg]
    · exact ih (fun b hb => h b (List.mem_cons_of_mem _ hb))
    · have := h a List.mem_cons_self
      simp only [beq_iff_eq]; omega

theorem hashByNo_swap_below (n : Node) (bs : List Blk) {k : Nat} (h : ∀ b ∈ bs, k < b.no) :
    hashByNo (swap n bs).1 k = hashByNo n k := by
  unfold swap
  cases bs with
  | nil => rfl
  | cons t r =>
    simp only
    split
    · rfl
    · unfold hashByNo
      simp only
      rw [find?_map_append_none h]

/-- stores and Updates do not touch the number index. -/
def QuietOp : Op → Prop
  | .blk _ => True
  | .update _ _ => True
  | _ => False

theorem quiet_index (n : Node) (op : Op) (h : QuietOp op) : (n.apply op).index = n.index := by
  cases op with
  | blk b => simp only [Node.apply]; split <;> rfl
  | update b hint =>
    simp only [Node.apply, statusUpdate, statusLoad]
    split <;> split <;> (try split) <;> rfl
  | connect b => exact absurd h (by simp [QuietOp])
  | swap bs => exact absurd h (by simp [QuietOp])
  | restart => exact absurd h (by simp [QuietOp])

theorem quiet_run_index : ∀ (ops : List Op) (n : Node), (∀ op ∈ ops, QuietOp op) → (n.run ops).index = n.index
  | [], _, _ => rfl
  | op :: rest, n, h => by
    show ((n.apply op).run rest).index = n.index
    rw [quiet_run_index rest _ (fun o ho => h o (by simp [ho])), quiet_index n op (h op (by simp))]

end Aergo.Lib
