/-
C08: the confirmation-count invariant along every history of a node (any producer count; before the repair
a61f1aeb the reload path used a smaller count for 5 or more producers).
-/
import Aergo.Lemmas.Lib

namespace Aergo.Lib

/-- Stored blocks other than the genesis block are numbered ≥ 1 and the number index maps numbers ≥ 1 to
non-genesis ids (what block validation guarantees: no = parent.no + 1). -/
def StoreOk (n : Node) : Prop :=
  (∀ b ∈ n.blocks, b.id ≠ "g" → b.no ≠ 0) ∧ (∀ e ∈ n.index, e.1 ≠ 0 → e.2 ≠ "g")

/-- operations as the chain service issues them: blocks are numbered ≥ 1 and are not named like genesis. -/
def Op.Valid : Op → Prop
  | .blk b => b.no ≠ 0 ∧ b.id ≠ "g"
  | .update b _ => b.no ≠ 0 ∧ b.id ≠ "g"
  | .connect b => b.no ≠ 0 ∧ b.id ≠ "g"
  | .swap bs => ∀ b ∈ bs, b.no ≠ 0 ∧ b.id ≠ "g"
  | .restart => True

theorem findBlk_some {blocks : List Blk} {id : String} {b : Blk} (h : findBlk blocks id = some b) :
    b ∈ blocks ∧ b.id = id := by
  unfold findBlk at h
  exact ⟨List.mem_of_find?_eq_some h, by simpa using List.find?_some h⟩

theorem blockByNo_no_ne_zero {n : Node} (hs : StoreOk n) {i : Nat} {b : Blk} (hi : i ≠ 0)
    (h : blockByNo n i = some b) : b.no ≠ 0 := by
  unfold blockByNo hashByNo at h
  cases hf : n.index.find? (·.1 == i) with
  | none => simp [hf] at h
  | some e =>
    simp only [hf, Option.map_some, Option.bind_some] at h
    obtain ⟨hm, hid⟩ := findBlk_some h
    have he : e ∈ n.index := List.mem_of_find?_eq_some hf
    have he1 : e.1 = i := by simpa using List.find?_some hf
    have := hs.2 e he (by omega)
    exact hs.1 b hm (by rw [hid]; exact this)

/-- the connect step on a libStatus: window invariant and confirmsRequired are preserved. -/
theorem connectStep_CoverInv (q : Nat) (ls : LS) (b : Blk) (hint : String) (hb : b.no ≠ 0) (hq : q ≤ ls.cr)
    (h : CoverInv q [] ls.confirms) :
    CoverInv q [] (update (addConfirmInfo ls b) hint).1.confirms ∧
      (update (addConfirmInfo ls b) hint).1.cr = ls.cr := by
  have hb' : (b.no == 0) = false := by simp [hb]
  unfold addConfirmInfo
  simp only [hb', Bool.false_eq_true, if_false]
  unfold update
  simp only
  have hw := walk_push_CoverInv q ls.cr b.bi b.bp ls.confirms hq h
  split <;> simp_all

theorem replay_CoverInv (q : Nat) (n : Node) (hs : StoreOk n) :
    ∀ (cnt i : Nat) (tmp r : LS), i ≠ 0 → q ≤ tmp.cr → CoverInv q [] tmp.confirms →
      replay n tmp i cnt = some r → CoverInv q [] r.confirms
  | 0, _, tmp, r, _, _, h, hr => by
    simp only [replay, Option.some.injEq] at hr
    rw [← hr]; exact h
  | cnt + 1, i, tmp, r, hi, hq, h, hr => by
    unfold replay at hr
    cases hb : blockByNo n i with
    | none => simp [hb] at hr
    | some b =>
      simp only [hb] at hr
      have hno := blockByNo_no_ne_zero hs hi hb
      obtain ⟨h1, h2⟩ := connectStep_CoverInv q tmp b "" hno hq h
      exact replay_CoverInv q n hs cnt (i + 1) _ r (by omega) (by rw [h2]; exact hq) h1 hr

theorem CoverInv_nil (q : Nat) : CoverInv q [] ([] : List CI) := trivial

/-- `load`: the rebuilt window satisfies the invariant for the status' own count `ls.cr`. -/
theorem load_CoverInv (n : Node) (hs : StoreOk n) (ls : LS) (endNo : Nat) :
    CoverInv ls.cr [] (load n ls endNo).confirms ∧ (load n ls endNo).cr = ls.cr := by
  unfold load
  simp only
  split
  · exact ⟨trivial, rfl⟩
  · split
    · exact ⟨trivial, rfl⟩
    · rename_i tmp ht
      refine ⟨?_, rfl⟩
      simp only
      split
      · exact trivial
      · unfold loadPlibStatus at ht
        split at ht
        · simp at ht
        · split at ht
          · simp at ht
          · refine replay_CoverInv _ n hs _ _ (newLSWithConfirms n.genesis n.self ls.cr) tmp ?_ ?_ (CoverInv_nil _) ht
            · split <;> simp_all
            · simp [newLSWithConfirms]

theorem gc_CoverInv (q : Nat) (ls : LS) (bps : List String) (h : CoverInv q [] ls.confirms) :
    CoverInv q [] (gc ls bps).confirms ∧ (gc ls bps).cr = ls.cr := by
  unfold gc
  exact ⟨CoverInv_take q _ _ [] (CoverInv_dropOldLe q _ _ [] h), rfl⟩

/-- The node invariant for a producer set of k members. -/
structure NodeInv (k : Nat) (n : Node) : Prop where
  store : StoreOk n
  gb : n.gbps.length = k
  sz : n.size = k
  lsCr : n.ls.cr = confirmsRequired k
  blCr : n.bl.cr = confirmsRequired k
  lsW : CoverInv (confirmsRequired k) [] n.ls.confirms
  blW : CoverInv (confirmsRequired k) [] n.bl.confirms

theorem restart_NodeInv (k : Nat) (n : Node) (hs : StoreOk n) (hg : n.gbps.length = k) :
    NodeInv k (restart n) := by
  unfold restart
  simp only
  refine ⟨hs, hg, hg, by simp [newLS, hg], ?_, by simp [newLS, CoverInv], ?_⟩
  · cases hsv : n.saved with
    | none => simp [newLS, newLSWithConfirms, hg]
    | some v =>
      obtain ⟨p, lib, lpb⟩ := v
      simp only
      rw [(load_CoverInv n hs _ _).2]
      simp [newLS, newLSWithConfirms, hg]
  · cases hsv : n.saved with
    | none => simp [newLS, newLSWithConfirms, CoverInv]
    | some v =>
      obtain ⟨p, lib, lpb⟩ := v
      simp only
      have := (load_CoverInv n hs { newLSWithConfirms n.genesis n.self (newLS n.genesis n.self n.gbps.length).cr with prpsd := p, lib := lib, lpb := lpb } n.latest).1
      simpa [newLS, newLSWithConfirms, hg] using this

theorem statusLoad_NodeInv (k : Nat) (n : Node) (h : NodeInv k n) : NodeInv k (statusLoad n) := by
  unfold statusLoad
  split
  · exact h
  · exact ⟨h.store, h.gb, h.sz, h.blCr, h.blCr, h.blW, h.blW⟩

theorem statusUpdate_NodeInv (k : Nat) (n : Node) (b : Blk) (hint : String)
    (hb : b.no ≠ 0) (h : NodeInv k n) : NodeInv k (statusUpdate n b hint) := by
  have h' := statusLoad_NodeInv k n h
  unfold statusUpdate
  simp only
  generalize statusLoad n = m at h' ⊢
  split
  · split
    · exact ⟨h'.store, h'.gb, h'.sz, h'.lsCr, h'.blCr, h'.lsW, h'.blW⟩
    · obtain ⟨c1, c2⟩ := connectStep_CoverInv (confirmsRequired k) m.ls b hint hb (by rw [h'.lsCr]; exact Nat.le_refl _) h'.lsW
      generalize update (addConfirmInfo m.ls b) hint = u at c1 c2 ⊢
      obtain ⟨ls2, lib⟩ := u
      simp only at c1 c2 ⊢
      refine ⟨h'.store, h'.gb, h'.sz, by simp [h'.sz], h'.blCr, ?_, h'.blW⟩
      simp only
      cases lib with
      | none => exact (gc_CoverInv _ ls2 [] c1).1
      | some l =>
        simp only
        split
        · exact (gc_CoverInv _ ls2 [] c1).1
        · exact (gc_CoverInv _ { ls2 with lib := l } [] c1).1
  · obtain ⟨l1, l2⟩ := load_CoverInv m h'.store m.ls b.no
    rw [h'.lsCr] at l1
    refine ⟨h'.store, h'.gb, h'.gb, by simp [h'.gb], h'.blCr, ?_, h'.blW⟩
    exact (gc_CoverInv _ _ m.gbps l1).1

theorem apply_StoreOk (n : Node) (op : Op) (hv : op.Valid) (hs : StoreOk n) : StoreOk (n.apply op) := by
  cases op with
  | blk b =>
    simp only [Node.apply]
    split
    · exact hs
    · refine ⟨?_, hs.2⟩
      intro x hx hid
      rcases List.mem_cons.mp hx with rfl | hx
      · exact hv.1
      · exact hs.1 x hx hid
  | update b hint =>
    simp only [Node.apply, statusUpdate, statusLoad]
    split <;> split <;> (try split) <;> exact hs
  | connect b =>
    simp only [Node.apply, connect]
    refine ⟨?_, ?_⟩
    · intro x hx hid
      split at hx
      · exact hs.1 x hx hid
      · rcases List.mem_cons.mp hx with rfl | hx
        · exact hv.1
        · exact hs.1 x hx hid
    · intro e he hne
      rcases List.mem_cons.mp he with rfl | he
      · exact hv.2
      · exact hs.2 e he hne
  | swap bs =>
    simp only [Node.apply, swap]
    cases bs with
    | nil => exact hs
    | cons top rest =>
      simp only
      split
      · exact hs
      · refine ⟨hs.1, ?_⟩
        intro e he hne
        rcases List.mem_append.mp he with he | he
        · obtain ⟨x, hx, rfl⟩ := List.mem_map.mp he
          exact (hv x hx).2
        · exact hs.2 e he hne
  | restart => simp only [Node.apply, restart]; exact hs

/-! ### the LIB number along one Update -/

theorem load_lib (n : Node) (ls : LS) (e : Nat) : (load n ls e).lib = ls.lib ∧ (load n ls e).lpb = ls.lpb := by
  unfold load
  simp only
  split
  · exact ⟨rfl, rfl⟩
  · split <;> exact ⟨rfl, rfl⟩

/-- one Update on a loaded Status never lowers the LIB number and keeps the Status loaded (`updateLIB`'s guard, db1b9b14;
the rollback branch does not touch `Lib`). -/
theorem statusUpdate_lib_mono (n : Node) (b : Blk) (hint : String) (hd : n.done = true) :
    (statusUpdate n b hint).done = true ∧ n.ls.lib.no ≤ (statusUpdate n b hint).ls.lib.no := by
  have hl : statusLoad n = n := by simp [statusLoad, hd]
  unfold statusUpdate
  simp only [hl]
  split
  · split
    · exact ⟨hd, Nat.le_refl _⟩
    · have ha : (addConfirmInfo n.ls b).lib = n.ls.lib := by unfold addConfirmInfo; split <;> rfl
      have hu : (update (addConfirmInfo n.ls b) hint).1.lib = n.ls.lib := by
        rw [← ha]
        unfold update
        split
        · rfl
        · simp only; split <;> rfl
      generalize update (addConfirmInfo n.ls b) hint = u at hu ⊢
      obtain ⟨ls2, lib⟩ := u
      simp only at hu ⊢
      refine ⟨hd, ?_⟩
      cases lib with
      | none => simp [gc, hu]
      | some l =>
        simp only
        split
        · simp [gc, hu]
        · rename_i hlt; simp only [gc]; rw [hu] at hlt; omega
  · refine ⟨hd, ?_⟩
    simp [gc, (load_lib n n.ls b.no).1]


end Aergo.Lib
