/-
C08: `calcLIB` as an order statistic. `sortPL` (the model's stable insertion sort) returns a sorted permutation; the
NUMBER at index `i` of ANY sorted permutation of a list is characterised by two counts (`IsStat`), which do not depend
on the order of the list — so the block number `calcLIB` selects does not depend on Go's map iteration order nor on what
the unstable `sort.Slice` does with equal keys. What may depend on it is WHICH of the entries carrying that number sits
at the index (`cand_realisable`).
-/
import Aergo.Lemmas.Lib

namespace Aergo.Lib

/-- sorted by pre-LIB number (the `less` function of calcLIB's `sort.Slice`). -/
def SortedPL (l : List PL) : Prop := l.Pairwise (fun a b => a.plib.no ≤ b.plib.no)

theorem insertPL_perm (x : PL) : ∀ l, (insertPL x l).Perm (x :: l)
  | [] => List.Perm.refl _
  | y :: t => by
    unfold insertPL
    split
    · exact List.Perm.refl _
    · exact ((insertPL_perm x t).cons y).trans (List.Perm.swap x y t)

theorem insertPL_sorted (x : PL) : ∀ l, SortedPL l → SortedPL (insertPL x l)
  | [], _ => by simp [insertPL, SortedPL]
  | y :: t, h => by
    unfold insertPL
    have ⟨h1, h2⟩ := List.pairwise_cons.mp h
    split
    · rename_i hlt
      refine List.pairwise_cons.mpr ⟨?_, h⟩
      intro z hz
      rcases List.mem_cons.mp hz with rfl | hz
      · omega
      · have := h1 z hz; omega
    · rename_i hge
      refine List.pairwise_cons.mpr ⟨?_, insertPL_sorted x t h2⟩
      intro z hz
      have := (insertPL_perm x t).mem_iff.mp hz
      rcases List.mem_cons.mp this with rfl | hz
      · omega
      · exact h1 z hz

theorem sortPL_perm : ∀ l, (sortPL l).Perm l
  | [] => List.Perm.refl _
  | x :: t => by
    show (insertPL x (sortPL t)).Perm (x :: t)
    exact (insertPL_perm x _).trans ((sortPL_perm t).cons x)

theorem sortPL_sorted : ∀ l, SortedPL (sortPL l)
  | [] => List.Pairwise.nil
  | x :: t => insertPL_sorted x _ (sortPL_sorted t)

/-- how many entries have a pre-LIB number below / at most / at least `v`. -/
def cntLt (v : Nat) (l : List PL) : Nat := l.countP (fun p => decide (p.plib.no < v))
def cntLe (v : Nat) (l : List PL) : Nat := l.countP (fun p => decide (p.plib.no ≤ v))
def cntGe (v : Nat) (l : List PL) : Nat := l.countP (fun p => decide (v ≤ p.plib.no))

/-- `v` is the order statistic of rank `i` (0-based) of the pre-LIB numbers of `l`: at most `i` entries are below `v`
and more than `i` are at or below it. Independent of the order of `l` (`IsStat_perm`), unique (`IsStat_unique`). -/
def IsStat (l : List PL) (i v : Nat) : Prop := cntLt v l ≤ i ∧ i < cntLe v l

theorem IsStat_perm {l1 l2 : List PL} (h : l1.Perm l2) (i v : Nat) : IsStat l1 i v ↔ IsStat l2 i v := by
  unfold IsStat cntLt cntLe
  rw [h.countP_eq, h.countP_eq]

theorem cntLe_le_cntLt {v w : Nat} (h : v < w) (l : List PL) : cntLe v l ≤ cntLt w l := by
  unfold cntLe cntLt
  apply List.countP_mono_left
  intro x _ hx
  simp only [decide_eq_true_eq] at hx ⊢
  omega

theorem IsStat_unique {l : List PL} {i v w : Nat} (hv : IsStat l i v) (hw : IsStat l i w) : v = w := by
  rcases Nat.lt_trichotomy v w with h | h | h
  · have := cntLe_le_cntLt h l
    unfold IsStat at hv hw; omega
  · exact h
  · have := cntLe_le_cntLt h l
    unfold IsStat at hv hw; omega

/-- In a sorted list the element at index `i` has rank `i`, and everything from index `i` on is at or above it. -/
theorem sorted_stat : ∀ (s : List PL) (i : Nat) (p : PL), SortedPL s → s[i]? = some p →
    cntLt p.plib.no s ≤ i ∧ i < cntLe p.plib.no s ∧ s.length ≤ cntGe p.plib.no s + i
  | [], i, p, _, h => by simp at h
  | a :: t, 0, p, hs, h => by
    simp only [List.getElem?_cons_zero, Option.some.injEq] at h
    subst h
    have h1 := (List.pairwise_cons.mp hs).1
    refine ⟨?_, ?_, ?_⟩
    · unfold cntLt
      rw [Nat.le_zero, List.countP_eq_zero]
      intro x hx
      simp only [decide_eq_true_eq]
      rcases List.mem_cons.mp hx with rfl | hx
      · omega
      · have := h1 x hx; omega
    · unfold cntLe
      rw [List.countP_cons]
      simp
    · unfold cntGe
      have : List.countP (fun p => decide (a.plib.no ≤ p.plib.no)) (a :: t) = (a :: t).length := by
        rw [List.countP_eq_length]
        intro x hx
        simp only [decide_eq_true_eq]
        rcases List.mem_cons.mp hx with rfl | hx
        · omega
        · exact h1 x hx
      omega
  | a :: t, j + 1, p, hs, h => by
    simp only [List.getElem?_cons_succ] at h
    obtain ⟨h1, h2⟩ := List.pairwise_cons.mp hs
    obtain ⟨r1, r2, r3⟩ := sorted_stat t j p h2 h
    have hap : a.plib.no ≤ p.plib.no := h1 p (List.mem_of_getElem? h)
    unfold cntLt cntLe cntGe at *
    simp only [List.countP_cons, List.length_cons]
    have e1 : (if decide (a.plib.no ≤ p.plib.no) = true then 1 else 0) = 1 := by simp [hap]
    rw [e1]
    refine ⟨?_, by omega, ?_⟩
    · split <;> omega
    · split <;> omega

/-- The rank-`i` number exists for every `i < length`, whatever the order. -/
theorem sortPL_stat (l : List PL) (i : Nat) (hi : i < l.length) :
    ∃ p ∈ l, (sortPL l)[i]? = some p ∧ IsStat l i p.plib.no ∧ l.length ≤ cntGe p.plib.no l + i := by
  have hlen : (sortPL l).length = l.length := (sortPL_perm l).length_eq
  have hi' : i < (sortPL l).length := by omega
  refine ⟨(sortPL l)[i], ?_, List.getElem?_eq_getElem hi', ?_, ?_⟩
  · exact (sortPL_perm l).mem_iff.mp (List.getElem_mem hi')
  · obtain ⟨r1, r2, _⟩ := sorted_stat _ i _ (sortPL_sorted l) (List.getElem?_eq_getElem hi')
    exact (IsStat_perm (sortPL_perm l) _ _).mp ⟨r1, r2⟩
  · obtain ⟨_, _, r3⟩ := sorted_stat _ i _ (sortPL_sorted l) (List.getElem?_eq_getElem hi')
    unfold cntGe at *
    rw [(sortPL_perm l).countP_eq, hlen] at r3
    exact r3

/-- ANY sorted permutation has the same number at index `i` as the model's sort. -/
theorem any_sort_same_no (l s : List PL) (hs : SortedPL s) (hp : s.Perm l) (i : Nat) (p : PL) (h : s[i]? = some p) :
    ∃ q, (sortPL l)[i]? = some q ∧ q.plib.no = p.plib.no := by
  have hi : i < l.length := by
    rw [← hp.length_eq]
    exact (List.getElem?_eq_some_iff.mp h).1
  obtain ⟨q, _, hq, hst, _⟩ := sortPL_stat l i hi
  refine ⟨q, hq, ?_⟩
  obtain ⟨r1, r2, _⟩ := sorted_stat s i p hs h
  exact IsStat_unique hst ((IsStat_perm hp _ _).mp ⟨r1, r2⟩)

/-- Every entry carrying the rank-`i` number can sit at index `i` of a sorted permutation (an unstable sort over an
arbitrarily ordered input may return any of them). -/
theorem cand_realisable (l s : List PL) (hs : SortedPL s) (hp : s.Perm l) (i : Nat) (p c : PL)
    (h : s[i]? = some p) (hc : c ∈ l) (hno : c.plib.no = p.plib.no) :
    ∃ s', SortedPL s' ∧ s'.Perm l ∧ s'[i]? = some c := by
  obtain ⟨hi, hpi⟩ := List.getElem?_eq_some_iff.mp h
  have hcs : c ∈ s := hp.mem_iff.mpr hc
  obtain ⟨j, hj, hcj⟩ := List.getElem_of_mem hcs
  refine ⟨(s.set i s[j]).set j s[i], ?_, (List.set_set_perm hi hj).trans hp, ?_⟩
  · -- the numbers, position by position, are those of `s`
    have hmap : ((s.set i s[j]).set j s[i]).map (·.plib.no) = s.map (·.plib.no) := by
      apply List.ext_getElem
      · simp
      · intro k h1 h2
        simp only [List.getElem_map, List.getElem_set]
        split
        · rename_i e; subst e; rw [hpi, ← hno, ← hcj]
        · split
          · rename_i e; subst e; rw [hcj, hno, ← hpi]
          · rfl
    have h1 : (s.map (·.plib.no)).Pairwise (· ≤ ·) := List.pairwise_map.mpr hs
    rw [← hmap] at h1
    exact List.pairwise_map.mp h1
  · by_cases e : j = i
    · subst e
      rw [List.getElem?_set_self (by simpa using hi)]
      rw [hcj]
    · rw [List.getElem?_set_ne e]
      rw [List.getElem?_set_self hi, hcj]

/-! ### the model's `calcLIBNo` / `calcLIBCands` / `calcLIB` -/

theorem libIndex_lt {m : Nat} (h : 0 < m) : libIndex m < m := by
  rw [libIndex_eq]; omega

/-- `calcLIBNo` on a non-empty map is the rank-`(m−1)/3` pre-LIB number of the `m` entries. -/
theorem calcLIBNo_spec (prpsd : List (String × PL)) (hne : prpsd ≠ []) :
    ∃ p ∈ prpsd.map (·.2), calcLIBNo prpsd = some p.plib.no ∧
      IsStat (prpsd.map (·.2)) (libIndex prpsd.length) p.plib.no ∧
      prpsd.length ≤ cntGe p.plib.no (prpsd.map (·.2)) + libIndex prpsd.length := by
  have hlen : 0 < prpsd.length := List.length_pos_iff.mpr hne
  obtain ⟨p, hm, hp, hst, hge⟩ := sortPL_stat (prpsd.map (·.2)) (libIndex prpsd.length) (by simpa using libIndex_lt hlen)
  refine ⟨p, hm, ?_, hst, by simpa using hge⟩
  unfold calcLIBNo
  cases prpsd with
  | nil => exact absurd rfl hne
  | cons a t => simp only [hp, Option.map_some]

theorem calcLIBNo_none_iff (prpsd : List (String × PL)) : calcLIBNo prpsd = none ↔ prpsd = [] := by
  constructor
  · intro h
    by_cases hne : prpsd = []
    · exact hne
    · obtain ⟨p, _, hp, _⟩ := calcLIBNo_spec prpsd hne
      rw [hp] at h; cases h
  · intro h; subst h; rfl

/-- a number with the two counts IS what `calcLIBNo` returns. -/
theorem calcLIBNo_of_IsStat (prpsd : List (String × PL)) (v : Nat)
    (h : IsStat (prpsd.map (·.2)) (libIndex prpsd.length) v) : calcLIBNo prpsd = some v := by
  have hne : prpsd ≠ [] := by
    intro e; subst e
    unfold IsStat cntLe at h; simp at h
  obtain ⟨p, _, hp, hst, _⟩ := calcLIBNo_spec prpsd hne
  rw [hp, IsStat_unique hst h]

/-- the selected NUMBER does not depend on the order in which the map delivers its entries. -/
theorem calcLIBNo_perm {p1 p2 : List (String × PL)} (h : p1.Perm p2) : calcLIBNo p1 = calcLIBNo p2 := by
  by_cases hne : p1 = []
  · subst hne; rw [h.symm.eq_nil]
  · obtain ⟨p, _, hp, hst, _⟩ := calcLIBNo_spec p1 hne
    rw [hp]
    symm
    apply calcLIBNo_of_IsStat
    rw [← h.length_eq]
    exact (IsStat_perm (h.map (·.2)) _ _).mp hst

theorem mem_calcLIBCands {prpsd : List (String × PL)} {b : BI} :
    b ∈ calcLIBCands prpsd ↔ ∃ kv ∈ prpsd, kv.2.plib = b ∧ calcLIBNo prpsd = some b.no := by
  unfold calcLIBCands
  cases h : calcLIBNo prpsd with
  | none => simp
  | some n =>
    simp only [List.mem_filter, List.mem_map, beq_iff_eq, Option.some.injEq]
    constructor
    · rintro ⟨⟨kv, m, e⟩, e2⟩
      exact ⟨kv, m, e, e2.symm⟩
    · rintro ⟨kv, m, e, e2⟩
      exact ⟨⟨kv, m, e⟩, e2.symm⟩

theorem calcLIBCands_perm {p1 p2 : List (String × PL)} (h : p1.Perm p2) (b : BI) :
    b ∈ calcLIBCands p1 ↔ b ∈ calcLIBCands p2 := by
  rw [mem_calcLIBCands, mem_calcLIBCands, calcLIBNo_perm h]
  constructor
  · rintro ⟨kv, m, e⟩; exact ⟨kv, h.mem_iff.mp m, e⟩
  · rintro ⟨kv, m, e⟩; exact ⟨kv, h.mem_iff.mpr m, e⟩

/-- whatever the hint, `calcLIB` answers with a candidate; `none` only for the empty map. -/
theorem calcLIB_some_iff (prpsd : List (String × PL)) (hint : String) (l : BI) (h : calcLIB prpsd hint = some l) :
    l ∈ calcLIBCands prpsd := by
  unfold calcLIB at h
  simp only at h
  split at h
  · rename_i b hf
    have := List.mem_of_find?_eq_some hf
    simp at h; rw [← h]; exact this
  · exact List.mem_of_mem_head? h

theorem calcLIBCands_ne_nil (prpsd : List (String × PL)) (hne : prpsd ≠ []) : calcLIBCands prpsd ≠ [] := by
  obtain ⟨p, hm, hp, _⟩ := calcLIBNo_spec prpsd hne
  obtain ⟨kv, m, e⟩ := List.mem_map.mp hm
  have : p.plib ∈ calcLIBCands prpsd := mem_calcLIBCands.mpr ⟨kv, m, by rw [e], hp⟩
  intro e; rw [e] at this; cases this

theorem calcLIB_isSome (prpsd : List (String × PL)) (hint : String) (hne : prpsd ≠ []) :
    ∃ l, calcLIB prpsd hint = some l := by
  unfold calcLIB
  simp only
  split
  · exact ⟨_, rfl⟩
  · cases h : calcLIBCands prpsd with
    | nil => exact absurd h (calcLIBCands_ne_nil prpsd hne)
    | cons a t => exact ⟨a, rfl⟩

/-! ### monotonicity of the order statistic when one existing entry is raised -/

theorem setP_length_of_lookup {k : String} {v old : PL} : ∀ {l : List (String × PL)}, lookup k l = some old →
    (setP k v l).length = l.length
  | [], h => by simp [lookup] at h
  | (k', v') :: t, h => by
    unfold setP
    unfold lookup at h
    split
    · rfl
    · rename_i hk
      simp only [hk, Bool.false_eq_true, if_false] at h
      simp [setP_length_of_lookup h]

/-- raising an existing entry can only remove it from "below v" / "at most v". -/
theorem setP_counts_le {k : String} {v old : PL} (hle : old.plib.no ≤ v.plib.no) (x : Nat) :
    ∀ {l : List (String × PL)}, lookup k l = some old →
      cntLt x ((setP k v l).map (·.2)) ≤ cntLt x (l.map (·.2)) ∧ cntLe x ((setP k v l).map (·.2)) ≤ cntLe x (l.map (·.2))
  | [], h => by simp [lookup] at h
  | (k', v') :: t, h => by
    unfold setP
    unfold lookup at h
    by_cases hk : (k' == k) = true
    · simp only [hk, if_true, Option.some.injEq] at h ⊢
      subst h
      unfold cntLt cntLe
      simp only [List.map_cons, List.countP_cons]
      constructor
      · split <;> split <;> simp_all <;> omega
      · split <;> split <;> simp_all <;> omega
    · simp only [hk, Bool.false_eq_true, if_false] at h ⊢
      obtain ⟨r1, r2⟩ := setP_counts_le hle x h
      unfold cntLt cntLe at *
      simp only [List.map_cons, List.countP_cons]
      omega

/-- **order-statistic monotonicity.** Replacing the entry of a producer ALREADY in the map by one with a pre-LIB number
at least as high never lowers the number `calcLIB` selects. (A producer's FIRST entry lengthens the list and can lower
it: the repaired class C08-lib-decreases-when-producer-first-seen; `updateLIB`'s guard covers that.) -/
theorem calcLIBNo_setP_mono (prpsd : List (String × PL)) (k : String) (v old : PL) (a b : Nat)
    (hl : lookup k prpsd = some old) (hle : old.plib.no ≤ v.plib.no)
    (ha : calcLIBNo prpsd = some a) (hb : calcLIBNo (setP k v prpsd) = some b) : a ≤ b := by
  have hne : prpsd ≠ [] := by intro e; subst e; simp [lookup] at hl
  have hlen := setP_length_of_lookup (v := v) hl
  have hne2 : setP k v prpsd ≠ [] := by
    intro e; rw [e] at hlen
    exact hne (List.length_eq_zero_iff.mp hlen.symm)
  obtain ⟨p, _, hp, hst, _⟩ := calcLIBNo_spec prpsd hne
  obtain ⟨q, _, hq, hst2, _⟩ := calcLIBNo_spec _ hne2
  rw [hp] at ha; rw [hq] at hb
  simp only [Option.some.injEq] at ha hb
  subst ha; subst hb
  rw [hlen] at hst2
  by_cases hle' : p.plib.no ≤ q.plib.no
  · exact hle'
  exfalso
  have hlt : q.plib.no < p.plib.no := by omega
  have h1 := cntLe_le_cntLt hlt ((setP k v prpsd).map (·.2))
  have h2 := (setP_counts_le hle p.plib.no hl).1
  unfold IsStat at hst hst2
  omega


/-! ### the proposed map has one entry per producer -/

/-- the Go map has unique keys: one entry per producer. -/
def KeysNodup (p : List (String × PL)) : Prop := (p.map (·.1)).Nodup

theorem setP_keys (k : String) (v : PL) : ∀ l : List (String × PL),
    (setP k v l).map (·.1) = if k ∈ l.map (·.1) then l.map (·.1) else l.map (·.1) ++ [k]
  | [] => by simp [setP]
  | (k', v') :: t => by
    unfold setP
    by_cases hk : (k' == k) = true
    · have e : k' = k := by simpa using hk
      subst e
      simp
    · have e : ¬ k' = k := by simpa using hk
      have e' : ¬ k = k' := fun h => e h.symm
      simp only [hk, Bool.false_eq_true, if_false, List.map_cons, List.mem_cons, e', false_or]
      rw [setP_keys k v t]
      split <;> simp

theorem setP_KeysNodup {k : String} {v : PL} {l : List (String × PL)} (h : KeysNodup l) : KeysNodup (setP k v l) := by
  unfold KeysNodup at *
  rw [setP_keys]
  split
  · exact h
  · rename_i hk
    rw [List.nodup_append]
    refine ⟨h, by simp, ?_⟩
    intro a ha b hb
    simp only [List.mem_singleton] at hb
    subst hb
    intro e; subst e; exact hk ha

theorem filter_KeysNodup {f : String × PL → Bool} {l : List (String × PL)} (h : KeysNodup l) : KeysNodup (l.filter f) := by
  unfold KeysNodup at *
  exact h.sublist (List.filter_sublist.map _)

theorem overwriteP_KeysNodup : ∀ (src dst : List (String × PL)), KeysNodup dst → KeysNodup (overwriteP dst src)
  | [], _, h => h
  | (k, v) :: t, dst, h => by
    unfold overwriteP
    split
    · exact overwriteP_KeysNodup t _ (setP_KeysNodup h)
    · exact overwriteP_KeysNodup t _ h

theorem addConfirmInfo_KeysNodup {ls : LS} {b : Blk} (h : KeysNodup ls.prpsd) : KeysNodup (addConfirmInfo ls b).prpsd := by
  unfold addConfirmInfo
  split
  · exact h
  · simp only
    split
    · exact h
    · exact setP_KeysNodup h

theorem update_KeysNodup {ls : LS} {hint : String} (h : KeysNodup ls.prpsd) : KeysNodup (update ls hint).1.prpsd := by
  unfold update
  split
  · exact h
  · simp only
    split
    · exact h
    · exact setP_KeysNodup h

theorem gc_KeysNodup {ls : LS} {bps : List String} (h : KeysNodup ls.prpsd) : KeysNodup (gc ls bps).prpsd := by
  unfold gc
  simp only
  split
  · exact h
  · exact filter_KeysNodup h

theorem load_KeysNodup {n : Node} {ls : LS} {e : Nat} (h : KeysNodup ls.prpsd) : KeysNodup (load n ls e).prpsd := by
  unfold load
  simp only
  split
  · exact h
  · split
    · exact h
    · exact overwriteP_KeysNodup _ _ h

/-- one entry per producer, in the Status, in the boot loader and in the saved image. -/
def KeysInv (n : Node) : Prop :=
  KeysNodup n.ls.prpsd ∧ KeysNodup n.bl.prpsd ∧ ∀ p lib lpb, n.saved = some (p, lib, lpb) → KeysNodup p

theorem statusUpdate_KeysInv {n : Node} (b : Blk) (hint : String) (h : KeysInv n) : KeysInv (statusUpdate n b hint) := by
  obtain ⟨h1, h2, h3⟩ := h
  have hl : KeysNodup (statusLoad n).ls.prpsd ∧ (statusLoad n).bl = n.bl ∧ (statusLoad n).saved = n.saved := by
    unfold statusLoad; split
    · exact ⟨h1, rfl, rfl⟩
    · exact ⟨h2, rfl, rfl⟩
  unfold statusUpdate
  simp only
  generalize statusLoad n = m at hl ⊢
  obtain ⟨l1, l2, l3⟩ := hl
  split
  · split
    · exact ⟨l1, by rw [l2]; exact h2, by rw [l3]; exact h3⟩
    · have hu := update_KeysNodup (hint := hint) (addConfirmInfo_KeysNodup (b := b) l1)
      generalize update (addConfirmInfo m.ls b) hint = u at hu ⊢
      obtain ⟨ls2, lib⟩ := u
      refine ⟨?_, by rw [l2]; exact h2, by rw [l3]; exact h3⟩
      simp only at hu ⊢
      cases lib with
      | none => exact gc_KeysNodup hu
      | some l =>
        simp only
        split
        · exact gc_KeysNodup hu
        · exact gc_KeysNodup (ls := { ls2 with lib := l }) hu
  · exact ⟨gc_KeysNodup (load_KeysNodup l1), by rw [l2]; exact h2, by rw [l3]; exact h3⟩

theorem apply_KeysInv {n : Node} (op : Op) (h : KeysInv n) : KeysInv (n.apply op) := by
  cases op with
  | blk b => simp only [Node.apply]; split <;> exact h
  | update b hint => exact statusUpdate_KeysInv b hint h
  | connect b =>
    refine ⟨h.1, h.2.1, ?_⟩
    intro p lib lpb hs
    simp only [Node.apply, connect, savedOf, Option.some.injEq, Prod.mk.injEq] at hs
    rw [← hs.1]; exact h.1
  | swap bs =>
    simp only [Node.apply, swap]
    cases bs with
    | nil => exact h
    | cons t r =>
      simp only
      split
      · exact h
      · refine ⟨h.1, h.2.1, ?_⟩
        intro p lib lpb hs
        simp only [savedOf, Option.some.injEq, Prod.mk.injEq] at hs
        rw [← hs.1]; exact h.1
  | restart =>
    simp only [Node.apply, restart]
    refine ⟨by simp [newLS, KeysNodup], ?_, h.2.2⟩
    cases hs : n.saved with
    | none => simp [newLSWithConfirms, newLS, KeysNodup]
    | some v =>
      obtain ⟨p, lib, lpb⟩ := v
      exact load_KeysNodup (h.2.2 p lib lpb hs)

theorem newNode_KeysInv (self : String) (gbps : List String) : KeysInv (newNode self gbps) := by
  unfold newNode
  simp only [restart]
  exact ⟨by simp [newLS, KeysNodup], by simp [newLSWithConfirms, newLS, KeysNodup], by simp⟩

theorem run_KeysInv (ops : List Op) : ∀ {n : Node}, KeysInv n → KeysInv (n.run ops) := by
  induction ops with
  | nil => intro n h; exact h
  | cons op rest ih => intro n h; exact ih (apply_KeysInv op h)

end Aergo.Lib
