/-
C08: "the LIB lies on the node's main chain" THROUGH reorganisations, under the guard that excludes the known finding
C08-lib-from-stale-entry-of-abandoned-branch.

The chain service's activity is followed by a ghost `Phase`: `synced` (Status' best block = indexed tip), `pending b`
(between `Update(b)` and `connectToChain(b)`), `reorg root pend` (after the rollback `Update(root)`; `pend` = the blocks of
the new branch rolled forward so far, newest first; the number index is still the OLD chain until `swapChainMapping`).
`StepG n ph op ph'`: `op` is enabled in phase `ph` and leads to `ph'`. The ONLY hypothesis that is not about the shape of the
chain service's calls is `NoStale` at the rollback: after the rollback no proposed entry names a block numbered above the root.
-/
import Aergo.Lemmas.LibRestart

namespace Aergo.Lib

/-! ### range-aware replay -/

theorem replay_AllP_le (P : BI → Prop) (n : Node) (e : Nat) (hb : ∀ i b, i ≤ e → blockByNo n i = some b → P b.bi) :
    ∀ (cnt i : Nat) (tmp r : LS), i + cnt ≤ e + 1 → AllP P tmp → replay n tmp i cnt = some r → AllP P r
  | 0, _, tmp, r, _, h, hr => by
    simp only [replay, Option.some.injEq] at hr
    rw [← hr]; exact h
  | cnt + 1, i, tmp, r, hle, h, hr => by
    unfold replay at hr
    cases hbk : blockByNo n i with
    | none => simp [hbk] at hr
    | some b =>
      simp only [hbk] at hr
      exact replay_AllP_le P n e hb cnt (i + 1) _ r (by omega)
        (update_AllP P _ "" (addConfirmInfo_AllP P tmp b h (hb i b (by omega) hbk))).1 hr

/-- `load n ls e` reads the number index only at numbers ≤ e. -/
theorem load_entries_le (P : BI → Prop) (n : Node) (ls : LS) (e : Nat) (hz : P zeroBI) (hg : P n.genesis)
    (hb : ∀ i b, i ≤ e → blockByNo n i = some b → P b.bi) :
    (∀ kv ∈ (load n ls e).prpsd, kv ∈ ls.prpsd ∨ P kv.2.plib) ∧ (∀ c ∈ (load n ls e).confirms, P c.bi) ∧
      (load n ls e).lib = ls.lib ∧ (load n ls e).genesis = ls.genesis := by
  unfold load
  simp only
  split
  · exact ⟨fun kv m => Or.inl m, by simp, rfl, rfl⟩
  · split
    · exact ⟨fun kv m => Or.inl m, by simp, rfl, rfl⟩
    · rename_i tmp ht
      have htmp : AllP P tmp := by
        unfold loadPlibStatus at ht
        split at ht
        · simp at ht
        · split at ht
          · simp at ht
          · rename_i h1 h2
            refine replay_AllP_le P n e hb _ _ (newLSWithConfirms n.genesis n.self ls.cr) tmp ?_ ?_ ht
            · have h1' : ¬ begRecoBlockNo ls.cr ls.lib.no e = e := by simpa using h1
              split <;> omega
            · exact ⟨by simp [newLSWithConfirms, newLS], by simp [newLSWithConfirms, newLS],
                by simpa [newLSWithConfirms, newLS] using hz, by simpa [newLSWithConfirms, newLS] using hg⟩
      refine ⟨?_, ?_, rfl, rfl⟩
      · intro kv m
        simp only at m
        rcases mem_overwriteP _ _ kv m with h1 | h1
        · exact Or.inl h1
        · exact Or.inr (htmp.1 kv h1)
      · intro c m
        simp only at m
        split at m
        · simp at m
        · exact htmp.2.1 c m

theorem blockByNo_no {n : Node} (hb : ChainBase n) {i : Nat} {b : Blk} (h : blockByNo n i = some b) : b.no = i := by
  unfold blockByNo at h
  cases hh : hashByNo n i with
  | none => simp [hh] at h
  | some id =>
    simp only [hh, Option.bind_some] at h
    obtain ⟨b', hf, hno⟩ := hb.storeIdx _ (hashByNo_mem hh)
    simp only at hf hno
    rw [h] at hf
    rw [← Option.some.inj hf] at hno
    exact hno

/-! ### phases -/

inductive Phase where
  | synced
  | pending (b : Blk)
  | reorg (root : Nat) (pend : List Blk)
deriving DecidableEq

/-- the blocks rolled forward so far (newest first) are stored and numbered root+1, root+2, … -/
def PendOk (n : Node) (root : Nat) : List Blk → Prop
  | [] => True
  | c :: rest => c.no = root + rest.length + 1 ∧ findBlk n.blocks c.id = some c ∧ PendOk n root rest

theorem PendOk_mem {n : Node} {root : Nat} : ∀ {pend : List Blk} {b : Blk}, PendOk n root pend → b ∈ pend →
    root < b.no ∧ b.no ≤ root + pend.length ∧ findBlk n.blocks b.id = some b
  | [], _, _, h => by cases h
  | c :: rest, b, ⟨h1, h2, h3⟩, hm => by
    rcases List.mem_cons.mp hm with rfl | hm
    · exact ⟨by omega, by simp only [List.length_cons]; omega, h2⟩
    · obtain ⟨a1, a2, a3⟩ := PendOk_mem h3 hm
      exact ⟨a1, by simp only [List.length_cons]; omega, a3⟩

theorem PendOk_congr {n m : Node} (h : m.blocks = n.blocks) {root : Nat} : ∀ {pend : List Blk}, PendOk n root pend → PendOk m root pend
  | [], _ => trivial
  | _ :: _, ⟨h1, h2, h3⟩ => ⟨h1, by rw [h]; exact h2, PendOk_congr h h3⟩

theorem PendOk_store {n : Node} {b : Blk} (hn : (findBlk n.blocks b.id).isSome = false) {root : Nat} :
    ∀ {pend : List Blk}, PendOk n root pend → PendOk { n with blocks := b :: n.blocks } root pend
  | [], _ => trivial
  | _ :: _, ⟨h1, h2, h3⟩ => ⟨h1, findBlk_store_stable h2 hn, PendOk_store hn h3⟩

/-- after the swap the number index maps every rolled-forward block's number to it. -/
theorem find_pend {n : Node} {root : Nat} (idx : List (Nat × String)) : ∀ {pend : List Blk} {b : Blk}, PendOk n root pend → b ∈ pend →
    ((pend.map fun c => (c.no, c.id)) ++ idx).find? (·.1 == b.no) = some (b.no, b.id)
  | [], _, _, h => by cases h
  | c :: rest, b, hp, hm => by
    obtain ⟨h1, _, h3⟩ := hp
    simp only [List.map_cons, List.cons_append]
    rcases List.mem_cons.mp hm with rfl | hm
    · simp
    · have := (PendOk_mem h3 hm).2.1
      rw [List.find?_cons_of_neg]
      · exact find_pend idx h3 hm
      · simp only [beq_iff_eq]; omega

/-- what a reference of the finality status may be, per phase. -/
def Phase.Ref (n : Node) : Phase → BI → Prop
  | .synced => OC n
  | .pending b => fun bi => OC n bi ∨ bi = b.bi
  | .reorg root pend => fun bi => (OC n bi ∧ bi.no ≤ root) ∨ ∃ c ∈ pend, bi = c.bi

def Phase.St (n : Node) : Phase → Prop
  | .synced => (n.done = true → hashByNo n n.latest = some n.best) ∧ (n.done = false → hashByNo n n.latest = some n.blBest)
  | .pending b => n.done = true ∧ n.best = b.id ∧ b.no = n.latest + 1 ∧ findBlk n.blocks b.id = some b
  | .reorg root pend => n.done = true ∧ root < n.latest ∧ PendOk n root pend ∧
      (match pend with
       | [] => hashByNo n root = some n.best
       | c :: _ => n.best = c.id)

structure ChainInvG (n : Node) (ph : Phase) : Prop extends ChainBase n where
  blOn : n.done = false → AllP (OC n) n.bl
  savedOn : ∀ p lib lpb, n.saved = some (p, lib, lpb) → (∀ kv ∈ p, OC n kv.2.plib) ∧ OC n lib
  st : ph.St n
  refs : AllP (ph.Ref n) n.ls

/-- no proposed entry of the status names a block numbered above `root` (what the rollback would have to ensure; the pinned
code does not: known finding C08-lib-from-stale-entry-of-abandoned-branch). -/
def NoStale (ls : LS) (root : Nat) : Prop := ∀ kv ∈ ls.prpsd, kv.2.plib.no ≤ root

/-- `StepG n ph op ph'`: the chain service issues `op` in phase `ph`. -/
def StepG (n : Node) : Phase → Op → Phase → Prop
  -- a block is stored / the process restarts: any time
  | ph, .blk _, ph' => ph' = ph
  | _, .restart, ph' => ph' = .synced
  -- main-chain block: Update(b) for a stored child b of the tip, then connectToChain(b)
  | .synced, .update b _, .pending b' => b' = b ∧ b.no = n.latest + 1 ∧ (statusLoad n).best = b.prev ∧
      hashByNo n n.latest = some b.prev ∧ findBlk n.blocks b.id = some b
  | .pending b, .connect b', .synced => b' = b
  -- reorganisation: rollback = Update(root) for a main-chain block below the tip and at or above the LIB (NeedReorganization)
  | .synced, .update r hint, .reorg root pend => root = r.no ∧ pend = [] ∧ OnChain n r.bi ∧ r.no < n.latest ∧
      (statusLoad n).best ≠ r.prev ∧ (statusLoad n).ls.lib.no ≤ r.no ∧ NoStale (statusUpdate n r hint).ls r.no
  -- roll forward = Update(c) for the next stored block of the new branch
  | .reorg root pend, .update c _, .reorg root' pend' => root' = root ∧ pend' = c :: pend ∧ c.prev = n.best ∧
      c.no = root + pend.length + 1 ∧ findBlk n.blocks c.id = some c
  -- swapChainMapping with exactly the rolled-forward blocks, top first, longer than the old chain
  | .reorg _ pend, .swap nb, .synced => nb = pend ∧ (match pend with | c :: _ => n.latest < c.no | [] => False)
  -- failed execution of a main-chain block: Update(bestBlock), the tip itself (chainhandle.go executeBlock)
  | .synced, .update r _, .synced => hashByNo n n.latest = some r.id ∧ r.no = n.latest ∧ (statusLoad n).best ≠ r.prev
  -- failed roll-forward: Update(old best block); the number index was never swapped (reorg.go). Guard: nothing the status
  -- picked up on the branch that was NOT adopted survives (entries, LIB) — the pinned code does not ensure it
  | .reorg _ _, .update r hint, .synced => hashByNo n n.latest = some r.id ∧ r.no = n.latest ∧ n.best ≠ r.prev ∧
      (∀ kv ∈ (statusUpdate n r hint).ls.prpsd, OC n kv.2.plib) ∧ OC n n.ls.lib
  | _, _, _ => False

/-- a history the ghost automaton accepts, ending in phase `phEnd`. -/
def HistG : Node → Phase → List Op → Phase → Prop
  | _, ph, [], phEnd => phEnd = ph
  | n, ph, op :: rest, phEnd => ∃ ph', StepG n ph op ph' ∧ HistG (n.apply op) ph' rest phEnd

theorem hashByNo_congr {n m : Node} (h : m.index = n.index) (k : Nat) : hashByNo m k = hashByNo n k := by
  unfold hashByNo; rw [h]

theorem Ref_congr {n m : Node} (h : m.index = n.index) (ph : Phase) (bi : BI) : ph.Ref m bi ↔ ph.Ref n bi := by
  cases ph with
  | synced => exact OC_congr h bi
  | pending b => simp only [Phase.Ref]; rw [OC_congr h bi]
  | reorg root pend => simp only [Phase.Ref]; rw [OC_congr h bi]

/-! ### the steps -/

theorem restartG {n : Node} {ph : Phase} (h : ChainInvG n ph) : ChainInvG (restart n) .synced := by
  have := restart_ChainInv' h.toChainBase h.savedOn
  refine { this.toChainBase with blOn := fun _ => this.blOn, savedOn := this.savedOn, st := ?_, refs := ?_ }
  · rcases this.st with s | ⟨hd, _⟩
    · exact ⟨s.1, s.2.1⟩
    · simp [restart] at hd
  · rcases this.st with s | ⟨hd, _⟩
    · exact s.2.2
    · simp [restart] at hd

theorem blkG {n : Node} {ph : Phase} (b : Blk) (h : ChainInvG n ph) : ChainInvG (n.apply (.blk b)) ph := by
  simp only [Node.apply]
  split
  · exact h
  · rename_i hn
    have hn' : (findBlk n.blocks b.id).isSome = false := by simpa using hn
    have hidx : ({ n with blocks := b :: n.blocks } : Node).index = n.index := rfl
    refine { idxLe := h.idxLe, storeIdx := ?_, gen := h.gen, gen0 := h.gen0, tip := h.tip,
             blOn := h.blOn, savedOn := h.savedOn, st := ?_, refs := ?_ }
    · intro e he
      obtain ⟨x, hx, hno⟩ := h.storeIdx e he
      exact ⟨x, findBlk_store_stable hx hn', hno⟩
    · have hst := h.st
      cases ph with
      | synced => exact hst
      | pending x =>
        obtain ⟨a, b', c, d⟩ := hst
        exact ⟨a, b', c, findBlk_store_stable d hn'⟩
      | reorg root pend =>
        obtain ⟨a, b', c, d⟩ := hst
        exact ⟨a, b', PendOk_store hn' c, d⟩
    · exact AllP_mono (fun bi hbi => (Ref_congr hidx ph bi).mpr hbi) h.refs

/-- what `statusLoad` installs in phase synced. -/
theorem statusLoad_synced {n : Node} (h : ChainInvG n .synced) :
    (statusLoad n).done = true ∧ AllP (OC n) (statusLoad n).ls ∧ (statusLoad n).index = n.index ∧
      (statusLoad n).latest = n.latest ∧ (statusLoad n).blocks = n.blocks ∧ (statusLoad n).genesis = n.genesis ∧
      (statusLoad n).saved = n.saved ∧ hashByNo n n.latest = some (statusLoad n).best := by
  by_cases hd : n.done = true
  · have e : statusLoad n = n := by simp [statusLoad, hd]
    rw [e]
    exact ⟨hd, h.refs, rfl, rfl, rfl, rfl, rfl, h.st.1 hd⟩
  · have hd' : n.done = false := by simpa using hd
    have e : statusLoad n = { n with done := true, best := n.blBest, ls := n.bl } := by simp [statusLoad, hd]
    rw [e]
    exact ⟨rfl, h.blOn hd', rfl, rfl, rfl, rfl, rfl, h.st.2 hd'⟩

/-- the node a connect-branch Update leaves, given where its status' references live. -/
theorem updateG_result {n m : Node} {ph' : Phase} {b : Blk} (ls' : LS) (hb0 : ChainBase n)
    (hsv : ∀ p lib lpb, n.saved = some (p, lib, lpb) → (∀ kv ∈ p, OC n kv.2.plib) ∧ OC n lib)
    (m1 : m.done = true) (m3 : m.index = n.index) (m4 : m.latest = n.latest) (m5 : m.blocks = n.blocks)
    (m6 : m.genesis = n.genesis) (m8 : m.saved = n.saved)
    (hst : ph'.St ({ m with ls := ls', best := b.id } : Node))
    (hls : AllP (ph'.Ref n) ls') :
    ChainInvG { m with ls := ls', best := b.id } ph' := by
  have hidx : ({ m with ls := ls', best := b.id } : Node).index = n.index := m3
  have hb : ChainBase ({ m with ls := ls', best := b.id } : Node) := ChainBase_of_eq hb0 m3 m4 m5 m6
  refine { hb with blOn := ?_, savedOn := ?_, st := hst, refs := ?_ }
  · intro hd
    have : ({ m with ls := ls', best := b.id } : Node).done = m.done := rfl
    rw [this, m1] at hd; cases hd
  · intro p lib' lpb hs
    have hs' : n.saved = some (p, lib', lpb) := by rw [← m8]; exact hs
    obtain ⟨s1, s2⟩ := hsv p lib' lpb hs'
    exact ⟨fun kv mm => (OC_congr hidx _).mpr (s1 kv mm), (OC_congr hidx _).mpr s2⟩
  · exact AllP_mono (fun bi hbi => (Ref_congr hidx ph' bi).mpr hbi) hls

/-- the connect branch of `Status.Update` on a node whose status is `m.ls`. -/
theorem statusUpdate_connect_branch (m : Node) (b : Blk) (hint : String) (hd : m.done = true) (hbest : m.best = b.prev)
    (hno : b.no ≠ 0) :
    statusUpdate m b hint =
      { m with ls := { gc (updLIB (update (addConfirmInfo m.ls b) hint)) [] with cr := confirmsRequired m.size }, best := b.id } := by
  have hl : statusLoad m = m := by simp [statusLoad, hd]
  unfold statusUpdate
  simp only [hl]
  have hbeq : (m.best == b.prev) = true := by simp [hbest]
  simp only [hbeq, if_true]
  have hne : (addConfirmInfo m.ls b).confirms.isEmpty = false := by
    unfold addConfirmInfo
    have : (b.no == 0) = false := by simp [hno]
    simp [this]
  simp only [hne, Bool.false_eq_true, if_false]
  unfold updLIB
  generalize update (addConfirmInfo m.ls b) hint = u
  obtain ⟨ls2, lib⟩ := u
  cases lib with
  | none => rfl
  | some l =>
    by_cases hlt : l.no < ls2.lib.no
    · simp [hlt]
    · simp [hlt]

theorem statusUpdate_eq_of_load (n : Node) (b : Blk) (hint : String) :
    statusUpdate n b hint = statusUpdate (statusLoad n) b hint := by
  have : statusLoad (statusLoad n) = statusLoad n := by
    unfold statusLoad
    split
    · rename_i h; simp [h]
    · simp
  unfold statusUpdate
  simp only [this]

theorem updateTipG {n : Node} (b : Blk) (hint : String) (h : ChainInvG n .synced)
    (hs : StepG n .synced (.update b hint) (.pending b)) : ChainInvG (n.apply (.update b hint)) (.pending b) := by
  obtain ⟨_, hno, hbest, htip, hf⟩ := hs
  obtain ⟨m1, m2, m3, m4, m5, m6, m8, _⟩ := statusLoad_synced h
  simp only [Node.apply]
  rw [statusUpdate_eq_of_load, statusUpdate_connect_branch _ b hint m1 hbest (by omega)]
  apply updateG_result _ h.toChainBase h.savedOn m1 m3 m4 m5 m6 m8
  · exact ⟨m1, rfl, by show b.no = (statusLoad n).latest + 1; rw [m4]; exact hno,
      by show findBlk (statusLoad n).blocks b.id = some b; rw [m5]; exact hf⟩
  · have hP : AllP (fun bi => OC n bi ∨ bi = b.bi) (statusLoad n).ls := AllP_mono (fun bi hbi => Or.inl hbi) m2
    exact (connectStep_AllP _ _ b hint [] hP (Or.inr rfl)).2

theorem rollForwardG {n : Node} {root : Nat} {pend : List Blk} (c : Blk) (hint : String)
    (h : ChainInvG n (.reorg root pend)) (hs : StepG n (.reorg root pend) (.update c hint) (.reorg root (c :: pend))) :
    ChainInvG (n.apply (.update c hint)) (.reorg root (c :: pend)) := by
  obtain ⟨_, _, hprev, hno, hf⟩ := hs
  obtain ⟨hd, hlt, hpend, _⟩ := h.st
  simp only [Node.apply]
  rw [statusUpdate_connect_branch n c hint hd hprev.symm (by omega)]
  apply updateG_result _ h.toChainBase h.savedOn hd rfl rfl rfl rfl rfl
  · exact ⟨hd, hlt, ⟨hno, hf, PendOk_congr (n := n) (by rfl) hpend⟩, rfl⟩
  · have hP : AllP ((Phase.reorg root (c :: pend)).Ref n) n.ls := by
      refine AllP_mono ?_ h.refs
      intro bi hbi
      rcases hbi with e | ⟨x, hx, e⟩
      · exact Or.inl e
      · exact Or.inr ⟨x, List.mem_cons_of_mem _ hx, e⟩
    exact (connectStep_AllP _ _ c hint [] hP (Or.inr ⟨c, List.mem_cons_self, rfl⟩)).2

/-- the node a rollback-branch Update leaves. -/
theorem rollbackG_result {n m : Node} {ph' : Phase} (ls' : LS) (sz : Nat) (id : String) (hb0 : ChainBase n)
    (hsv : ∀ p lib lpb, n.saved = some (p, lib, lpb) → (∀ kv ∈ p, OC n kv.2.plib) ∧ OC n lib)
    (m1 : m.done = true) (m3 : m.index = n.index) (m4 : m.latest = n.latest) (m5 : m.blocks = n.blocks)
    (m6 : m.genesis = n.genesis) (m8 : m.saved = n.saved)
    (hst : ph'.St ({ m with ls := ls', size := sz, best := id } : Node))
    (hls : AllP (ph'.Ref n) ls') :
    ChainInvG { m with ls := ls', size := sz, best := id } ph' := by
  have hidx : ({ m with ls := ls', size := sz, best := id } : Node).index = n.index := m3
  have hb : ChainBase ({ m with ls := ls', size := sz, best := id } : Node) := ChainBase_of_eq hb0 m3 m4 m5 m6
  refine { hb with blOn := ?_, savedOn := ?_, st := hst, refs := ?_ }
  · intro hd
    have : ({ m with ls := ls', size := sz, best := id } : Node).done = m.done := rfl
    rw [this, m1] at hd; cases hd
  · intro p lib' lpb hs
    have hs' : n.saved = some (p, lib', lpb) := by rw [← m8]; exact hs
    obtain ⟨s1, s2⟩ := hsv p lib' lpb hs'
    exact ⟨fun kv mm => (OC_congr hidx _).mpr (s1 kv mm), (OC_congr hidx _).mpr s2⟩
  · exact AllP_mono (fun bi hbi => (Ref_congr hidx ph' bi).mpr hbi) hls

theorem statusUpdate_rollback_branch (m : Node) (r : Blk) (hint : String) (hd : m.done = true) (hbr : m.best ≠ r.prev) :
    statusUpdate m r hint =
      { m with ls := { gc (load m m.ls r.no) m.gbps with cr := confirmsRequired m.gbps.length },
               size := m.gbps.length, best := r.id } := by
  have hl : statusLoad m = m := by simp [statusLoad, hd]
  have hne : (m.best == r.prev) = false := by simp [hbr]
  unfold statusUpdate
  simp only [hl, hne, Bool.false_eq_true, if_false]

/-- what the rollback branch leaves in the status when it reloads as of block number `e ≤ latest`, from a status whose
references are on the chain: every reference is on the chain, window and LIB at or below `e`. -/
theorem rollback_refs {n m : Node} (e : Nat) (hbm : ChainBase m) (m3 : m.index = n.index) (m2 : AllP (OC n) m.ls)
    (hveto : m.ls.lib.no ≤ e) :
    AllP (OC n) (gc (load m m.ls e) m.gbps) ∧ (∀ c ∈ (gc (load m m.ls e) m.gbps).confirms, c.bi.no ≤ e) ∧
      (gc (load m m.ls e) m.gbps).lib.no ≤ e := by
  let P : BI → Prop := fun bi => OC m bi ∧ bi.no ≤ e
  obtain ⟨l1, l2, l3, l4⟩ := load_entries_le P m m.ls e ⟨Or.inl rfl, by simp [zeroBI]⟩
    ⟨genesis_OC hbm, by rw [hbm.gen]; simp⟩
    (fun i x hi hx => ⟨Or.inr (blockByNo_OnChain hbm hx), by
      have := blockByNo_no hbm hx
      show x.no ≤ e
      omega⟩)
  have hoc : ∀ bi, OC m bi → OC n bi := fun bi hh => (OC_congr m3 bi).mp hh
  have hwin : ∀ c ∈ (gc (load m m.ls e) m.gbps).confirms, P c.bi := by
    intro c hc
    unfold gc at hc
    simp only at hc
    obtain ⟨tt, ht⟩ := dropOldLe_prefix (load m m.ls e).lib.no (load m m.ls e).confirms
    have : c ∈ dropOldLe (load m m.ls e).lib.no (load m m.ls e).confirms := List.mem_of_mem_take hc
    exact l2 c (by rw [ht]; exact List.mem_append_left _ this)
  refine ⟨⟨?_, fun c hc => hoc _ (hwin c hc).1, ?_, ?_⟩, fun c hc => (hwin c hc).2, ?_⟩
  · intro kv hkv
    unfold gc at hkv
    simp only at hkv
    have hmem : kv ∈ (load m m.ls e).prpsd := by
      split at hkv
      · exact hkv
      · exact (List.mem_filter.mp hkv).1
    rcases l1 kv hmem with hh | hh
    · exact m2.1 kv hh
    · exact hoc _ hh.1
  · show OC n (gc (load m m.ls e) m.gbps).lib
    simp only [gc, l3]; exact m2.2.2.1
  · show OC n (gc (load m m.ls e) m.gbps).genesis
    simp only [gc, l4]; exact m2.2.2.2
  · simp only [gc, l3]; exact hveto

theorem rollbackG {n : Node} (r : Blk) (hint : String) (h : ChainInvG n .synced) (hgen : (statusLoad n).ls.genesis.no = 0)
    (hs : StepG n .synced (.update r hint) (.reorg r.no [])) : ChainInvG (n.apply (.update r hint)) (.reorg r.no []) := by
  obtain ⟨_, _, hon, hlt, hbr, hveto, hns⟩ := hs
  obtain ⟨m1, m2, m3, m4, m5, m6, m8, _⟩ := statusLoad_synced h
  have hbm : ChainBase (statusLoad n) := ChainBase_of_eq h.toChainBase m3 m4 m5 m6
  simp only [Node.apply]
  rw [statusUpdate_eq_of_load, statusUpdate_rollback_branch _ r hint m1 hbr] at hns ⊢
  obtain ⟨r1, r2, r3⟩ := rollback_refs r.no hbm m3 m2 hveto
  apply rollbackG_result _ _ _ h.toChainBase h.savedOn m1 m3 m4 m5 m6 m8
  · refine ⟨m1, ?_, trivial, ?_⟩
    · show r.no < (statusLoad n).latest
      rw [m4]; exact hlt
    · exact (hashByNo_congr m3 _).trans hon
  · -- every reference is on the chain at or below the root; for the proposed entries "at or below" is the guard NoStale
    have hcr : ∀ (t : LS) (c : Nat), AllP ((Phase.reorg r.no []).Ref n) t → AllP ((Phase.reorg r.no []).Ref n) { t with cr := c } :=
      fun t c a => a
    apply hcr
    refine ⟨?_, ?_, ?_, ?_⟩
    · intro kv hkv
      exact Or.inl ⟨r1.1 kv hkv, hns kv hkv⟩
    · intro c hc
      exact Or.inl ⟨r1.2.1 c hc, r2 c hc⟩
    · exact Or.inl ⟨r1.2.2.1, r3⟩
    · refine Or.inl ⟨r1.2.2.2, ?_⟩
      have hg : (gc (load (statusLoad n) (statusLoad n).ls r.no) (statusLoad n).gbps).genesis = (statusLoad n).ls.genesis := by
        simp only [gc]
        exact (load_entries_le (fun _ => True) _ _ r.no trivial trivial (fun _ _ _ _ => trivial)).2.2.2
      rw [hg, hgen]; exact Nat.zero_le _

theorem selfRollbackG {n : Node} (r : Blk) (hint : String) (h : ChainInvG n .synced)
    (hs : StepG n .synced (.update r hint) .synced) : ChainInvG (n.apply (.update r hint)) .synced := by
  obtain ⟨htip, hno, hbr⟩ := hs
  obtain ⟨m1, m2, m3, m4, m5, m6, m8, _⟩ := statusLoad_synced h
  have hbm : ChainBase (statusLoad n) := ChainBase_of_eq h.toChainBase m3 m4 m5 m6
  simp only [Node.apply]
  rw [statusUpdate_eq_of_load, statusUpdate_rollback_branch _ r hint m1 hbr]
  -- reload as of the tip: every reference comes from the index or was on the chain before
  obtain ⟨l1, l2, l3, l4⟩ := load_entries (OC (statusLoad n)) (statusLoad n) (statusLoad n).ls r.no (Or.inl rfl) (genesis_OC hbm)
    (fun i x hx => Or.inr (blockByNo_OnChain hbm hx))
  have hoc : ∀ bi, OC (statusLoad n) bi → OC n bi := fun bi hh => (OC_congr m3 bi).mp hh
  apply rollbackG_result _ _ _ h.toChainBase h.savedOn m1 m3 m4 m5 m6 m8
  · refine ⟨fun _ => ?_, fun hd => ?_⟩
    · show hashByNo _ (statusLoad n).latest = some r.id
      rw [m4]; exact (hashByNo_congr m3 _).trans htip
    · have : (statusLoad n).done = false := hd
      rw [m1] at this; cases this
  · have hcr : ∀ (t : LS) (c : Nat), AllP (OC n) t → AllP (OC n) { t with cr := c } := fun t c a => a
    apply hcr
    apply gc_AllP
    refine ⟨?_, fun c hc => hoc _ (l2 c hc), by rw [l3]; exact m2.2.2.1, by rw [l4]; exact m2.2.2.2⟩
    intro kv hkv
    rcases l1 kv hkv with hh | hh
    · exact m2.1 kv hh
    · exact hoc _ hh

theorem restoreG {n : Node} {root : Nat} {pend : List Blk} (r : Blk) (hint : String) (h : ChainInvG n (.reorg root pend))
    (hgen : n.ls.genesis.no = 0) (hs : StepG n (.reorg root pend) (.update r hint) .synced) : ChainInvG (n.apply (.update r hint)) .synced := by
  obtain ⟨htip, hno, hbr, hent, hlib⟩ := hs
  obtain ⟨hd, _, _, _⟩ := h.st
  simp only [Node.apply]
  rw [statusUpdate_rollback_branch n r hint hd hbr] at hent ⊢
  obtain ⟨_, l2, l3, l4⟩ := load_entries (OC n) n n.ls r.no (Or.inl rfl) (genesis_OC h.toChainBase)
    (fun i x hx => Or.inr (blockByNo_OnChain h.toChainBase hx))
  apply rollbackG_result _ _ _ h.toChainBase h.savedOn hd rfl rfl rfl rfl rfl
  · refine ⟨fun _ => ?_, fun hd' => ?_⟩
    · show hashByNo _ n.latest = some r.id
      exact htip
    · have : n.done = false := hd'
      rw [hd] at this; cases this
  · have hcr : ∀ (t : LS) (c : Nat), AllP (OC n) t → AllP (OC n) { t with cr := c } := fun t c a => a
    apply hcr
    refine ⟨hent, ?_, ?_, ?_⟩
    · intro c hc
      unfold gc at hc
      simp only at hc
      obtain ⟨tt, ht⟩ := dropOldLe_prefix (load n n.ls r.no).lib.no (load n n.ls r.no).confirms
      have : c ∈ dropOldLe (load n n.ls r.no).lib.no (load n n.ls r.no).confirms := List.mem_of_mem_take hc
      exact l2 c (by rw [ht]; exact List.mem_append_left _ this)
    · show OC n (gc (load n n.ls r.no) n.gbps).lib
      simp only [gc, l3]; exact hlib
    · show OC n (gc (load n n.ls r.no) n.gbps).genesis
      simp only [gc, l4]
      rcases h.refs.2.2.2 with e | ⟨c, hc, e⟩
      · exact e.1
      · -- a rolled-forward block is numbered above the root, the genesis info is numbered 0
        have hm := PendOk_mem h.st.2.2.1 hc
        have : n.ls.genesis.no = c.no := by rw [e]; rfl
        omega

theorem connectG {n : Node} (b : Blk) (h : ChainInvG n (.pending b)) : ChainInvG (n.apply (.connect b)) .synced := by
  obtain ⟨hd, hbest, hno, hf⟩ := h.st
  have hblocks : (connect n b).blocks = n.blocks := by unfold connect; simp [hf]
  have hmono : ∀ bi, OC n bi → OC (connect n b) bi := by
    intro bi hbi
    rcases hbi with e | e
    · exact Or.inl e
    · exact Or.inr (OnChain_connect h.toChainBase b hno e)
  have hnew : OnChain (connect n b) b.bi := by unfold OnChain hashByNo connect Blk.bi; simp
  have hls : AllP (OC (connect n b)) n.ls := by
    refine AllP_mono ?_ h.refs
    intro bi hbi
    rcases hbi with e | e
    · exact hmono bi e
    · rw [e]; exact Or.inr hnew
  show ChainInvG (connect n b) .synced
  refine { idxLe := ?_, storeIdx := ?_, gen := h.gen, gen0 := ?_, tip := ?_, blOn := ?_, savedOn := ?_, st := ⟨?_, ?_⟩, refs := hls }
  · intro e he
    show e.1 ≤ b.no
    rcases List.mem_cons.mp he with rfl | he
    · exact Nat.le_refl _
    · have := h.idxLe e he; omega
  · intro e he
    rw [hblocks]
    rcases List.mem_cons.mp he with rfl | he
    · exact ⟨b, hf, rfl⟩
    · exact h.storeIdx e he
  · rw [hashByNo_connect_ne n b (by omega)]; exact h.gen0
  · exact ⟨b.id, by unfold hashByNo connect; simp⟩
  · intro hd'
    have : (connect n b).done = n.done := rfl
    rw [this, hd] at hd'; cases hd'
  · intro p lib lpb hs
    simp only [connect, savedOf, Option.some.injEq, Prod.mk.injEq] at hs
    obtain ⟨e1, e2, _⟩ := hs
    rw [← e1, ← e2]
    exact ⟨hls.1, hls.2.2.1⟩
  · intro _
    show hashByNo (connect n b) b.no = some n.best
    rw [hbest]; unfold hashByNo connect; simp
  · intro hd'
    have : (connect n b).done = n.done := rfl
    rw [this, hd] at hd'; cases hd'

/-- the node after a successful `swapChainMapping(bs)` whose top block is numbered `top`. -/
def swapped (n : Node) (bs : List Blk) (top : Nat) : Node :=
  { n with index := (bs.map fun b => (b.no, b.id)) ++ n.index, latest := top, saved := some (savedOf n.ls) }

theorem swap_eq (n : Node) (c : Blk) (rest : List Blk) (hlt : n.latest < c.no) :
    (swap n (c :: rest)).1 = swapped n (c :: rest) c.no := by
  unfold swap swapped
  have : ¬ n.latest ≥ c.no := by omega
  simp [this]

theorem swapG {n : Node} {root : Nat} (c : Blk) (rest : List Blk) (h : ChainInvG n (.reorg root (c :: rest)))
    (hlt : n.latest < c.no) : ChainInvG (n.apply (.swap (c :: rest))) .synced := by
  obtain ⟨hd, hroot, hpend, hbest⟩ := h.st
  simp only [Node.apply]
  rw [swap_eq n c rest hlt]
  have hall : ∀ b ∈ c :: rest, root < b.no ∧ b.no ≤ c.no ∧ findBlk n.blocks b.id = some b := by
    intro b hb
    obtain ⟨a1, a2, a3⟩ := PendOk_mem hpend hb
    exact ⟨a1, by have := hpend.1; simp only [List.length_cons] at a2; omega, a3⟩
  -- what was on the old chain at or below the root stays; a rolled-forward block is now indexed
  have hold : ∀ k, k ≤ root → hashByNo (swapped n (c :: rest) c.no) k = hashByNo n k := by
    intro k hk
    unfold hashByNo swapped
    simp only
    rw [find?_map_append_none (fun b hb => by have := (hall b hb).1; omega)]
  have hnewb : ∀ b ∈ c :: rest, hashByNo (swapped n (c :: rest) c.no) b.no = some b.id := by
    intro b hb
    unfold hashByNo swapped
    simp only
    rw [find_pend n.index hpend hb]; rfl
  have href : ∀ bi, (Phase.reorg root (c :: rest)).Ref n bi → OC (swapped n (c :: rest) c.no) bi := by
    intro bi hbi
    rcases hbi with ⟨e, hle⟩ | ⟨x, hx, e⟩
    · rcases e with e | e
      · exact Or.inl e
      · refine Or.inr ?_
        unfold OnChain
        rw [hold _ hle]; exact e
    · refine Or.inr ?_
      unfold OnChain
      rw [e]
      exact hnewb x hx
  have hls : AllP (OC (swapped n (c :: rest) c.no)) n.ls := AllP_mono href h.refs
  refine { idxLe := ?_, storeIdx := ?_, gen := h.gen, gen0 := ?_, tip := ?_, blOn := ?_, savedOn := ?_, st := ⟨?_, ?_⟩, refs := hls }
  · intro e he
    show e.1 ≤ c.no
    rcases List.mem_append.mp he with he | he
    · obtain ⟨x, hx, rfl⟩ := List.mem_map.mp he
      exact (hall x hx).2.1
    · have := h.idxLe e he; omega
  · intro e he
    rcases List.mem_append.mp he with he | he
    · obtain ⟨x, hx, rfl⟩ := List.mem_map.mp he
      exact ⟨x, (hall x hx).2.2, rfl⟩
    · exact h.storeIdx e he
  · rw [hold 0 (Nat.zero_le _)]; exact h.gen0
  · exact ⟨c.id, hnewb c List.mem_cons_self⟩
  · intro hd'
    have : n.done = false := hd'
    rw [hd] at this; cases this
  · intro p lib lpb hs
    simp only [swapped, savedOf, Option.some.injEq, Prod.mk.injEq] at hs
    obtain ⟨e1, e2, _⟩ := hs
    rw [← e1, ← e2]
    exact ⟨hls.1, hls.2.2.1⟩
  · intro _
    show hashByNo (swapped n (c :: rest) c.no) c.no = some n.best
    rw [hbest]
    exact hnewb c List.mem_cons_self
  · intro hd'
    have : n.done = false := hd'
    rw [hd] at this; cases this


/-! ### every step, every history -/

theorem genNo_of_IdInv {n : Node} (hb : ChainBase n) (hid : IdInv n) :
    n.ls.genesis.no = 0 ∧ (statusLoad n).ls.genesis.no = 0 := by
  have h1 : n.ls.genesis.no = 0 := by rw [hid.1, hb.gen]
  have h2 : n.bl.genesis.no = 0 := by rw [hid.2.2.1, hb.gen]
  refine ⟨h1, ?_⟩
  unfold statusLoad
  split
  · exact h1
  · exact h2

theorem stepG_inv {n : Node} {ph ph' : Phase} {op : Op} (h : ChainInvG n ph) (hid : IdInv n) (hs : StepG n ph op ph') :
    ChainInvG (n.apply op) ph' := by
  obtain ⟨g1, g2⟩ := genNo_of_IdInv h.toChainBase hid
  cases op with
  | blk b =>
    have e : ph' = ph := by cases ph <;> simpa [StepG] using hs
    subst e; exact blkG b h
  | restart =>
    have e : ph' = .synced := by cases ph <;> simpa [StepG] using hs
    subst e; exact restartG h
  | update b hint =>
    cases ph with
    | synced =>
      cases ph' with
      | synced => exact selfRollbackG b hint h hs
      | pending b' =>
        have e : b' = b := by simp only [StepG] at hs; exact hs.1
        subst e; exact updateTipG b' hint h hs
      | reorg root pend =>
        have e : root = b.no ∧ pend = [] := by simp only [StepG] at hs; exact ⟨hs.1, hs.2.1⟩
        obtain ⟨e1, e2⟩ := e
        subst e1; subst e2
        exact rollbackG b hint h g2 hs
    | pending x => cases ph' <;> simp [StepG] at hs
    | reorg root pend =>
      cases ph' with
      | synced => exact restoreG b hint h g1 hs
      | pending _ => simp [StepG] at hs
      | reorg root' pend' =>
        have e : root' = root ∧ pend' = b :: pend := by simp only [StepG] at hs; exact ⟨hs.1, hs.2.1⟩
        obtain ⟨e1, e2⟩ := e
        subst e1; subst e2
        exact rollForwardG b hint h hs
  | connect b =>
    cases ph with
    | synced => cases ph' <;> simp [StepG] at hs
    | reorg root pend => cases ph' <;> simp [StepG] at hs
    | pending x =>
      cases ph' with
      | synced =>
        have e : b = x := by simpa [StepG] using hs
        subst e; exact connectG b h
      | pending _ => simp [StepG] at hs
      | reorg _ _ => simp [StepG] at hs
  | swap nb =>
    cases ph with
    | synced => cases ph' <;> simp [StepG] at hs
    | pending x => cases ph' <;> simp [StepG] at hs
    | reorg root pend =>
      cases ph' with
      | synced =>
        simp only [StepG] at hs
        obtain ⟨e, hlt⟩ := hs
        subst e
        cases nb with
        | nil => exact absurd hlt (by simp)
        | cons c rest => exact swapG c rest h hlt
      | pending _ => simp [StepG] at hs
      | reorg _ _ => simp [StepG] at hs

theorem histG_inv : ∀ (ops : List Op) {n : Node} {ph phEnd : Phase}, ChainInvG n ph → IdInv n → HistG n ph ops phEnd →
    ChainInvG (n.run ops) phEnd
  | [], _, _, _, h, _, hh => by
    have e : _ = _ := hh
    subst e; exact h
  | op :: rest, n, ph, phEnd, h, hid, hh => by
    obtain ⟨ph', hs, hrest⟩ := hh
    show ChainInvG ((n.apply op).run rest) phEnd
    exact histG_inv rest (stepG_inv h hid hs) (apply_IdInv op hid).1 hrest

theorem newNode_ChainInvG (self : String) (gbps : List String) : ChainInvG (newNode self gbps) .synced := by
  have h := newNode_ChainInv self gbps
  have hd : (newNode self gbps).done = false := by simp [newNode, restart]
  refine { h.toChainBase with blOn := fun _ => h.blOn, savedOn := h.savedOn, st := ?_, refs := ?_ }
  · rcases h.st with s | ⟨hd', _⟩
    · exact ⟨s.1, s.2.1⟩
    · rw [hd] at hd'; cases hd'
  · rcases h.st with s | ⟨hd', _⟩
    · exact s.2.2
    · rw [hd] at hd'; cases hd'


/-! ### decidability (for the non-vacuity examples) -/

instance decNoStale (ls : LS) (root : Nat) : Decidable (NoStale ls root) :=
  inferInstanceAs (Decidable (∀ kv ∈ ls.prpsd, kv.2.plib.no ≤ root))

instance decOnChain (n : Node) (bi : BI) : Decidable (OnChain n bi) :=
  inferInstanceAs (Decidable (hashByNo n bi.no = some bi.hash))

instance decOC (n : Node) (bi : BI) : Decidable (OC n bi) :=
  inferInstanceAs (Decidable (bi = zeroBI ∨ OnChain n bi))

instance decStepG (n : Node) (ph : Phase) (op : Op) (ph' : Phase) : Decidable (StepG n ph op ph') := by
  cases ph <;> cases op <;> cases ph' <;> dsimp only [StepG] <;> first | infer_instance | (split <;> infer_instance)

/-- a history with its phases written out. -/
def HistGW : Node → Phase → List (Op × Phase) → Prop
  | _, _, [] => True
  | n, ph, (op, ph') :: rest => StepG n ph op ph' ∧ HistGW (n.apply op) ph' rest

instance decHistGW : (n : Node) → (ph : Phase) → (l : List (Op × Phase)) → Decidable (HistGW n ph l)
  | _, _, [] => isTrue trivial
  | n, ph, (op, ph') :: rest =>
    have := decHistGW (n.apply op) ph' rest
    inferInstanceAs (Decidable (StepG n ph op ph' ∧ HistGW (n.apply op) ph' rest))

/-- the phase a written-out history ends in. -/
def lastPh : Phase → List (Op × Phase) → Phase
  | ph, [] => ph
  | _, (_, ph') :: rest => lastPh ph' rest

theorem HistG_of_HistGW : ∀ (l : List (Op × Phase)) (n : Node) (ph : Phase), HistGW n ph l →
    HistG n ph (l.map (·.1)) (lastPh ph l)
  | [], _, _, _ => rfl
  | (op, ph') :: rest, n, ph, h => ⟨ph', h.1, HistG_of_HistGW rest (n.apply op) ph' h.2⟩

end Aergo.Lib
