/-
C08: what a restart restores. `load` = "saved image, overwritten by the replay of the stored main chain": the proposed
map after `load` is described lookup by lookup (`lookup_overwriteP`); the Status' identity fields (genesis, self) are
constant along every history (`IdInv`).
-/
import Aergo.Lemmas.LibOrder
import Aergo.Lemmas.LibChain

namespace Aergo.Lib

theorem lookup_setP_ne {k k' : String} (v : PL) (h : k' ≠ k) : ∀ l, lookup k (setP k' v l) = lookup k l
  | [] => by
    have : (k' == k) = false := by simp [h]
    simp [setP, lookup, this]
  | (k2, v2) :: t => by
    unfold setP
    by_cases h2 : (k2 == k') = true
    · have e : k2 = k' := by simpa using h2
      subst e
      have : (k2 == k) = false := by simp [h]
      simp [lookup, this]
    · simp only [h2, Bool.false_eq_true, if_false]
      unfold lookup
      rw [lookup_setP_ne v h t]

theorem lookup_none_of_not_mem {k : String} : ∀ {l : List (String × PL)}, k ∉ l.map (·.1) → lookup k l = none
  | [], _ => rfl
  | (k2, v2) :: t, h => by
    simp only [List.map_cons, List.mem_cons, not_or] at h
    have : (k2 == k) = false := by
      have : k2 ≠ k := fun e => h.1 e.symm
      simp [this]
    simp [lookup, this, lookup_none_of_not_mem h.2]

/-- `load`'s merge, lookup by lookup: an entry the replay yields with a pre-LIB number > 0 replaces the old one; every other
producer keeps its old entry (or has none). -/
theorem lookup_overwriteP (k : String) : ∀ (src dst : List (String × PL)), KeysNodup src →
    lookup k (overwriteP dst src) =
      match lookup k src with
      | some v => if v.plib.no > 0 then some v else lookup k dst
      | none => lookup k dst
  | [], _, _ => rfl
  | (k', v') :: t, dst, h => by
    have ht : KeysNodup t := by
      unfold KeysNodup at *
      exact (List.nodup_cons.mp h).2
    have hk' : k' ∉ t.map (·.1) := by
      unfold KeysNodup at h
      exact (List.nodup_cons.mp h).1
    unfold overwriteP
    rw [lookup_overwriteP k t _ ht]
    by_cases e : k' = k
    · subst e
      have h1 : lookup k' ((k', v') :: t) = some v' := by simp [lookup]
      rw [h1, lookup_none_of_not_mem hk']
      simp only
      split
      · exact lookup_setP_self _ _ _
      · rfl
    · have h1 : lookup k ((k', v') :: t) = lookup k t := by
        have : (k' == k) = false := by simp [e]
        simp [lookup, this]
      rw [h1]
      have h2 : lookup k (if v'.plib.no > 0 then setP k' v' dst else dst) = lookup k dst := by
        split
        · exact lookup_setP_ne v' e dst
        · rfl
      rw [h2]

theorem replay_KeysNodup (n : Node) : ∀ (cnt i : Nat) (tmp r : LS), KeysNodup tmp.prpsd →
    replay n tmp i cnt = some r → KeysNodup r.prpsd
  | 0, _, tmp, r, h, hr => by
    simp only [replay, Option.some.injEq] at hr
    rw [← hr]; exact h
  | cnt + 1, i, tmp, r, h, hr => by
    unfold replay at hr
    cases hb : blockByNo n i with
    | none => simp [hb] at hr
    | some b =>
      simp only [hb] at hr
      exact replay_KeysNodup n cnt (i + 1) _ r (update_KeysNodup (addConfirmInfo_KeysNodup h)) hr

theorem loadPlibStatus_KeysNodup {n : Node} {beg e cr : Nat} {t : LS} (h : loadPlibStatus n beg e cr = some t) :
    KeysNodup t.prpsd := by
  unfold loadPlibStatus at h
  split at h
  · simp at h
  · split at h
    · simp at h
    · exact replay_KeysNodup n _ _ _ t (by simp [newLSWithConfirms, newLS, KeysNodup]) h

/-- `load`, completely: LIB, lpbNo, confirmsRequired, genesis and self are kept; the window is the replayed one; the
proposed map is the old one overwritten, producer by producer, by the replayed entries numbered > 0. -/
theorem load_exact (n : Node) (ls : LS) (e : Nat) :
    (load n ls e).lib = ls.lib ∧ (load n ls e).lpb = ls.lpb ∧ (load n ls e).cr = ls.cr ∧
    (load n ls e).genesis = ls.genesis ∧ (load n ls e).self = ls.self ∧
    ((e = 0 ∨ loadPlibStatus n (begRecoBlockNo ls.cr ls.lib.no e) e ls.cr = none) →
        (load n ls e).prpsd = ls.prpsd ∧ (load n ls e).confirms = []) ∧
    (∀ t, e ≠ 0 → loadPlibStatus n (begRecoBlockNo ls.cr ls.lib.no e) e ls.cr = some t →
        (load n ls e).confirms = t.confirms ∧
        ∀ k, lookup k (load n ls e).prpsd =
          match lookup k t.prpsd with
          | some v => if v.plib.no > 0 then some v else lookup k ls.prpsd
          | none => lookup k ls.prpsd) := by
  unfold load
  simp only
  split
  · rename_i h0
    have he : e = 0 := by simpa using h0
    exact ⟨rfl, rfl, rfl, rfl, rfl, fun _ => ⟨rfl, rfl⟩, fun t h => absurd he h⟩
  · rename_i h0
    have he : e ≠ 0 := by simpa using h0
    split
    · rename_i ht
      exact ⟨rfl, rfl, rfl, rfl, rfl, fun _ => ⟨rfl, rfl⟩, fun t _ h => by rw [ht] at h; cases h⟩
    · rename_i tmp ht
      refine ⟨rfl, rfl, rfl, rfl, rfl, ?_, ?_⟩
      · intro h
        rcases h with h | h
        · exact absurd h he
        · rw [ht] at h; cases h
      · intro t _ h
        rw [ht] at h
        have e2 : tmp = t := Option.some.inj h
        subst e2
        refine ⟨?_, fun k => lookup_overwriteP k _ _ (loadPlibStatus_KeysNodup ht)⟩
        cases hc : tmp.confirms with
        | nil => simp
        | cons a r => simp

/-! ### identity fields along histories -/

/-- genesis / self of the Status and of the boot loader are the node's. -/
def IdInv (n : Node) : Prop :=
  n.ls.genesis = n.genesis ∧ n.ls.self = n.self ∧ n.bl.genesis = n.genesis ∧ n.bl.self = n.self

theorem addConfirmInfo_id (ls : LS) (b : Blk) :
    (addConfirmInfo ls b).genesis = ls.genesis ∧ (addConfirmInfo ls b).self = ls.self := by
  unfold addConfirmInfo; split <;> exact ⟨rfl, rfl⟩

theorem update_id (ls : LS) (hint : String) :
    (update ls hint).1.genesis = ls.genesis ∧ (update ls hint).1.self = ls.self := by
  unfold update
  split
  · exact ⟨rfl, rfl⟩
  · simp only; split <;> exact ⟨rfl, rfl⟩

theorem statusUpdate_IdInv {n : Node} (b : Blk) (hint : String) (h : IdInv n) :
    IdInv (statusUpdate n b hint) ∧ (statusUpdate n b hint).genesis = n.genesis ∧ (statusUpdate n b hint).self = n.self := by
  have hl : IdInv (statusLoad n) ∧ (statusLoad n).genesis = n.genesis ∧ (statusLoad n).self = n.self := by
    unfold statusLoad
    split
    · exact ⟨h, rfl, rfl⟩
    · exact ⟨⟨h.2.2.1, h.2.2.2, h.2.2.1, h.2.2.2⟩, rfl, rfl⟩
  unfold statusUpdate
  simp only
  generalize statusLoad n = m at hl ⊢
  obtain ⟨⟨i1, i2, i3, i4⟩, g1, g2⟩ := hl
  split
  · split
    · exact ⟨⟨i1, i2, i3, i4⟩, g1, g2⟩
    · have ha := addConfirmInfo_id m.ls b
      have hu := update_id (addConfirmInfo m.ls b) hint
      generalize update (addConfirmInfo m.ls b) hint = u at hu ⊢
      obtain ⟨ls2, lib⟩ := u
      simp only at hu ⊢
      refine ⟨⟨?_, ?_, i3, i4⟩, g1, g2⟩
      · cases lib with
        | none => simp only [gc]; rw [hu.1, ha.1, i1]
        | some l => simp only; split <;> (simp only [gc]; rw [hu.1, ha.1, i1])
      · cases lib with
        | none => simp only [gc]; rw [hu.2, ha.2, i2]
        | some l => simp only; split <;> (simp only [gc]; rw [hu.2, ha.2, i2])
  · obtain ⟨_, _, _, l4, l5, _⟩ := load_exact m m.ls b.no
    refine ⟨⟨?_, ?_, i3, i4⟩, g1, g2⟩
    · simp only [gc]; rw [l4, i1]
    · simp only [gc]; rw [l5, i2]

theorem restart_IdInv (n : Node) : IdInv (restart n) := by
  unfold restart
  simp only
  refine ⟨rfl, rfl, ?_, ?_⟩
  · cases hs : n.saved with
    | none => rfl
    | some v =>
      obtain ⟨p, lib, lpb⟩ := v
      simp only
      rw [(load_exact n _ n.latest).2.2.2.1]
      rfl
  · cases hs : n.saved with
    | none => rfl
    | some v =>
      obtain ⟨p, lib, lpb⟩ := v
      simp only
      rw [(load_exact n _ n.latest).2.2.2.2.1]
      rfl

theorem apply_IdInv {n : Node} (op : Op) (h : IdInv n) :
    IdInv (n.apply op) ∧ (n.apply op).genesis = n.genesis ∧ (n.apply op).self = n.self ∧ (n.apply op).gbps = n.gbps := by
  cases op with
  | blk b => simp only [Node.apply]; split <;> exact ⟨h, rfl, rfl, rfl⟩
  | update b hint =>
    obtain ⟨a, b', c⟩ := statusUpdate_IdInv b hint h
    refine ⟨a, b', c, ?_⟩
    simp only [Node.apply, statusUpdate, statusLoad]
    split <;> split <;> (try split) <;> rfl
  | connect b => exact ⟨h, rfl, rfl, rfl⟩
  | swap bs =>
    simp only [Node.apply, swap]
    cases bs with
    | nil => exact ⟨h, rfl, rfl, rfl⟩
    | cons t r => simp only; split <;> exact ⟨h, rfl, rfl, rfl⟩
  | restart => exact ⟨restart_IdInv n, rfl, rfl, rfl⟩

theorem run_IdInv : ∀ (ops : List Op) {n : Node}, IdInv n →
    IdInv (n.run ops) ∧ (n.run ops).genesis = n.genesis ∧ (n.run ops).self = n.self ∧ (n.run ops).gbps = n.gbps
  | [], _, h => ⟨h, rfl, rfl, rfl⟩
  | op :: rest, n, h => by
    obtain ⟨a, b, c, d⟩ := apply_IdInv op h
    obtain ⟨a', b', c', d'⟩ := run_IdInv rest a
    exact ⟨a', by rw [← b]; exact b', by rw [← c]; exact c', by rw [← d]; exact d'⟩

theorem newNode_IdInv (self : String) (gbps : List String) : IdInv (newNode self gbps) := by
  unfold newNode
  exact restart_IdInv _

end Aergo.Lib
