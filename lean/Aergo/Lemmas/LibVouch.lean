/-
C08: every pre-LIB entry — hence every LIB — is VOUCHED for by a full quorum of the producer set, however few producers
have been seen so far. `Vouched q blocks bi`: there are at least `q` window positions, each a stored block, whose confirm
range contains `bi.no`. With `q = confirmsRequired k` (k = producer count) this is the link between `calcLIB`'s quorum of the
m producers SEEN (`calcLIB_order_statistic`) and the quorum of ALL k producers: the selected LIB is one of the entries, and an
entry is either the genesis placeholder or was installed by a walk that found `q` covering window blocks (`prelib_quorum`).
The invariant is carried along every history (rollback replays and restarts included).
-/
import Aergo.Lemmas.LibRestart

namespace Aergo.Lib

/-- the window element is (the block info and producer of) a stored block. -/
def Stored (blocks : List Blk) (c : CI) : Prop := ∃ b ∈ blocks, c.bi = b.bi ∧ c.bp = b.bp

def WinStored (blocks : List Blk) (w : List CI) : Prop := ∀ c ∈ w, Stored blocks c

/-- at least `q` window positions, all stored blocks, whose confirm range contains `bi.no`. -/
def Vouched (q : Nat) (blocks : List Blk) (bi : BI) : Prop :=
  ∃ confirmers : List CI, q ≤ confirmers.length ∧ ∀ d ∈ confirmers, inRange d.bi bi.no = true ∧ Stored blocks d

/-- every entry is the genesis placeholder or vouched for. -/
def EntriesVouched (q : Nat) (blocks : List Blk) (g : BI) (p : List (String × PL)) : Prop :=
  ∀ kv ∈ p, kv.2.plib = g ∨ Vouched q blocks kv.2.plib

/-- the LIB field: the zero value, the genesis placeholder, or vouched for. -/
def LibOk (q : Nat) (blocks : List Blk) (g : BI) (l : BI) : Prop := l = zeroBI ∨ l = g ∨ Vouched q blocks l

theorem Stored_mono {b1 b2 : List Blk} (h : ∀ x ∈ b1, x ∈ b2) {c : CI} (s : Stored b1 c) : Stored b2 c := by
  obtain ⟨b, hb, e⟩ := s
  exact ⟨b, h b hb, e⟩

theorem Vouched_mono {q : Nat} {b1 b2 : List Blk} (h : ∀ x ∈ b1, x ∈ b2) {bi : BI} (v : Vouched q b1 bi) : Vouched q b2 bi := by
  obtain ⟨cs, h1, h2⟩ := v
  exact ⟨cs, h1, fun d hd => ⟨(h2 d hd).1, Stored_mono h (h2 d hd).2⟩⟩

/-- distinct producers when the confirmers' ranges are honest. -/
theorem Vouched_distinct {q : Nat} {blocks : List Blk} {bi : BI} (confirmers : List CI)
    (hc : ∀ d ∈ confirmers, inRange d.bi bi.no = true) (hh : HonestRanges confirmers) :
    (confirmers.map (·.bp)).Nodup := by
  have := covering_producers_nodup confirmers bi.no hh
  have e : confirmers.filter (fun d => inRange d.bi bi.no) = confirmers := by
    rw [List.filter_eq_self]
    intro d hd
    exact hc d hd
  rw [e] at this
  exact this

/-- the loop of getPreLIB keeps block info and producer of every element. -/
theorem walk_keeps (x : BI) : ∀ (l : List CI), ∀ c ∈ (walk x l).1, ∃ c0 ∈ l, c.bi = c0.bi ∧ c.bp = c0.bp
  | [] => by simp [walk]
  | c :: rest => by
    have ih := walk_keeps x rest
    have e1 : (if inRange x c.bi.no then { c with left := decr16 c.left } else c : CI).bi = c.bi ∧
        (if inRange x c.bi.no then { c with left := decr16 c.left } else c : CI).bp = c.bp := by
      split <;> exact ⟨rfl, rfl⟩
    rw [walk_cons]
    generalize (if inRange x c.bi.no then { c with left := decr16 c.left } else c : CI) = c' at e1 ⊢
    split
    · intro d hd
      rcases List.mem_cons.mp hd with h | h
      · exact ⟨c, List.mem_cons_self, by rw [h]; exact e1⟩
      · exact ⟨d, List.mem_cons_of_mem _ h, rfl, rfl⟩
    · intro d hd
      rcases List.mem_cons.mp hd with h | h
      · exact ⟨c, List.mem_cons_self, by rw [h]; exact e1⟩
      · obtain ⟨c0, m, e⟩ := ih d h
        exact ⟨c0, List.mem_cons_of_mem _ m, e⟩

/-- a reported pre-LIB has `q` covering positions in the window the walk leaves (the counting part of `prelib_quorum`). -/
theorem walk_quorum (q cr : Nat) (b : BI) (bp : String) (w : List CI) (bi : BI) (hq : q ≤ cr) (hinv : CoverInv q [] w)
    (hw : (walk b (⟨b, bp, cr⟩ :: w)).2 = some bi) :
    ∃ confirmers : List CI, confirmers.Sublist (walk b (⟨b, bp, cr⟩ :: w)).1 ∧ q ≤ confirmers.length ∧
      ∀ d ∈ confirmers, inRange d.bi bi.no = true := by
  have hinv' := walk_push_CoverInv q cr b bp w hq hinv
  obtain ⟨pre, c, post, hs, hc1, hc0⟩ := walk_some_split b _ bi hw
  have hcov := CoverInv_split q pre c post [] (by rw [← hs]; exact hinv')
  refine ⟨(pre ++ [c]).filter (fun d => inRange d.bi bi.no), ?_, ?_, ?_⟩
  · rw [hs]
    refine (List.filter_sublist).trans ?_
    exact List.Sublist.append (List.Sublist.refl pre) (by simp)
  · rw [hc0, hc1, Nat.zero_add] at hcov
    have e : cover (bi :: ((pre.map (·.bi)).reverse ++ [])) bi.no =
        ((pre ++ [c]).filter (fun d => inRange d.bi bi.no)).length := by
      unfold cover
      simp only [List.append_nil, List.filter_append, List.length_append, List.filter_cons, List.filter_nil]
      have e2 : (List.filter (fun b => inRange b bi.no) (pre.map (·.bi)).reverse).length =
          (List.filter (fun d : CI => inRange d.bi bi.no) pre).length := by
        rw [List.filter_reverse, List.length_reverse, List.filter_map, List.length_map]
        rfl
      rw [hc1]
      by_cases hh : inRange bi bi.no = true
      · rw [if_pos hh, if_pos hh]; simp only [List.length_cons, List.length_nil]; omega
      · rw [if_neg hh, if_neg hh]; simp only [List.length_nil]; omega
    omega
  · intro d hd
    simpa using (List.mem_filter.mp hd).2

/-- addConfirmInfo + update on a status whose window and entries are vouched: they stay so. -/
theorem connectStep_vouch (q : Nat) (blocks : List Blk) (ls : LS) (b : Blk) (hint : String) (hb : b.no ≠ 0) (hbs : b ∈ blocks)
    (hq : q ≤ ls.cr) (hinv : CoverInv q [] ls.confirms) (hw : WinStored blocks ls.confirms)
    (he : EntriesVouched q blocks ls.genesis ls.prpsd) :
    WinStored blocks (update (addConfirmInfo ls b) hint).1.confirms ∧
    EntriesVouched q blocks ls.genesis (update (addConfirmInfo ls b) hint).1.prpsd ∧
    (update (addConfirmInfo ls b) hint).1.genesis = ls.genesis ∧ (update (addConfirmInfo ls b) hint).1.lib = ls.lib ∧
    (∀ l, (update (addConfirmInfo ls b) hint).2 = some l → l = ls.genesis ∨ Vouched q blocks l) := by
  have hb' : (b.no == 0) = false := by simp [hb]
  -- the window with the new element
  have hw1 : WinStored blocks (⟨b.bi, b.bp, ls.cr⟩ :: ls.confirms) := by
    intro c hc
    rcases List.mem_cons.mp hc with rfl | hc
    · exact ⟨b, hbs, rfl, rfl⟩
    · exact hw c hc
  have hw2 : WinStored blocks (walk b.bi (⟨b.bi, b.bp, ls.cr⟩ :: ls.confirms)).1 := by
    intro c hc
    obtain ⟨c0, m, e1, e2⟩ := walk_keeps b.bi _ c hc
    obtain ⟨x, hx, f1, f2⟩ := hw1 c0 m
    exact ⟨x, hx, by rw [e1, f1], by rw [e2, f2]⟩
  -- the entries with the placeholder
  have he1 : EntriesVouched q blocks ls.genesis (match lookup b.bp ls.prpsd with
      | some _ => ls.prpsd
      | none => setP b.bp ⟨ls.genesis, ls.genesis⟩ ls.prpsd) := by
    intro kv hkv
    split at hkv
    · exact he kv hkv
    · rcases mem_setP hkv with e | e
      · exact Or.inl (by rw [e])
      · exact he kv e
  unfold addConfirmInfo
  simp only [hb', Bool.false_eq_true, if_false]
  unfold update
  simp only
  cases hwk : (walk b.bi (⟨b.bi, b.bp, ls.cr⟩ :: ls.confirms)).2 with
  | none => exact ⟨hw2, he1, by first | rfl | trivial, by first | rfl | trivial, by simp⟩
  | some bi =>
    simp only
    obtain ⟨cs, hsub, hlen, hcov⟩ := walk_quorum q ls.cr b.bi b.bp ls.confirms bi hq hinv hwk
    have hv : Vouched q blocks bi := ⟨cs, hlen, fun d hd => ⟨hcov d hd, hw2 d (hsub.subset hd)⟩⟩
    have he2 : EntriesVouched q blocks ls.genesis (setP b.bp ⟨bi, b.bi⟩ (match lookup b.bp ls.prpsd with
        | some _ => ls.prpsd
        | none => setP b.bp ⟨ls.genesis, ls.genesis⟩ ls.prpsd)) := by
      intro kv hkv
      rcases mem_setP hkv with e | e
      · exact Or.inr (by rw [e]; exact hv)
      · exact he1 kv e
    refine ⟨hw2, he2, by first | rfl | trivial, by first | rfl | trivial, ?_⟩
    intro l hl
    obtain ⟨kv, m, e⟩ := calcLIB_mem _ _ _ hl
    rw [← e]; exact he2 kv m

theorem gc_vouch (q : Nat) (blocks : List Blk) (g : BI) (t : LS) (bps : List String) (hw : WinStored blocks t.confirms)
    (he : EntriesVouched q blocks g t.prpsd) :
    WinStored blocks (gc t bps).confirms ∧ EntriesVouched q blocks g (gc t bps).prpsd := by
  unfold gc
  refine ⟨?_, ?_⟩
  · intro c hc
    simp only at hc
    obtain ⟨tt, ht⟩ := dropOldLe_prefix t.lib.no t.confirms
    have : c ∈ dropOldLe t.lib.no t.confirms := List.mem_of_mem_take hc
    exact hw c (by rw [ht]; exact List.mem_append_left _ this)
  · intro kv hkv
    simp only at hkv
    split at hkv
    · exact he kv hkv
    · exact he kv (List.mem_filter.mp hkv).1

theorem blockByNo_stored {n : Node} {i : Nat} {b : Blk} (h : blockByNo n i = some b) : b ∈ n.blocks := by
  unfold blockByNo at h
  cases hh : hashByNo n i with
  | none => simp [hh] at h
  | some id =>
    simp only [hh, Option.bind_some] at h
    exact (findBlk_some h).1

theorem replay_vouch (q : Nat) (n : Node) (hs : StoreOk n) :
    ∀ (cnt i : Nat) (tmp r : LS), i ≠ 0 → q ≤ tmp.cr → CoverInv q [] tmp.confirms → WinStored n.blocks tmp.confirms →
      EntriesVouched q n.blocks tmp.genesis tmp.prpsd → replay n tmp i cnt = some r →
      WinStored n.blocks r.confirms ∧ EntriesVouched q n.blocks tmp.genesis r.prpsd
  | 0, _, tmp, r, _, _, _, hw, he, hr => by
    simp only [replay, Option.some.injEq] at hr
    rw [← hr]; exact ⟨hw, he⟩
  | cnt + 1, i, tmp, r, hi, hq, hc, hw, he, hr => by
    unfold replay at hr
    cases hb : blockByNo n i with
    | none => simp [hb] at hr
    | some b =>
      simp only [hb] at hr
      have hno := blockByNo_no_ne_zero hs hi hb
      obtain ⟨c1, c2⟩ := connectStep_CoverInv q tmp b "" hno hq hc
      obtain ⟨v1, v2, v3, _, _⟩ := connectStep_vouch q n.blocks tmp b "" hno (blockByNo_stored hb) hq hc hw he
      have := replay_vouch q n hs cnt (i + 1) _ r (by omega) (by rw [c2]; exact hq) c1 v1 (by rw [v3]; exact v2) hr
      rw [v3] at this
      exact this

theorem mem_overwriteP' : ∀ (src dst : List (String × PL)) (kv : String × PL),
    kv ∈ overwriteP dst src → kv ∈ dst ∨ kv ∈ src
  | [], _, _, h => Or.inl h
  | (k, v) :: t, dst, kv, h => by
    unfold overwriteP at h
    rcases mem_overwriteP' t _ kv h with h1 | h1
    · split at h1
      · rcases mem_setP h1 with e | e
        · exact Or.inr (by rw [e]; exact List.mem_cons_self)
        · exact Or.inl e
      · exact Or.inl h1
    · exact Or.inr (List.mem_cons_of_mem _ h1)

/-- `load` (rollback, boot loader) keeps window and entries vouched; `ls.genesis = n.genesis` so that the replayed placeholders
are the status' own. -/
theorem load_vouch (q : Nat) (n : Node) (hs : StoreOk n) (ls : LS) (e : Nat) (hq : q ≤ ls.cr) (hg : ls.genesis = n.genesis)
    (he : EntriesVouched q n.blocks ls.genesis ls.prpsd) :
    WinStored n.blocks (load n ls e).confirms ∧ EntriesVouched q n.blocks ls.genesis (load n ls e).prpsd := by
  unfold load
  simp only
  split
  · exact ⟨(by intro c hc; cases hc), he⟩
  · split
    · exact ⟨(by intro c hc; cases hc), he⟩
    · rename_i tmp ht
      have htmp : WinStored n.blocks tmp.confirms ∧ EntriesVouched q n.blocks n.genesis tmp.prpsd := by
        unfold loadPlibStatus at ht
        split at ht
        · simp at ht
        · split at ht
          · simp at ht
          · refine replay_vouch q n hs _ _ (newLSWithConfirms n.genesis n.self ls.cr) tmp ?_ ?_ (CoverInv_nil _) ?_ ?_ ht
            · split <;> simp_all
            · simpa [newLSWithConfirms] using hq
            · intro c hc; simp [newLSWithConfirms, newLS] at hc
            · intro kv hkv; simp [newLSWithConfirms, newLS] at hkv
      refine ⟨?_, ?_⟩
      · intro c hc
        simp only at hc
        split at hc
        · cases hc
        · exact htmp.1 c hc
      · intro kv hkv
        simp only at hkv
        rcases mem_overwriteP' _ _ kv hkv with h1 | h1
        · exact he kv h1
        · rw [hg]; exact htmp.2 kv h1

/-! ### the invariant along histories -/

structure VouchInv (k : Nat) (n : Node) : Prop where
  lsW : WinStored n.blocks n.ls.confirms
  blW : WinStored n.blocks n.bl.confirms
  lsE : EntriesVouched (confirmsRequired k) n.blocks n.genesis n.ls.prpsd
  blE : EntriesVouched (confirmsRequired k) n.blocks n.genesis n.bl.prpsd
  lsL : LibOk (confirmsRequired k) n.blocks n.genesis n.ls.lib
  blL : LibOk (confirmsRequired k) n.blocks n.genesis n.bl.lib
  sv : ∀ p lib lpb, n.saved = some (p, lib, lpb) →
    EntriesVouched (confirmsRequired k) n.blocks n.genesis p ∧ LibOk (confirmsRequired k) n.blocks n.genesis lib

/-- the block passed to `Status.Update` is a stored block (the chain service stores a block before it executes it). -/
def UpdStored (n : Node) : Op → Prop
  | .update b _ => b ∈ n.blocks
  | _ => True

theorem apply_NodeInv (k : Nat) (n : Node) (op : Op) (hop : op.Valid) (h : NodeInv k n) : NodeInv k (n.apply op) := by
  have hs := apply_StoreOk n op hop h.store
  cases op with
  | blk b =>
    have : (n.apply (.blk b)).gbps = n.gbps ∧ (n.apply (.blk b)).size = n.size ∧ (n.apply (.blk b)).ls = n.ls ∧
        (n.apply (.blk b)).bl = n.bl := by
      simp only [Node.apply]; split <;> exact ⟨rfl, rfl, rfl, rfl⟩
    obtain ⟨g1, g2, g3, g4⟩ := this
    exact ⟨hs, by rw [g1]; exact h.gb, by rw [g2]; exact h.sz, by rw [g3]; exact h.lsCr, by rw [g4]; exact h.blCr,
      by rw [g3]; exact h.lsW, by rw [g4]; exact h.blW⟩
  | update b hint => exact statusUpdate_NodeInv k n b hint hop.1 h
  | connect b => exact ⟨hs, h.gb, h.sz, h.lsCr, h.blCr, h.lsW, h.blW⟩
  | swap bs =>
    have : (n.apply (.swap bs)).gbps = n.gbps ∧ (n.apply (.swap bs)).size = n.size ∧ (n.apply (.swap bs)).ls = n.ls ∧
        (n.apply (.swap bs)).bl = n.bl := by
      simp only [Node.apply, swap]
      cases bs with
      | nil => exact ⟨rfl, rfl, rfl, rfl⟩
      | cons t r => simp only; split <;> exact ⟨rfl, rfl, rfl, rfl⟩
    obtain ⟨g1, g2, g3, g4⟩ := this
    exact ⟨hs, by rw [g1]; exact h.gb, by rw [g2]; exact h.sz, by rw [g3]; exact h.lsCr, by rw [g4]; exact h.blCr,
      by rw [g3]; exact h.lsW, by rw [g4]; exact h.blW⟩
  | restart => exact restart_NodeInv k n h.store h.gb

theorem statusLoad_vouch {k : Nat} {n : Node} (h : VouchInv k n) (hn : NodeInv k n) (hid : IdInv n) :
    WinStored n.blocks (statusLoad n).ls.confirms ∧
    EntriesVouched (confirmsRequired k) n.blocks n.genesis (statusLoad n).ls.prpsd ∧
    LibOk (confirmsRequired k) n.blocks n.genesis (statusLoad n).ls.lib ∧
    (statusLoad n).ls.genesis = n.genesis ∧ (statusLoad n).ls.cr = confirmsRequired k ∧
    CoverInv (confirmsRequired k) [] (statusLoad n).ls.confirms ∧
    (statusLoad n).blocks = n.blocks ∧ (statusLoad n).genesis = n.genesis ∧ (statusLoad n).bl = n.bl ∧
    (statusLoad n).saved = n.saved ∧ StoreOk (statusLoad n) ∧ (statusLoad n).gbps = n.gbps := by
  unfold statusLoad
  split
  · exact ⟨h.lsW, h.lsE, h.lsL, hid.1, hn.lsCr, hn.lsW, rfl, rfl, rfl, rfl, hn.store, rfl⟩
  · exact ⟨h.blW, h.blE, h.blL, hid.2.2.1, hn.blCr, hn.blW, rfl, rfl, rfl, rfl, hn.store, rfl⟩

theorem statusUpdate_vouch {k : Nat} {n : Node} (b : Blk) (hint : String) (hb : b.no ≠ 0) (hbs : b ∈ n.blocks)
    (h : VouchInv k n) (hn : NodeInv k n) (hid : IdInv n) : VouchInv k (statusUpdate n b hint) := by
  obtain ⟨w, e, l, g, cr, cov, m1, m2, m3, m4, m5, m6⟩ := statusLoad_vouch h hn hid
  unfold statusUpdate
  simp only
  generalize statusLoad n = m at *
  split
  · split
    · -- panicked: nothing changes
      exact ⟨by rw [m1]; exact w, by rw [m1, m3]; exact h.blW, by rw [m1, m2]; exact e, by rw [m1, m2, m3]; exact h.blE,
        by rw [m1, m2]; exact l, by rw [m1, m2, m3]; exact h.blL, by rw [m1, m2, m4]; exact h.sv⟩
    · obtain ⟨v1, v2, v3, v4, v5⟩ := connectStep_vouch (confirmsRequired k) n.blocks m.ls b hint hb hbs (by rw [cr]; exact Nat.le_refl _) cov w
        (by rw [g]; exact e)
      rw [g] at v2 v5
      generalize update (addConfirmInfo m.ls b) hint = u at v1 v2 v3 v4 v5 ⊢
      obtain ⟨ls2, lib⟩ := u
      simp only at v1 v2 v3 v4 v5 ⊢
      have hl2 : LibOk (confirmsRequired k) n.blocks n.genesis ls2.lib := by rw [v4]; exact l
      refine ⟨?_, by rw [m1, m3]; exact h.blW, ?_, by rw [m1, m2, m3]; exact h.blE, ?_, by rw [m1, m2, m3]; exact h.blL,
        by rw [m1, m2, m4]; exact h.sv⟩
      · show WinStored m.blocks (gc _ []).confirms
        rw [m1]
        cases lib with
        | none => exact (gc_vouch _ _ n.genesis ls2 [] v1 v2).1
        | some x =>
          simp only
          split
          · exact (gc_vouch _ _ n.genesis ls2 [] v1 v2).1
          · exact (gc_vouch _ _ n.genesis { ls2 with lib := x } [] v1 v2).1
      · show EntriesVouched _ m.blocks m.genesis (gc _ []).prpsd
        rw [m1, m2]
        cases lib with
        | none => exact (gc_vouch _ _ n.genesis ls2 [] v1 v2).2
        | some x =>
          simp only
          split
          · exact (gc_vouch _ _ n.genesis ls2 [] v1 v2).2
          · exact (gc_vouch _ _ n.genesis { ls2 with lib := x } [] v1 v2).2
      · show LibOk _ m.blocks m.genesis (gc _ []).lib
        rw [m1, m2]
        cases lib with
        | none => simpa [gc] using hl2
        | some x =>
          simp only
          split
          · simpa [gc] using hl2
          · simp only [gc]
            rcases v5 x rfl with e1 | e1
            · exact Or.inr (Or.inl e1)
            · exact Or.inr (Or.inr e1)
  · -- rollback branch
    have hbm : ∀ x ∈ m.blocks, x ∈ n.blocks := by rw [m1]; exact fun x hx => hx
    obtain ⟨l1, l2⟩ := load_vouch (confirmsRequired k) m m5 m.ls b.no (by rw [cr]; exact Nat.le_refl _) (by rw [g, m2])
      (by rw [m1, g]; exact e)
    rw [m1] at l1
    rw [m1, g] at l2
    have hlib : (load m m.ls b.no).lib = m.ls.lib := (load_exact m m.ls b.no).1
    refine ⟨?_, by rw [m1, m3]; exact h.blW, ?_, by rw [m1, m2, m3]; exact h.blE, ?_, by rw [m1, m2, m3]; exact h.blL,
      by rw [m1, m2, m4]; exact h.sv⟩
    · show WinStored m.blocks (gc (load m m.ls b.no) m.gbps).confirms
      rw [m1]; exact (gc_vouch _ _ n.genesis _ _ l1 l2).1
    · show EntriesVouched _ m.blocks m.genesis (gc (load m m.ls b.no) m.gbps).prpsd
      rw [m1, m2]; exact (gc_vouch _ _ n.genesis _ _ l1 l2).2
    · show LibOk _ m.blocks m.genesis (gc (load m m.ls b.no) m.gbps).lib
      rw [m1, m2]
      simp only [gc, hlib]; exact l

theorem restart_vouch {k : Nat} {n : Node} (h : VouchInv k n) (hn : NodeInv k n) : VouchInv k (restart n) := by
  have hfresh : ∀ c, WinStored n.blocks (newLS n.genesis n.self c).confirms ∧
      EntriesVouched (confirmsRequired k) n.blocks n.genesis (newLS n.genesis n.self c).prpsd := by
    intro c
    exact ⟨by intro x hx; simp [newLS] at hx, by intro kv hkv; simp [newLS] at hkv⟩
  have hbl : WinStored n.blocks (restart n).bl.confirms ∧
      EntriesVouched (confirmsRequired k) n.blocks n.genesis (restart n).bl.prpsd ∧
      LibOk (confirmsRequired k) n.blocks n.genesis (restart n).bl.lib := by
    unfold restart
    simp only
    cases hs : n.saved with
    | none =>
      exact ⟨by intro x hx; simp [newLSWithConfirms, newLS] at hx, by intro kv hkv; simp [newLSWithConfirms, newLS] at hkv,
        Or.inl (by simp [newLSWithConfirms, newLS])⟩
    | some v =>
      obtain ⟨p, lib, lpb⟩ := v
      obtain ⟨s1, s2⟩ := h.sv p lib lpb hs
      simp only
      obtain ⟨l1, l2⟩ := load_vouch (confirmsRequired k) n hn.store
        { newLSWithConfirms n.genesis n.self (newLS n.genesis n.self n.gbps.length).cr with prpsd := p, lib := lib, lpb := lpb } n.latest
        (by simp [newLSWithConfirms, newLS, hn.gb]) (by simp [newLSWithConfirms, newLS]) (by simpa [newLSWithConfirms, newLS] using s1)
      refine ⟨l1, by simpa [newLSWithConfirms, newLS] using l2, ?_⟩
      rw [(load_exact n _ n.latest).1]
      exact s2
  exact ⟨(hfresh _).1, hbl.1, (hfresh _).2, hbl.2.1, Or.inl (by simp [restart, newLS]), hbl.2.2, h.sv⟩

theorem apply_vouch {k : Nat} {n : Node} (op : Op) (hop : op.Valid) (hst : UpdStored n op) (h : VouchInv k n)
    (hn : NodeInv k n) (hid : IdInv n) : VouchInv k (n.apply op) := by
  cases op with
  | blk b =>
    simp only [Node.apply]
    split
    · exact h
    · have hm : ∀ x ∈ n.blocks, x ∈ b :: n.blocks := fun x hx => List.mem_cons_of_mem _ hx
      have hE : ∀ p, EntriesVouched (confirmsRequired k) n.blocks n.genesis p →
          EntriesVouched (confirmsRequired k) (b :: n.blocks) n.genesis p := by
        intro p hp kv hkv
        rcases hp kv hkv with e | e
        · exact Or.inl e
        · exact Or.inr (Vouched_mono hm e)
      have hL : ∀ l, LibOk (confirmsRequired k) n.blocks n.genesis l → LibOk (confirmsRequired k) (b :: n.blocks) n.genesis l := by
        intro l hl
        rcases hl with e | e | e
        · exact Or.inl e
        · exact Or.inr (Or.inl e)
        · exact Or.inr (Or.inr (Vouched_mono hm e))
      exact ⟨fun c hc => Stored_mono hm (h.lsW c hc), fun c hc => Stored_mono hm (h.blW c hc), hE _ h.lsE, hE _ h.blE,
        hL _ h.lsL, hL _ h.blL, fun p lib lpb hs => ⟨hE _ (h.sv p lib lpb hs).1, hL _ (h.sv p lib lpb hs).2⟩⟩
  | update b hint => exact statusUpdate_vouch b hint hop.1 hst h hn hid
  | connect b =>
    simp only [Node.apply, connect]
    have hblocks : ∀ x ∈ n.blocks, x ∈ (if (findBlk n.blocks b.id).isSome then n.blocks else b :: n.blocks) := by
      intro x hx; split
      · exact hx
      · exact List.mem_cons_of_mem _ hx
    have hE : ∀ p, EntriesVouched (confirmsRequired k) n.blocks n.genesis p →
        EntriesVouched (confirmsRequired k) (if (findBlk n.blocks b.id).isSome then n.blocks else b :: n.blocks) n.genesis p := by
      intro p hp kv hkv
      rcases hp kv hkv with e | e
      · exact Or.inl e
      · exact Or.inr (Vouched_mono hblocks e)
    have hL : ∀ l, LibOk (confirmsRequired k) n.blocks n.genesis l →
        LibOk (confirmsRequired k) (if (findBlk n.blocks b.id).isSome then n.blocks else b :: n.blocks) n.genesis l := by
      intro l hl
      rcases hl with e | e | e
      · exact Or.inl e
      · exact Or.inr (Or.inl e)
      · exact Or.inr (Or.inr (Vouched_mono hblocks e))
    refine ⟨fun c hc => Stored_mono hblocks (h.lsW c hc), fun c hc => Stored_mono hblocks (h.blW c hc), hE _ h.lsE, hE _ h.blE,
      hL _ h.lsL, hL _ h.blL, ?_⟩
    intro p lib lpb hs
    simp only [savedOf, Option.some.injEq, Prod.mk.injEq] at hs
    obtain ⟨e1, e2, _⟩ := hs
    rw [← e1, ← e2]
    exact ⟨hE _ h.lsE, hL _ h.lsL⟩
  | swap bs =>
    simp only [Node.apply, swap]
    cases bs with
    | nil => exact h
    | cons t r =>
      simp only
      split
      · exact h
      · refine ⟨h.lsW, h.blW, h.lsE, h.blE, h.lsL, h.blL, ?_⟩
        intro p lib lpb hs
        simp only [savedOf, Option.some.injEq, Prod.mk.injEq] at hs
        obtain ⟨e1, e2, _⟩ := hs
        rw [← e1, ← e2]
        exact ⟨h.lsE, h.lsL⟩
  | restart => exact restart_vouch h hn

/-- every operation is valid and every block passed to `Status.Update` has been stored. -/
def StoredHist : Node → List Op → Prop
  | _, [] => True
  | n, op :: rest => op.Valid ∧ UpdStored n op ∧ StoredHist (n.apply op) rest

theorem run_vouch (k : Nat) : ∀ (ops : List Op) (n : Node), StoredHist n ops → VouchInv k n → NodeInv k n → IdInv n →
    VouchInv k (n.run ops) ∧ NodeInv k (n.run ops) ∧ IdInv (n.run ops)
  | [], _, _, h, hn, hid => ⟨h, hn, hid⟩
  | op :: rest, n, hh, h, hn, hid => by
    obtain ⟨hv, hst, hrest⟩ := hh
    show VouchInv k ((n.apply op).run rest) ∧ NodeInv k ((n.apply op).run rest) ∧ IdInv ((n.apply op).run rest)
    exact run_vouch k rest _ hrest (apply_vouch op hv hst h hn hid) (apply_NodeInv k n op hv hn) (apply_IdInv op hid).1

theorem newNode_vouch (k : Nat) (self : String) (gbps : List String) : VouchInv k (newNode self gbps) := by
  unfold newNode
  simp only [restart]
  refine ⟨by intro c hc; simp [newLS] at hc, by intro c hc; simp [newLSWithConfirms, newLS] at hc,
    by intro kv hkv; simp [newLS] at hkv, by intro kv hkv; simp [newLSWithConfirms, newLS] at hkv,
    Or.inl (by simp [newLS]), Or.inl (by simp [newLSWithConfirms, newLS]), by simp⟩


instance decOpValid (op : Op) : Decidable op.Valid := by
  cases op <;> dsimp only [Op.Valid] <;> infer_instance

instance decUpdStored (n : Node) (op : Op) : Decidable (UpdStored n op) := by
  cases op <;> dsimp only [UpdStored] <;> infer_instance

instance decStoredHist : (n : Node) → (ops : List Op) → Decidable (StoredHist n ops)
  | _, [] => isTrue trivial
  | n, op :: rest =>
    have := decStoredHist (n.apply op) rest
    inferInstanceAs (Decidable (op.Valid ∧ UpdStored n op ∧ StoredHist (n.apply op) rest))

end Aergo.Lib
