/-
Helper lemmas for the `Merkle` layer (used by Props/C19). Core only.
-/
import Aergo.Model.Merkle

namespace Aergo.Merkle
variable {α : Type}

/-- The child pairs hashed on one level (an odd last node is paired with itself). -/
def levelPairs : List α → List (α × α)
  | a :: b :: rest => (a, b) :: levelPairs rest
  | [a] => [(a, a)]
  | [] => []

/-- Every child pair the branch function is applied to while reducing `l` (same recursion as `reduceB`). -/
def hashedB (h : α → α → α) : Nat → List α → List (α × α)
  | 0, _ => []
  | fuel + 1, l => if l.length ≤ 1 then [] else levelPairs l ++ hashedB h fuel (levelB h l)

/-- … while computing `rootB h zero xs`: a finite list computed from `xs`. -/
def hashed (h : α → α → α) (xs : List α) : List (α × α) := hashedB h xs.length xs

/-- An explicit collision of the branch function **between two given finite lists of child pairs**
(never an unrestricted `∃`, which would be true of any fixed-output-length hash by counting). -/
def CollOn (h : α → α → α) (A B : List (α × α)) : Prop :=
  ∃ p ∈ A, ∃ q ∈ B, p ≠ q ∧ h p.1 p.2 = h q.1 q.2

theorem CollOn.mono {h : α → α → α} {A A' B B' : List (α × α)} (hA : ∀ p ∈ A, p ∈ A') (hB : ∀ q ∈ B, q ∈ B')
    (hc : CollOn h A B) : CollOn h A' B' := by
  obtain ⟨p, hp, q, hq, hne, he⟩ := hc
  exact ⟨p, hA p hp, q, hB q hq, hne, he⟩

theorem levelB_length (h : α → α → α) (xs : List α) : (levelB h xs).length = (xs.length + 1) / 2 := by
  fun_induction levelB h xs with
  | case1 a b rest ih => simp [ih]; omega
  | case2 a => simp
  | case3 => simp

theorem levelB_all (h : α → α → α) (P : α → Prop) (hP : ∀ a b, P a → P b → P (h a b)) (xs : List α)
    (hx : ∀ x ∈ xs, P x) : ∀ z ∈ levelB h xs, P z := by
  fun_induction levelB h xs with
  | case1 a b rest ih =>
    intro z hz
    simp only [List.mem_cons] at hz hx
    rcases hz with rfl | hz
    · exact hP _ _ (hx a (.inl rfl)) (hx b (.inr (.inl rfl)))
    · exact ih (fun x hxr => hx x (.inr (.inr hxr))) z hz
  | case2 a =>
    intro z hz
    simp only [List.mem_cons, List.not_mem_nil, or_false] at hz hx
    rw [hz]; exact hP _ _ (hx a rfl) (hx a rfl)
  | case3 => intro z hz; cases hz

theorem levelPairs_all (P : α → Prop) (xs : List α) (hx : ∀ x ∈ xs, P x) :
    ∀ p ∈ levelPairs xs, P p.1 ∧ P p.2 := by
  fun_induction levelPairs xs with
  | case1 a b rest ih =>
    intro p hp
    simp only [List.mem_cons] at hp hx
    rcases hp with rfl | hp
    · exact ⟨hx a (.inl rfl), hx b (.inr (.inl rfl))⟩
    · exact ih (fun x m => hx x (.inr (.inr m))) p hp
  | case2 a =>
    intro p hp
    simp only [List.mem_cons, List.not_mem_nil, or_false] at hp hx
    rw [hp]; exact ⟨hx a rfl, hx a rfl⟩
  | case3 => intro p hp; cases hp

theorem hashedB_all (h : α → α → α) (P : α → Prop) (hP : ∀ a b, P a → P b → P (h a b)) (fuel : Nat)
    (xs : List α) (hx : ∀ x ∈ xs, P x) : ∀ p ∈ hashedB h fuel xs, P p.1 ∧ P p.2 := by
  induction fuel generalizing xs with
  | zero => intro p hp; cases hp
  | succ f ih =>
    intro p hp
    simp only [hashedB] at hp
    split at hp
    · cases hp
    · rcases List.mem_append.mp hp with h1 | h1
      · exact levelPairs_all P xs hx p h1
      · exact ih _ (levelB_all h P hP xs hx) p h1

theorem levelB_inj (h : α → α → α) (xs ys : List α) (hl : xs.length = ys.length)
    (he : levelB h xs = levelB h ys) : xs = ys ∨ CollOn h (levelPairs xs) (levelPairs ys) := by
  fun_induction levelB h xs generalizing ys with
  | case1 a b rest ih =>
    match ys, hl with
    | c :: d :: rest', hl =>
      simp only [levelB, List.cons.injEq] at he
      by_cases hp : (a, b) = (c, d)
      · simp only [Prod.mk.injEq] at hp
        rcases ih rest' (by simpa using hl) he.2 with h1 | h1
        · left; rw [hp.1, hp.2, h1]
        · right
          exact h1.mono (fun p m => List.mem_cons_of_mem _ m) (fun q m => List.mem_cons_of_mem _ m)
      · right
        exact ⟨(a, b), by simp [levelPairs], (c, d), by simp [levelPairs], hp, he.1⟩
  | case2 a =>
    match ys, hl with
    | [c], _ =>
      simp only [levelB, List.cons.injEq, and_true] at he
      by_cases hp : a = c
      · left; rw [hp]
      · right
        exact ⟨(a, a), by simp [levelPairs], (c, c), by simp [levelPairs], by simp [hp], he⟩
  | case3 =>
    match ys, hl with
    | [], _ => left; rfl

theorem reduceB_inj (h : α → α → α) (fuel : Nat) (xs ys : List α) (hl : xs.length = ys.length)
    (he : reduceB h fuel xs = reduceB h fuel ys) :
    xs = ys ∨ CollOn h (hashedB h fuel xs) (hashedB h fuel ys) := by
  induction fuel generalizing xs ys with
  | zero => left; simpa [reduceB] using he
  | succ f ih =>
    simp only [reduceB, hl] at he
    by_cases h1 : ys.length ≤ 1
    · simp only [h1, if_true] at he; left; exact he
    · simp only [h1, if_false] at he
      have h1x : ¬ xs.length ≤ 1 := by rw [hl]; exact h1
      simp only [hashedB, h1, h1x, if_false]
      rcases ih _ _ (by rw [levelB_length, levelB_length, hl]) he with h2 | h2
      · rcases levelB_inj h xs ys hl h2 with h3 | h3
        · exact .inl h3
        · right
          exact h3.mono (fun p m => List.mem_append_left _ m) (fun q m => List.mem_append_left _ m)
      · right
        exact h2.mono (fun p m => List.mem_append_right _ m) (fun q m => List.mem_append_right _ m)

theorem reduceB_length (h : α → α → α) (fuel : Nat) (xs : List α) (h1 : 1 ≤ xs.length)
    (h2 : xs.length ≤ 2 ^ fuel) : (reduceB h fuel xs).length = 1 := by
  induction fuel generalizing xs with
  | zero => simp only [reduceB]; simp at h2; omega
  | succ f ih =>
    simp only [reduceB]
    split
    · omega
    · apply ih
      · rw [levelB_length]; omega
      · rw [levelB_length]; rw [Nat.pow_succ] at h2; omega

/-- More fuel than needed changes nothing. -/
theorem reduceB_fuel (h : α → α → α) (f g : Nat) (xs : List α) (h2 : xs.length ≤ 2 ^ f) (hfg : f ≤ g) :
    reduceB h g xs = reduceB h f xs := by
  induction f generalizing xs g with
  | zero =>
    have : xs.length ≤ 1 := by simpa using h2
    cases g <;> simp [reduceB, this]
  | succ f ih =>
    match g, hfg with
    | g + 1, hfg =>
      simp only [reduceB]
      split
      · rfl
      · apply ih
        · rw [levelB_length]; rw [Nat.pow_succ] at h2; omega
        · omega

theorem levelB_append_even (h : α → α → α) (xs ys : List α) (hev : xs.length % 2 = 0) :
    levelB h (xs ++ ys) = levelB h xs ++ levelB h ys := by
  fun_induction levelB h xs with
  | case1 a b rest ih => simp only [List.cons_append, levelB]; rw [ih (by simp at hev; omega)]
  | case2 a => simp at hev
  | case3 => simp

theorem rootB_same_len (h : α → α → α) (zero : α) (xs ys : List α) (hl : xs.length = ys.length)
    (he : rootB h zero xs = rootB h zero ys) : xs = ys ∨ CollOn h (hashed h xs) (hashed h ys) := by
  match xs, ys, hl with
  | [], [], _ => left; rfl
  | x :: xs', y :: ys', hl =>
    simp only [rootB] at he
    have hx1 := reduceB_length h (x :: xs').length (x :: xs') (by simp) (Nat.le_of_lt Nat.lt_two_pow_self)
    have hy1 := reduceB_length h (y :: ys').length (y :: ys') (by simp) (Nat.le_of_lt Nat.lt_two_pow_self)
    unfold hashed
    rw [← hl] at hy1 he ⊢
    apply reduceB_inj h _ _ _ hl
    match hrx : reduceB h (x :: xs').length (x :: xs'), hry : reduceB h (x :: xs').length (y :: ys'), hx1, hy1 with
    | [r], [s], _, _ =>
      rw [hrx, hry] at he
      simp at he
      rw [he]

/-! ### the padded, nil-aware transcription equals `rootB` on entries without nil hashes -/

theorem level_replicate_none (h : α → α → α) (j : Nat) :
    level h (List.replicate (2 * j) (none : Option α)) = List.replicate j none := by
  induction j with
  | zero => simp [level]
  | succ j ih =>
    have : 2 * (j + 1) = (2 * j + 1) + 1 := by omega
    rw [this, List.replicate_succ, List.replicate_succ, level, ih]
    simp [pair, List.replicate_succ]

/-- non-nil nodes followed by nil nodes -/
def pre (ys : List α) (k : Nat) : List (Option α) := ys.map some ++ List.replicate k none

theorem level_pre (h : α → α → α) (ys : List α) (k : Nat) (hev : (ys.length + k) % 2 = 0) :
    level h (pre ys k) = pre (levelB h ys) (k / 2) := by
  fun_induction levelB h ys with
  | case1 a b rest ih =>
    simp only [pre, List.map_cons, List.cons_append, level, pair] at *
    rw [ih (by simp at hev; omega)]
  | case2 a =>
    obtain ⟨j, rfl⟩ : ∃ j, k = 2 * j + 1 := ⟨k / 2, by simp at hev; omega⟩
    simp only [pre, List.map_cons, List.map_nil, List.cons_append, List.nil_append, List.replicate_succ, level, pair]
    rw [level_replicate_none]
    congr 2; omega
  | case3 =>
    obtain ⟨j, rfl⟩ : ∃ j, k = 2 * j := ⟨k / 2, by simp at hev; omega⟩
    simp only [pre, List.map_nil, List.nil_append]
    rw [level_replicate_none]; congr 1; omega

theorem pre_length (ys : List α) (k : Nat) : (pre ys k).length = ys.length + k := by simp [pre]

theorem reduce_pre (h : α → α → α) (fuel : Nat) (ys : List α) (k m : Nat)
    (hT : ys.length + k = 2 ^ m) (hk : k < ys.length) :
    ∃ k', reduce h fuel (pre ys k) = pre (reduceB h fuel ys) k' := by
  induction fuel generalizing ys k m with
  | zero => exact ⟨k, rfl⟩
  | succ f ih =>
    simp only [reduce, reduceB, pre_length]
    by_cases h1 : ys.length + k ≤ 1
    · have : ys.length ≤ 1 := by omega
      simp only [h1, this, if_true]; exact ⟨k, rfl⟩
    · have h2 : ¬ ys.length ≤ 1 := by omega
      simp only [h1, h2, if_false]
      match m, hT with
      | 0, hT => simp at hT; omega
      | m + 1, hT =>
        rw [Nat.pow_succ] at hT
        rw [level_pre h ys k (by omega)]
        apply ih (levelB h ys) (k / 2) m
        · rw [levelB_length]; omega
        · rw [levelB_length]; omega

theorem leafCountLoop_spec (n fuel x j : Nat) (hx : x = 2 ^ j) (hlt : x < 2 * n)
    (hf : n ≤ x * 2 ^ fuel) :
    ∃ m, leafCountLoop n fuel x = 2 ^ m ∧ n ≤ leafCountLoop n fuel x ∧ leafCountLoop n fuel x < 2 * n := by
  induction fuel generalizing x j with
  | zero => exact ⟨j, by simpa [leafCountLoop] using ⟨hx, by simpa using hf, hlt⟩⟩
  | succ f ih =>
    simp only [leafCountLoop]
    split
    · apply ih (x * 2) (j + 1)
      · rw [hx, Nat.pow_succ]
      · omega
      · rw [Nat.pow_succ] at hf; rw [Nat.mul_assoc, Nat.mul_comm 2]; exact hf
    · exact ⟨j, hx, by omega, hlt⟩

/-- `getLeafCount n` is the power of two with `n ≤ · < 2n`. -/
theorem leafCount_spec (n : Nat) (hn : 1 ≤ n) :
    ∃ m, leafCount n = 2 ^ m ∧ n ≤ leafCount n ∧ leafCount n < 2 * n :=
  leafCountLoop_spec n n 1 0 rfl (by omega) (by simpa using Nat.le_of_lt Nat.lt_two_pow_self)

theorem reduceB_ne_nil (h : α → α → α) (fuel : Nat) (xs : List α) (hx : xs ≠ []) : reduceB h fuel xs ≠ [] := by
  induction fuel generalizing xs with
  | zero => simpa [reduceB] using hx
  | succ f ih =>
    simp only [reduceB]; split
    · exact hx
    · apply ih; intro hn
      have := congrArg List.length hn
      rw [levelB_length] at this
      have : xs.length = 0 := by simp at this; omega
      exact hx (List.eq_nil_of_length_eq_zero this)

/-- The 64-byte strings handed to `H` while computing the Merkle root of `xs` with `h l r = H (l ‖ r)`. -/
def hashedBytes (H : List UInt8 → List UInt8) (xs : List (List UInt8)) : List (List UInt8) :=
  (hashed (fun l r => H (l ++ r)) xs).map (fun p => p.1 ++ p.2)

end Aergo.Merkle
