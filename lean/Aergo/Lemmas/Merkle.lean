/-
Helper lemmas for the `Merkle` layer (used by Props/C19). Core only.
-/
import Aergo.Model.Merkle

namespace Aergo.Merkle
variable {α : Type}

/-- An explicit collision of the branch function among nodes satisfying `P` (for bytes: "has hash
length"): two different child pairs with the same parent. -/
def Coll (h : α → α → α) (P : α → Prop) : Prop :=
  ∃ a b c d, P a ∧ P b ∧ P c ∧ P d ∧ (a, b) ≠ (c, d) ∧ h a b = h c d

theorem levelB_length (h : α → α → α) (xs : List α) : (levelB h xs).length = (xs.length + 1) / 2 := by
  fun_induction levelB h xs with
  | case1 a b rest ih => simp [ih]; omega
  | case2 a => simp
  | case3 => simp

theorem levelB_all (h : α → α → α) (P : α → Prop) (hP : ∀ a b, P a → P b → P (h a b)) (xs : List α)
    (hx : ∀ x ∈ xs, P x) : ∀ z ∈ levelB h xs, P z := by
  fun_induction levelB h xs with
  | case1 a b rest ih =>
    intro z hz
    simp only [List.mem_cons] at hz hx
    rcases hz with rfl | hz
    · exact hP _ _ (hx a (.inl rfl)) (hx b (.inr (.inl rfl)))
    · exact ih (fun x hxr => hx x (.inr (.inr hxr))) z hz
  | case2 a =>
    intro z hz
    simp only [List.mem_cons, List.not_mem_nil, or_false] at hz hx
    rw [hz]; exact hP _ _ (hx a rfl) (hx a rfl)
  | case3 => intro z hz; cases hz

theorem levelB_inj (h : α → α → α) (P : α → Prop) (xs ys : List α) (hl : xs.length = ys.length)
    (hx : ∀ x ∈ xs, P x) (hy : ∀ y ∈ ys, P y)
    (he : levelB h xs = levelB h ys) : xs = ys ∨ Coll h P := by
  fun_induction levelB h xs generalizing ys with
  | case1 a b rest ih =>
    match ys, hl with
    | c :: d :: rest', hl =>
      simp only [levelB, List.cons.injEq] at he
      simp only [List.mem_cons] at hx hy
      by_cases hp : (a, b) = (c, d)
      · simp only [Prod.mk.injEq] at hp
        rcases ih rest' (by simpa using hl) (fun x m => hx x (.inr (.inr m)))
          (fun y m => hy y (.inr (.inr m))) he.2 with h1 | h1
        · left; rw [hp.1, hp.2, h1]
        · right; exact h1
      · right
        exact ⟨a, b, c, d, hx a (.inl rfl), hx b (.inr (.inl rfl)), hy c (.inl rfl),
          hy d (.inr (.inl rfl)), hp, he.1⟩
  | case2 a =>
    match ys, hl with
    | [c], _ =>
      simp only [levelB, List.cons.injEq, and_true] at he
      by_cases hp : a = c
      · left; rw [hp]
      · right
        exact ⟨a, a, c, c, hx a (by simp), hx a (by simp), hy c (by simp), hy c (by simp), by simp [hp], he⟩
  | case3 =>
    match ys, hl with
    | [], _ => left; rfl

theorem reduceB_inj (h : α → α → α) (P : α → Prop) (hP : ∀ a b, P a → P b → P (h a b)) (fuel : Nat)
    (xs ys : List α) (hl : xs.length = ys.length) (hx : ∀ x ∈ xs, P x) (hy : ∀ y ∈ ys, P y)
    (he : reduceB h fuel xs = reduceB h fuel ys) : xs = ys ∨ Coll h P := by
  induction fuel generalizing xs ys with
  | zero => left; simpa [reduceB] using he
  | succ f ih =>
    simp only [reduceB, hl] at he
    by_cases h1 : ys.length ≤ 1
    · simp only [h1, if_true] at he; left; exact he
    · simp only [h1, if_false] at he
      rcases ih _ _ (by rw [levelB_length, levelB_length, hl]) (levelB_all h P hP xs hx)
        (levelB_all h P hP ys hy) he with h2 | h2
      · exact levelB_inj h P xs ys hl hx hy h2
      · right; exact h2

theorem reduceB_length (h : α → α → α) (fuel : Nat) (xs : List α) (h1 : 1 ≤ xs.length)
    (h2 : xs.length ≤ 2 ^ fuel) : (reduceB h fuel xs).length = 1 := by
  induction fuel generalizing xs with
  | zero => simp only [reduceB]; simp at h2; omega
  | succ f ih =>
    simp only [reduceB]
    split
    · omega
    · apply ih
      · rw [levelB_length]; omega
      · rw [levelB_length]; rw [Nat.pow_succ] at h2; omega

/-- More fuel than needed changes nothing. -/
theorem reduceB_fuel (h : α → α → α) (f g : Nat) (xs : List α) (h2 : xs.length ≤ 2 ^ f) (hfg : f ≤ g) :
    reduceB h g xs = reduceB h f xs := by
  induction f generalizing xs g with
  | zero =>
    have : xs.length ≤ 1 := by simpa using h2
    cases g <;> simp [reduceB, this]
  | succ f ih =>
    match g, hfg with
    | g + 1, hfg =>
      simp only [reduceB]
      split
      · rfl
      · apply ih
        · rw [levelB_length]; rw [Nat.pow_succ] at h2; omega
        · omega

theorem levelB_append_even (h : α → α → α) (xs ys : List α) (hev : xs.length % 2 = 0) :
    levelB h (xs ++ ys) = levelB h xs ++ levelB h ys := by
  fun_induction levelB h xs with
  | case1 a b rest ih => simp only [List.cons_append, levelB]; rw [ih (by simp at hev; omega)]
  | case2 a => simp at hev
  | case3 => simp

theorem rootB_same_len (h : α → α → α) (P : α → Prop) (hP : ∀ a b, P a → P b → P (h a b)) (zero : α)
    (xs ys : List α) (hl : xs.length = ys.length) (hx : ∀ x ∈ xs, P x) (hy : ∀ y ∈ ys, P y)
    (he : rootB h zero xs = rootB h zero ys) : xs = ys ∨ Coll h P := by
  match xs, ys, hl with
  | [], [], _ => left; rfl
  | x :: xs', y :: ys', hl =>
    simp only [rootB] at he
    have hx1 := reduceB_length h (x :: xs').length (x :: xs') (by simp) (Nat.le_of_lt Nat.lt_two_pow_self)
    have hy1 := reduceB_length h (y :: ys').length (y :: ys') (by simp) (Nat.le_of_lt Nat.lt_two_pow_self)
    rw [← hl] at hy1 he
    apply reduceB_inj h P hP _ _ _ hl hx hy
    match hrx : reduceB h (x :: xs').length (x :: xs'), hry : reduceB h (x :: xs').length (y :: ys'), hx1, hy1 with
    | [r], [s], _, _ =>
      rw [hrx, hry] at he
      simp at he
      rw [he]

/-! ### the padded, nil-aware transcription equals `rootB` on entries without nil hashes -/

theorem level_replicate_none (h : α → α → α) (j : Nat) :
    level h (List.replicate (2 * j) (none : Option α)) = List.replicate j none := by
  induction j with
  | zero => simp [level]
  | succ j ih =>
    have : 2 * (j + 1) = (2 * j + 1) + 1 := by omega
    rw [this, List.replicate_succ, List.replicate_succ, level, ih]
    simp [pair, List.replicate_succ]

/-- non-nil nodes followed by nil nodes -/
def pre (ys : List α) (k : Nat) : List (Option α) := ys.map some ++ List.replicate k none

theorem level_pre (h : α → α → α) (ys : List α) (k : Nat) (hev : (ys.length + k) % 2 = 0) :
    level h (pre ys k) = pre (levelB h ys) (k / 2) := by
  fun_induction levelB h ys with
  | case1 a b rest ih =>
    simp only [pre, List.map_cons, List.cons_append, level, pair] at *
    rw [ih (by simp at hev; omega)]
  | case2 a =>
    obtain ⟨j, rfl⟩ : ∃ j, k = 2 * j + 1 := ⟨k / 2, by simp at hev; omega⟩
    simp only [pre, List.map_cons, List.map_nil, List.cons_append, List.nil_append, List.replicate_succ, level, pair]
    rw [level_replicate_none]
    congr 2; omega
  | case3 =>
    obtain ⟨j, rfl⟩ : ∃ j, k = 2 * j := ⟨k / 2, by simp at hev; omega⟩
    simp only [pre, List.map_nil, List.nil_append]
    rw [level_replicate_none]; congr 1; omega

theorem pre_length (ys : List α) (k : Nat) : (pre ys k).length = ys.length + k := by simp [pre]

theorem reduce_pre (h : α → α → α) (fuel : Nat) (ys : List α) (k m : Nat)
    (hT : ys.length + k = 2 ^ m) (hk : k < ys.length) :
    ∃ k', reduce h fuel (pre ys k) = pre (reduceB h fuel ys) k' := by
  induction fuel generalizing ys k m with
  | zero => exact ⟨k, rfl⟩
  | succ f ih =>
    simp only [reduce, reduceB, pre_length]
    by_cases h1 : ys.length + k ≤ 1
    · have : ys.length ≤ 1 := by omega
      simp only [h1, this, if_true]; exact ⟨k, rfl⟩
    · have h2 : ¬ ys.length ≤ 1 := by omega
      simp only [h1, h2, if_false]
      match m, hT with
      | 0, hT => simp at hT; omega
      | m + 1, hT =>
        rw [Nat.pow_succ] at hT
        rw [level_pre h ys k (by omega)]
        apply ih (levelB h ys) (k / 2) m
        · rw [levelB_length]; omega
        · rw [levelB_length]; omega

theorem leafCountLoop_spec (n fuel x j : Nat) (hx : x = 2 ^ j) (hlt : x < 2 * n)
    (hf : n ≤ x * 2 ^ fuel) :
    ∃ m, leafCountLoop n fuel x = 2 ^ m ∧ n ≤ leafCountLoop n fuel x ∧ leafCountLoop n fuel x < 2 * n := by
  induction fuel generalizing x j with
  | zero => exact ⟨j, by simpa [leafCountLoop] using ⟨hx, by simpa using hf, hlt⟩⟩
  | succ f ih =>
    simp only [leafCountLoop]
    split
    · apply ih (x * 2) (j + 1)
      · rw [hx, Nat.pow_succ]
      · omega
      · rw [Nat.pow_succ] at hf; rw [Nat.mul_assoc, Nat.mul_comm 2]; exact hf
    · exact ⟨j, hx, by omega, hlt⟩

/-- `getLeafCount n` is the power of two with `n ≤ · < 2n`. -/
theorem leafCount_spec (n : Nat) (hn : 1 ≤ n) :
    ∃ m, leafCount n = 2 ^ m ∧ n ≤ leafCount n ∧ leafCount n < 2 * n :=
  leafCountLoop_spec n n 1 0 rfl (by omega) (by simpa using Nat.le_of_lt Nat.lt_two_pow_self)

theorem reduceB_ne_nil (h : α → α → α) (fuel : Nat) (xs : List α) (hx : xs ≠ []) : reduceB h fuel xs ≠ [] := by
  induction fuel generalizing xs with
  | zero => simpa [reduceB] using hx
  | succ f ih =>
    simp only [reduceB]; split
    · exact hx
    · apply ih; intro hn
      have := congrArg List.length hn
      rw [levelB_length] at this
      have : xs.length = 0 := by simp at this; omega
      exact hx (List.eq_nil_of_length_eq_zero this)

end Aergo.Merkle
